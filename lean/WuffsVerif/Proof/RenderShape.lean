/-
C12, the Wuffs formatter: the output of the `Render` model is a list of well-formed `Piece`s
whose source tokens are exactly the input tokens (given well-formed tokens and comments and the
line structure `linesOK`: every source line keeps a token after its trailing semicolons are
stripped, one ";" is stripped iff the last token left asks for one, no listed bad pair).
Core Lean only.
-/
import WuffsVerif.Proof.RenderItems

namespace WuffsVerif.Render
open WuffsVerif.FmtToken WuffsVerif.Gen.C12

/-! ### the hypothesis on the line structure -/

/-- one source line `g` (all its tokens) -/
def lineOK (g : List Tok) : Bool :=
  let lt := (stripSemicolons g).1
  match lt.getLast? with
  | none => false
  | some last => (g.length - lt.length == (if last.implicitSemicolon then 1 else 0)) && noBadPairs none lt

/-- all source lines, grouped as `Render` groups them -/
def linesOK : Nat → List Tok → Bool
  | 0, _ => true
  | _ + 1, [] => true
  | f + 1, t0 :: rest =>
    lineOK (t0 :: rest.takeWhile (·.line == t0.line)) && linesOK f (rest.dropWhile (·.line == t0.line))

def wfComments (comments : Array Bytes) : Prop := ∀ c ∈ comments.toList, wfComment c = true

/-- more that `Render`'s pieces satisfy (used for the closure of the hypotheses under formatting,
`Proof/RenderClosure.lean`): no listed bad pair on the whole line (names included), and the last
token written is not a semicolon -/
def Piece.ok2 : Piece → Prop
  | .toks _ names _ lts _ _ =>
    noBadPairs none (names ++ lts) = true ∧ ∀ tl, lts.getLast? = some tl → tl.id ≠ idSemicolon
  | _ => True

/-! ### comments -/

theorem tabs_replicate (n : Int) : tabs n = List.replicate (4 * n).toNat 32 := rfl

/-- a comment `Render` writes: the entry of `comments`, non-empty -/
theorem commentText_shape (comments : Array Bytes) (hcm : wfComments comments) (line : Nat) (indent : Int) :
    ∃ com, com = getC comments line ∧ wfComment com = true ∧
      commentText comments line indent true = (if com.isEmpty then [] else tabs indent ++ stripTrailingSpaces com) ∧
      commentText comments line indent false = (if com.isEmpty then [] else 32 :: 32 :: stripTrailingSpaces com) := by
  unfold commentText getC
  cases h : comments[line]? with
  | none => exact ⟨[], rfl, rfl, rfl, rfl⟩
  | some com =>
    refine ⟨com, rfl, hcm com ?_, ?_, ?_⟩
    · have := Array.mem_of_getElem? h
      exact Array.mem_toList_iff.mpr this
    · simp only [↓reduceIte]
    · simp only [Bool.false_eq_true, ↓reduceIte]; rfl

theorem commentText_isEmpty (com : Bytes) (hw : wfComment com = true) (indent : Int) :
    (if com.isEmpty then [] else tabs indent ++ stripTrailingSpaces com).isEmpty = com.isEmpty := by
  by_cases hc : com.isEmpty = true
  · simp [hc]
  · have hne : com ≠ [] := by simpa using hc
    obtain ⟨y, hy, _⟩ := strip_wfComment hw hne
    simp [hc, hy]

/-- the pieces of the comment lines `flushComments` writes (with enough fuel: the comments of the
lines from `commentLine` up to `upto`, in order); the other fields it leaves alone -/
theorem flushComments_pieces (comments : Array Bytes) (hcm : wfComments comments) (ci : Int) (upto : Nat) :
    ∀ (f : Nat) (s : RSt), ∃ ps : List Piece,
      (flushComments comments ci upto f s).out = s.out ++ piecesBytes ps ∧
      ((∀ p ∈ ps, p.ok) ∧ (∀ p ∈ ps, p.ok2)) ∧ ps.flatMap Piece.src = [] ∧
      (flushComments comments ci upto f s).indent = s.indent ∧
      (flushComments comments ci upto f s).inStruct = s.inStruct ∧
      (flushComments comments ci upto f s).prevLineHanging = s.prevLineHanging ∧
      (upto - s.commentLine ≤ f →
        (flushComments comments ci upto f s).commentLine = max s.commentLine upto ∧
        ps.flatMap Piece.srcItems = cmtRange (getC comments) s.commentLine (upto - s.commentLine)) := by
  intro f
  induction f with
  | zero =>
    intro s
    refine ⟨[], by simp [flushComments, piecesBytes], ⟨by simp, by simp⟩, rfl, rfl, rfl, rfl, ?_⟩
    intro h
    have e : upto - s.commentLine = 0 := by omega
    rw [e]
    exact ⟨by simp only [flushComments]; omega, rfl⟩
  | succ f ih =>
    intro s
    rw [flushComments]
    split
    · rename_i hlt
      obtain ⟨com, hcom, hw, hct, _⟩ := commentText_shape comments hcm s.commentLine ci
      simp only
      rw [hct, commentText_isEmpty com hw]
      have hrange : upto - s.commentLine = (upto - (s.commentLine + 1)) + 1 := by omega
      by_cases hc : com.isEmpty = true
      · simp only [hc, ↓reduceIte]
        obtain ⟨ps, h1, h2, h3, h4, h5, h6, h7⟩ := ih { s with commentLine := s.commentLine + 1 }
        refine ⟨ps, h1, h2, h3, h4, h5, h6, ?_⟩
        intro hf
        obtain ⟨g1, g2⟩ := h7 (by simp only; omega)
        simp only at g1 g2
        refine ⟨by rw [g1]; omega, ?_⟩
        rw [g2, hrange, cmtRange, ← hcom, hc]
        simp
      · simp only [hc, Bool.false_eq_true, ↓reduceIte]
        have hne : com ≠ [] := by simpa using hc
        obtain ⟨ps, h1, h2, h3, h4, h5, h6, h7⟩ := ih { s with
          out := s.out ++ (if s.commentLine > s.prevLine + 1 then [10] else []) ++
            (tabs ci ++ stripTrailingSpaces com) ++ [10],
          varNameLength := 0, prevLine := s.commentLine, commentLine := s.commentLine + 1 }
        refine ⟨(if s.commentLine > s.prevLine + 1 then [Piece.blank] else []) ++
          Piece.comment (4 * ci).toNat com :: ps, ?_, ?_, ?_, h4, h5, h6, ?_⟩
        · rw [h1]
          simp only [piecesBytes, List.flatMap_append, List.flatMap_cons, Piece.bytes, tabs_replicate]
          split <;> simp [Piece.bytes, List.append_assoc]
        · refine ⟨?_, ?_⟩
          · intro p hp
            rw [List.mem_append] at hp
            rcases hp with hp | hp
            · split at hp
              · simp only [List.mem_singleton] at hp; subst hp; trivial
              · simp at hp
            · rcases List.mem_cons.mp hp with rfl | hp
              · exact ⟨hw, hne⟩
              · exact h2.1 p hp
          · intro p hp
            rw [List.mem_append] at hp
            rcases hp with hp | hp
            · split at hp
              · simp only [List.mem_singleton] at hp; subst hp; trivial
              · simp at hp
            · rcases List.mem_cons.mp hp with rfl | hp
              · trivial
              · exact h2.2 p hp
        · rw [List.flatMap_append, List.flatMap_cons, h3]
          split <;> simp [Piece.src]
        · intro hf
          obtain ⟨g1, g2⟩ := h7 (by simp only; omega)
          simp only at g1 g2
          refine ⟨by rw [g1]; omega, ?_⟩
          have hb : List.flatMap Piece.srcItems (if s.commentLine > s.prevLine + 1 then [Piece.blank] else []) = [] := by
            split <;> simp [Piece.srcItems, Piece.src, Piece.outComment]
          have hse : (stripTrailingSpaces com).isEmpty = false := by rw [strip_isEmpty hw]; simpa using hc
          rw [List.flatMap_append, List.flatMap_cons, hb, g2, hrange, cmtRange, ← hcom]
          simp [Piece.srcItems, Piece.src, Piece.outComment, hse, hc]
    · rename_i hge
      refine ⟨[], by simp [piecesBytes], ⟨by simp, by simp⟩, rfl, rfl, rfl, rfl, ?_⟩
      intro _
      have e : upto - s.commentLine = 0 := by omega
      rw [e]
      exact ⟨by omega, rfl⟩

/-! ### lists of tokens -/

theorem semicolon_entry_text :
    punctToks.all (fun e => e.1 != idSemicolon || e.2.1 == [59]) = true := by decide +kernel

theorem semicolon_text {t : Tok} (h : wfTok t = true) (hid : t.id = idSemicolon) : t.text = [59] := by
  cases hp : wfPunct t with
  | true =>
    obtain ⟨e, he, hei, het⟩ := wfPunct_entry hp
    have := List.all_eq_true.mp semicolon_entry_text e he
    rw [hei, hid] at this
    rw [← het]
    simpa using this
  | false =>
    exfalso
    have hpl : wfPlain t = true := by unfold wfTok at h; rw [hp] at h; simpa using h
    obtain ⟨f1, _⟩ := wfPlain_flags hpl
    unfold Tok.isTightLeft tokFlags at f1
    rw [hid] at f1
    have hlt : idSemicolon < nBuiltInIDs := by decide
    simp only [hlt, ↓reduceIte] at f1
    revert f1
    decide

theorem stripSemicolons_split (g : List Tok) :
    ∃ semis, g = (stripSemicolons g).1 ++ semis ∧ (∀ t ∈ semis, t.id = idSemicolon) ∧
      semis.length = g.length - (stripSemicolons g).1.length ∧
      (∀ tl, (stripSemicolons g).1.getLast? = some tl → tl.id ≠ idSemicolon) := by
  unfold stripSemicolons
  simp only
  refine ⟨(g.reverse.takeWhile (·.id == idSemicolon)).reverse, ?_, ?_, ?_, ?_⟩
  · have := List.takeWhile_append_dropWhile (p := fun t : Tok => t.id == idSemicolon) (l := g.reverse)
    have h2 := congrArg List.reverse this
    rw [List.reverse_append, List.reverse_reverse] at h2
    exact h2.symm
  · intro t ht
    rw [List.mem_reverse] at ht
    have := List.all_eq_true.mp (List.all_takeWhile (p := fun t : Tok => t.id == idSemicolon) (l := g.reverse)) t ht
    simpa using this
  · have := List.takeWhile_append_dropWhile (p := fun t : Tok => t.id == idSemicolon) (l := g.reverse)
    have h2 := congrArg List.length this
    simp only [List.length_append, List.length_reverse] at h2 ⊢
    omega
  · intro tl htl
    rw [List.getLast?_reverse] at htl
    have := List.head?_dropWhile_not (fun t : Tok => t.id == idSemicolon) g.reverse
    rw [htl] at this
    simpa using this

theorem noBadPairs_weaken (p : Option Tok) (l : List Tok) (h : noBadPairs p l = true) :
    noBadPairs none l = true := by
  cases l with
  | nil => rfl
  | cons t ts =>
    cases p with
    | none => exact h
    | some q =>
      unfold noBadPairs at h
      rw [Bool.and_eq_true] at h
      unfold noBadPairs
      exact h.2

theorem noBadPairs_drop (n : Nat) : ∀ (l : List Tok), noBadPairs none l = true →
    noBadPairs none (l.drop n) = true := by
  induction n with
  | zero => intro l h; simpa using h
  | succ n ih =>
    intro l h
    cases l with
    | nil => simpa using h
    | cons t ts =>
      rw [List.drop_succ_cons]
      apply ih
      unfold noBadPairs at h
      exact noBadPairs_weaken _ _ h

theorem findIdx?_lt {α : Type} (p : α → Bool) : ∀ (l : List α) (i : Nat), l.findIdx? p = some i → i < l.length := by
  intro l
  induction l with
  | nil => intro i h; simp at h
  | cons a as ih =>
    intro i h
    rw [List.findIdx?_cons] at h
    split at h
    · simp only [Option.some.injEq] at h; subst h; simp
    · simp only [Option.map_eq_some_iff] at h
      obtain ⟨j, hj, rfl⟩ := h
      have := ih j hj
      simp only [List.length_cons]; omega

theorem getLast?_drop {α : Type} (l : List α) (n : Nat) (h : n < l.length) :
    (l.drop n).getLast? = l.getLast? := by
  rw [List.getLast?_drop]
  simp [Nat.not_le.mpr h]

/-! ### source order -/

/-- token lines do not decrease -/
def SortedLines (ts : List Tok) : Prop := ts.Pairwise (fun a b => a.line ≤ b.line)

/-- `SortedLines`, decidable -/
def sortedLinesB : List Tok → Bool
  | [] => true
  | [_] => true
  | a :: b :: r => decide (a.line ≤ b.line) && sortedLinesB (b :: r)

theorem sortedLinesB_sound : ∀ (ts : List Tok), sortedLinesB ts = true → SortedLines ts := by
  intro ts
  induction ts with
  | nil => intro _; exact List.Pairwise.nil
  | cons a r ih =>
    intro h
    cases r with
    | nil => exact List.pairwise_singleton _ _
    | cons b r' =>
      unfold sortedLinesB at h
      rw [Bool.and_eq_true, decide_eq_true_eq] at h
      have hr := ih h.2
      unfold SortedLines at hr ⊢
      rw [List.pairwise_cons]
      refine ⟨?_, hr⟩
      intro x hx
      rcases List.mem_cons.mp hx with rfl | hx
      · exact h.1
      · rw [List.pairwise_cons] at hr
        exact Nat.le_trans h.1 (hr.1 x hx)

theorem getC_ge (comments : Array Bytes) (i : Nat) (h : comments.size ≤ i) : getC comments i = [] := by
  unfold getC
  have : comments[i]? = none := by simp; omega
  rw [this]; rfl

/-- after the tokens of the first line, the lines are greater -/
theorem sorted_dropWhile (t0 : Tok) (rest : List Tok) (h : SortedLines (t0 :: rest)) :
    ∀ t ∈ rest.dropWhile (·.line == t0.line), t0.line + 1 ≤ t.line := by
  unfold SortedLines at h
  rw [List.pairwise_cons] at h
  obtain ⟨h0, hr⟩ := h
  intro t ht
  have hsuf : rest.dropWhile (·.line == t0.line) <:+ rest := List.dropWhile_suffix _
  have hpw := hr.sublist hsuf.sublist
  cases hd : rest.dropWhile (·.line == t0.line) with
  | nil => rw [hd] at ht; simp at ht
  | cons x xs =>
    rw [hd] at ht hpw
    have hx : (x.line == t0.line) = false := by
      have := List.head?_dropWhile_not (fun a : Tok => a.line == t0.line) rest
      rw [hd] at this
      simpa using this
    have hxm : x ∈ rest := hsuf.subset (by rw [hd]; simp)
    have hx0 := h0 x hxm
    have hxne : x.line ≠ t0.line := by simpa using hx
    rw [List.pairwise_cons] at hpw
    rcases List.mem_cons.mp ht with rfl | htx
    · omega
    · have := hpw.1 t htx
      omega

theorem sorted_dropWhile_sorted (t0 : Tok) (rest : List Tok) (h : SortedLines (t0 :: rest)) :
    SortedLines (rest.dropWhile (·.line == t0.line)) := by
  unfold SortedLines at h ⊢
  rw [List.pairwise_cons] at h
  exact h.2.sublist (List.dropWhile_suffix _).sublist

/-- moving the cursor past a line: that line's comment comes first -/
theorem itemsF_advance (c : Nat → Bytes) (hi : Nat) (hEmpty : ∀ i, hi ≤ i → c i = []) (L : Nat) (src : List Tok)
    (h : ∀ t ∈ src, L + 1 ≤ t.line) :
    itemsF c hi L src = cmtRange c L 1 ++ itemsF c hi (L + 1) src := by
  cases src with
  | nil =>
    simp only [itemsF]
    by_cases hl : L < hi
    · have e : hi - L = 1 + (hi - (L + 1)) := by omega
      rw [e, cmtRange_add]
    · have e1 : hi - L = 0 := by omega
      have e2 : hi - (L + 1) = 0 := by omega
      rw [e1, e2, cmtRange_one, hEmpty L (by omega)]
      rfl
  | cons t r =>
    have ht := h t (by simp)
    simp only [itemsF]
    have e : t.line - L = 1 + (t.line - (L + 1)) := by omega
    rw [e, cmtRange_add, Nat.max_eq_right (by omega), Nat.max_eq_right ht, List.append_assoc]

/-! ### the loop -/

/-- `renderLoop` appends well-formed pieces whose source tokens are the tokens it was given. -/
theorem renderLoop_pieces (comments : Array Bytes) (hcm : wfComments comments) :
    ∀ (f : Nat) (s s' : RSt) (ts : List Tok), renderLoop comments f s ts = some s' →
      (∀ t ∈ ts, wfTok t = true) → linesOK f ts = true →
      ∃ ps : List Piece, s'.out = s.out ++ piecesBytes ps ∧ ((∀ p ∈ ps, p.ok) ∧ (∀ p ∈ ps, p.ok2)) ∧
        ps.flatMap Piece.src = ts ∧
        (SortedLines ts → (∀ t ∈ ts, s.commentLine ≤ t.line) →
          itemsF (getC comments) comments.size s.commentLine ts =
            ps.flatMap Piece.srcItems ++
              cmtRange (getC comments) s'.commentLine (comments.size - s'.commentLine)) := by
  intro f
  induction f with
  | zero => intro s s' ts h; simp [renderLoop] at h
  | succ f ih =>
    intro s s' ts h hwf hlines
    cases ts with
    | nil =>
      simp only [renderLoop, Option.some.injEq] at h
      subst h
      exact ⟨[], by simp [piecesBytes], ⟨by simp, by simp⟩, rfl, fun _ _ => by simp [itemsF]⟩
    | cons t0 rest =>
      rw [linesOK, Bool.and_eq_true] at hlines
      obtain ⟨hline, hrestOK⟩ := hlines
      rw [renderLoop] at h
      simp only [] at h
      obtain ⟨psF, hF1, hF2, hF3, hF4, hF5, hF6, hF7⟩ := flushComments_pieces comments hcm
        ((s.indent : Int) + if s.prevLineHanging then 2 else 0) t0.line (t0.line - s.commentLine + 1) s
      replace hF7 := hF7 (by omega)
      generalize flushComments comments ((s.indent : Int) + if s.prevLineHanging then 2 else 0) t0.line
        (t0.line - s.commentLine + 1) s = s1 at h hF1 hF4 hF5 hF6 hF7
      have hgline : ∀ t ∈ t0 :: rest.takeWhile (·.line == t0.line), t.line = t0.line := by
        intro t ht
        rcases List.mem_cons.mp ht with rfl | ht
        · rfl
        · have := List.all_eq_true.mp (List.all_takeWhile (p := fun x : Tok => x.line == t0.line) (l := rest)) t ht
          simpa using this
      have hts : t0 :: rest = (t0 :: rest.takeWhile (·.line == t0.line)) ++ rest.dropWhile (·.line == t0.line) := by
        simp
      generalize hg : t0 :: rest.takeWhile (·.line == t0.line) = g at h hline hts hgline
      obtain ⟨semis, hsplit, hsemi, hslen, hlastns⟩ := stripSemicolons_split g
      unfold lineOK at hline
      simp only at hline
      generalize (stripSemicolons g).2 = stripped at h
      generalize (stripSemicolons g).1 = lt at h hline hsplit hslen hlastns
      split at h
      · simp at hline
      · rename_i lt0 ltRest
        generalize hX : (if (lt0 :: ltRest).length < 4 then _ else _ : Bytes × List Tok × Bool × Nat) = X at h
        generalize hY : (if s1.prevLine < t0.line - 1 then _ else _ : Bytes × Nat) = Y at h hX
        -- the alignment block: indentation, names, padding; the other tokens
        generalize hB : ((Option.map (fun x => x.id) ltRest.head?).getD 0 == idConst || lt0.id == idVar || _ : Bool) = B at hX
        have hshape : ∃ (z : Int) (names : List Tok) (m : Nat),
            X.1 = tabs z ++ (namesBytes names ++ List.replicate m 32) ∧
            lt0 :: ltRest = names ++ X.2.1 ∧ X.2.1 ≠ [] ∧ X.2.1.getLast? = (lt0 :: ltRest).getLast? ∧
            noBadPairs none X.2.1 = true ∧ noBadPairs none (lt0 :: ltRest) = true := by
          have hnb : noBadPairs none (lt0 :: ltRest) = true := by
            cases hgl : (lt0 :: ltRest).getLast? with
            | none => simp at hgl
            | some last =>
              rw [hgl] at hline
              simp only [Bool.and_eq_true] at hline
              exact hline.2
          have hnil : namesBytes [] ++ List.replicate 0 32 = ([] : Bytes) := rfl
          rw [← hX]
          by_cases h4 : (lt0 :: ltRest).length < 4
          · rw [if_pos h4]
            exact ⟨_, [], 0, by rw [hnil, List.append_nil], by simp, by simp, rfl, hnb, hnb⟩
          · rw [if_neg h4]
            cases B with
            | false =>
              rw [if_neg (by simp)]
              exact ⟨_, [], 0, by rw [hnil, List.append_nil], by simp, by simp, rfl, hnb, hnb⟩
            | true =>
              rw [if_pos rfl]
              cases hcolon : findColon (lt0 :: ltRest) with
              | none =>
                exact ⟨_, [], 0, by rw [hnil, List.append_nil], by simp, by simp, rfl, hnb, hnb⟩
              | some colon =>
                have hlt := findIdx?_lt _ _ _ hcolon
                simp only []
                exact ⟨_, (lt0 :: ltRest).take colon, _,
                  by rw [namesBytes_foldl, List.nil_append, List.append_assoc],
                  (List.take_append_drop _ _).symm,
                  by simp only [ne_eq, List.drop_eq_nil_iff, Nat.not_le]; exact hlt,
                  getLast?_drop _ _ hlt, noBadPairs_drop _ _ hnb, hnb⟩
        obtain ⟨z, names, m, hX1, hX2, hX3, hX4, hX5, hX6⟩ := hshape
        have hY1 : Y.1 = s1.out ++ piecesBytes (if s1.prevLine < t0.line - 1 then [Piece.blank] else []) := by
          rw [← hY]
          split <;> simp [piecesBytes, Piece.bytes]
        generalize X.1 = buf1 at h hX1
        generalize X.2.1 = lts at h hX2 hX3 hX4 hX5
        split at h
        · exact absurd h (by simp)
        · rename_i a ha
          have hbuf := renderToks_buf _ _ _ ha
          simp only at hbuf
          have hwfg : ∀ t ∈ g, wfTok t = true := by
            intro t ht
            apply hwf
            rw [hts]
            exact List.mem_append_left _ ht
          have hwfsrc : ∀ t ∈ rest.dropWhile (·.line == t0.line), wfTok t = true := by
            intro t ht
            apply hwf
            rw [hts]
            exact List.mem_append_right _ ht
          obtain ⟨ps', hp1, ⟨hp2, hp2'⟩, hp3, hp4⟩ := ih _ _ _ h hwfsrc hrestOK
          simp only at hp1 hp4
          obtain ⟨com, hcom, hcw, _, hct⟩ := commentText_shape comments hcm t0.line 0
          rw [hct, hbuf, hX1, hY1, hF1] at hp1
          refine ⟨psF ++ (if s1.prevLine < t0.line - 1 then [Piece.blank] else []) ++
            [Piece.toks (4 * z).toNat names m lts com semis] ++ ps', ?_, ?_, ?_, ?_⟩
          · rw [hp1]
            simp only [piecesBytes, List.flatMap_append, List.flatMap_cons, List.flatMap_nil, Piece.bytes,
              List.append_assoc, List.append_nil, tabs_replicate]
          · refine ⟨?_, ?_⟩
            rotate_left
            · intro p hp
              simp only [List.mem_append, List.mem_singleton] at hp
              rcases hp with ((hp | hp) | hp) | hp
              · exact hF2.2 p hp
              · split at hp
                · simp only [List.mem_singleton] at hp; subst hp; trivial
                · simp at hp
              · subst hp
                refine ⟨by rw [← hX2]; exact hX6, ?_⟩
                intro tl htl
                rw [hX4] at htl
                exact hlastns tl htl
              · exact hp2' p hp
            intro p hp
            simp only [List.mem_append, List.mem_singleton] at hp
            rcases hp with ((hp | hp) | hp) | hp
            · exact hF2.1 p hp
            · split at hp
              · simp only [List.mem_singleton] at hp; subst hp; trivial
              · simp at hp
            · subst hp
              have hmem : ∀ t, t ∈ names ∨ t ∈ lts → t ∈ g := by
                intro t ht
                rw [hsplit, hX2]
                rcases ht with ht | ht
                · exact List.mem_append_left _ (List.mem_append_left _ ht)
                · exact List.mem_append_left _ (List.mem_append_right _ ht)
              refine ⟨fun t ht => hwfg t (hmem t (Or.inl ht)), fun t ht => hwfg t (hmem t (Or.inr ht)),
                hX3, hX5, hcw, ?_, ?_⟩
              · intro t ht
                exact semicolon_text (hwfg t (by rw [hsplit]; exact List.mem_append_right _ ht)) (hsemi t ht)
              · rw [hslen]
                unfold endsStatement
                rw [hX4]
                cases hgl : (lt0 :: ltRest).getLast? with
                | none => simp at hgl
                | some last =>
                  rw [hgl] at hline
                  simp only [Bool.and_eq_true, beq_iff_eq] at hline
                  exact hline.1
            · exact hp2 p hp
          · simp only [List.flatMap_append, List.flatMap_cons, List.flatMap_nil, hF3, hp3, Piece.src,
              List.nil_append, List.append_nil]
            have : List.flatMap Piece.src (if s1.prevLine < t0.line - 1 then [Piece.blank] else []) = [] := by
              split <;> simp [Piece.src]
            rw [this, List.nil_append, ← hX2, ← hsplit, ← hts]
          · intro hsorted hlow
            have hci : s.commentLine ≤ t0.line := hlow t0 (by simp)
            obtain ⟨hF7a, hF7b⟩ := hF7
            have hsrcl := sorted_dropWhile t0 rest hsorted
            have hEmpty : ∀ i, comments.size ≤ i → getC comments i = [] := getC_ge comments
            have hg0 : g ≠ [] := by rw [← hg]; simp
            rw [hts, itemsF_same_line _ _ g t0.line s.commentLine _ hgline hci hg0,
              itemsF_advance _ _ hEmpty t0.line _ hsrcl,
              hp4 (sorted_dropWhile_sorted t0 rest hsorted) hsrcl]
            have hb : List.flatMap Piece.srcItems (if s1.prevLine < t0.line - 1 then [Piece.blank] else []) = [] := by
              split <;> simp [Piece.srcItems, Piece.src, Piece.outComment]
            have hpiece : Piece.srcItems (Piece.toks (4 * z).toNat names m lts com semis) =
                g.map (fun t => Item.tok t.text) ++ cmtRange (getC comments) t0.line 1 := by
              have he : (stripTrailingSpaces com).isEmpty = com.isEmpty := strip_isEmpty hcw
              simp only [Piece.srcItems, Piece.src, Piece.outComment, he]
              rw [← hX2, ← hsplit, cmtRange_one, ← hcom]
            simp only [List.flatMap_append, List.flatMap_cons, List.flatMap_nil, hF7b, hb, hpiece,
              List.append_nil, List.append_assoc, List.nil_append]

/-- the trailing comments -/
theorem trailingComments_pieces (comments : Array Bytes) (hcm : wfComments comments) :
    ∀ (f : Nat) (s : RSt), ∃ ps : List Piece,
      (trailingComments comments f s).out = s.out ++ piecesBytes ps ∧
      (∀ p ∈ ps, p.ok ∧ p.ok2) ∧ ps.flatMap Piece.src = [] ∧
      (comments.size - s.commentLine ≤ f →
        ps.flatMap Piece.srcItems = cmtRange (getC comments) s.commentLine (comments.size - s.commentLine)) := by
  intro f
  induction f with
  | zero =>
    intro s
    refine ⟨[], by simp [trailingComments, piecesBytes], by simp, rfl, ?_⟩
    intro h
    have e : comments.size - s.commentLine = 0 := by omega
    rw [e]; rfl
  | succ f ih =>
    intro s
    rw [trailingComments]
    split
    · rename_i hlt
      obtain ⟨com, hcom, hw, hct, _⟩ := commentText_shape comments hcm s.commentLine s.indent
      simp only
      rw [hct, commentText_isEmpty com hw]
      have hrange : comments.size - s.commentLine = (comments.size - (s.commentLine + 1)) + 1 := by omega
      by_cases hc : com.isEmpty = true
      · simp only [hc, ↓reduceIte]
        obtain ⟨ps, h1, h2, h3, h4⟩ := ih { s with commentLine := s.commentLine + 1 }
        refine ⟨ps, h1, h2, h3, ?_⟩
        intro hf
        have g2 := h4 (by simp only; omega)
        simp only at g2
        rw [g2, hrange, cmtRange, ← hcom, hc]
        simp
      · simp only [hc, Bool.false_eq_true, ↓reduceIte]
        have hne : com ≠ [] := by simpa using hc
        obtain ⟨ps, h1, h2, h3, h4⟩ := ih { s with
          out := s.out ++ (if s.commentLine > s.prevLine + 1 then [10] else []) ++
            (tabs s.indent ++ stripTrailingSpaces com) ++ [10],
          prevLine := s.commentLine, commentLine := s.commentLine + 1 }
        refine ⟨(if s.commentLine > s.prevLine + 1 then [Piece.blank] else []) ++
          Piece.comment (4 * (s.indent : Int)).toNat com :: ps, ?_, ?_, ?_, ?_⟩
        · rw [h1]
          simp only [piecesBytes, List.flatMap_append, List.flatMap_cons, Piece.bytes, tabs_replicate]
          split <;> simp [Piece.bytes, List.append_assoc]
        · intro p hp
          rw [List.mem_append] at hp
          rcases hp with hp | hp
          · split at hp
            · simp only [List.mem_singleton] at hp; subst hp; exact ⟨trivial, trivial⟩
            · simp at hp
          · rcases List.mem_cons.mp hp with rfl | hp
            · exact ⟨⟨hw, hne⟩, trivial⟩
            · exact h2 p hp
        · rw [List.flatMap_append, List.flatMap_cons, h3]
          split <;> simp [Piece.src]
        · intro hf
          have g2 := h4 (by simp only; omega)
          simp only at g2
          have hb : List.flatMap Piece.srcItems (if s.commentLine > s.prevLine + 1 then [Piece.blank] else []) = [] := by
            split <;> simp [Piece.srcItems, Piece.src, Piece.outComment]
          have hse : (stripTrailingSpaces com).isEmpty = false := by rw [strip_isEmpty hw]; simpa using hc
          rw [List.flatMap_append, List.flatMap_cons, hb, g2, hrange, cmtRange, ← hcom]
          simp [Piece.srcItems, Piece.src, Piece.outComment, hse, hc]
    · rename_i hge
      refine ⟨[], by simp [piecesBytes], by simp, rfl, ?_⟩
      intro _
      have e : comments.size - s.commentLine = 0 := by omega
      rw [e]; rfl

/-- `Render`'s output is a list of well-formed pieces whose source tokens are the input tokens,
and (for non-decreasing token lines) whose source items are the items of the input. -/
theorem render_pieces (toks : List Tok) (comments : Array Bytes) (out : Bytes)
    (hwf : ∀ t ∈ toks, wfTok t = true) (hcm : wfComments comments)
    (hlines : linesOK (toks.length + 1) toks = true) (h : render toks comments = some out) :
    ∃ ps : List Piece, out = piecesBytes ps ∧ (∀ p ∈ ps, p.ok) ∧ ps.flatMap Piece.src = toks ∧
      (SortedLines toks → items toks comments = ps.flatMap Piece.srcItems) ∧ (∀ p ∈ ps, p.ok2) := by
  unfold render at h
  split at h
  · rename_i he
    simp only [Bool.and_eq_true, List.isEmpty_iff, Array.isEmpty_iff] at he
    simp only [Option.some.injEq] at h
    refine ⟨[], by rw [← h]; rfl, by simp, by simp [he.1], ?_, by simp⟩
    intro _
    rw [he.1, he.2]
    rfl
  · simp only at h
    split at h
    · exact absurd h (by simp)
    · rename_i s hs
      obtain ⟨ps1, h1, h2, h3, h4⟩ := renderLoop_pieces comments hcm _ _ _ _ hs hwf hlines
      obtain ⟨ps2, g1, g2, g3, g4⟩ := trailingComments_pieces comments hcm (comments.size + 1) s
      simp only [Option.some.injEq] at h
      refine ⟨ps1 ++ ps2, ?_, ?_, ?_, ?_, ?_⟩
      rotate_right
      · intro p hp
        rcases List.mem_append.mp hp with hp | hp
        · exact h2.2 p hp
        · exact (g2 p hp).2
      · rw [← h, g1, h1]
        simp [piecesBytes]
      · intro p hp
        rcases List.mem_append.mp hp with hp | hp
        · exact h2.1 p hp
        · exact (g2 p hp).1
      · rw [List.flatMap_append, h3, g3, List.append_nil]
      · intro hsorted
        unfold items
        simp only at h4
        rw [h4 hsorted (fun t _ => Nat.zero_le _), List.flatMap_append, g4 (by omega)]

/-- every piece ends its line -/
theorem pieces_length_le_newlines (ps : List Piece) : ps.length ≤ (piecesBytes ps).count 10 := by
  induction ps with
  | nil => simp [piecesBytes]
  | cons p ps ih =>
    have hp : 1 ≤ p.bytes.count 10 := by
      cases p with
      | blank => simp [Piece.bytes]
      | comment k com => simp only [Piece.bytes, List.count_append, List.count_singleton_self]; omega
      | toks k names m lts com semis =>
        simp only [Piece.bytes, List.count_append, List.count_singleton_self]; omega
    simp only [piecesBytes, List.flatMap_cons, List.count_append, List.length_cons] at ih ⊢
    omega

end WuffsVerif.Render
