/-
C12, the Wuffs formatter: the output of the `Render` model is a list of well-formed `Piece`s
whose source tokens are exactly the input tokens (given well-formed tokens and comments and the
line structure `linesOK`: every source line keeps a token after its trailing semicolons are
stripped, one ";" is stripped iff the last token left asks for one, no listed bad pair).
Core Lean only.
-/
import WuffsVerif.Proof.RenderPieces

namespace WuffsVerif.Render
open WuffsVerif.FmtToken WuffsVerif.Gen.C12

/-! ### the hypothesis on the line structure -/

/-- one source line `g` (all its tokens) -/
def lineOK (g : List Tok) : Bool :=
  let lt := (stripSemicolons g).1
  match lt.getLast? with
  | none => false
  | some last => (g.length - lt.length == (if last.implicitSemicolon then 1 else 0)) && noBadPairs none lt

/-- all source lines, grouped as `Render` groups them -/
def linesOK : Nat → List Tok → Bool
  | 0, _ => true
  | _ + 1, [] => true
  | f + 1, t0 :: rest =>
    lineOK (t0 :: rest.takeWhile (·.line == t0.line)) && linesOK f (rest.dropWhile (·.line == t0.line))

def wfComments (comments : Array Bytes) : Prop := ∀ c ∈ comments.toList, wfComment c = true

/-! ### comments -/

theorem tabs_replicate (n : Int) : tabs n = List.replicate (4 * n).toNat 32 := rfl

/-- a comment `Render` writes: the entry of `comments`, non-empty -/
theorem commentText_shape (comments : Array Bytes) (hcm : wfComments comments) (line : Nat) (indent : Int) :
    ∃ com, wfComment com = true ∧
      commentText comments line indent true = (if com.isEmpty then [] else tabs indent ++ stripTrailingSpaces com) ∧
      commentText comments line indent false = (if com.isEmpty then [] else 32 :: 32 :: stripTrailingSpaces com) := by
  unfold commentText
  cases h : comments[line]? with
  | none => exact ⟨[], rfl, rfl, rfl⟩
  | some com =>
    refine ⟨com, hcm com ?_, ?_, ?_⟩
    · have := Array.mem_of_getElem? h
      exact Array.mem_toList_iff.mpr this
    · simp only [↓reduceIte]
    · simp only [Bool.false_eq_true, ↓reduceIte]; rfl

theorem commentText_isEmpty (com : Bytes) (hw : wfComment com = true) (indent : Int) :
    (if com.isEmpty then [] else tabs indent ++ stripTrailingSpaces com).isEmpty = com.isEmpty := by
  by_cases hc : com.isEmpty = true
  · simp [hc]
  · have hne : com ≠ [] := by simpa using hc
    obtain ⟨y, hy, _⟩ := strip_wfComment hw hne
    simp [hc, hy]

/-- the pieces of the comment lines `flushComments` writes; the other fields it leaves alone -/
theorem flushComments_pieces (comments : Array Bytes) (hcm : wfComments comments) (ci : Int) (upto : Nat) :
    ∀ (f : Nat) (s : RSt), ∃ ps : List Piece,
      (flushComments comments ci upto f s).out = s.out ++ piecesBytes ps ∧
      (∀ p ∈ ps, p.ok) ∧ ps.flatMap Piece.src = [] ∧
      (flushComments comments ci upto f s).indent = s.indent ∧
      (flushComments comments ci upto f s).inStruct = s.inStruct ∧
      (flushComments comments ci upto f s).prevLineHanging = s.prevLineHanging := by
  intro f
  induction f with
  | zero => intro s; exact ⟨[], by simp [flushComments, piecesBytes], by simp, rfl, rfl, rfl, rfl⟩
  | succ f ih =>
    intro s
    rw [flushComments]
    split
    · obtain ⟨com, hw, hct, _⟩ := commentText_shape comments hcm s.commentLine ci
      simp only
      rw [hct, commentText_isEmpty com hw]
      by_cases hc : com.isEmpty = true
      · simp only [hc, ↓reduceIte]
        obtain ⟨ps, h1, h2, h3, h4, h5, h6⟩ := ih { s with commentLine := s.commentLine + 1 }
        exact ⟨ps, h1, h2, h3, h4, h5, h6⟩
      · simp only [hc, Bool.false_eq_true, ↓reduceIte]
        have hne : com ≠ [] := by simpa using hc
        obtain ⟨ps, h1, h2, h3, h4, h5, h6⟩ := ih { s with
          out := s.out ++ (if s.commentLine > s.prevLine + 1 then [10] else []) ++
            (tabs ci ++ stripTrailingSpaces com) ++ [10],
          varNameLength := 0, prevLine := s.commentLine, commentLine := s.commentLine + 1 }
        refine ⟨(if s.commentLine > s.prevLine + 1 then [Piece.blank] else []) ++
          Piece.comment (4 * ci).toNat com :: ps, ?_, ?_, ?_, h4, h5, h6⟩
        · rw [h1]
          simp only [piecesBytes, List.flatMap_append, List.flatMap_cons, Piece.bytes, tabs_replicate]
          split <;> simp [Piece.bytes, List.append_assoc]
        · intro p hp
          rw [List.mem_append] at hp
          rcases hp with hp | hp
          · split at hp
            · simp only [List.mem_singleton] at hp; subst hp; trivial
            · simp at hp
          · rcases List.mem_cons.mp hp with rfl | hp
            · exact ⟨hw, hne⟩
            · exact h2 p hp
        · rw [List.flatMap_append, List.flatMap_cons, h3]
          split <;> simp [Piece.src]
    · exact ⟨[], by simp [piecesBytes], by simp, rfl, rfl, rfl, rfl⟩

/-! ### lists of tokens -/

theorem semicolon_entry_text :
    punctToks.all (fun e => e.1 != idSemicolon || e.2.1 == [59]) = true := by decide +kernel

theorem semicolon_text {t : Tok} (h : wfTok t = true) (hid : t.id = idSemicolon) : t.text = [59] := by
  cases hp : wfPunct t with
  | true =>
    obtain ⟨e, he, hei, het⟩ := wfPunct_entry hp
    have := List.all_eq_true.mp semicolon_entry_text e he
    rw [hei, hid] at this
    rw [← het]
    simpa using this
  | false =>
    exfalso
    have hpl : wfPlain t = true := by unfold wfTok at h; rw [hp] at h; simpa using h
    obtain ⟨f1, _⟩ := wfPlain_flags hpl
    unfold Tok.isTightLeft tokFlags at f1
    rw [hid] at f1
    have hlt : idSemicolon < nBuiltInIDs := by decide
    simp only [hlt, ↓reduceIte] at f1
    revert f1
    decide

theorem stripSemicolons_split (g : List Tok) :
    ∃ semis, g = (stripSemicolons g).1 ++ semis ∧ (∀ t ∈ semis, t.id = idSemicolon) ∧
      semis.length = g.length - (stripSemicolons g).1.length := by
  unfold stripSemicolons
  simp only
  refine ⟨(g.reverse.takeWhile (·.id == idSemicolon)).reverse, ?_, ?_, ?_⟩
  · have := List.takeWhile_append_dropWhile (p := fun t : Tok => t.id == idSemicolon) (l := g.reverse)
    have h2 := congrArg List.reverse this
    rw [List.reverse_append, List.reverse_reverse] at h2
    exact h2.symm
  · intro t ht
    rw [List.mem_reverse] at ht
    have := List.all_eq_true.mp (List.all_takeWhile (p := fun t : Tok => t.id == idSemicolon) (l := g.reverse)) t ht
    simpa using this
  · have := List.takeWhile_append_dropWhile (p := fun t : Tok => t.id == idSemicolon) (l := g.reverse)
    have h2 := congrArg List.length this
    simp only [List.length_append, List.length_reverse] at h2 ⊢
    omega

theorem noBadPairs_weaken (p : Option Tok) (l : List Tok) (h : noBadPairs p l = true) :
    noBadPairs none l = true := by
  cases l with
  | nil => rfl
  | cons t ts =>
    cases p with
    | none => exact h
    | some q =>
      unfold noBadPairs at h
      rw [Bool.and_eq_true] at h
      unfold noBadPairs
      exact h.2

theorem noBadPairs_drop (n : Nat) : ∀ (l : List Tok), noBadPairs none l = true →
    noBadPairs none (l.drop n) = true := by
  induction n with
  | zero => intro l h; simpa using h
  | succ n ih =>
    intro l h
    cases l with
    | nil => simpa using h
    | cons t ts =>
      rw [List.drop_succ_cons]
      apply ih
      unfold noBadPairs at h
      exact noBadPairs_weaken _ _ h

theorem findIdx?_lt {α : Type} (p : α → Bool) : ∀ (l : List α) (i : Nat), l.findIdx? p = some i → i < l.length := by
  intro l
  induction l with
  | nil => intro i h; simp at h
  | cons a as ih =>
    intro i h
    rw [List.findIdx?_cons] at h
    split at h
    · simp only [Option.some.injEq] at h; subst h; simp
    · simp only [Option.map_eq_some_iff] at h
      obtain ⟨j, hj, rfl⟩ := h
      have := ih j hj
      simp only [List.length_cons]; omega

theorem getLast?_drop {α : Type} (l : List α) (n : Nat) (h : n < l.length) :
    (l.drop n).getLast? = l.getLast? := by
  rw [List.getLast?_drop]
  simp [Nat.not_le.mpr h]

end WuffsVerif.Render
