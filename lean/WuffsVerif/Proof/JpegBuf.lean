/-
C18 helper lemmas: `div` rounds to nearest; the output buffer of `Reset`/`AddN` never overflows
(potential argument: 4·bytes + pending bits grows by at most one per emitted bit).
-/
import WuffsVerif.Proof.JpegTables

open WuffsVerif.Gen.C18 WuffsVerif.Jpeg

namespace WuffsVerif.Jpeg.Buf

theorem wrap16_id (x : Int) (h1 : -32768 ≤ x) (h2 : x ≤ 32767) : wrap16 x = x := by
  unfold wrap16; omega

/-- for a ≥ 0: div a b = (a + b/2) / b  -/
theorem div_nonneg (a b : Int) (ha : 0 ≤ a) (ha2 : a ≤ 16383) (hb : 0 < b) (hb2 : b ≤ 255) :
    div a b = (a + b / 2) / b := by
  unfold div
  have h1 : wrap16 (a + b / 2) = a + b / 2 := wrap16_id _ (by omega) (by omega)
  have hn : 0 ≤ a + b / 2 := by omega
  have h2 : Int.tdiv (a + b / 2) b = (a + b / 2) / b := Int.tdiv_eq_ediv_of_nonneg hn
  have h3 : 0 ≤ (a + b / 2) / b := Int.ediv_nonneg hn (by omega)
  have h4 : (a + b / 2) / b ≤ a + b / 2 := Int.ediv_le_self _ hn
  simp only [ha, ↓reduceIte, h1, h2]
  exact wrap16_id _ (by omega) (by omega)

theorem div_neg (a b : Int) (ha : a < 0) (ha2 : -16384 ≤ a) (hb : 0 < b) (hb2 : b ≤ 255) :
    div a b = -((-a + b / 2) / b) := by
  unfold div
  have h0 : wrap16 (-a) = -a := wrap16_id _ (by omega) (by omega)
  have h1 : wrap16 (-a + b / 2) = -a + b / 2 := wrap16_id _ (by omega) (by omega)
  have hn : 0 ≤ -a + b / 2 := by omega
  have h2 : Int.tdiv (-a + b / 2) b = (-a + b / 2) / b := Int.tdiv_eq_ediv_of_nonneg hn
  have h3 : 0 ≤ (-a + b / 2) / b := Int.ediv_nonneg hn (by omega)
  have h4 : (-a + b / 2) / b ≤ -a + b / 2 := Int.ediv_le_self _ hn
  have hna : ¬ (a ≥ 0) := by omega
  simp only [hna, ↓reduceIte, h0, h1, h2]
  rw [wrap16_id ((-a + b / 2) / b) (by omega) (by omega)]
  exact wrap16_id _ (by omega) (by omega)

/-- n / b is the quotient: b*q ≤ n < b*q + b -/
theorem ediv_bounds (n b : Int) (hb : 0 < b) : b * (n / b) ≤ n ∧ n < b * (n / b) + b := by
  have h1 := Int.mul_ediv_add_emod n b
  have h2 := Int.emod_nonneg n (by omega : b ≠ 0)
  have h3 := Int.emod_lt_of_pos n hb
  omega

theorem div_rounds_nearest (a b : Int) (ha1 : -1024 ≤ a) (ha2 : a ≤ 1023) (hb : 0 < b) (hb2 : b ≤ 255) :
    2 * (a - b * div a b).natAbs ≤ b.natAbs ∧
    (0 ≤ a → div a b = (2 * a + b) / (2 * b)) ∧
    (a < 0 → div a b = -((2 * (-a) + b) / (2 * b))) := by
  have key : ∀ n : Int, 0 ≤ n → (n + b / 2) / b = (2 * n + b) / (2 * b) := by
    intro n hn
    have e1 := ediv_bounds (n + b / 2) b hb
    have e2 := ediv_bounds (2 * n + b) (2 * b) (by omega)
    generalize (n + b / 2) / b = q1 at *
    generalize (2 * n + b) / (2 * b) = q2 at *
    have e3 : 2 * b * q2 = 2 * (b * q2) := Int.mul_assoc 2 b q2
    have hq : b * q1 < b * (q2 + 1) ∧ b * q2 < b * (q1 + 1) := by
      constructor <;> (simp only [Int.mul_add, Int.mul_one]; omega)
    have l1 : q1 < q2 + 1 := Int.lt_of_mul_lt_mul_left hq.1 (by omega)
    have l2 : q2 < q1 + 1 := Int.lt_of_mul_lt_mul_left hq.2 (by omega)
    omega
  by_cases h : 0 ≤ a
  · have hd := div_nonneg a b h (by omega) hb hb2
    have e1 := ediv_bounds (a + b / 2) b hb
    refine ⟨?_, fun _ => ?_, fun h' => by omega⟩
    · rw [hd]; generalize (a + b / 2) / b = q at *; omega
    · rw [hd]; exact key a h
  · have hd := div_neg a b (by omega) (by omega) hb hb2
    have e1 := ediv_bounds (-a + b / 2) b hb
    refine ⟨?_, fun h' => by omega, fun _ => ?_⟩
    · rw [hd]; generalize (-a + b / 2) / b = q at *
      have : b * -q = -(b * q) := Int.mul_neg b q
      omega
    · rw [hd, key (-a) (by omega)]

/-- everything except the bit accumulator and the DC predictors is unchanged -/
def SameCfg (e e' : Encoder) : Prop :=
  e'.quants0 = e.quants0 ∧ e'.quants1 = e.quants1 ∧ e'.colorType = e.colorType ∧
  e'.numAddsRemaining = e.numAddsRemaining ∧ e'.hasReturnedError = e.hasReturnedError

/-- additionally the DC predictors are unchanged -/
def SamePrev (e e' : Encoder) : Prop :=
  e'.prevDC0 = e.prevDC0 ∧ e'.prevDC1 = e.prevDC1 ∧ e'.prevDC2 = e.prevDC2

theorem SameCfg.refl (e : Encoder) : SameCfg e e := ⟨rfl, rfl, rfl, rfl, rfl⟩
theorem SameCfg.trans {a b c : Encoder} (h1 : SameCfg a b) (h2 : SameCfg b c) : SameCfg a c := by
  unfold SameCfg at *; simp_all
theorem SamePrev.refl (e : Encoder) : SamePrev e e := ⟨rfl, rfl, rfl⟩
theorem SamePrev.trans {a b c : Encoder} (h1 : SamePrev a b) (h2 : SamePrev b c) : SamePrev a c := by
  unfold SamePrev at *; simp_all

/-- "potential": four times the bytes in the buffer plus the pending bits.  One emitted bit
    raises it by at most one (a full byte costs 8, even when it is 0xFF and gets stuffed). -/
def pot (p : Encoder × Array Nat) : Nat := 4 * p.2.size + p.1.bitsN

theorem emitLoop_size (k v : Nat) (out : Array Nat) :
    (emitLoop k v out).2.size ≤ out.size + 2 * k ∧ out.size ≤ (emitLoop k v out).2.size := by
  induction k generalizing v out with
  | zero => simp [emitLoop]
  | succ k ih =>
    simp only [emitLoop]
    have h := ih (v * 256 % 4294967296)
      (if v / 16777216 % 256 = 255 then ((out.push (v / 16777216 % 256)).push 0) else out.push (v / 16777216 % 256))
    have hs : (if v / 16777216 % 256 = 255 then ((out.push (v / 16777216 % 256)).push 0) else out.push (v / 16777216 % 256)).size ≤ out.size + 2
        ∧ out.size ≤ (if v / 16777216 % 256 = 255 then ((out.push (v / 16777216 % 256)).push 0) else out.push (v / 16777216 % 256)).size := by
      split <;> simp [Array.size_push] <;> omega
    omega

theorem emitBits_spec (e : Encoder) (out : Array Nat) (v n : Nat) (hb : e.bitsN < 8) :
    pot (emitBits e out v n) ≤ pot (e, out) + n ∧ (emitBits e out v n).1.bitsN < 8 ∧
    SameCfg e (emitBits e out v n).1 ∧ SamePrev e (emitBits e out v n).1 ∧
    out.size ≤ (emitBits e out v n).2.size := by
  unfold emitBits
  by_cases hn : n = 0
  · simp [hn, pot, hb, SameCfg.refl, SamePrev.refl]
  · simp only [hn, ↓reduceIte]
    generalize hv : ((if n + e.bitsN ≤ 32 then v % 2 ^ n * 2 ^ (32 - (n + e.bitsN)) % 4294967296 else 0) ||| e.bitsV) = vv
    have h := emitLoop_size ((n + e.bitsN) / 8) vv out
    generalize emitLoop ((n + e.bitsN) / 8) vv out = r at h
    obtain ⟨v', out'⟩ := r
    simp only [pot, SameCfg, SamePrev] at *
    refine ⟨?_, ?_, ?_, ?_, ?_⟩ <;> (try simp) <;> omega


theorem getD_toList {α : Type} (a : Array α) (i : Nat) (d : α) : a.getD i d = a.toList.getD i d := by
  simp [Array.getD, List.getD]
  split <;> simp_all

theorem all_getD {α : Type} (l : List α) (p : α → Bool) (i : Nat) (d : α)
    (h : l.all p = true) (hd : p d = true) : p (l.getD i d) = true := by
  rw [List.getD_eq_getElem?_getD]
  cases hi : l[i]? with
  | none => simpa using hd
  | some x =>
    have := List.mem_of_getElem? hi
    simp only [Option.getD_some]
    exact (List.all_eq_true.mp h) x this

theorem hbw_len_le16 (k v : Nat) : (huffmanBitWriters.getD k #[]).getD v 0 / 65536 ≤ 16 := by
  have h := Tab.hbw_lengths
  rw [getD_toList, getD_toList]
  have h1 := all_getD huffmanBitWriters.toList (fun t => t.toList.all (fun x => decide (x / 65536 ≤ 16))) k #[]
    (by simpa using h) (by simp)
  have h2 := all_getD (huffmanBitWriters.toList.getD k #[]).toList (fun x => decide (x / 65536 ≤ 16)) v 0 h1 (by decide)
  simpa using h2

theorem emitHuffman_spec (e : Encoder) (out : Array Nat) (wh value : Nat) (hb : e.bitsN < 8) :
    pot (emitHuffman e out wh value) ≤ pot (e, out) + 16 ∧ (emitHuffman e out wh value).1.bitsN < 8 ∧
    SameCfg e (emitHuffman e out wh value).1 ∧ SamePrev e (emitHuffman e out wh value).1 := by
  simp only [emitHuffman]
  have h := emitBits_spec e out ((huffmanBitWriters.getD wh #[]).getD value 0 % 65536)
    ((huffmanBitWriters.getD wh #[]).getD value 0 / 65536) hb
  have := hbw_len_le16 wh value
  refine ⟨by omega, h.2.1, h.2.2.1, h.2.2.2.1⟩

/-- `category` on lists (kernel-friendly) -/
def catL (a : Nat) : Nat := if a < 256 then Tab.bitLen a else Tab.bitLen (a / 256) + 8

theorem bitCount_getD (i : Nat) (h : i < 256) : bitCount.getD i 0 = Tab.bitLen i := by
  rw [getD_toList, Tab.bitCount_eq, List.getD_eq_getElem?_getD]
  simp [h]

theorem category_eq_catL (a : Nat) (h : a < 65536) : category a = catL a := by
  unfold category catL
  split
  · rw [bitCount_getD a (by omega)]
  · rw [bitCount_getD (a / 256) (by omega)]

theorem catL_facts : (List.range 2048).all (fun a => Tab.isBitLength a (catL a) && decide (catL a ≤ 11)) = true := by
  decide +kernel

/-- for |value| ≤ 2047 the category is the bit length, at most 11 -/
theorem category_spec (a : Nat) (h : a < 2048) : Tab.isBitLength a (category a) = true ∧ category a ≤ 11 := by
  rw [category_eq_catL a (by omega)]
  have := (List.all_eq_true.mp catL_facts) a (List.mem_range.mpr h)
  simpa using this

theorem category_le (a : Nat) (h : a < 2048) : category a ≤ 11 := (category_spec a h).2

theorem emitHuffmanRun_spec (e : Encoder) (out : Array Nat) (wh run : Nat) (value : Int)
    (hb : e.bitsN < 8) (hv1 : -2047 ≤ value) (hv2 : value ≤ 2047) :
    pot (emitHuffmanRun e out wh run value) ≤ pot (e, out) + 27 ∧
    (emitHuffmanRun e out wh run value).1.bitsN < 8 ∧
    SameCfg e (emitHuffmanRun e out wh run value).1 ∧ SamePrev e (emitHuffmanRun e out wh run value).1 := by
  unfold emitHuffmanRun
  simp only
  generalize ha : (if value < 0 then (-value % 4294967296).toNat else (value % 4294967296).toNat) = absValue
  have habs : absValue < 2048 := by
    subst ha; split <;> omega
  have hc := category_le absValue habs
  generalize (if value < 0 then ((value - 1) % 4294967296).toNat else (value % 4294967296).toNat) = adj
  have h1 := emitHuffman_spec e out wh ((run * 16 ||| category absValue) % 256) hb
  generalize emitHuffman e out wh ((run * 16 ||| category absValue) % 256) = r at h1
  obtain ⟨e1, out1⟩ := r
  have h2 := emitBits_spec e1 out1 adj (category absValue) h1.2.1
  simp only [pot] at *
  refine ⟨by omega, h2.2.1, h1.2.2.1.trans h2.2.2.1, h1.2.2.2.trans h2.2.2.2.1⟩

theorem emitZRLs_spec (k : Nat) (e : Encoder) (out : Array Nat) (wh : Nat) (hb : e.bitsN < 8) :
    pot (emitZRLs k e out wh) ≤ pot (e, out) + 16 * k ∧ (emitZRLs k e out wh).1.bitsN < 8 ∧
    SameCfg e (emitZRLs k e out wh).1 ∧ SamePrev e (emitZRLs k e out wh).1 := by
  induction k generalizing e out with
  | zero => simp [emitZRLs, SameCfg.refl, SamePrev.refl, hb]
  | succ k ih =>
    simp only [emitZRLs]
    have h1 := emitHuffman_spec e out wh 0xF0 hb
    generalize emitHuffman e out wh 0xF0 = r at h1
    obtain ⟨e1, out1⟩ := r
    have h2 := ih e1 out1 h1.2.1
    simp only [pot] at *
    refine ⟨by omega, h2.2.1, h1.2.2.1.trans h2.2.2.1, h1.2.2.2.trans h2.2.2.2⟩

theorem encodeACs_spec (base : Nat) (rest : List Int) (run : Nat) (e : Encoder) (out : Array Nat)
    (hb : e.bitsN < 8) (hr : ∀ ac ∈ rest, -1023 ≤ ac ∧ ac ≤ 1023) :
    pot (encodeACs base rest run e out) ≤ pot (e, out) + 27 * rest.length + 16 * run ∧
    (encodeACs base rest run e out).1.bitsN < 8 ∧
    SameCfg e (encodeACs base rest run e out).1 ∧ SamePrev e (encodeACs base rest run e out).1 := by
  induction rest generalizing run e out with
  | nil =>
    simp only [encodeACs]
    split
    · have h := emitHuffman_spec e out (base + 1) 0x00 hb
      simp only [pot, List.length_nil] at *
      refine ⟨by omega, h.2.1, h.2.2.1, h.2.2.2⟩
    · simp [pot, hb, SameCfg.refl, SamePrev.refl]
  | cons ac rest ih =>
    have hr' : ∀ ac ∈ rest, -1023 ≤ ac ∧ ac ≤ 1023 := fun a ha => hr a (List.mem_cons_of_mem _ ha)
    have hac := hr ac (List.mem_cons_self)
    simp only [encodeACs]
    split
    · have h := ih (run + 1) e out hb hr'
      simp only [pot, List.length_cons] at *
      refine ⟨by omega, h.2.1, h.2.2.1, h.2.2.2⟩
    · have h1 := emitZRLs_spec (run / 16) e out (base + 1) hb
      generalize emitZRLs (run / 16) e out (base + 1) = r1 at h1
      obtain ⟨e1, out1⟩ := r1
      have h2 := emitHuffmanRun_spec e1 out1 (base + 1) (run % 16) ac h1.2.1 (by omega) (by omega)
      generalize emitHuffmanRun e1 out1 (base + 1) (run % 16) ac = r2 at h2
      obtain ⟨e2, out2⟩ := r2
      have h3 := ih 0 e2 out2 h2.2.1 hr'
      simp only [pot, List.length_cons] at *
      refine ⟨by omega, h3.2.1, (h1.2.2.1.trans h2.2.2.1).trans h3.2.2.1,
        (h1.2.2.2.trans h2.2.2.2).trans h3.2.2.2⟩


/-- a quantisation table whose 64 entries are non-zero bytes -/
def QOK (q : Quant) : Prop := ∀ i, i < 64 → 1 ≤ q.getD i 0 ∧ q.getD i 0 ≤ 255

/-- state invariant established by a successful `Reset` and kept by `AddN` -/
structure Inv (e : Encoder) : Prop where
  bitsN : e.bitsN < 8
  q0 : QOK e.quants0
  q1 : QOK e.quants1
  p0 : -1024 ≤ e.prevDC0 ∧ e.prevDC0 ≤ 1023
  p1 : -1024 ≤ e.prevDC1 ∧ e.prevDC1 ≤ 1023
  p2 : -1024 ≤ e.prevDC2 ∧ e.prevDC2 ≤ 1023

/-- |div a b| ≤ |a|, same sign -/
theorem div_range (a b : Int) (ha1 : -1024 ≤ a) (ha2 : a ≤ 1023) (hb : 0 < b) (hb2 : b ≤ 255) :
    (0 ≤ a → 0 ≤ div a b ∧ div a b ≤ a) ∧ (a < 0 → a ≤ div a b ∧ div a b ≤ 0) := by
  have key : ∀ n : Int, 0 ≤ n → 0 ≤ (n + b / 2) / b ∧ (n + b / 2) / b ≤ n := by
    intro n hn
    have e1 := ediv_bounds (n + b / 2) b hb
    have h0 : 0 ≤ (n + b / 2) / b := Int.ediv_nonneg (by omega) (by omega)
    refine ⟨h0, ?_⟩
    generalize (n + b / 2) / b = q at *
    apply Int.not_lt.mp
    intro hq
    have h1 : b * (n + 1) ≤ b * q := Int.mul_le_mul_of_nonneg_left (by omega) (by omega)
    have h2 : 1 * n ≤ b * n := Int.mul_le_mul_of_nonneg_right (by omega) hn
    rw [Int.mul_add] at h1
    omega
  constructor
  · intro h
    rw [div_nonneg a b h (by omega) hb hb2]
    exact key a h
  · intro h
    rw [div_neg a b h (by omega) hb hb2]
    have := key (-a) (by omega)
    omega

theorem zigzag_ac_range : (List.range' 1 63).all (fun z => 1 ≤ zigzag.toList.getD z 0 && zigzag.toList.getD z 0 < 64) = true := by
  decide +kernel

theorem zigzag_getD_ac (z : Nat) (h1 : 1 ≤ z) (h2 : z < 64) : 1 ≤ zigzag.getD z 0 ∧ zigzag.getD z 0 < 64 := by
  rw [getD_toList]
  have := (List.all_eq_true.mp zigzag_ac_range) z (by rw [List.mem_range'_1]; omega)
  simpa using this

theorem blockIsValid_spec (b : Block) (h : blockIsValid b = true) :
    (-1024 ≤ b.getD 0 0 ∧ b.getD 0 0 ≤ 1023) ∧ ∀ i, 1 ≤ i → i < 64 → -1023 ≤ b.getD i 0 ∧ b.getD i 0 ≤ 1023 := by
  unfold blockIsValid at h
  simp only [Bool.and_eq_true, decide_eq_true_eq, List.all_eq_true] at h
  refine ⟨h.1, fun i h1 h2 => ?_⟩
  exact h.2 i (by rw [List.mem_range'_1]; omega)

theorem quantised_range (q : Quant) (b : Block) (hq : QOK q) (hb : blockIsValid b = true) (z : Nat)
    (h1 : 1 ≤ z) (h2 : z < 64) : -1023 ≤ quantised q b z ∧ quantised q b z ≤ 1023 := by
  unfold quantised
  simp only
  have hz := zigzag_getD_ac z h1 h2
  have hb' := (blockIsValid_spec b hb).2 _ hz.1 hz.2
  have hq' := hq _ hz.2
  have := div_range (b.getD (zigzag.getD z 0) 0) ((q.getD (zigzag.getD z 0) 0 : Nat) : Int) (by omega) (by omega) (by omega) (by omega)
  omega


theorem Inv.of_same {e e' : Encoder} (h : Inv e) (hc : SameCfg e e') (hp : SamePrev e e') (hb : e'.bitsN < 8) : Inv e' := by
  obtain ⟨a1, a2, _, _, _⟩ := hc
  obtain ⟨b0, b1, b2⟩ := hp
  exact ⟨hb, by rw [a1]; exact h.q0, by rw [a2]; exact h.q1, by rw [b0]; exact h.p0, by rw [b1]; exact h.p1, by rw [b2]; exact h.p2⟩

theorem Inv.quants {e : Encoder} (h : Inv e) (i : Nat) : QOK (e.quants i) := by
  unfold Encoder.quants; split
  · exact h.q0
  · exact h.q1

theorem Inv.prev {e : Encoder} (h : Inv e) (c : Nat) : -1024 ≤ e.prevDC c ∧ e.prevDC c ≤ 1023 := by
  unfold Encoder.prevDC; split
  · exact h.p0
  · split
    · exact h.p1
    · exact h.p2

theorem Inv.setPrev {e : Encoder} (h : Inv e) (c : Nat) (v : Int) (hv : -1024 ≤ v ∧ v ≤ 1023) :
    Inv (e.setPrevDC c v) ∧ SameCfg e (e.setPrevDC c v) ∧ (e.setPrevDC c v).bitsN = e.bitsN := by
  unfold Encoder.setPrevDC
  split
  · exact ⟨⟨h.bitsN, h.q0, h.q1, hv, h.p1, h.p2⟩, SameCfg.refl _, rfl⟩
  · split
    · exact ⟨⟨h.bitsN, h.q0, h.q1, h.p0, hv, h.p2⟩, SameCfg.refl _, rfl⟩
    · exact ⟨⟨h.bitsN, h.q0, h.q1, h.p0, h.p1, hv⟩, SameCfg.refl _, rfl⟩

/-- one block costs at most 64·27 = 1728 bits of potential, i.e. at most 432 bytes -/
theorem encodeBlock_spec (e : Encoder) (out : Array Nat) (c : Nat) (b : Block)
    (hi : Inv e) (hb : blockIsValid b = true) :
    pot (encodeBlock e out c b) ≤ pot (e, out) + 1728 ∧ Inv (encodeBlock e out c b).1 ∧
    SameCfg e (encodeBlock e out c b).1 := by
  unfold encodeBlock
  simp only
  generalize hbase : (if c > 0 then 2 else 0) = base
  have hq := hi.quants (base / 2)
  have hq0 := hq 0 (by omega)
  have hb0 := (blockIsValid_spec b hb).1
  have hdc := div_range (b.getD 0 0) (((e.quants (base / 2)).getD 0 0 : Nat) : Int) (by omega) (by omega) (by omega) (by omega)
  have hdc' : -1024 ≤ div (b.getD 0 0) (((e.quants (base / 2)).getD 0 0 : Nat) : Int) ∧
      div (b.getD 0 0) (((e.quants (base / 2)).getD 0 0 : Nat) : Int) ≤ 1023 := by omega
  generalize div (b.getD 0 0) (((e.quants (base / 2)).getD 0 0 : Nat) : Int) = dc at hdc'
  have hp := hi.prev c
  have hdelta : -2047 ≤ wrap16 (dc - e.prevDC c) ∧ wrap16 (dc - e.prevDC c) ≤ 2047 := by
    rw [wrap16_id _ (by omega) (by omega)]; omega
  obtain ⟨hi1, hc1, hb1⟩ := hi.setPrev c dc hdc'
  generalize e.setPrevDC c dc = e1 at hi1 hc1 hb1
  have h2 := emitHuffmanRun_spec e1 out (base + 0) 0 (wrap16 (dc - e.prevDC c)) hi1.bitsN hdelta.1 hdelta.2
  generalize emitHuffmanRun e1 out (base + 0) 0 (wrap16 (dc - e.prevDC c)) = r2 at h2
  obtain ⟨e2, out2⟩ := r2
  have hr : ∀ ac ∈ (List.range' 1 63).map (quantised (e.quants (base / 2)) b), -1023 ≤ ac ∧ ac ≤ 1023 := by
    intro ac hac
    obtain ⟨z, hz, rfl⟩ := List.mem_map.mp hac
    rw [List.mem_range'_1] at hz
    exact quantised_range _ b hq hb z (by omega) (by omega)
  have h3 := encodeACs_spec base ((List.range' 1 63).map (quantised (e.quants (base / 2)) b)) 0 e2 out2 h2.2.1 hr
  simp only [List.length_map, List.length_range'] at h3
  simp only [pot] at *
  refine ⟨by omega, ?_, (hc1.trans h2.2.2.1).trans h3.2.2.1⟩
  exact hi1.of_same (h2.2.2.1.trans h3.2.2.1) (h2.2.2.2.trans h3.2.2.2) h3.2.1

theorem encodeBlocks_spec (cs : List Nat) (bs : List Block) (e : Encoder) (out : Array Nat)
    (hi : Inv e) (hb : ∀ b ∈ bs, blockIsValid b = true) :
    pot (encodeBlocks cs bs e out) ≤ pot (e, out) + 1728 * bs.length ∧ Inv (encodeBlocks cs bs e out).1 ∧
    SameCfg e (encodeBlocks cs bs e out).1 := by
  induction cs generalizing bs e out with
  | nil => simp [encodeBlocks, hi, SameCfg.refl]
  | cons c cs ih =>
    cases bs with
    | nil => simp [encodeBlocks, hi, SameCfg.refl]
    | cons b bs =>
      simp only [encodeBlocks]
      have h1 := encodeBlock_spec e out c b hi (hb b List.mem_cons_self)
      generalize encodeBlock e out c b = r at h1
      obtain ⟨e1, out1⟩ := r
      have h2 := ih bs e1 out1 h1.2.1 (fun b' hb' => hb b' (List.mem_cons_of_mem _ hb'))
      simp only [pot, List.length_cons] at *
      exact ⟨by omega, h2.2.1, h1.2.2.trans h2.2.2⟩

theorem finishWrite_cases (e : Encoder) (out : Array Nat) (wf : Bool) :
    (out.size > bufLen ∧ finishWrite e out wf = (e, .panic)) ∨
    (out.size ≤ bufLen ∧ wf = true ∧ finishWrite e out wf = ({ e with hasReturnedError := true }, .err .write)) ∨
    (out.size ≤ bufLen ∧ wf = false ∧ finishWrite e out wf = (e, .ok out)) := by
  unfold finishWrite
  by_cases h : out.size > bufLen
  · left; simp [h]
  · right
    cases wf <;> simp [h] <;> omega

theorem Inv.setErr {e : Encoder} (h : Inv e) (b : Bool) : Inv { e with hasReturnedError := b } :=
  ⟨h.bitsN, h.q0, h.q1, h.p0, h.p1, h.p2⟩

theorem finishWrite_spec (e : Encoder) (out : Array Nat) (wf : Bool) (hi : Inv e) (hs : out.size ≤ bufLen) :
    (finishWrite e out wf).2 ≠ .panic ∧ Inv (finishWrite e out wf).1 := by
  rcases finishWrite_cases e out wf with ⟨h, _⟩ | ⟨_, _, h⟩ | ⟨_, _, h⟩
  · omega
  · rw [h]; exact ⟨by simp, hi.setErr true⟩
  · rw [h]; exact ⟨by simp, hi⟩

theorem emitEOI_spec (e : Encoder) (out : Array Nat) (hi : Inv e) :
    4 * (emitEOI e out).2.size ≤ 4 * out.size + e.bitsN + 15 ∧ Inv (emitEOI e out).1 ∧
    SameCfg e (emitEOI e out).1 := by
  unfold emitEOI
  split
  · have h2 := emitBits_spec e out 0x7F 7 hi.bitsN
    generalize emitBits e out 0x7F 7 = r2 at h2
    obtain ⟨e2, out2⟩ := r2
    simp only [pot] at h2
    refine ⟨?_, hi.of_same h2.2.2.1 h2.2.2.2.1 h2.2.1, h2.2.2.1⟩
    simp only [Array.size_push]
    omega
  · exact ⟨by simp only; omega, hi, SameCfg.refl _⟩

/-- `addN` never overruns `buf`, and keeps the invariant (at most 6 blocks per call):
    at most 6·432 bytes of entropy-coded data, one more for the padding, two for EOI -/
theorem addN_spec (e : Encoder) (wfail : Bool) (blocks : List Block) (hi : Inv e) (hl : blocks.length ≤ 6) :
    (addN e wfail blocks).2 ≠ .panic ∧ Inv (addN e wfail blocks).1 := by
  unfold addN
  split
  · exact ⟨by simp, hi.setErr true⟩
  · rename_i hv
    split
    · exact ⟨by simp, hi.setErr true⟩
    · simp only
      have hv' : ∀ b ∈ blocks, blockIsValid b = true := by
        simpa using hv
      have hi0 : Inv { e with numAddsRemaining := e.numAddsRemaining - 1 } :=
        ⟨hi.bitsN, hi.q0, hi.q1, hi.p0, hi.p1, hi.p2⟩
      have h1 := encodeBlocks_spec (whichComponents blocks.length) blocks
        { e with numAddsRemaining := e.numAddsRemaining - 1 } #[] hi0 hv'
      generalize encodeBlocks (whichComponents blocks.length) blocks
        { e with numAddsRemaining := e.numAddsRemaining - 1 } #[] = r at h1
      obtain ⟨e1, out1⟩ := r
      have hb0 := hi.bitsN
      simp only [pot, List.size_toArray, List.length_nil] at h1
      have h2 := emitEOI_spec e1 out1 h1.2.1
      generalize emitEOI e1 out1 = r2 at h2
      obtain ⟨e2, out2⟩ := r2
      simp only at h2 ⊢
      have : 1728 * blocks.length ≤ 1728 * 6 := Nat.mul_le_mul_left _ hl
      have := h1.2.1.bitsN
      exact finishWrite_spec e2 out2 wfail h2.2.1 (by simp only [bufLen]; omega)

/-- the main path of `addN` (all blocks valid, units remaining), as one expression -/
theorem addN_main (e : Encoder) (wf : Bool) (bs : List Block) (hv : bs.all blockIsValid = true)
    (h0 : ¬ e.numAddsRemaining = 0) :
    addN e wf bs =
      finishWrite
        (emitEOI (encodeBlocks (whichComponents bs.length) bs { e with numAddsRemaining := e.numAddsRemaining - 1 } #[]).1
          (encodeBlocks (whichComponents bs.length) bs { e with numAddsRemaining := e.numAddsRemaining - 1 } #[]).2).1
        (emitEOI (encodeBlocks (whichComponents bs.length) bs { e with numAddsRemaining := e.numAddsRemaining - 1 } #[]).1
          (encodeBlocks (whichComponents bs.length) bs { e with numAddsRemaining := e.numAddsRemaining - 1 } #[]).2).2 wf := by
  unfold addN
  simp only [hv, h0, Bool.not_true, Bool.false_eq_true, ↓reduceIte]

/-- the shape of `resetFinish`: a `finishWrite` of some header on an Encoder with the new fields -/
theorem resetFinish_shape (e : Encoder) (wf : Bool) (ct : Nat) (w h : Int) :
    ∃ e1 out1, resetFinish e wf ct w h = finishWrite e1 out1 wf ∧
      e1.numAddsRemaining = (if ct ≠ colorTypeYCbCr420
        then (((w + 7) / 8).toNat % 4294967296) * (((h + 7) / 8).toNat % 4294967296) % 4294967296
        else (((w + 15) / 16).toNat % 4294967296) * (((h + 15) / 16).toNat % 4294967296) % 4294967296) ∧
      e1.hasReturnedError = false ∧ e1.colorType = ct ∧
      e1.bitsN = 0 ∧ e1.bitsV = 0 ∧ e1.prevDC0 = 0 ∧ e1.prevDC1 = 0 ∧ e1.prevDC2 = 0 ∧
      e1.quants0 = e.quants0 ∧ e1.quants1 = e.quants1 := by
  unfold resetFinish
  exact ⟨_, _, rfl, rfl, rfl, rfl, rfl, rfl, rfl, rfl, rfl, rfl, rfl⟩

/-- the state invariant of every reachable Encoder: once a colour type is set, `Inv` holds -/
def WF (e : Encoder) : Prop := (e.colorType = 1 ∨ e.colorType = 3 ∨ e.colorType = 6) → Inv e

/-- the entries of a quantisation table argument are bytes (`[64]uint8`) -/
def QBytes (q : Quant) : Prop := ∀ i, i < 64 → q.getD i 0 ≤ 255

theorem quantIsValid_spec (q : Quant) (h : quantIsValid q = true) (hb : QBytes q) : QOK q := by
  unfold quantIsValid at h
  simp only [List.all_eq_true, List.mem_range, bne_iff_ne, ne_eq] at h
  intro i hi
  have := h i hi
  have := hb i hi
  omega

theorem std_quant_facts :
    (setToStandardValues 0 defaultQuality).toList.length = 64 ∧
    (setToStandardValues 1 defaultQuality).toList.length = 64 ∧
    (setToStandardValues 0 defaultQuality).toList.all (fun x => 1 ≤ x && x ≤ 255) = true ∧
    (setToStandardValues 1 defaultQuality).toList.all (fun x => 1 ≤ x && x ≤ 255) = true := by
  decide +kernel

theorem std_quant_ok (k : Nat) (hk : k < 2) : QOK (setToStandardValues k defaultQuality) := by
  intro i hi
  rw [getD_toList, List.getD_eq_getElem?_getD]
  have hf := std_quant_facts
  have hk' : k = 0 ∨ k = 1 := by omega
  rcases hk' with rfl | rfl
  · have hlt : i < (setToStandardValues 0 defaultQuality).toList.length := by rw [hf.1]; exact hi
    rw [List.getElem?_eq_getElem hlt, Option.getD_some]
    have := (List.all_eq_true.mp hf.2.2.1) _ (List.getElem_mem hlt)
    simpa using this
  · have hlt : i < (setToStandardValues 1 defaultQuality).toList.length := by rw [hf.2.1]; exact hi
    rw [List.getElem?_eq_getElem hlt, Option.getD_some]
    have := (List.all_eq_true.mp hf.2.2.2) _ (List.getElem_mem hlt)
    simpa using this

theorem dht_size : hardCodedDHTSegments.size = 424 := by decide +kernel

theorem copyInto_size (out s : Array Nat) : (copyInto out s).size ≤ out.size + s.size := by
  unfold copyInto
  simp only [Array.size_append, Array.size_extract]
  omega

theorem encodeDQT_size (e : Encoder) (out : Array Nat) : (encodeDQT e out).size ≤ out.size + 134 := by
  unfold encodeDQT
  simp only
  split <;> simp [Array.size_append, Array.size_push, Array.size_map, Array.size_range] <;> omega

theorem encodeSOF0_size (e : Encoder) (out : Array Nat) (w h : Int) : (encodeSOF0 e out w h).size ≤ out.size + 19 := by
  unfold encodeSOF0
  simp only
  split <;> simp [Array.size_append] <;> omega

theorem encodeDHT_size (e : Encoder) (out : Array Nat) : (encodeDHT e out).size ≤ out.size + 424 := by
  unfold encodeDHT
  simp only
  have := copyInto_size out (if e.colorType = colorTypeGray then hardCodedDHTSegments.extract 0 (hardCodedDHTSegments.size / 2) else hardCodedDHTSegments)
  have h2 : (if e.colorType = colorTypeGray then hardCodedDHTSegments.extract 0 (hardCodedDHTSegments.size / 2) else hardCodedDHTSegments).size ≤ 424 := by
    split <;> simp [Array.size_extract, dht_size]
  omega

theorem encodeSOSHeader_size (e : Encoder) (out : Array Nat) : (encodeSOSHeader e out).size ≤ out.size + 14 := by
  unfold encodeSOSHeader
  simp only
  have := copyInto_size out (if e.colorType = colorTypeGray
    then #[0xFF, 0xDA, 0x00, 0x08, 0x01, 0x01, 0x00, 0x00, 0x3F, 0x00]
    else #[0xFF, 0xDA, 0x00, 0x0C, 0x03, 0x01, 0x00, 0x02, 0x11, 0x03, 0x11, 0x00, 0x3F, 0x00])
  have h2 : (if e.colorType = colorTypeGray
    then (#[0xFF, 0xDA, 0x00, 0x08, 0x01, 0x01, 0x00, 0x00, 0x3F, 0x00] : Array Nat)
    else #[0xFF, 0xDA, 0x00, 0x0C, 0x03, 0x01, 0x00, 0x02, 0x11, 0x03, 0x11, 0x00, 0x3F, 0x00]).size ≤ 14 := by
    split <;> simp
  omega

theorem header_size (e : Encoder) (w h : Int) :
    (encodeSOSHeader e (encodeDHT e (encodeSOF0 e (encodeDQT e #[0xFF, 0xD8]) w h))).size ≤ bufLen := by
  have h1 := encodeDQT_size e #[0xFF, 0xD8]
  have h2 := encodeSOF0_size e (encodeDQT e #[0xFF, 0xD8]) w h
  have h3 := encodeDHT_size e (encodeSOF0 e (encodeDQT e #[0xFF, 0xD8]) w h)
  have h4 := encodeSOSHeader_size e (encodeDHT e (encodeSOF0 e (encodeDQT e #[0xFF, 0xD8]) w h))
  have h0 : (#[0xFF, 0xD8] : Array Nat).size = 2 := rfl
  simp only [bufLen]
  omega

theorem resetFinish_spec (e : Encoder) (wfail : Bool) (ct : Nat) (w h : Int)
    (hq0 : QOK e.quants0) (hq1 : QOK e.quants1) :
    (resetFinish e wfail ct w h).2 ≠ .panic ∧ Inv (resetFinish e wfail ct w h).1 := by
  unfold resetFinish
  simp only
  generalize (if ct ≠ colorTypeYCbCr420
    then (((w + 7) / 8).toNat % 4294967296) * (((h + 7) / 8).toNat % 4294967296) % 4294967296
    else (((w + 15) / 16).toNat % 4294967296) * (((h + 15) / 16).toNat % 4294967296) % 4294967296) = nn
  have hinv : Inv { e with hasReturnedError := false, colorType := ct, prevDC0 := 0, prevDC1 := 0, prevDC2 := 0, numAddsRemaining := nn, bitsV := 0, bitsN := 0 } :=
    ⟨by simp, hq0, hq1, by simp, by simp, by simp⟩
  exact finishWrite_spec _ _ wfail hinv (header_size _ w h)

/-- `Reset` never overruns `buf` and establishes the invariant -/
theorem reset_spec (e : Encoder) (wfail : Bool) (ct : Nat) (w h : Int) (qs : Option (Quant × Quant))
    (hw : WF e) (hq : ∀ q0 q1, qs = some (q0, q1) → QBytes q0 ∧ QBytes q1) :
    (reset e wfail ct w h qs).2 ≠ .panic ∧ WF (reset e wfail ct w h qs).1 := by
  have keep : WF { e with hasReturnedError := true } := fun hc => by
    have := hw hc; exact ⟨this.bitsN, this.q0, this.q1, this.p0, this.p1, this.p2⟩
  unfold reset
  split
  · exact ⟨by simp, keep⟩
  · cases qs with
    | none =>
      simp only
      have := resetFinish_spec { e with quants0 := setToStandardValues 0 defaultQuality, quants1 := setToStandardValues 1 defaultQuality } wfail ct w h (std_quant_ok 0 (by omega)) (std_quant_ok 1 (by omega))
      exact ⟨this.1, fun _ => this.2⟩
    | some p =>
      obtain ⟨q0, q1⟩ := p
      simp only
      split
      · exact ⟨by simp, keep⟩
      · rename_i hv
        simp only [Bool.or_eq_true, Bool.not_eq_true', not_or, Bool.not_eq_false] at hv
        have hb := hq q0 q1 rfl
        have := resetFinish_spec { e with quants0 := q0, quants1 := q1 } wfail ct w h
          (quantIsValid_spec q0 hv.1 hb.1) (quantIsValid_spec q1 hv.2 hb.2)
        exact ⟨this.1, fun _ => this.2⟩

/-- `Add1/3/6` never overrun `buf` and keep the invariant -/
theorem add_spec (e : Encoder) (n : Nat) (wfail : Bool) (blocks : Option (List Block)) (hw : WF e)
    (hn : n = 1 ∨ n = 3 ∨ n = 6) (hl : ∀ bs, blocks = some bs → bs.length = n) :
    (add e n wfail blocks).2 ≠ .panic ∧ WF (add e n wfail blocks).1 := by
  have keep : WF { e with hasReturnedError := true } := fun hc => by
    have := hw hc; exact ⟨this.bitsN, this.q0, this.q1, this.p0, this.p1, this.p2⟩
  unfold add
  split
  · exact ⟨by simp, hw⟩
  · split
    · exact ⟨by simp, keep⟩
    · rename_i hct
      cases blocks with
      | none => exact ⟨by simp, keep⟩
      | some bs =>
        simp only
        have hct' : e.colorType = n := by simpa using hct
        have hi : Inv e := hw (by rw [hct']; exact hn)
        have hlen := hl bs rfl
        have := addN_spec e wfail bs hi (by omega)
        exact ⟨this.1, fun _ => this.2⟩


end WuffsVerif.Jpeg.Buf
