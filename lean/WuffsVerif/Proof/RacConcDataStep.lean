/-
C14 helper: every step of the data-level model (Model/Rac/ConcData.lean) preserves `DInv`.
Part 1: the cancel / close handshake and the Manager.
-/
import WuffsVerif.Proof.RacConcDataInv

set_option linter.unusedVariables false
set_option linter.unusedSimpArgs false

namespace WuffsVerif.Rac.ConcD
open WuffsVerif.Rac WuffsVerif.Rac.Conc

theorem forall_setD {ws : List DW} {i : Nat} {w' : DW} {P : Nat → DW → Prop}
    (h : ∀ (j : Nat) (w : DW), ws[j]? = some w → P j w) (h' : P i w') :
    ∀ (j : Nat) (w : DW), (ws.set i w')[j]? = some w → P j w := by
  intro j w hj
  rw [List.getElem?_set] at hj
  split at hj
  · next hij =>
    split at hj
    · cases hj; subst hij; exact h'
    · cases hj
  · exact h j w hj

theorem map_eq_nil' {α β : Type} {f : α → β} {l : List α} (h : l.map f = []) : l = [] := by
  cases l with
  | nil => rfl
  | cons x xs => simp at h

/-- what `allQuiet (abs s)` says about the data-level state -/
theorem quiet_of_abs {s : DSt} (h : allQuiet (abs s)) :
    s.mgr.m.work = none ∧ (∀ (i : Nat) (w : DW), s.ws[i]? = some w → w.w.out = none ∧ w.w.dr = none) ∧
    s.reqc = [] ∧ s.resc = [] ∧ s.completed = [] ∧ s.curr = none := by
  obtain ⟨hm, hw, h1, h2, h3, h4⟩ := h
  refine ⟨hm.2.1, ?_, map_eq_nil' h1, map_eq_nil' h2, map_eq_nil' h3, ?_⟩
  · intro i w hi
    exact hw i w.w (abs_ws_get hi)
  · simp only [abs] at h4
    cases hc : s.curr with
    | none => rfl
    | some c => rw [hc] at h4; cases h4

theorem dinv_stopMgr {F : File} {s s' : DSt} (hI : DInv F s) (h : stepD F s .stopMgr = some s') : DInv F s' := by
  simp only [stepD, hI.nofault, Bool.false_eq_true, ↓reduceIte] at h
  split at h
  · next k keep hm =>
    split at h
    · cases h
      have hp := hI.pend
      exact { hI with
        nofault := rfl
        live := fun _ h => by rcases h with h | h <;> cases h
        closedIff := fun hc => by have := hI.closedIff hc; rw [hm] at this; cases this
        pend := by cases keep <;> simpa [PendInv, hm] using hp }
    · cases h
  · cases h

theorem dinv_stopW {F : File} {s s' : DSt} (i : Nat) (hI : DInv F s) (h : stepD F s (.stopW i) = some s') : DInv F s' := by
  simp only [stepD, hI.nofault, Bool.false_eq_true, ↓reduceIte] at h
  split at h
  · next k keep w hm hi =>
    split at h
    · cases h
      have hp := hI.pend
      have hw := hI.wk i w hi
      exact { hI with
        nofault := rfl
        wk := forall_setD hI.wk ⟨hw.err, hw.inv, hw.dr, hw.out⟩
        live := fun _ h => by rcases h with h | h <;> cases h
        closedIff := fun hc => by have := hI.closedIff hc; rw [hm] at this; cases this
        pend := by cases keep <;> simpa [PendInv, hm] using hp }
    · cases h
  · cases h

theorem recycleAllD_get (s : DSt) (i : Nat) (w : DW) (h : (recycleAllD s)[i]? = some w) :
    ∃ w0, s.ws[i]? = some w0 ∧ w.rd = w0.rd ∧ w.w.dr = w0.w.dr ∧ w.w.out = w0.w.out ∧
      w.dlo = w0.dlo ∧ w.dhi = w0.dhi ∧ w.olo = w0.olo ∧ w.ohi = w0.ohi ∧ w.odata = w0.odata := by
  simp only [recycleAllD, List.getElem?_mapIdx] at h
  cases hw : s.ws[i]? with
  | none => rw [hw] at h; cases h
  | some w0 =>
    rw [hw] at h
    simp only [Option.map_some, Option.some.injEq] at h
    subst h
    exact ⟨w0, rfl, rfl, rfl, rfl, rfl, rfl, rfl, rfl, rfl⟩

theorem dinv_recycle {F : File} {s s' : DSt} (hI : DInv F s) (h : stepD F s .recycle = some s') : DInv F s' := by
  simp only [stepD, hI.nofault, Bool.false_eq_true, ↓reduceIte] at h
  split at h
  · next k keep hm =>
    split at h
    · split at h
      · next hkeep =>
        cases h
        subst hkeep
        have hp := hI.pend
        exact { hI with
          nofault := rfl
          resc := fun it h => by cases h
          comp := fun it h => by cases h
          curr := fun it h => by cases h
          reqc := fun it h => by cases h
          wk := fun i w hi => by
            obtain ⟨w0, h0, e1, e2, e3, e4, e5, e6, e7, e8⟩ := recycleAllD_get s i w hi
            have hw := hI.wk i w0 h0
            exact ⟨by rw [e1]; exact hw.err, by rw [e1]; exact hw.inv,
              by rw [e2, e4, e5, e1]; exact hw.dr, by rw [e3, e6, e7, e8]; exact hw.out⟩
          live := fun _ h => by rcases h with h | h <;> cases h
          closedIff := fun hc => by have := hI.closedIff hc; rw [hm] at this; cases this
          pend := by simpa [PendInv, hm] using hp }
      · next hkeep =>
        cases h
        have hp := hI.pend
        have hk : keep = false := by cases keep <;> simp_all
        subst hk
        exact { hI with
          nofault := rfl
          live := fun _ h => by rcases h with h | h <;> cases h
          closedIff := fun hc => by have := hI.closedIff hc; rw [hm] at this; cases this
          pend := by simpa [PendInv, hm] using hp }
    · cases h
  · cases h

theorem dinv_ackMgr {F : File} {s s' : DSt} (hI : DInv F s) (h : stepD F s .ackMgr = some s') : DInv F s' := by
  simp only [stepD, hI.nofault, Bool.false_eq_true, ↓reduceIte] at h
  split at h
  · next k kk keep hm hpc =>
    split at h
    · cases h
      have hp := hI.pend
      exact { hI with
        nofault := rfl
        mwork := by
          intro hw
          cases keep with
          | true => simp [M.resume] at hw
          | false => exact hI.mwork (by simpa using hw)
        live := fun _ h => by rcases h with h | h <;> cases h
        closedIff := fun hc => by have := hI.closedIff hc; rw [hm] at this; cases this
        pend := by cases kk <;> simpa [PendInv, hm] using hp }
    · cases h
  · cases h

theorem dinv_ackW {F : File} {s s' : DSt} (i : Nat) (hI : DInv F s) (h : stepD F s (.ackW i) = some s') : DInv F s' := by
  simp only [stepD, hI.nofault, Bool.false_eq_true, ↓reduceIte] at h
  split at h
  · next k kk w hm hi =>
    split at h
    · next keep hpc =>
      split at h
      · cases h
        have hp := hI.pend
        have hw := hI.wk i w hi
        exact { hI with
          nofault := rfl
          wk := forall_setD hI.wk (by
            cases keep with
            | true => exact ⟨hw.err, hw.inv, by intro h; simp [W.resume] at h, by intro h; simp [W.resume] at h⟩
            | false => exact ⟨hw.err, hw.inv, hw.dr, hw.out⟩)
          live := fun _ h => by rcases h with h | h <;> cases h
          closedIff := fun hc => by have := hI.closedIff hc; rw [hm] at this; cases this
          pend := by cases kk <;> simpa [PendInv, hm] using hp }
      · cases h
    · cases h
  · cases h

theorem canon_err (e : Option Err) : (Res.err e).canon = Res.err e := rfl

theorem dinv_ackDone {F : File} {s s' : DSt} (hI : DInv F s) (h : stepD F s .ackDone = some s') : DInv F s' := by
  simp only [stepD, hI.nofault, Bool.false_eq_true, ↓reduceIte] at h
  split at h
  · next k keep hm =>
    split at h
    · split at h
      · next hkeep =>
        cases h
        subst hkeep
        have hp := hI.pend
        exact { hI with
          nofault := rfl
          live := fun _ h => by rcases h with h | h <;> cases h
          closedIff := fun hc => by have := hI.closedIff hc; rw [hm] at this; cases this
          pend := by simpa [PendInv, hm] using hp }
      · next hkeep =>
        have hk : keep = false := by cases keep <;> simp_all
        subst hk
        have hp := hI.pend
        simp only [PendInv, hm] at hp
        have hnr : ∀ n, s.pend ≠ some (.read n) := by intro n; rw [hp.1]; simp
        have hgot := hI.nord hnr
        have hcl : (specOf F s).closed = false := by rw [hI.spclosed]; exact hp.2
        split at h
        · next he =>
          cases h
          have hse : (specOf F s).err = none := by rw [hI.sperr]; exact he
          have hstep : (specOf F s).step .close = ({ specOf F s with closed := true, err := some .closed }, .err none) := by
            simp only [Spec.step, hcl, hse, Bool.false_eq_true, ↓reduceIte]
          exact { hI with
            nofault := rfl
            live := fun _ h => by rcases h with h | h <;> cases h
            closedIff := fun _ => rfl
            pend := by simp [PendInv, DSt.ret]
            rd := fun n h => by simp [DSt.ret] at h
            nord := fun _ => rfl
            log := by
              simp only [DSt.ret]
              rw [spec_run_append, ← hI.log]
              show _ = _ ++ [((specOf F s).step .close).2]
              rw [hstep]; rfl
            sperr := by
              simp only [specOf, DSt.ret]
              rw [specAfter_append]
              show ((specOf F s).step .close).1.err = _
              rw [hstep]
            spclosed := by
              simp only [specOf, DSt.ret]
              rw [specAfter_append]
              show ((specOf F s).step .close).1.closed = _
              rw [hstep]
            sp := fun h => by simp [DSt.ret] at h }
        · next e he =>
          cases h
          have hse : (specOf F s).err = some e := by rw [hI.sperr]; exact he
          have hstep : (specOf F s).step .close = ({ specOf F s with closed := true }, .err (some e)) := by
            simp only [Spec.step, hcl, hse, Bool.false_eq_true, ↓reduceIte]
          exact { hI with
            nofault := rfl
            live := fun _ h => by rcases h with h | h <;> cases h
            closedIff := fun _ => rfl
            pend := by simp [PendInv, DSt.ret, he]
            rd := fun n h => by simp [DSt.ret] at h
            nord := fun _ => rfl
            log := by
              simp only [DSt.ret]
              rw [spec_run_append, ← hI.log]
              show _ = _ ++ [((specOf F s).step .close).2]
              rw [hstep]; rfl
            sperr := by
              simp only [specOf, DSt.ret]
              rw [specAfter_append]
              show ((specOf F s).step .close).1.err = _
              rw [hstep]; exact hI.sperr
            spclosed := by
              simp only [specOf, DSt.ret]
              rw [specAfter_append]
              show ((specOf F s).step .close).1.closed = _
              rw [hstep]
            sp := fun h => by simp [DSt.ret, he] at h }
    · cases h
  · cases h

theorem dinv_roi {F : File} {s s' : DSt} (hI : DInv F s) (hC : CInv (abs s)) (h : stepD F s .roi = some s') : DInv F s' := by
  simp only [stepD, hI.nofault, Bool.false_eq_true, ↓reduceIte] at h
  split at h
  · next hg =>
    cases h
    have hm := hg.1
    have hp := hI.pend
    simp only [PendInv, hm] at hp
    have hph := hC.phase
    have hmA : (abs s).main = .sendRoi := hm
    simp only [PhaseInv, hmA] at hph
    obtain ⟨q1, q2, q3, q4, q5, q6⟩ := quiet_of_abs hph.2.2.1
    exact { hI with
      nofault := rfl
      resc := fun it h => by rw [q4] at h; cases h
      comp := fun it h => by rw [q5] at h; cases h
      curr := fun it h => by rw [q6] at h; cases h
      reqc := fun it h => by rw [q3] at h; cases h
      mwork := fun h => by simp at h
      rhi := hI.lim
      wk := fun i w hi => by
        have hw := hI.wk i w hi
        have hq := q2 i w hi
        exact ⟨hw.err, hw.inv, fun h => absurd hq.2 h, fun h => absurd hq.1 h⟩
      live := fun _ _ => ⟨rfl, fun it h => by rw [q6] at h; cases h⟩
      closedIff := fun hc => by have := hI.closedIff hc; rw [hm] at this; cases this
      pend := by simpa [PendInv] using hp }
  · cases h

theorem dinv_mgrMake {F : File} (hok : F.ok) {s s' : DSt} (hI : DInv F s) (h : stepD F s .mgrMake = some s') : DInv F s' := by
  simp only [stepD, hI.nofault, Bool.false_eq_true, ↓reduceIte] at h
  split at h
  · next e hroi =>
    split at h
    · next hg =>
      split at h
      · cases h
        exact { hI with nofault := rfl }
      · next hcur =>
        obtain ⟨c, hc1, hc2, hc3, hc4, hc5⟩ := File.find hok.1 (p := s.mgr.cur) (by omega)
        rw [hc1] at h
        simp only at h
        split at h
        · cases h
          exact { hI with nofault := rfl }
        · split at h
          · next hlt =>
            cases h
            exact { hI with
              nofault := rfl
              mwork := fun _ => ⟨hlt, Nat.min_le_right _ _⟩ }
          · cases h
            exact { hI with nofault := rfl }
    · cases h
  · cases h

theorem dinv_mgrSend {F : File} {s s' : DSt} (hI : DInv F s) (h : stepD F s .mgrSend = some s') : DInv F s' := by
  simp only [stepD, hI.nofault, Bool.false_eq_true, ↓reduceIte] at h
  split at h
  · next it hw =>
    split at h
    · cases h
      have hmw := hI.mwork (by rw [hw]; simp)
      exact { hI with
        nofault := rfl
        reqc := fun x hx => by
          rcases List.mem_append.mp hx with hx | hx
          · exact hI.reqc x hx
          · simp only [List.mem_singleton] at hx
            subst hx
            exact ⟨hmw.1, hmw.2⟩
        mwork := fun h => by simp at h }
    · cases h
  · cases h

end WuffsVerif.Rac.ConcD
