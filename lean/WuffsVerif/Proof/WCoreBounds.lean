/-
Lemmas for C01 `bounds_contain`: soundness of each rule of `WCore.bcheck` w.r.t.
`evalI` / `safe`, using the C06 interval soundness theorems.
-/
import WuffsVerif.Model.WCore.Bounds
import WuffsVerif.Props.C06
import WuffsVerif.Props.C06Bits

namespace WuffsVerif.Proof.WCoreBounds
open WuffsVerif.Interval WuffsVerif.WCore

theorem mem_mkIR {a b v : Int} : (mkIR a b).mem v ↔ a ≤ v ∧ v ≤ b := by
  simp [mkIR, IR.mem, loLe, leHi]

theorem mem_some {lo hi v : Int} : (IR.mk (some lo) (some hi)).mem v ↔ lo ≤ v ∧ v ≤ hi := by
  simp [IR.mem, loLe, leHi]

/-- every base type's range, explicitly -/
theorem range_of_numBounds {b : Base} {lo hi : Int} (h : b.numBounds = some (lo, hi)) :
    b.range = (lo, hi) := by
  simp [Base.range, h]

theorem range_ideal {b : Base} (h : b.numBounds = none) : b.range = (minIdeal, maxIdeal) := by
  simp [Base.range, h]

theorem numBounds_none_iff {b : Base} : b.numBounds = none ↔ b = .ideal := by
  cases b <;> simp [Base.numBounds]

theorem refineLo_spec {lo a : Int} {m : Option Int} (h : refineLo lo m = some a) :
    lo ≤ a ∧ (∀ v : Int, a ≤ v ↔ lo ≤ v ∧ ∀ x, m = some x → x ≤ v) := by
  cases m with
  | none =>
    simp [refineLo] at h; subst h
    exact ⟨Int.le_refl _, fun v => by simp⟩
  | some x =>
    simp only [refineLo] at h
    split at h
    · cases h
    · cases h
      refine ⟨by omega, fun v => ?_⟩
      constructor
      · intro hv; exact ⟨by omega, fun y hy => by cases hy; exact hv⟩
      · intro ⟨_, h2⟩; exact h2 _ rfl

theorem refineHi_spec {hi a : Int} {m : Option Int} (h : refineHi hi m = some a) :
    a ≤ hi ∧ (∀ v : Int, v ≤ a ↔ v ≤ hi ∧ ∀ x, m = some x → v ≤ x) := by
  cases m with
  | none =>
    simp [refineHi] at h; subst h
    exact ⟨Int.le_refl _, fun v => by simp⟩
  | some x =>
    simp only [refineHi] at h
    split at h
    · cases h
    · cases h
      refine ⟨by omega, fun v => ?_⟩
      constructor
      · intro hv; exact ⟨by omega, fun y hy => by cases hy; exact hv⟩
      · intro ⟨_, h2⟩; exact h2 _ rfl

/-- `typeBounds t = some tb`: membership in `tb` is exactly `inType t`. -/
theorem typeBounds_mem_iff {t : Ty} {tb : IR} (h : typeBounds t = some tb) (v : Int) :
    tb.mem v ↔ inType t v := by
  unfold typeBounds at h
  cases hb : t.base.numBounds with
  | none =>
    simp only [hb] at h
    cases h
    have hi := numBounds_none_iff.1 hb
    have hr : Base.ideal.range = (minIdeal, maxIdeal) := by simp [Base.range, Base.numBounds]
    simp [mem_mkIR, inType, inNatural, hi, hr]
  | some p =>
    obtain ⟨lo, hi⟩ := p
    have hne : t.base ≠ .ideal := by
      intro hc; rw [numBounds_none_iff.2 hc] at hb; cases hb
    simp only [hb] at h
    cases h1 : refineLo lo t.min with
    | none => simp [h1] at h
    | some a =>
      cases h2 : refineHi hi t.max with
      | none => simp [h1, h2] at h
      | some b =>
        simp only [h1, h2] at h
        cases h
        obtain ⟨_, ha⟩ := refineLo_spec h1
        obtain ⟨_, hb'⟩ := refineHi_spec h2
        simp only [mem_mkIR, inType, inNatural, range_of_numBounds hb, ha v, hb' v]
        constructor
        · intro ⟨⟨h3, h4⟩, h5, h6⟩
          exact ⟨⟨h3, h5⟩, fun _ => ⟨h4, h6⟩⟩
        · intro ⟨⟨h3, h5⟩, h7⟩
          exact ⟨⟨h3, (h7 hne).1⟩, h5, (h7 hne).2⟩

end WuffsVerif.Proof.WCoreBounds
