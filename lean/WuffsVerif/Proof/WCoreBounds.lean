/-
Lemmas for C01 `bounds_contain`: soundness of each rule of `WCore.bcheck` w.r.t.
`evalI` / `safe`, using the C06 interval soundness theorems.
-/
import WuffsVerif.Model.WCore.Bounds
import WuffsVerif.Props.C06
import WuffsVerif.Props.C06Bits

namespace WuffsVerif.Proof.WCoreBounds
open WuffsVerif.Interval WuffsVerif.WCore

theorem mem_mkIR {a b v : Int} : (mkIR a b).mem v ↔ a ≤ v ∧ v ≤ b := by
  simp [mkIR, IR.mem, loLe, leHi]

theorem mem_some {lo hi v : Int} : (IR.mk (some lo) (some hi)).mem v ↔ lo ≤ v ∧ v ≤ hi := by
  simp [IR.mem, loLe, leHi]

/-- every base type's range, explicitly -/
theorem range_of_numBounds {b : Base} {lo hi : Int} (h : b.numBounds = some (lo, hi)) :
    b.range = (lo, hi) := by
  simp [Base.range, h]

theorem range_ideal {b : Base} (h : b.numBounds = none) : b.range = (minIdeal, maxIdeal) := by
  simp [Base.range, h]

theorem numBounds_none_iff {b : Base} : b.numBounds = none ↔ b = .ideal := by
  cases b <;> simp [Base.numBounds]

theorem refineLo_spec {lo a : Int} {m : Option Int} (h : refineLo lo m = some a) :
    lo ≤ a ∧ (∀ v : Int, a ≤ v ↔ lo ≤ v ∧ ∀ x, m = some x → x ≤ v) := by
  cases m with
  | none =>
    simp [refineLo] at h; subst h
    exact ⟨Int.le_refl _, fun v => by simp⟩
  | some x =>
    simp only [refineLo] at h
    split at h
    · cases h
    · cases h
      refine ⟨by omega, fun v => ?_⟩
      constructor
      · intro hv; exact ⟨by omega, fun y hy => by cases hy; exact hv⟩
      · intro ⟨_, h2⟩; exact h2 _ rfl

theorem refineHi_spec {hi a : Int} {m : Option Int} (h : refineHi hi m = some a) :
    a ≤ hi ∧ (∀ v : Int, v ≤ a ↔ v ≤ hi ∧ ∀ x, m = some x → v ≤ x) := by
  cases m with
  | none =>
    simp [refineHi] at h; subst h
    exact ⟨Int.le_refl _, fun v => by simp⟩
  | some x =>
    simp only [refineHi] at h
    split at h
    · cases h
    · cases h
      refine ⟨by omega, fun v => ?_⟩
      constructor
      · intro hv; exact ⟨by omega, fun y hy => by cases hy; exact hv⟩
      · intro ⟨_, h2⟩; exact h2 _ rfl

/-- `typeBounds t = some tb`: membership in `tb` is exactly `inType t`. -/
theorem typeBounds_mem_iff {t : Ty} {tb : IR} (h : typeBounds t = some tb) (v : Int) :
    tb.mem v ↔ inType t v := by
  unfold typeBounds at h
  cases hb : t.base.numBounds with
  | none =>
    simp only [hb] at h
    cases h
    have hi := numBounds_none_iff.1 hb
    have hr : Base.ideal.range = (minIdeal, maxIdeal) := by simp [Base.range, Base.numBounds]
    simp [mem_mkIR, inType, inNatural, hi, hr]
  | some p =>
    obtain ⟨lo, hi⟩ := p
    have hne : t.base ≠ .ideal := by
      intro hc; rw [numBounds_none_iff.2 hc] at hb; cases hb
    simp only [hb] at h
    cases h1 : refineLo lo t.min with
    | none => simp [h1] at h
    | some a =>
      cases h2 : refineHi hi t.max with
      | none => simp [h1, h2] at h
      | some b =>
        simp only [h1, h2] at h
        cases h
        obtain ⟨_, ha⟩ := refineLo_spec h1
        obtain ⟨_, hb'⟩ := refineHi_spec h2
        simp only [mem_mkIR, inType, inNatural, range_of_numBounds hb, ha v, hb' v]
        constructor
        · intro ⟨⟨h3, h4⟩, h5, h6⟩
          exact ⟨⟨h3, h5⟩, fun _ => ⟨h4, h6⟩⟩
        · intro ⟨⟨h3, h5⟩, h7⟩
          exact ⟨⟨h3, (h7 hne).1⟩, h5, (h7 hne).2⟩

/-- every fact of the situation is true in the store `env` (ideal integers) -/
def FactsHold (env : Env) (fs : List Expr) : Prop := ∀ f ∈ fs, evalI env f ≠ 0

/-- meaning of the comparison operators -/
def cmpRel : BOp → Int → Int → Prop
  | .ne, x, y => x ≠ y
  | .lt, x, y => x < y
  | .le, x, y => x ≤ y
  | .eq, x, y => x = y
  | .ge, x, y => x ≥ y
  | .gt, x, y => x > y
  | _, _, _ => True

theorem b2i_ne_zero {b : Bool} : b2i b ≠ 0 ↔ b = true := by
  cases b <;> simp [b2i]

theorem b2i_mem01 (b : Bool) : (mkIR 0 1).mem (b2i b) := by
  cases b <;> simp [b2i, mem_mkIR]

theorem cmp_true {op : BOp} (hc : op.isCmp = true) (tb : Base) (x y : Int) :
    binSem op tb x y ≠ 0 ↔ cmpRel op x y := by
  cases op <;> simp [BOp.isCmp] at hc <;> simp [binSem, cmpRel, b2i_ne_zero]

theorem cmpRel_reverse {op : BOp} (hc : op.isCmp = true) (x y : Int) :
    cmpRel op.reverse y x ↔ cmpRel op x y := by
  cases op <;> simp [BOp.isCmp] at hc <;> simp [BOp.reverse, cmpRel] <;> omega

theorem reverse_isCmp {op : BOp} (hc : op.isCmp = true) : op.reverse.isCmp = true := by
  cases op <;> simp [BOp.isCmp] at hc <;> simp [BOp.reverse, BOp.isCmp]

/-- `otherHandSide`: what a hit means for values -/
theorem otherHandSide_sound {env : Env} {x n other : Expr} {op : BOp}
    (h : otherHandSide x n = some (op, other)) (hx : evalI env x ≠ 0) :
    op.isCmp = true ∧ cmpRel op (evalI env n) (evalI env other) := by
  cases x with
  | binary op0 l r =>
    simp only [otherHandSide] at h
    split at h
    · rename_i hc
      split at h
      · rename_i hnl
        cases h
        have : n = l := eq_of_beq hnl
        subst this
        refine ⟨hc, ?_⟩
        simp only [evalI] at hx
        exact (cmp_true hc _ _ _).1 hx
      · split at h
        · rename_i hnr
          cases h
          have : n = r := eq_of_beq hnr
          subst this
          refine ⟨reverse_isCmp hc, ?_⟩
          simp only [evalI] at hx
          exact (cmpRel_reverse hc _ _).2 ((cmp_true hc _ _ _).1 hx)
        · cases h
    · cases h
  | _ => simp [otherHandSide] at h

theorem refineRes_sound {op : BOp} {lo hi cv v : Int} (hrel : cmpRel op v cv)
    (h1 : lo ≤ v) (h2 : v ≤ hi) :
    (refineRes op lo hi cv).1 ≤ v ∧ v ≤ (refineRes op lo hi cv).2.1 := by
  cases op <;> simp only [cmpRel] at hrel <;> simp only [refineRes] <;>
    (repeat' split) <;> (try simp only []) <;> omega

theorem refineStep_sound {env : Env} {n x : Expr} {nb b : IR}
    (hx : evalI env x ≠ 0) (h : refineStep n nb x = some b) (hm : nb.mem (evalI env n)) :
    b.mem (evalI env n) := by
  unfold refineStep at h
  split at h
  · rename_i op cv hoh
    obtain ⟨hc, hrel⟩ := otherHandSide_sound hoh hx
    simp only [evalI] at hrel
    split at h
    · rename_i lo hi hlo hhi
      have hm' : lo ≤ evalI env n ∧ evalI env n ≤ hi := by
        have : nb = ⟨some lo, some hi⟩ := by cases nb; simp_all
        rw [this] at hm; exact mem_some.1 hm
      split at h
      · cases h
      · cases h
        rw [mem_mkIR]
        exact refineRes_sound hrel hm'.1 hm'.2
    · cases h; exact hm
  · cases h; exact hm

theorem refine_sound {env : Env} {fs : List Expr} {n : Expr} {nb b : IR}
    (hf : FactsHold env fs) (h : refine fs n nb = some b) (hm : nb.mem (evalI env n)) :
    b.mem (evalI env n) := by
  unfold refine at h
  induction fs generalizing nb with
  | nil => simp [List.foldlM] at h; cases h; exact hm
  | cons x xs ih =>
    simp only [List.foldlM_cons] at h
    cases hs : refineStep n nb x with
    | none => simp [hs] at h
    | some nb' =>
      simp only [hs, Option.bind_eq_bind, Option.bind_some] at h
      exact ih (fun f hf' => hf f (List.mem_cons_of_mem _ hf')) h
        (refineStep_sound (hf x List.mem_cons_self) hs hm)

theorem finish_sound {env : Env} {fs : List Expr} {n : Expr} {nb b : IR}
    (hf : FactsHold env fs) (h : finish fs n nb = some b) (hm : nb.mem (evalI env n)) :
    b.mem (evalI env n) ∧ inType (typeOf n) (evalI env n) := by
  unfold finish at h
  cases hr : refine fs n nb with
  | none => simp [hr] at h
  | some nb' =>
    simp only [hr] at h
    have hm' := refine_sound hf hr hm
    cases ht : typeBounds (typeOf n) with
    | none => simp [ht] at h
    | some tb =>
      simp only [ht] at h
      split at h
      · rename_i a b' c d ha hb hc hd
        split at h
        · cases h
        · rename_i hcmp
          cases h
          refine ⟨hm', (typeBounds_mem_iff ht _).1 ?_⟩
          have h1 := mem_lo hm' ha
          have h2 := mem_hi hm' hb
          simp only [Bool.or_eq_true, decide_eq_true_eq, not_or, Int.not_lt] at hcmp
          have : tb = ⟨some c, some d⟩ := by cases tb; simp_all
          rw [this, mem_some]
          omega
      · cases h

theorem mem_map_imin_hi {nb : IR} {v k : Int} (hm : nb.mem v) (hk : v ≤ k) :
    (IR.mk nb.lo (nb.hi.map (imin · k))).mem v := by
  refine ⟨hm.1, ?_⟩
  have h2 := hm.2
  cases hh : nb.hi with
  | none => simp [leHi]
  | some b =>
    rw [hh] at h2
    simp only [leHi] at h2
    simp only [Option.map_some, leHi, imin]
    split <;> omega

theorem mem_map_imax_lo {nb : IR} {v k : Int} (hm : nb.mem v) (hk : k ≤ v) :
    (IR.mk (nb.lo.map (imax · k)) nb.hi).mem v := by
  refine ⟨?_, hm.2⟩
  have h1 := hm.1
  cases hh : nb.lo with
  | none => simp [loLe]
  | some b =>
    rw [hh] at h1
    simp only [loLe] at h1
    simp only [Option.map_some, loLe, imax]
    split <;> omega

theorem minusFactStep_sound {env : Env} {l r f : Expr} {nb : IR} (hf : evalI env f ≠ 0)
    (hm : nb.mem (evalI env l - evalI env r)) :
    (minusFactStep l r nb f).mem (evalI env l - evalI env r) := by
  unfold minusFactStep
  split
  · rename_i op xl xr
    split
    · rename_i heq
      simp only [Bool.and_eq_true] at heq
      have e1 : l = xl := eq_of_beq heq.1
      have e2 : r = xr := eq_of_beq heq.2
      subst e1; subst e2
      simp only [evalI] at hf
      cases op <;> try exact hm
      · have := (cmp_true (op := .lt) rfl _ _ _).1 hf
        simp only [cmpRel] at this
        exact mem_map_imin_hi hm (by omega)
      · have := (cmp_true (op := .le) rfl _ _ _).1 hf
        simp only [cmpRel] at this
        exact mem_map_imin_hi hm (by omega)
      · have := (cmp_true (op := .ge) rfl _ _ _).1 hf
        simp only [cmpRel] at this
        exact mem_map_imax_lo hm (by omega)
      · have := (cmp_true (op := .gt) rfl _ _ _).1 hf
        simp only [cmpRel] at this
        exact mem_map_imax_lo hm (by omega)
    · exact hm
  · exact hm

theorem minusBounds_sound {env : Env} {fs : List Expr} {l r : Expr} {lb rb : IR}
    (hf : FactsHold env fs) (hl : lb.mem (evalI env l)) (hr : rb.mem (evalI env r)) :
    (minusBounds fs l lb r rb).mem (evalI env l - evalI env r) := by
  unfold minusBounds
  have h0 : (sub lb rb).mem (evalI env l - evalI env r) :=
    WuffsVerif.Props.C06.sub_sound lb rb _ _ hl hr
  generalize sub lb rb = nb at h0
  induction fs generalizing nb with
  | nil => exact h0
  | cons x xs ih =>
    simp only [List.foldl_cons]
    exact ih (fun f hf' => hf f (List.mem_cons_of_mem _ hf')) _
      (minusFactStep_sound (hf x List.mem_cons_self) h0)

theorem loNeg_false {X : IR} {x : Int} (h : loNeg X = false) (hm : X.mem x) : 0 ≤ x := by
  unfold loNeg at h
  cases hl : X.lo with
  | none => simp [hl] at h
  | some a =>
    simp [hl] at h
    have := mem_lo hm hl
    omega

theorem loNonPos_false {X : IR} {x : Int} (h : loNonPos X = false) (hm : X.mem x) : 0 < x := by
  unfold loNonPos at h
  cases hl : X.lo with
  | none => simp [hl] at h
  | some a =>
    simp [hl] at h
    have := mem_lo hm hl
    omega

theorem containsIR_mem {slo shi y : Int} {Y : IR} (h : containsIR (mkIR slo shi) Y = true)
    (hm : Y.mem y) : slo ≤ y ∧ y ≤ shi := by
  unfold containsIR at h
  rw [not_empty_of_mem hm] at h
  simp only [mkIR, Bool.false_eq_true, if_false, Bool.and_eq_true] at h
  obtain ⟨h1, h2⟩ := h
  cases hl : Y.lo with
  | none => simp [hl] at h1
  | some a =>
    cases hh : Y.hi with
    | none => simp [hh] at h2
    | some b =>
      simp [hl] at h1
      simp [hh] at h2
      have := mem_lo hm hl
      have := mem_hi hm hh
      omega

theorem shiftBounds_spec {b : Base} {slo shi : Int} (h : b.shiftBounds = some (slo, shi)) :
    slo = 0 ∧ shi = (b.bits : Int) - 1 ∧ b.numBounds = some (0, (2 : Int) ^ b.bits - 1) ∧
      b.isUnsigned = true := by
  cases b <;> simp [Base.shiftBounds] at h <;> obtain ⟨rfl, rfl⟩ := h <;>
    simp [Base.bits, Base.numBounds, Base.isUnsigned]

theorem unsigned_numBounds {b : Base} (h : b.isUnsigned = true) :
    b.numBounds = some (0, (2 : Int) ^ b.bits - 1) := by
  cases b <;> simp [Base.isUnsigned] at h <;> simp [Base.bits, Base.numBounds]

theorem emod_mem_unsigned {b : Base} (h : b.isUnsigned = true) (z : Int) {nb : IR}
    (hn : numIR b = some nb) : nb.mem (z % 2 ^ b.bits) := by
  unfold numIR at hn
  rw [unsigned_numBounds h] at hn
  cases hn
  rw [mem_mkIR]
  have hp : (0 : Int) < 2 ^ b.bits := Int.pow_pos (by decide)
  have := Int.emod_nonneg z (Int.ne_of_gt hp)
  have := Int.emod_lt_of_pos z hp
  omega

theorem ixor_bound {x y a b : Int} (hx0 : 0 ≤ x) (hxa : x ≤ a) (hy0 : 0 ≤ y) (hyb : y ≤ b) :
    0 ≤ ixor x y ∧ ixor x y ≤ bitMaskN (bitLen (imax a b)) := by
  unfold ixor bitMaskN
  refine ⟨Int.natCast_nonneg _, ?_⟩
  have hm := (bitLen_range (imax a b)).2
  have hxm : x ≤ imax a b := by unfold imax; split <;> omega
  have hym : y ≤ imax a b := by unfold imax; split <;> omega
  generalize bitLen (imax a b) = k at *
  have e := two_pow_cast k
  have hx' : x.toNat < 2 ^ k := by omega
  have hy' : y.toNat < 2 ^ k := by omega
  have := Nat.xor_lt_two_pow hx' hy'
  show ((x.toNat ^^^ y.toNat : Nat) : Int) ≤ 2 ^ k - 1
  omega

theorem mem_sat_hi {A : IR} {z hi : Int} (hm : A.mem z) :
    (IR.mk (A.lo.map (imin · hi)) (A.hi.map (imin · hi))).mem (if z > hi then hi else z) := by
  obtain ⟨h1, h2⟩ := hm
  constructor
  · cases hl : A.lo with
    | none => simp [loLe]
    | some a =>
      rw [hl] at h1; simp only [loLe] at h1
      simp only [Option.map_some, loLe, imin]
      split <;> split <;> omega
  · cases hh : A.hi with
    | none => simp [leHi]
    | some b =>
      rw [hh] at h2; simp only [leHi] at h2
      simp only [Option.map_some, leHi, imin]
      split <;> split <;> omega

theorem mem_sat_lo {A : IR} {z lo : Int} (hm : A.mem z) :
    (IR.mk (A.lo.map (imax · lo)) (A.hi.map (imax · lo))).mem (if z < lo then lo else z) := by
  obtain ⟨h1, h2⟩ := hm
  constructor
  · cases hl : A.lo with
    | none => simp [loLe]
    | some a =>
      rw [hl] at h1; simp only [loLe] at h1
      simp only [Option.map_some, loLe, imax]
      split <;> split <;> omega
  · cases hh : A.hi with
    | none => simp [leHi]
    | some b =>
      rw [hh] at h2; simp only [leHi] at h2
      simp only [Option.map_some, leHi, imax]
      split <;> split <;> omega

theorem two_pow_mono {a b : Nat} (h : a ≤ b) : (2 : Int) ^ a ≤ 2 ^ b := by
  have := Nat.pow_le_pow_right (n := 2) (by decide) h
  exact_mod_cast this

/-- what the shift rules know once `shiftBounds` exists and contains the amount's bounds -/
theorem shift_amount_ok {b : Base} {slo shi y : Int} {rb : IR}
    (hs : b.shiftBounds = some (slo, shi)) (hc : (!containsIR (mkIR slo shi) rb) = false)
    (hr : rb.mem y) : 0 ≤ y ∧ y < (b.bits : Int) := by
  obtain ⟨rfl, rfl, _, _⟩ := shiftBounds_spec hs
  simp only [Bool.not_eq_false'] at hc
  have := containsIR_mem hc hr
  omega

/-- Soundness of `bcheckExprBinaryOp1`: from operand bounds that contain the operand
values, the operator's monitor holds and the result bounds contain the result. -/
theorem binBounds_sound {env : Env} {fs : List Expr} {op : BOp} {l r : Expr} {lb rb nb : IR}
    (hf : FactsHold env fs)
    (hl : lb.mem (evalI env l)) (hr : rb.mem (evalI env r))
    (hlt : op = .modshl ∨ op = .highbits → (typeOf l).base ≠ .ideal →
      inNatural (typeOf l).base (evalI env l))
    (h : binBounds fs op l lb r rb = some nb) :
    opMonitor op (opBase op l r) (evalI env l) (evalI env r) ∧
      nb.mem (binSem op (opBase op l r) (evalI env l) (evalI env r)) := by
  cases op
  case plus =>
    simp only [binBounds] at h; cases h
    exact ⟨trivial, WuffsVerif.Props.C06.add_sound lb rb _ _ hl hr⟩
  case minus =>
    simp only [binBounds] at h; cases h
    exact ⟨trivial, minusBounds_sound hf hl hr⟩
  case star =>
    simp only [binBounds] at h; cases h
    exact ⟨trivial, WuffsVerif.Props.C06.mul_sound lb rb _ _ hl hr⟩
  case slash =>
    simp only [binBounds] at h
    split at h
    · cases h
    · have := WuffsVerif.Props.C06.quo_sound lb rb nb _ _ hl hr h
      exact ⟨this.1, this.2⟩
  case percent =>
    simp only [binBounds] at h
    split at h
    · cases h
    · rename_i hg
      simp only [Bool.or_eq_true, not_or, Bool.not_eq_true] at hg
      have hx0 := loNeg_false hg.1 hl
      have hy0 := loNonPos_false hg.2 hr
      split at h
      · rename_i hh hhi
        cases h
        have := mem_hi hr hhi
        refine ⟨by simp only [opMonitor]; omega, ?_⟩
        simp only [binSem, mem_mkIR]
        have h1 := Int.tmod_nonneg (evalI env r) hx0
        have h2 := Int.tmod_lt_of_pos (evalI env l) hy0
        omega
      · cases h
  case shl =>
    simp only [binBounds] at h
    split at h
    · rename_i slo shi tlo thi hs hn
      split at h
      · cases h
      · rename_i hc
        have hamt := shift_amount_ok hs (by simpa using hc) hr
        have := WuffsVerif.Props.C06.lsh_sound lb rb nb _ _ hl hr h
        exact ⟨by simpa [opMonitor, opBase] using hamt, by simpa [binSem] using this.2⟩
    · cases h
  case shr =>
    simp only [binBounds] at h
    split at h
    · rename_i slo shi tlo thi hs hn
      split at h
      · cases h
      · rename_i hc
        have hamt := shift_amount_ok hs (by simpa using hc) hr
        have := WuffsVerif.Props.C06.rsh_sound lb rb nb _ _ hl hr h
        exact ⟨by simpa [opMonitor, opBase] using hamt, by simpa [binSem] using this.2⟩
    · cases h
  case modshl =>
    simp only [binBounds] at h
    split at h
    · rename_i slo shi tlo thi hs hn
      split at h
      · cases h
      · rename_i hc
        have hamt := shift_amount_ok hs (by simpa using hc) hr
        obtain ⟨_, _, hnb, hu⟩ := shiftBounds_spec hs
        rw [hnb] at hn
        simp only [Option.some.injEq, Prod.mk.injEq] at hn
        obtain ⟨rfl, rfl⟩ := hn
        refine ⟨by simpa [opMonitor, opBase] using hamt, ?_⟩
        simp only [binSem, opBase]
        have hp : (0 : Int) < 2 ^ (typeOf l).base.bits := Int.pow_pos (by decide)
        split at h
        · rename_i nb0 hlsh
          have hs0 := (WuffsVerif.Props.C06.lsh_sound lb rb nb0 _ _ hl hr hlsh).2
          split at h
          · rename_i hh hhi
            split at h
            · cases h
              rw [mem_mkIR]
              have := Int.emod_nonneg (evalI env l * 2 ^ (evalI env r).toNat) (Int.ne_of_gt hp)
              have := Int.emod_lt_of_pos (evalI env l * 2 ^ (evalI env r).toNat) hp
              omega
            · rename_i hle
              cases h
              have hne : (typeOf l).base ≠ .ideal := by
                intro hc'; rw [hc'] at hs; simp [Base.shiftBounds] at hs
              have hx0 : 0 ≤ evalI env l := by
                have := hlt (Or.inl rfl) hne
                simp only [inNatural, range_of_numBounds hnb] at this
                exact this.1
              have hle2 := mem_hi hs0 hhi
              have hpos : 0 ≤ evalI env l * 2 ^ (evalI env r).toNat :=
                Int.mul_nonneg hx0 (Int.le_of_lt (Int.pow_pos (by decide)))
              rw [Int.emod_eq_of_lt hpos (by omega)]
              exact hs0
          · cases h
        · cases h
    · cases h
  case amp =>
    simp only [binBounds] at h
    split at h
    · cases h
    · rename_i hg
      simp only [Bool.or_eq_true, not_or, Bool.not_eq_true] at hg
      exact ⟨⟨loNeg_false hg.1 hl, loNeg_false hg.2 hr⟩,
        WuffsVerif.Props.C06.and_sound lb rb nb _ _ hl hr h⟩
  case pipe =>
    simp only [binBounds] at h
    split at h
    · cases h
    · rename_i hg
      simp only [Bool.or_eq_true, not_or, Bool.not_eq_true] at hg
      exact ⟨⟨loNeg_false hg.1 hl, loNeg_false hg.2 hr⟩,
        WuffsVerif.Props.C06.or_sound lb rb nb _ _ hl hr h⟩
  case hat =>
    simp only [binBounds] at h
    split at h
    · cases h
    · rename_i hg
      simp only [Bool.or_eq_true, not_or, Bool.not_eq_true] at hg
      have hx0 := loNeg_false hg.1 hl
      have hy0 := loNeg_false hg.2 hr
      split at h
      · rename_i a b ha hb
        cases h
        refine ⟨⟨hx0, hy0⟩, ?_⟩
        rw [mem_mkIR]
        exact ixor_bound hx0 (mem_hi hl ha) hy0 (mem_hi hr hb)
      · cases h
  case modplus =>
    simp only [binBounds] at h
    split at h
    · rename_i hu; exact ⟨trivial, emod_mem_unsigned hu _ h⟩
    · cases h
  case modminus =>
    simp only [binBounds] at h
    split at h
    · rename_i hu; exact ⟨trivial, emod_mem_unsigned hu _ h⟩
    · cases h
  case modstar =>
    simp only [binBounds] at h
    split at h
    · rename_i hu; exact ⟨trivial, emod_mem_unsigned hu _ h⟩
    · cases h
  case satplus =>
    simp only [binBounds] at h
    split at h
    · split at h
      · rename_i lo hi hn
        cases h
        refine ⟨trivial, ?_⟩
        simp only [binSem, hn]
        exact mem_sat_hi (WuffsVerif.Props.C06.add_sound lb rb _ _ hl hr)
      · cases h
    · cases h
  case satminus =>
    simp only [binBounds] at h
    split at h
    · split at h
      · rename_i lo hi hn
        cases h
        refine ⟨trivial, ?_⟩
        simp only [binSem, hn]
        exact mem_sat_lo (minusBounds_sound hf hl hr)
      · cases h
    · cases h
  case bmin =>
    simp only [binBounds] at h
    split at h
    · rename_i sb tlo thi hs hn
      split at h
      · cases h
      · rename_i hc
        simp only [Bool.not_eq_true, Bool.not_eq_false'] at hc
        have hy := containsIR_mem hc hr
        split at h
        · rename_i a b c d ha hb hc' hd
          simp only [beq_self_eq_true, if_true, Option.some.injEq] at h
          subst h
          have := mem_lo hl ha; have := mem_hi hl hb
          have := mem_lo hr hc'; have := mem_hi hr hd
          refine ⟨by simpa [opMonitor, opBase, inNatural, range_of_numBounds hn] using hy, ?_⟩
          simp only [binSem, mem_mkIR, imin]
          split <;> split <;> split <;> omega
        · cases h
    · cases h
  case bmax =>
    simp only [binBounds] at h
    split at h
    · rename_i sb tlo thi hs hn
      split at h
      · cases h
      · rename_i hc
        simp only [Bool.not_eq_true, Bool.not_eq_false'] at hc
        have hy := containsIR_mem hc hr
        split at h
        · rename_i a b c d ha hb hc' hd
          have hne : (BOp.bmax == BOp.bmin) = false := by decide
          simp only [hne, Bool.false_eq_true, if_false, Option.some.injEq] at h
          subst h
          have := mem_lo hl ha; have := mem_hi hl hb
          have := mem_lo hr hc'; have := mem_hi hr hd
          refine ⟨by simpa [opMonitor, opBase, inNatural, range_of_numBounds hn] using hy, ?_⟩
          simp only [binSem, mem_mkIR, imax]
          split <;> split <;> split <;> omega
        · cases h
    · cases h
  case lowbits =>
    simp only [binBounds] at h
    split at h
    · rename_i slo shi hs
      split at h
      · cases h
      · rename_i hc
        have hamt := shift_amount_ok hs (by simpa using hc) hr
        split at h
        · rename_i hh hhi
          cases h
          refine ⟨by simpa [opMonitor, opBase] using hamt, ?_⟩
          simp only [binSem, mem_mkIR, bitMaskN]
          have hyh := mem_hi hr hhi
          have hp : (0 : Int) < 2 ^ (evalI env r).toNat := Int.pow_pos (by decide)
          have h1 := Int.emod_nonneg (evalI env l) (Int.ne_of_gt hp)
          have h2 := Int.emod_lt_of_pos (evalI env l) hp
          have hmono : (2 : Int) ^ (evalI env r).toNat ≤ 2 ^ hh.toNat :=
            two_pow_mono (by omega)
          omega
        · cases h
    · cases h
  case highbits =>
    simp only [binBounds] at h
    split at h
    · rename_i slo shi hs
      split at h
      · cases h
      · rename_i hc
        have hamt := shift_amount_ok hs (by simpa using hc) hr
        obtain ⟨_, _, hnb, _⟩ := shiftBounds_spec hs
        have hne : (typeOf l).base ≠ .ideal := by
          intro hc'; rw [hc'] at hs; simp [Base.shiftBounds] at hs
        have hx := hlt (Or.inr rfl) hne
        simp only [inNatural, range_of_numBounds hnb] at hx
        split at h
        · rename_i hh hhi
          cases h
          refine ⟨by simpa [opMonitor, opBase] using hamt, ?_⟩
          simp only [binSem, opBase, mem_mkIR, bitMaskN]
          have hyh := mem_hi hr hhi
          generalize (typeOf l).base.bits = bits at *
          generalize evalI env l = x at *
          generalize evalI env r = y at *
          have hp : (0 : Int) < 2 ^ (bits - y.toNat) := Int.pow_pos (by decide)
          have h1 : 0 ≤ x / 2 ^ (bits - y.toNat) := Int.ediv_nonneg hx.1 (Int.le_of_lt hp)
          have hsplit : (2 : Int) ^ bits = 2 ^ y.toNat * 2 ^ (bits - y.toNat) := by
            rw [← Int.pow_add]; congr 1; omega
          have h2 : x / 2 ^ (bits - y.toNat) < 2 ^ y.toNat :=
            Int.ediv_lt_of_lt_mul hp (by rw [← hsplit]; omega)
          have hmono : (2 : Int) ^ y.toNat ≤ 2 ^ hh.toNat :=
            two_pow_mono (by omega)
          omega
        · cases h
    · cases h
  all_goals
    simp only [binBounds] at h; cases h
    exact ⟨trivial, by simp only [binSem]; exact b2i_mem01 _⟩

/-! ## the prover (`proveBinaryOp` and friends) -/

theorem proveCV_sound {op : BOp} {lb rb : IR} {x y : Int} (h : proveCV op lb rb = true)
    (hx : lb.mem x) (hy : rb.mem y) : op.isCmp = true ∧ cmpRel op x y := by
  unfold proveCV at h
  split at h
  · rename_i l0 l1 r0 r1 h0 h1 h2 h3
    have a0 := mem_lo hx h0
    have a1 := mem_hi hx h1
    have b0 := mem_lo hy h2
    have b1 := mem_hi hy h3
    cases op <;> simp at h <;> simp [BOp.isCmp, cmpRel] <;> omega
  · cases h

theorem opImpliesOp_sound {a b : BOp} (h : opImpliesOp a b = true) :
    a = b ∨ (a.isCmp = true ∧ b.isCmp = true ∧ ∀ x y, cmpRel a x y → cmpRel b x y) := by
  cases a <;> cases b <;> simp [opImpliesOp] at h <;>
    first
    | exact Or.inl rfl
    | (refine Or.inr ⟨rfl, rfl, ?_⟩; intro x y hxy; simp only [cmpRel] at hxy ⊢; omega)

theorem cmpConst_sound {op : BOp} {f c : Int} (h : cmpConst op f c = some true) :
    op.isCmp = true ∧ cmpRel op f c := by
  cases op <;> simp [cmpConst] at h <;> simp [BOp.isCmp, cmpRel] <;> omega

theorem constVal_some {e : Expr} {v : Int} (h : constVal e = some v) : e = .const v := by
  cases e <;> simp [constVal] at h
  subst h; rfl

theorem evalI_binary_cmp {env : Env} {op : BOp} (hc : op.isCmp = true) (l r : Expr) :
    evalI env (.binary op l r) ≠ 0 ↔ cmpRel op (evalI env l) (evalI env r) := by
  simp only [evalI]; exact cmp_true hc _ _ _

theorem proveFacts_sound {env : Env} {op : BOp} {l r : Expr} :
    ∀ (fs : List Expr), FactsHold env fs → proveFacts op l r fs = true →
      evalI env (.binary op l r) ≠ 0 := by
  intro fs
  induction fs with
  | nil => intro _ h; simp [proveFacts] at h
  | cons x xs ih =>
    intro hf h
    have hx := hf x List.mem_cons_self
    have hxs : FactsHold env xs := fun f hf' => hf f (List.mem_cons_of_mem _ hf')
    unfold proveFacts at h
    split at h
    · rename_i fop xl xr
      split at h
      · rename_i hxl
        have e1 : xl = l := eq_of_beq hxl
        subst e1
        split at h
        · rename_i himp
          simp only [Bool.and_eq_true] at himp
          have e2 : xr = r := eq_of_beq himp.2
          subst e2
          rcases opImpliesOp_sound himp.1 with rfl | ⟨ca, cb, himpl⟩
          · exact hx
          · exact (evalI_binary_cmp cb _ _).2 (himpl _ _ ((evalI_binary_cmp ca _ _).1 hx))
        · split at h
          · rename_i rcv fcv hr hxr _
            have e3 := constVal_some hr
            have e4 := constVal_some hxr
            subst e3; subst e4
            split at h
            · rename_i b hb
              subst h
              obtain ⟨cb, hrel⟩ := cmpConst_sound hb
              have hfx := (evalI_binary_cmp (op := .eq) rfl _ _).1 hx
              simp only [cmpRel, evalI] at hfx
              apply (evalI_binary_cmp cb _ _).2
              simp only [evalI, hfx]
              exact hrel
            · exact ih hxs h
          · exact ih hxs h
      · exact ih hxs h
    · exact ih hxs h

theorem proveCore_sound {env : Env} {fs : List Expr} {op : BOp} {l r : Expr} {lb rb : IR}
    (hf : FactsHold env fs) (hl : lb.mem (evalI env l)) (hr : rb.mem (evalI env r))
    (h : proveCore fs op l lb r rb = true) : evalI env (.binary op l r) ≠ 0 := by
  unfold proveCore at h
  simp only [Bool.or_eq_true] at h
  rcases h with (h | h) | h
  · split at h
    · rename_i lcv hl'
      have e := constVal_some hl'
      subst e
      obtain ⟨hc, hrel⟩ := proveCV_sound (x := lcv) h (by simp [mem_mkIR]) hr
      exact (evalI_binary_cmp hc _ _).2 (by simpa [evalI] using hrel)
    · cases h
  · split at h
    · rename_i rcv hr'
      have e := constVal_some hr'
      subst e
      obtain ⟨hc, hrel⟩ := proveCV_sound (y := rcv) h hl (by simp [mem_mkIR])
      exact (evalI_binary_cmp hc _ _).2 (by simpa [evalI] using hrel)
    · cases h
  · exact proveFacts_sound fs hf h

theorem proveLenFacts_sound {env : Env} {all : List Expr} {op : BOp} {l r : Expr} {lb : IR}
    (hop : op = .lt ∨ op = .le) (hall : FactsHold env all) (hl : lb.mem (evalI env l)) :
    ∀ (fs : List Expr), FactsHold env fs → proveLenFacts all op l lb r fs = true →
      evalI env (.binary op l r) ≠ 0 := by
  intro fs
  induction fs with
  | nil => intro _ h; simp [proveLenFacts] at h
  | cons x xs ih =>
    intro hf h
    have hx := hf x List.mem_cons_self
    have hxs : FactsHold env xs := fun f hf' => hf f (List.mem_cons_of_mem _ hf')
    unfold proveLenFacts at h
    simp only [Bool.or_eq_true] at h
    rcases h with h | h
    · split at h
      · rename_i xl c
        simp only [Bool.and_eq_true] at h
        have e : xl = r := eq_of_beq h.1
        subst e
        have h1 := proveCore_sound hall hl (by simp [mem_mkIR, evalI] : (mkIR c c).mem (evalI env (.const c))) h.2
        have h2 := (evalI_binary_cmp (op := .ge) rfl _ _).1 hx
        simp only [cmpRel, evalI] at h2
        rcases hop with rfl | rfl
        · have h3 := (evalI_binary_cmp (op := .lt) rfl _ _).1 h1
          simp only [cmpRel, evalI] at h3
          exact (evalI_binary_cmp (op := .lt) rfl _ _).2 (by simp only [cmpRel]; omega)
        · have h3 := (evalI_binary_cmp (op := .le) rfl _ _).1 h1
          simp only [cmpRel, evalI] at h3
          exact (evalI_binary_cmp (op := .le) rfl _ _).2 (by simp only [cmpRel]; omega)
      · cases h
    · exact ih hxs h

theorem proveLen_sound {env : Env} {fs : List Expr} {op : BOp} {l r : Expr} {lb rb : IR}
    (hf : FactsHold env fs) (hl : lb.mem (evalI env l)) (hr : rb.mem (evalI env r))
    (h : proveLen fs op l lb r rb = true) : evalI env (.binary op l r) ≠ 0 := by
  unfold proveLen at h
  simp only [Bool.or_eq_true, Bool.and_eq_true, beq_iff_eq] at h
  rcases h with h | ⟨hop, h⟩
  · exact proveCore_sound hf hl hr h
  · exact proveLenFacts_sound hop hf hl fs hf h

/-- the induction behind `bounds_contain`; `raw = true` is the prefix of an
associative chain (no refinement, no type check, no monitor on the partial result) -/
theorem bounds_contain_aux {env : Env} {fs : List Expr} (hf : FactsHold env fs) :
    ∀ (e : Expr) (raw : Bool) (b : IR), varsOk env e → bcheck fs raw e = some b →
      safe env raw e ∧ b.mem (evalI env e) ∧
        (raw = false → (typeOf e).base ≠ .ideal → inType (typeOf e) (evalI env e)) := by
  intro e
  induction e with
  | const v =>
    intro raw b _ h
    simp only [bcheck] at h; cases h
    refine ⟨trivial, by simp [mem_mkIR, evalI], ?_⟩
    intro _ hne; simp [typeOf] at hne
  | var n t =>
    intro raw b hv h
    simp only [bcheck] at h
    split at h
    · cases h
    · rename_i tb ht
      simp only [varsOk] at hv
      have hm : tb.mem (evalI env (.var n t)) := (typeBounds_mem_iff ht _).2 hv
      obtain ⟨h1, h2⟩ := finish_sound hf h hm
      exact ⟨trivial, h1, fun _ _ => h2⟩
  | unary op e ih =>
    intro raw b hv h
    simp only [varsOk] at hv
    simp only [bcheck] at h
    split at h
    · cases h
    · rename_i rb hrb
      obtain ⟨hs, hm, _⟩ := ih false rb hv hrb
      split at h
      · cases h
      · rename_i nb hnb
        have hmn : nb.mem (evalI env (.unary op e)) := by
          cases op
          · simp only [unaryBounds] at hnb; cases hnb; simpa [evalI] using hm
          · simp only [unaryBounds] at hnb
            split at hnb
            · rename_i a c ha hc
              cases hnb
              have := mem_lo hm ha
              have := mem_hi hm hc
              simp only [evalI, mem_mkIR]; omega
            · cases hnb
          · simp only [unaryBounds] at hnb; cases hnb
            simp only [evalI]; exact b2i_mem01 _
        obtain ⟨h1, h2⟩ := finish_sound hf h hmn
        refine ⟨?_, h1, fun _ _ => h2⟩
        cases op
        · exact hs
        · exact ⟨hs, by simpa [evalI] using h2.1⟩
        · exact hs
  | binary op l r ihl ihr =>
    intro raw b hv h
    simp only [varsOk] at hv
    simp only [bcheck] at h
    split at h
    · cases h
    · rename_i lb hlb
      obtain ⟨hsl, hml, htl⟩ := ihl false lb hv.1 hlb
      split at h
      · cases h
      · rename_i rb hrb
        obtain ⟨hsr, hmr, _⟩ := ihr false rb hv.2 hrb
        split at h
        · cases h
        · rename_i nb hnb
          obtain ⟨hmon, hmn⟩ := binBounds_sound hf hml hmr
            (fun _ hne => (htl rfl hne).1) hnb
          have hmn' : nb.mem (evalI env (.binary op l r)) := by simpa [evalI] using hmn
          obtain ⟨h1, h2⟩ := finish_sound hf h hmn'
          exact ⟨⟨hsl, hsr, hmon, fun _ => h2.1⟩, h1, fun _ _ => h2⟩
  | «as» t e ih =>
    intro raw b hv h
    simp only [varsOk] at hv
    simp only [bcheck] at h
    split at h
    · cases h
    · rename_i eb heb
      obtain ⟨hs, hm, _⟩ := ih false eb hv heb
      have hm' : eb.mem (evalI env (.as t e)) := by simpa [evalI] using hm
      obtain ⟨h1, h2⟩ := finish_sound hf h hm'
      refine ⟨⟨hs, ?_⟩, h1, fun _ _ => h2⟩
      simpa [typeOf, evalI] using h2
  | assoc op pre l r ihl ihr =>
    intro raw b hv h
    simp only [varsOk] at hv
    simp only [bcheck] at h
    split at h
    · cases h
    · rename_i hassoc
      split at h
      · cases h
      · rename_i lb hlb
        obtain ⟨hsl, hml, _⟩ := ihl pre lb hv.1 hlb
        split at h
        · cases h
        · rename_i rb hrb
          obtain ⟨hsr, hmr, _⟩ := ihr false rb hv.2 hrb
          split at h
          · cases h
          · rename_i nb hnb
            have hnm : ¬ (op = .modshl ∨ op = .highbits) := by
              rintro (hc | hc) <;> subst hc <;> simp [BOp.isAssoc] at hassoc
            obtain ⟨hmon, hmn⟩ := binBounds_sound hf hml hmr
              (fun hc => absurd hc hnm) hnb
            have hmn' : nb.mem (evalI env (.assoc op pre l r)) := by simpa [evalI] using hmn
            split at h
            · rename_i hraw
              cases h
              refine ⟨⟨hsl, hsr, hmon, fun hc => ?_⟩, hmn', fun hc => ?_⟩ <;> simp_all
            · obtain ⟨h1, h2⟩ := finish_sound hf h hmn'
              exact ⟨⟨hsl, hsr, hmon, fun _ => h2.1⟩, h1, fun _ _ => h2⟩
  | index a len ety i ih =>
    intro raw b hv h
    simp only [varsOk] at hv
    simp only [bcheck] at h
    split at h
    · cases h
    · rename_i ib hib
      obtain ⟨hsi, hmi, _⟩ := ih false ib hv.1 hib
      split at h
      · cases h
      · rename_i hlo
        split at h
        · cases h
        · rename_i hhi
          simp only [Bool.not_eq_true, Bool.not_eq_false'] at hlo hhi
          have h0 := proveCore_sound hf
            (by simp [mem_mkIR, evalI] : (mkIR 0 0).mem (evalI env (.const 0))) hmi hlo
          have h1 := proveLen_sound hf hmi
            (by simp [mem_mkIR, evalI] : (mkIR len len).mem (evalI env (.const (len : Int)))) hhi
          have h0' := (evalI_binary_cmp (op := .le) rfl _ _).1 h0
          have h1' := (evalI_binary_cmp (op := .lt) rfl _ _).1 h1
          simp only [cmpRel, evalI] at h0' h1'
          split at h
          · cases h
          · rename_i tb ht
            have hm : tb.mem (evalI env (.index a len ety i)) := by
              simp only [evalI]
              exact (typeBounds_mem_iff ht _).2 (hv.2 _)
            obtain ⟨h2, h3⟩ := finish_sound hf h hm
            exact ⟨⟨hsi, h0', h1'⟩, h2, fun _ _ => h3⟩

theorem bounds_contain' {env : Env} {fs : List Expr} {e : Expr} {b : IR}
    (hf : FactsHold env fs) (hv : varsOk env e) (h : bcheck fs false e = some b) :
    safe env false e ∧ b.mem (evalI env e) :=
  let r := bounds_contain_aux hf e false b hv h
  ⟨r.1, r.2.1⟩

theorem bounds_contain_type' {env : Env} {fs : List Expr} {e : Expr} {b : IR}
    (hf : FactsHold env fs) (hv : varsOk env e) (h : bcheck fs false e = some b)
    (hne : (typeOf e).base ≠ .ideal) : inType (typeOf e) (evalI env e) :=
  (bounds_contain_aux hf e false b hv h).2.2 rfl hne

/-! ## every node of an accepted expression (what the driver's `bounds` op lists) -/

theorem nodesPre_cons (e : Expr) : nodesPre e = e :: (nodesPre e).tail := by
  cases e <;> simp [nodesPre]

theorem mem_nodesPre {e nd : Expr} (h : nd ∈ nodesPre e) : nd = e ∨ nd ∈ (nodesPre e).tail := by
  rw [nodesPre_cons e] at h
  simpa using h

/-- the checker accepts every (non-prefix) sub-node of an accepted expression -/
theorem nodes_accepted (fs : List Expr) :
    ∀ (e : Expr) (raw : Bool) (b : IR), bcheck fs raw e = some b →
      ∀ nd ∈ (nodesPre e).tail, ∃ b', bcheck fs false nd = some b' := by
  intro e
  induction e with
  | const v => intro raw b _ nd hnd; simp [nodesPre] at hnd
  | var n t => intro raw b _ nd hnd; simp [nodesPre] at hnd
  | unary op e ih =>
    intro raw b h nd hnd
    simp only [nodesPre, List.tail_cons] at hnd
    simp only [bcheck] at h
    split at h
    · cases h
    · rename_i rb hrb
      rcases mem_nodesPre hnd with rfl | ht
      · exact ⟨rb, hrb⟩
      · exact ih false rb hrb nd ht
  | binary op l r ihl ihr =>
    intro raw b h nd hnd
    simp only [nodesPre, List.tail_cons, List.mem_append] at hnd
    simp only [bcheck] at h
    split at h
    · cases h
    · rename_i lb hlb
      split at h
      · cases h
      · rename_i rb hrb
        rcases hnd with hnd | hnd
        · rcases mem_nodesPre hnd with rfl | ht
          · exact ⟨lb, hlb⟩
          · exact ihl false lb hlb nd ht
        · rcases mem_nodesPre hnd with rfl | ht
          · exact ⟨rb, hrb⟩
          · exact ihr false rb hrb nd ht
  | «as» t e ih =>
    intro raw b h nd hnd
    simp only [nodesPre, List.tail_cons] at hnd
    simp only [bcheck] at h
    split at h
    · cases h
    · rename_i eb heb
      rcases mem_nodesPre hnd with rfl | ht
      · exact ⟨eb, heb⟩
      · exact ih false eb heb nd ht
  | assoc op pre l r ihl ihr =>
    intro raw b h nd hnd
    simp only [nodesPre, List.tail_cons, List.mem_append] at hnd
    simp only [bcheck] at h
    split at h
    · cases h
    · split at h
      · cases h
      · rename_i lb hlb
        split at h
        · cases h
        · rename_i rb hrb
          rcases hnd with hnd | hnd
          · cases pre
            · simp only [Bool.false_eq_true, if_false] at hnd
              rcases mem_nodesPre hnd with rfl | ht
              · exact ⟨lb, hlb⟩
              · exact ihl false lb hlb nd ht
            · simp only [if_true] at hnd
              exact ihl true lb hlb nd hnd
          · rcases mem_nodesPre hnd with rfl | ht
            · exact ⟨rb, hrb⟩
            · exact ihr false rb hrb nd ht
  | index a len ety i ih =>
    intro raw b h nd hnd
    simp only [nodesPre, List.tail_cons] at hnd
    simp only [bcheck] at h
    split at h
    · cases h
    · rename_i ib hib
      rcases mem_nodesPre hnd with rfl | ht
      · exact ⟨ib, hib⟩
      · exact ih false ib hib nd ht

theorem nodes_varsOk {env : Env} :
    ∀ (e : Expr), varsOk env e → ∀ nd ∈ nodesPre e, varsOk env nd := by
  intro e
  induction e with
  | const v => intro hv nd hnd; simp [nodesPre] at hnd; subst hnd; exact hv
  | var n t => intro hv nd hnd; simp [nodesPre] at hnd; subst hnd; exact hv
  | unary op e ih =>
    intro hv nd hnd
    simp only [nodesPre, List.mem_cons] at hnd
    rcases hnd with rfl | hnd
    · exact hv
    · exact ih hv nd hnd
  | binary op l r ihl ihr =>
    intro hv nd hnd
    simp only [nodesPre, List.mem_cons, List.mem_append] at hnd
    rcases hnd with rfl | hnd | hnd
    · exact hv
    · exact ihl hv.1 nd hnd
    · exact ihr hv.2 nd hnd
  | «as» t e ih =>
    intro hv nd hnd
    simp only [nodesPre, List.mem_cons] at hnd
    rcases hnd with rfl | hnd
    · exact hv
    · exact ih hv nd hnd
  | assoc op pre l r ihl ihr =>
    intro hv nd hnd
    simp only [nodesPre, List.mem_cons, List.mem_append] at hnd
    rcases hnd with rfl | hnd | hnd
    · exact hv
    · refine ihl hv.1 nd ?_
      cases pre
      · simpa using hnd
      · simp only [if_true] at hnd
        exact List.mem_of_mem_tail hnd
    · exact ihr hv.2 nd hnd
  | index a len ety i ih =>
    intro hv nd hnd
    simp only [nodesPre, List.mem_cons] at hnd
    rcases hnd with rfl | hnd
    · exact hv
    · exact ih hv.1 nd hnd

/-- per-node form of `bounds_contain`: every node the checker annotates with bounds
(`MBounds`) while accepting `e` evaluates safely to a value inside those bounds -/
theorem bounds_contain_nodes' {env : Env} {fs : List Expr} {e : Expr} {b : IR}
    (hf : FactsHold env fs) (hv : varsOk env e) (h : bcheck fs false e = some b) :
    ∀ nd ∈ nodesPre e, ∃ b', bcheck fs false nd = some b' ∧
      safe env false nd ∧ b'.mem (evalI env nd) := by
  intro nd hnd
  have hvn := nodes_varsOk e hv nd hnd
  rcases mem_nodesPre hnd with rfl | ht
  · exact ⟨b, h, bounds_contain' hf hv h⟩
  · obtain ⟨b', hb'⟩ := nodes_accepted fs e false b h nd ht
    exact ⟨b', hb', bounds_contain' hf hvn hb'⟩

/-- Soundness of `proveBinaryOp` (the no-`via` path of `bcheckAssert`, the requirements
of the `via` reasons, the index obligations): what it proves from the facts and the
operand bounds is true in every store that satisfies the facts. -/
theorem proveBinaryOp_sound {env : Env} {fs : List Expr} {op : BOp} {l r : Expr}
    (hf : FactsHold env fs) (hvl : varsOk env l) (hvr : varsOk env r)
    (h : proveBinaryOp fs op l r = some true) : evalI env (.binary op l r) ≠ 0 := by
  unfold proveBinaryOp at h
  split at h
  · rename_i lb rb hlb hrb
    simp only [Option.some.injEq] at h
    exact proveCore_sound hf (bounds_contain' hf hvl hlb).2 (bounds_contain' hf hvr hrb).2 h
  · cases h

/-- an accepted plain `assert` is true in every store that satisfies the facts -/
theorem proveAssert_sound {env : Env} {fs : List Expr} {c : Expr}
    (hf : FactsHold env fs) (hv : varsOk env c) (h : proveAssert fs c = some true) :
    evalI env c ≠ 0 := by
  unfold proveAssert at h
  split at h
  · cases h
  · split at h
    · rename_i hc
      exact hf c (List.contains_iff_mem.1 hc)
    · split at h
      · rename_i v
        simp only [Option.some.injEq, beq_iff_eq] at h
        subst h
        simp [evalI]
      · rename_i op l r
        simp only [varsOk] at hv
        exact proveBinaryOp_sound hf hv.1 hv.2 h
      · cases h

/-- an accepted element read `a[i]` is within the array: `0 ≤ i < len` -/
theorem index_in_range' {env : Env} {fs : List Expr} {a : String} {len : Nat} {ety : Ty}
    {i : Expr} {b : IR} (hf : FactsHold env fs) (hv : varsOk env (.index a len ety i))
    (h : bcheck fs false (.index a len ety i) = some b) :
    0 ≤ evalI env i ∧ evalI env i < len :=
  (bounds_contain' hf hv h).1.2

end WuffsVerif.Proof.WCoreBounds
