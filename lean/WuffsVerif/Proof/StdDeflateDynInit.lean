/-
C07 helper, part 8: `init_huff` on a complete code, assembled from the modules of Proof/StdDeflateDynDefs.lean:
counting phase (CountSpec, SymbolsSpec) → filling loop (FillSpec) → table semantics (DeriveSpec), with the
specification side (SpecSideSpec) and the entry values (ValSpec).  Each module result is a hypothesis here, so that
the assembly does not depend on which of them are proved.  Core Lean only.
-/
import WuffsVerif.Proof.StdDeflateDynDefs

namespace WuffsVerif.StdDeflate
open WuffsVerif.Flate.Spec (Huff mkHuff kraft)

theorem nbOf_le (M : Nat) : nbOf M ≤ 9 := by
  unfold nbOf; split <;> omega

/-- **`init_huff` on a complete code** builds a table that implements the code (`HuffTable`) -/
theorem initHuffCompleteSpec_of (hS : SpecSideSpec) (hY : SymbolsSpec) (hC : CountSpec) (hF : FillSpec)
    (hD : DeriveSpec) (hV : ValSpec) : InitHuffCompleteSpec := by
  intro cl old lens which n0 n1 base val h hk hl hold hmk hpos hkr
  obtain ⟨cf, sylt, _, _⟩ := hS lens h hmk hpos hkr
  have vals : ∀ t, t < nOf lens → ValOK which base val (syOf lens t) := fun t ht =>
    hV which n0 n1 base val hk _ (by have := sylt t ht; rw [hl.size] at this; exact this)
  have hvals : ∀ t, t < nOf lens → (fillVal which base (syOf lens t)).isSome = true := by
    intro t ht
    obtain ⟨e, he, _⟩ := vals t ht
    rw [he]; rfl
  obtain ⟨counts, symbols, fa, hw⟩ := hC hS hY cl lens which n0 n1 base h hl hmk hpos hkr hvals
  obtain ⟨w, hfill, hok⟩ := hF which n0 base cl symbols counts old _ _ _ fa hold
  have hiw := hw w hfill
  obtain ⟨tok, tag, tnr⟩ := hD _ which base _ _ _ h val hok cf vals
  refine ⟨applyWrites old w.reverse, nbOf (lnOf lens (nOf lens - 1)), ?_, ?_⟩
  · unfold initHuff
    rw [hiw]
    rfl
  · have hN := cf.sorted.pos
    refine ⟨by rw [applyWrites_size]; exact hold, by have := nbOf_le (lnOf lens (nOf lens - 1)); omega, tok, tag, ?_, ?_,
      tnr⟩
    · rw [cf.maxLen]; exact cf.sorted.hi _ (by omega)
    · intro x v L hs
      obtain ⟨t, ht, rfl, _, _⟩ := cf.dec x v L hs
      have := sylt t ht
      rw [hl.size] at this
      exact this

end WuffsVerif.StdDeflate
