/-
C07 helper lemmas, part 2: the two-level Huffman table lookup of std/deflate (`lookupLoop`: index with the low
bits of the accumulator, compare the entry's bit count with `n_bits`, read another byte and retry) against the
canonical-code decoder of the RFC 1951 specification (`Flate.Spec.decodeGo`).

`TblOK`  : the table is prefix-replicated (an entry that consumes `n` bits occupies every slot whose low `n`
           index bits are its code) — this is what makes "look up with too few real bits, retry" sound;
`Agree`  : on every 15-bit window, the idealised two-level lookup returns the entry of the symbol the
           specification decodes, and the same number of bits.
Both are decidable (`tblOKb`, `agreeb`); they are evaluated for the fixed-Huffman tables in Props/C07Deflate.lean.
Core Lean only.
-/
import WuffsVerif.Proof.StdDeflateBits

namespace WuffsVerif.StdDeflate
open WuffsVerif.Flate.Spec (bitAt bitsLE avail Huff decodeGo decodeSym SymResult)

/-! ### the specification decoder on a bit function -/

/-- `Spec.decodeGo` reading its bits from `bit i` (bit `i` after the start), never running out of input -/
def decodeBits (h : Huff) (bit : Nat → Nat) : (rem len code first index : Nat) → Option (Nat × Nat)
  | 0, _, _, _, _ => none
  | rem + 1, len, code, first, index =>
    let code := 2 * code + bit len
    let cnt := h.count.getD (len + 1) 0
    if code < first + cnt then some (h.syms.getD (index + (code - first)) 0, len + 1)
    else decodeBits h bit rem (len + 1) code (2 * (first + cnt)) (index + cnt)

theorem decodeBits_congr (h : Huff) (bit bit' : Nat → Nat) : ∀ (rem len code first index : Nat),
    (∀ i, len ≤ i → i < len + rem → bit i = bit' i) →
    decodeBits h bit rem len code first index = decodeBits h bit' rem len code first index := by
  intro rem
  induction rem with
  | zero => intros; rfl
  | succ rem ih =>
    intro len code first index hb
    simp only [decodeBits]
    rw [hb len (Nat.le_refl _) (by omega)]
    split
    · rfl
    · exact ih _ _ _ _ (fun i h1 h2 => hb i (by omega) (by omega))

theorem decodeBits_len (h : Huff) (bit : Nat → Nat) : ∀ (rem len code first index v L : Nat),
    decodeBits h bit rem len code first index = some (v, L) → len < L ∧ L ≤ len + rem := by
  intro rem
  induction rem with
  | zero => intro len code first index v L h; simp [decodeBits] at h
  | succ rem ih =>
    intro len code first index v L hd
    simp only [decodeBits] at hd
    split at hd
    · simp only [Option.some.injEq, Prod.mk.injEq] at hd; omega
    · have := ih _ _ _ _ _ _ hd; omega

/-- a successful `Spec.decodeGo` on the real stream is `decodeBits` on the stream's bits -/
theorem decodeGo_bits (h : Huff) (s : Bytes) (p : Nat) : ∀ (rem len code first index v q : Nat),
    decodeGo h s p rem len code first index = .sym v q →
    decodeBits h (fun i => bitAt s (p + i)) rem len code first index = some (v, q - p) ∧ p + len < q ∧
      q ≤ 8 * s.size := by
  intro rem
  induction rem with
  | zero => intro len code first index v q h; simp [decodeGo] at h
  | succ rem ih =>
    intro len code first index v q hd
    simp only [decodeGo] at hd
    split at hd
    · simp at hd
    · rename_i hlt
      simp only [decodeBits]
      split at hd
      · rename_i hc
        simp only [SymResult.sym.injEq] at hd
        rw [if_pos hc]
        obtain ⟨rfl, rfl⟩ := hd
        refine ⟨by simp; omega, by omega, by omega⟩
      · rename_i hc
        rw [if_neg hc]
        have := ih _ _ _ _ _ _ hd
        refine ⟨this.1, by omega, this.2.2⟩

/-- the specification's symbol decoder on a window `x` (bit `i` of the code is bit `i` of `x`) -/
def specWin (h : Huff) (x : Nat) : Option (Nat × Nat) :=
  decodeBits h (fun i => x / 2 ^ i % 2) h.maxLen 0 0 0 0

theorem bitsLE_bit (s : Bytes) : ∀ (i n p : Nat), i < n → bitsLE s p n / 2 ^ i % 2 = bitAt s (p + i) := by
  intro i
  induction i with
  | zero =>
    intro n p h
    obtain ⟨m, rfl⟩ : ∃ m, n = m + 1 := ⟨n - 1, by omega⟩
    have := bitAt_lt s p
    simp only [bitsLE, Nat.pow_zero, Nat.div_one, Nat.add_zero]
    omega
  | succ i ih =>
    intro n p h
    obtain ⟨m, rfl⟩ : ∃ m, n = m + 1 := ⟨n - 1, by omega⟩
    have := bitAt_lt s p
    simp only [bitsLE]
    rw [Nat.pow_succ, Nat.mul_comm (2 ^ i) 2, ← Nat.div_div_eq_div_mul]
    rw [show (bitAt s p + 2 * bitsLE s (p + 1) m) / 2 = bitsLE s (p + 1) m by omega]
    rw [ih m (p + 1) (by omega), show p + 1 + i = p + (i + 1) by omega]

/-- a symbol the specification decodes at `p` is what it decodes on the 15-bit window at `p` -/
theorem decodeSym_specWin (h : Huff) (s : Bytes) (p minBits v p1 : Nat) (hm : h.maxLen ≤ 15)
    (hd : decodeSym h s p minBits = .sym v p1) :
    specWin h (bitsLE s p 15) = some (v, p1 - p) ∧ p < p1 ∧ p1 ≤ 8 * s.size ∧ p1 - p ≤ 15 := by
  unfold decodeSym at hd
  split at hd
  · simp at hd
  · obtain ⟨h1, h2, h3⟩ := decodeGo_bits h s p _ _ _ _ _ v p1 hd
    have hl := decodeBits_len _ _ _ _ _ _ _ _ _ h1
    refine ⟨?_, by omega, h3, by omega⟩
    unfold specWin
    rw [← h1]
    apply decodeBits_congr
    intro i _ hi
    rw [bitsLE_bit s i 15 p (by omega)]

/-! ### the tables -/

/-- entry of a `huffs` table (`& HUFFS_TABLE_MASK` as in the redirect lookups; a no-op below 1024) -/
def tget (T : Array Nat) (i : Nat) : Nat := T.getD (i &&& Gen.C07.deflateHuffsTableMask) 0

theorem tget_eq (T : Array Nat) (i : Nat) : tget T i = T.getD (i % 1024) 0 := by
  unfold tget
  rw [show Gen.C07.deflateHuffsTableMask = 2 ^ 10 - 1 from rfl, Nat.and_two_pow_sub_one_eq_mod]

/-- the sub-table of `2^m` slots at `base` is prefix-replicated -/
def Rep (T : Array Nat) (base m : Nat) : Prop :=
  ∀ i, i < 2 ^ m → (tget T (base + i) &&& 15) ≤ m ∧
    ∀ i', i' < 2 ^ m → i' % 2 ^ (tget T (base + i) &&& 15) = i % 2 ^ (tget T (base + i) &&& 15) →
      tget T (base + i') = tget T (base + i)

def isRedirect (e : Nat) : Prop := e >>> 28 = 1
instance (e : Nat) : Decidable (isRedirect e) := by unfold isRedirect; infer_instance

/-- the idealised two-level lookup on a window: (final entry, bits consumed) -/
def lookup2 (T : Array Nat) (nb : Nat) (x : Nat) : Nat × Nat :=
  let e1 := tget T (x % 2 ^ nb)
  let n1 := e1 &&& 15
  if isRedirect e1 then
    let top := (e1 >>> 8) &&& 0xFFFF
    let j := (e1 >>> 4) &&& 0x0F
    let e2 := tget T (top + (x / 2 ^ n1) % 2 ^ j)
    (e2, n1 + (e2 &&& 15))
  else (e1, n1)

structure TblOK (T : Array Nat) (nb : Nat) : Prop where
  rep1 : Rep T 0 nb
  redir : ∀ i, i < 2 ^ nb → isRedirect (tget T i) →
    (tget T i &&& 15) + ((tget T i >>> 4) &&& 0x0F) ≤ 15 ∧ Rep T ((tget T i >>> 8) &&& 0xFFFF) ((tget T i >>> 4) &&& 0x0F)

/-- on every 15-bit window the table returns the entry `val v` (up to its low 4 bits, which hold the per-level
    bit count) of the symbol `v` the specification decodes, and consumes the same number of bits -/
def Agree (T : Array Nat) (nb : Nat) (h : Huff) (val : Nat → Nat) : Prop :=
  ∀ x, x < 2 ^ 15 → ∀ v L, specWin h x = some (v, L) →
    (lookup2 T nb x).2 = L ∧ (lookup2 T nb x).1 >>> 4 = val v >>> 4

/-! ### `lookupLoop` -/

/-- One table level.  With the accumulator invariant, a prefix-replicated sub-table of `2^m` slots at `base`,
    and at least as many real bits left as the TRUE entry (the one indexed by the real window) consumes, the
    retry loop returns exactly that entry and consumes its bits. -/
theorem lookupLoop_level {s : Bytes} (T : Array Nat) (base m : Nat) (hrep : Rep T base m) {p : Nat} :
    ∀ (fuel : Nat) (b : BR), BRInv s b p → b.nBits ≤ 24 →
    p + (tget T (base + bitsLE s p 32 % 2 ^ m) &&& 15) ≤ 8 * s.size →
    15 ≤ b.nBits + 8 * (fuel - 1) → 1 ≤ fuel →
    ∃ b', lookupLoop s T base ((1 <<< m) - 1) fuel b = .ok (tget T (base + bitsLE s p 32 % 2 ^ m), b') ∧
      BRInv s b' (p + (tget T (base + bitsLE s p 32 % 2 ^ m) &&& 15)) ∧
      b'.nBits ≤ 24 ∧ (b.nBits < (tget T (base + bitsLE s p 32 % 2 ^ m) &&& 15) + 8 → b'.nBits < 8) := by
  intro fuel
  induction fuel with
  | zero => intro b _ _ _ _ h; omega
  | succ f ih =>
    intro b hb h24 hav hfuel _
    unfold lookupLoop
    have ht : ∀ i, T.getD (i &&& Gen.C07.deflateHuffsTableMask) 0 = tget T i := fun _ => rfl
    simp only [and_mask, ht]
    -- the slot indexed by the accumulator, and the true slot
    have hi : b.bits % 2 ^ m < 2 ^ m := Nat.mod_lt _ (Nat.two_pow_pos m)
    have hi' : bitsLE s p 32 % 2 ^ m < 2 ^ m := Nat.mod_lt _ (Nat.two_pow_pos m)
    have hw := hb.bits_window 32 (by omega)
    have key : ∀ n, n ≤ m → n ≤ b.nBits → (bitsLE s p 32 % 2 ^ m) % 2 ^ n = (b.bits % 2 ^ m) % 2 ^ n := by
      intro n h1 h2
      rw [Nat.mod_mod_of_dvd _ (Nat.pow_dvd_pow 2 h1), Nat.mod_mod_of_dvd _ (Nat.pow_dvd_pow 2 h1)]
      conv => rhs; rw [hw]
      rw [Nat.mod_mod_of_dvd _ (Nat.pow_dvd_pow 2 h2)]
    -- if the true entry needs no more bits than the accumulator has, the accumulator's slot holds it
    have htrue : (tget T (base + bitsLE s p 32 % 2 ^ m) &&& 15) ≤ b.nBits →
        tget T (base + b.bits % 2 ^ m) = tget T (base + bitsLE s p 32 % 2 ^ m) := by
      intro hle
      obtain ⟨hnm, hr⟩ := hrep _ hi'
      exact hr _ hi (key _ hnm hle).symm
    by_cases hacc : b.nBits ≥ (tget T (base + b.bits % 2 ^ m) &&& 15)
    · rw [if_pos hacc]
      -- accepted: it is the true entry
      have heq : tget T (base + b.bits % 2 ^ m) = tget T (base + bitsLE s p 32 % 2 ^ m) := by
        obtain ⟨hnm, hr⟩ := hrep _ hi
        exact (hr _ hi' (key _ hnm hacc)).symm
      rw [heq] at hacc ⊢
      refine ⟨_, rfl, hb.drop _ hacc, by simp only [BR.drop]; omega, ?_⟩
      intro h8
      simp only [BR.drop]; omega
    · rw [if_neg hacc]
      have hlt : b.nBits < (tget T (base + bitsLE s p 32 % 2 ^ m) &&& 15) := by
        apply Nat.lt_of_not_le
        intro hle
        rw [htrue hle] at hacc
        exact hacc hle
      have hn15 : (tget T (base + bitsLE s p 32 % 2 ^ m) &&& 15) ≤ 15 := Nat.and_le_right
      have hr : b.ri < s.size := by have := hb.pos; omega
      rw [dif_pos hr]
      obtain ⟨b', e1, e2, e3, e4⟩ := ih _ (hb.load hr) (by simp only; omega) hav (by simp only; omega) (by omega)
      refine ⟨b', e1, e2, e3, ?_⟩
      intro _
      exact e4 (by simp only; omega)

/-- Both table levels: the retry loops return the entries of the idealised lookup on the 15-bit window. -/
theorem lookup_two_level {s : Bytes} (T : Array Nat) (nb : Nat) (hok : TblOK T nb) (hnb : nb ≤ 15) {p : Nat} (b : BR)
    (hb : BRInv s b p) (h8 : b.nBits < 8) (hav : p + (lookup2 T nb (bitsLE s p 15)).2 ≤ 8 * s.size) :
    ∃ b1, lookupLoop s T 0 ((1 <<< nb) - 1) 3 b = .ok (tget T (bitsLE s p 15 % 2 ^ nb), b1) ∧
      (¬ isRedirect (tget T (bitsLE s p 15 % 2 ^ nb)) →
        lookup2 T nb (bitsLE s p 15) = (tget T (bitsLE s p 15 % 2 ^ nb), tget T (bitsLE s p 15 % 2 ^ nb) &&& 15) ∧
        BRInv s b1 (p + (lookup2 T nb (bitsLE s p 15)).2) ∧ b1.nBits < 8) ∧
      (isRedirect (tget T (bitsLE s p 15 % 2 ^ nb)) →
        ∃ b2, lookupLoop s T ((tget T (bitsLE s p 15 % 2 ^ nb) >>> 8) &&& 0xFFFF)
            ((1 <<< ((tget T (bitsLE s p 15 % 2 ^ nb) >>> 4) &&& 0x0F)) - 1) 3 b1 =
            .ok ((lookup2 T nb (bitsLE s p 15)).1, b2) ∧
          BRInv s b2 (p + (lookup2 T nb (bitsLE s p 15)).2) ∧ b2.nBits < 8) := by
  have hx : bitsLE s p 32 % 2 ^ nb = bitsLE s p 15 % 2 ^ nb := by
    rw [bitsLE_mod s p nb 32 (by omega), bitsLE_mod s p nb 15 hnb]
  have hi : bitsLE s p 15 % 2 ^ nb < 2 ^ nb := Nat.mod_lt _ (Nat.two_pow_pos nb)
  generalize he1 : tget T (bitsLE s p 15 % 2 ^ nb) = e1 at *
  have hl1 := lookupLoop_level (s := s) T 0 nb hok.rep1 (p := p) 3 b hb (by omega)
  simp only [Nat.zero_add, hx, he1] at hl1
  by_cases hr : isRedirect e1
  · -- redirect: the total is n1 + n2
    have hlk : lookup2 T nb (bitsLE s p 15) =
        (tget T (((e1 >>> 8) &&& 0xFFFF) + (bitsLE s p 15 / 2 ^ (e1 &&& 15)) % 2 ^ ((e1 >>> 4) &&& 0x0F)),
         (e1 &&& 15) + (tget T (((e1 >>> 8) &&& 0xFFFF) + (bitsLE s p 15 / 2 ^ (e1 &&& 15)) % 2 ^ ((e1 >>> 4) &&& 0x0F)) &&& 15)) := by
      simp only [lookup2, he1, if_pos hr]
    rw [hlk] at hav ⊢
    simp only at hav ⊢
    obtain ⟨b1, f1, f2, f3, f4⟩ := hl1 (by omega) (by omega) (by omega)
    refine ⟨b1, f1, fun h => absurd hr h, fun _ => ?_⟩
    obtain ⟨hsum, hrep2⟩ := hok.redir _ hi (by rw [he1]; exact hr)
    rw [he1] at hsum hrep2
    have hl2 := lookupLoop_level (s := s) T ((e1 >>> 8) &&& 0xFFFF) ((e1 >>> 4) &&& 0x0F) hrep2
      (p := p + (e1 &&& 15)) 3 b1 f2 f3
    -- the window after the first level
    have hx2 : bitsLE s (p + (e1 &&& 15)) 32 % 2 ^ ((e1 >>> 4) &&& 0x0F) =
        (bitsLE s p 15 / 2 ^ (e1 &&& 15)) % 2 ^ ((e1 >>> 4) &&& 0x0F) := by
      rw [bitsLE_div s p (e1 &&& 15) 15 (by omega), bitsLE_mod s _ _ 32 (by omega), bitsLE_mod s _ _ _ (by omega)]
    rw [hx2] at hl2
    obtain ⟨b2, g1, g2, g3, g4⟩ := hl2 (by omega) (by omega) (by omega)
    have := f4 (by omega)
    refine ⟨b2, g1, by rw [← Nat.add_assoc]; exact g2, g4 (by omega)⟩
  · have hlk : lookup2 T nb (bitsLE s p 15) = (e1, e1 &&& 15) := by
      simp only [lookup2, he1, if_neg hr]
    rw [hlk] at hav ⊢
    simp only at hav ⊢
    obtain ⟨b1, f1, f2, f3, f4⟩ := hl1 hav (by omega) (by omega)
    exact ⟨b1, f1, fun _ => ⟨trivial, f2, f4 (by omega)⟩, fun h => absurd h hr⟩

end WuffsVerif.StdDeflate
