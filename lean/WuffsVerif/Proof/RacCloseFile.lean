/-
C13: `ChunkWriter.Close` for both index locations: the bytes that reach the Writer form a file in which the
index tree is laid out, whose root the spec reader finds, and whose chunk list matches the leaf nodes (`CW.close_roundtrip`).
-/
import WuffsVerif.Proof.RacAssemble
namespace WuffsVerif.Rac
open Spec

theorem CW.close_eq (c : CW) (he : c.err = none) (hin : c.initialized = true) (hne : c.leafNodes.size ≠ 0) :
    c.close =
      (if (c.mkNodeWriter ((gather c.leafNodes.toList (codecIsLong c.codec)).calcEncodedSize 0 (!c.indexAtStart)).2).cFileSize > maxSize
        then c.fail .tooMuchInput
      else if !c.indexAtStart then
        c.closeAtEnd (c.mkNodeWriter ((gather c.leafNodes.toList (codecIsLong c.codec)).calcEncodedSize 0 (!c.indexAtStart)).2)
          ((gather c.leafNodes.toList (codecIsLong c.codec)).calcEncodedSize 0 (!c.indexAtStart)).1
      else
        c.closeAtStart (c.mkNodeWriter ((gather c.leafNodes.toList (codecIsLong c.codec)).calcEncodedSize 0 (!c.indexAtStart)).2)
          ((gather c.leafNodes.toList (codecIsLong c.codec)).calcEncodedSize 0 (!c.indexAtStart)).1
          ((gather c.leafNodes.toList (codecIsLong c.codec)).calcEncodedSize 0 (!c.indexAtStart)).2) := by
  unfold CW.close
  have h0 : (c.leafNodes.size == 0) = false := by simpa using hne
  simp only [he, hin, Bool.not_true, Bool.false_eq_true, ↓reduceIte, Option.isSome_none, h0]


/-- padding before the index / the data: on success the Writer got zeroes up to the next page boundary -/
theorem CW.closePad (c : CW) (x : Nat) (hp : isZeroOrAPowerOf2 c.cPageSize = true)
    (h : (if c.cPageSize > 0 then c.padToPageSize false x else (c, none)).2 = none) :
    ∃ k, (if c.cPageSize > 0 then c.padToPageSize false x else (c, none)).1.io.wBytes =
        c.io.wBytes ++ List.replicate k 0 ∧
      (if c.cPageSize > 0 then c.padToPageSize false x else (c, none)).1.io.tBytes = c.io.tBytes ∧
      x + k = c.roundUpToCPageBoundary x ∧
      c.SameBut (if c.cPageSize > 0 then c.padToPageSize false x else (c, none)).1 := by
  by_cases hc : c.cPageSize > 0
  · rw [if_pos hc] at h ⊢
    obtain ⟨p1, _, _, p4, p5⟩ := CW.padToPageSize_spec c false x h
    simp only [Bool.false_eq_true, ↓reduceIte] at p4 p5
    refine ⟨padAmount c.cPageSize x, p4, p5, ?_, p1⟩
    unfold CW.roundUpToCPageBoundary
    have : (c.cPageSize == 0) = false := by rw [beq_eq_false_iff_ne]; omega
    rw [this]; simp only [Bool.false_eq_true, ↓reduceIte]
    exact padAmount_roundUp c.cPageSize x hp hc
  · rw [if_neg hc]
    have h0 : c.cPageSize = 0 := by omega
    refine ⟨0, by simp, rfl, ?_, CW.SameBut.refl c⟩
    unfold CW.roundUpToCPageBoundary
    simp [h0]

/-- the root after `calcEncodedSize _ true`: it is a branch, it comes last, and its offset and size add up
to the final accumulator -/
theorem calc_branch_end_of (G : WNode) (acc : Nat) (hb : G.children ≠ []) :
    (G.calcEncodedSize acc true).1.children ≠ [] ∧
    ∀ d cs rs col s t c, (G.calcEncodedSize acc true).1 = .mk d cs rs col s t c →
      ∃ (a n : Nat), col = a ||| (calcCLength n <<< 48) ∧ a + nodeSize cs rs c = (G.calcEncodedSize acc true).2 := by
  cases G with
  | mk d0 cs0 rs0 col0 s0 t0 c0 =>
    simp only [WNode.children] at hb
    rw [calc_branch_end d0 cs0 rs0 col0 s0 t0 c0 acc hb]
    have hlen := calcList_length cs0 acc
    refine ⟨?_, ?_⟩
    · simp only [WNode.children]
      intro h; rw [h] at hlen; exact hb (List.eq_nil_of_length_eq_zero hlen.symm)
    · intro d cs rs col s t c heq
      injection heq with e1 e2 e3 e4 e5 e6 e7
      subst e1 e2 e3 e4 e5 e6 e7
      exact ⟨_, _, rfl, by simp only; rw [nodeSize_congr cs0 _ rs0 c0 hlen]⟩

/-- the `nodeWriter` of `Close` for IndexLocationAtEnd -/
def CW.nwEnd (c : CW) (isz : Nat) : NodeWriter :=
  { resourcesCOffCLens := c.resourcesCOffCLens, indexCOffset := c.roundUpToCPageBoundary c.dataSize, cFileSize := c.roundUpToCPageBoundary c.dataSize + isz }

theorem CW.close_end (c : CW) (hi : DataInv c) (he : c.err = none) (hne : c.leafNodes.size ≠ 0)
    (hat : c.indexAtStart = false) (hcl : (c.close).2 = none) : CloseOK c := by
  have hin := hi.live hne
  obtain ⟨m1, m2, m3, m4, m5, m6, m7⟩ := hi.mode hin
  have htk : (c.tempKind != 0) = false := by rw [m1, hat]
  have hstream : c.stream = c.io.wBytes := by simp [CW.stream, htk]
  obtain ⟨lf1, lf2, lf3, lf4⟩ := dataInv_leaf_facts c hi hne
  obtain ⟨t1, t2, t3, t4, t5, t6⟩ := tree_facts c.leafNodes.toList c.codec lf2 lf1 lf3 true
  have hds := hi.size
  rw [hstream] at hds
  unfold CloseOK
  rw [CW.close_eq c he hin hne] at hcl ⊢
  simp only [hat, Bool.not_false, ↓reduceIte] at hcl ⊢
  -- the calc'd root in explicit form
  have hform := calc_branch_end_of (gather c.leafNodes.toList (codecIsLong c.codec)) 0 t1
  generalize hG : gather c.leafNodes.toList (codecIsLong c.codec) = G at *
  generalize hP : G.calcEncodedSize 0 true = P at *
  obtain ⟨root', isz⟩ := P
  simp only at t3 t4 t5 t6 hcl hform ⊢
  have hnw : c.mkNodeWriter isz = (CW.nwEnd c isz) := by
    unfold CW.mkNodeWriter CW.nwEnd; simp [hat]
  rw [hnw] at hcl ⊢
  have hcfs : (CW.nwEnd c isz).cFileSize = c.roundUpToCPageBoundary c.dataSize + isz := rfl
  have hico : (CW.nwEnd c isz).indexCOffset = c.roundUpToCPageBoundary c.dataSize := rfl
  have hdco : (CW.nwEnd c isz).dataCOffset = 0 := rfl
  have hrcl : (CW.nwEnd c isz).resourcesCOffCLens = c.resourcesCOffCLens := rfl
  rw [hcfs] at hcl ⊢
  by_cases hbig : c.roundUpToCPageBoundary c.dataSize + isz > maxSize
  · rw [if_pos hbig] at hcl; simp [CW.fail] at hcl
  · rw [if_neg hbig] at hcl ⊢
    unfold CW.closeAtEnd at hcl ⊢
    have hpad := CW.closePad c c.dataSize m3
    generalize (if c.cPageSize > 0 then c.padToPageSize false c.dataSize else (c, none)) = pr at hcl hpad ⊢
    obtain ⟨w1, e1⟩ := pr
    cases e1 with
    | some e => simp at hcl
    | none =>
      simp only [Option.isSome_none, Bool.false_eq_true, ↓reduceIte] at hcl ⊢
      obtain ⟨k, p1, p2, p3, p4⟩ := hpad rfl
      simp only at p1 p2 p4
      -- the index
      have hlay := layout (CW.nwEnd c isz) G 0 true w1.io
        (c.roundUpToCPageBoundary c.dataSize) isz t1 t2 (by rw [p1]; simp; omega) (by rw [hP]; exact Nat.le_refl _) (by unfold maxSize at hbig; omega)
      rw [hP] at hlay
      simp only at hlay
      cases hwi : writeIndex (CW.nwEnd c isz) root' true w1.io with
      | mk io2 e2 =>
        rw [hwi] at hcl hlay
        cases e2 with
        | some e => simp at hcl
        | none =>
          simp only at hcl hlay ⊢
          obtain ⟨IDX, q1, q2, q3, q4⟩ := hlay trivial
          have hfile : io2.wBytes = c.io.wBytes ++ List.replicate k 0 ++ IDX := by rw [q1, p1]
          have hlen : io2.wBytes.length = c.roundUpToCPageBoundary c.dataSize + isz := by
            rw [hfile]; simp [List.length_append]; omega
          have hcfs48 : c.roundUpToCPageBoundary c.dataSize + isz < 2 ^ 48 := by unfold maxSize at hbig; omega
          have hasm := assemble io2.wBytes.toArray (CW.nwEnd c isz) c.codec isz c.leafNodes.toList root'
            lf2 (by simp [hlen, hcfs]) (by rw [hcfs]; exact hcfs48) (by rw [hico, hcfs]; exact Nat.le_refl _)
            (fun r => by
              have := dataInv_res_facts c hi r
              rw [hrcl, hdco, hcfs]
              exact ⟨this.1, by omega⟩)
            t3 (by
              have := q3 []
              simp only [List.append_nil] at this
              rw [hico]
              simpa [q1] using this)
            q4 t4
            (fun o ho => by
              have := lf4 o ho
              rw [hdco, hcfs]
              exact ⟨this.1, by omega⟩)
            (by rw [t5, ← hi.dsize.1]; have := hi.dsize.2; unfold maxSize at this; omega)
            hform.1 (by omega) ?_
          · obtain ⟨chs, hc1, hc2⟩ := hasm
            refine ⟨CW.nwEnd c isz, [], List.replicate k 0 ++ IDX, chs, ?_, hc2, ?_, rfl, by rw [hcfs]; exact hlen, rfl⟩
            · rw [hc1, t5, hi.dsize.1]
            · rw [hstream, hfile]; simp [List.append_assoc]
          · -- the root is found at the end of the file
            intro hpl d cs rs col s t cc hroot
            obtain ⟨a, n, hf3, hf4⟩ := hform.2 d cs rs col s t cc hroot
            rw [hroot] at hpl
            simp only [Placed] at hpl
            have hcsne : cs ≠ [] := by rw [hroot] at hform; simpa [WNode.children] using hform.1
            rcases hpl.2 with h | ⟨ok, hatp, _, _⟩
            · exact absurd h hcsne
            · obtain ⟨rest, hrest⟩ := m7 hat
              refine ⟨_, findRoot_end _ _ cs rs cc ok (by simp [hlen, hcfs]) _ ?_ hatp ?_⟩
              · apply atPos_of_split _ [] _ (rest ++ List.replicate k 0 ++ IDX) 0 _ rfl
                simp [hfile, hrest, List.append_assoc]
              · have hsz : io2.wBytes.toArray.size = io2.wBytes.length := by simp
                rw [hsz, hlen, hico]
                have hcf := col_fields a n (by omega)
                rw [← hf3] at hcf
                rw [hcf.2]
                unfold nodeSize at hf4
                omega

theorem IOSt.write_false_tBytes (io : IOSt) (data : Bytes) : (io.write false data).1.tBytes = io.tBytes := by
  unfold IOSt.write IOSt.tick
  simp only
  split <;> simp [IOSt.tBytes]

theorem writeNode_tBytes (nw : NodeWriter) (n : WNode) (io : IOSt) : (writeNode nw n io).1.tBytes = io.tBytes := by
  unfold writeNode
  split
  · rfl
  · rename_i bytes _
    have := IOSt.write_false_tBytes io bytes
    generalize io.write false bytes = wr at this ⊢
    obtain ⟨io1, b⟩ := wr
    cases b <;> simpa using this

theorem writeIndex_tBytes (nw : NodeWriter) (n : WNode) (r : Bool) (io : IOSt) :
    (writeIndex nw n r io).1.tBytes = io.tBytes := by
  refine writeIndex.induct nw
    (fun n r io => (writeIndex nw n r io).1.tBytes = io.tBytes)
    (fun cs io => (writeIndexList nw cs io).1.tBytes = io.tBytes)
    ?_ ?_ ?_ ?_ ?_ ?_ ?_ ?_ n r io
  · intro d cs rs col s t c io io1 e h ih
    rw [writeIndex_end, h]; simp only
    rw [h] at ih; exact ih
  · intro d cs rs col s t c io io1 h ih
    rw [writeIndex_end, h]; simp only
    rw [writeNode_tBytes]
    rw [h] at ih; exact ih
  · intro d cs rs col s t c r io hr io1 e h
    have hr' : r = false := by simpa using hr
    subst hr'
    rw [writeIndex_pre, h]; simp only
    have := writeNode_tBytes nw (WNode.mk d cs rs col s t c) io
    rw [h] at this; exact this
  · intro d cs rs col s t c r io hr io1 h ih
    have hr' : r = false := by simpa using hr
    subst hr'
    rw [writeIndex_pre, h]; simp only
    rw [ih]
    have := writeNode_tBytes nw (WNode.mk d cs rs col s t c) io
    rw [h] at this; exact this
  · intro io; simp [writeIndexList]
  · intro os io d rs col s t c ih
    rw [writeIndexList_cons_leaf _ _ _ _ rfl]; exact ih
  · intro os io d c0 cs rs col s t c io1 e h ih
    rw [writeIndexList_cons_branch _ _ _ _ (by simp [WNode.children]), h]; simp only
    rw [h] at ih; exact ih
  · intro os io d c0 cs rs col s t c io1 h ih1 ih2
    rw [writeIndexList_cons_branch _ _ _ _ (by simp [WNode.children]), h]; simp only
    rw [ih2]
    rw [h] at ih1; exact ih1

/-- the root after `calcEncodedSize 0 false`: a branch placed at offset 0 -/
theorem calc_branch_pre_of (G : WNode) (hb : G.children ≠ []) :
    (G.calcEncodedSize 0 false).1.children ≠ [] ∧
    ∀ d cs rs col s t c, (G.calcEncodedSize 0 false).1 = .mk d cs rs col s t c → col % 2 ^ 48 = 0 := by
  cases G with
  | mk d0 cs0 rs0 col0 s0 t0 c0 =>
    simp only [WNode.children] at hb
    rw [calc_branch_pre d0 cs0 rs0 col0 s0 t0 c0 0 hb]
    have hlen := calcList_length cs0 (0 + nodeSize cs0 rs0 c0)
    refine ⟨?_, ?_⟩
    · simp only [WNode.children]
      intro h; rw [h] at hlen; exact hb (List.eq_nil_of_length_eq_zero hlen.symm)
    · intro d cs rs col s t c heq
      injection heq with e1 e2 e3 e4 e5 e6 e7
      rw [← e4]
      exact (col_fields 0 _ (by omega)).2

/-- the `nodeWriter` of `Close` for IndexLocationAtStart -/
def CW.nwStart (c : CW) (isz : Nat) : NodeWriter :=
  { resourcesCOffCLens := c.resourcesCOffCLens, dataCOffset := c.roundUpToCPageBoundary isz, cFileSize := c.roundUpToCPageBoundary isz + c.dataSize }

theorem CW.close_start (c : CW) (hi : DataInv c) (he : c.err = none) (hne : c.leafNodes.size ≠ 0)
    (hat : c.indexAtStart = true) (hcl : (c.close).2 = none) : CloseOK c := by
  have hin := hi.live hne
  obtain ⟨m1, m2, m3, m4, m5, m6, m7⟩ := hi.mode hin
  have htk : (c.tempKind != 0) = true := by rw [m1, hat]
  have hstream : c.stream = c.io.tBytes := by simp [CW.stream, htk]
  have hw0 := m6 hat
  obtain ⟨lf1, lf2, lf3, lf4⟩ := dataInv_leaf_facts c hi hne
  obtain ⟨t1, t2, t3, t4, t5, t6⟩ := tree_facts c.leafNodes.toList c.codec lf2 lf1 lf3 false
  have hds := hi.size
  rw [hstream] at hds
  unfold CloseOK
  rw [CW.close_eq c he hin hne] at hcl ⊢
  simp only [hat, Bool.not_true, Bool.false_eq_true, ↓reduceIte] at hcl ⊢
  have hform := calc_branch_pre_of (gather c.leafNodes.toList (codecIsLong c.codec)) t1
  generalize hG : gather c.leafNodes.toList (codecIsLong c.codec) = G at *
  generalize hP : G.calcEncodedSize 0 false = P at *
  obtain ⟨root', isz⟩ := P
  simp only at t3 t4 t5 t6 hcl hform ⊢
  have hnw : c.mkNodeWriter isz = CW.nwStart c isz := by
    unfold CW.mkNodeWriter CW.nwStart; simp [hat]
  rw [hnw] at hcl ⊢
  have hcfs : (CW.nwStart c isz).cFileSize = c.roundUpToCPageBoundary isz + c.dataSize := rfl
  have hico : (CW.nwStart c isz).indexCOffset = 0 := rfl
  have hdco : (CW.nwStart c isz).dataCOffset = c.roundUpToCPageBoundary isz := rfl
  have hrcl : (CW.nwStart c isz).resourcesCOffCLens = c.resourcesCOffCLens := rfl
  rw [hcfs] at hcl ⊢
  by_cases hbig : c.roundUpToCPageBoundary isz + c.dataSize > maxSize
  · rw [if_pos hbig] at hcl; simp [CW.fail] at hcl
  · rw [if_neg hbig] at hcl ⊢
    unfold CW.closeAtStart at hcl ⊢
    have hround : isz ≤ c.roundUpToCPageBoundary isz := by
      unfold CW.roundUpToCPageBoundary
      split
      · exact Nat.le_refl _
      · rename_i hc0
        have hc : c.cPageSize > 0 := by
          have : c.cPageSize ≠ 0 := by simpa using hc0
          omega
        have := padAmount_roundUp c.cPageSize isz m3 hc
        omega
    -- the index
    have hlay := layout (CW.nwStart c isz) G 0 false c.io 0 isz t1 t2 (by rw [hw0]; rfl)
      (by rw [hP]; exact Nat.le_refl _) (by unfold maxSize at hbig; omega)
    rw [hP] at hlay
    simp only at hlay
    have htb := writeIndex_tBytes (CW.nwStart c isz) root' false c.io
    cases hwi : writeIndex (CW.nwStart c isz) root' false c.io with
    | mk io1 e1 =>
      rw [hwi] at hcl hlay htb
      cases e1 with
      | some e => simp at hcl
      | none =>
        simp only at hcl hlay htb ⊢
        obtain ⟨IDX, q1, q2, q3, q4⟩ := hlay trivial
        rw [hw0, List.nil_append] at q1
        -- padding after the index
        have hpad := CW.closePad { c with io := io1 } isz m3
        simp only at hpad
        generalize (if c.cPageSize > 0 then CW.padToPageSize { c with io := io1 } false isz
          else ({ c with io := io1 }, none)) = pr at hcl hpad ⊢
        obtain ⟨w2, e2⟩ := pr
        cases e2 with
        | some e => simp at hcl
        | none =>
          simp only [Option.isSome_none, Bool.false_eq_true, ↓reduceIte] at hcl ⊢
          obtain ⟨k, p1, p2, p3, p4⟩ := hpad rfl
          simp only at p1 p2 p4
          have p3' : isz + k = c.roundUpToCPageBoundary isz := p3
          have hst := CW.seekTemp_spec w2
          generalize w2.seekTemp = r3 at hcl hst ⊢
          obtain ⟨w3, e3⟩ := r3
          cases e3 with
          | some e => simp at hcl
          | none =>
            simp only [Option.isSome_none, Bool.false_eq_true, ↓reduceIte] at hcl ⊢
            obtain ⟨io3, s1, s2, s3⟩ := hst rfl
            simp only at s1
            subst s1
            simp only at hcl ⊢
            have hcp := CW.copyLoop_spec (io3.tBytes.length + 2) io3.tBytes 0 io3
            generalize CW.copyLoop (io3.tBytes.length + 2) io3.tBytes 0 io3 = r4 at hcl hcp ⊢
            obtain ⟨io4, n, e4⟩ := r4
            cases e4 with
            | some e => simp at hcl
            | none =>
              simp only at hcl hcp ⊢
              obtain ⟨cp1, cp2⟩ := hcp trivial
              by_cases hn : (n != c.dataSize) = true
              · rw [if_pos hn] at hcl; simp [CW.fail] at hcl
              · rw [if_neg hn]
                simp only
                have htB : io3.tBytes = c.io.tBytes := by rw [s3, p2, htb]
                have hfile : io4.wBytes = IDX ++ List.replicate k 0 ++ c.io.tBytes := by
                  rw [cp1, s2, p1, q1, htB]
                have hlen : io4.wBytes.length = c.roundUpToCPageBoundary isz + c.dataSize := by
                  rw [hfile]; simp [List.length_append]; omega
                have hcfs48 : c.roundUpToCPageBoundary isz + c.dataSize < 2 ^ 48 := by
                  unfold maxSize at hbig; omega
                have hasm := assemble io4.wBytes.toArray (CW.nwStart c isz) c.codec isz c.leafNodes.toList root'
                  lf2 (by simp [hlen, hcfs]) (by rw [hcfs]; exact hcfs48) (by rw [hico, hcfs]; omega)
                  (fun r => by
                    have := dataInv_res_facts c hi r
                    rw [hrcl, hdco, hcfs]
                    exact ⟨this.1, by omega⟩)
                  t3 (by
                    have := q3 (List.replicate k 0 ++ c.io.tBytes)
                    rw [hw0, List.nil_append] at this
                    rw [hico]
                    simpa [hfile, List.append_assoc] using this)
                  q4 t4
                  (fun o ho => by
                    have := lf4 o ho
                    rw [hdco, hcfs]
                    exact ⟨this.1, by omega⟩)
                  (by rw [t5, ← hi.dsize.1]; have := hi.dsize.2; unfold maxSize at this; omega)
                  hform.1 (by omega) ?_
                · obtain ⟨chs, hc1, hc2⟩ := hasm
                  refine ⟨CW.nwStart c isz, IDX ++ List.replicate k 0, [], chs, ?_, hc2, ?_, ?_, by rw [hcfs]; exact hlen, rfl⟩
                  · rw [hc1, t5, hi.dsize.1]
                  · rw [hstream, hfile]; simp
                  · rw [hdco]; simp [List.length_append]; omega
                · intro hpl d cs rs col s t cc hroot
                  have hcol := hform.2 d cs rs col s t cc hroot
                  rw [hroot] at hpl
                  simp only [Placed] at hpl
                  have hcsne : cs ≠ [] := by rw [hroot] at hform; simpa [WNode.children] using hform.1
                  rcases hpl.2 with h | ⟨ok, hatp, _, _⟩
                  · exact absurd h hcsne
                  · rw [hcol, hico] at hatp
                    exact ⟨0, findRoot_start _ _ cs rs cc ok (by simp [hlen, hcfs]) hatp⟩

/-- **index round trip**: after a successful `ChunkWriter.Close` with at least one chunk, the independent spec
reader lists exactly the accepted chunks, whose bytes sit in the file at the listed offsets -/
theorem CW.close_roundtrip (c : CW) (hi : DataInv c) (he : c.err = none) (hne : c.leafNodes.size ≠ 0)
    (hcl : (c.close).2 = none) : CloseOK c := by
  cases hat : c.indexAtStart with
  | false => exact CW.close_end c hi he hne hat hcl
  | true => exact CW.close_start c hi he hne hat hcl
end WuffsVerif.Rac
