/-
C01 over the control-flow layer: the SAFETY monitors at every program point that an
execution of an accepted body can reach, and histories of public calls.

Everything here is a corollary of C02's central induction (`Proof.Flow.reach_sound`:
at every reached point the checker's situation holds and the rest of the program is
accepted from it) and of C01's expression-level theorem (`bounds_contain'`,
`bounds_contain_nodes'`): what the checker accepted at a point, evaluated in a store in
which the checker's facts are true, trips no monitor.
-/
import WuffsVerif.Proof.FlowReach
import WuffsVerif.Proof.FlowWf
import WuffsVerif.Proof.WCoreHist
import WuffsVerif.Model.WCore.FlowMethod

namespace WuffsVerif.Proof.FlowSafe
open WuffsVerif.Interval WuffsVerif.WCore WuffsVerif.WFlow
open WuffsVerif.Proof.WCoreBounds WuffsVerif.Proof.WCoreStmt WuffsVerif.Proof.Flow
open WuffsVerif.Proof.WCoreHist

/-! ## the monitors of one program point -/

/-- An expression that the program evaluates at a point where the checker holds the
facts `fs`: evaluating it trips no monitor (`safe`: no overflow of a non-modular
operator, shift amounts and divisors in range, conversions fit, every `a[i]` inside it
has `0 ≤ i < len`), and EVERY node the checker annotates has a value inside the bounds
the checker derived for that node under `fs` (`MBounds`). -/
def ExprSafe (fs : List Expr) (env : Env) (e : Expr) : Prop :=
  safe env false e ∧
  ∀ nd ∈ nodesPre e, ∃ b, bcheck fs false nd = some b ∧ safe env false nd ∧ b.mem (evalI env nd)

/-- the argument list of a call: every argument evaluates safely to a value of its
parameter's (refined) type -/
def ArgsSafe (fs : List Expr) (env : Env) (args : List (Expr × Ty)) : Prop :=
  ∀ a ∈ args, ExprSafe fs env a.1 ∧ inType a.2 (evalI env a.1)

def stmtRhs : Stmt → Expr
  | .assign _ rhs => rhs
  | .opAssign _ _ rhs => rhs

/--
What "no safety violation at this point" means, statement kind by statement kind; `fs`
is the checker's situation at the point, `env` the store, `L` the enclosing loops.
* assignment / op-assignment: `stmtSafe` (right-hand side and destination evaluate
  safely — for `a[i] = …` the index is in `[0, len)` —, the operator's monitor, the stored
  value fits the refined type of the destination), all nodes within their derived bounds;
* `assert`: true (and its condition is evaluable);
* `if`: the condition evaluates safely;
* `while`, on arrival: pre + inv true, the condition evaluates safely (every later
  evaluation of the condition: `heads_safe`);
* `break` / `continue`: the target loop's inv + post / pre + inv are true;
* impure call / coroutine call: every argument evaluates safely to a value of its
  parameter type — for a coroutine call in every store `env'` that differs from `env` by
  what a resuming caller may have changed (`args.*`, `this.*`; `env' = env` is the first
  evaluation): the argument list is re-evaluated on every resumption;
* `x = this.m!(…)`: additionally every value of the callee's result type fits `x`;
* `return e`: `e` evaluates safely to a value of the declared result type.
-/
def PointSafe (Γ : Ctx) (L : List LoopSpec) (fs : List Expr) (env : Env) : FStmt → Prop
  | .skip => True
  | .seq a _ => PointSafe Γ L fs env a
  | .base st => stmtSafe env st ∧ ExprSafe fs env (stmtTarget st) ∧ ExprSafe fs env (stmtRhs st)
  | .assert c _ => ExprSafe fs env c ∧ evalI env c ≠ 0
  | .ite c _ _ => ExprSafe fs env c
  | .while sp c _ => CondsHold env (nonPost sp) ∧ ExprSafe (assumeAll (nonPost sp)) env c
  | .jump isBreak k =>
    ∃ sp, L[k]? = some sp ∧ CondsHold env (if isBreak then nonPre sp else nonPost sp)
  | .call args => ArgsSafe fs env args
  | .callAssign lhs retTy args =>
    ArgsSafe fs env args ∧ ∀ v, inType retTy v → inType (typeOf lhs) v
  | .yield => True
  | .cocall args => ∀ env', Havoc isSuspName Γ env env' → ArgsSafe (dropSuspension fs) env' args
  | .ret none => True
  | .ret (some (v, ty)) => ExprSafe fs env v ∧ inType ty (evalI env v)

/-- the expressions that `wtS` says nothing about (argument lists, returned values)
carry the declared types too -/
def ArgsWt (Γ : Ctx) : FStmt → Prop
  | .seq a b => ArgsWt Γ a ∧ ArgsWt Γ b
  | .ite _ t e => ArgsWt Γ t ∧ ArgsWt Γ e
  | .while _ _ body => ArgsWt Γ body
  | .call args => ∀ a ∈ args, wt Γ a.1
  | .callAssign _ _ args => ∀ a ∈ args, wt Γ a.1
  | .cocall args => ∀ a ∈ args, wt Γ a.1
  | .ret (some (v, _)) => wt Γ v
  | _ => True

theorem exprSafe_of_bcheck {Γ : Ctx} {env : Env} {fs : List Expr} {e : Expr} {b : IR}
    (S : Situation Γ env fs) (hw : wt Γ e) (h : bcheck fs false e = some b) :
    ExprSafe fs env e ∧ b.mem (evalI env e) := by
  have hv := varsOk_of_wt S.envOk e hw
  obtain ⟨h1, h2⟩ := bounds_contain' S.holds hv h
  exact ⟨⟨h1, bounds_contain_nodes' S.holds hv h⟩, h2⟩

theorem argsSafe_of_argsOK {Γ : Ctx} {env : Env} {fs : List Expr} {args : List (Expr × Ty)}
    (S : Situation Γ env fs) (hw : ∀ a ∈ args, wt Γ a.1) (h : argsOK fs args = true) :
    ArgsSafe fs env args := by
  intro a ha
  simp only [argsOK, List.all_eq_true] at h
  have h1 := h a ha
  cases hb : bcheck fs false a.1 with
  | none => simp [hb] at h1
  | some rb =>
    simp only [hb] at h1
    obtain ⟨e1, e2⟩ := exprSafe_of_bcheck S (hw a ha) hb
    exact ⟨e1, fitsType_spec h1 e2⟩

/-- an accepted (op-)assignment had both sides bounds-checked under the old facts -/
theorem checkStmt_bchecks {fs fs' : List Expr} {st : Stmt} (h : checkStmt fs st = some fs') :
    (∃ b, bcheck fs false (stmtTarget st) = some b) ∧ (∃ b, bcheck fs false (stmtRhs st) = some b) := by
  cases st with
  | assign lhs rhs =>
    simp only [checkStmt] at h
    split at h
    · cases h
    · split at h
      · rename_i lb rb hlb hrb
        exact ⟨⟨_, hlb⟩, ⟨_, hrb⟩⟩
      · cases h
  | opAssign op lhs rhs =>
    simp only [checkStmt] at h
    split at h
    · cases h
    · split at h
      · rename_i lb rb hlb hrb
        exact ⟨⟨_, hlb⟩, ⟨_, hrb⟩⟩
      · cases h

theorem wtStmtA_sides {Γ : Ctx} {st : Stmt} (h : wtStmtA Γ st) :
    wt Γ (stmtTarget st) ∧ wt Γ (stmtRhs st) := by
  cases st with
  | assign lhs rhs =>
    rcases h with ⟨⟨n, rfl⟩, hr⟩ | ⟨⟨a, len, i, rfl, hi⟩, hr⟩
    · exact ⟨rfl, hr⟩
    · exact ⟨⟨rfl, hi⟩, hr⟩
  | opAssign op lhs rhs =>
    rcases h with ⟨⟨n, rfl, _⟩, hr⟩ | ⟨⟨a, len, i, rfl, hi, _⟩, hr⟩
    · exact ⟨rfl, hr⟩
    · exact ⟨⟨rfl, hi⟩, hr⟩

/--
A statement that the checker accepts from a situation that holds trips no monitor when
it starts to run (the step from "the situation holds and the program is accepted from
here" — what `reach_sound` gives at every reached point — to the monitors).
-/
theorem pointSafe_here {Γ : Ctx} :
    ∀ (s : FStmt) (L : List LoopSpec) (fs : List Expr) (env : Env), Situation Γ env fs →
      wtS Γ s → ArgsWt Γ s → WfLoops Γ L → (checkS L fs s).isSome = true →
      PointSafe Γ L fs env s := by
  intro s
  induction s with
  | skip => intro L fs env _ _ _ _ _; trivial
  | seq a b iha _ =>
    intro L fs env S hw ha hl hc
    simp only [wtS] at hw
    simp only [ArgsWt] at ha
    simp only [checkS] at hc
    cases h1 : checkS L fs a with
    | none => simp [h1] at hc
    | some fa => exact iha L fs env S hw.1 ha.1 hl (by simp [h1])
  | base st =>
    intro L fs env S hw _ _ hc
    simp only [wtS] at hw
    simp only [checkS] at hc
    cases hq : checkStmt fs st with
    | none => simp [hq] at hc
    | some f =>
      obtain ⟨⟨bl, hbl⟩, ⟨br, hbr⟩⟩ := checkStmt_bchecks hq
      obtain ⟨wl, wr⟩ := wtStmtA_sides hw
      exact ⟨(stmtA_sound S hw hq).1, (exprSafe_of_bcheck S wl hbl).1, (exprSafe_of_bcheck S wr hbr).1⟩
  | assert c r =>
    intro L fs env S hw _ _ hc
    simp only [wtS] at hw
    simp only [checkS] at hc
    cases hq : checkAssert fs c r with
    | none => simp [hq] at hc
    | some f =>
      refine ⟨?_, (checkAssert_sound S hw.1.1 hw.1.2.1 hw.2 hq).1⟩
      unfold checkAssert at hq
      cases hb : bcheck fs false c with
      | none => simp [hb] at hq
      | some b0 => exact (exprSafe_of_bcheck S hw.1.1 hb).1
  | ite c t e _ _ =>
    intro L fs env S hw _ _ hc
    simp only [wtS] at hw
    simp only [checkS] at hc
    cases hb : bcheck fs false c with
    | none => simp [hb] at hc
    | some b0 => exact (exprSafe_of_bcheck S hw.1.1 hb).1
  | «while» sp c body _ =>
    intro L fs env S hw _ _ hc
    simp only [wtS] at hw
    obtain ⟨hsp, hcc, _⟩ := hw
    obtain ⟨wPost, _, _⟩ := conds_wt_of hsp
    simp only [checkS] at hc
    cases h1 : checkAsserts fs (nonPost sp) with
    | none => simp [h1] at hc
    | some f1 =>
      simp only [h1] at hc
      cases hb : bcheck (assumeAll (nonPost sp)) false c with
      | none => simp [hb] at hc
      | some b0 =>
        obtain ⟨tin, _⟩ := checkAsserts_sound _ _ _ S wPost h1
        have Shd : Situation Γ env (assumeAll (nonPost sp)) := situation_assume S.envOk tin wPost
        exact ⟨tin, (exprSafe_of_bcheck Shd hcc.1 hb).1⟩
  | jump isBreak k =>
    intro L fs env S _ _ hl hc
    simp only [checkS] at hc
    cases hk : L[k]? with
    | none => simp [hk] at hc
    | some sp =>
      simp only [hk] at hc
      obtain ⟨wPost, wPre, _⟩ := conds_wt_of (wf_get hl hk)
      cases hq : checkAsserts fs (if isBreak = true then nonPre sp else nonPost sp) with
      | none => simp [hq] at hc
      | some fq =>
        refine ⟨sp, hk, ?_⟩
        cases isBreak with
        | true =>
          simp only [if_true] at hq ⊢
          exact (checkAsserts_sound _ _ _ S wPre hq).1
        | false =>
          simp only [Bool.false_eq_true, if_false] at hq ⊢
          exact (checkAsserts_sound _ _ _ S wPost hq).1
  | call args =>
    intro L fs env S _ ha _ hc
    simp only [ArgsWt] at ha
    simp only [checkS] at hc
    by_cases hok : argsOK fs args = true
    · exact argsSafe_of_argsOK S ha hok
    · simp [hok] at hc
  | callAssign lhs retTy args =>
    intro L fs env S hw ha _ hc
    simp only [wtS] at hw
    obtain ⟨n, rfl⟩ := hw
    simp only [ArgsWt] at ha
    simp only [checkS, isVar, Bool.not_true, Bool.false_eq_true, if_false] at hc
    cases hb : bcheck fs false (.var n (Γ n)) with
    | none => simp [hb] at hc
    | some b0 =>
      cases ht : typeBounds retTy with
      | none => simp [hb, ht] at hc
      | some nb =>
        simp only [hb, ht] at hc
        by_cases hok : (!argsOK fs args || !fitsType (typeOf (Expr.var n (Γ n))) nb) = true
        · simp [hok] at hc
        · simp only [Bool.or_eq_true, Bool.not_eq_true', not_or, Bool.not_eq_false] at hok
          refine ⟨argsSafe_of_argsOK S ha hok.1, ?_⟩
          intro v hv
          exact fitsType_spec hok.2 ((typeBounds_mem_iff ht v).2 hv)
  | yield => intro L fs env _ _ _ _ _; trivial
  | cocall args =>
    intro L fs env S _ ha _ hc
    simp only [ArgsWt] at ha
    simp only [checkS] at hc
    by_cases hok : argsOK (dropSuspension fs) args = true
    · intro env' hh
      exact argsSafe_of_argsOK (havoc_keeps S hh) ha hok
    · simp [hok] at hc
  | ret e =>
    intro L fs env S _ ha _ hc
    cases e with
    | none => trivial
    | some p =>
      obtain ⟨v, ty⟩ := p
      simp only [ArgsWt] at ha
      simp only [checkS] at hc
      cases hb : bcheck fs false v with
      | none => simp [hb] at hc
      | some rb =>
        simp only [hb] at hc
        by_cases hfit : fitsType ty rb = true
        · obtain ⟨e1, e2⟩ := exprSafe_of_bcheck S ha hb
          exact ⟨e1, fitsType_spec hfit e2⟩
        · simp [hfit] at hc

/-- the argument lists of a reached sub-statement are well-typed when those of the whole are -/
theorem reach_argsWt {Γ : Ctx} {L L' : List LoopSpec} {fs fs' : List Expr} {env env' : Env}
    {s s' : FStmt} (hr : Reach Γ L fs env s L' fs' env' s') : ArgsWt Γ s → ArgsWt Γ s' := by
  induction hr with
  | here => intro h; exact h
  | seqL _ ih => intro h; exact ih h.1
  | seqR _ _ _ ih => intro h; exact ih h.2
  | iteT _ _ ih => intro h; exact ih h.1
  | iteF _ _ _ ih => intro h; exact ih h.2
  | body _ _ _ ih => intro h; exact ih h

/--
**point_safe**: at every point an execution of an accepted statement can reach, the
statement about to run trips no monitor, and the checker's situation holds there.
-/
theorem point_safe {Γ : Ctx} {L L' : List LoopSpec} {fs fs' : List Expr} {env env' : Env}
    {s s' : FStmt} (hw : wtS Γ s) (ha : ArgsWt Γ s) (hl : WfLoops Γ L)
    (hc : (checkS L fs s).isSome = true) (S : Situation Γ env fs)
    (hr : Reach Γ L fs env s L' fs' env' s') :
    PointSafe Γ L' fs' env' s' ∧ Situation Γ env' fs' := by
  obtain ⟨S', hw', hl', hc'⟩ := reach_sound hr hw hl hc S
  exact ⟨pointSafe_here s' L' fs' env' S' hw' (reach_argsWt hr ha) hl' hc', S'⟩

/--
**heads_safe**: EVERY evaluation of a loop condition is safe — not only the one on
arrival (`PointSafe` of the `while`) but the one after each completed iteration
(`Heads`: the body fell through or ended in `continue`), and pre + inv are true each time.
-/
theorem heads_safe {Γ : Ctx} {L L' : List LoopSpec} {fs fs' : List Expr} {env env' envk : Env}
    {s body : FStmt} {sp : LoopSpec} {c : Expr} (hw : wtS Γ s) (hl : WfLoops Γ L)
    (hc : (checkS L fs s).isSome = true) (S : Situation Γ env fs)
    (hr : Reach Γ L fs env s L' fs' env' (.while sp c body))
    (hh : Heads Γ c body env' envk) :
    CondsHold envk (nonPost sp) ∧ ExprSafe (assumeAll (nonPost sp)) envk c ∧ EnvOk Γ envk := by
  obtain ⟨S', hw', hl', hc'⟩ := reach_sound hr hw hl hc S
  simp only [wtS] at hw'
  obtain ⟨hsp, hcc, hwb⟩ := hw'
  obtain ⟨wPost, _, _⟩ := conds_wt_of hsp
  cases hq : checkS L' fs' (.while sp c body) with
  | none => simp [hq] at hc'
  | some fs1 =>
    obtain ⟨⟨f1, h1⟩, _, hBody, _⟩ := while_accept hq
    obtain ⟨tin, _⟩ := checkAsserts_sound _ _ _ S' wPost h1
    obtain ⟨hek, hik⟩ := heads_inv hsp hcc hwb hl' hBody hh S'.envOk tin
    have Shd : Situation Γ envk (assumeAll (nonPost sp)) := situation_assume hek hik wPost
    simp only [checkS, h1] at hq
    cases hb : bcheck (assumeAll (nonPost sp)) false c with
    | none => simp [hb] at hq
    | some b0 => exact ⟨hik, (exprSafe_of_bcheck Shd hcc.1 hb).1, hek⟩

/-! ## from the computable check to the hypotheses -/

theorem argsWt_of_typings {l : List (String × Ty)} (hc : consistent l = true) :
    ∀ (s : FStmt), (∀ p ∈ extraTypings s, p ∈ l) → ArgsWt (ctxOf l) s := by
  have hargs : ∀ (args : List (Expr × Ty)), (∀ p ∈ argsTypings args, p ∈ l) →
      ∀ a ∈ args, wt (ctxOf l) a.1 := by
    intro args h a ha
    apply wt_of_typings hc a.1
    intro p hp
    apply h
    simp only [argsTypings, List.mem_flatten, List.mem_map]
    exact ⟨exprTypings a.1, ⟨a, ha, rfl⟩, hp⟩
  intro s
  induction s with
  | seq a b iha ihb =>
    intro h
    exact ⟨iha (fun p hp => h p (by simp [extraTypings, hp])),
      ihb (fun p hp => h p (by simp [extraTypings, hp]))⟩
  | ite c t e iht ihe =>
    intro h
    exact ⟨iht (fun p hp => h p (by simp [extraTypings, hp])),
      ihe (fun p hp => h p (by simp [extraTypings, hp]))⟩
  | «while» sp c body ihb => intro h; exact ihb (fun p hp => h p (by simpa [extraTypings] using hp))
  | call args => intro h; exact hargs args (fun p hp => h p (by simpa [extraTypings] using hp))
  | callAssign lhs retTy args =>
    intro h; exact hargs args (fun p hp => h p (by simpa [extraTypings] using hp))
  | cocall args => intro h; exact hargs args (fun p hp => h p (by simpa [extraTypings] using hp))
  | ret e =>
    intro h
    cases e with
    | none => trivial
    | some p =>
      obtain ⟨v, ty⟩ := p
      exact wt_of_typings hc v (fun q hq => h q (by simpa [extraTypings] using hq))
  | skip => intro _; trivial
  | base st => intro _; trivial
  | assert c r => intro _; trivial
  | jump b k => intro _; trivial
  | yield => intro _; trivial

/-- what the theorems need to know about one public method, relative to its typing
context `Γ` and the declared types `ΓF` of the object's fields -/
structure FMethodOk (ΓF Γ : Ctx) (m : FMethod) : Prop where
  fields : ∀ n, isThisName n = true → Γ n = ΓF n
  params : ∀ p ∈ m.params, p.2 = Γ p.1
  wtBody : wtS Γ m.body
  argsWt : ArgsWt Γ m.body
  accepted : (checkS [] [] m.body).isSome = true

/-- `wfMethod` + acceptance give `FMethodOk` for the context read off the method -/
theorem methodOk_of_wf {l : List (String × Ty)} (hc : consistent l = true) {m : FMethod}
    (hsub : ∀ p ∈ methodTypings m, p ∈ l) (hshape : shapeOK m.body = true)
    (hacc : (checkS [] [] m.body).isSome = true) : FMethodOk (ctxOf l) (ctxOf l) m where
  fields := fun _ _ => rfl
  params := fun p hp => by
    obtain ⟨n, t⟩ := p
    exact (ctxOf_of_mem hc (hsub (n, t) (by simp [methodTypings, hp]))).symm
  wtBody := wtS_of_shape hc m.body hshape (fun p hp => hsub p (by simp [methodTypings, hp]))
  argsWt := argsWt_of_typings hc m.body (fun p hp => hsub p (by simp [methodTypings, hp]))
  accepted := hacc

theorem methodOk_of_wfMethod {m : FMethod} (hwf : wfMethod m = true)
    (hacc : (checkS [] [] m.body).isSome = true) :
    FMethodOk (ctxOf (methodTypings m)) (ctxOf (methodTypings m)) m := by
  simp only [wfMethod, Bool.and_eq_true] at hwf
  exact methodOk_of_wf hwf.2 (fun _ hp => hp) hwf.1 hacc

theorem methodOk_of_wfObj {ms : List FMethod} (hwf : wfObj ms = true) (hacc : acceptsObj ms = true)
    {m : FMethod} (hm : m ∈ ms) : FMethodOk (ctxOf (objTypings ms)) (ctxOf (objTypings ms)) m := by
  simp only [wfObj, Bool.and_eq_true, List.all_eq_true] at hwf
  simp only [acceptsObj, List.all_eq_true] at hacc
  refine methodOk_of_wf hwf.2 ?_ (hwf.1 m hm) (hacc m hm)
  intro p hp
  simp only [objTypings, List.mem_flatten, List.mem_map]
  exact ⟨methodTypings m, ⟨m, hm, rfl⟩, hp⟩

/-! ## histories of public calls -/

def Out.env : Out → Env
  | .norm e => e
  | .brk _ e => e
  | .cont _ e => e
  | .ret e => e

theorem outOK_envOk {Γ : Ctx} {L : List LoopSpec} {fs1 : List Expr} {o : Out}
    (h : OutOK Γ L fs1 o) : EnvOk Γ (Out.env o) := by
  cases o with
  | norm e => exact h.envOk
  | brk k e => exact h.1
  | cont k e => exact h.1
  | ret e => exact h

/-- between two public calls only the fields matter: they hold values of their declared
(refined) types -/
def FieldsOk (ΓF : Ctx) (env : Env) : Prop :=
  ∀ key : Key, isThisName key.name = true → inType (ΓF key.name) (env key)

/--
The store in which the body of a public call starts: the FIELDS are what the object
holds (left there by the previous calls), the LOCALS hold any values of their declared
types (cgen zero-initialises them; zero is a value of every declared type, `bcheckVar`),
and the parameters are bound to the argument values.
-/
def EntryEnv (Γ : Ctx) (m : FMethod) (vals : List Int) (env env0 : Env) : Prop :=
  ∃ envL, (∀ key : Key, isThisName key.name = true → envL key = env key) ∧
    (∀ key : Key, isThisName key.name = false → inType (Γ key.name) (envL key)) ∧
    env0 = bindArgs envL m.params vals

/--
Histories of public calls (`Γ m`: the typing context of method `m`).  A call on a
disabled object runs nothing; a call whose refined arguments fail the emitted run-time
check (`writeFuncImplArgChecks`) runs nothing and disables the object; otherwise the body
runs (`Exec`: non-deterministic in what impure callees store and what the caller does
across each suspension of a coroutine) and the object keeps the final store.  A call
that does not terminate has no successor state — the points it reaches are still
covered by `HistReach`.
-/
inductive HistRun (Γ : FMethod → Ctx) : Obj → List (FMethod × List Int) → Obj → Prop
  | done {o} : HistRun Γ o [] o
  | skipped {o m vals h o'} : o.disabled = true → HistRun Γ o h o' →
      HistRun Γ o ((m, vals) :: h) o'
  | refused {o m vals h o'} : o.disabled = false → argsOk m.params vals = false →
      HistRun Γ ⟨o.env, true⟩ h o' → HistRun Γ o ((m, vals) :: h) o'
  | ran {o m vals h o' env0 out} : o.disabled = false → argsOk m.params vals = true →
      EntryEnv (Γ m) m vals o.env env0 → Exec (Γ m) env0 m.body out →
      HistRun Γ ⟨Out.env out, false⟩ h o' → HistRun Γ o ((m, vals) :: h) o'

/-- a program point reached during a history: after the completed calls `pre`, inside
the call `m(vals)`, execution is about to run `s'` in the store `env'`, where the checker
(inside the loops `L'`) holds the situation `fs'` -/
def HistReach (Γ : FMethod → Ctx) (o : Obj) (hist : List (FMethod × List Int)) (m : FMethod)
    (L' : List LoopSpec) (fs' : List Expr) (env' : Env) (s' : FStmt) : Prop :=
  ∃ pre vals post o1 env0, hist = pre ++ (m, vals) :: post ∧ HistRun Γ o pre o1 ∧
    o1.disabled = false ∧ argsOk m.params vals = true ∧ EntryEnv (Γ m) m vals o1.env env0 ∧
    Reach (Γ m) [] [] env0 m.body L' fs' env' s'

theorem entry_envOk {ΓF Γ : Ctx} {m : FMethod} {vals : List Int} {env env0 : Env}
    (hm : FMethodOk ΓF Γ m) (hf : FieldsOk ΓF env) (hn : argsNat m.params vals)
    (ho : argsOk m.params vals = true) (he : EntryEnv Γ m vals env env0) : EnvOk Γ env0 := by
  obtain ⟨envL, hfl, hloc, rfl⟩ := he
  refine bindArgs_envOk m.params vals envL ?_ hm.params hn ho
  intro key
  cases hk : isThisName key.name with
  | true => rw [hm.fields _ hk, hfl key hk]; exact hf key hk
  | false => exact hloc key hk

theorem fieldsOk_of_envOk {ΓF Γ : Ctx} {env : Env} (hfld : ∀ n, isThisName n = true → Γ n = ΓF n)
    (he : EnvOk Γ env) : FieldsOk ΓF env := by
  intro key hk
  rw [← hfld _ hk]
  exact he key

/-- the declared types of the fields are preserved by every history of accepted methods -/
theorem hist_fields {ΓF : Ctx} {Γ : FMethod → Ctx} {o o' : Obj} {hist : List (FMethod × List Int)}
    (hr : HistRun Γ o hist o') :
    FieldsOk ΓF o.env → (∀ c ∈ hist, FMethodOk ΓF (Γ c.1) c.1 ∧ argsNat c.1.params c.2) →
      FieldsOk ΓF o'.env := by
  induction hr with
  | done => intro hf _; exact hf
  | skipped _ _ ih => intro hf hall; exact ih hf (fun c hc => hall c (List.mem_cons_of_mem _ hc))
  | refused _ _ _ ih => intro hf hall; exact ih hf (fun c hc => hall c (List.mem_cons_of_mem _ hc))
  | @ran o m vals h o' env0 out _ hok hent hx _ ih =>
    intro hf hall
    obtain ⟨hm, hn⟩ := hall (m, vals) List.mem_cons_self
    have he0 := entry_envOk hm hf hn hok hent
    cases hq : checkS [] [] m.body with
    | none => have := hm.accepted; simp [hq] at this
    | some fs1 =>
      have hout := exec_sound m.body [] [] fs1 env0 out hm.wtBody (fun _ h => by cases h) hq
        (situation_nil he0) hx
      exact ih (fieldsOk_of_envOk hm.fields (outOK_envOk hout))
        (fun c hc => hall c (List.mem_cons_of_mem _ hc))

/--
**hist_point_safe**: at every program point reached during ANY history of public calls
of accepted methods, with ANY argument values of the parameters' C types, no monitor
trips and the checker's situation holds.
-/
theorem hist_point_safe {ΓF : Ctx} {Γ : FMethod → Ctx} {o : Obj} {hist : List (FMethod × List Int)}
    {m : FMethod} {L' : List LoopSpec} {fs' : List Expr} {env' : Env} {s' : FStmt}
    (hf : FieldsOk ΓF o.env)
    (hall : ∀ c ∈ hist, FMethodOk ΓF (Γ c.1) c.1 ∧ argsNat c.1.params c.2)
    (hr : HistReach Γ o hist m L' fs' env' s') :
    PointSafe (Γ m) L' fs' env' s' ∧ Situation (Γ m) env' fs' := by
  obtain ⟨pre, vals, post, o1, env0, rfl, hrun, _, hok, hent, hreach⟩ := hr
  have hf1 : FieldsOk ΓF o1.env :=
    hist_fields hrun hf (fun c hc => hall c (List.mem_append_left _ hc))
  obtain ⟨hm, hn⟩ := hall (m, vals) (List.mem_append_right _ List.mem_cons_self)
  have he0 := entry_envOk hm hf1 hn hok hent
  exact point_safe hm.wtBody hm.argsWt (fun _ h => by cases h) hm.accepted (situation_nil he0) hreach

/-! ## straight-line blocks are a special case -/

/-- a straight-line block of (op-)assignments (C01's statement layer) as a flow statement -/
def blockStmt : List Stmt → FStmt
  | [] => .skip
  | s :: ss => .seq (.base s) (blockStmt ss)

theorem checkS_block (L : List LoopSpec) :
    ∀ (ss : List Stmt) (fs : List Expr), checkS L fs (blockStmt ss) = checkBlock fs ss := by
  intro ss
  induction ss with
  | nil => intro fs; rfl
  | cons s ss ih =>
    intro fs
    simp only [blockStmt, checkS, checkBlock]
    cases checkStmt fs s with
    | none => rfl
    | some fs1 => simp [FStmt.endsFlow, ih]

theorem exec_block {Γ : Ctx} :
    ∀ (ss : List Stmt) (env : Env), Exec Γ env (blockStmt ss) (.norm (runBlock env ss))
  | [], _ => .skip
  | _ :: ss, _ => .seqN .base (exec_block ss _)

/-- every statement of a straight-line block is a `Reach` point of the block, in the
store `runBlock` computes and with the situation `checkBlock` computes -/
theorem reach_block {Γ : Ctx} {L : List LoopSpec} :
    ∀ (pre : List Stmt) (fs : List Expr) (env : Env) (fs1 : List Expr) (s : Stmt) (post : List Stmt),
      checkBlock fs pre = some fs1 →
      Reach Γ L fs env (blockStmt (pre ++ s :: post)) L fs1 (runBlock env pre) (.base s) := by
  intro pre
  induction pre with
  | nil =>
    intro fs env fs1 s post h
    simp only [checkBlock, Option.some.injEq] at h
    subst h
    exact .seqL .here
  | cons p pre ih =>
    intro fs env fs1 s post h
    simp only [checkBlock] at h
    cases hp : checkStmt fs p with
    | none => simp [hp] at h
    | some f =>
      simp only [hp] at h
      exact .seqR (by simpa [checkS] using hp) .base (ih f _ fs1 s post h)

end WuffsVerif.Proof.FlowSafe
