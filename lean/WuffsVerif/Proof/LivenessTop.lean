/-
C05 — soundness of the liveness analysis: the mutual induction over statements and blocks, and
the function-level statement about `findVars`.
-/
import WuffsVerif.Proof.LivenessMain

namespace WuffsVerif.Liveness
variable {n : Nat}

/-- Statements after which `doBlock` stops (`break loop`). -/
def Stmt.isTerminal : Stmt → Bool
  | .jump _ _ => true
  | .ret false _ => true
  | _ => false

theorem doBlock_cons (r : Lv n) (σ : St n) (s : Stmt) (rest : List Stmt) :
    doBlock r σ (s :: rest) =
      if s.isTerminal then doStmt r σ s else doBlock (doStmt r σ s).1 (doStmt r σ s).2 rest := by
  cases s with
  | ret y e => cases y <;> simp [doBlock, doStmt, Stmt.isTerminal]
  | _ => simp [doBlock, doStmt, Stmt.isTerminal]

theorem terminal_not_norm (s : Stmt) (h : s.isTerminal = true) (es : List Ev) :
    ¬ stmtPaths s es Out.norm := by
  cases s with
  | jump b k => cases b <;> simp [stmtPaths]
  | ret y e => cases y <;> simp_all [stmtPaths, Stmt.isTerminal]
  | _ => simp [Stmt.isTerminal] at h

theorem Sound.orStop {v : Nat} {P : List Ev → Out → Prop} {r r' : Lv n} {σ σ' : St n}
    (h : Sound v P r σ r' σ') :
    Sound v (fun es o => (es = [] ∧ o = Out.stop) ∨ P es o) r σ r' σ' := by
  refine ⟨h.mono, h.sticky, ?_⟩
  rintro t es o (⟨rfl, rfl⟩ | hp) ht
  · exact Post.stop v _ _ t
  · exact h.post t es o hp ht

theorem nil_sound (v : Nat) (r : Lv n) (σ : St n) : Sound v (blockPaths []) r σ r σ := by
  refine ⟨St.le_refl v σ, Or.inl, ?_⟩
  intro t es o hp ht
  simp only [blockPaths] at hp
  obtain ⟨rfl, ho⟩ := hp
  refine ⟨fun h => by simp at h, fun _ x hx => ?_⟩
  rcases ho with rfl | rfl
  · simp only [target, Option.some.injEq] at hx; subst hx; exact ht
  · simp [target] at hx

theorem doExprOpt_strong (r : Lv n) (oe : Option Ex) (v : Nat) (hv : v < n)
    (hs : r.get v = Lness.strong) : (doExprOpt r oe).get v = Lness.strong := by
  cases oe with
  | none => exact hs
  | some e => exact doExpr_strong r e v hv hs

mutual
theorem stmt_sound (v : Nat) (hv : v < n) : (s : Stmt) → ∀ (r : Lv n) (σ : St n),
    Sound v (stmtPaths s) r σ (doStmt r σ s).1 (doStmt r σ s).2
  | .assign op lhs rhs, r, σ => by
    simp only [doStmt]
    apply Sound.of_seg
    · intro es o hp
      simp only [stmtPaths] at hp
      exact ⟨hp.1, Seg.assign v r hv op lhs rhs hp.2⟩
    · intro hs
      -- any path gives stickiness; the assignment always has one
      unfold doAssign
      have h1 : (if op = AOp.eqQuestion then doExpr1 r rhs false else doExpr r rhs).get v = Lness.strong := by
        by_cases hq : op = AOp.eqQuestion
        · simp only [hq, ↓reduceIte, doExpr1_get _ _ _ _ hv]
          have := le_expr1T rhs false v (r.get v)
          generalize expr1T rhs false v (r.get v) = x at this
          rw [hs] at this
          exact Lness.strong_le this
        · simp only [hq, ↓reduceIte]
          exact doExpr_strong r rhs v hv hs
      generalize (if op = AOp.eqQuestion then doExpr1 r rhs false else doExpr r rhs) = r1 at h1
      cases lhs with
      | none => exact h1
      | expr e => exact doExpr_strong r1 e v hv h1
      | var i =>
        simp only
        rw [get_lowerWeakToNone _ _ _ hv]
        have h2 : (if op ≠ AOp.eq ∧ op ≠ AOp.eqQuestion then doExpr r1 ⟨false, false, [i], 0⟩ else r1).get v = Lness.strong := by
          by_cases hop : op ≠ AOp.eq ∧ op ≠ AOp.eqQuestion
          · simp only [hop, and_self, ↓reduceIte, ne_eq, not_false_eq_true]
            exact doExpr_strong r1 _ v hv h1
          · simp only [hop, ↓reduceIte]; exact h1
        rw [h2]
        by_cases hi : i = v <;> simp [hi, Lness.lowerWeakToNone]
  | .expr e, r, σ => by
    simp only [doStmt]
    apply Sound.of_seg
    · intro es o hp
      simp only [stmtPaths] at hp
      exact ⟨hp.1, Seg.doExpr v r hv e hp.2⟩
    · exact doExpr_strong r e v hv
  | .iomanip io a1 hp body, r, σ => by
    simp only [doStmt]
    have ih := block_sound v hv body (doExprOpt (doExprOpt (doExpr r io) a1) hp) σ
    have := Sound.prefix (r0 := r)
      (pre := fun es => ∃ e1 e2 e3, ExprPath io e1 ∧ OptExprPath a1 e2 ∧ OptExprPath hp e3 ∧ es = e1 ++ e2 ++ e3)
      (by
        rintro es ⟨e1, e2, e3, h1, h2, h3, rfl⟩
        exact ((Seg.doExpr v r hv io h1).append (Seg.exprOpt v _ hv a1 h2)).append (Seg.exprOpt v _ hv hp h3))
      (fun hs => doExprOpt_strong _ hp v hv (doExprOpt_strong _ a1 v hv (doExpr_strong r io v hv hs)))
      ih
    refine this.sub ?_
    intro es o hpaths
    simp only [stmtPaths] at hpaths
    obtain ⟨e1, e2, e3, e4, h1, h2, h3, h4, rfl⟩ := hpaths
    exact ⟨e1 ++ e2 ++ e3, e4, ⟨e1, e2, e3, h1, h2, h3, rfl⟩, h4, rfl⟩
  | .ite c thn els, r, σ => by
    simp only [doStmt]
    have ih1 := block_sound v hv thn (doExpr r c) σ
    have ih2 := block_sound v hv els (doExpr r c) (doBlock (doExpr r c) σ thn).2
    have := Sound.prefix (r0 := r) (pre := ExprPath c)
      (fun es h => Seg.doExpr v r hv c h) (doExpr_strong r c v hv) (branch_sound ih1 ih2)
    refine this.sub ?_
    intro es o hpaths
    simp only [stmtPaths] at hpaths
    obtain ⟨ce, be, h1, h2, rfl⟩ := hpaths
    exact ⟨ce, be, h1, h2, rfl⟩
  | .jump b k, r, σ => by
    simp only [doStmt]
    refine (jump_sound v r σ b k).sub ?_
    intro es o hp
    simpa [stmtPaths] using hp
  | .ret y e, r, σ => by
    simp only [doStmt]
    exact ret_sound v hv r σ y e
  | .var i, r, σ => by
    simp only [doStmt]
    apply Sound.of_seg
    · intro es o hp
      simp only [stmtPaths] at hp
      obtain ⟨rfl, rfl⟩ := hp
      refine ⟨rfl, ?_⟩
      rw [get_lowerWeakToNone _ _ _ hv]
      exact Seg.write v i _
    · intro hs
      rw [get_lowerWeakToNone _ _ _ hv, hs]
      by_cases hi : i = v <;> simp [hi, Lness.lowerWeakToNone]
  | .while wt c body, r, σ => by
    rw [doStmt.eq_8]
    have := while_sound v hv wt c (blockPaths body) (fun r σ => doBlock r σ body)
      (fun r σ => block_sound v hv body r σ) r σ
    refine this.sub ?_
    intro es o hp
    simpa [stmtPaths] using hp

theorem block_sound (v : Nat) (hv : v < n) : (b : List Stmt) → ∀ (r : Lv n) (σ : St n),
    Sound v (blockPaths b) r σ (doBlock r σ b).1 (doBlock r σ b).2
  | [], r, σ => by
    simp only [doBlock]
    exact nil_sound v r σ
  | s :: rest, r, σ => by
    rw [doBlock_cons]
    have ihs := stmt_sound v hv s r σ
    by_cases ht : s.isTerminal = true
    · simp only [ht, ↓reduceIte]
      refine ihs.orStop.sub ?_
      intro es o hp
      simp only [blockPaths] at hp
      rcases hp with h | ⟨e1, e2, h1, _, _⟩ | ⟨h, _⟩
      · exact Or.inl h
      · exact absurd h1 (terminal_not_norm s ht e1)
      · exact Or.inr h
    · simp only [ht, Bool.false_eq_true, ↓reduceIte]
      have ihr := block_sound v hv rest (doStmt r σ s).1 (doStmt r σ s).2
      refine (ihs.seq ihr).orStop.sub ?_
      intro es o hp
      simp only [blockPaths] at hp
      rcases hp with h | h | h
      · exact Or.inl h
      · exact Or.inr (Or.inl h)
      · exact Or.inr (Or.inr h)
end

/-! ### the function-level statement -/

/-- If `findVars` leaves `v` non-strong, no path through the body has a stale read of `v`. -/
theorem findVars_sound (n : Nat) (body : List Stmt) (v : Nat) (hv : v < n)
    (h : (findVars n body).get v ≠ Lness.strong) (es : List Ev) (o : Out)
    (hp : blockPaths body es o) : viol v false es = false := by
  have S := block_sound v hv body (Lv.clear : Lv n) ⟨[], Lv.clear⟩
  cases hvi : viol v false es
  · rfl
  · exfalso
    apply h
    have hl : (doBlock (Lv.clear : Lv n) ⟨[], Lv.clear⟩ body).2.loops = [] := by
      have := S.mono.1
      generalize (doBlock (Lv.clear : Lv n) ⟨[], Lv.clear⟩ body).2.loops = l at this
      cases this
      rfl
    have := (S.post false es o hp (G.of_false _)).1 hvi
    unfold findVars
    simp only [Lv.get_reconcile]
    rcases this with h1 | h1 | ⟨l, hl', _⟩
    · rw [h1, Lness.join_strong_right]
    · rw [h1, Lness.join_strong_left]
    · rw [hl] at hl'; cases hl'

private theorem susp_split_cons (v : Nat) (e : Ev) (es : List Ev) :
    (∃ a b, e :: es = a ++ Ev.susp :: b ∧ Ev.wr v ∉ b) ↔
      (e = Ev.susp ∧ Ev.wr v ∉ es) ∨ (∃ a b, es = a ++ Ev.susp :: b ∧ Ev.wr v ∉ b) := by
  constructor
  · rintro ⟨a, b, h, hb⟩
    cases a with
    | nil =>
      simp only [List.nil_append, List.cons.injEq] at h
      obtain ⟨rfl, rfl⟩ := h
      exact Or.inl ⟨rfl, hb⟩
    | cons x a =>
      simp only [List.cons_append, List.cons.injEq] at h
      exact Or.inr ⟨a, b, h.2, hb⟩
  · rintro (⟨rfl, hb⟩ | ⟨a, b, rfl, hb⟩)
    · exact ⟨[], es, rfl, hb⟩
    · exact ⟨e :: a, b, rfl, hb⟩

/-- `taintAfter … = true` says: some suspension is followed by no write of `v` (or the
variable was dirty to begin with and is never written). -/
theorem taint_spec (v : Nat) : ∀ (es : List Ev) (d : Bool),
    taintAfter v d es = true ↔
      (d = true ∧ Ev.wr v ∉ es) ∨ ∃ a b, es = a ++ Ev.susp :: b ∧ Ev.wr v ∉ b
  | [], d => by simp
  | e :: es, d => by
    have ih := taint_spec v es (e.taint v d)
    simp only [taintAfter, List.foldl_cons] at ih ⊢
    rw [ih, susp_split_cons]
    cases e with
    | rd w => simp [Ev.taint]
    | susp =>
      simp only [Ev.taint, true_and, List.mem_cons, reduceCtorEq, false_or]
      constructor
      · rintro (h | h)
        · exact Or.inr (Or.inl h)
        · exact Or.inr (Or.inr h)
      · rintro (⟨_, h⟩ | h | h)
        · exact Or.inl h
        · exact Or.inl h
        · exact Or.inr h
    | wr w =>
      by_cases hw : w = v
      · subst hw
        simp [Ev.taint]
      · have hne : ¬ v = w := fun h => hw h.symm
        simp [Ev.taint, hw, hne]

/-- `viol … = true` says: some read of `v` happens while dirty. -/
theorem viol_spec (v : Nat) : ∀ (es : List Ev) (d : Bool),
    viol v d es = true ↔ ∃ pre post, es = pre ++ Ev.rd v :: post ∧ taintAfter v d pre = true
  | [], d => by simp [viol]
  | e :: es, d => by
    simp only [viol, Bool.or_eq_true, viol_spec v es]
    constructor
    · rintro (h | ⟨pre, post, rfl, ht⟩)
      · cases e with
        | rd w =>
          simp only [Ev.stale, Bool.and_eq_true, beq_iff_eq] at h
          obtain ⟨rfl, rfl⟩ := h
          exact ⟨[], es, rfl, rfl⟩
        | wr w => simp [Ev.stale] at h
        | susp => simp [Ev.stale] at h
      · exact ⟨e :: pre, post, rfl, by simpa [taintAfter] using ht⟩
    · rintro ⟨pre, post, heq, ht⟩
      cases pre with
      | nil =>
        simp only [List.nil_append, List.cons.injEq] at heq
        obtain ⟨rfl, rfl⟩ := heq
        left
        simpa [Ev.stale] using ht
      | cons x pre =>
        simp only [List.cons_append, List.cons.injEq] at heq
        obtain ⟨rfl, rfl⟩ := heq
        right
        exact ⟨pre, post, rfl, by simpa [taintAfter] using ht⟩

end WuffsVerif.Liveness
