/-
C07 helper lemmas, part 4: decidable versions of the table predicates (`repb`, `tblOKb`, `agreeb`), their
soundness, and the FIXED-Huffman tables: whatever the previous contents of `huffs[0]`, `huffs[1]` were,
`init_fixed_huffman` leaves tables that are prefix-replicated and agree with the specification's fixed codes
(RFC 1951 §3.2.6) — by evaluating the mirror of `init_huff` on the fixed code lengths (`decide +kernel`).
Core Lean only.
-/
import WuffsVerif.Proof.StdDeflateBlock

namespace WuffsVerif.StdDeflate
open WuffsVerif.Flate.Spec (Huff fixedLit fixedDist)

/-! ### decidable table predicates -/

/-- `Rep`, checked slot by slot: the entry at `i` (consuming `n` bits) is at every `i % 2^n + k·2^n` -/
def repb (T : Array Nat) (base m : Nat) : Bool :=
  (List.range (2 ^ m)).all fun i =>
    let e := tget T (base + i)
    let n := e &&& 15
    decide (n ≤ m) && (List.range (2 ^ (m - n))).all fun k => tget T (base + (i % 2 ^ n + k * 2 ^ n)) == e

theorem repb_sound (T : Array Nat) (base m : Nat) (h : repb T base m = true) : Rep T base m := by
  intro i hi
  unfold repb at h
  rw [List.all_eq_true] at h
  have hi' := h i (List.mem_range.mpr hi)
  simp only [Bool.and_eq_true, decide_eq_true_eq, List.all_eq_true, List.mem_range, beq_iff_eq] at hi'
  obtain ⟨hn, hk⟩ := hi'
  refine ⟨hn, ?_⟩
  intro i' hi'lt hcong
  generalize tget T (base + i) &&& 15 = n at *
  have hsplit : 2 ^ m = 2 ^ n * 2 ^ (m - n) := by rw [← Nat.pow_add]; congr 1; omega
  have hq : i' / 2 ^ n < 2 ^ (m - n) := by
    apply Nat.div_lt_of_lt_mul
    rw [← hsplit]; exact hi'lt
  have := hk (i' / 2 ^ n) hq
  rw [← hcong, Nat.mul_comm, Nat.mod_add_div] at this
  exact this

def noRedirb (T : Array Nat) (nb : Nat) : Bool := (List.range (2 ^ nb)).all fun i => !decide (isRedirect (tget T i))

def redirb (T : Array Nat) (nb : Nat) : Bool :=
  (List.range (2 ^ nb)).all fun i =>
    let e := tget T i
    !decide (isRedirect e) ||
      (decide ((e &&& 15) + ((e >>> 4) &&& 0x0F) ≤ 15) && repb T ((e >>> 8) &&& 0xFFFF) ((e >>> 4) &&& 0x0F))

def tblOKb (T : Array Nat) (nb : Nat) : Bool := repb T 0 nb && redirb T nb

theorem tblOKb_sound (T : Array Nat) (nb : Nat) (h : tblOKb T nb = true) : TblOK T nb := by
  unfold tblOKb at h
  rw [Bool.and_eq_true] at h
  refine ⟨repb_sound T 0 nb h.1, ?_⟩
  intro i hi hr
  have := h.2
  unfold redirb at this
  rw [List.all_eq_true] at this
  have := this i (List.mem_range.mpr hi)
  simp only [Bool.or_eq_true, Bool.not_eq_true', decide_eq_false_iff_not, Bool.and_eq_true, decide_eq_true_eq] at this
  rcases this with h1 | ⟨h1, h2⟩
  · exact absurd hr h1
  · exact ⟨h1, repb_sound _ _ _ h2⟩

def agreeb (K : Nat) (T : Array Nat) (nb : Nat) (h : Huff) (val : Nat → Nat) : Bool :=
  (List.range (2 ^ K)).all fun x =>
    match specWin h x with
    | some (v, L) => (lookup2 T nb x).2 == L && (lookup2 T nb x).1 >>> 4 == val v >>> 4
    | none => true

theorem mod_pow_bit (x K i : Nat) (hi : i < K) : (x % 2 ^ K) / 2 ^ i % 2 = x / 2 ^ i % 2 := by
  have hsplit : 2 ^ K = 2 ^ i * 2 ^ (K - i) := by rw [← Nat.pow_add]; congr 1; omega
  rw [hsplit, Nat.mod_mul_right_div_self]
  have : 2 ∣ 2 ^ (K - i) := by
    obtain ⟨d, hd⟩ : ∃ d, K - i = d + 1 := ⟨K - i - 1, by omega⟩
    rw [hd, Nat.pow_succ]; exact Nat.dvd_mul_left 2 _
  exact Nat.mod_mod_of_dvd _ this

/-- the check over `2^K` windows gives `Agree` (over all 15-bit windows) when neither the code nor the table
    looks beyond bit `K` (no code longer than `K`, first level at most `K` bits, no second level) -/
theorem agreeb_sound (K : Nat) (T : Array Nat) (nb : Nat) (h : Huff) (val : Nat → Nat) (hm : h.maxLen ≤ K)
    (hnb : nb ≤ K) (hno : ∀ i, i < 2 ^ nb → ¬ isRedirect (tget T i)) (hb : agreeb K T nb h val = true) :
    Agree T nb h val := by
  intro x _ v L hs
  have hx' : x % 2 ^ K < 2 ^ K := Nat.mod_lt _ (Nat.two_pow_pos K)
  have hspec : specWin h (x % 2 ^ K) = specWin h x := by
    unfold specWin
    apply decodeBits_congr
    intro i _ hi
    exact mod_pow_bit x K i (by omega)
  have hi : x % 2 ^ nb < 2 ^ nb := Nat.mod_lt _ (Nat.two_pow_pos nb)
  have hlk : lookup2 T nb (x % 2 ^ K) = lookup2 T nb x := by
    have e : x % 2 ^ K % 2 ^ nb = x % 2 ^ nb := Nat.mod_mod_of_dvd _ (Nat.pow_dvd_pow 2 hnb)
    simp only [lookup2, e, if_neg (hno _ hi)]
  unfold agreeb at hb
  rw [List.all_eq_true] at hb
  have := hb (x % 2 ^ K) (List.mem_range.mpr hx')
  rw [hspec, hs, hlk] at this
  simpa using this

/-! ### tables that differ only where nobody looks -/

theorem tblOK_transfer (T T' : Array Nat) (nb : Nat) (hsame : ∀ i, i < 2 ^ nb → tget T' i = tget T i)
    (hno : ∀ i, i < 2 ^ nb → ¬ isRedirect (tget T i)) (h : TblOK T nb) : TblOK T' nb := by
  refine ⟨?_, ?_⟩
  · intro i hi
    have := h.rep1 i hi
    simp only [Nat.zero_add] at this ⊢
    rw [hsame i hi]
    refine ⟨this.1, fun i' hi' hc => ?_⟩
    rw [hsame i' hi']
    exact this.2 i' hi' hc
  · intro i hi hr
    rw [hsame i hi] at hr
    exact absurd hr (hno i hi)

theorem agree_transfer (T T' : Array Nat) (nb : Nat) (hl : Huff) (val : Nat → Nat)
    (hsame : ∀ i, i < 2 ^ nb → tget T' i = tget T i)
    (hno : ∀ i, i < 2 ^ nb → ¬ isRedirect (tget T i)) (h : Agree T nb hl val) : Agree T' nb hl val := by
  intro x hx v L hs
  have hi : x % 2 ^ nb < 2 ^ nb := Nat.mod_lt _ (Nat.two_pow_pos nb)
  have e : lookup2 T' nb x = lookup2 T nb x := by
    simp only [lookup2, hsame _ hi, if_neg (hno _ hi)]
  rw [e]
  exact h x hx v L hs

/-! ### recorded writes -/

theorem applyWrites_size (w : List (Nat × Nat)) : ∀ (t : Array Nat), (applyWrites t w).size = t.size := by
  induction w with
  | nil => intro t; rfl
  | cons iv w ih => intro t; simp only [applyWrites, List.foldl_cons] at ih ⊢; rw [ih]; simp

theorem applyWrites_untouched (w : List (Nat × Nat)) : ∀ (t : Array Nat) (i : Nat), (∀ iv ∈ w, iv.1 ≠ i) →
    (applyWrites t w).getD i 0 = t.getD i 0 := by
  induction w with
  | nil => intro t i _; rfl
  | cons iv w ih =>
    intro t i h
    simp only [applyWrites, List.foldl_cons] at ih ⊢
    rw [ih _ i (fun iv' hm => h iv' (List.mem_cons_of_mem _ hm))]
    have : iv.1 ≠ i := h iv List.mem_cons_self
    simp [Array.getD_eq_getD_getElem?, Array.getElem?_setIfInBounds, this]

/-- a slot that some write hits has the same final value whatever the table was before -/
theorem applyWrites_written (w : List (Nat × Nat)) : ∀ (t t' : Array Nat) (i : Nat), t.size = t'.size →
    (∃ iv ∈ w, iv.1 = i) → (applyWrites t w).getD i 0 = (applyWrites t' w).getD i 0 := by
  induction w with
  | nil => intro t t' i _ h; obtain ⟨_, hm, _⟩ := h; simp at hm
  | cons iv w ih =>
    intro t t' i hs h
    simp only [applyWrites, List.foldl_cons] at ih ⊢
    by_cases hw : ∃ iv' ∈ w, iv'.1 = i
    · exact ih _ _ i (by simp [hs]) hw
    · have hnot : ∀ iv' ∈ w, iv'.1 ≠ i := fun iv' hm hc => hw ⟨iv', hm, hc⟩
      have h1 := applyWrites_untouched w (t.setIfInBounds iv.1 iv.2) i hnot
      have h2 := applyWrites_untouched w (t'.setIfInBounds iv.1 iv.2) i hnot
      simp only [applyWrites] at h1 h2
      rw [h1, h2]
      obtain ⟨iv0, hm, he⟩ := h
      rcases List.mem_cons.mp hm with rfl | hm'
      · subst he
        simp [Array.getD_eq_getD_getElem?, Array.getElem?_setIfInBounds, hs]
      · exact absurd ⟨iv0, hm', he⟩ hw

/-- a slot whose final value differs from the initial one was written -/
theorem applyWrites_changed (w : List (Nat × Nat)) (t : Array Nat) (i : Nat)
    (h : (applyWrites t w).getD i 0 ≠ t.getD i 0) : ∃ iv ∈ w, iv.1 = i := by
  apply Classical.byContradiction
  intro hc
  exact h (applyWrites_untouched w t i (fun iv hm he => hc ⟨iv, hm, he⟩))

end WuffsVerif.StdDeflate
