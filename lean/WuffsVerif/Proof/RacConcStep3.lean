/-
C14 helper: every transition of Model/Rac/Conc.lean preserves `CInv`.
Part 3: the stop / recycle / ack handshake of stopAnyWorkInProgress, and the
collected `step_inv`.
-/
import WuffsVerif.Proof.RacConcStep2

set_option linter.unusedVariables false
set_option linter.unusedSimpArgs false

namespace WuffsVerif.Rac.Conc

theorem isStopped_run : PPc.isStopped .run = false := rfl
theorem isStopped_done : PPc.isStopped .done = false := rfl
theorem isStopped_stopped (b : Bool) : PPc.isStopped (.stopped b) = true := rfl

theorem inv_stopMgr {s s' : St} (h : CInv s) (hs : step s .stopMgr = some s') : CInv s' := by
  obtain ⟨rep, e1, e2, e3, e4, e5, e6, e7, buf, fr, ph⟩ := h
  simp only [step] at hs
  split at hs
  · next k keep hm =>
    split at hs
    · next hg =>
      obtain ⟨hk, hrun⟩ := hg
      cases hs
      simp only [PhaseInv, hm] at ph
      obtain ⟨p1, p2, p3, p4, p5⟩ := ph
      refine { rep := rep, ep_reqc := e1, ep_resc := e2, ep_comp := e3, ep_curr := e4, ep_mwork := e5,
               ep_mroi := e6, ep_w := e7, buf := buf, fresh := ?_, phase := ?_ }
      · intro h; obtain ⟨q1, q2⟩ := fr h; exact ⟨q1, q2⟩
      · simp only [PhaseInv]
        refine ⟨by omega, ?_, p3, (by simp), p5⟩
        simp only [stoppedCount, hrun, isStopped_run, isStopped_stopped] at p2 ⊢
        simp only [Bool.false_eq_true, ↓reduceIte] at p2 ⊢
        omega
    · cases hs
  · cases hs

theorem inv_stopW {s s' : St} (i : Nat) (h : CInv s) (hs : step s (.stopW i) = some s') : CInv s' := by
  obtain ⟨rep, e1, e2, e3, e4, e5, e6, e7, buf, fr, ph⟩ := h
  simp only [step] at hs
  split at hs
  · next k keep w hm hi =>
    split at hs
    · next hg =>
      obtain ⟨hk, hrun⟩ := hg
      cases hs
      simp only [PhaseInv, hm] at ph
      obtain ⟨p1, p2, p3, p4, p5⟩ := ph
      refine { rep := rep, ep_reqc := e1, ep_resc := e2, ep_comp := e3, ep_curr := e4, ep_mwork := e5,
               ep_mroi := e6, ep_w := forall_set e7 (e7 i w hi), buf := forall_set buf (buf i w hi),
               fresh := ?_, phase := ?_ }
      · intro h
        obtain ⟨q1, q2, q3⟩ := fr h
        exact ⟨q1, forall_set q2 (q2 i w hi), q3⟩
      · simp only [PhaseInv, List.length_set]
        refine ⟨by omega, ?_, p3, p4, forall_set p5 (by simp)⟩
        have := countP_set' (w' := { w with pc := PPc.stopped keep }) (fun w => w.pc.isStopped) hi
        simp only [hrun, isStopped_run, isStopped_stopped] at this
        simp only [stoppedCount] at p2 ⊢
        simp only [Bool.false_eq_true, ↓reduceIte] at this
        omega
    · cases hs
  · cases hs

/-- after `N + 1` stops every process is blocked on `ackc` -/
theorem all_stopped {s : St} {keep : Bool} (hc : stoppedCount s = s.ws.length + 1)
    (hm : s.mgr.pc = .run ∨ s.mgr.pc = .stopped keep)
    (hw : ∀ (i : Nat) (w : W), s.ws[i]? = some w → w.pc = .run ∨ w.pc = .stopped keep) :
    s.mgr.pc = .stopped keep ∧ ∀ (i : Nat) (w : W), s.ws[i]? = some w → w.pc = .stopped keep := by
  have hle := countP_le_length' s.ws
  unfold stoppedCount at hc
  have hmgr : s.mgr.pc = .stopped keep := by
    rcases hm with h | h
    · rw [h, isStopped_run] at hc
      simp only [Bool.false_eq_true, ↓reduceIte] at hc
      omega
    · exact h
  refine ⟨hmgr, ?_⟩
  have hcnt : s.ws.countP (fun w => w.pc.isStopped) = s.ws.length := by
    split at hc <;> omega
  intro i w hi
  have := all_stopped_of_count hcnt i w hi
  rcases hw i w hi with h | h
  · rw [h, isStopped_run] at this; cases this
  · exact h

theorem inv_recycle {s s' : St} (h : CInv s) (hs : step s .recycle = some s') : CInv s' := by
  obtain ⟨rep, e1, e2, e3, e4, e5, e6, e7, buf, fr, ph⟩ := h
  simp only [step] at hs
  split at hs
  · next k keep hm =>
    split at hs
    · next hk =>
      simp only [PhaseInv, hm] at ph
      obtain ⟨p1, p2, p3, p4, p5⟩ := ph
      obtain ⟨hmgr, hws⟩ := all_stopped (by rw [p2, hk]) p4 p5
      cases keep with
      | true =>
        simp only [↓reduceIte, Option.some.injEq] at hs
        subst hs
        have hget : ∀ (i : Nat) (w' : W), (recycleAll s)[i]? = some w' → ∃ w, s.ws[i]? = some w ∧
            w' = { w with recyc := w.recyc + countOwner i s.resc + countOwner i s.completed + ownerIs i s.curr } := by
          intro i w' hi
          rw [recycleAll_get] at hi
          cases hw : s.ws[i]? with
          | none => rw [hw] at hi; cases hi
          | some w => rw [hw] at hi; simp only [Option.map_some, Option.some.injEq] at hi; exact ⟨w, rfl, hi.symm⟩
        refine { rep := rep, ep_reqc := (by intro x hx; cases hx), ep_resc := (by intro x hx; cases hx),
                 ep_comp := (by intro x hx; cases hx), ep_curr := (by intro x hx; cases hx), ep_mwork := e5,
                 ep_mroi := e6, ep_w := ?_, buf := ?_, fresh := ?_, phase := ?_ }
        · intro i w' hi
          obtain ⟨w, hw, rfl⟩ := hget i w' hi
          exact e7 i w hw
        · intro i w' hi
          obtain ⟨w, hw, rfl⟩ := hget i w' hi
          have := buf i w hw
          simp only [countOwner, List.countP_nil, ownerIs] at this ⊢
          omega
        · intro h; rw [p3 rfl] at h; cases h
        · simp only [PhaseInv, recycleAll_length, ↓reduceIte]
          refine ⟨by omega, ?_, fun _ => p3 rfl, Or.inl hmgr, ?_, trivial, trivial, trivial, trivial⟩
          · have hall : (recycleAll s).countP (fun w => w.pc.isStopped) = (recycleAll s).length := by
              rw [List.countP_eq_length]
              intro w' hmem
              obtain ⟨i, hi⟩ := List.getElem?_of_mem hmem
              obtain ⟨w, hw, rfl⟩ := hget i w' hi
              simp only [hws i w hw, isStopped_stopped]
            simp only [stoppedCount, hmgr, isStopped_stopped, ↓reduceIte, hall, recycleAll_length]
            omega
          · intro i w' hi
            obtain ⟨w, hw, rfl⟩ := hget i w' hi
            exact Or.inl (hws i w hw)
      | false =>
        simp only [Bool.false_eq_true, ↓reduceIte, Option.some.injEq] at hs
        subst hs
        refine { rep := rep, ep_reqc := e1, ep_resc := e2, ep_comp := e3, ep_curr := e4, ep_mwork := e5,
                 ep_mroi := e6, ep_w := e7, buf := buf, fresh := fr, phase := ?_ }
        simp only [PhaseInv, Bool.false_eq_true, ↓reduceIte]
        refine ⟨by omega, ?_, (by simp), Or.inl hmgr, fun i w hi => Or.inl (hws i w hi)⟩
        simp only [stoppedCount] at p2 ⊢
        omega
    · cases hs
  · cases hs

theorem inv_ackMgr {s s' : St} (h : CInv s) (hs : step s .ackMgr = some s') : CInv s' := by
  obtain ⟨rep, e1, e2, e3, e4, e5, e6, e7, buf, fr, ph⟩ := h
  simp only [step] at hs
  split at hs
  · next k kk keep hm hpc =>
    split at hs
    · next hk =>
      cases hs
      simp only [PhaseInv, hm] at ph
      obtain ⟨p1, p2, p3, p4⟩ := ph
      have hsc : stoppedCount s = 1 + s.ws.countP (fun w => w.pc.isStopped) := by
        simp only [stoppedCount, hpc, isStopped_stopped, ↓reduceIte]
      cases kk with
      | true =>
        simp only [↓reduceIte] at p4
        obtain ⟨q1, q2, q3⟩ := p4
        have hkeep : keep = true := by
          rcases q1 with h | h
          · rw [hpc] at h; cases h; rfl
          · rw [hpc] at h; cases h.1
        subst hkeep
        have hres : s.mgr.resume s.repaired = ({ s.mgr with pc := PPc.run, inputOn := true, roi := none, work := none } : M) := by
          simp only [M.resume, rep, ↓reduceIte]
        simp only [↓reduceIte, hres]
        refine { rep := rep, ep_reqc := e1, ep_resc := e2, ep_comp := e3, ep_curr := e4,
                 ep_mwork := (by intro x hx; cases hx), ep_mroi := (by intro x hx; cases hx),
                 ep_w := e7, buf := buf, fresh := ?_, phase := ?_ }
        · intro h; rw [p3 rfl] at h; cases h
        · simp only [PhaseInv, ↓reduceIte]
          refine ⟨by omega, ?_, fun _ => p3 rfl, (by simp [M.quiet]), q2, q3⟩
          simp only [stoppedCount, isStopped_run, Bool.false_eq_true, ↓reduceIte]
          omega
      | false =>
        simp only [Bool.false_eq_true, ↓reduceIte] at p4
        obtain ⟨q1, q2⟩ := p4
        have hkeep : keep = false := by
          rcases q1 with h | h
          · rw [hpc] at h; cases h; rfl
          · rw [hpc] at h; cases h
        subst hkeep
        simp only [Bool.false_eq_true, ↓reduceIte]
        refine { rep := rep, ep_reqc := e1, ep_resc := e2, ep_comp := e3, ep_curr := e4, ep_mwork := e5,
                 ep_mroi := e6, ep_w := e7, buf := buf, fresh := ?_, phase := ?_ }
        · intro h; obtain ⟨r1, r2⟩ := fr h; exact ⟨r1, r2⟩
        · simp only [PhaseInv, Bool.false_eq_true, ↓reduceIte]
          refine ⟨by omega, ?_, (by simp), (by simp), q2⟩
          simp only [stoppedCount, isStopped_done, Bool.false_eq_true, ↓reduceIte]
          omega
    · cases hs
  · cases hs

theorem outIs_isSome (o : Option Item) : (if o.isSome = true then 1 else 0) = outIs o := by
  cases o <;> rfl

theorem inv_ackW {s s' : St} (i : Nat) (h : CInv s) (hs : step s (.ackW i) = some s') : CInv s' := by
  obtain ⟨rep, e1, e2, e3, e4, e5, e6, e7, buf, fr, ph⟩ := h
  simp only [step] at hs
  split at hs
  · next k kk w hm hi =>
    split at hs
    · next keep hpc =>
      split at hs
      · next hk =>
        cases hs
        simp only [PhaseInv, hm] at ph
        obtain ⟨p1, p2, p3, p4⟩ := ph
        cases kk with
        | true =>
          simp only [↓reduceIte] at p4
          obtain ⟨q1, q2, q3⟩ := p4
          have hkeep : keep = true := by
            rcases q2 i w hi with h | h
            · rw [hpc] at h; cases h; rfl
            · rw [hpc] at h; cases h.1
          subst hkeep
          have hres : w.resume s.repaired = ({ w with pc := PPc.run, dr := none, out := none, held := w.held + (if w.out.isSome = true then 1 else 0) } : W) := by
            simp only [W.resume, rep, ↓reduceIte]
          simp only [↓reduceIte, hres]
          refine { rep := rep, ep_reqc := e1, ep_resc := e2, ep_comp := e3, ep_curr := e4, ep_mwork := e5,
                   ep_mroi := e6, ep_w := ?_, buf := ?_, fresh := ?_, phase := ?_ }
          · refine forall_set e7 ⟨?_, ?_⟩
            · intro x hx; cases hx
            · intro x hx; cases hx
          · refine forall_set buf ?_
            have := buf i w hi
            have h0 : outIs (none : Option Item) = 0 := rfl
            simp only [outIs_isSome, h0]
            omega
          · intro h; rw [p3 rfl] at h; cases h
          · simp only [PhaseInv, ↓reduceIte, List.length_set]
            refine ⟨by omega, ?_, fun _ => p3 rfl, q1, forall_set q2 (by simp [W.quiet]), q3⟩
            have := countP_set' (w' := ({ w with pc := PPc.run, dr := none, out := none, held := w.held + (if w.out.isSome = true then 1 else 0) } : W)) (fun w => w.pc.isStopped) hi
            simp only [hpc, isStopped_run, isStopped_stopped, Bool.false_eq_true, ↓reduceIte] at this
            simp only [stoppedCount] at p2 ⊢
            omega
        | false =>
          simp only [Bool.false_eq_true, ↓reduceIte] at p4
          obtain ⟨q1, q2⟩ := p4
          have hkeep : keep = false := by
            rcases q2 i w hi with h | h
            · rw [hpc] at h; cases h; rfl
            · rw [hpc] at h; cases h
          subst hkeep
          simp only [Bool.false_eq_true, ↓reduceIte]
          refine { rep := rep, ep_reqc := e1, ep_resc := e2, ep_comp := e3, ep_curr := e4, ep_mwork := e5,
                   ep_mroi := e6, ep_w := forall_set e7 (e7 i w hi), buf := forall_set buf (buf i w hi),
                   fresh := ?_, phase := ?_ }
          · intro h
            obtain ⟨r1, r2, r3⟩ := fr h
            exact ⟨r1, forall_set r2 (r2 i w hi), r3⟩
          · simp only [PhaseInv, Bool.false_eq_true, ↓reduceIte, List.length_set]
            refine ⟨by omega, ?_, (by simp), q1, forall_set q2 (by simp)⟩
            have := countP_set' (w' := ({ w with pc := PPc.done } : W)) (fun w => w.pc.isStopped) hi
            simp only [hpc, isStopped_done, isStopped_stopped, Bool.false_eq_true, ↓reduceIte] at this
            simp only [stoppedCount] at p2 ⊢
            omega
      · cases hs
    · cases hs
  · cases hs

theorem none_stopped {s : St} (hc : stoppedCount s = 0) :
    s.mgr.pc.isStopped = false ∧ ∀ (i : Nat) (w : W), s.ws[i]? = some w → w.pc.isStopped = false := by
  unfold stoppedCount at hc
  constructor
  · cases h : s.mgr.pc.isStopped with
    | false => rfl
    | true => rw [h] at hc; simp at hc
  · have : s.ws.countP (fun w => w.pc.isStopped) = 0 := by omega
    rw [List.countP_eq_zero] at this
    intro i w hi
    have := this w (List.mem_of_getElem? hi)
    simpa using this

theorem inv_ackDone {s s' : St} (h : CInv s) (hs : step s .ackDone = some s') : CInv s' := by
  obtain ⟨rep, e1, e2, e3, e4, e5, e6, e7, buf, fr, ph⟩ := h
  simp only [step] at hs
  split at hs
  · next k keep hm =>
    split at hs
    · next hk =>
      simp only [PhaseInv, hm] at ph
      obtain ⟨p1, p2, p3, p4⟩ := ph
      obtain ⟨hmn, hwn⟩ := none_stopped (s := s) (by omega)
      cases keep with
      | true =>
        simp only [↓reduceIte, Option.some.injEq] at hs p4
        subst hs
        obtain ⟨q1, q2, q3, q4, q5, q6⟩ := p4
        have hmq : s.mgr.pc = .run ∧ s.mgr.quiet := by
          rcases q1 with h | h
          · rw [h, isStopped_stopped] at hmn; cases hmn
          · exact h
        have hwq : ∀ (i : Nat) (w : W), s.ws[i]? = some w → w.pc = .run ∧ w.quiet := by
          intro i w hi
          rcases q2 i w hi with h | h
          · have := hwn i w hi; rw [h, isStopped_stopped] at this; cases this
          · exact h
        refine { rep := rep, ep_reqc := (by intro x hx; rw [q3] at hx; cases hx),
                 ep_resc := (by intro x hx; rw [q4] at hx; cases hx),
                 ep_comp := (by intro x hx; rw [q5] at hx; cases hx),
                 ep_curr := (by intro x hx; rw [q6] at hx; cases hx),
                 ep_mwork := (by intro x hx; rw [hmq.2.2.1] at hx; cases hx),
                 ep_mroi := (by intro x hx; rw [hmq.2.2.2] at hx; cases hx),
                 ep_w := ?_, buf := buf, fresh := ?_, phase := ?_ }
        · intro i w hi
          have := (hwq i w hi).2
          refine ⟨?_, ?_⟩
          · intro x hx; rw [this.1] at hx; cases hx
          · intro x hx; rw [this.2] at hx; cases hx
        · intro h; rw [p3 rfl] at h; cases h
        · simp only [PhaseInv]
          exact ⟨hmq.1, fun i w hi => (hwq i w hi).1,
            ⟨hmq.2, fun i w hi => (hwq i w hi).2, q3, q4, q5, q6⟩, p3 rfl⟩
      | false =>
        simp only [Bool.false_eq_true, ↓reduceIte, Option.some.injEq] at hs p4
        subst hs
        obtain ⟨q1, q2⟩ := p4
        refine { rep := rep, ep_reqc := e1, ep_resc := e2, ep_comp := e3, ep_curr := e4, ep_mwork := e5,
                 ep_mroi := e6, ep_w := e7, buf := buf, fresh := fr, phase := ?_ }
        simp only [PhaseInv]
        refine ⟨?_, ?_⟩
        · rcases q1 with h | h
          · rw [h, isStopped_stopped] at hmn; cases hmn
          · exact h
        · intro i w hi
          rcases q2 i w hi with h | h
          · have := hwn i w hi; rw [h, isStopped_stopped] at this; cases this
          · exact h
    · cases hs
  · cases hs

/-- every transition preserves the invariant -/
theorem step_inv {s s' : St} (l : Label) (h : CInv s) (hs : step s l = some s') : CInv s' := by
  cases l with
  | firstRead => exact inv_firstRead h hs
  | readAgain => exact inv_readAgain h hs
  | cancel => exact inv_cancel h hs
  | close => exact inv_close h hs
  | stopMgr => exact inv_stopMgr h hs
  | stopW i => exact inv_stopW i h hs
  | recycle => exact inv_recycle h hs
  | ackMgr => exact inv_ackMgr h hs
  | ackW i => exact inv_ackW i h hs
  | ackDone => exact inv_ackDone h hs
  | roi => exact inv_roi h hs
  | mgrMake b => exact inv_mgrMake b h hs
  | mgrSend => exact inv_mgrSend h hs
  | wRecv i => exact inv_wRecv i h hs
  | wMake i b => exact inv_wMake i b h hs
  | wSend i => exact inv_wSend i h hs
  | wRecycle i => exact inv_wRecycle i h hs
  | recvRes => exact inv_recvRes h hs
  | take j => exact inv_take j h hs
  | recycleCurr => exact inv_recycleCurr h hs
  | readDone => exact inv_readDone h hs

theorem exec_inv : ∀ (ls : List Label) (s s' : St), CInv s → exec s ls = some s' → CInv s' := by
  intro ls
  induction ls with
  | nil => intro s s' h he; simp only [exec, Option.some.injEq] at he; subst he; exact h
  | cons l ls ih =>
    intro s s' h he
    simp only [exec] at he
    split at he
    · next s1 hs1 => exact ih s1 s' (step_inv l h hs1) he
    · cases he

end WuffsVerif.Rac.Conc
