/-
C13: the end-to-end round trip over the models (`rac_roundtrip_thm`): Writer session -> file -> independent spec
reader (`Spec.validate`, `Spec.decode`).
-/
import WuffsVerif.Proof.RacWInv
namespace WuffsVerif.Rac
open Spec

theorem chunks_empty : Spec.chunks CW.emptyRACFile.toArray = .ok (0, []) := by
  have h : (match Spec.chunks CW.emptyRACFile.toArray with
     | .ok (d, cs) => d == 0 && cs.isEmpty
     | .error _ => false) = true := by decide +kernel
  cases hc : Spec.chunks CW.emptyRACFile.toArray with
  | error e => rw [hc] at h; simp at h
  | ok v =>
    obtain ⟨d, cs⟩ := v
    rw [hc] at h
    simp only [Bool.and_eq_true, beq_iff_eq, List.isEmpty_iff] at h
    rw [h.1, h.2]

theorem CW.close_err (c : CW) (h : (c.close).2 = none) : c.err = none := by
  unfold CW.close at h
  cases he : c.err with
  | none => rfl
  | some e => simp [he] at h

/-- `Close` of an untouched ChunkWriter writes the fixed 32-byte empty RAC file -/
theorem CW.close_pristine (c : CW) (hi : DataInv c) (h0 : c.initialized = false) (h : (c.close).2 = none) :
    (c.close).1.io.wBytes = CW.emptyRACFile := by
  have he := CW.close_err c h
  obtain ⟨p1, _, p3, _⟩ := hi.pristine h0
  unfold CW.close at h ⊢
  simp only [he, h0, Bool.not_false, ↓reduceIte] at h ⊢
  have hcp := CW.checkParameters_spec c
  generalize c.checkParameters = r1 at h hcp ⊢
  obtain ⟨w1, e1⟩ := r1
  cases e1 with
  | some e => simp at h
  | none =>
    simp only [Option.isSome_none, Bool.false_eq_true, ↓reduceIte] at h ⊢
    obtain ⟨_, _, _, c4⟩ := hcp rfl
    simp only at c4
    subst c4
    have hsz : (c.leafNodes.size == 0) = true := by rw [p1]; rfl
    simp only [hsz, ↓reduceIte] at h ⊢
    have hwb := IOSt.write_bytes c.io false CW.emptyRACFile
    generalize c.io.write false CW.emptyRACFile = wr at h hwb ⊢
    obtain ⟨io1, b⟩ := wr
    cases b with
    | false => simp at h
    | true =>
      have := (hwb rfl).1
      simp only [Bool.false_eq_true, ↓reduceIte] at this
      simp only
      rw [this, p3]; simp

/-- the file is everything that reached `Writer` -/
def fileOf (w : Writer) : Array UInt8 := w.chunkWriter.io.wBytes.toArray

theorem dataInv_fresh (f : Nat) : DataInv ({ io := { failAt := f } } : CW) := by
  constructor
  · intro _; simp [IOSt.wBytes, IOSt.tBytes]
  · simp [CW.stream, IOSt.wBytes, IOSt.tBytes]
  · intro h; simp at h
  · simp [LeafLog]
  · simp
  · simp
  · simp
  · intro h; simp at h
  · simp [ResEntries]

/-- the state in which `Close` calls `ChunkWriter.Close`, and what `Close` returning nil means for it -/
theorem Close_unfold (cw : CodecW) (w : Writer) (hcl : w.closed = false) (hok : (w.Close cw).2 = none) :
    ∃ w1 : Writer, ({ w with closed := true } : Writer).init cw = (w1, none) ∧
      (Writer.write cw w1 true).2 = none ∧
      ((Writer.write cw w1 true).1.chunkWriter.close).2 = none ∧
      (w.Close cw).1.chunkWriter = ((Writer.write cw w1 true).1.chunkWriter.close).1 := by
  unfold Writer.Close at hok ⊢
  rw [if_neg (by simp [hcl])] at hok ⊢
  simp only at hok ⊢
  have h4 : (Writer.closeStep4 cw (Writer.closeStep3 (Writer.closeStep2 cw
      (Writer.closeStep1 cw { w with closed := true })))).err = none := by
    by_cases h : (Writer.closeStep4 cw (Writer.closeStep3 (Writer.closeStep2 cw
        (Writer.closeStep1 cw { w with closed := true })))).err.isNone = true
    · simpa using h
    · rw [if_neg h] at hok; simp only at hok; rw [hok] at h; simp at h
  obtain ⟨e3, c4⟩ := closeStep4_none cw _ h4
  obtain ⟨e2, _⟩ := closeStep3_none _ e3
  obtain ⟨e1, hw, c2⟩ := closeStep2_none cw _ e2
  obtain ⟨i1, i2, _, _, i5⟩ := closeStep1_none cw _ e1
  refine ⟨(({ w with closed := true } : Writer).init cw).1, ?_, ?_, ?_, ?_⟩
  · exact Prod.ext rfl i1
  · rw [← i5]; exact hw
  · -- closeStep3 ran `ChunkWriter.Close` and got nil
    have : (Writer.closeStep3 (Writer.closeStep2 cw (Writer.closeStep1 cw { w with closed := true }))).err =
        ((Writer.closeStep2 cw (Writer.closeStep1 cw { w with closed := true })).chunkWriter.close).2 := by
      unfold Writer.closeStep3
      rw [if_pos (by rw [e2]; rfl)]
    rw [e3] at this
    rw [← i5, ← c2]; exact this.symm
  · rw [if_pos (by rw [h4]; rfl)]
    simp only
    rw [c4]
    have : (Writer.closeStep3 (Writer.closeStep2 cw (Writer.closeStep1 cw { w with closed := true }))).chunkWriter =
        ((Writer.closeStep2 cw (Writer.closeStep1 cw { w with closed := true })).chunkWriter.close).1 := by
      unfold Writer.closeStep3
      rw [if_pos (by rw [e2]; rfl)]
    rw [this, c2, i5]

theorem covers_nil {D : Bytes → Option Bytes} {data : Bytes} (h : Covers D [] data) : data = [] := by
  generalize hl : ([] : List ChunkRec) = l at h
  cases h with
  | nil => rfl
  | cons _ _ _ => simp at hl

theorem leafLog_nil {S : Bytes} {recs : List ChunkRec} (h : LeafLog S [] recs) : recs = [] := by
  cases recs with
  | nil => rfl
  | cons _ _ => simp [LeafLog] at h

theorem leafLog_head_codec {S : Bytes} {o : WNode} {os : List WNode} {recs : List ChunkRec}
    (h : LeafLog S (o :: os) recs) : ∃ r ∈ recs, o.codec = r.codec := by
  cases recs with
  | nil => simp [LeafLog] at h
  | cons r rs => simp only [LeafLog] at h; exact ⟨r, by simp, h.1.2.2.2.1⟩

/-- **`rac_roundtrip`** — property C13 over the models.  For every codec meeting its contract (with `D`
decompressing a primary CRange that starts with the chunk's bytes and may be followed by unrelated bytes, and
never naming the "Zeroes" codec), every configuration and fault position, every sequence of `Write` calls on a
fresh Writer: if `Close` returns nil then the bytes that reached `Writer` pass the independent spec reader's
validation and decode to exactly the written bytes. -/
theorem rac_roundtrip_thm (cw : CodecW) (D : Bytes → Option Bytes) (hc : CodecContract cw D)
    (hD : ∀ a b d, D a = some d → D (a ++ b) = some d)
    (hz : ∀ a b rs out, cw.compress a b rs = .ok out → NotZeroes out.codec)
    (w0 : Writer)
    (hfresh : w0.err = none ∧ w0.closed = false ∧ w0.inited = false ∧
      w0.chunkWriter = { io := { failAt := w0.chunkWriter.io.failAt } } ∧ w0.uncompressed = {})
    (ps : List Bytes) (hok : ((Writer.runWrites cw w0 ps).Close cw).2 = none) :
    Spec.validate (fileOf ((Writer.runWrites cw w0 ps).Close cw).1) = true ∧
    Spec.decode (fileOf ((Writer.runWrites cw w0 ps).Close cw).1) (fun _ p _ _ => D p) = .ok ps.flatten := by
  obtain ⟨f1, f2, f3, f4, f5⟩ := hfresh
  -- invariants of the session
  have hw0 : WInv w0 := by
    refine ⟨⟨fun _ => ?_, ?_⟩, fun _ => ?_⟩
    · rw [f4]; exact dataInv_fresh _
    · rw [f4]; simp
    · rw [f4]
  have hwN := runWrites_winv cw hz ps w0 hw0
  have hinv0 : InvB D w0 [] := by
    right
    refine ⟨by rw [f5], by rw [f5], [], by rw [f4]; exact Covers.nil, by rw [f5]; rfl⟩
  obtain ⟨_, hclN⟩ := runWrites_inv cw D hc ps w0 [] hinv0 f2
  have hcov : Covers D ((Writer.runWrites cw w0 ps).Close cw).1.chunkWriter.log ps.flatten := by
    have := Close_covers cw D hc _ _ (runWrites_inv cw D hc ps w0 [] hinv0 f2).1 hclN hok
    simpa using this
  obtain ⟨w1, hinit, hwr, hclose, hcw⟩ := Close_unfold cw _ hclN hok
  -- the ChunkWriter just before its Close
  have hwc : WInv ({ Writer.runWrites cw w0 ps with closed := true } : Writer) := ⟨hwN.1, hwN.2⟩
  have hi1 := Writer.init_winv cw _ hwc
  rw [hinit] at hi1
  have hw2 := hi1.1.of_step (hi1.2 rfl) (Writer.write_step cw w1 true) hz
  have hjk := hw2.1
  generalize hcdef : (Writer.write cw w1 true).1.chunkWriter = c at *
  have herr := CW.close_err c hclose
  have hdi : DataInv c := hjk.1 herr
  unfold fileOf
  rw [hcw]
  rw [hcw, CW.close_log] at hcov
  by_cases hne : c.leafNodes.size = 0
  · -- nothing was written
    have hl : c.leafNodes.toList = [] := by
      have : c.leafNodes.toList.length = 0 := by simpa using hne
      exact List.eq_nil_of_length_eq_zero this
    have hlog : c.log = [] := by
      have := hdi.leaves
      rw [hl] at this
      have := leafLog_nil this
      simpa using this
    rw [hlog] at hcov
    have hdata : ps.flatten = [] := covers_nil hcov
    have hps : ∀ p ∈ ps, p = [] := by
      intro p hp
      have := List.flatten_eq_nil_iff.mp hdata p hp
      exact this
    have hidle0 : Idle w0 := ⟨by rw [f4], by rw [f5], by rw [f5]; rfl⟩
    have hidleN := runWrites_idle cw ps hps w0 hidle0
    have hidle1 : Idle w1 := by
      have h1 := (Writer.init_cw_initialized cw ({ Writer.runWrites cw w0 ps with closed := true } : Writer)).1
      have h2 := (Writer.init_frame cw ({ Writer.runWrites cw w0 ps with closed := true } : Writer)).2.1
      rw [hinit] at h1 h2
      simp only at h1 h2
      exact ⟨by rw [h1]; exact hidleN.1, by rw [h2]; exact hidleN.2.1, by rw [h2]; exact hidleN.2.2⟩
    have hc1 : c = w1.chunkWriter := by
      rw [← hcdef, Writer.write_empty cw w1 true hidle1.2.2]
    have hpr := CW.close_pristine c hdi (by rw [hc1]; exact hidle1.1) hclose
    rw [hpr, hdata]
    unfold Spec.validate Spec.decode
    rw [chunks_empty]
    simp [tiles, decodeChunks]
  · -- at least one chunk
    obtain ⟨nw, pre, post, chs, hchunks, hmatch, hfile, hpre, hlen, _⟩ := CW.close_roundtrip c hdi herr hne hclose
    obtain ⟨lf1, lf2, lf3, lf4⟩ := dataInv_leaf_facts c hdi hne
    have htiles : tiles 0 chs c.dFileSize = true := by
      have := tiles_of_matches nw c.codec chs c.leafNodes.toList 0 hmatch (fun o ho => (lf3 o ho).2.2.1)
      rwa [Nat.zero_add, ← hdi.dsize.1] at this
    -- the codec of the file is a codec the CodecWriter named
    have hcodec : NotZeroes c.codec := by
      cases hll : c.leafNodes.toList with
      | nil => exact absurd hll lf1
      | cons o os =>
        have hlv := hdi.leaves
        rw [hll] at hlv
        obtain ⟨r, hr, hro⟩ := leafLog_head_codec hlv
        have h1 : o.codec = c.codec := hdi.codec.1 o (by rw [hll]; simp)
        rw [← h1, hro]
        exact hjk.2 r (by simpa using hr)
    have hS : c.stream.length < 2 ^ 48 := by
      have := hdi.size; unfold maxSize at this; omega
    obtain ⟨acc', hd1, hd2⟩ := decode_of_matches (c.close).1.io.wBytes.toArray nw c.codec D hD hcodec.1 hcodec.2
      c.stream pre post (by simpa using hfile) hpre (by simpa using hlen) hS
      chs c.leafNodes.toList c.log.reverse 0 ps.flatten [] hmatch hdi.leaves (covers_toF hcov)
    unfold Spec.validate Spec.decode
    rw [hchunks]
    simp only [htiles, Bool.not_true, Bool.false_eq_true, ↓reduceIte, hd1]
    refine ⟨trivial, ?_⟩
    rw [hd2]; simp
end WuffsVerif.Rac
