/-
C17: the LZMA2 chunk sequence of the XZ container: `encodeXzChunks` vs the chunk loop of `decodeXz`.
-/
import WuffsVerif.Proof.LzmaContainer

namespace WuffsVerif.Lzma

theorem pushList_append (dst : Array UInt8) (xs ys : List UInt8) :
    pushList (pushList dst xs) ys = pushList dst (xs ++ ys) := by
  apply Array.ext'
  simp [pushList_toList]

/-- the bytes one round of the chunk loop appends -/
def chunkBytes (c : List UInt8) : List UInt8 := (encodeXzChunk #[] c).toList

theorem encodeXzChunk_toList (dst : Array UInt8) (c : List UInt8) :
    (encodeXzChunk dst c).toList = dst.toList ++ chunkBytes c := by
  unfold chunkBytes encodeXzChunk
  dsimp only
  split <;> simp [pushList_toList]

/-- the bytes the whole chunk loop appends -/
def chunksBytes (src : List UInt8) : List UInt8 := (encodeXzChunks #[] src).toList

theorem encodeXzChunks_eq (dst : Array UInt8) (rem : List UInt8) :
    encodeXzChunks dst rem =
      if rem.length = 0 then dst
      else if rem.length > 0x10000 then
        encodeXzChunks (encodeXzChunk dst (rem.take 0x10000)) (rem.drop 0x10000)
      else encodeXzChunk dst rem := by
  rw [encodeXzChunks]
  split <;> rfl

theorem encodeXzChunks_toList : ∀ (n : Nat) (dst : Array UInt8) (rem : List UInt8), rem.length = n →
    (encodeXzChunks dst rem).toList = dst.toList ++ chunksBytes rem := by
  intro n
  induction n using Nat.strongRecOn with
  | _ n ih =>
    intro dst rem hn
    unfold chunksBytes
    rw [encodeXzChunks_eq dst rem, encodeXzChunks_eq #[] rem]
    split
    · simp
    · split
      · rename_i h1 h2
        have hd : (rem.drop 0x10000).length < n := by simp only [List.length_drop]; omega
        rw [ih _ hd _ _ rfl, ih _ hd (encodeXzChunk #[] (rem.take 0x10000)) _ rfl, encodeXzChunk_toList,
          encodeXzChunk_toList]
        simp
      · rw [encodeXzChunk_toList, encodeXzChunk_toList]; simp

theorem chunksBytes_nil : chunksBytes [] = [] := by
  unfold chunksBytes; rw [encodeXzChunks_eq]; simp

theorem chunksBytes_big (rem : List UInt8) (h : rem.length > 0x10000) :
    chunksBytes rem = chunkBytes (rem.take 0x10000) ++ chunksBytes (rem.drop 0x10000) := by
  conv => lhs; unfold chunksBytes
  rw [encodeXzChunks_eq]
  rw [if_neg (by omega), if_pos h, encodeXzChunks_toList _ _ _ rfl, encodeXzChunk_toList]
  simp

theorem chunksBytes_small (rem : List UInt8) (h0 : rem.length ≠ 0) (h : ¬ rem.length > 0x10000) :
    chunksBytes rem = chunkBytes rem := by
  conv => lhs; unfold chunksBytes
  rw [encodeXzChunks_eq]
  rw [if_neg h0, if_neg h]
  rfl

/-- the two size bytes of a chunk header decode to the size -/
theorem size16 (n : Nat) (h1 : 0 < n) (h2 : n ≤ 65536) :
    (((n - 1) >>> 8).toUInt8.toNat <<< 8) + (n - 1).toUInt8.toNat + 1 = n := by
  rw [toUInt8_toNat, toUInt8_toNat, Nat.shiftRight_eq_div_pow, Nat.shiftLeft_eq]
  omega

/-- **one chunk**: a round of the decoder's chunk loop undoes a round of the encoder's, whichever form
    (uncompressed `0x01` or LZMA `0xE0`) the encoder chose; in the LZMA form the packed size fits 16 bits
    because the form is only chosen when it is shorter. -/
theorem decode_chunk (c : List UInt8) (hc1 : 0 < c.length) (hc2 : c.length ≤ 65536) (fuel : Nat)
    (dst : Array UInt8) (rest : List UInt8) :
    decodeXzChunks (fuel + 1) dst (chunkBytes c ++ rest) = decodeXzChunks fuel (pushList dst c) rest := by
  have e10 : ¬ ((0x01 : UInt8) = 0x00) := by decide
  have e224_0 : ¬ ((0xE0 : UInt8) = 0x00) := by decide
  have e224_1 : ¬ ((0xE0 : UInt8) = 0x01) := by decide
  unfold chunkBytes encodeXzChunk
  dsimp only
  split
  · -- uncompressed chunk
    have hsz := size16 c.length hc1 hc2
    have hl : ¬ (c.length > (c ++ rest).length) := by rw [List.length_append]; omega
    simp only [pushList_toList, Array.toList_push, List.nil_append, List.cons_append,
      List.append_assoc, Array.toList_empty]
    simp only [decodeXzChunks, e10, hsz, hl, if_true, if_false, List.take_left, List.drop_left]
  · -- LZMA chunk
    rename_i hch
    have h5 := encodeRaw_length c
    have hm1 : 0 < (encodeRaw #[] c).size := by omega
    have hm2 : (encodeRaw #[] c).size ≤ 65536 := by omega
    have hsz := size16 c.length hc1 hc2
    have hcz := size16 (encodeRaw #[] c).size hm1 hm2
    have hrt := raw_roundtrip_tail dst c rest Err.unsupportedXz
    have hl1 : ¬ ((encodeRaw #[] c).size > ((encodeRaw #[] c).toList ++ rest).length) := by
      rw [List.length_append, Array.length_toList]; omega
    have hl2 : ¬ (((encodeRaw #[] c).toList ++ rest).length ≠ rest.length + (encodeRaw #[] c).size) := by
      rw [List.length_append, Array.length_toList]; omega
    simp only [Array.toList_append, Array.toList_push, List.nil_append, List.cons_append,
      List.append_assoc, Array.toList_empty]
    simp only [decodeXzChunks, e224_0, e224_1, hsz, hcz, hl1, hrt, hl2, ne_eq, not_true_eq_false,
      if_true, if_false]

theorem chunkBytes_length_pos (c : List UInt8) : 0 < (chunkBytes c).length := by
  unfold chunkBytes encodeXzChunk
  dsimp only
  split <;> simp [pushList_toList]

/-- **all chunks**: the decoder's chunk loop, given enough fuel (one unit per encoded byte is plenty),
    reads back the whole chunk sequence, stops at the `0x00` end marker and leaves what follows. -/
theorem decode_chunks : ∀ (n : Nat) (rem : List UInt8) (fuel : Nat) (dst : Array UInt8) (rest : List UInt8),
    rem.length = n → (chunksBytes rem).length + 1 ≤ fuel →
    decodeXzChunks fuel dst (chunksBytes rem ++ 0x00 :: rest) = ChunkResult.brk (pushList dst rem) rest := by
  intro n
  induction n using Nat.strongRecOn with
  | _ n ih =>
    intro rem fuel dst rest hn hfuel
    obtain ⟨f, rfl⟩ : ∃ f, fuel = f + 1 := ⟨fuel - 1, by omega⟩
    by_cases h0 : rem.length = 0
    · have : rem = [] := List.eq_nil_of_length_eq_zero h0
      subst this
      rw [chunksBytes_nil]
      simp [decodeXzChunks, pushList]
    · by_cases hbig : rem.length > 0x10000
      · have hpos := chunkBytes_length_pos (rem.take 0x10000)
        rw [chunksBytes_big rem hbig, List.length_append] at hfuel
        rw [chunksBytes_big rem hbig, List.append_assoc,
          decode_chunk _ (by simp; omega) (by simp; omega)]
        have hd : (rem.drop 0x10000).length < n := by simp only [List.length_drop]; omega
        rw [ih _ hd _ _ _ _ rfl (by omega), pushList_append, List.take_append_drop]
      · have hpos := chunkBytes_length_pos rem
        rw [chunksBytes_small rem h0 hbig] at hfuel
        rw [chunksBytes_small rem h0 hbig, decode_chunk _ (by omega) (by omega)]
        obtain ⟨f', rfl⟩ : ∃ f', f = f' + 1 := ⟨f - 1, by omega⟩
        simp [decodeXzChunks]

end WuffsVerif.Lzma
