/-
C12, the C indenter: the observation `normalise` of the property (each line
stripped of leading and trailing blanks, trailing blank lines dropped) and the
proof that the model's `loop` preserves it.  Core Lean only.
-/
import WuffsVerif.Proof.IndentBasic

namespace WuffsVerif.Indent

/-! ### `normalise` -/

/-- prepend a byte to the first line -/
def consHead (c : UInt8) : List Bytes → List Bytes
  | [] => [[c]]
  | l :: ls => (c :: l) :: ls

/-- split at every '\n' (always at least one line) -/
def splitLines : Bytes → List Bytes
  | [] => [[]]
  | c :: cs => if c == NL then [] :: splitLines cs else consHead c (splitLines cs)

/-- strip a line's trailing and leading blanks -/
def stripLine (l : Bytes) : Bytes := trimLeadingWs (trimTrailingWs l)

/-- drop trailing empty lines -/
def dropTrailingEmpty : List Bytes → List Bytes
  | [] => []
  | l :: ls =>
    match dropTrailingEmpty ls with
    | [] => if l.isEmpty then [] else [l]
    | r :: rs => l :: r :: rs

/-- every line stripped -/
def stripLines (s : Bytes) : List Bytes := (splitLines s).map stripLine

/-- The property's observation of a text: every line stripped of its leading and
trailing blanks (space, tab), trailing blank lines dropped. -/
def normalise (s : Bytes) : List Bytes := dropTrailingEmpty (stripLines s)

/-! ### lines -/

theorem splitLines_ne_nil (s : Bytes) : splitLines s ≠ [] := by
  cases s with
  | nil => simp [splitLines]
  | cons c cs =>
    unfold splitLines
    split
    · simp
    · cases h : splitLines cs <;> simp [consHead]

theorem consHead_append (c : UInt8) (a b : List Bytes) (h : a ≠ []) :
    consHead c (a ++ b) = consHead c a ++ b := by
  cases a with
  | nil => exact absurd rfl h
  | cons x xs => simp [consHead]

theorem splitLines_append_nl (a b : Bytes) :
    splitLines (a ++ NL :: b) = splitLines a ++ splitLines b := by
  induction a with
  | nil => simp [splitLines]
  | cons c cs ih =>
    simp only [List.cons_append, splitLines]
    split
    · simp [ih]
    · rw [ih, consHead_append _ _ _ (splitLines_ne_nil cs)]

theorem splitLines_noNl (a : Bytes) (h : NL ∉ a) : splitLines a = [a] := by
  induction a with
  | nil => simp [splitLines]
  | cons c cs ih =>
    simp only [List.mem_cons, not_or] at h
    have hc : (c == NL) = false := by
      simp only [beq_eq_false_iff_ne, ne_eq]
      exact fun e => h.1 e.symm
    simp [splitLines, hc, ih h.2, consHead]

theorem splitLines_noNl_append (w z : Bytes) (h : NL ∉ w) :
    splitLines (w ++ z) = match splitLines z with
      | [] => [w]
      | l :: ls => (w ++ l) :: ls := by
  induction w with
  | nil =>
    cases hz : splitLines z with
    | nil => exact absurd hz (splitLines_ne_nil z)
    | cons l ls => simp [hz]
  | cons c cs ih =>
    simp only [List.mem_cons, not_or] at h
    have hc : (c == NL) = false := by
      simp only [beq_eq_false_iff_ne, ne_eq]
      exact fun e => h.1 e.symm
    simp only [List.cons_append, splitLines, hc, Bool.false_eq_true, ↓reduceIte]
    rw [ih h.2]
    cases hz : splitLines z with
    | nil => exact absurd hz (splitLines_ne_nil z)
    | cons l ls => simp [consHead]

theorem splitLines_replicate_nl (n : Nat) (z : Bytes) :
    splitLines (List.replicate n NL ++ z) = List.replicate n [] ++ splitLines z := by
  induction n with
  | zero => simp
  | succ n ih =>
    simp only [List.replicate_succ, List.cons_append, splitLines]
    simp [ih]

/-! ### blanks -/

theorem isWs_ne_nl (b : UInt8) (h : isWs b = true) : b ≠ NL := by
  intro e
  subst e
  revert h
  decide

theorem trimTrailingWs_cons (c : UInt8) (cs : Bytes) :
    trimTrailingWs (c :: cs) =
      if (trimTrailingWs cs).isEmpty && isWs c then [] else c :: trimTrailingWs cs := by
  unfold trimTrailingWs
  rw [List.reverse_cons, List.dropWhile_append]
  by_cases h : (List.dropWhile isWs cs.reverse).isEmpty = true
  · simp only [h, ↓reduceIte, List.isEmpty_reverse, Bool.true_and]
    have h' : List.dropWhile isWs cs.reverse = [] := by simpa using h
    by_cases hc : isWs c = true
    · simp [hc]
    · simp [hc, h']
  · simp only [h, Bool.false_eq_true, ↓reduceIte, List.isEmpty_reverse, Bool.false_and]
    simp

theorem trimTrailingWs_nil : trimTrailingWs [] = [] := by simp [trimTrailingWs]

theorem trimTrailingWs_idem (l : Bytes) : trimTrailingWs (trimTrailingWs l) = trimTrailingWs l := by
  induction l with
  | nil => simp [trimTrailingWs_nil]
  | cons c cs ih =>
    rw [trimTrailingWs_cons]
    split
    · exact trimTrailingWs_nil
    · rename_i h
      rw [trimTrailingWs_cons, ih]
      simp only [h, Bool.false_eq_true, ↓reduceIte]

theorem trimTrailingWs_sub (l : Bytes) (b : UInt8) (h : b ∈ trimTrailingWs l) : b ∈ l := by
  induction l with
  | nil => simp [trimTrailingWs_nil] at h
  | cons c cs ih =>
    rw [trimTrailingWs_cons] at h
    split at h
    · simp at h
    · simp only [List.mem_cons] at h ⊢
      cases h with
      | inl h => exact Or.inl h
      | inr h => exact Or.inr (ih h)

/-- `consHead` as seen through `map trimTrailingWs` -/
def consHeadT (c : UInt8) : List Bytes → List Bytes
  | [] => [trimTrailingWs [c]]
  | t :: ts => (if t.isEmpty && isWs c then [] else c :: t) :: ts

theorem map_trimT_consHead (c : UInt8) (L : List Bytes) :
    (consHead c L).map trimTrailingWs = consHeadT c (L.map trimTrailingWs) := by
  cases L with
  | nil => simp [consHead, consHeadT]
  | cons l ls => simp [consHead, consHeadT, trimTrailingWs_cons]

/-- Lemma A: trimming the trailing blanks of the last line is invisible after
trimming every line's trailing blanks. -/
theorem map_trimT_append_trimT (X l : Bytes) (hl : NL ∉ l) :
    (splitLines (X ++ l)).map trimTrailingWs = (splitLines (X ++ trimTrailingWs l)).map trimTrailingWs := by
  induction X with
  | nil =>
    have h2 : NL ∉ trimTrailingWs l := fun hm => hl (trimTrailingWs_sub _ _ hm)
    simp [splitLines_noNl _ hl, splitLines_noNl _ h2, trimTrailingWs_idem]
  | cons c cs ih =>
    simp only [List.cons_append, splitLines]
    split
    · simp [ih]
    · rw [map_trimT_consHead, map_trimT_consHead, ih]

theorem stripLines_append_trimT (X l : Bytes) (hl : NL ∉ l) :
    stripLines (X ++ l) = stripLines (X ++ trimTrailingWs l) := by
  have e : ∀ (L : List Bytes), L.map stripLine = (L.map trimTrailingWs).map trimLeadingWs := by
    intro L; simp [List.map_map, stripLine, Function.comp_def]
  unfold stripLines
  rw [e, e, map_trimT_append_trimT X l hl]

/-- Lemma B: leading blanks of a line are invisible. -/
theorem stripLine_ws_append (w y : Bytes) (hw : ∀ b ∈ w, isWs b = true) :
    stripLine (w ++ y) = stripLine y := by
  induction w with
  | nil => rfl
  | cons c cs ih =>
    have hc : isWs c = true := hw c (by simp)
    have ih' := ih (fun b hb => hw b (by simp [hb]))
    unfold stripLine at ih' ⊢
    rw [List.cons_append, trimTrailingWs_cons]
    split
    · rename_i h
      simp only [Bool.and_eq_true, List.isEmpty_iff] at h
      rw [h.1] at ih'
      rw [← ih']
    · unfold trimLeadingWs at ih' ⊢
      rw [List.dropWhile_cons]
      simp only [hc, ↓reduceIte]
      exact ih'

theorem stripLines_ws_append (w z : Bytes) (hw : ∀ b ∈ w, isWs b = true) :
    stripLines (w ++ z) = stripLines z := by
  have hn : NL ∉ w := fun hm => isWs_ne_nl _ (hw _ hm) rfl
  unfold stripLines
  rw [splitLines_noNl_append w z hn]
  cases hz : splitLines z with
  | nil => exact absurd hz (splitLines_ne_nil z)
  | cons l ls => simp [stripLine_ws_append w l hw]

/-- Lemma C: re-indenting the first line and trimming the last line's trailing blanks
of a group of lines is invisible. -/
theorem stripLines_reindent (w1 w2 X l : Bytes) (h1 : ∀ b ∈ w1, isWs b = true)
    (h2 : ∀ b ∈ w2, isWs b = true) (hl : NL ∉ l) :
    stripLines (w1 ++ (X ++ l)) = stripLines (w2 ++ (X ++ trimTrailingWs l)) := by
  rw [stripLines_ws_append _ _ h1, stripLines_ws_append _ _ h2, stripLines_append_trimT _ _ hl]

theorem stripLine_nil : stripLine [] = [] := by
  simp [stripLine, trimTrailingWs_nil, trimLeadingWs]

theorem stripLines_replicate_nl (n : Nat) (z : Bytes) :
    stripLines (List.replicate n NL ++ z) = List.replicate n [] ++ stripLines z := by
  unfold stripLines
  rw [splitLines_replicate_nl]
  simp [stripLine_nil]

theorem stripLines_append_nl (a b : Bytes) :
    stripLines (a ++ NL :: b) = stripLines a ++ stripLines b := by
  unfold stripLines
  rw [splitLines_append_nl]
  simp

/-! ### trailing blank lines -/

theorem dropTE_append_congr (A B B' : List Bytes) (h : dropTrailingEmpty B = dropTrailingEmpty B') :
    dropTrailingEmpty (A ++ B) = dropTrailingEmpty (A ++ B') := by
  induction A with
  | nil => simpa using h
  | cons a as ih => simp only [List.cons_append, dropTrailingEmpty, ih]

theorem dropTE_single_nil : dropTrailingEmpty [[]] = [] := by simp [dropTrailingEmpty]

theorem stripLines_nil : stripLines [] = [[]] := by simp [stripLines, splitLines, stripLine_nil]

/-- Lemma E: a text whose rest `tail` is empty or starts with '\n'. -/
theorem dropTE_stripLines_tail (A : List Bytes) (Y tail : Bytes) (ht : NlHead tail) :
    dropTrailingEmpty (A ++ stripLines (Y ++ tail)) =
      dropTrailingEmpty (A ++ (stripLines Y ++ stripLines (tail.drop 1))) := by
  cases ht with
  | inl h =>
    subst h
    simp only [List.append_nil, List.drop_nil, stripLines_nil]
    rw [← List.append_assoc, ← List.append_nil (A ++ stripLines Y)]
    rw [List.append_assoc (A ++ stripLines Y)]
    exact dropTE_append_congr _ [] ([] ++ [[]]) (by simp [dropTrailingEmpty])
  | inr h =>
    obtain ⟨u, hu⟩ := h
    subst hu
    simp [stripLines_append_nl]

end WuffsVerif.Indent

namespace WuffsVerif.Indent

/-! ### the loop preserves `normalise` -/

def AllWs (w : Bytes) : Prop := ∀ b ∈ w, isWs b = true

theorem trimLeadingWs_split (s : Bytes) : ∃ w, AllWs w ∧ s = w ++ trimLeadingWs s := by
  induction s with
  | nil => exact ⟨[], by simp [AllWs], by simp [trimLeadingWs]⟩
  | cons c cs ih =>
    unfold trimLeadingWs
    rw [List.dropWhile_cons]
    split
    · rename_i hc
      obtain ⟨w, hw, he⟩ := ih
      refine ⟨c :: w, ?_, ?_⟩
      · intro b hb
        simp only [List.mem_cons] at hb
        cases hb with
        | inl h => rw [h]; exact hc
        | inr h => exact hw b h
      · unfold trimLeadingWs at he
        simp only [List.cons_append]
        rw [← he]
    · exact ⟨[], by simp [AllWs], by simp⟩

theorem allWs_replicate_indent (o : Opts) (n : Nat) : AllWs (List.replicate n o.indentByte) := by
  intro b hb
  have := (List.mem_replicate.mp hb).2
  subst this
  unfold Opts.indentByte
  split <;> decide

theorem dropTE_replicate_nil (k : Nat) : dropTrailingEmpty (List.replicate k ([] : Bytes)) = [] := by
  induction k with
  | zero => simp [dropTrailingEmpty]
  | succ k ih => simp [List.replicate_succ, dropTrailingEmpty, ih]

theorem line_step (n : Nat) (w ind X l tail' r : Bytes)
    (hw : AllWs w) (hi : AllWs ind) (hl : NL ∉ l) (ht : NlHead tail')
    (ih : dropTrailingEmpty (stripLines (tail'.drop 1)) = dropTrailingEmpty (stripLines r)) :
    dropTrailingEmpty (stripLines (List.replicate n NL ++ (w ++ (X ++ (l ++ tail'))))) =
    dropTrailingEmpty (stripLines (List.replicate n NL ++ (ind ++ (X ++ (trimTrailingWs l ++ NL :: r))))) := by
  rw [stripLines_replicate_nl, stripLines_replicate_nl]
  have e1 : w ++ (X ++ (l ++ tail')) = (w ++ (X ++ l)) ++ tail' := by simp
  have e2 : ind ++ (X ++ (trimTrailingWs l ++ NL :: r)) = (ind ++ (X ++ trimTrailingWs l)) ++ NL :: r := by simp
  rw [e1, e2, dropTE_stripLines_tail _ _ _ ht, stripLines_append_nl,
    stripLines_reindent w ind X l hw hi hl]
  have := dropTE_append_congr
    (List.replicate n [] ++ stripLines (ind ++ (X ++ trimTrailingWs l))) _ _ ih
  simpa [List.append_assoc] using this

theorem loop_ws (o : Opts) (ii : Nat) : ∀ (fuel : Nat) (st : St) (src out : Bytes),
    loop o ii fuel st src = some out →
    dropTrailingEmpty (stripLines (List.replicate st.nBlank NL ++ src)) =
      dropTrailingEmpty (stripLines out) := by
  intro fuel
  induction fuel with
  | zero => intro st src out h; simp [loop] at h
  | succ f ih =>
    intro st src out h
    unfold loop at h
    split at h
    · rename_i he
      have : src = [] := by simpa using he
      subst this
      simp only [Option.some.injEq] at h
      subst h
      rw [stripLines_replicate_nl, stripLines_nil]
      have : List.replicate st.nBlank ([] : Bytes) ++ [[]] = List.replicate (st.nBlank + 1) [] := by
        rw [List.replicate_succ']
      rw [this, dropTE_replicate_nil, dropTE_single_nil]
    · simp only [] at h
      obtain ⟨w, hw, hsrc⟩ := trimLeadingWs_split src
      generalize trimLeadingWs src = T at h hsrc
      subst hsrc
      have hlt := splitLine_eq T
      have hnl := splitLine_noNl T
      have hhead := splitLine_nlHead T
      generalize (splitLine T).1 = line at h hlt hnl
      generalize (splitLine T).2 = tail at h hlt hhead
      subst hlt
      split at h
      · -- blank line
        have := ih _ _ _ h
        simp only [] at this
        rw [← this]
        rw [stripLines_replicate_nl, stripLines_replicate_nl]
        simp only [List.nil_append]
        have e := dropTE_stripLines_tail (List.replicate st.nBlank []) w _ hhead
        rw [e]
        have hw' : stripLines w = [[]] := by
          have := stripLines_ws_append w [] hw
          simpa [stripLines_nil] using this
        rw [hw', List.replicate_succ']
        try simp only [List.append_assoc]
      · rename_i _ c0 l' _
        split at h
        · -- preprocessor line
          simp only [Option.map_eq_some_iff] at h
          obtain ⟨r, hr, hout⟩ := h
          have ih' := ih _ _ _ hr
          simp only [preprocLine, List.replicate_zero, List.nil_append] at ih'
          rw [← hout]
          simp only [preprocLine]
          have := line_step st.nBlank w
            (List.replicate (ii + if st.preproc = true then o.indentCount * 2 else 0) o.indentByte)
            [] (c0 :: l') _ r hw (allWs_replicate_indent o _) hnl hhead ih'
          simpa using this
        · split at h
          · simp at h
          · rename_i x hx
            obtain ⟨text, st', tail'⟩ := x
            simp only [Option.map_eq_some_iff] at h
            obtain ⟨r, hr, hout⟩ := h
            obtain ⟨n, X, l, htext, hbytes, hnoNl, _, hnh, hnb⟩ := codeLine_spec _ _ _ _ _ _ _ _ hx
            have ih' := ih _ _ _ hr
            simp only [hnb, List.replicate_zero, List.nil_append] at ih'
            rw [← hout, ← hbytes]
            simp only [htext]
            have := line_step st.nBlank w (List.replicate n o.indentByte) X l tail' r hw
              (allWs_replicate_indent o _) (hnoNl hnl) (hnh hhead) ih'
            simpa using this

/-- `normalise` of the formatted text = `normalise` of the input minus its leading
blank lines (`trimLeadingWhiteSpaceAndNewLines`), for every input and option. -/
theorem format_ws (o : Opts) (s : Bytes) : normalise (format o s) = normalise (trimLeadingWsNl s) := by
  unfold format normalise
  have hs := formatFuel_isSome o s
  unfold formatFuel at hs ⊢
  simp only [] at hs ⊢
  split
  · rename_i he
    have : trimLeadingWsNl s = [] := by simpa using he
    simp [this]
  · rename_i he
    rw [if_neg he] at hs
    obtain ⟨out, hout⟩ := Option.isSome_iff_exists.mp hs
    rw [hout]
    have := loop_ws o _ _ _ _ _ hout
    simpa using this.symm

end WuffsVerif.Indent
