/-
C12, the Wuffs formatter: finite facts about the REGENERATED token tables
(`Gen/C12_Tokens.lean`) that the re-tokenization proof needs, each checked by the kernel
(`decide +kernel`), and their general consequences.  If a table in /repo/lang/token changes so
that one of them fails, this file does not build: a broken proof obligation.  Core Lean only.
-/
import WuffsVerif.Proof.RenderWf
import WuffsVerif.Proof.RenderPairs

namespace WuffsVerif.Render
open WuffsVerif.FmtToken WuffsVerif.Gen.C12

/-! ### the tables -/

/-- every squiggly token: a built-in ID whose flags are the listed ones; its first byte is
not a blank, quote, letter or digit, and the text does not start a `//` comment -/
theorem punct_entry_facts :
    punctToks.all (fun e => decide (e.1 < nBuiltInIDs) && flagsOfId e.1 == e.2.2 &&
      match e.2.1 with
      | c :: σ => !(decide (c ≤ 32)) && !(c == 34 || c == 39) && !alpha c && !numeric c &&
          !(c == 47 && σ.head? == some 47)
      | [] => false) = true := by decide +kernel

/-- no byte of a `lexers` suffix is a blank -/
theorem lexer_bytes_not_blank :
    lexers.all (fun e => e.2.all (fun x => x.1.all (fun b => !(decide (b ≤ 32))))) = true := by
  decide +kernel

/-- nothing that `Render` may attach to "/" starts with "/" -/
theorem slash_follow :
    punctToks.all (fun p => p.2.1 != [47] ||
      allNext.all (fun q => !mayNoSpace p q || q.text.head? != some 47)) = true := by
  decide +kernel

/-- the buckets of `builtinByName` hold entries of `builtins` -/
theorem buckets_sound :
    (List.range 256).all (fun n => (builtinBuckets[n]!).all (fun e =>
      builtins.any (fun b => b.2.1 == e.1 && b.1 == e.2.1 && b.2.2 == e.2.2))) = true := by
  decide +kernel

/-- built-ins that read as a word, a number or a string: flags as listed; not tight, not a
"+"/"-", not "(" or "="; a number asks for an implicit semicolon -/
theorem builtin_word_facts :
    builtins.all (fun b =>
      match b.2.1 with
      | c :: _ => !(alphaNumeric c || c == 34 || c == 39) ||
          (decide (b.1 < nBuiltInIDs) && flagsOfId b.1 == b.2.2 && !hasFlag b.2.2 2 &&
            !hasFlag b.2.2 4 && !hasFlag b.2.2 8 && b.1 != idOpenParen && b.1 != idEq &&
            (hasFlag b.2.2 64 || !numeric c))
      | [] => true) = true := by decide +kernel

/-- ";" does not ask for another ";" ; "=" is not a close / identifier / "?" -/
theorem semicolon_eq_facts :
    (hasFlag (flagsOfId idSemicolon) 64 = false ∧ idSemicolon < nBuiltInIDs) ∧
    (idEq < nBuiltInIDs ∧ hasFlag (flagsOfId idEq) 1 = false ∧ hasFlag (flagsOfId idEq) 16 = false ∧
      (idEq == idQuestion) = false) := by decide +kernel

end WuffsVerif.Render
