/-
C13: the ChunkWriter data invariant `DataInv` and its preservation by `initialize` and `write`.
-/
import WuffsVerif.Proof.RacData
namespace WuffsVerif.Rac
open Spec

/-- leaf nodes vs. accepted chunks (oldest first): sizes, tags, codec, and the chunk's bytes sit in the
stream `S` at the leaf's recorded offset, whose `CLength` is the one `calcCLength` gives -/
def LeafLog (S : Bytes) : List WNode → List ChunkRec → Prop
  | [], [] => True
  | o :: os, r :: rs =>
    (o.dRangeSize = r.dRangeSize ∧ o.children = [] ∧ o.resources = [] ∧ o.codec = r.codec ∧ r.dRangeSize > 0 ∧
      ∃ off, off + r.primary.length ≤ S.length ∧ (S.drop off).take r.primary.length = r.primary ∧
        o.cOffsetCLength = off ||| (calcCLength r.primary.length <<< 48)) ∧ LeafLog S os rs
  | _, _ => False

theorem LeafLog.mono {S : Bytes} (ext : Bytes) : ∀ {os : List WNode} {rs : List ChunkRec},
    LeafLog S os rs → LeafLog (S ++ ext) os rs := by
  intro os
  induction os with
  | nil => intro rs h; cases rs <;> simp_all [LeafLog]
  | cons o os ih =>
    intro rs h
    cases rs with
    | nil => simp [LeafLog] at h
    | cons r rs =>
      simp only [LeafLog] at h ⊢
      obtain ⟨⟨h1, h2, h3, h4, h5, off, h6, h7, h8⟩, hr⟩ := h
      refine ⟨⟨h1, h2, h3, h4, h5, off, by simp; omega, ?_, h8⟩, ih hr⟩
      rw [List.drop_append_of_le_length (by omega), List.take_append_of_le_length (by simp; omega)]
      exact h7

theorem LeafLog.snoc {S : Bytes} : ∀ {os : List WNode} {rs : List ChunkRec} (o : WNode) (r : ChunkRec),
    LeafLog S os rs → LeafLog S [o] [r] → LeafLog S (os ++ [o]) (rs ++ [r]) := by
  intro os
  induction os with
  | nil => intro rs o r h h1; cases rs <;> simp_all [LeafLog]
  | cons a as ih =>
    intro rs o r h h1
    cases rs with
    | nil => simp [LeafLog] at h
    | cons b bs =>
      simp only [LeafLog] at h
      simp only [List.cons_append, LeafLog]
      exact ⟨h.1, ih o r h.2 h1⟩

/-- resource `COffset|CLength` entries vs. the bytes passed to `AddResource` (oldest first): each resource
sits in the stream `S` at its recorded offset, with the `CLength` that `calcCLength` gives -/
def ResEntries (S : Bytes) : List Nat → List Bytes → Prop
  | [], [] => True
  | x :: xs, r :: rs =>
    (∃ off, off + r.length ≤ S.length ∧ (S.drop off).take r.length = r ∧
      x = off ||| (calcCLength r.length <<< 48)) ∧ ResEntries S xs rs
  | _, _ => False

theorem ResEntries.mono {S : Bytes} (ext : Bytes) : ∀ {xs : List Nat} {rs : List Bytes},
    ResEntries S xs rs → ResEntries (S ++ ext) xs rs := by
  intro xs
  induction xs with
  | nil => intro rs h; cases rs <;> simp_all [ResEntries]
  | cons x xs ih =>
    intro rs h
    cases rs with
    | nil => simp [ResEntries] at h
    | cons r rs =>
      simp only [ResEntries] at h ⊢
      obtain ⟨⟨off, h6, h7, h8⟩, hr⟩ := h
      refine ⟨⟨off, by simp; omega, ?_, h8⟩, ih hr⟩
      rw [List.drop_append_of_le_length (by omega), List.take_append_of_le_length (by simp; omega)]
      exact h7

theorem ResEntries.snoc {S : Bytes} : ∀ {xs : List Nat} {rs : List Bytes} (x : Nat) (r : Bytes),
    ResEntries S xs rs → ResEntries S [x] [r] → ResEntries S (xs ++ [x]) (rs ++ [r]) := by
  intro xs
  induction xs with
  | nil => intro rs x r h h1; cases rs <;> simp_all [ResEntries]
  | cons a as ih =>
    intro rs x r h h1
    cases rs with
    | nil => simp [ResEntries] at h
    | cons b bs =>
      simp only [ResEntries] at h
      simp only [List.cons_append, ResEntries]
      exact ⟨h.1, ih x r h.2 h1⟩

/-- invariant of a ChunkWriter's data part -/
structure DataInv (w : CW) : Prop where
  pristine : w.initialized = false → w.leafNodes = #[] ∧ w.resourcesCOffCLens = #[] ∧ w.io.wBytes = [] ∧
    w.io.tBytes = [] ∧ w.dataSize = 0 ∧ w.log = [] ∧ w.dFileSize = 0 ∧ w.resLog = []
  size : w.dataSize = w.stream.length ∧ w.dataSize ≤ maxSize
  mode : w.initialized = true → (w.tempKind != 0) = w.indexAtStart ∧ w.nilWriter = false ∧
    isZeroOrAPowerOf2 w.cPageSize = true ∧ w.cPageSize ≤ maxSize ∧
    (w.cPageSize > 0 → w.log2CPageSize = Nat.log2 w.cPageSize) ∧
    (w.indexAtStart = true → w.io.wBytes = []) ∧
    (w.indexAtStart = false → ∃ rest, w.io.wBytes = CW.indexLocationAtEndMagic ++ rest)
  leaves : LeafLog w.stream w.leafNodes.toList w.log.reverse
  codec : (∀ o ∈ w.leafNodes.toList, o.codec = w.codec) ∧ (w.leafNodes.size ≠ 0 → codecValid w.codec = true)
  dsize : w.dFileSize = (w.leafNodes.toList.map WNode.dRangeSize).sum ∧ w.dFileSize ≤ maxSize
  res : ∀ x ∈ w.resourcesCOffCLens.toList, x < 2 ^ 56 ∧ x % 2 ^ 48 ≤ w.dataSize
  live : w.leafNodes.size ≠ 0 → w.initialized = true
  resOK : ResEntries w.stream (w.resourcesCOffCLens.toList.drop 1) w.resLog.reverse

theorem padAmount_zero (cps : Nat) : padAmount cps 0 = 0 := by
  unfold padAmount; simp

theorem CW.checkParameters_spec (w : CW) (h : (w.checkParameters).2 = none) :
    w.nilWriter = false ∧ isZeroOrAPowerOf2 w.cPageSize = true ∧ w.cPageSize ≤ maxSize ∧
    (w.checkParameters).1 =
      { w with log2CPageSize := if w.cPageSize > 0 then Nat.log2 w.cPageSize else w.log2CPageSize } := by
  unfold CW.checkParameters at h ⊢
  by_cases hnw : w.nilWriter = true
  · simp [hnw, CW.fail] at h
  · have hnw' : w.nilWriter = false := by simpa using hnw
    simp only [hnw', Bool.false_eq_true, ↓reduceIte] at h ⊢
    by_cases hcp : (!isZeroOrAPowerOf2 w.cPageSize || decide (w.cPageSize > maxSize)) = true
    · simp [hcp, CW.fail] at h
    · have hcp' : (!isZeroOrAPowerOf2 w.cPageSize || decide (w.cPageSize > maxSize)) = false := by simpa using hcp
      simp only [hcp', Bool.false_eq_true, ↓reduceIte] at h ⊢
      simp only [Bool.or_eq_false_iff, Bool.not_eq_eq_eq_not, Bool.not_false, decide_eq_false_iff_not,
        Nat.not_lt] at hcp'
      refine ⟨trivial, hcp'.1, by omega, ?_⟩
      cases w
      simp only at hnw' ⊢
      subst hnw'
      split <;> rfl

theorem CW.seekTemp_spec (w : CW) (h : (w.seekTemp).2 = none) :
    ∃ io', (w.seekTemp).1 = { w with io := io' } ∧ io'.wBytes = w.io.wBytes ∧ io'.tBytes = w.io.tBytes := by
  unfold CW.seekTemp at h ⊢
  by_cases hk2 : (w.tempKind == 2) = true
  · rw [if_pos hk2] at h ⊢
    have ht := IOSt.tick_bytes w.io
    generalize w.io.tick = tk at h ht ⊢
    obtain ⟨io1, b⟩ := tk
    cases b with
    | false => simp at h
    | true => exact ⟨io1, by simp, ht.1, ht.2⟩
  · rw [if_neg hk2]
    exact ⟨w.io, rfl, rfl, rfl⟩

/-- the part of `initialize` after `w.initialized = true` -/
def CW.initBody (w : CW) : CW × Option Err :=
  let (w, e) := w.checkParameters
  if e.isSome then (w, e) else
  let (w, e) := w.seekTemp
  if e.isSome then (w, e) else
  if !w.indexAtStart then
    if w.tempKind != 0 then w.fail .ilaEndTempFile
    else w.write CW.indexLocationAtEndMagic
  else
    if w.tempKind == 0 then w.fail .ilaStartTempFile else (w, none)

theorem CW.init_eq (w : CW) (he : w.err = none) :
    w.init = if w.initialized then (w, none) else CW.initBody { w with initialized := true } := by
  unfold CW.init CW.initBody
  simp only [he]

theorem CW.initBody_spec (w : CW) (h : (w.initBody).2 = none) :
    w.nilWriter = false ∧ isZeroOrAPowerOf2 w.cPageSize = true ∧ w.cPageSize ≤ maxSize ∧
    (w.tempKind != 0) = w.indexAtStart ∧
    ∃ (io' : IOSt) (ds' : Nat), (w.initBody).1 = ({ w with
        log2CPageSize := (if w.cPageSize > 0 then Nat.log2 w.cPageSize else w.log2CPageSize)
        io := io'
        dataSize := ds' } : CW) ∧
      (w.indexAtStart = true → io'.wBytes = w.io.wBytes ∧ io'.tBytes = w.io.tBytes ∧ ds' = w.dataSize) ∧
      (w.indexAtStart = false → ∃ k, (k = 0 ∨ k = padAmount w.cPageSize w.dataSize) ∧
        io'.wBytes = w.io.wBytes ++ List.replicate k 0 ++ CW.indexLocationAtEndMagic ∧
        io'.tBytes = w.io.tBytes ∧ ds' = w.dataSize + k + 4 ∧ ds' ≤ maxSize) := by
  unfold CW.initBody at h ⊢
  have hcps := CW.checkParameters_spec w
  generalize hcp : w.checkParameters = r1 at h hcps ⊢
  obtain ⟨w1, e1⟩ := r1
  cases e1 with
  | some e => simp at h
  | none =>
    simp only [Option.isSome_none, Bool.false_eq_true, ↓reduceIte] at h ⊢
    obtain ⟨c1, c2, c3, c4⟩ := hcps rfl
    simp only at c4
    have hsts := CW.seekTemp_spec w1
    generalize hst : w1.seekTemp = r2 at h hsts ⊢
    obtain ⟨w2, e2⟩ := r2
    cases e2 with
    | some e => simp at h
    | none =>
      simp only [Option.isSome_none, Bool.false_eq_true, ↓reduceIte] at h ⊢
      obtain ⟨io1, s1, s2, s3⟩ := hsts rfl
      simp only at s1
      subst s1
      subst c4
      simp only at h s2 s3 ⊢
      refine ⟨c1, c2, c3, ?_⟩
      by_cases hat : w.indexAtStart = true
      · simp only [hat, Bool.not_true, Bool.false_eq_true, ↓reduceIte] at h ⊢
        by_cases hk : (w.tempKind == 0) = true
        · simp [hk, CW.fail] at h
        · have hk' : (w.tempKind == 0) = false := by simpa using hk
          simp only [hk', Bool.false_eq_true, ↓reduceIte]
          exact ⟨by simpa using hk', io1, w.dataSize, rfl, fun _ => ⟨s2, s3, rfl⟩, fun h => by simp at h⟩
      · have hat' : w.indexAtStart = false := by simpa using hat
        simp only [hat', Bool.not_false, ↓reduceIte] at h ⊢
        by_cases hk : (w.tempKind != 0) = true
        · simp [hk, CW.fail] at h
        · have hk' : (w.tempKind != 0) = false := by simpa using hk
          simp only [hk', Bool.false_eq_true, ↓reduceIte] at h ⊢
          obtain ⟨k, k0, k1, k2, k3, k4, k5, k6⟩ := CW.write_spec _ _ h
          have htk := congrArg CW.tempKind k1
          simp only at htk
          simp only [CW.stream, CW.side, htk, hk', Bool.false_eq_true, ↓reduceIte] at k5 k6
          have k1' := k1
          unfold CW.SameBut at k1'
          rw [k2] at k1'
          refine ⟨trivial, _, _, k1', fun h => by simp at h, fun _ => ⟨k, k0, ?_, ?_, ?_, k4⟩⟩
          · rw [k5, s2]
          · rw [k6, s3]
          · rw [k3]; rfl

/-- `initialize` keeps the invariant and touches nothing but `initialized`, `log2CPageSize`, `io`, `dataSize` -/
theorem CW.init_inv (w : CW) (hi : DataInv w) (he : w.err = none) (h : (w.init).2 = none) :
    DataInv (w.init).1 ∧ (w.init).1.err = none ∧ (w.init).1.initialized = true ∧
    (w.init).1.leafNodes = w.leafNodes ∧ (w.init).1.resourcesCOffCLens = w.resourcesCOffCLens ∧
    (w.init).1.log = w.log ∧ (w.init).1.codec = w.codec ∧ (w.init).1.dFileSize = w.dFileSize := by
  rw [CW.init_eq w he] at h ⊢
  by_cases hin : w.initialized = true
  · rw [if_pos hin]
    exact ⟨hi, he, hin, rfl, rfl, rfl, rfl, rfl⟩
  · have hin' : w.initialized = false := by simpa using hin
    simp only [hin', Bool.false_eq_true, ↓reduceIte] at h ⊢
    obtain ⟨p1, p2, p3, p4, p5, p6, p7, p8⟩ := hi.pristine hin'
    obtain ⟨c1, c2, c3, c4, io', ds', hform, hst, hen⟩ := CW.initBody_spec _ h
    simp only at c1 c2 c3 c4 hst hen
    rw [hform]
    simp only
    refine ⟨?_, he, trivial, trivial, trivial, trivial, trivial, trivial⟩
    by_cases hat : w.indexAtStart = true
    · obtain ⟨a1, a2, a3⟩ := hst hat
      have htk : (w.tempKind != 0) = true := by rw [c4, hat]
      constructor
      · intro h; simp at h
      · simp only [CW.stream, htk, ↓reduceIte, a2, p4, a3, p5, List.length_nil]; exact ⟨trivial, by omega⟩
      · intro _
        refine ⟨c4, c1, c2, c3, fun hc => by simp [hc], fun _ => by rw [a1, p3], fun hc => by rw [hat] at hc; simp at hc⟩
      · simp only [p1, p6]; simp [LeafLog]
      · simp [p1]
      · simp only [p1, p7]; simp
      · simp [p2]
      · intro _; trivial
      · simp only [p2, p8]; simp [ResEntries]
    · have hat' : w.indexAtStart = false := by simpa using hat
      obtain ⟨k, k0, k1, k2, k3, k4⟩ := hen hat'
      have hk : k = 0 := by
        rcases k0 with h | h
        · exact h
        · rw [h, p5, padAmount_zero]
      subst hk
      have htk : (w.tempKind != 0) = false := by rw [c4, hat']
      simp only [List.replicate_zero, List.append_nil, p3, List.nil_append] at k1
      constructor
      · intro h; simp at h
      · simp only [CW.stream, htk, Bool.false_eq_true, ↓reduceIte, k1, k3, p5]
        exact ⟨by simp [CW.indexLocationAtEndMagic], by omega⟩
      · intro _
        refine ⟨c4, c1, c2, c3, fun hc => by simp [hc], fun hc => by rw [hat'] at hc; simp at hc,
          fun _ => ⟨[], by rw [k1]; simp⟩⟩
      · simp only [p1, p6]; simp [LeafLog]
      · simp [p1]
      · simp only [p1, p7]; simp
      · simp [p2]
      · intro _; trivial
      · simp only [p2, p8]; simp [ResEntries]

/-- a successful `write` on an initialized ChunkWriter keeps the invariant -/
theorem CW.write_inv (w : CW) (hi : DataInv w) (hin : w.initialized = true) (h : (w.write data).2 = none) :
    DataInv (w.write data).1 ∧ w.SameBut (w.write data).1 ∧ (w.write data).1.err = w.err ∧
    ∃ k, (w.write data).1.stream = w.stream ++ List.replicate k 0 ++ data ∧
      (w.write data).1.dataSize = w.dataSize + k + data.length ∧ (w.write data).1.dataSize ≤ maxSize := by
  obtain ⟨k, _, k1, k2, k3, k4, k5, k6⟩ := CW.write_spec w data h
  refine ⟨?_, k1, k2, k, k5, k3, k4⟩
  generalize (w.write data).1 = w' at *
  have f1 : w'.initialized = w.initialized := by rw [k1]
  have f2 : w'.leafNodes = w.leafNodes := by rw [k1]
  have f3 : w'.resourcesCOffCLens = w.resourcesCOffCLens := by rw [k1]
  have f4 : w'.log = w.log := by rw [k1]
  have f5 : w'.codec = w.codec := by rw [k1]
  have f6 : w'.dFileSize = w.dFileSize := by rw [k1]
  have f7 : w'.tempKind = w.tempKind := by rw [k1]
  have f8 : w'.indexAtStart = w.indexAtStart := by rw [k1]
  have f9 : w'.cPageSize = w.cPageSize := by rw [k1]
  have f10 : w'.nilWriter = w.nilWriter := by rw [k1]
  have f11 : w'.log2CPageSize = w.log2CPageSize := by rw [k1]
  have f12 : w'.resLog = w.resLog := by rw [k1]
  obtain ⟨m1, m2, m3, m4, m5, m6, m7⟩ := hi.mode hin
  constructor
  · intro h0; rw [f1, hin] at h0; simp at h0
  · refine ⟨?_, k4⟩
    rw [k3, k5, hi.size.1]; simp [List.length_append]; omega
  · intro _
    rw [f7, f8, f9, f10, f11]
    refine ⟨m1, m2, m3, m4, m5, ?_, ?_⟩
    · intro hat
      have htk : (w.tempKind != 0) = true := by rw [m1, hat]
      have : w'.side = w'.io.wBytes := by simp [CW.side, f7, htk]
      rw [← this, k6]; simp only [CW.side, htk, ↓reduceIte]; exact m6 hat
    · intro hat
      have htk : (w.tempKind != 0) = false := by rw [m1, hat]
      have : w'.stream = w'.io.wBytes := by simp [CW.stream, f7, htk]
      obtain ⟨rest, hr⟩ := m7 hat
      rw [← this, k5]
      simp only [CW.stream, htk, Bool.false_eq_true, ↓reduceIte, hr]
      exact ⟨rest ++ List.replicate k 0 ++ data, by simp [List.append_assoc]⟩
  · rw [f2, f4, k5, List.append_assoc]; exact hi.leaves.mono _
  · rw [f2, f5]; exact hi.codec
  · rw [f2, f6]; exact hi.dsize
  · rw [f3]; intro x hx
    have := hi.res x hx
    exact ⟨this.1, by omega⟩
  · rw [f2, f1]; exact hi.live
  · rw [f3, f12, k5, List.append_assoc]; exact hi.resOK.mono _
end WuffsVerif.Rac
