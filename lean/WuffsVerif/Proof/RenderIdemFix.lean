/-
C12, the Wuffs formatter, idempotence, part 5: every output of the shape `Gen` is a fixed point —
the second run of `Render` on what `Tokenize` reads from the pieces writes the pieces again, byte
for byte (`gen_fixed`).  One token line of the second run: `run2_line`; a group of comment lines,
an optional blank line and a token line: `run2_group`.  Core Lean only.
-/
import WuffsVerif.Proof.RenderIdemGen

namespace WuffsVerif.Render
open WuffsVerif.FmtToken WuffsVerif.Gen.C12

/-! ### the line read back -/

theorem stripSemicolons_snd (g : List Tok) :
    (stripSemicolons g).2 = decide ((stripSemicolons g).1.length < g.length) := by
  unfold stripSemicolons
  simp

/-- `Render`'s second run strips exactly the implicit semicolon `Tokenize` added -/
theorem strip_out (l k m : Nat) (names lts : List Tok) (com : Bytes) (semis : List Tok)
    (hok : (Piece.toks k names m lts com semis).ok) (hok2 : (Piece.toks k names m lts com semis).ok2) :
    stripSemicolons ((Piece.toks k names m lts com semis).out l) = (outLine l names lts, endsStatement lts) := by
  obtain ⟨_, hl, hne, _, _, _, _⟩ := hok
  obtain ⟨_, hlast⟩ := hok2
  obtain ⟨init, tl, rfl⟩ : ∃ init tl, lts = init ++ [tl] := by
    cases hr : lts.reverse with
    | nil => exact absurd (List.reverse_eq_nil_iff.mp hr) hne
    | cons a as => exact ⟨as.reverse, a, by rw [← List.reverse_reverse lts, hr]; simp⟩
  have htlw : wfTok tl = true := hl tl (by simp)
  have htlid : tl.id ≠ idSemicolon := hlast tl (by simp)
  have hrid : ((retok l tl).id == idSemicolon) = false := by
    rw [retok_id htlw]
    simpa using htlid
  have hends : endsStatement (init ++ [tl]) = tl.implicitSemicolon := by
    unfold endsStatement; simp
  have hline : outLine l names (init ++ [tl]) = (names.map (rawtok l) ++ init.map (retok l)) ++ [retok l tl] := by
    simp [outLine, List.append_assoc]
  apply Prod.ext
  · simp only [Piece.out, hends]
    by_cases hi : tl.implicitSemicolon = true
    · simp only [hi, ↓reduceIte]
      have e : names.map (rawtok l) ++ (init ++ [tl]).map (retok l) ++ [⟨idSemicolon, [59], l⟩] =
          (names.map (rawtok l) ++ init.map (retok l)) ++ [retok l tl] ++ [⟨idSemicolon, [59], l⟩] := by
        simp [List.append_assoc]
      rw [e, stripSemicolons_snoc_semi _ _ l hrid, hline]
    · simp only [hi, Bool.false_eq_true, ↓reduceIte, List.append_nil]
      have e : names.map (rawtok l) ++ (init ++ [tl]).map (retok l) =
          (names.map (rawtok l) ++ init.map (retok l)) ++ [retok l tl] := by
        simp [List.append_assoc]
      rw [e, stripSemicolons_snoc_not _ _ hrid, hline]
  · rw [stripSemicolons_snd]
    simp only [Piece.out, hends]
    by_cases hi : tl.implicitSemicolon = true
    · simp only [hi, ↓reduceIte]
      have e : names.map (rawtok l) ++ (init ++ [tl]).map (retok l) ++ [⟨idSemicolon, [59], l⟩] =
          (names.map (rawtok l) ++ init.map (retok l)) ++ [retok l tl] ++ [⟨idSemicolon, [59], l⟩] := by
        simp [List.append_assoc]
      rw [e, stripSemicolons_snoc_semi _ _ l hrid]
      simp
    · simp only [hi, Bool.false_eq_true, ↓reduceIte, List.append_nil]
      have e : names.map (rawtok l) ++ (init ++ [tl]).map (retok l) =
          (names.map (rawtok l) ++ init.map (retok l)) ++ [retok l tl] := by
        simp [List.append_assoc]
      rw [e, stripSemicolons_snoc_not _ _ hrid]
      simp

theorem findColon_getElem : ∀ (A : List Tok) (i : Nat), findColon A = some i →
    ∃ a, A[i]? = some a ∧ a.id = idColon := by
  intro A
  induction A with
  | nil => intro i h; simp [findColon] at h
  | cons t ts ih =>
    intro i h
    unfold findColon at h ih
    rw [List.findIdx?_cons] at h
    split at h
    · rename_i hc
      simp only [Option.some.injEq] at h
      subst h
      exact ⟨t, rfl, by simpa using hc⟩
    · simp only [Option.map_eq_some_iff] at h
      obtain ⟨j, hj, rfl⟩ := h
      obtain ⟨a, ha, hid⟩ := ih j hj
      exact ⟨a, by simpa using ha, hid⟩

/-- the tokens of a line and the tokens read back from the rendered line -/
theorem outLine_rel (l c : Nat) (lt : List Tok) (hwf : ∀ t ∈ lt, wfTok t = true) :
    Forall2 OutRel lt (outLine l (lt.take c) (lt.drop c)) := by
  have h1 : Forall2 OutRel (lt.take c) ((lt.take c).map (rawtok l)) :=
    Forall2.map_right _ _ (fun t _ => outRel_raw t l)
  have h2 : Forall2 OutRel (lt.drop c) ((lt.drop c).map (retok l)) :=
    Forall2.map_right _ _ (fun t ht => outRel_retok (hwf t (List.mem_of_mem_drop ht)) l)
  have := Forall2.append h1 h2
  rwa [List.take_append_drop] at this

/-- the hypothesis of `lineLayout_rel` from `numColonFree` -/
theorem numColonFree_hnum (lt : List Tok) (h : numColonFree lt = true) :
    ∀ colon a, findColon lt = some (colon + 1) → lt[colon]? = some a → numHead a = false := by
  intro colon a hc ha
  obtain ⟨b, hb, hid⟩ := findColon_getElem lt _ hc
  exact numColonFree_getElem lt colon a b h ha hb hid

/-- `measureVarNameLength` in the second run: the walk over the pieces that follow -/
theorem measureVNL_out (l : Nat) (lt lt2 : List Tok) (hrel : Forall2 OutRel lt lt2)
    (hl : ∀ t ∈ lt2, t.line = l) (hnum : numColonFree lt = true) (rest : List Piece)
    (hok : ∀ p ∈ rest, p.ok ∧ p.ok3 ∧ p.numOK) :
    measureVarNameLength lt2 (piecesOut (l + 1) rest) = measureVP lt rest := by
  unfold measureVarNameLength measureVP
  rw [findColon_congr lt lt2 (outRel_ids hrel)]
  cases hc : findColon lt with
  | none => rfl
  | some x =>
    cases x with
    | zero => rfl
    | succ x =>
      simp only [Nat.add_sub_cancel]
      cases hn : lt[x]? with
      | none =>
        rw [hrel.getElem?_none x hn]
        cases lt2.head? <;> rfl
      | some tn =>
        obtain ⟨tn2, htn2, hr⟩ := hrel.getElem? x tn hn
        rw [htn2]
        have hhead : ∃ t0, lt2.head? = some t0 ∧ t0.line = l := by
          cases lt2 with
          | nil => simp at htn2
          | cons a as => exact ⟨a, rfl, hl a (by simp)⟩
        obtain ⟨t0, ht0, ht0l⟩ := hhead
        rw [ht0]
        simp only
        rw [ht0l, hr.2 (numColonFree_hnum lt hnum x tn hc hn)]
        exact measure_out (x + 1) (by omega) rest l _ _ hok (Nat.lt_succ_self _)

theorem lineLayout_c_le (indent : Nat) (hanging inStruct0 : Bool) (vnl0 mv : Nat) (lt : List Tok) :
    (lineLayout indent hanging inStruct0 vnl0 lt mv).c ≤ lt.length := by
  cases lt with
  | nil => simp [lineLayout]
  | cons lt0 ltRest =>
    unfold lineLayout
    simp only []
    by_cases h4 : (lt0 :: ltRest).length < 4
    · simp only [h4, ↓reduceIte]; omega
    · simp only [h4, ↓reduceIte]
      generalize (lt0.id == idPri || lt0.id == idPub) = pp
      generalize (ltRest.head?.map (·.id)).getD 0 = id1
      generalize hB : (id1 == idConst || lt0.id == idVar || if pp = true then id1 == idStruct else inStruct0) = B
      cases B with
      | false => simp only [Bool.false_eq_true, ↓reduceIte]; omega
      | true =>
        simp only [↓reduceIte]
        cases hc : findColon (lt0 :: ltRest) with
        | none => simp only; omega
        | some colon =>
          simp only
          exact Nat.le_of_lt (findIdx?_lt _ _ _ hc)

theorem getLast?_id_retok (l : Nat) (lts : List Tok) (hwf : ∀ t ∈ lts, wfTok t = true) :
    (lts.map (retok l)).getLast?.map (·.id) = lts.getLast?.map (·.id) := by
  rw [List.getLast?_map]
  cases h : lts.getLast? with
  | none => rfl
  | some t =>
    simp only [Option.map_some, Option.some.injEq]
    exact retok_id (hwf t (List.mem_of_getLast? h)) l

theorem lineStep_cons (comments : Array Bytes) (f : Nat) (s : RSt) (line : Nat) (lt : List Tok) (stripped : Bool)
    (src : List Tok) (hlt : lt ≠ []) :
    lineStep comments f s line lt stripped src =
      lineTail comments f src line stripped (if decide (s.prevLine < line - 1) then s.out ++ [10] else s.out)
        (tabs (lineLayout s.indent s.prevLineHanging s.inStruct
            (if decide (s.prevLine < line - 1) then 0 else s.varNameLength) lt (measureVarNameLength lt src)).z ++
          namesBytes (lt.take (lineLayout s.indent s.prevLineHanging s.inStruct
            (if decide (s.prevLine < line - 1) then 0 else s.varNameLength) lt (measureVarNameLength lt src)).c) ++
          List.replicate (lineLayout s.indent s.prevLineHanging s.inStruct
            (if decide (s.prevLine < line - 1) then 0 else s.varNameLength) lt (measureVarNameLength lt src)).pad 32)
        (lt.drop (lineLayout s.indent s.prevLineHanging s.inStruct
            (if decide (s.prevLine < line - 1) then 0 else s.varNameLength) lt (measureVarNameLength lt src)).c)
        (lineLayout s.indent s.prevLineHanging s.inStruct
            (if decide (s.prevLine < line - 1) then 0 else s.varNameLength) lt (measureVarNameLength lt src)).inStruct
        (lineLayout s.indent s.prevLineHanging s.inStruct
            (if decide (s.prevLine < line - 1) then 0 else s.varNameLength) lt (measureVarNameLength lt src)).vnl
        s.indent := by
  cases lt with
  | nil => exact absurd rfl hlt
  | cons a as => rfl

/-! ### one token line of the second run -/

/-- The second run on the token line read back from the piece `layoutPiece L lt com semis` (state
`s1` after the comments before it have been flushed): the piece's bytes are written again. -/
theorem run2_line (C : Array Bytes) (f lP : Nat) (s1 : RSt) (lt semis : List Tok) (com : Bytes) (L : Layout)
    (rest : List Piece) (i' : Nat)
    (hP : (layoutPiece L lt com semis).ok ∧ (layoutPiece L lt com semis).ok2 ∧
      (layoutPiece L lt com semis).ok3 ∧ (layoutPiece L lt com semis).numOK)
    (hrest : ∀ p ∈ rest, p.ok ∧ p.ok3 ∧ p.numOK)
    (hlt : lt ≠ [])
    (hL : L = lineLayout s1.indent s1.prevLineHanging s1.inStruct
      (if decide (s1.prevLine < lP - 1) then 0 else s1.varNameLength) lt (measureVP lt rest))
    (hind : lineIndent s1.indent (lt.drop L.c) = some i')
    (hC : getC C lP = (layoutPiece L lt com semis).outComment) :
    lineStep C f s1 lP (outLine lP (lt.take L.c) (lt.drop L.c)) (endsStatement (lt.drop L.c))
        (piecesOut (lP + 1) rest) =
      renderLoop C f
        ⟨(if decide (s1.prevLine < lP - 1) then s1.out ++ [10] else s1.out) ++ (layoutPiece L lt com semis).bytes,
          i', lP + 1, L.inStruct, L.vnl, lP, nextHanging (endsStatement (lt.drop L.c)) (lt.drop L.c)⟩
        (piecesOut (lP + 1) rest) := by
  obtain ⟨hok, hok2, hok3, hnumP⟩ := hP
  have hokk := hok
  obtain ⟨hnw, hlw, hlne, _, hcw, _, _⟩ := hokk
  have hwf : ∀ t ∈ lt, wfTok t = true := by
    intro t ht
    rw [← List.take_append_drop L.c lt] at ht
    rcases List.mem_append.mp ht with h | h
    · exact hnw t h
    · exact hlw t h
  have hnum : numColonFree lt = true := by
    have h1 : numColonFree (lt.take L.c ++ lt.drop L.c ++ semis) = true := hnumP
    rw [List.take_append_drop] at h1
    exact (numColonFree_append _ _ h1).1
  have hrel := outLine_rel lP L.c lt hwf
  have hlines : ∀ t ∈ outLine lP (lt.take L.c) (lt.drop L.c), t.line = lP := by
    intro t ht
    simp only [outLine, List.mem_append, List.mem_map] at ht
    rcases ht with ⟨a, _, rfl⟩ | ⟨a, _, rfl⟩ <;> rfl
  have hne2 : outLine lP (lt.take L.c) (lt.drop L.c) ≠ [] := by
    intro h
    have := hrel.length_eq
    rw [h] at this
    exact hlt (List.length_eq_zero_iff.mp this)
  have hcle : L.c ≤ lt.length := by rw [hL]; exact lineLayout_c_le _ _ _ _ _ _
  rw [lineStep_cons C f s1 lP _ _ _ hne2, measureVNL_out lP lt _ hrel hlines hnum rest hrest,
    lineLayout_rel _ _ _ _ _ lt _ hrel (numColonFree_hnum lt hnum), ← hL, lineTail_eq]
  have htake : (outLine lP (lt.take L.c) (lt.drop L.c)).take L.c = (lt.take L.c).map (rawtok lP) := by
    unfold outLine
    rw [List.take_left' (by simp only [List.length_map, List.length_take]; omega)]
  have hdrop : (outLine lP (lt.take L.c) (lt.drop L.c)).drop L.c = (lt.drop L.c).map (retok lP) := by
    unfold outLine
    rw [List.drop_left' (by simp only [List.length_map, List.length_take]; omega)]
  rw [htake, hdrop, lineIndent_congr _ _ _ (map_id_retok lP _ hlw), hind]
  simp only
  congr 1
  rw [namesBytes_raw, lineBody_retok lP _ none none false hlw trivial, getLast?_id_retok lP _ hlw,
    commentText_getC, hC]
  have hbytes : (layoutPiece L lt com semis).bytes =
      tabs L.z ++ namesBytes (lt.take L.c) ++ List.replicate L.pad 32 ++ lineBody none false (lt.drop L.c) ++
        (if com.isEmpty then [] else 32 :: 32 :: stripTrailingSpaces com) ++ [10] := by
    simp only [layoutPiece, Piece.bytes, tabs_replicate]
  have hcom : (if ((layoutPiece L lt com semis).outComment).isEmpty then ([] : Bytes)
      else (if false = true then tabs 0 else [32, 32]) ++
        stripTrailingSpaces (layoutPiece L lt com semis).outComment) =
      (if com.isEmpty then [] else 32 :: 32 :: stripTrailingSpaces com) := by
    simp only [layoutPiece, Piece.outComment, strip_isEmpty hcw, strip_idem, Bool.false_eq_true, ↓reduceIte]
    rfl
  rw [hbytes, hcom]
  simp only [nextHanging, List.append_assoc]

end WuffsVerif.Render
