/-
Pointwise meaning of `pixBytes` / `imageBytes` (the decoded pixel bytes of the round-trip theorem):
byte `i` of pixel `x` of row `r` is `pix[r*stride + k*x + i]`.
-/
import WuffsVerif.Proof.PngLoops

namespace WuffsVerif.Png.Uncomp
open WuffsVerif.Hash

theorem pixBytes_get (pix : Array UInt8) (n k : Nat) (hnk : n ≤ k) (cnt off : Nat)
    (hpix : off + k * cnt ≤ pix.size) (x i : Nat) (hx : x < cnt) (hi : i < n) :
    (pixBytes pix n k cnt off)[x * n + i]? = some (rd pix (off + k * x + i)) := by
  induction cnt generalizing off x with
  | zero => omega
  | succ cnt ih =>
    have hk : k * (cnt + 1) = k * cnt + k := by rw [Nat.mul_add, Nat.mul_one]
    have hl : (slice pix off (off + n)).length = n := by rw [length_slice _ _ _ (by omega)]; omega
    rw [pixBytes]
    cases x with
    | zero =>
      simp only [Nat.zero_mul, Nat.zero_add, Nat.mul_zero, Nat.add_zero]
      rw [List.getElem?_append_left (by rw [hl]; exact hi)]
      rw [List.getElem?_eq_getElem (by rw [hl]; exact hi), getElem_slice _ _ _ _ (by omega)]
    | succ x =>
      have e1 : (x + 1) * n + i = n + (x * n + i) := by rw [Nat.add_mul, Nat.one_mul]; omega
      have e2 : k * (x + 1) = k * x + k := by rw [Nat.mul_add, Nat.mul_one]
      rw [e1, List.getElem?_append_right (by rw [hl]; omega), hl]
      have : n + (x * n + i) - n = x * n + i := by omega
      rw [this, ih (off + k) (by omega) x (by omega), e2]
      congr 2
      omega

/-- byte `i` of pixel `x` of row `r` of the decoded image is `pix[(y+r)*stride + k*x + i]`. -/
theorem imageBytes_get (pix : Array UInt8) (n k width stride : Nat) (hnk : n ≤ k) (rows y : Nat)
    (hpix : ∀ y', y ≤ y' → y' < y + rows → y' * stride + k * width ≤ pix.size)
    (r x i : Nat) (hr : r < rows) (hx : x < width) (hi : i < n) :
    (imageBytes pix n k width stride rows y)[(r * width + x) * n + i]?
      = some (rd pix ((y + r) * stride + k * x + i)) := by
  induction rows generalizing y r with
  | zero => omega
  | succ rows ih =>
    have hrow := hpix y (by omega) (by omega)
    have hl := length_pixBytes pix n k width (y * stride) hnk hrow
    rw [imageBytes]
    cases r with
    | zero =>
      simp only [Nat.zero_mul, Nat.zero_add, Nat.add_zero]
      have hlt : x * n + i < width * n := by
        have : (x + 1) * n ≤ width * n := Nat.mul_le_mul_right _ (by omega)
        rw [Nat.add_mul, Nat.one_mul] at this
        omega
      rw [List.getElem?_append_left (by rw [hl]; exact hlt)]
      exact pixBytes_get pix n k hnk width (y * stride) hrow x i hx hi
    | succ r =>
      have e1 : ((r + 1) * width + x) * n + i = width * n + ((r * width + x) * n + i) := by
        simp only [Nat.add_mul, Nat.one_mul]; omega
      rw [e1, List.getElem?_append_right (by rw [hl]; omega), hl]
      have : width * n + ((r * width + x) * n + i) - width * n = (r * width + x) * n + i := by omega
      have e3 : y + 1 + r = y + (r + 1) := by omega
      rw [this, ih (y + 1) (fun y' h1 h2 => hpix y' (by omega) (by omega)) r (by omega), e3]

theorem length_imageBytes (pix : Array UInt8) (n k width stride : Nat) (hnk : n ≤ k) (rows y : Nat)
    (hpix : ∀ y', y ≤ y' → y' < y + rows → y' * stride + k * width ≤ pix.size) :
    (imageBytes pix n k width stride rows y).length = rows * (width * n) := by
  induction rows generalizing y with
  | zero => simp [imageBytes]
  | succ rows ih =>
    rw [imageBytes, List.length_append, length_pixBytes pix n k width (y * stride) hnk (hpix y (by omega) (by omega)),
      ih (y + 1) (fun y' h1 h2 => hpix y' (by omega) (by omega)), Nat.add_mul, Nat.one_mul]
    omega

end WuffsVerif.Png.Uncomp
