/-
C14 helper: the data invariant `DInv` of the data-level model of the concurrent reader
(Model/Rac/ConcData.lean) — definitions and the lemmas about the sequential pieces it is
built from (the Workers' own Readers, the in-memory reference reader).
-/
import WuffsVerif.Proof.RacConcDataSim
import WuffsVerif.Props.C14

set_option linter.unusedVariables false
set_option linter.unusedSimpArgs false

namespace WuffsVerif.Rac.ConcD
open WuffsVerif.Rac WuffsVerif.Rac.Conc

/-- bytes `[lo, hi)` of the decoded file -/
def slice (F : File) (lo hi : Nat) : List UInt8 := (F.bytes.drop lo).take (hi - lo)

/-- a result: a non-empty range inside the region of interest, carrying exactly its bytes -/
structure GoodItem (F : File) (rhi : Nat) (it : DItem) : Prop where
  ne : it.lo < it.hi
  le : it.hi ≤ rhi
  data : it.data = slice F it.lo it.hi

/-- a request -/
structure GoodReq (rhi : Nat) (it : DItem) : Prop where
  ne : it.lo < it.hi
  le : it.hi ≤ rhi

/-- a Worker: its Reader is healthy; while it has a range to read, its Reader is positioned
    on it; the result in its hand is good -/
structure GoodW (F : File) (rhi : Nat) (w : DW) : Prop where
  err : w.rd.err = none
  inv : Inv F w.rd
  dr : w.w.dr ≠ none → w.dlo < w.dhi ∧ w.dhi ≤ rhi ∧ w.rd.pos = w.dlo ∧ w.rd.posLimit = w.dhi
  out : w.w.out ≠ none → w.olo < w.ohi ∧ w.ohi ≤ rhi ∧ w.odata = slice F w.olo w.ohi

/-- the in-memory reference reader after the calls that have returned -/
def specAfter : Spec → List Op → Spec
  | s, [] => s
  | s, op :: ops => specAfter (s.step op).1 ops

def specOf (F : File) (s : DSt) : Spec := specAfter (Spec.init F.bytes true) s.hist

/-- which call is in progress, by the phase of `main` -/
def PendInv (s : DSt) : Prop :=
  match s.main with
  | .idle => s.pend = none
  | .closed => s.pend = none ∧ s.closed = true ∧ s.err ≠ none
  | .reading => (∃ n, s.pend = some (.read n)) ∧ s.err = none ∧ s.seekResolved = true ∧ s.closed = false
  | .sendRoi => (∃ n, s.pend = some (.read n)) ∧ s.err = none ∧ s.seekResolved = true ∧ s.closed = false
  | .stopping _ true => (∃ n, s.pend = some (.read n)) ∧ s.err = none ∧ s.seekResolved = true ∧ s.closed = false
  | .acking _ true => (∃ n, s.pend = some (.read n)) ∧ s.err = none ∧ s.seekResolved = true ∧ s.closed = false
  | .stopping _ false => s.pend = some .close ∧ s.closed = false
  | .acking _ false => s.pend = some .close ∧ s.closed = false

structure DInv (F : File) (s : DSt) : Prop where
  nofault : s.fault = false
  -- work items
  resc : ∀ it ∈ s.resc, GoodItem F s.mgr.rhi it
  comp : ∀ it ∈ s.completed, GoodItem F s.mgr.rhi it
  curr : ∀ it, s.curr = some it → GoodItem F s.mgr.rhi it
  reqc : ∀ it ∈ s.reqc, GoodReq s.mgr.rhi it
  mwork : s.mgr.m.work ≠ none → s.mgr.wlo < s.mgr.whi ∧ s.mgr.whi ≤ s.mgr.rhi
  rhi : s.mgr.rhi ≤ F.size
  wk : ∀ (i : Nat) (w : DW), s.ws[i]? = some w → GoodW F s.mgr.rhi w
  -- main
  lim : s.lim ≤ F.size
  seen : s.seekResolved = true → s.seenRead = true
  live : s.seekResolved = true → (s.main = .idle ∨ s.main = .reading) →
    s.mgr.rhi = s.lim ∧ ∀ it, s.curr = some it → s.pos = it.lo + s.ci ∧ s.ci ≤ it.data.length
  closedIff : s.closed = true → s.main = .closed
  pend : PendInv s
  -- the Read in progress
  rd : ∀ n, s.pend = some (.read n) → s.got.length + s.want = n ∧ s.pos ≤ s.lim ∧ (specOf F s).pos < s.lim
  nord : (∀ n, s.pend ≠ some (.read n)) → s.got = []
  -- the log
  log : s.results = Spec.run (Spec.init F.bytes true) s.hist
  sperr : (specOf F s).err = s.err
  spclosed : (specOf F s).closed = s.closed
  sp : s.err = none → (specOf F s).lim = s.lim ∧ (specOf F s).pos + s.got.length = s.pos ∧
    s.got = (F.bytes.drop (specOf F s).pos).take s.got.length

/-! ### the reference reader -/

theorem specAfter_append (s : Spec) (ops : List Op) (op : Op) :
    specAfter s (ops ++ [op]) = ((specAfter s ops).step op).1 := by
  induction ops generalizing s with
  | nil => rfl
  | cons o os ih => simp only [List.cons_append, specAfter]; exact ih _

theorem spec_run_append (s : Spec) (ops : List Op) (op : Op) :
    Spec.run s (ops ++ [op]) = Spec.run s ops ++ [((specAfter s ops).step op).2] := by
  induction ops generalizing s with
  | nil => simp [Spec.run, specAfter]
  | cons o os ih => simp only [List.cons_append, Spec.run, specAfter]; rw [ih]

theorem spec_step_const (s : Spec) (op : Op) :
    (s.step op).1.data = s.data ∧ (s.step op).1.stickyWhence = s.stickyWhence := by
  cases op with
  | read n => simp only [Spec.step]; split; exact ⟨rfl, rfl⟩; split <;> exact ⟨rfl, rfl⟩
  | seek off wh =>
    simp only [Spec.step]
    split
    · exact ⟨rfl, rfl⟩
    · split
      · split <;> exact ⟨rfl, rfl⟩
      · split <;> exact ⟨rfl, rfl⟩
  | seekRange lo hi =>
    simp only [Spec.step]
    split
    · exact ⟨rfl, rfl⟩
    · split
      · exact ⟨rfl, rfl⟩
      · split <;> exact ⟨rfl, rfl⟩
  | close =>
    simp only [Spec.step]
    split
    · exact ⟨rfl, rfl⟩
    · split <;> exact ⟨rfl, rfl⟩

theorem specAfter_const (s : Spec) (ops : List Op) :
    (specAfter s ops).data = s.data ∧ (specAfter s ops).stickyWhence = s.stickyWhence := by
  induction ops generalizing s with
  | nil => exact ⟨rfl, rfl⟩
  | cons o os ih =>
    simp only [specAfter]
    have h1 := ih (s.step o).1
    have h2 := spec_step_const s o
    exact ⟨by rw [h1.1, h2.1], by rw [h1.2, h2.2]⟩

theorem specOf_data (F : File) (s : DSt) : (specOf F s).data = F.bytes := (specAfter_const _ _).1
theorem specOf_sticky (F : File) (s : DSt) : (specOf F s).stickyWhence = true := (specAfter_const _ _).2

/-! ### a Worker's own Reader -/

/-- `racReader.SeekRange(lo, hi)` on a healthy Reader, `0 ≤ lo < hi ≤ size` -/
theorem worker_seekRange {F : File} (hv : F.valid = true) (r : R) (he : r.err = none) (hI : Inv F r)
    (lo hi : Nat) (hlt : lo < hi) (hhi : hi ≤ F.size) :
    (r.SeekRange F lo hi).2 = none ∧ (r.SeekRange F lo hi).1.err = none ∧ Inv F (r.SeekRange F lo hi).1 ∧
    (r.SeekRange F lo hi).1.pos = lo ∧ (r.SeekRange F lo hi).1.posLimit = hi := by
  have ht : seekTarget r.pos F.size (lo : Int) 0 = some (lo : Int) := by simp [seekTarget]
  obtain ⟨h1, h2, h3, h4, h5, _, _⟩ := Props.C14.seek_live hv r hI (lo : Int) 0 (hi : Int) (lo : Int) ht (by omega)
  simp only [R.SeekRange, he]
  rw [if_neg (by omega)]
  have e2 : (R.seek F r (lo : Int) 0 (hi : Int)).2.2 = none := by rw [h1]
  refine ⟨e2, by rw [h5]; exact he, h4, by rw [h2]; simp, ?_⟩
  rw [h3]
  omega

/-- `racReader.Read(buffer[:n])` on a healthy Reader positioned inside its range -/
theorem worker_read {F : File} (hv : F.valid = true) (r : R) (he : r.err = none) (hI : Inv F r)
    (n : Nat) (hlt : r.pos < r.posLimit) :
    let k := min n (r.posLimit - r.pos)
    (r.read F n).2.1 = (F.bytes.drop r.pos).take k ∧ (r.read F n).2.1.length = k ∧
    ((r.read F n).2.2 = none ∨ (r.read F n).2.2 = some .eof) ∧
    (r.read F n).1.err = none ∧ Inv F (r.read F n).1 ∧ (r.read F n).1.pos = r.pos + k ∧
    (r.read F n).1.posLimit = r.posLimit := by
  intro k
  simp only [R.read, he]
  rw [if_neg (by omega)]
  obtain ⟨hb, hee, hI', hp', hSame⟩ := readLoop_spec hv r k hI (by omega)
  have hlen : ((F.bytes.drop r.pos).take k).length = k := by
    have := File.bytes_length hv
    have := hI.lim
    simp only [List.length_take, List.length_drop]
    omega
  refine ⟨hb, by rw [hb]; exact hlen, ?_, by rw [hSame.2.1]; exact he, hI', hp', hSame.1⟩
  rw [hee]
  split
  · right; rfl
  · left; rfl

theorem slice_length {F : File} (hv : F.valid = true) {lo hi : Nat} (h : hi ≤ F.size) :
    (slice F lo hi).length = hi - lo := by
  have := File.bytes_length hv
  simp only [slice, List.length_take, List.length_drop]
  omega

end WuffsVerif.Rac.ConcD
