/-
Helper lemmas about `Model/Parse.lean`: the parser monad, and what the cycle-free
combinators return.
-/
import WuffsVerif.Model.Parse

namespace WuffsVerif.Parse
open WuffsVerif.Token WuffsVerif.Gen.C11

/-- `failHere` always fails with an ordinary `parse: … at file:line` error. -/
theorem failHere_run {α : Type} (s : PState) :
    ∃ l, (failHere : P α).run s = .error (.at l) := by
  unfold failHere curLine
  cases h : s.src <;> simp [StateT.run, bind, StateT.bind, get, getThe, MonadStateOf.get, StateT.get,
    pure, StateT.pure, Except.bind, Except.pure, throw, throwThe, MonadExceptOf.throw, StateT.lift,
    liftM, monadLift, MonadLift.monadLift, h]

end WuffsVerif.Parse
