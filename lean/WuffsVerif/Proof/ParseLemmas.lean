/-
Helper lemmas about `Model/Parse.lean`: a small program logic for the parser monad
(`OK m s`: running `m` from `s` either succeeds without growing the token list or fails with
an error other than `stuck`), the primitives, and the fuel-bounded loops.
-/
import WuffsVerif.Model.Parse

namespace WuffsVerif.Parse
open WuffsVerif.Token WuffsVerif.Gen.C11

/-- Running `m` from `s`: success never grows the remaining-token list, failure is never the
model's `stuck` marker. -/
def OK {α : Type} (m : P α) (s : PState) : Prop :=
  match m.run s with
  | .ok (_, s') => s'.src.length ≤ s.src.length
  | .error e => e ≠ .stuck

/-- As `OK`, but success consumes at least one token. -/
def OK1 {α : Type} (m : P α) (s : PState) : Prop :=
  match m.run s with
  | .ok (_, s') => s'.src.length < s.src.length
  | .error e => e ≠ .stuck

structure Good {α : Type} (m : P α) : Prop where
  ok : ∀ s, OK m s
structure Good1 {α : Type} (m : P α) : Prop where
  ok1 : ∀ s, OK1 m s

theorem OK1.ok {α : Type} {m : P α} {s : PState} (h : OK1 m s) : OK m s := by
  unfold OK1 at h; unfold OK
  cases hr : m.run s with
  | error e => simp [hr] at h ⊢; exact h
  | ok p => obtain ⟨a, s'⟩ := p; simp [hr] at h ⊢; omega

theorem Good1.good {α : Type} {m : P α} (h : Good1 m) : Good m := ⟨fun s => (h.ok1 s).ok⟩

theorem ok_pure {α : Type} (a : α) (s : PState) : OK (pure a : P α) s := by
  simp [OK, StateT.run, pure, StateT.pure, Except.pure]

theorem good_pure {α : Type} (a : α) : Good (pure a : P α) := ⟨fun s => ok_pure a s⟩

/-- Sequencing: `m` from `s`, then `f a` from wherever `m` ended. -/
theorem ok_bind {α β : Type} {m : P α} {f : α → P β} {s : PState}
    (hm : OK m s)
    (hf : ∀ a s', m.run s = .ok (a, s') → OK (f a) s') : OK (m >>= f) s := by
  unfold OK at hm ⊢
  simp only [StateT.run, bind, StateT.bind, Except.bind] at hm ⊢
  cases hr : m s with
  | error e => simp [hr] at hm ⊢; exact hm
  | ok p =>
    obtain ⟨a, s'⟩ := p
    simp [hr] at hm ⊢
    have := hf a s' (by simp [StateT.run, hr])
    unfold OK at this
    simp only [StateT.run] at this
    cases hr2 : f a s' with
    | error e => simp [hr2] at this ⊢; exact this
    | ok q => obtain ⟨b, s''⟩ := q; simp [hr2] at this ⊢; omega

theorem good_bind {α β : Type} {m : P α} {f : α → P β}
    (hm : Good m) (hf : ∀ a, Good (f a)) : Good (m >>= f) :=
  ⟨fun s => ok_bind (hm.ok s) (fun a s' _ => (hf a).ok s')⟩

theorem ok1_bind_left {α β : Type} {m : P α} {f : α → P β} {s : PState}
    (hm : OK1 m s)
    (hf : ∀ a s', m.run s = .ok (a, s') → OK (f a) s') : OK1 (m >>= f) s := by
  unfold OK1 at hm ⊢
  simp only [StateT.run, bind, StateT.bind, Except.bind] at hm ⊢
  cases hr : m s with
  | error e => simp [hr] at hm ⊢; exact hm
  | ok p =>
    obtain ⟨a, s'⟩ := p
    simp [hr] at hm ⊢
    have := hf a s' (by simp [StateT.run, hr])
    unfold OK at this
    simp only [StateT.run] at this
    cases hr2 : f a s' with
    | error e => simp [hr2] at this ⊢; exact this
    | ok q => obtain ⟨b, s''⟩ := q; simp [hr2] at this ⊢; omega

theorem ok1_bind_right {α β : Type} {m : P α} {f : α → P β} {s : PState}
    (hm : OK m s)
    (hf : ∀ a s', m.run s = .ok (a, s') → OK1 (f a) s') : OK1 (m >>= f) s := by
  unfold OK at hm
  unfold OK1
  simp only [StateT.run, bind, StateT.bind, Except.bind] at hm ⊢
  cases hr : m s with
  | error e => simp [hr] at hm ⊢; exact hm
  | ok p =>
    obtain ⟨a, s'⟩ := p
    simp [hr] at hm ⊢
    have := hf a s' (by simp [StateT.run, hr])
    unfold OK1 at this
    simp only [StateT.run] at this
    cases hr2 : f a s' with
    | error e => simp [hr2] at this ⊢; exact this
    | ok q => obtain ⟨b, s''⟩ := q; simp [hr2] at this ⊢; omega

/-! ## primitives -/

theorem run_get (s : PState) : (get : P PState).run s = .ok (s, s) := rfl

theorem good_get : Good (get : P PState) := ⟨fun s => by
  simp [OK, run_get, pure, Except.pure]⟩

theorem good1_failHere {α : Type} : Good1 (failHere : P α) := ⟨fun s => by
  unfold OK1 failHere curLine
  cases h : s.src <;> simp [StateT.run, bind, StateT.bind, get, getThe, MonadStateOf.get, StateT.get,
    pure, StateT.pure, Except.bind, Except.pure, throw, throwThe, MonadExceptOf.throw, StateT.lift, h]⟩

theorem failHere_error {α : Type} (s : PState) : ∃ l, (failHere : P α).run s = .error (.at l) := by
  unfold failHere curLine
  cases h : s.src <;> simp [StateT.run, bind, StateT.bind, get, getThe, MonadStateOf.get,
    StateT.get, pure, StateT.pure, Except.bind, Except.pure, throw, throwThe,
    MonadExceptOf.throw, StateT.lift, h]

/-- Whatever follows a `failHere` is never run. -/
theorem ok_failHere_bind {α β : Type} (f : α → P β) (s : PState) : OK ((failHere : P α) >>= f) s := by
  apply ok_bind (good1_failHere.good.ok s)
  intro a s' hrun
  obtain ⟨l, hl⟩ := failHere_error (α := α) s
  rw [hl] at hrun
  cases hrun

theorem good1_throw_at {α : Type} (l : Nat) : Good1 (throw (.at l) : P α) := ⟨fun s => by
  simp [OK1, StateT.run, throw, throwThe, MonadExceptOf.throw, StateT.lift, bind, Except.bind]⟩

theorem good1_throw_internal {α : Type} : Good1 (throw .internal : P α) := ⟨fun s => by
  simp [OK1, StateT.run, throw, throwThe, MonadExceptOf.throw, StateT.lift, bind, Except.bind]⟩

theorem run_peek1 (s : PState) : ∃ x, (peek1 : P Nat).run s = .ok (x, s) ∧
    (x ≠ 0 → s.src ≠ []) := by
  unfold peek1
  cases h : s.src with
  | nil => exact ⟨0, by simp [StateT.run, bind, StateT.bind, get, getThe, MonadStateOf.get,
      StateT.get, pure, StateT.pure, Except.bind, Except.pure, h], by simp⟩
  | cons t rest => exact ⟨t.id, by simp [StateT.run, bind, StateT.bind, get, getThe,
      MonadStateOf.get, StateT.get, pure, StateT.pure, Except.bind, Except.pure, h], by simp⟩

theorem good_peek1 : Good peek1 := ⟨fun s => by
  obtain ⟨x, hx, _⟩ := run_peek1 s
  simp [OK, hx]⟩

theorem run_curLine (s : PState) : ∃ x, (curLine : P Nat).run s = .ok (x, s) := by
  unfold curLine
  cases h : s.src <;> simp [StateT.run, bind, StateT.bind, get, getThe, MonadStateOf.get,
      StateT.get, pure, StateT.pure, Except.bind, Except.pure, h]

theorem good_curLine : Good curLine := ⟨fun s => by
  obtain ⟨x, hx⟩ := run_curLine s
  simp [OK, hx]⟩

theorem run_remaining (s : PState) : (remaining : P Nat).run s = .ok (s.src.length, s) := by
  simp [remaining, StateT.run, bind, StateT.bind, get, getThe, MonadStateOf.get,
      StateT.get, pure, StateT.pure, Except.bind, Except.pure]

theorem good_remaining : Good remaining := ⟨fun s => by simp [OK, run_remaining]⟩

theorem run_skip (s : PState) : (skip : P Unit).run s = .ok ((), { s with src := s.src.drop 1 }) := by
  simp [skip, StateT.run, modify, modifyGet, MonadStateOf.modifyGet, StateT.modifyGet, pure,
    Except.pure]

theorem good_skip : Good skip := ⟨fun s => by
  simp [OK, run_skip]⟩

/-- `skip` on a non-empty source consumes a token. -/
theorem ok1_skip (s : PState) (h : s.src ≠ []) : OK1 skip s := by
  simp only [OK1, run_skip]
  cases hs : s.src with
  | nil => exact absurd hs h
  | cons t rest => simp

/-- `expect id` for a real (non-zero) token id consumes it. -/
theorem good1_expect (id : Nat) (hid : id ≠ 0) : Good1 (expect id) := ⟨fun s => by
  unfold expect
  obtain ⟨x, hx, hne⟩ := run_peek1 s
  apply ok1_bind_right (good_peek1.ok s)
  intro a s' hrun
  rw [hx] at hrun
  simp at hrun
  obtain ⟨ha, hs⟩ := hrun
  subst ha; subst hs
  split
  · rename_i heq
    have : x = id := by simpa using heq
    exact ok1_skip s (hne (by omega))
  · exact good1_failHere.ok1 s⟩

end WuffsVerif.Parse

namespace WuffsVerif.Parse
open WuffsVerif.Token WuffsVerif.Gen.C11

theorem good_modify (f : PState → PState) (h : ∀ s, (f s).src = s.src) :
    Good (modify f : P Unit) := ⟨fun s => by
  simp [OK, StateT.run, modify, modifyGet, MonadStateOf.modifyGet, StateT.modifyGet, pure,
    Except.pure, h]⟩

theorem good_set_same (s0 : PState) (f : PState → PState) (h : (f s0).src = s0.src) :
    OK (set (f s0) : P Unit) s0 := by
  simp [OK, StateT.run, set, MonadStateOf.set, StateT.set, pure, Except.pure, h]

/-- Extensible leaf rule set for `good_auto`. -/
syntax "good_leaf" : tactic
macro_rules | `(tactic| good_leaf) => `(tactic| assumption)
macro_rules | `(tactic| good_leaf) => `(tactic| exact good_pure _)
macro_rules | `(tactic| good_leaf) => `(tactic| exact good1_failHere.good)
macro_rules | `(tactic| good_leaf) => `(tactic| exact good1_throw_internal.good)
macro_rules | `(tactic| good_leaf) => `(tactic| exact (good1_throw_at _).good)
macro_rules | `(tactic| good_leaf) => `(tactic| exact good_peek1)
macro_rules | `(tactic| good_leaf) => `(tactic| exact good_get)
macro_rules | `(tactic| good_leaf) => `(tactic| exact good_skip)
macro_rules | `(tactic| good_leaf) => `(tactic| exact good_curLine)
macro_rules | `(tactic| good_leaf) => `(tactic| exact good_remaining)
macro_rules | `(tactic| good_leaf) => `(tactic| exact (good1_expect _ (by decide)).good)
macro_rules | `(tactic| good_leaf) => `(tactic| (apply Good1.good; assumption))
macro_rules | `(tactic| good_leaf) => `(tactic| (apply good_modify; intro _; rfl))

/-- Closes `Good _` goals for straight-line monadic code built from the primitives, the
hypotheses in the context and already proved `Good` lemmas. -/
syntax "good_auto" : tactic
macro_rules
  | `(tactic| good_auto) => `(tactic| repeat' (first
      | good_leaf
      | apply good_bind
      | intro _
      | split
      | (show Good _; dsimp only)
      | (injections; subst_vars; good_leaf)
      | (exfalso; omega)))

theorem good1_parseIdent (env : Env) : Good1 (parseIdent env) := ⟨fun s => by
  unfold parseIdent
  apply ok1_bind_right (good_get.ok s)
  intro a s' hrun
  rw [run_get] at hrun
  simp [pure, Except.pure] at hrun
  obtain ⟨ha, hs⟩ := hrun
  subst ha; subst hs
  split
  · exact good1_failHere.ok1 s
  · rename_i t rest hsrc
    split
    · exact good1_failHere.ok1 s
    · apply ok1_bind_left (ok1_skip s (by simp [hsrc]))
      intro _ _ _
      exact ok_pure _ _⟩

theorem good_parseIdent (env : Env) : Good (parseIdent env) := (good1_parseIdent env).good

theorem good1_bind_left {α β : Type} {m : P α} {f : α → P β}
    (hm : Good1 m) (hf : ∀ a, Good (f a)) : Good1 (m >>= f) :=
  ⟨fun s => ok1_bind_left (hm.ok1 s) (fun a s' _ => (hf a).ok s')⟩

theorem good1_bind_right {α β : Type} {m : P α} {f : α → P β}
    (hm : Good m) (hf : ∀ a, Good1 (f a)) : Good1 (m >>= f) :=
  ⟨fun s => ok1_bind_right (hm.ok s) (fun a s' _ => (hf a).ok1 s')⟩

theorem good1_parseQualifiedIdent (env : Env) : Good1 (parseQualifiedIdent env) := by
  unfold parseQualifiedIdent
  apply good1_bind_left (good1_parseIdent env)
  intro x
  have hid := good_parseIdent env
  good_auto

theorem good_parseLabel (env : Env) : Good (parseLabel env) := by
  unfold parseLabel
  have hid := good_parseIdent env
  good_auto

theorem good_parseEffect : Good parseEffect := by
  unfold parseEffect
  good_auto

end WuffsVerif.Parse

namespace WuffsVerif.Parse
open WuffsVerif.Token WuffsVerif.Gen.C11

theorem OK.le {α : Type} {m : P α} {s s' : PState} {a : α} (h : OK m s)
    (hrun : m.run s = .ok (a, s')) : s'.src.length ≤ s.src.length := by
  unfold OK at h; rw [hrun] at h; exact h

theorem run_peek1_eq {s s' : PState} {x : Nat} (h : (peek1 : P Nat).run s = .ok (x, s')) :
    s' = s ∧ (x ≠ 0 → s.src ≠ []) := by
  obtain ⟨y, hy, hne⟩ := run_peek1 s
  rw [hy] at h
  simp at h
  obtain ⟨h1, h2⟩ := h
  subst h1; subst h2
  exact ⟨rfl, hne⟩

theorem run_skip_eq {s s' : PState} {u : Unit} (h : (skip : P Unit).run s = .ok (u, s')) :
    s'.src = s.src.drop 1 := by
  rw [run_skip] at h
  simp at h
  subst h
  simp

theorem run_get_eq {s s' a : PState} (h : (get : P PState).run s = .ok (a, s')) :
    a = s ∧ s' = s := by
  rw [run_get] at h
  simp [pure, Except.pure] at h
  exact ⟨h.1.symm, h.2.symm⟩

/-- The `parseList` loop never runs out of fuel when started with more fuel than tokens:
every further iteration has consumed the separating comma. -/
theorem ok_parseListLoop (env : Env) (stop : Nat) (elem : P Node) (hel : Good elem) :
    ∀ fuel acc s, s.src.length < fuel → OK (parseListLoop env stop elem fuel acc) s := by
  intro fuel
  induction fuel with
  | zero => intro acc s h; omega
  | succ fuel ih =>
    intro acc s hfuel
    unfold parseListLoop
    apply ok_bind (good_get.ok s)
    intro s0 s' hrun
    obtain ⟨h1, h2⟩ := run_get_eq hrun
    subst h1; subst h2
    split
    · exact good1_failHere.good.ok _
    · split
      · exact (by good_auto : Good _).ok _
      · split
        · exact (by good_auto : Good _).ok _
        · apply ok_bind (hel.ok _)
          intro e s1 hrun1
          have hle1 := (hel.ok _).le hrun1
          apply ok_bind (good_peek1.ok _)
          intro x s2 hrun2
          obtain ⟨hs2, hne⟩ := run_peek1_eq hrun2
          subst hs2
          split
          · exact (by good_auto : Good _).ok _
          · split
            · rename_i hcomma
              have hx : x = IDComma := by simpa using hcomma
              have hne' : s2.src ≠ [] := hne (by rw [hx]; decide)
              apply ok_bind (good_skip.ok _)
              intro u s3 hrun3
              have hs3 := run_skip_eq hrun3
              apply ih
              rw [hs3]
              cases hsrc : s2.src with
              | nil => exact absurd hsrc hne'
              | cons t rest =>
                rw [hsrc] at hle1
                simp at hle1 ⊢
                omega
            · exact good1_failHere.good.ok _

theorem good_parseList (env : Env) (stop : Nat) (elem : P Node) (hel : Good elem) :
    Good (parseList env stop elem) := ⟨fun s => by
  unfold parseList
  apply ok_bind ((by good_auto : Good _).ok s)
  intro _ s1 _
  apply ok_bind (good_remaining.ok s1)
  intro n s2 hrun
  rw [run_remaining] at hrun
  simp at hrun
  obtain ⟨hn, hs⟩ := hrun
  subst hn; subst hs
  exact ok_parseListLoop env stop elem hel _ _ _ (by omega)⟩

/-- With `stop = )` the list starts with `expect (`, so it consumes a token. -/
theorem good1_parseList_paren (env : Env) (elem : P Node) (hel : Good elem) :
    Good1 (parseList env IDCloseParen elem) := ⟨fun s => by
  unfold parseList
  have h1 : Good1 (if (IDCloseParen == IDCloseParen) = true then expect IDOpenParen else pure ()) := by
    simp only [beq_self_eq_true, ite_true]
    exact good1_expect _ (by decide)
  apply ok1_bind_left (h1.ok1 s)
  intro _ s1 _
  apply ok_bind (good_remaining.ok s1)
  intro n s2 hrun
  rw [run_remaining] at hrun
  simp at hrun
  obtain ⟨hn, hs⟩ := hrun
  subst hn; subst hs
  exact ok_parseListLoop env _ elem hel _ _ _ (by omega)⟩

end WuffsVerif.Parse

namespace WuffsVerif.Parse
open WuffsVerif.Token WuffsVerif.Gen.C11

macro_rules | `(tactic| good_leaf) => `(tactic| exact good_parseIdent _)
macro_rules | `(tactic| good_leaf) => `(tactic| exact (good1_parseQualifiedIdent _).good)
macro_rules | `(tactic| good_leaf) => `(tactic| exact good_parseLabel _)
macro_rules | `(tactic| good_leaf) => `(tactic| exact good_parseEffect)
macro_rules | `(tactic| good_leaf) => `(tactic| apply good_parseList)

theorem good1_parseArgNode (env : Env) (pe : P Node) (hpe : Good pe) :
    Good1 (parseArgNode env pe) := by
  unfold parseArgNode
  apply good1_bind_left (good1_parseIdent env)
  good_auto

theorem good_parseArgNode (env : Env) (pe : P Node) (hpe : Good pe) :
    Good (parseArgNode env pe) := (good1_parseArgNode env pe hpe).good

macro_rules | `(tactic| good_leaf) => `(tactic| apply good_parseArgNode)

theorem good1_parseBracket (sep : Nat) (pe : P Node) (hpe : Good pe) :
    Good1 (parseBracket sep pe) := by
  unfold parseBracket
  apply good1_bind_left (good1_expect _ (by decide))
  good_auto

theorem good_parseBracket (sep : Nat) (pe : P Node) (hpe : Good pe) :
    Good (parseBracket sep pe) := (good1_parseBracket sep pe hpe).good

macro_rules | `(tactic| good_leaf) => `(tactic| apply good_parseBracket)

theorem good_parseAssertNode (env : Env) (pe : P Node) (hpe : Good pe) :
    Good (parseAssertNode env pe) := by
  unfold parseAssertNode
  good_auto

macro_rules | `(tactic| good_leaf) => `(tactic| apply good_parseAssertNode)

theorem good_assertsSorted (l : List Node) (c : Bool) : Good (assertsSorted l c) := by
  unfold assertsSorted
  good_auto

macro_rules | `(tactic| good_leaf) => `(tactic| exact good_assertsSorted _ _)

theorem good_parseAsserts (env : Env) (pe : P Node) (hpe : Good pe) :
    Good (parseAsserts env pe) := by
  unfold parseAsserts
  good_auto

macro_rules | `(tactic| good_leaf) => `(tactic| apply good_parseAsserts)

end WuffsVerif.Parse

namespace WuffsVerif.Parse
open WuffsVerif.Token WuffsVerif.Gen.C11

theorem length_drop_one_lt {α : Type} (l : List α) (h : l ≠ []) : (l.drop 1).length < l.length := by
  cases l with
  | nil => exact absurd rfl h
  | cons a r => simp

/-- The associative-operator loop of `parseExpr1`: each further iteration consumed the operator. -/
theorem ok_assocLoop (pOp : P Node) (hop : Good pOp) (x : Nat) (hx : x ≠ 0) :
    ∀ fuel acc s, s.src.length < fuel → OK (assocLoop pOp x fuel acc) s := by
  intro fuel
  induction fuel with
  | zero => intro acc s h; omega
  | succ fuel ih =>
    intro acc s hfuel
    unfold assocLoop
    apply ok_bind (good_peek1.ok s)
    intro y s1 hrun1
    obtain ⟨hs1, hne⟩ := run_peek1_eq hrun1
    subst hs1
    split
    · rename_i heq
      have hy : y = x := by simpa using heq
      have hne' : s1.src ≠ [] := hne (by omega)
      apply ok_bind (good_skip.ok _)
      intro u s2 hrun2
      have hs2 := run_skip_eq hrun2
      have hlt : s2.src.length < s1.src.length := by rw [hs2]; exact length_drop_one_lt _ hne'
      apply ok_bind (hop.ok _)
      intro arg s3 hrun3
      have hle3 := (hop.ok _).le hrun3
      apply ih
      omega
    · exact ok_pure _ _

/-- The postfix loop of `parseOperand`: every iteration consumes `(`/`!`/`?`, `[` or `.`. -/
theorem ok_operandLoop (env : Env) (pe : P Node) (hpe : Good pe) :
    ∀ fuel cnt first lhs s, s.src.length < fuel →
      OK (operandLoop env pe fuel cnt first lhs) s := by
  intro fuel
  induction fuel with
  | zero => intro cnt first lhs s h; omega
  | succ fuel ih =>
    intro cnt first lhs s0 hfuel0
    unfold operandLoop
    dsimp only
    split
    · exact ok_failHere_bind _ _
    rename_i hcnt
    have hfuel := hfuel0
    revert hfuel
    generalize s0 = s
    intro hfuel
    apply ok_bind (good_peek1.ok s)
    intro x s1 hrun1
    obtain ⟨hs1, hne⟩ := run_peek1_eq hrun1
    subst hs1
    split
    · -- call
      have hfl : Good (if (x == IDOpenParen) = true then (pure 0 : P Nat) else parseEffect) := by good_auto
      apply ok_bind (hfl.ok _)
      intro flags s2 hrun2
      have hle2 := (hfl.ok _).le hrun2
      have hg1 := good1_parseList_paren env (parseArgNode env pe) (good_parseArgNode env pe hpe)
      have h3 := hg1.ok1 s2
      apply ok_bind h3.ok
      intro args s3 hrun3
      have hlt3 : s3.src.length < s2.src.length := by
        unfold OK1 at h3; rw [hrun3] at h3; exact h3
      apply ih
      omega
    · split
      · -- index / slice
        have hg1 := good1_parseBracket IDDotDot pe hpe
        have h2 := hg1.ok1 s1
        apply ok_bind h2.ok
        intro r s2 hrun2
        have hlt2 : s2.src.length < s1.src.length := by
          unfold OK1 at h2; rw [hrun2] at h2; exact h2
        obtain ⟨id0, mhs, rhs⟩ := r
        apply ih
        omega
      · split
        · -- selector
          rename_i hdot
          have hx : x = IDDot := by simpa using hdot
          have hne' : s1.src ≠ [] := hne (by rw [hx]; decide)
          apply ok_bind (good_skip.ok _)
          intro u s2 hrun2
          have hs2 := run_skip_eq hrun2
          have hlt : s2.src.length < s1.src.length := by rw [hs2]; exact length_drop_one_lt _ hne'
          apply ok_bind (good_peek1.ok _)
          intro sel s3 hrun3
          obtain ⟨hs3, _⟩ := run_peek1_eq hrun3
          subst hs3
          have hsel : Good (if (first && isDQStrLiteral env.tm sel) = true then
              (do skip; pure sel : P Nat) else parseIdent env) := by good_auto
          apply ok_bind (hsel.ok _)
          intro selector s4 hrun4
          have hle4 := (hsel.ok _).le hrun4
          apply ih
          omega
        · exact ok_pure _ _

/-- The statement loop of `parseBlock`: every statement is followed by a consumed `;`. -/
theorem ok_blockLoop (pStmt : P Node) (hst : Good pStmt) (dc : Bool) :
    ∀ fuel acc s, s.src.length < fuel → OK (blockLoop pStmt dc fuel acc) s := by
  intro fuel
  induction fuel with
  | zero => intro acc s h; omega
  | succ fuel ih =>
    intro acc s hfuel
    unfold blockLoop
    apply ok_bind (good_get.ok s)
    intro s0 s' hrun
    obtain ⟨h1, h2⟩ := run_get_eq hrun
    subst h1; subst h2
    split
    · exact good1_failHere.good.ok _
    · split
      · exact (by good_auto : Good _).ok _
      · apply ok_bind (hst.ok _)
        intro st s1 hrun1
        have hle1 := (hst.ok _).le hrun1
        have h2 := (good1_expect IDSemicolon (by decide)).ok1 s1
        apply ok_bind h2.ok
        intro u s2 hrun2
        have hlt2 : s2.src.length < s1.src.length := by
          unfold OK1 at h2; rw [hrun2] at h2; exact h2
        apply ih
        omega

end WuffsVerif.Parse

namespace WuffsVerif.Parse
open WuffsVerif.Token WuffsVerif.Gen.C11

theorem isBinaryOp_ne_zero (x : Nat) (h : isBinaryOp x = true) : x ≠ 0 := by
  unfold isBinaryOp at h
  simp only [Bool.and_eq_true, decide_eq_true_eq] at h
  have : minOp ≤ x := h.1.1
  simp [minOp] at this
  omega

theorem good_assocAll (pOp : P Node) (hop : Good pOp) (x : Nat) (hx : x ≠ 0) (acc : List Node) :
    Good (assocAll pOp x acc) := ⟨fun s => by
  unfold assocAll
  apply ok_bind (good_remaining.ok s)
  intro n s2 hrun
  rw [run_remaining] at hrun
  simp at hrun
  obtain ⟨hn, hs⟩ := hrun
  subst hn; subst hs
  exact ok_assocLoop pOp hop x hx _ _ _ (by omega)⟩

theorem good_operandAll (env : Env) (pe : P Node) (hpe : Good pe) (lhs : Node) :
    Good (operandAll env pe lhs) := ⟨fun s => by
  unfold operandAll
  apply ok_bind (good_remaining.ok s)
  intro n s2 hrun
  rw [run_remaining] at hrun
  simp at hrun
  obtain ⟨hn, hs⟩ := hrun
  subst hn; subst hs
  exact ok_operandLoop env pe hpe _ _ _ _ _ (by omega)⟩

theorem good_blockAll (pStmt : P Node) (hst : Good pStmt) (dc : Bool) :
    Good (blockAll pStmt dc) := ⟨fun s => by
  unfold blockAll
  apply ok_bind (good_remaining.ok s)
  intro n s2 hrun
  rw [run_remaining] at hrun
  simp at hrun
  obtain ⟨hn, hs⟩ := hrun
  subst hn; subst hs
  exact ok_blockLoop pStmt hst dc _ _ _ (by omega)⟩

macro_rules | `(tactic| good_leaf) => `(tactic| apply good_operandAll)
macro_rules | `(tactic| good_leaf) => `(tactic| apply good_blockAll)
macro_rules | `(tactic| good_leaf) => `(tactic| (apply good_assocAll; assumption; (apply isBinaryOp_ne_zero; assumption)))

/-- The five functions of the expression cycle, at given depth budgets. -/
structure CoreGood (env : Env) (e t b : Nat) : Prop where
  expr : Good (pExpr env e t b)
  typeExpr : Good (pTypeExpr env e t b)
  possibleList : Good (pPossibleList env e t b)
  operand : Good (pOperand env e t b)
  expr1 : Good (pExpr1 env e t b)

set_option maxRecDepth 8192 in
theorem core_step (env : Env) (e t b : Nat)
    (ih : ∀ e' t' b', e' + t' + b' < e + t + b → CoreGood env e' t' b') : CoreGood env e t b := by
  have hExpr : Good (pExpr env e t b) := by
    cases e with
    | zero => unfold pExpr; exact good1_failHere.good
    | succ e' =>
      have h1 := (ih e' t b (by omega)).expr1
      unfold pExpr
      good_auto
  have hType : Good (pTypeExpr env e t b) := by
    cases t with
    | zero => unfold pTypeExpr; exact good1_failHere.good
    | succ t' =>
      have h1 := (ih e t' b (by omega)).typeExpr
      have h2 := (ih e t' b (by omega)).expr
      unfold pTypeExpr
      good_auto
  have hPoss : Good (pPossibleList env e t b) := by
    cases e with
    | zero => unfold pPossibleList; good_auto
    | succ e' =>
      have h1 := (ih e' t b (by omega)).possibleList
      unfold pPossibleList
      good_auto
  have hOperand : Good (pOperand env e t b) := by
    cases e with
    | zero => unfold pOperand; good_auto
    | succ e' =>
      have h1 := (ih e' t b (by omega)).operand
      unfold pOperand
      good_auto
  have hExpr1 : Good (pExpr1 env e t b) := by
    unfold pExpr1
    good_auto
  exact ⟨hExpr, hType, hPoss, hOperand, hExpr1⟩

theorem core_good (env : Env) : ∀ n e t b, e + t + b = n → CoreGood env e t b := by
  intro n
  induction n using Nat.strongRecOn with
  | _ n ih =>
    intro e t b h
    apply core_step
    intro e' t' b' hlt
    exact ih (e' + t' + b') (by omega) e' t' b' rfl

end WuffsVerif.Parse
