/-
C04 — lemmas about the slow path of the multi-byte reads
(Model/CCoro.lean `readTmpl`): one round of its `while (true)` as a function of
the scratch word and the next byte (`round`), and what that function does to a
scratch word that holds a partial value (`partialV`).
Core Lean only.
-/
import WuffsVerif.Model.CCoro

namespace WuffsVerif.CCoro

/-- the body of the `while (true)` of writeReadUxxAsUyy -/
def loopBody (n yy : Nat) (be : Bool) : List Tm :=
  open Tm Atom in
  [ifThen .empty [atom setShortRead, gotoSuspend],
   atom scratchPtr,
   atom (nbLoad be),
   atom (if be then shr8 else shl8),
   atom (if be then shl8 else shr8),
   atom (orByte be),
   ifThen (.nbEq (8 * n - 8)) [atom (setT n yy be), brk],
   atom nbInc,
   atom (orNb be)]

theorem readTmpl_eq (n yy : Nat) (be : Bool) (k : Nat) :
    readTmpl n yy be k = .block [.point k, .atom .declT,
      .ifElse (.availGE n) [.atom (.peekT n yy be), .atom (.adv n)]
        [.atom .scratch0, .point (k + 1), .whileTrue (loopBody n yy be)],
      .atom .store] := rfl

theorem readTmplM3_eq (n yy : Nat) (be : Bool) (k : Nat) :
    readTmplM3 n yy be k = .block [.point k, .atom .declT,
      .ifElse (.availGE n) [.atom (.peekT n yy be), .atom (.adv n)]
        [.point (k + 1), .atom .scratch0, .whileTrue (loopBody n yy be)],
      .atom .store] := rfl

/-- `num_bits` as the round loads it -/
def roundNb (be : Bool) (scratch : Nat) : Nat := if be then scratch % 256 else scratch >>> 56

/-- the scratch word after the byte `b` has been or-ed in -/
def roundScratch (be : Bool) (scratch b : Nat) : Nat :=
  (if be then u64 ((scratch >>> 8) <<< 8) else (u64 (scratch <<< 8)) >>> 8) |||
    (b <<< (if be then 56 - roundNb be scratch else roundNb be scratch))

/-- one round of the loop with a byte `b` at hand -/
def round (n yy : Nat) (be : Bool) (s : CSt) (b : Nat) : Out :=
  let nb := roundNb be s.scratch
  let sc := roundScratch be s.scratch b
  if nb == 8 * n - 8 then
    .brk { s with nb := nb, scratch := sc, iop := s.iop + 1,
                  t := (if be then sc >>> (64 - 8 * n) else sc) % 2 ^ yy }
  else
    .normal { s with nb := nb + 8, scratch := u64 (sc ||| (if be then nb + 8 else (nb + 8) <<< 56)),
                     iop := s.iop + 1 }

/-- the loop body, run on a state that is not seeking and has a byte left, is `round` -/
theorem loopBody_round (fuel n yy : Nat) (be : Bool) (s : CSt) (b : Nat)
    (hseek : s.seek = false) (hb : s.buf[s.iop]? = some b) (hnb : roundNb be s.scratch ≤ 56) :
    execL fuel (loopBody n yy be) s = some (round n yy be s b) := by
  have hlt : s.iop < s.buf.length := by
    rcases Nat.lt_or_ge s.iop s.buf.length with h | h
    · exact h
    · rw [List.getElem?_eq_none h] at hb; cases hb
  have hne : (s.iop == s.buf.length) = false := by
    simp only [beq_eq_false_iff_ne, ne_eq]; omega
  cases be
  · have hnb' : s.scratch >>> 56 ≤ 56 := by simpa [roundNb] using hnb
    by_cases hk : s.scratch >>> 56 = 8 * n - 8
    · have hk' : (s.scratch >>> 56 == 8 * n - 8) = true := by simp [hk]
      simp [loopBody, execL, Tm.exec, hseek, Cond.eval, hne, Atom.exec, hb, round, roundNb, roundScratch, hk', hnb']
    · have hk' : (s.scratch >>> 56 == 8 * n - 8) = false := by simp [hk]
      simp [loopBody, execL, Tm.exec, hseek, Cond.eval, hne, Atom.exec, hb, round, roundNb, roundScratch, hk', hnb']
  · have hnb' : s.scratch % 256 ≤ 56 := by simpa [roundNb] using hnb
    by_cases hk : s.scratch % 256 = 8 * n - 8
    · have hk' : (s.scratch % 256 == 8 * n - 8) = true := by simp [hk]
      simp [loopBody, execL, Tm.exec, hseek, Cond.eval, hne, Atom.exec, hb, round, roundNb, roundScratch, hk', hnb']
    · have hk' : (s.scratch % 256 == 8 * n - 8) = false := by simp [hk]
      simp [loopBody, execL, Tm.exec, hseek, Cond.eval, hne, Atom.exec, hb, round, roundNb, roundScratch, hk', hnb']

/-- the loop body on a state that has no byte left: `goto suspend` -/
theorem loopBody_empty (fuel n yy : Nat) (be : Bool) (s : CSt)
    (hseek : s.seek = false) (he : s.iop = s.buf.length) :
    execL fuel (loopBody n yy be) s = some (.susp { s with short := true }) := by
  simp [loopBody, execL, Tm.exec, hseek, Cond.eval, he, Atom.exec]

/-! ## The partial value in the scratch word -/

/-- the scratch word when the bytes `bs` (fewer than 8) of the field have been
taken: little-endian — the value so far in the low bits, `8 * count` in the top
byte; big-endian — the bytes from the top down, `8 * count` in the low byte -/
def partialV (be : Bool) (bs : List Nat) : Nat :=
  if be then valBE bs * 2 ^ (64 - 8 * bs.length) + 8 * bs.length
  else valLE bs + (8 * bs.length) * 2 ^ 56

theorem or_shl (a b k : Nat) (h : a < 2 ^ k) : a ||| (b <<< k) = a + b * 2 ^ k := by
  rw [Nat.or_comm, ← Nat.shiftLeft_add_eq_or_of_lt h b, Nat.shiftLeft_eq]
  omega

theorem or_low (a b k : Nat) (h : b < 2 ^ k) (ha : 2 ^ k ∣ a) : a ||| b = a + b := by
  obtain ⟨c, rfl⟩ := ha
  exact (Nat.two_pow_add_eq_or_of_lt h c).symm

theorem or_mid (w b k : Nat) (hb : b < 256) : (w * 256 * 2 ^ k) ||| (b <<< k) = (w * 256 + b) * 2 ^ k := by
  have h : w * 256 ||| b = w * 256 + b := or_low (w * 256) b 8 (by simpa using hb) ⟨w, by omega⟩
  rw [← Nat.shiftLeft_eq (w * 256) k, ← Nat.shiftLeft_or_distrib, h, Nat.shiftLeft_eq]

set_option hygiene false in
local macro "le_round" k:term : tactic => `(tactic| (
  refine ⟨?_, ?_⟩
  · simp only [roundNb, Bool.false_eq_true, ↓reduceIte]; omega
  · simp only [roundScratch, roundNb, u64, Bool.false_eq_true, ↓reduceIte]
    have h1 : ((V + $k * 2 ^ 56) <<< 8 % 2 ^ 64) >>> 8 = V := by omega
    have h2 : (V + $k * 2 ^ 56) >>> 56 = $k := by omega
    rw [h1, h2, or_shl V b $k hV]))

/-- little-endian round on a scratch word holding `j` bytes (value `V`) and the count -/
theorem roundLE_num (j V b : Nat) (hj : j ≤ 7) (hV : V < 2 ^ (8 * j)) :
    roundNb false (V + (8 * j) * 2 ^ 56) = 8 * j ∧
    roundScratch false (V + (8 * j) * 2 ^ 56) b = V + b * 2 ^ (8 * j) := by
  have hj' : j = 0 ∨ j = 1 ∨ j = 2 ∨ j = 3 ∨ j = 4 ∨ j = 5 ∨ j = 6 ∨ j = 7 := by omega
  rcases hj' with rfl | rfl | rfl | rfl | rfl | rfl | rfl | rfl
  · le_round 0
  · le_round 8
  · le_round 16
  · le_round 24
  · le_round 32
  · le_round 40
  · le_round 48
  · le_round 56

set_option hygiene false in
local macro "be_round" k:term "," c:term : tactic => `(tactic| (
  simp only [Nat.reduceMul, Nat.reduceSub, Nat.reducePow] at hW ⊢
  refine ⟨?_, ?_⟩
  · simp only [roundNb, ↓reduceIte]; omega
  · simp only [roundScratch, roundNb, u64, ↓reduceIte]
    have h1 : ((W * 2 ^ ($k + 8) + $c) >>> 8) <<< 8 % 2 ^ 64 = W * 256 * 2 ^ $k := by omega
    have h2 : (W * 2 ^ ($k + 8) + $c) % 256 = $c := by omega
    simp only [Nat.reduceAdd, Nat.reducePow] at h1 h2
    rw [h1, h2, or_mid W b $k hb]))

/-- big-endian round: the `j` bytes (value `W`) sit at the top, the count in the low byte -/
theorem roundBE_num (j W b : Nat) (hj : j ≤ 7) (hW : W < 2 ^ (8 * j)) (hb : b < 256) :
    roundNb true (W * 2 ^ (64 - 8 * j) + 8 * j) = 8 * j ∧
    roundScratch true (W * 2 ^ (64 - 8 * j) + 8 * j) b = (W * 256 + b) * 2 ^ (56 - 8 * j) := by
  have hj' : j = 0 ∨ j = 1 ∨ j = 2 ∨ j = 3 ∨ j = 4 ∨ j = 5 ∨ j = 6 ∨ j = 7 := by omega
  rcases hj' with rfl | rfl | rfl | rfl | rfl | rfl | rfl | rfl
  · be_round 56, 0
  · be_round 48, 8
  · be_round 40, 16
  · be_round 32, 24
  · be_round 24, 32
  · be_round 16, 40
  · be_round 8, 48
  · be_round 0, 56

theorem pow8_succ (j : Nat) : 2 ^ (8 * j + 8) = 256 * 2 ^ (8 * j) := by
  rw [Nat.pow_add]; omega

theorem lt_pow_of_le {x a yy : Nat} (h : x < 2 ^ a) (ha : a ≤ yy) : x < 2 ^ yy :=
  Nat.lt_of_lt_of_le h (Nat.pow_le_pow_right (by omega) ha)

/-- one little-endian round on `j` bytes taken (value `V`): break with the
complete value when this is the last byte, else `j + 1` bytes taken -/
theorem roundLE_full (n yy j V b : Nat) (s : CSt) (hjn : j < n) (hn : n ≤ 8) (hyy : 8 * n ≤ yy)
    (hV : V < 2 ^ (8 * j)) (hb : b < 256) (hs : s.scratch = V + (8 * j) * 2 ^ 56) :
    round n yy false s b =
      if j + 1 = n then
        .brk { s with nb := 8 * j, scratch := V + b * 2 ^ (8 * j), iop := s.iop + 1, t := V + b * 2 ^ (8 * j) }
      else
        .normal { s with nb := 8 * j + 8, scratch := V + b * 2 ^ (8 * j) + (8 * j + 8) * 2 ^ 56, iop := s.iop + 1 } := by
  obtain ⟨h1, h2⟩ := roundLE_num j V b (by omega) hV
  have hP : 0 < 2 ^ (8 * j) := Nat.pow_pos (by omega)
  have hbP : b * 2 ^ (8 * j) ≤ 255 * 2 ^ (8 * j) := Nat.mul_le_mul_right _ (by omega)
  have hV' : V + b * 2 ^ (8 * j) < 2 ^ (8 * j + 8) := by rw [pow8_succ]; omega
  simp only [round, hs, h1, h2]
  by_cases hlast : j + 1 = n
  · have hk : (8 * j == 8 * n - 8) = true := by simp; omega
    simp only [hk, hlast, ↓reduceIte, Bool.false_eq_true]
    rw [Nat.mod_eq_of_lt (lt_pow_of_le hV' (by omega))]
  · have hk : (8 * j == 8 * n - 8) = false := by simp; omega
    simp only [hk, hlast, ↓reduceIte, Bool.false_eq_true]
    have h56 : V + b * 2 ^ (8 * j) < 2 ^ 56 := lt_pow_of_le hV' (by omega)
    rw [or_shl _ _ 56 h56]
    have : V + b * 2 ^ (8 * j) + (8 * j + 8) * 2 ^ 56 < 2 ^ 64 := by omega
    simp only [u64, Nat.mod_eq_of_lt this]

/-- one big-endian round -/
theorem roundBE_full (n yy j W b : Nat) (s : CSt) (hjn : j < n) (hn : n ≤ 8) (hyy : 8 * n ≤ yy)
    (hW : W < 2 ^ (8 * j)) (hb : b < 256) (hs : s.scratch = W * 2 ^ (64 - 8 * j) + 8 * j) :
    round n yy true s b =
      if j + 1 = n then
        .brk { s with nb := 8 * j, scratch := (W * 256 + b) * 2 ^ (56 - 8 * j), iop := s.iop + 1, t := W * 256 + b }
      else
        .normal { s with nb := 8 * j + 8, scratch := (W * 256 + b) * 2 ^ (56 - 8 * j) + (8 * j + 8), iop := s.iop + 1 } := by
  obtain ⟨h1, h2⟩ := roundBE_num j W b (by omega) hW hb
  have hW' : W * 256 + b < 2 ^ (8 * j + 8) := by rw [pow8_succ]; omega
  simp only [round, hs, h1, h2]
  by_cases hlast : j + 1 = n
  · have hk : (8 * j == 8 * n - 8) = true := by simp; omega
    simp only [hk, hlast, ↓reduceIte]
    have hsh : 64 - 8 * n = 56 - 8 * j := by omega
    rw [hsh, Nat.shiftRight_eq_div_pow, Nat.mul_div_cancel _ (Nat.pow_pos (by omega)),
      Nat.mod_eq_of_lt (lt_pow_of_le hW' (by omega))]
  · have hk : (8 * j == 8 * n - 8) = false := by simp; omega
    simp only [hk, hlast, ↓reduceIte]
    have hsplit : 2 ^ (56 - 8 * j) = 2 ^ (48 - 8 * j) * 2 ^ 8 := by
      rw [← Nat.pow_add]; congr 1; omega
    have hdvd : 2 ^ 8 ∣ (W * 256 + b) * 2 ^ (56 - 8 * j) := ⟨(W * 256 + b) * 2 ^ (48 - 8 * j), by
      rw [hsplit, ← Nat.mul_assoc]; exact Nat.mul_comm _ _⟩
    rw [or_low _ (8 * j + 8) 8 (by omega) hdvd]
    have hlt : (W * 256 + b) * 2 ^ (56 - 8 * j) < 2 ^ 64 := by
      have := Nat.mul_lt_mul_of_lt_of_le hW' (Nat.le_refl (2 ^ (56 - 8 * j))) (Nat.pow_pos (by omega))
      rw [← Nat.pow_add] at this
      have e : 8 * j + 8 + (56 - 8 * j) = 64 := by omega
      rw [e] at this; exact this
    obtain ⟨c, hc⟩ := hdvd
    have : (W * 256 + b) * 2 ^ (56 - 8 * j) + (8 * j + 8) < 2 ^ 64 := by omega
    simp only [u64, Nat.mod_eq_of_lt this, Bool.false_eq_true, ↓reduceIte]

/-! ## Byte lists -/

theorem valLE_append (bs : List Nat) (b : Nat) : valLE (bs ++ [b]) = valLE bs + b * 2 ^ (8 * bs.length) := by
  induction bs with
  | nil => simp [valLE]
  | cons a r ih =>
    simp only [List.cons_append, valLE, ih, List.length_cons]
    have : 2 ^ (8 * (r.length + 1)) = 256 * 2 ^ (8 * r.length) := by
      rw [show 8 * (r.length + 1) = 8 * r.length + 8 by omega, pow8_succ]
    rw [this, Nat.mul_add, Nat.mul_left_comm 256 b]
    omega

theorem valBE_append (bs : List Nat) (b : Nat) : valBE (bs ++ [b]) = valBE bs * 256 + b := by
  simp [valBE, List.foldl_append]

theorem valLE_lt (bs : List Nat) (h : ∀ x ∈ bs, x < 256) : valLE bs < 2 ^ (8 * bs.length) := by
  induction bs with
  | nil => simp [valLE]
  | cons a r ih =>
    have ha := h a (by simp)
    have hr := ih (fun x hx => h x (by simp [hx]))
    simp only [valLE, List.length_cons]
    rw [show 8 * (r.length + 1) = 8 * r.length + 8 by omega, pow8_succ]
    omega

theorem valBE_aux (bs : List Nat) (h : ∀ x ∈ bs, x < 256) : ∀ (acc k : Nat), acc < 2 ^ (8 * k) →
    bs.foldl (fun acc b => acc * 256 + b) acc < 2 ^ (8 * (k + bs.length)) := by
  induction bs with
  | nil => intro acc k hacc; simpa using hacc
  | cons a r ih =>
    intro acc k hacc
    have ha := h a (by simp)
    have hstep : acc * 256 + a < 2 ^ (8 * (k + 1)) := by
      rw [show 8 * (k + 1) = 8 * k + 8 by omega, pow8_succ]; omega
    have := ih (fun x hx => h x (by simp [hx])) (acc * 256 + a) (k + 1) hstep
    simp only [List.foldl_cons, List.length_cons]
    rw [show k + (r.length + 1) = k + 1 + r.length by omega]
    exact this

theorem valBE_lt (bs : List Nat) (h : ∀ x ∈ bs, x < 256) : valBE bs < 2 ^ (8 * bs.length) := by
  have := valBE_aux bs h 0 0 (by simp)
  simpa [valBE] using this

/-- what matters of a state to the statements around the template -/
def Keeps (s s' : CSt) : Prop :=
  s'.buf = s.buf ∧ s'.pt = s.pt ∧ s'.seek = s.seek ∧ s'.dest = s.dest ∧ s'.arg = s.arg

theorem Keeps.refl (s : CSt) : Keeps s s := ⟨rfl, rfl, rfl, rfl, rfl⟩

theorem Keeps.trans {a b c : CSt} (h1 : Keeps a b) (h2 : Keeps b c) : Keeps a c := by
  obtain ⟨a1, a2, a3, a4, a5⟩ := h1
  obtain ⟨b1, b2, b3, b4, b5⟩ := h2
  exact ⟨b1.trans a1, b2.trans a2, b3.trans a3, b4.trans a4, b5.trans a5⟩

/-- one round on a scratch word that holds the partial value of `taken` -/
theorem round_partial (n yy : Nat) (be : Bool) (s : CSt) (taken : List Nat) (b : Nat)
    (hlen : taken.length < n) (hn : n ≤ 8) (hyy : 8 * n ≤ yy)
    (hbytes : ∀ x ∈ taken, x < 256) (hb : b < 256) (hs : s.scratch = partialV be taken) :
    roundNb be s.scratch ≤ 56 ∧
    (taken.length + 1 = n → ∃ s', round n yy be s b = .brk s' ∧ Keeps s s' ∧
        s'.iop = s.iop + 1 ∧ s'.t = peek be (taken ++ [b])) ∧
    (taken.length + 1 ≠ n → ∃ s', round n yy be s b = .normal s' ∧ Keeps s s' ∧
        s'.iop = s.iop + 1 ∧ s'.scratch = partialV be (taken ++ [b])) := by
  cases be
  · have hV := valLE_lt taken hbytes
    have hs' : s.scratch = valLE taken + (8 * taken.length) * 2 ^ 56 := by simpa [partialV] using hs
    have hnb := (roundLE_num taken.length (valLE taken) b (by omega) hV).1
    have hfull := roundLE_full n yy taken.length (valLE taken) b s hlen hn hyy hV hb hs'
    refine ⟨by rw [hs', hnb]; omega, fun hlast => ?_, fun hlast => ?_⟩
    · rw [if_pos hlast] at hfull
      exact ⟨_, hfull, ⟨rfl, rfl, rfl, rfl, rfl⟩, rfl, by simp [peek, valLE_append]⟩
    · rw [if_neg hlast] at hfull
      refine ⟨_, hfull, ⟨rfl, rfl, rfl, rfl, rfl⟩, rfl, ?_⟩
      simp only [partialV, valLE_append, List.length_append, List.length_singleton, Bool.false_eq_true, ↓reduceIte]
      omega
  · have hW := valBE_lt taken hbytes
    have hs' : s.scratch = valBE taken * 2 ^ (64 - 8 * taken.length) + 8 * taken.length := by
      simpa [partialV] using hs
    have hnb := (roundBE_num taken.length (valBE taken) b (by omega) hW hb).1
    have hfull := roundBE_full n yy taken.length (valBE taken) b s hlen hn hyy hW hb hs'
    refine ⟨by rw [hs', hnb]; omega, fun hlast => ?_, fun hlast => ?_⟩
    · rw [if_pos hlast] at hfull
      exact ⟨_, hfull, ⟨rfl, rfl, rfl, rfl, rfl⟩, rfl, by simp [peek, valBE_append]⟩
    · rw [if_neg hlast] at hfull
      refine ⟨_, hfull, ⟨rfl, rfl, rfl, rfl, rfl⟩, rfl, ?_⟩
      simp only [partialV, valBE_append, List.length_append, List.length_singleton, ↓reduceIte]
      have : 64 - 8 * (taken.length + 1) = 56 - 8 * taken.length := by omega
      rw [this]
      omega

/-- **the slow-path loop**, entered with the partial value of `taken` in the
scratch word and the bytes `rest` left in this call's buffer: with enough bytes
it leaves the loop with the complete value in `t`; otherwise it takes them
all and suspends with the longer partial value in the scratch word. -/
theorem slow_loop (n yy : Nat) (be : Bool) (hn8 : n ≤ 8) (hyy : 8 * n ≤ yy) (fuelB : Nat) :
    ∀ (rest taken : List Nat) (s : CSt) (fuel : Nat),
      s.seek = false → s.iop ≤ s.buf.length → s.buf.drop s.iop = rest →
      (∀ x ∈ s.buf, x < 256) → (∀ x ∈ taken, x < 256) → taken.length < n →
      s.scratch = partialV be taken → rest.length < fuel →
      ∃ s', Keeps s s' ∧
        ((n ≤ taken.length + rest.length ∧
            whileIter fuel (fun s' => execL fuelB (loopBody n yy be) s') s = some (.normal s') ∧
            s'.iop = s.iop + (n - taken.length) ∧ s'.t = peek be (taken ++ rest.take (n - taken.length)))
         ∨ (taken.length + rest.length < n ∧
            whileIter fuel (fun s' => execL fuelB (loopBody n yy be) s') s = some (.susp s') ∧
            s'.iop = s.buf.length ∧ s'.scratch = partialV be (taken ++ rest))) := by
  intro rest
  induction rest with
  | nil =>
    intro taken s fuel hseek hle hdrop hbuf htaken hlen hs hfuel
    have he : s.iop = s.buf.length := by
      have := List.drop_eq_nil_iff.mp hdrop
      omega
    obtain ⟨f, rfl⟩ : ∃ f, fuel = f + 1 := ⟨fuel - 1, by simp at hfuel; omega⟩
    refine ⟨{ s with short := true }, ⟨rfl, rfl, rfl, rfl, rfl⟩, Or.inr ⟨by simpa using hlen, ?_, he, by simpa using hs⟩⟩
    simp only [whileIter, loopBody_empty fuelB n yy be s hseek he]
  | cons b r ih =>
    intro taken s fuel hseek hle hdrop hbuf htaken hlen hs hfuel
    have hb : s.buf[s.iop]? = some b := by
      have := List.getElem?_drop (xs := s.buf) (i := s.iop) (j := 0)
      rw [hdrop] at this
      simpa using this.symm
    have hblt : b < 256 := hbuf b (List.mem_of_getElem? hb)
    have hiop : s.iop < s.buf.length := by
      rcases Nat.lt_or_ge s.iop s.buf.length with h | h
      · exact h
      · rw [List.getElem?_eq_none h] at hb; cases hb
    obtain ⟨hnb, hlast, hmore⟩ := round_partial n yy be s taken b hlen hn8 hyy htaken hblt hs
    obtain ⟨f, rfl⟩ : ∃ f, fuel = f + 1 := ⟨fuel - 1, by simp at hfuel; omega⟩
    have hbody := loopBody_round fuelB n yy be s b hseek hb hnb
    by_cases hl : taken.length + 1 = n
    · obtain ⟨s1, hr, hk, hi, ht⟩ := hlast hl
      refine ⟨s1, hk, Or.inl ⟨by simp; omega, ?_, by omega, ?_⟩⟩
      · simp only [whileIter, hbody, hr]
      · have : n - taken.length = 1 := by omega
        simp [this, ht]
    · obtain ⟨s1, hr, hk, hi, hsc⟩ := hmore hl
      obtain ⟨k1, k2, k3, k4, k5⟩ := hk
      have hdrop1 : s1.buf.drop s1.iop = r := by
        rw [k1, hi, ← List.drop_drop, hdrop]; rfl
      have hbuf1 : ∀ x ∈ s1.buf, x < 256 := by rw [k1]; exact hbuf
      have htaken1 : ∀ x ∈ taken ++ [b], x < 256 := by
        intro x hx
        rcases List.mem_append.mp hx with h | h
        · exact htaken x h
        · simp at h; omega
      obtain ⟨s', hk', hres⟩ := ih (taken ++ [b]) s1 f (by rw [k3, hseek]) (by rw [k1, hi]; omega) hdrop1 hbuf1
        htaken1 (by simp; omega) hsc (by simp at hfuel; omega)
      refine ⟨s', Keeps.trans ⟨k1, k2, k3, k4, k5⟩ hk', ?_⟩
      have hw : whileIter (f + 1) (fun s' => execL fuelB (loopBody n yy be) s') s =
          whileIter f (fun s' => execL fuelB (loopBody n yy be) s') s1 := by
        simp only [whileIter, hbody, hr]
      rcases hres with ⟨h1, h2, h3, h4⟩ | ⟨h1, h2, h3, h4⟩
      · refine Or.inl ⟨by simp at h1 ⊢; omega, by rw [hw, h2], ?_, ?_⟩
        · rw [h3, hi]; simp; omega
        · rw [h4]
          have : n - taken.length = (n - (taken ++ [b]).length) + 1 := by simp; omega
          rw [this, List.take_succ_cons]
          simp
      · refine Or.inr ⟨by simp at h1 ⊢; omega, by rw [hw, h2], by rw [h3, k1], ?_⟩
        rw [h4]; simp

end WuffsVerif.CCoro
