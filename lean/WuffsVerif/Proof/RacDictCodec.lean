/-
C13: every `rac.CodecWriter` built on lib/internal/racdict the way raczlib and raczstd are (`Saver.Compress` around
the codec's own `compress(p, q, dict)`, `Saver.WrapResource`, and on the reader side `Loader.Load` followed by the
codec's decompressor with that dictionary) meets the resource-aware contract `CodecContractR` — provided only that
the codec's own compressor and decompressor agree *when given the same dictionary*.  The seeded change C13-m1
(compress against the raw resource, store the refined one) is exactly a violation of this theorem's model.
-/
import WuffsVerif.Proof.RacDict
import WuffsVerif.Proof.RacRoundtripR
import WuffsVerif.Proof.RacToyCodec
namespace WuffsVerif.Rac.DictW
open WuffsVerif.Rac

def toErr : DErr → Err
  | .dictionaryIsTooLong => .codec 10
  | .invalidDictionary => .codec 11
  | .codec => .codec 12

/-- a `rac.CodecWriter` built on `racdict.Saver` (raczlib.CodecWriter / raczstd.CodecWriter without `Cut`) -/
def dictCodecW (codec : Nat) (compress : Bytes → Bytes → Bytes → Except DErr Bytes) (refine : Bytes → Bytes) : CodecW :=
  { compress := fun p q rs =>
      match saverCompress compress refine p q rs with
      | .ok (out, sec) => .ok ⟨codec, out, sec, -1⟩
      | .error e => .error (toErr e),
    canCut := false,
    cut := fun _ _ _ => .error (.codec 1),
    wrapResource := fun raw =>
      match wrapResource refine raw with
      | .ok b => .ok b
      | .error e => .error (toErr e),
    close := none }

/-- the reader side (raczlib.CodecReader.MakeDecompressor): `racdict.Loader.Load` on the secondary CRange (a
non-empty tertiary CRange is an error), then the codec's decompressor with that dictionary -/
def dictDR (decompress : Bytes → Bytes → Option Bytes) (prim s t : Bytes) : Option Bytes :=
  match load s (!t.isEmpty) 0xFF with
  | .ok dict => decompress prim dict
  | .error _ => none

theorem wrapResource_length (refine : Bytes → Bytes) (raw wrapped : Bytes)
    (h : wrapResource refine raw = .ok wrapped) : wrapped.length ≥ 8 := by
  unfold wrapResource at h
  simp only at h
  split at h
  · exact absurd h (by simp)
  · have : wrapped = putU32LE (refine raw).length ++ refine raw ++ putU32LE (crc32 (refine raw)).toNat := by
      simpa using h.symm
    rw [this]; simp [putU32LE_length]; omega

theorem load_nil : load [] false 0xFF = .ok [] := by
  unfold load; simp

/-- `Loader.Load` only looks at the wrapped dictionary, not at what follows it in the CRange -/
theorem load_append (s s' d : Bytes) (h : load s false 0xFF = .ok d) (hne : s ≠ []) :
    load (s ++ s') false 0xFF = .ok d := by
  unfold load at h ⊢
  simp only [Bool.false_eq_true, ↓reduceIte] at h ⊢
  have hl0 : s.length ≠ 0 := by
    intro h0; exact hne (List.eq_nil_of_length_eq_zero h0)
  rw [if_neg (by simpa using hl0)] at h
  rw [if_neg (by simp; intro h; exact absurd h hne)]
  split at h
  · exact absurd h (by simp)
  · rename_i h8
    have h8' : 8 ≤ s.length := by
      simp only [Bool.or_eq_true, decide_eq_true_eq, not_or, Nat.not_lt] at h8; exact h8.1
    rw [if_neg (by simp; omega)]
    have ht : (s ++ s').take 4 = s.take 4 := List.take_append_of_le_length (by omega)
    rw [ht]
    split at h
    · exact absurd h (by simp)
    · rename_i hres
      rw [if_neg hres]
      split at h
      · exact absurd h (by simp)
      · rename_i hsz
        rw [if_neg (by rw [List.length_append]; omega)]
        have hb : ((s ++ s').drop 4).take (u32LE (s.take 4) + 4) = (s.drop 4).take (u32LE (s.take 4) + 4) := by
          rw [List.drop_append_of_le_length (by omega), List.take_append_of_le_length (by rw [List.length_drop]; omega)]
        rw [hb]
        exact h

theorem wrappedOf_neg_one (cw : CodecW) (rs : List Bytes) : wrappedOf cw rs (-1) = some [] := by
  unfold wrappedOf; simp

/-- **`racdict_codec_contract`**: a codec built on `racdict` meets the resource-aware contract as soon as its own
compressor and decompressor agree when given the same dictionary. -/
theorem racdict_codec_contract (codec : Nat) (compress : Bytes → Bytes → Bytes → Except DErr Bytes)
    (refine : Bytes → Bytes) (decompress : Bytes → Bytes → Option Bytes)
    (H1 : ∀ p q dict out, compress p q dict = .ok out → decompress out dict = some (p ++ q)) :
    CodecContractR (dictCodecW codec compress refine) (dictDR decompress) := by
  constructor
  · intro p q rs out s t h hs ht
    simp only [dictCodecW] at h
    cases hsc : saverCompress compress refine p q rs with
    | error e => rw [hsc] at h; simp at h
    | ok v =>
      obtain ⟨o, sec⟩ := v
      rw [hsc] at h
      simp only [Except.ok.injEq] at h
      subst h
      simp only at hs ht ⊢
      rw [wrappedOf_neg_one] at ht
      have ht' : t = [] := by simpa using ht.symm
      subst ht'
      have hter : ¬ ResInRange rs (-1) := by intro h; exact absurd h.1 (by omega)
      rcases saverCompress_spec compress refine p q rs o sec hsc with ⟨h1, h2⟩ | ⟨j, hj, h2, h3, wrapped, h4, h5⟩
      · subst h1
        rw [wrappedOf_neg_one] at hs
        have hs' : s = [] := by simpa using hs.symm
        subst hs'
        refine ⟨?_, fun h => absurd h hter, fun h => absurd h hter⟩
        unfold dictDR
        simp only [List.isEmpty_nil, Bool.not_true, load_nil]
        exact H1 _ _ _ _ h2
      · subst h2
        have hs' : s = wrapped := by
          unfold wrappedOf at hs
          rw [if_neg (by simp; omega)] at hs
          simp only [dictCodecW, Int.toNat_natCast, h4] at hs
          simpa using hs.symm
        subst hs'
        have hlen := wrapResource_length refine _ _ h4
        refine ⟨?_, fun _ h0 => by rw [h0] at hlen; simp at hlen, fun h => absurd h hter⟩
        unfold dictDR
        have := h5 []
        rw [List.append_nil] at this
        simp only [List.isEmpty_nil, Bool.not_true, this]
        exact H1 _ _ _ _ h3
  · intro c enc m enc' eLen dLen d s t h
    simp [dictCodecW] at h

/-- the reader side tolerates unrelated bytes after the chunk and after the wrapped dictionary (CRange lengths
have 1 KiB granularity), given that the codec's decompressor ignores bytes after its stream -/
theorem dictDR_ext (decompress : Bytes → Bytes → Option Bytes)
    (H2 : ∀ a b dict d, decompress a dict = some d → decompress (a ++ b) dict = some d) :
    ∀ a b s s' t t' d, dictDR decompress a s t = some d → (s = [] → s' = []) → (t = [] → t' = []) →
      dictDR decompress (a ++ b) (s ++ s') (t ++ t') = some d := by
  intro a b s s' t t' d h hs ht
  unfold dictDR at h ⊢
  cases htn : t with
  | cons x xs =>
    rw [htn] at h
    simp [load] at h
  | nil =>
    rw [htn] at h
    have := ht htn
    subst this
    simp only [List.append_nil, List.isEmpty_nil, Bool.not_true] at h ⊢
    cases hl : load s false 0xFF with
    | error e => rw [hl] at h; simp at h
    | ok dict =>
      rw [hl] at h
      simp only at h
      by_cases hsn : s = []
      · have := hs hsn
        subst this
        rw [List.append_nil, hl]
        exact H2 _ _ _ _ h
      · rw [load_append s s' dict hl hsn]
        exact H2 _ _ _ _ h

/-! ### a toy instance (non-vacuity) -/

/-- toy compressor with a preset dictionary: flag 1 and the data minus the dictionary when the data starts with
the (non-empty) dictionary, else flag 0 and the data; the body is the self-delimiting `uenc` -/
def tcompress (p q dict : Bytes) : Except DErr Bytes :=
  if !dict.isEmpty && dict.isPrefixOf (p ++ q) then .ok (1 :: uenc ((p ++ q).drop dict.length))
  else .ok (0 :: uenc (p ++ q))

def tdecompress (a dict : Bytes) : Option Bytes :=
  match a with
  | [] => none
  | f :: r => if f == 0 then udec r else if f == 1 then (udec r).map (dict ++ ·) else none

theorem toy_H1 : ∀ p q dict out, tcompress p q dict = .ok out → tdecompress out dict = some (p ++ q) := by
  intro p q dict out h
  unfold tcompress at h
  split at h
  · rename_i hp
    simp only [Bool.and_eq_true, List.isPrefixOf_iff_prefix] at hp
    obtain ⟨t, ht⟩ := hp.2
    simp only [Except.ok.injEq] at h
    rw [← h]
    have h10 : ((1 : UInt8) == 0) = false := by decide
    simp only [tdecompress, h10, Bool.false_eq_true, ↓reduceIte, beq_self_eq_true]
    have := udec_uenc ((p ++ q).drop dict.length) []
    rw [List.append_nil] at this
    rw [this, ← ht]
    simp
  · simp only [Except.ok.injEq] at h
    rw [← h]
    simp only [tdecompress, beq_self_eq_true, ↓reduceIte]
    have := udec_uenc (p ++ q) []
    rwa [List.append_nil] at this

theorem toy_H2 : ∀ a b dict d, tdecompress a dict = some d → tdecompress (a ++ b) dict = some d := by
  intro a b dict d h
  cases a with
  | nil => simp [tdecompress] at h
  | cons f r =>
    simp only [List.cons_append, tdecompress] at h ⊢
    split at h
    · rename_i h0; rw [if_pos h0]; exact udec_prefix r b d h
    · rename_i h0
      rw [if_neg h0]
      split at h
      · rename_i h1
        rw [if_pos h1]
        cases hu : udec r with
        | none => rw [hu] at h; simp at h
        | some x =>
          rw [hu] at h
          rw [udec_prefix r b x hu]
          exact h
      · simp at h

/-- the toy codec on top of `racdict`, with raczlib's `refine`, under short codec 0x3E -/
def toyDictCodecW : CodecW := dictCodecW 0x3E00000000000000 tcompress refineZlib

theorem toyDict_contract : CodecContractR toyDictCodecW (dictDR tdecompress) :=
  racdict_codec_contract _ _ _ _ toy_H1

theorem toyDict_notZeroes : ∀ a b rs out, toyDictCodecW.compress a b rs = .ok out → NotZeroes out.codec := by
  intro a b rs out h
  simp only [toyDictCodecW, dictCodecW] at h
  split at h
  · simp only [Except.ok.injEq] at h
    rw [← h]; constructor <;> simp
  · simp at h

end WuffsVerif.Rac.DictW
