/-
C07 helper, part 7, MODULE L: the `while i < (n_lit + n_dist)` loop of `init_dynamic_huffman` (mirror:
`readCodeLengths`: H-CL lookup, repeat codes 16/17/18 with their bounds checks) against `Spec.readLens`, in
lockstep, one code-length symbol at a time.  Core Lean only.
-/
import WuffsVerif.Proof.StdDeflateDynDefs

namespace WuffsVerif.StdDeflate
open WuffsVerif.Flate.Spec (bitAt bitsLE avail Huff decodeSym SymResult readLens LensResult)
open WuffsVerif.Gen.C07

namespace L

/-- the H-CL entries: kind byte `0x80`, the symbol in bits 8..15 -/
theorem valCL_facts : ∀ v, v < 19 → valCL v >>> 24 = 0x80 ∧ (valCL v >>> 8) &&& 0xFF = v := by decide

theorem getD_set (cl : Array Nat) (i x k : Nat) (hi : i < cl.size) :
    (cl.setIfInBounds i x).getD k 0 = if k = i then x else cl.getD k 0 := by
  simp only [Array.getD_eq_getD_getElem?, Array.getElem?_setIfInBounds]
  by_cases h : i = k
  · subst h; simp [hi]
  · have : ¬ k = i := fun e => h e.symm
    simp [h, this]

theorem getD_push (lens : Array Nat) (x k : Nat) :
    (lens.push x).getD k 0 = if k = lens.size then x else lens.getD k 0 := by
  simp only [Array.getD_eq_getD_getElem?, Array.getElem?_push]
  by_cases h : k = lens.size
  · simp [h]
  · simp [h]

theorem getD_ge (lens : Array Nat) (k : Nat) (h : lens.size ≤ k) : lens.getD k 0 = 0 := by
  simp [Array.getD_eq_getD_getElem?, Array.getElem?_eq_none h]

theorem getD_append_replicate (lens : Array Nat) (rep val k : Nat) :
    (lens ++ Array.replicate rep val).getD k 0 =
      if k < lens.size then lens.getD k 0 else if k < lens.size + rep then val else 0 := by
  simp only [Array.getD_eq_getD_getElem?, Array.getElem?_append, Array.getElem?_replicate]
  by_cases h1 : k < lens.size
  · simp [h1]
  · by_cases h2 : k < lens.size + rep
    · have : k - lens.size < rep := by omega
      simp [h1, h2, this]
    · have : ¬ k - lens.size < rep := by omega
      simp [h1, h2, this]

/-- `while rep_count > 0 { … this.code_lengths[i] = rep_symbol; i += 1 … }` with room for all repetitions -/
theorem repeatLen_ok (total sym : Nat) : ∀ (rep i : Nat) (cl : Array Nat), i + rep ≤ total → total ≤ cl.size →
    ∃ cl', repeatLen total sym rep i cl = .ok (i + rep, cl') ∧ cl'.size = cl.size ∧
      (∀ k, i ≤ k → k < i + rep → cl'.getD k 0 = sym) ∧
      (∀ k, (k < i ∨ i + rep ≤ k) → cl'.getD k 0 = cl.getD k 0) := by
  intro rep
  induction rep with
  | zero => intro i cl _ _; exact ⟨cl, rfl, rfl, fun k h1 h2 => by omega, fun _ _ => rfl⟩
  | succ rep ih =>
    intro i cl h1 h2
    unfold repeatLen
    rw [if_neg (by omega)]
    obtain ⟨cl', e1, e2, e3, e4⟩ := ih (i + 1) (cl.setIfInBounds i sym) (by omega) (by simp; omega)
    refine ⟨cl', by rw [e1, show i + 1 + rep = i + (rep + 1) by omega], by simpa using e2, ?_, ?_⟩
    · intro k hk1 hk2
      by_cases hk : k = i
      · rw [e4 k (by omega), getD_set _ _ _ _ (by omega), if_pos hk]
      · exact e3 k (by omega) (by omega)
    · intro k hk
      rw [e4 k (by omega), getD_set _ _ _ _ (by omega), if_neg (by omega)]

/-- a literal code length (`te < 16`): one step of the mirror -/
theorem mirror_lit (s : Bytes) (T : Array Nat) (mask total f i : Nat) (b b1 : BR) (cl : Array Nat) (E v : Nat)
    (hi : i < total) (hl : lookupLoop s T 0 mask 3 b = .ok (E, b1)) (h24 : E >>> 24 = 0x80)
    (h8 : (E >>> 8) &&& 0xFF = v) (hv : v < 16) :
    readCodeLengths s T mask total (f + 1) i b cl =
      readCodeLengths s T mask total f (i + 1) b1 (cl.setIfInBounds i v) := by
  conv => lhs; unfold readCodeLengths
  simp only [if_pos hi, hl, bind, Except.bind, h24, h8, ne_eq, not_true_eq_false, if_false, if_pos hv]

/-- a repeat code: one step of the mirror -/
theorem mirror_rep (s : Bytes) (T : Array Nat) (mask total f i : Nat) (b b1 b2 : BR) (cl cl' : Array Nat)
    (E v nExtra repSym repCount i' : Nat)
    (hi : i < total) (hl : lookupLoop s T 0 mask 3 b = .ok (E, b1)) (h24 : E >>> 24 = 0x80)
    (h8 : (E >>> 8) &&& 0xFF = v)
    (hv : (v = 16 ∧ 0 < i ∧ nExtra = 2 ∧ repSym = cl.getD (i - 1) 0 &&& 15 ∧ repCount = 3) ∨
          (v = 17 ∧ nExtra = 3 ∧ repSym = 0 ∧ repCount = 3) ∨ (v = 18 ∧ nExtra = 7 ∧ repSym = 0 ∧ repCount = 11))
    (hf : BR.fill s nExtra 2 b1 = .ok b2)
    (hr : repeatLen total repSym (repCount + (b2.bits &&& ((1 <<< nExtra) - 1))) i cl = .ok (i', cl')) :
    readCodeLengths s T mask total (f + 1) i b cl =
      readCodeLengths s T mask total f i' (b2.drop nExtra) cl' := by
  conv => lhs; unfold readCodeLengths
  simp only [if_pos hi, hl, bind, Except.bind, h24, h8, ne_eq, not_true_eq_false, if_false]
  rcases hv with ⟨rfl, h0, rfl, rfl, rfl⟩ | ⟨rfl, rfl, rfl, rfl⟩ | ⟨rfl, rfl, rfl, rfl⟩
  · have : ¬ i ≤ 0 := by omega
    simp only [show ¬ (16 : Nat) < 16 by omega, if_false, if_true, this, hf, hr]
  · simp only [show ¬ (17 : Nat) < 16 by omega, show ¬ (17 : Nat) = 16 by omega, if_false, if_true, hf, hr]
  · simp only [show ¬ (18 : Nat) < 16 by omega, show ¬ (18 : Nat) = 16 by omega, show ¬ (18 : Nat) = 17 by omega,
      if_false, if_true, hf, hr]

end L

/-- **MODULE L.**  The code-length loop of `init_dynamic_huffman` follows `Spec.readLens`. -/
theorem readLensSpec_holds : ReadLensSpec := by
  intro s T nb hc total ht hmax9 h316 fuel
  induction fuel with
  | zero => intro p lens b cl lensE q _ _ _ _ _ _ h; simp [readLens] at h
  | succ fuel ih =>
    intro p lens b cl lensE q hb h8 hcs hle hag h15 h
    unfold readLens at h
    by_cases hdone : lens.size ≥ total
    · rw [if_pos hdone] at h
      simp only [LensResult.ok.injEq] at h
      obtain ⟨rfl, rfl⟩ := h
      have hsz : lens.size = total := by omega
      unfold readCodeLengths
      rw [if_neg (by omega)]
      exact ⟨b, cl, by rw [hsz], hb, h8, hcs, hsz, fun k hk => hag k (by omega), h15⟩
    · rw [if_neg hdone] at h
      have hlt : lens.size < total := by omega
      cases hd : decodeSym hc s p hc.minLen with
      | truncated => rw [hd] at h; simp at h
      | corrupt => rw [hd] at h; simp at h
      | sym v p1 =>
        rw [hd] at h
        simp only at h
        obtain ⟨_, hp1, E, b1, hE, l1, l2, _⟩ :=
          decode_entry T nb hc valCL ht.ok ht.ag ht.ml ht.nb15 b hb h8 hc.minLen v p1 hd
        have hnr := ht.nored hmax9 _ (Nat.mod_lt (bitsLE s p 15) (Nat.two_pow_pos nb))
        obtain ⟨k1, hb1, h81⟩ := l2 hnr
        rw [k1] at l1
        have hv19 : v < 19 := ht.symlt _ _ _ (decodeSym_specWin hc s p hc.minLen v p1 ht.ml hd).1
        obtain ⟨f1, f2⟩ := L.valCL_facts v hv19
        have e24 : E >>> 24 = 0x80 := by rw [shr_of_shr4 hE 24 (by omega), f1]
        have e8 : (E >>> 8) &&& 0xFF = v := by rw [shr_of_shr4 hE 8 (by omega), f2]
        by_cases hv16 : v < 16
        · rw [if_pos hv16] at h
          rw [L.mirror_lit s T _ total fuel lens.size b b1 cl E v hlt l1 e24 e8 hv16]
          have := ih p1 (lens.push v) b1 (cl.setIfInBounds lens.size v) lensE q hb1 h81 (by simpa using hcs)
            (by simp; omega) ?_ ?_ h
          · simpa using this
          · intro k hk
            simp only [Array.size_push] at hk
            rw [L.getD_set _ _ _ _ (by omega), L.getD_push]
            by_cases hk' : k = lens.size
            · simp [hk']
            · simp only [hk', if_false]; exact hag k (by omega)
          · intro k
            rw [L.getD_push]
            split
            · omega
            · exact h15 k
        · rw [if_neg hv16] at h
          have key : ∀ (base nb' repSym val : Nat), nb' ≤ 7 → val ≤ 15 → repSym = val →
              ((v = 16 ∧ 0 < lens.size ∧ nb' = 2 ∧ repSym = cl.getD (lens.size - 1) 0 &&& 15 ∧ base = 3) ∨
               (v = 17 ∧ nb' = 3 ∧ repSym = 0 ∧ base = 3) ∨ (v = 18 ∧ nb' = 7 ∧ repSym = 0 ∧ base = 11)) →
              (if avail s p1 < nb' then LensResult.truncated
               else if lens.size + (base + bitsLE s p1 nb') > total then LensResult.corrupt
               else readLens hc s total fuel (p1 + nb') (lens ++ Array.replicate (base + bitsLE s p1 nb') val)) =
                .ok lensE q →
              ∃ b' cl', readCodeLengths s T ((1 <<< nb) - 1) total (fuel + 1) lens.size b cl = .ok (total, b', cl') ∧
                BRInv s b' q ∧ b'.nBits < 8 ∧ cl'.size = 320 ∧ lensE.size = total ∧
                (∀ k, k < total → cl'.getD k 0 = lensE.getD k 0) ∧ (∀ k, lensE.getD k 0 ≤ 15) := by
            intro base nb' repSym val hnb7 hval hsym hdis h'
            by_cases hav : avail s p1 < nb'
            · rw [if_pos hav] at h'; simp at h'
            · rw [if_neg hav] at h'
              have hav' : p1 + nb' ≤ 8 * s.size := by unfold avail at hav; omega
              obtain ⟨b2, g1, g2, g3, g4⟩ := extra_bits b1 hb1 h81 nb' 2 hav' (by omega) (by omega)
              by_cases hover : lens.size + (base + bitsLE s p1 nb') > total
              · rw [if_pos hover] at h'; simp at h'
              · rw [if_neg hover] at h'
                obtain ⟨cl', r1, r2, r3, r4⟩ := L.repeatLen_ok total repSym (base + bitsLE s p1 nb') lens.size cl
                  (by omega) (by omega)
                rw [L.mirror_rep s T _ total fuel lens.size b b1 b2 cl cl' E v nb' repSym base
                  (lens.size + (base + bitsLE s p1 nb')) hlt l1 e24 e8 hdis g1 (by rw [g2]; exact r1)]
                have := ih (p1 + nb') (lens ++ Array.replicate (base + bitsLE s p1 nb') val) (b2.drop nb') cl' lensE q
                  g3 g4 (by rw [r2]; exact hcs) (by simp; omega) ?_ ?_ h'
                · simpa using this
                · intro k hk
                  simp only [Array.size_append, Array.size_replicate] at hk
                  rw [L.getD_append_replicate]
                  by_cases hk' : k < lens.size
                  · rw [if_pos hk', r4 k (Or.inl hk')]; exact hag k hk'
                  · rw [if_neg hk', if_pos hk, r3 k (by omega) hk, hsym]
                · intro k
                  rw [L.getD_append_replicate]
                  by_cases hk1 : k < lens.size
                  · rw [if_pos hk1]; exact h15 k
                  · rw [if_neg hk1]
                    by_cases hk2 : k < lens.size + (base + bitsLE s p1 nb')
                    · rw [if_pos hk2]; exact hval
                    · rw [if_neg hk2]; omega
          by_cases h16 : v = 16
          · subst h16
            simp only [↓reduceIte] at h
            by_cases h0 : lens.size = 0
            · rw [if_pos ⟨trivial, h0⟩] at h; simp at h
            · rw [if_neg (fun hc => h0 hc.2)] at h
              have hlast : cl.getD (lens.size - 1) 0 &&& 15 = lens.getD (lens.size - 1) 0 := by
                have := h15 (lens.size - 1)
                rw [hag _ (by omega), show (15 : Nat) = 2 ^ 4 - 1 from rfl, Nat.and_two_pow_sub_one_eq_mod,
                  Nat.mod_eq_of_lt (by omega)]
              exact key 3 2 (cl.getD (lens.size - 1) 0 &&& 15) (lens.getD (lens.size - 1) 0) (by omega) (h15 _) hlast
                (Or.inl ⟨rfl, by omega, rfl, rfl, rfl⟩) h
          · by_cases h17 : v = 17
            · subst h17
              simp only [Nat.reduceEqDiff, ↓reduceIte, false_and] at h
              exact key 3 3 0 0 (by omega) (by omega) rfl (Or.inr (Or.inl ⟨rfl, rfl, rfl, rfl⟩)) h
            · have h18 : v = 18 := by omega
              subst h18
              simp only [Nat.reduceEqDiff, ↓reduceIte, false_and] at h
              exact key 11 7 0 0 (by omega) (by omega) rfl (Or.inr (Or.inr ⟨rfl, rfl, rfl, rfl⟩)) h

end WuffsVerif.StdDeflate
