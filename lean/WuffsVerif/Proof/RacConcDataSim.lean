/-
C14 helper: the data-level model of the concurrent reader (Model/Rac/ConcData.lean) is a
refinement of the protocol model (Model/Rac/Conc.lean): every step either is a protocol step
of the projection `abs`, or leaves the projection unchanged.  Hence the protocol invariant
`CInv` (Proof/RacConc*.lean) holds of `abs s` for every reachable data-level state `s`.
-/
import WuffsVerif.Model.Rac.ConcData
import WuffsVerif.Proof.RacConcStep3

set_option linter.unusedVariables false
set_option linter.unusedSimpArgs false

namespace WuffsVerif.Rac.ConcD
open WuffsVerif.Rac WuffsVerif.Rac.Conc

theorem map_eraseIdx {α β : Type} (f : α → β) : ∀ (l : List α) (j : Nat),
    (l.eraseIdx j).map f = (l.map f).eraseIdx j
  | [], j => by simp
  | x :: xs, 0 => by simp
  | x :: xs, j + 1 => by simp [map_eraseIdx f xs j]

theorem abs_ret (s : DSt) (op : Op) (res : Res) : abs (s.ret op res) = abs s := rfl

theorem abs_ws_get {s : DSt} {i : Nat} {w : DW} (h : s.ws[i]? = some w) : (abs s).ws[i]? = some w.w := by
  simp [abs, List.getElem?_map, h]

theorem abs_recycleAll (s : DSt) : (recycleAllD s).map (·.w) = recycleAll (abs s) := by
  apply List.ext_getElem?
  intro i
  simp only [recycleAllD, recycleAll, abs, List.getElem?_map, List.getElem?_mapIdx]
  cases s.ws[i]? with
  | none => rfl
  | some w => simp [Nat.add_assoc]

theorem abs_seekD (F : File) (s : DSt) (off wh limit : Int) : abs (seekD F s off wh limit).1 = abs s := by
  unfold seekD
  split
  · rfl
  · split
    · rfl
    · simp only
      (repeat' split) <;> rfl

/-- the result of a protocol step of `abs s`, or a stutter -/
def Sim (s s' : DSt) : Prop := (∃ l', step (abs s) l' = some (abs s')) ∨ abs s' = abs s

theorem sim_call {F : File} {s s' : DSt} (op : Op) (h : callD F s op = some s') : Sim s s' := by
  unfold callD at h
  split at h
  · next hm =>
    cases op with
    | read n =>
      simp only at h
      split at h
      · cases h; right; rfl
      · split at h
        · cases h; right; rfl
        · next hnc =>
          have hidle : s.main = .idle := by rcases hm with h | h; exact h; exact absurd h hnc
          split at h
          · cases h; right; rfl
          · split at h
            · split at h
              · next hsr =>
                cases h; left
                exact ⟨.readAgain, by simp [step, abs, hidle, hsr]⟩
              · cases h; right; rfl
            · split at h
              · next hsr =>
                cases h; left
                exact ⟨.cancel, by simp [step, abs, hidle, hsr]⟩
              · next hsr =>
                cases h; left
                exact ⟨.firstRead, by simp [step, abs, hidle, hsr]⟩
    | seek off wh =>
      simp only at h
      split at h
      · cases h; right; rfl
      · split at h
        · cases h; right; rfl
        · cases h
          right
          rw [abs_ret]
          exact abs_seekD F s _ _ _
    | seekRange lo hi =>
      simp only at h
      split at h
      · cases h; right; rfl
      · split at h
        · cases h; right; rfl
        · split at h
          · cases h; right; rfl
          · cases h
            right
            rw [abs_ret]
            exact abs_seekD F s _ _ _
    | close =>
      simp only at h
      split at h
      · cases h; right; rfl
      · split at h
        · cases h; right; rfl
        · next hnc =>
          have hidle : s.main = .idle := by rcases hm with h | h; exact h; exact absurd h hnc
          cases h; left
          exact ⟨.close, by simp [step, abs, hidle]⟩
  · cases h

theorem sim_step {F : File} {s s' : DSt} (l : DLabel) (h : stepD F s l = some s') : Sim s s' := by
  unfold stepD at h
  split at h
  · cases h
  · cases l with
    | call op => exact sim_call op h
    | stopMgr =>
      simp only at h
      split at h
      · next k keep hm =>
        split at h
        · next hg =>
          cases h; left
          exact ⟨.stopMgr, by simp [step, abs, hm, hg.1, hg.2]⟩
        · cases h
      · cases h
    | stopW i =>
      simp only at h
      split at h
      · next k keep w hm hi =>
        split at h
        · next hg =>
          cases h; left
          refine ⟨.stopW i, ?_⟩
          have := abs_ws_get hi
          simp only [step]
          simp only [abs] at this ⊢
          simp [hm, this, hg.1, hg.2, List.map_set]
        · cases h
      · cases h
    | recycle =>
      simp only at h
      split at h
      · next k keep hm =>
        split at h
        · next hk =>
          split at h
          · next hkeep =>
            cases h; left
            refine ⟨.recycle, ?_⟩
            have hr := abs_recycleAll s
            simp only [step]
            simp only [abs] at hr ⊢
            simp [hm, hk, hkeep, hr]
          · next hkeep =>
            cases h; left
            exact ⟨.recycle, by simp [step, abs, hm, hk, hkeep]⟩
        · cases h
      · cases h
    | ackMgr =>
      simp only at h
      split at h
      · next k kk keep hm hpc =>
        split at h
        · next hk =>
          cases h; left
          refine ⟨.ackMgr, ?_⟩
          simp only [step, abs, hm, hpc]
          cases keep <;> simp [hk]
        · cases h
      · cases h
    | ackW i =>
      simp only at h
      split at h
      · next k kk w hm hi =>
        split at h
        · next keep hpc =>
          split at h
          · next hk =>
            cases h; left
            refine ⟨.ackW i, ?_⟩
            have := abs_ws_get hi
            simp only [step]
            simp only [abs] at this ⊢
            simp only [hm, this, hpc]
            cases keep <;> simp [hk, List.map_set]
          · cases h
        · cases h
      · cases h
    | ackDone =>
      simp only at h
      split at h
      · next k keep hm =>
        split at h
        · next hk =>
          split at h
          · next hkeep =>
            cases h; left
            exact ⟨.ackDone, by simp [step, abs, hm, hk, hkeep]⟩
          · next hkeep =>
            split at h
            · cases h; left
              exact ⟨.ackDone, by simp [step, abs, hm, hk, hkeep, DSt.ret]⟩
            · cases h; left
              exact ⟨.ackDone, by simp [step, abs, hm, hk, hkeep, DSt.ret]⟩
        · cases h
      · cases h
    | roi =>
      simp only at h
      split at h
      · next hg =>
        cases h; left
        exact ⟨.roi, by simp [step, abs, hg.1, hg.2.1, hg.2.2]⟩
      · cases h
    | mgrMake =>
      simp only at h
      split at h
      · next e hroi =>
        split at h
        · next hg =>
          split at h
          · cases h; left
            exact ⟨.mgrMake false, by simp [step, abs, hroi, hg.1, hg.2.1, hg.2.2]⟩
          · split at h
            · cases h; right; rfl
            · next c hc =>
              split at h
              · cases h; left
                exact ⟨.mgrMake false, by simp [step, abs, hroi, hg.1, hg.2.1, hg.2.2]⟩
              · split at h
                · cases h; left
                  exact ⟨.mgrMake true, by simp [step, abs, hroi, hg.1, hg.2.1, hg.2.2]⟩
                · cases h; right; rfl
        · cases h
      · cases h
    | mgrSend =>
      simp only at h
      split at h
      · next it hw =>
        split at h
        · next hg =>
          cases h; left
          exact ⟨.mgrSend, by simp [step, abs, hw, hg.1, hg.2.1, hg.2.2]⟩
        · cases h
      · cases h
    | wRecv i =>
      simp only at h
      split at h
      · next w it rest hi hq =>
        split at h
        · next hg =>
          split at h
          · cases h; right; rfl
          · split at h
            · next rd' hsr =>
              cases h; left
              refine ⟨.wRecv i, ?_⟩
              have := abs_ws_get hi
              simp only [step]
              simp only [abs] at this ⊢
              simp [this, hq, hg.1, hg.2.1, hg.2.2, List.map_set]
            · cases h; right; rfl
        · cases h
      · cases h
    | wMake i =>
      simp only at h
      split at h
      · next w hi =>
        split at h
        · next e hdr =>
          split at h
          · next hg =>
            split at h
            · cases h; left
              have := abs_ws_get hi
              by_cases hheld : w.w.held > 0
              · refine ⟨.wMake i (decide (w.dlo + (R.read F w.rd bufSize).2.1.length ≥ w.dhi)), ?_⟩
                simp only [step]
                simp only [abs] at this ⊢
                simp only [this, hdr, hg.1, hg.2.1, hheld, and_self, ↓reduceIte, List.map_set]
                by_cases hl : w.dlo + (R.read F w.rd bufSize).2.1.length ≥ w.dhi <;> simp [hl]
              · have hca : w.w.canAlloc > 0 := by
                  rcases hg.2.2 with h | h
                  · exact absurd h hheld
                  · exact h
                refine ⟨.wMake i (decide (w.dlo + (R.read F w.rd bufSize).2.1.length ≥ w.dhi)), ?_⟩
                simp only [step]
                simp only [abs] at this ⊢
                simp only [this, hdr, hg.1, hg.2.1, hheld, hca, and_self, ↓reduceIte, List.map_set]
                by_cases hl : w.dlo + (R.read F w.rd bufSize).2.1.length ≥ w.dhi <;> simp [hl]
            · cases h; right; rfl
          · cases h
        · cases h
      · cases h
    | wSend i =>
      simp only at h
      split at h
      · next w hi =>
        split at h
        · next it hout =>
          split at h
          · next hg =>
            cases h; left
            refine ⟨.wSend i, ?_⟩
            have := abs_ws_get hi
            simp only [step]
            simp only [abs] at this ⊢
            simp [this, hout, hg.1, hg.2, List.map_set]
          · cases h
        · cases h
      · cases h
    | wRecycle i =>
      simp only at h
      split at h
      · next w hi =>
        split at h
        · next hg =>
          cases h; left
          refine ⟨.wRecycle i, ?_⟩
          have := abs_ws_get hi
          simp only [step]
          simp only [abs] at this ⊢
          simp [this, hg.1, hg.2, List.map_set]
        · cases h
      · cases h
    | recvRes =>
      simp only at h
      split at h
      · next it rest hq =>
        split at h
        · next hg =>
          split at h
          · cases h; left
            exact ⟨.recvRes, by simp [step, abs, hq, hg.1]⟩
          · cases h; right; rfl
        · cases h
      · cases h
    | take j =>
      simp only at h
      split at h
      · next it hj =>
        split at h
        · next hg =>
          cases h; left
          refine ⟨.take j, ?_⟩
          simp [step, abs, List.getElem?_map, hj, hg.1, hg.2.2.1, map_eraseIdx]
        · cases h
      · cases h
    | recycleCurr =>
      simp only at h
      split at h
      · next it hc =>
        split at h
        · next i ho =>
          split at h
          · next w hi =>
            split at h
            · next hg =>
              cases h; left
              refine ⟨.recycleCurr, ?_⟩
              have := abs_ws_get hi
              simp only [step]
              simp only [abs] at this ⊢
              simp [hc, ho, this, hg.1, hg.2.2.2, List.map_set]
            · cases h
          · cases h
        · cases h
      · cases h
    | copy =>
      simp only at h
      split at h
      · split at h
        · cases h; right; rfl
        · cases h
      · cases h
    | readDone =>
      simp only at h
      split at h
      · next hg =>
        split at h
        · cases h; left
          exact ⟨.readDone, by simp [step, abs, hg.1, DSt.ret]⟩
        · cases h; right; rfl
      · cases h

/-- reachable states of the data-level model: file `F`, `n` workers -/
def ReachD (F : File) (n : Nat) (s : DSt) : Prop := ∃ ls : List DLabel, execD F (DSt.init F n) ls = some s

theorem abs_init (F : File) (n : Nat) : abs (DSt.init F n) = St.init n := by
  simp [abs, DSt.init, St.init]

theorem cinv_of_sim {s s' : DSt} (h : Sim s s') (hI : CInv (abs s)) : CInv (abs s') := by
  rcases h with ⟨l', hl⟩ | h
  · exact step_inv l' hI hl
  · rw [h]; exact hI

theorem execD_cinv {F : File} : ∀ (ls : List DLabel) (s s' : DSt), CInv (abs s) → execD F s ls = some s' → CInv (abs s')
  | [], s, s', hI, h => by simp only [execD] at h; cases h; exact hI
  | l :: ls, s, s', hI, h => by
    simp only [execD] at h
    split at h
    · next s1 h1 => exact execD_cinv ls s1 s' (cinv_of_sim (sim_step l h1) hI) h
    · cases h

/-- the protocol invariant holds of the projection of every reachable data-level state -/
theorem reachD_cinv {F : File} {n : Nat} {s : DSt} (h : ReachD F n s) : CInv (abs s) := by
  obtain ⟨ls, hls⟩ := h
  exact execD_cinv ls _ _ (by rw [abs_init]; exact CInv.init n) hls

end WuffsVerif.Rac.ConcD
