/-
C05 — the scratch-word read machine of `Model/Scratch.lean` (builtin.go `writeReadUxxAsUyy`)
computes `peek_uXXYe` of the bytes it is fed, however they are cut into calls.

Invariant: after `k` bytes (`k < xx/8 ≤ 8`, so `k ≤ 7`) the scratch word is
  little-endian:  V + 8k·2^56   with V = peekLE(bytes so far) < 2^(8k)      (count in the top byte)
  big-endian:     w·2^(64-8k) + 8k   with w = peekBE(bytes so far) < 2^(8k) (count in the low byte)
-/
import WuffsVerif.Model.Scratch

namespace WuffsVerif.Scratch

theorem or_eq_add (i a s : Nat) (hs : s < 2 ^ i) : s ||| a * 2 ^ i = s + a * 2 ^ i := by
  rw [Nat.or_comm, ← Nat.shiftLeft_eq, ← Nat.shiftLeft_add_eq_or_of_lt hs, Nat.add_comm]

theorem or_eq_add' (i a s : Nat) (hs : s < 2 ^ i) : a * 2 ^ i ||| s = a * 2 ^ i + s := by
  rw [← Nat.shiftLeft_eq, ← Nat.shiftLeft_add_eq_or_of_lt hs]

theorem and_ff (x : Nat) : x &&& 0xFF = x % 256 := by
  have := Nat.and_two_pow_sub_one_eq_mod x 8
  simpa using this

/-! ### peek -/

theorem peekBE_snoc (pre : List UInt8) (b : UInt8) : peekBE (pre ++ [b]) = peekBE pre * 256 + b.toNat := by
  simp [peekBE, List.foldl_append]

theorem peekLE_snoc : ∀ (pre : List UInt8) (b : UInt8),
    peekLE (pre ++ [b]) = peekLE pre + b.toNat * 256 ^ pre.length
  | [], b => by simp [peekLE]
  | x :: pre, b => by
    simp only [List.cons_append, peekLE, peekLE_snoc pre b, List.length_cons, Nat.pow_succ]
    rw [Nat.mul_add, Nat.add_assoc]
    congr 2
    rw [Nat.mul_comm (256 ^ pre.length) 256, ← Nat.mul_assoc, ← Nat.mul_assoc, Nat.mul_comm 256 b.toNat]

theorem u8_lt (b : UInt8) : b.toNat < 256 := b.toNat_lt

theorem peekLE_lt : ∀ (pre : List UInt8), peekLE pre < 256 ^ pre.length
  | [] => by simp [peekLE]
  | x :: pre => by
    have := peekLE_lt pre
    have := u8_lt x
    simp only [peekLE, List.length_cons, Nat.pow_succ]
    omega

private theorem foldl_lt : ∀ (pre : List UInt8) (acc : Nat),
    pre.foldl (fun acc b => acc * 256 + b.toNat) acc < (acc + 1) * 256 ^ pre.length
  | [], acc => by simp
  | x :: pre, acc => by
    have h1 := foldl_lt pre (acc * 256 + x.toNat)
    have hx := u8_lt x
    simp only [List.foldl_cons, List.length_cons, Nat.pow_succ]
    have h2 : (acc * 256 + x.toNat + 1) * 256 ^ pre.length ≤ (acc + 1) * 256 * 256 ^ pre.length :=
      Nat.mul_le_mul_right _ (by omega)
    calc _ < (acc * 256 + x.toNat + 1) * 256 ^ pre.length := h1
      _ ≤ (acc + 1) * 256 * 256 ^ pre.length := h2
      _ = (acc + 1) * (256 ^ pre.length * 256) := by rw [Nat.mul_assoc, Nat.mul_comm 256]

theorem peekBE_lt (pre : List UInt8) : peekBE pre < 256 ^ pre.length := by
  have := foldl_lt pre 0
  simpa [peekBE] using this

/-! ### one byte through the loop -/

/-- The scratch word after the bytes `pre` (fewer than `xx/8` of them). -/
def enc (m : RdMethod) (pre : List UInt8) : Nat :=
  if m.be then peekBE pre * 2 ^ (64 - 8 * pre.length) + 8 * pre.length
  else peekLE pre + 8 * pre.length * 2 ^ 56

/-- Well-formed rows of `readMethods` that use the scratch word. -/
structure RdMethod.Valid (m : RdMethod) : Prop where
  lo : 16 ≤ m.n
  hi : m.n ≤ 64
  mul8 : m.n % 8 = 0
  fits : m.n ≤ m.size

theorem pow256 (k : Nat) : 256 ^ k = 2 ^ (8 * k) := by
  rw [show (256 : Nat) = 2 ^ 8 from rfl, ← Nat.pow_mul]

theorem two_pow_le_56 {K : Nat} (h : K ≤ 56) : 2 ^ K ≤ 2 ^ 56 := Nat.pow_le_pow_right (by decide) h

theorem rdLoop_step_le (m : RdMethod) (hbe : m.be = false) (hv : m.Valid) (pre : List UInt8)
    (hk : 8 * pre.length + 8 ≤ m.n) (b : UInt8) (rest : List UInt8) (c : Nat) :
    rdLoop m (enc m pre) c (b :: rest) =
      if 8 * pre.length + 8 = m.n then RdRes.done (peek m.be (pre ++ [b])) (c + 1)
      else rdLoop m (enc m (pre ++ [b])) (c + 1) rest := by
  obtain ⟨_, hhi, _, hfits⟩ := hv
  have hV := peekLE_lt pre
  rw [pow256] at hV
  have hb := u8_lt b
  generalize hK : 8 * pre.length = K at *
  generalize hVd : peekLE pre = V at *
  have hK56 : K ≤ 56 := by omega
  have hP := two_pow_le_56 hK56
  have hX : b.toNat * 2 ^ K ≤ 255 * 2 ^ K := Nat.mul_le_mul_right _ (by omega)
  have hP8 : 2 ^ (K + 8) = 256 * 2 ^ K := by rw [Nat.pow_add]; omega
  have hsum : V + b.toNat * 2 ^ K < 2 ^ (K + 8) := by rw [hP8]; omega
  rw [rdLoop]
  simp only [enc, peek, hbe, Bool.false_eq_true, ↓reduceIte, u64, Nat.shiftLeft_eq,
    Nat.shiftRight_eq_div_pow, hK, hVd, List.length_append, List.length_cons, List.length_nil]
  have h1 : (V + K * 2 ^ 56) / 2 ^ 56 = K := by omega
  rw [h1]
  have h2 : (V + K * 2 ^ 56) * 2 ^ 8 % 2 ^ 64 / 2 ^ 8 = V := by omega
  rw [h2]
  have h3 : b.toNat * 2 ^ K % 2 ^ 64 = b.toNat * 2 ^ K := by
    apply Nat.mod_eq_of_lt
    omega
  rw [h3, or_eq_add K b.toNat V hV]
  have hsnoc : peekLE (pre ++ [b]) = V + b.toNat * 2 ^ K := by
    rw [peekLE_snoc, pow256, hK, hVd]
  by_cases hlast : K + 8 = m.n
  · have e1 : (K == m.n - 8) = true := by simp; omega
    simp only [e1, ↓reduceIte, hlast]
    have : 2 ^ m.n ≤ 2 ^ m.size := Nat.pow_le_pow_right (by decide) hfits
    rw [hlast] at hsum
    rw [Nat.mod_eq_of_lt (by omega), hsnoc]
  · have e1 : (K == m.n - 8) = false := by simp; omega
    simp only [e1, Bool.false_eq_true, ↓reduceIte, hlast]
    have hK48 : K + 8 ≤ 56 := by omega
    have hlt56 : V + b.toNat * 2 ^ K < 2 ^ 56 := Nat.lt_of_lt_of_le hsum (two_pow_le_56 hK48)
    have h5 : (K + 8) * 2 ^ 56 % 2 ^ 64 = (K + 8) * 2 ^ 56 := by omega
    rw [h5, or_eq_add 56 (K + 8) _ hlt56, hsnoc]
    have : 8 * (pre.length + 1) = K + 8 := by omega
    rw [this]

theorem rdLoop_step_be (m : RdMethod) (hbe : m.be = true) (hv : m.Valid) (pre : List UInt8)
    (hk : 8 * pre.length + 8 ≤ m.n) (b : UInt8) (rest : List UInt8) (c : Nat) :
    rdLoop m (enc m pre) c (b :: rest) =
      if 8 * pre.length + 8 = m.n then RdRes.done (peek m.be (pre ++ [b])) (c + 1)
      else rdLoop m (enc m (pre ++ [b])) (c + 1) rest := by
  obtain ⟨_, hhi, _, hfits⟩ := hv
  have hw := peekBE_lt pre
  rw [pow256] at hw
  have hb := u8_lt b
  generalize hK : 8 * pre.length = K at *
  generalize hwd : peekBE pre = w at *
  have hK56 : K ≤ 56 := by omega
  -- Q = 2^(56-K); 2^(64-K) = 256·Q; 2^K·Q = 2^56
  generalize hQ : 2 ^ (56 - K) = Q
  have hQ64 : 2 ^ (64 - K) = 256 * Q := by
    rw [← hQ, show 64 - K = 8 + (56 - K) by omega, Nat.pow_add]
  have hKQ : 2 ^ K * Q = 2 ^ 56 := by
    rw [← hQ, ← Nat.pow_add, show K + (56 - K) = 56 by omega]
  have hQpos : 0 < Q := by rw [← hQ]; exact Nat.pow_pos (by decide)
  generalize hA : w * Q = A
  have hA56 : A < 2 ^ 56 := by
    rw [← hA, ← hKQ]
    exact Nat.mul_lt_mul_of_lt_of_le hw (Nat.le_refl _) hQpos
  generalize hX : b.toNat * Q = X
  have hXle : X ≤ 255 * Q := by rw [← hX]; exact Nat.mul_le_mul_right _ (by omega)
  have hQle : Q ≤ 2 ^ 56 := by rw [← hQ]; exact two_pow_le_56 (by omega)
  have hsnoc : peekBE (pre ++ [b]) = w * 256 + b.toNat := by rw [peekBE_snoc, hwd]
  rw [rdLoop]
  simp only [enc, peek, hbe, ↓reduceIte, u64, Nat.shiftLeft_eq, Nat.shiftRight_eq_div_pow, hK, hwd,
    List.length_append, List.length_cons, List.length_nil, and_ff, hQ64]
  have hscr : w * (256 * Q) + K = 256 * A + K := by
    rw [← hA, ← Nat.mul_assoc, Nat.mul_comm w 256, Nat.mul_assoc]
  rw [hscr]
  have h1 : (256 * A + K) % 256 = K := by omega
  rw [h1, hQ, hX]
  have h2 : (256 * A + K) / 2 ^ 8 * 2 ^ 8 % 2 ^ 64 = 256 * A := by omega
  rw [h2]
  have h3 : X % 2 ^ 64 = X := Nat.mod_eq_of_lt (by omega)
  rw [h3]
  have hor : 256 * A ||| X = 256 * A + X := by
    have : 256 * A = w * 2 ^ (64 - K) := by
      rw [hQ64, ← hA, ← Nat.mul_assoc, Nat.mul_comm 256 w, Nat.mul_assoc]
    rw [this]
    exact or_eq_add' (64 - K) w X (by rw [hQ64]; omega)
  rw [hor]
  have hs2 : 256 * A + X = (w * 256 + b.toNat) * Q := by
    rw [← hA, ← hX, Nat.add_mul]
    congr 1
    ac_rfl
  rw [hs2]
  have hw' : w * 256 + b.toNat < 2 ^ (K + 8) := by
    rw [Nat.pow_add]; omega
  by_cases hlast : K + 8 = m.n
  · have e1 : (K == m.n - 8) = true := by simp; omega
    simp only [e1, ↓reduceIte, hlast]
    have hq2 : 2 ^ (64 - m.n) = Q := by rw [← hQ]; congr 1; omega
    rw [hq2, Nat.mul_div_cancel _ hQpos, hsnoc]
    have : 2 ^ m.n ≤ 2 ^ m.size := Nat.pow_le_pow_right (by decide) hfits
    rw [hlast] at hw'
    exact congrArg (fun v => RdRes.done v (c + 1)) (Nat.mod_eq_of_lt (by omega))
  · have e1 : (K == m.n - 8) = false := by simp; omega
    simp only [e1, Bool.false_eq_true, ↓reduceIte, hlast]
    have hK48 : K + 8 ≤ 56 := by omega
    have hQ256 : 256 ≤ Q := by
      rw [← hQ]
      calc 256 = 2 ^ 8 := rfl
        _ ≤ 2 ^ (56 - K) := Nat.pow_le_pow_right (by decide) (by omega)
    have hor2 : (w * 256 + b.toNat) * Q ||| (K + 8) = (w * 256 + b.toNat) * Q + (K + 8) := by
      rw [← hQ]
      exact or_eq_add' (56 - K) _ _ (by rw [hQ]; omega)
    rw [hor2, hsnoc]
    have e2 : 8 * (pre.length + 1) = K + 8 := by omega
    have e3 : 2 ^ (64 - (K + 8)) = Q := by rw [← hQ]; congr 1; omega
    rw [e2, e3]

theorem rdLoop_step (m : RdMethod) (hv : m.Valid) (pre : List UInt8)
    (hk : 8 * pre.length + 8 ≤ m.n) (b : UInt8) (rest : List UInt8) (c : Nat) :
    rdLoop m (enc m pre) c (b :: rest) =
      if 8 * pre.length + 8 = m.n then RdRes.done (peek m.be (pre ++ [b])) (c + 1)
      else rdLoop m (enc m (pre ++ [b])) (c + 1) rest := by
  cases hbe : m.be
  · exact hbe ▸ rdLoop_step_le m hbe hv pre hk b rest c
  · exact hbe ▸ rdLoop_step_be m hbe hv pre hk b rest c

/-! ### a whole call, and a whole read across calls -/

theorem rdLoop_spec (m : RdMethod) (hv : m.Valid) : ∀ (avail pre : List UInt8) (c : Nat),
    8 * pre.length + 8 ≤ m.n →
    rdLoop m (enc m pre) c avail =
      if m.n / 8 ≤ pre.length + avail.length then
        RdRes.done (peek m.be (pre ++ avail.take (m.n / 8 - pre.length))) (c + (m.n / 8 - pre.length))
      else RdRes.susp (RdSt.loop (enc m (pre ++ avail))) (c + avail.length)
  | [], pre, c, hk => by
    have h8 := hv.mul8
    have hn : ¬ m.n / 8 ≤ pre.length + ([] : List UInt8).length := by simp only [List.length_nil]; omega
    rw [if_neg hn]
    simp [rdLoop]
  | b :: rest, pre, c, hk => by
    have h8 := hv.mul8
    rw [rdLoop_step m hv pre hk b rest c]
    by_cases hlast : 8 * pre.length + 8 = m.n
    · have h1 : m.n / 8 - pre.length = 1 := by omega
      have h2 : m.n / 8 ≤ pre.length + (b :: rest).length := by simp only [List.length_cons]; omega
      rw [if_pos hlast, if_pos h2, h1]
      simp
    · have hk' : 8 * (pre ++ [b]).length + 8 ≤ m.n := by
        simp only [List.length_append, List.length_cons, List.length_nil]; omega
      rw [if_neg hlast, rdLoop_spec m hv rest (pre ++ [b]) (c + 1) hk']
      simp only [List.length_append, List.length_cons, List.length_nil, Nat.zero_add]
      by_cases hc : m.n / 8 ≤ pre.length + (rest.length + 1)
      · have hc' : m.n / 8 ≤ pre.length + 1 + rest.length := by omega
        rw [if_pos hc, if_pos hc']
        have e2 : m.n / 8 - pre.length = (m.n / 8 - (pre.length + 1)) + 1 := by omega
        rw [e2, List.take_succ_cons]
        simp only [List.append_assoc, List.cons_append, List.nil_append]
        congr 1
        omega
      · have hc' : ¬ m.n / 8 ≤ pre.length + 1 + rest.length := by omega
        rw [if_neg hc, if_neg hc']
        simp only [List.append_assoc, List.cons_append, List.nil_append]
        congr 1
        omega

theorem enc_nil (m : RdMethod) : enc m [] = 0 := by
  unfold enc; cases m.be <;> simp [peekBE, peekLE]

theorem peek_lt (be : Bool) (bs : List UInt8) : peek be bs < 2 ^ (8 * bs.length) := by
  rw [← pow256]
  cases be
  · exact peekLE_lt bs
  · exact peekBE_lt bs

/-- How far a read has got: not started, or suspended after the bytes `pre`. -/
def StFor (m : RdMethod) (st : RdSt) (pre : List UInt8) : Prop :=
  (st = RdSt.start ∧ pre = []) ∨ st = RdSt.loop (enc m pre)

theorem rdCall_spec (m : RdMethod) (hv : m.Valid) (st : RdSt) (pre avail : List UInt8)
    (hst : StFor m st pre) (hk : 8 * pre.length + 8 ≤ m.n) :
    rdCall m st avail =
      if m.n / 8 ≤ pre.length + avail.length then
        RdRes.done (peek m.be (pre ++ avail.take (m.n / 8 - pre.length))) (m.n / 8 - pre.length)
      else RdRes.susp (RdSt.loop (enc m (pre ++ avail))) avail.length := by
  have h8 := hv.mul8
  rcases hst with ⟨rfl, rfl⟩ | rfl
  · simp only [rdCall, List.length_nil, Nat.zero_add, Nat.sub_zero, List.nil_append, ge_iff_le]
    by_cases hc : m.n / 8 ≤ avail.length
    · simp only [hc, ↓reduceIte]
      have hl : (avail.take (m.n / 8)).length = m.n / 8 := by simp; omega
      have := peek_lt m.be (avail.take (m.n / 8))
      rw [hl] at this
      have h2 : 2 ^ (8 * (m.n / 8)) ≤ 2 ^ m.size := Nat.pow_le_pow_right (by decide) (by have := hv.fits; omega)
      rw [Nat.mod_eq_of_lt (by omega)]
    · simp only [hc, ↓reduceIte]
      have := rdLoop_spec m hv avail [] 0 (by simpa using hk)
      rw [enc_nil] at this
      simp only [List.length_nil, Nat.zero_add, hc, ↓reduceIte, List.nil_append] at this
      exact this
  · simp only [rdCall]
    have := rdLoop_spec m hv avail pre 0 hk
    simpa using this

theorem readCall_eq (m : RdMethod) (hv : m.Valid) (st : RdSt) (avail : List UInt8) :
    readCall m st avail = rdCall m st avail := by
  have := hv.lo
  have : (m.n == 8) = false := by simp; omega
  simp [readCall, this]

/-- A `read_uXXYe?` run by the chunk driver: `pre` are the bytes already absorbed into the
scratch word, `pending` what is available now, `future` the chunks still to come. -/
theorem readGo_spec (m : RdMethod) (hv : m.Valid) : ∀ (future : List (List UInt8)) (st : RdSt)
    (pre pending : List UInt8) (c s : Nat), StFor m st pre → 8 * pre.length + 8 ≤ m.n →
    (m.n / 8 - pre.length ≤ (pending ++ future.flatten).length →
      ∃ src, readGo m st pending c s future =
          (some (peek m.be (pre ++ (pending ++ future.flatten).take (m.n / 8 - pre.length))), src) ∧
        src.consumed = c + (m.n / 8 - pre.length) ∧
        src.pending ++ src.future.flatten = (pending ++ future.flatten).drop (m.n / 8 - pre.length)) ∧
    (¬ m.n / 8 - pre.length ≤ (pending ++ future.flatten).length →
      ∃ s', readGo m st pending c s future = (none, ⟨[], [], c + (pending ++ future.flatten).length, s'⟩))
  | [], st, pre, pending, c, s, hst, hk => by
    have h8 := hv.mul8
    simp only [List.flatten_nil, List.append_nil, readGo, readCall_eq m hv, rdCall_spec m hv st pre pending hst hk]
    constructor
    · intro hc
      have : m.n / 8 ≤ pre.length + pending.length := by omega
      simp only [this, ↓reduceIte]
      exact ⟨⟨pending.drop (m.n / 8 - pre.length), [], c + (m.n / 8 - pre.length), s⟩, rfl, rfl, by simp⟩
    · intro hc
      have : ¬ m.n / 8 ≤ pre.length + pending.length := by omega
      simp only [this, ↓reduceIte]
      exact ⟨_, rfl⟩
  | ch :: fut, st, pre, pending, c, s, hst, hk => by
    have h8 := hv.mul8
    simp only [readGo, readCall_eq m hv, rdCall_spec m hv st pre pending hst hk, List.flatten_cons]
    by_cases hp : m.n / 8 ≤ pre.length + pending.length
    · simp only [hp, ↓reduceIte]
      have hle : m.n / 8 - pre.length ≤ pending.length := by omega
      constructor
      · intro _
        refine ⟨⟨pending.drop (m.n / 8 - pre.length), ch :: fut, c + (m.n / 8 - pre.length), s⟩, ?_, rfl, ?_⟩
        · rw [List.take_append_of_le_length hle]
        · simp only [List.flatten_cons]
          rw [List.drop_append_of_le_length hle]
      · intro hc
        exfalso; apply hc
        simp only [List.length_append]; omega
    · simp only [hp, ↓reduceIte]
      have hk' : 8 * (pre ++ pending).length + 8 ≤ m.n := by simp only [List.length_append]; omega
      have ih := readGo_spec m hv fut (RdSt.loop (enc m (pre ++ pending))) (pre ++ pending) ch
        (c + pending.length) (s + 1) (Or.inr rfl) hk'
      have e1 : m.n / 8 - (pre ++ pending).length = m.n / 8 - pre.length - pending.length := by
        simp only [List.length_append]; omega
      have hgt : pending.length < m.n / 8 - pre.length := by omega
      rw [e1] at ih
      constructor
      · intro hc
        have hc' : m.n / 8 - pre.length - pending.length ≤ (ch ++ fut.flatten).length := by
          simp only [List.length_append] at hc ⊢; omega
        obtain ⟨src, h1, h2, h3⟩ := ih.1 hc'
        have ht : List.take (m.n / 8 - pre.length) (pending ++ (ch ++ fut.flatten)) =
            pending ++ List.take (m.n / 8 - pre.length - pending.length) (ch ++ fut.flatten) := by
          rw [List.take_append, List.take_of_length_le (Nat.le_of_lt hgt)]
        have hd : List.drop (m.n / 8 - pre.length) (pending ++ (ch ++ fut.flatten)) =
            List.drop (m.n / 8 - pre.length - pending.length) (ch ++ fut.flatten) := by
          rw [List.drop_append, List.drop_of_length_le (Nat.le_of_lt hgt), List.nil_append]
        refine ⟨src, ?_, ?_, ?_⟩
        · rw [h1, ht, List.append_assoc]
        · rw [h2]; omega
        · rw [h3, hd]
      · intro hc
        have hc' : ¬ m.n / 8 - pre.length - pending.length ≤ (ch ++ fut.flatten).length := by
          simp only [List.length_append] at hc ⊢; omega
        obtain ⟨s', h1⟩ := ih.2 hc'
        refine ⟨s', ?_⟩
        rw [h1]
        simp only [List.length_append, Nat.add_assoc]

end WuffsVerif.Scratch
