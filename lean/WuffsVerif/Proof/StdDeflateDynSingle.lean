/-
C07 helper, part 7, MODULE G: `init_huff(1, …)` on the degenerate distance code (exactly one code, of length 1):
the two-entry table (`InitHuffSingleSpec`).
Core Lean only.
-/
import WuffsVerif.Proof.StdDeflateDynDefs

namespace WuffsVerif.StdDeflate
open WuffsVerif.Flate.Spec (bitAt bitsLE avail Huff mkHuff kraft symsOfLen countLen)
open WuffsVerif.Gen.C07

namespace G

/-! ### lists of code lengths -/

theorem foldmax_ge (L : List Nat) : ∀ m, m ≤ L.foldl (fun m l => if l > m then l else m) m ∧
    ∀ l ∈ L, l ≤ L.foldl (fun m l => if l > m then l else m) m := by
  induction L with
  | nil => intro m; simp
  | cons a L ih =>
    intro m
    simp only [List.foldl_cons, List.mem_cons]
    obtain ⟨h1, h2⟩ := ih (if a > m then a else m)
    generalize hm' : (if a > m then a else m) = m' at h1 h2 ⊢
    have : m ≤ m' ∧ a ≤ m' := by rw [← hm']; split <;> omega
    refine ⟨by omega, ?_⟩
    intro l hl
    rcases hl with rfl | hl
    · omega
    · exact h2 l hl

theorem fold_count (k : Nat) (L : List Nat) : ∀ a,
    L.foldl (fun acc l => if l = k then acc + 1 else acc) a = a + L.count k := by
  induction L with
  | nil => intro a; simp
  | cons b L ih =>
    intro a
    simp only [List.foldl_cons, List.count_cons, ih]
    by_cases hb : b = k
    · simp [hb]; omega
    · simp [hb]

theorem countLen_eq (lens : Array Nat) (k : Nat) : countLen lens k = lens.toList.count k := by
  unfold countLen; rw [fold_count]; simp

theorem filter_zipIdx_nil (k : Nat) (A : List Nat) : ∀ n, (∀ a ∈ A, a ≠ k) →
    (A.zipIdx n).filter (fun p => p.1 = k) = [] := by
  induction A with
  | nil => intro n _; rfl
  | cons a A ih =>
    intro n h
    rw [List.zipIdx_cons, List.filter_cons]
    have : a ≠ k := h a (by simp)
    simp only [this, decide_false, Bool.false_eq_true, if_false]
    exact ih _ (fun b hb => h b (by simp [hb]))

/-- the shape of a code-length list that the specification accepts as the one-code code -/
structure Shape (L A B : List Nat) : Prop where
  eq : L = A ++ 1 :: B
  a0 : ∀ a ∈ A, a = 0
  b0 : ∀ b ∈ B, b = 0

theorem shape_of (L : List Nat) (hmax : ∀ l ∈ L, l ≤ 1) (hc : L.count 1 = 1) : ∃ A B, Shape L A B := by
  have hm : 1 ∈ L := List.count_pos_iff.mp (by omega)
  obtain ⟨A, B, he, hA⟩ := List.eq_append_cons_of_mem hm
  have hB : 1 ∉ B := by
    rw [he, List.count_append, List.count_cons_self] at hc
    exact List.count_eq_zero.mp (by omega)
  refine ⟨A, B, he, ?_, ?_⟩
  · intro a ha
    have := hmax a (by rw [he]; simp [ha])
    have : a ≠ 1 := fun h => hA (h ▸ ha)
    omega
  · intro b hb
    have := hmax b (by rw [he]; simp [hb])
    have : b ≠ 1 := fun h => hB (h ▸ hb)
    omega

theorem Shape.len {L A B : List Nat} (s : Shape L A B) : L.length = A.length + B.length + 1 := by
  rw [s.eq]; simp; omega

theorem Shape.count0 {L A B : List Nat} (s : Shape L A B) : L.count 0 = A.length + B.length := by
  rw [s.eq, List.count_append, List.count_cons]
  have h1 : A.count 0 = A.length := List.count_eq_length.mpr (fun b hb => (s.a0 b hb).symm)
  have h2 : B.count 0 = B.length := List.count_eq_length.mpr (fun b hb => (s.b0 b hb).symm)
  rw [h1, h2]; simp

theorem Shape.count1 {L A B : List Nat} (s : Shape L A B) : L.count 1 = 1 := by
  rw [s.eq, List.count_append, List.count_cons_self]
  have h1 : A.count 1 = 0 := List.count_eq_zero.mpr (fun h => by have := s.a0 1 h; omega)
  have h2 : B.count 1 = 0 := List.count_eq_zero.mpr (fun h => by have := s.b0 1 h; omega)
  omega

theorem Shape.countk {L A B : List Nat} (s : Shape L A B) (k : Nat) (hk : 2 ≤ k) : L.count k = 0 := by
  apply List.count_eq_zero.mpr
  rw [s.eq]
  simp only [List.mem_append, List.mem_cons, not_or]
  exact ⟨fun h => by have := s.a0 k h; omega, by omega, fun h => by have := s.b0 k h; omega⟩

theorem Shape.get_lt {L A B : List Nat} (s : Shape L A B) (j : Nat) (hj : j < A.length) : L.getD j 0 = 0 := by
  rw [s.eq, List.getD_eq_getElem?_getD, List.getElem?_append_left hj, List.getElem?_eq_getElem hj]
  exact s.a0 _ (List.getElem_mem hj)

theorem Shape.get_eq {L A B : List Nat} (s : Shape L A B) : L.getD A.length 0 = 1 := by
  rw [s.eq, List.getD_eq_getElem?_getD, List.getElem?_append_right (Nat.le_refl _)]
  simp

theorem Shape.get_le {L A B : List Nat} (s : Shape L A B) (j : Nat) : L.getD j 0 ≤ 1 := by
  rw [List.getD_eq_getElem?_getD]
  cases h : L[j]? with
  | none => simp
  | some v =>
    have hm : v ∈ L := List.mem_of_getElem? h
    rw [s.eq] at hm
    simp only [List.mem_append, List.mem_cons] at hm
    simp only [Option.getD_some]
    rcases hm with h | h | h
    · have := s.a0 v h; omega
    · omega
    · have := s.b0 v h; omega

theorem Shape.syms1 {L A B : List Nat} (s : Shape L A B) :
    (L.zipIdx.filter (fun p => p.1 = 1)).map (·.2) = [A.length] := by
  rw [s.eq, List.zipIdx_append, List.filter_append, List.zipIdx_cons, List.filter_cons]
  rw [filter_zipIdx_nil 1 A 0 (fun a ha => by have := s.a0 a ha; omega)]
  rw [filter_zipIdx_nil 1 B _ (fun a ha => by have := s.b0 a ha; omega)]
  simp

theorem Shape.symsk {L A B : List Nat} (s : Shape L A B) (k : Nat) (hk : 2 ≤ k) :
    (L.zipIdx.filter (fun p => p.1 = k)).map (·.2) = [] := by
  rw [filter_zipIdx_nil k L 0]
  · rfl
  · intro a ha
    rw [s.eq] at ha
    simp only [List.mem_append, List.mem_cons] at ha
    rcases ha with h | h | h
    · have := s.a0 a h; omega
    · omega
    · have := s.b0 a h; omega

theorem sortedSyms_shape {lens : Array Nat} {A B : List Nat} (s : Shape lens.toList A B) :
    sortedSyms lens = [A.length] := by
  unfold sortedSyms
  rw [show Flate.Spec.maxBits = 14 + 1 from rfl, List.range'_succ, List.flatMap_cons]
  have h1 : symsOfLen lens 1 = [A.length] := s.syms1
  have h2 : (List.range' (1 + 1) 14).flatMap (symsOfLen lens) = [] := by
    rw [List.flatMap_eq_nil_iff]
    intro k hk
    rw [List.mem_range'_1] at hk
    exact s.symsk k (by omega)
  rw [h1, h2]; rfl

/-! ### `find?` -/

theorem find_range' (p : Nat → Bool) (i0 : Nat) : ∀ n s, s ≤ i0 → i0 < s + n → p i0 = true →
    (∀ j, s ≤ j → j < i0 → p j = false) → (List.range' s n).find? p = some i0 := by
  intro n
  induction n with
  | zero => intro s h1 h2; omega
  | succ n ih =>
    intro s h1 h2 hp hn
    rw [List.range'_succ, List.find?_cons]
    by_cases hs : s = i0
    · subst hs; rw [hp]
    · rw [hn s (Nat.le_refl _) (by omega)]
      exact ih (s + 1) (by omega) (by omega) hp (fun j hj1 hj2 => hn j (by omega) hj2)

theorem count_get (lens : Array Nat) (k : Nat) (hk : 1 ≤ k) (hk15 : k ≤ 15) :
    (((List.range (Flate.Spec.maxBits + 1)).map (fun L => if L = 0 then 0 else countLen lens L)).toArray).getD k 0 =
      countLen lens k := by
  have : k < Flate.Spec.maxBits + 1 := by show k < 16; omega
  have hk0 : k ≠ 0 := by omega
  simp [Array.getD_eq_getD_getElem?, List.getElem?_map, List.getElem?_range this, hk0]

/-- what `mkHuff` says about the one-code code -/
theorem mk_single (lens : Array Nat) (h : Huff) (hmk : mkHuff lens = some h) (hm : h.maxLen = 1)
    (hk : kraft h.count 1 = 1) :
    ∃ A B, Shape lens.toList A B ∧ h.count.getD 1 0 = 1 ∧ h.syms.getD 0 0 = A.length := by
  simp only [mkHuff] at hmk
  split at hmk
  · cases hmk
  · split at hmk
    · simp only [Option.some.injEq] at hmk; subst hmk; simp at hm
    · split at hmk
      · simp only [Option.some.injEq] at hmk
        subst hmk
        simp only at hm hk ⊢
        have hc : countLen lens 1 = 1 := by
          rw [← count_get lens 1 (by omega) (by omega)]
          simpa [kraft, List.range'] using hk
        have hmax := (foldmax_ge lens.toList 0).2
        rw [hm] at hmax
        rw [countLen_eq] at hc
        obtain ⟨A, B, s⟩ := shape_of lens.toList hmax hc
        refine ⟨A, B, s, ?_, ?_⟩
        · rw [count_get lens 1 (by omega) (by omega), countLen_eq]; exact hc
        · have := sortedSyms_shape s
          unfold sortedSyms at this
          rw [this]; rfl
      · cases hmk

/-! ### the mirror on the one-code code -/

theorem remaining_single (counts : Array Nat) (h1 : counts.getD 1 0 = 1)
    (hk : ∀ k, 2 ≤ k → k ≤ 15 → counts.getD k 0 = 0) : huffRemaining counts = .ok 16384 := by
  have e : List.range' 1 15 = [1,2,3,4,5,6,7,8,9,10,11,12,13,14,15] := by decide
  simp only [huffRemaining, e, List.foldlM_cons, List.foldlM_nil, h1, hk 2 (by omega) (by omega),
    hk 3 (by omega) (by omega), hk 4 (by omega) (by omega), hk 5 (by omega) (by omega), hk 6 (by omega) (by omega),
    hk 7 (by omega) (by omega), hk 8 (by omega) (by omega), hk 9 (by omega) (by omega), hk 10 (by omega) (by omega),
    hk 11 (by omega) (by omega), hk 12 (by omega) (by omega), hk 13 (by omega) (by omega), hk 14 (by omega) (by omega),
    hk 15 (by omega) (by omega)]
  rfl

theorem dmagic_facts : ∀ i, i < 32 →
    (deflateDcodeMagic.getD i 0 ||| 1) &&& 15 = 1 ∧ (deflateDcodeMagic.getD i 0 ||| 1) >>> 28 ≠ 1 := by
  decide +kernel

theorem dmagic_val : ∀ i, i < 30 → (deflateDcodeMagic.getD i 0 ||| 1) >>> 4 = valD i >>> 4 := by decide +kernel

theorem table_get (old : Array Nat) (hs : old.size = 1024) (a b : Nat) :
    tget (applyWrites old [(0, a), (1, b)]) 0 = a ∧ tget (applyWrites old [(0, a), (1, b)]) 1 = b := by
  simp [tget_eq, applyWrites, Array.getD_eq_getD_getElem?, hs]

/-- a two-entry table whose entries both consume one bit and are not redirects -/
theorem two_entry (T : Array Nat) (a b : Nat) (t0 : tget T 0 = a) (t1 : tget T 1 = b)
    (ha : a &&& 15 = 1) (hb : b &&& 15 = 1) (ra : a >>> 28 ≠ 1) (rb : b >>> 28 ≠ 1) :
    TblOK T 1 ∧ (∀ i, i < 2 ^ 1 → ¬ isRedirect (tget T i)) ∧
      ∀ x, x % 2 = 0 → lookup2 T 1 x = (a, 1) := by
  have hnr : ∀ i, i < 2 ^ 1 → ¬ isRedirect (tget T i) := by
    intro i hi
    have : i = 0 ∨ i = 1 := by omega
    rcases this with rfl | rfl
    · rw [t0]; exact ra
    · rw [t1]; exact rb
  refine ⟨⟨?_, fun i hi hr => absurd hr (hnr i hi)⟩, hnr, ?_⟩
  · intro i hi
    have : i = 0 ∨ i = 1 := by omega
    rcases this with rfl | rfl
    · simp only [Nat.zero_add, t0, ha]
      refine ⟨Nat.le_refl _, ?_⟩
      intro i' hi' hc
      have : i' = 0 := by omega
      rw [this, t0]
    · simp only [Nat.zero_add, t1, hb]
      refine ⟨Nat.le_refl _, ?_⟩
      intro i' hi' hc
      have : i' = 1 := by omega
      rw [this, t1]
  · intro x hx
    have hr : ¬ isRedirect a := ra
    simp only [lookup2, Nat.pow_one, hx, t0, ha, if_neg hr]

end G

/-- MODULE G -/
theorem initHuffSingleSpec_holds : InitHuffSingleSpec := by
  intro hC cl old lens nLit nDist h hL h1 h30 hlo hsz hmk hm hk
  obtain ⟨A, B, s, hc1, hsy⟩ := G.mk_single lens h hmk hm hk
  have hsize : lens.size = nDist := by rw [hlo.size]; omega
  have hlen : A.length + B.length + 1 = nDist := by
    have := s.len; rw [Array.length_toList, hsize] at this; omega
  have hget : ∀ j, lens.getD j 0 = lens.toList.getD j 0 := by
    intro j; simp [Array.getD_eq_getD_getElem?, List.getD_eq_getElem?_getD]
  have hle15 : ∀ j, lens.getD j 0 ≤ 15 := by
    intro j; rw [hget]; have := s.get_le j; omega
  obtain ⟨counts, hcnt, hcs, hcv⟩ := hC cl lens nLit (nLit + nDist) hlo hle15
  have c0 : counts.getD 0 0 = A.length + B.length := by rw [hcv 0 (by omega), G.countLen_eq, s.count0]
  have c1 : counts.getD 1 0 = 1 := by rw [hcv 1 (by omega), G.countLen_eq, s.count1]
  have ck : ∀ k, 2 ≤ k → k ≤ 15 → counts.getD k 0 = 0 := by
    intro k hk2 hk15; rw [hcv k hk15, G.countLen_eq, s.countk k hk2]
  have hrem := G.remaining_single counts c1 ck
  have hfind : (List.range 30).find? (fun i => decide (cl.getD (nLit + i) 0 = 1)) = some A.length := by
    rw [List.range_eq_range']
    apply G.find_range' _ _ 30 0 (by omega) (by omega)
    · rw [decide_eq_true_eq, hlo.eq _ (by omega), hget, s.get_eq]
    · intro j _ hj
      rw [decide_eq_false_iff_not, hlo.eq _ (by omega), hget, s.get_lt j hj]; omega
  refine ⟨applyWrites old [(0, deflateDcodeMagic.getD A.length 0 ||| 1), (1, deflateDcodeMagic.getD 31 0 ||| 1)],
    1, ?_, ?_⟩
  · unfold initHuff initHuffWrites
    simp only [hcnt, bind, Except.bind]
    unfold initHuffCounted
    rw [if_neg (by omega)]
    simp only [hrem, bind, Except.bind]
    rw [if_pos (by omega), if_pos ⟨trivial, c1, by omega⟩, hfind]
  · obtain ⟨t0, t1⟩ := G.table_get old hsz (deflateDcodeMagic.getD A.length 0 ||| 1) (deflateDcodeMagic.getD 31 0 ||| 1)
    have hsT := applyWrites_size [(0, deflateDcodeMagic.getD A.length 0 ||| 1), (1, deflateDcodeMagic.getD 31 0 ||| 1)] old
    generalize applyWrites old _ = T at t0 t1 hsT ⊢
    obtain ⟨fa1, fa2⟩ := G.dmagic_facts A.length (by omega)
    obtain ⟨fb1, fb2⟩ := G.dmagic_facts 31 (by omega)
    obtain ⟨hok, hnr, hlk⟩ := G.two_entry T _ _ t0 t1 fa1 fb1 fa2 fb2
    -- the specification's decoder on the one-code code
    have hspec : ∀ x v L, specWin h x = some (v, L) → x % 2 = 0 ∧ v = A.length ∧ L = 1 := by
      intro x v L hsw
      unfold specWin at hsw
      rw [hm] at hsw
      simp only [decodeBits, hc1, Nat.pow_zero, Nat.div_one, Nat.mul_zero, Nat.zero_add] at hsw
      split at hsw
      · rename_i hlt
        simp only [Option.some.injEq, Prod.mk.injEq] at hsw
        have hx : x % 2 = 0 := by omega
        rw [hx] at hsw
        refine ⟨hx, ?_, hsw.2.symm⟩
        rw [← hsw.1]; exact hsy
      · cases hsw
    refine ⟨by rw [hsT, hsz], by omega, hok, ?_, by omega, ?_, fun _ => hnr⟩
    · intro x _ v L hsw
      obtain ⟨hx, rfl, rfl⟩ := hspec x v L hsw
      rw [hlk x hx]
      exact ⟨rfl, G.dmagic_val A.length (by omega)⟩
    · intro x v L hsw
      obtain ⟨_, rfl, _⟩ := hspec x v L hsw
      omega

end WuffsVerif.StdDeflate
