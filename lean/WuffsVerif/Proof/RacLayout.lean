/-
C13: index layout.  `writeIndex` writes the branch nodes of the tree exactly where `calcEncodedSize`
recorded them (`layout`): the emitted bytes, node by node, and the offsets stored in the parents.
-/
import WuffsVerif.Proof.RacWalk
namespace WuffsVerif.Rac
open Spec

mutual
/-- shape facts that make `calcEncodedSize` and `writeIndex` traverse the same nodes and `encodeNode` succeed:
a node without children has no resources; a branch has a valid codec and at most 255 elements -/
def ShapeOK : WNode → Prop
  | .mk _ cs rs _ _ _ c => (cs = [] → rs = []) ∧
      (cs ≠ [] → codecValid c = true ∧ cs.length + rs.length + (codecIsLong c).toNat ≤ 255) ∧ ShapeOKList cs
def ShapeOKList : List WNode → Prop
  | [] => True
  | o :: os => ShapeOK o ∧ ShapeOKList os
end

mutual
/-- every branch node of the subtree is a segment of the byte stream `S`, at `base` + its recorded offset -/
def LaidOut (nw : NodeWriter) (S : Bytes) (base : Nat) : WNode → Prop
  | .mk _ cs rs col _ _ c => cs = [] ∨
      ((∃ pre post, S = pre ++ nodeBytesOf nw cs rs c ++ post ∧ pre.length = base + col % 2 ^ 48) ∧
        LaidOutList nw S base cs)
def LaidOutList (nw : NodeWriter) (S : Bytes) (base : Nat) : List WNode → Prop
  | [] => True
  | o :: os => LaidOut nw S base o ∧ LaidOutList nw S base os
end

mutual
/-- every branch node's recorded `COffset|CLength` is well-formed and the node ends at or before `H` -/
def OffsBelow (H : Nat) : WNode → Prop
  | .mk _ cs rs col _ _ c => cs = [] ∨
      (col < 2 ^ 56 ∧ col % 2 ^ 48 + ((cs.length + rs.length + (codecIsLong c).toNat) * 16 + 16) ≤ H ∧
        OffsBelowList H cs)
def OffsBelowList (H : Nat) : List WNode → Prop
  | [] => True
  | o :: os => OffsBelow H o ∧ OffsBelowList H os
end

theorem IOSt.write_wBytes (io : IOSt) (data : Bytes) (h : (io.write false data).2 = true) :
    (io.write false data).1.wBytes = io.wBytes ++ data := by
  unfold IOSt.write IOSt.tick at h ⊢
  simp only at h ⊢
  split at h
  · simp at h
  · rename_i hne
    simp only [hne, ↓reduceIte, Bool.not_true, Bool.false_eq_true, IOSt.wBytes, List.reverse_cons, List.flatten_append,
      List.flatten_cons, List.flatten_nil, List.append_nil]

theorem calcCLength_le (n : Nat) : calcCLength n ≤ 255 := by
  unfold calcCLength
  split
  · omega
  · simp only; split <;> omega

theorem calcList_length (cs : List WNode) : ∀ acc, (calcEncodedSizeList cs acc).1.length = cs.length := by
  induction cs with
  | nil => intro acc; simp [calcEncodedSizeList]
  | cons n ns ih => intro acc; simp only [calcEncodedSizeList, List.length_cons, ih]


/-- encoded size of a branch node -/
def nodeSize (cs : List WNode) (rs : List Nat) (c : Nat) : Nat :=
  (cs.length + rs.length + (codecIsLong c).toNat) * 16 + 16

theorem calc_leaf (d : Nat) (rs : List Nat) (col s t c acc : Nat) (r : Bool) (h : rs = []) :
    (WNode.mk d [] rs col s t c).calcEncodedSize acc r = (.mk d [] rs col s t c, acc) := by
  subst h; simp [WNode.calcEncodedSize]

theorem calc_branch_end (d : Nat) (cs : List WNode) (rs : List Nat) (col s t c acc : Nat) (h : cs ≠ []) :
    (WNode.mk d cs rs col s t c).calcEncodedSize acc true =
      (.mk d (calcEncodedSizeList cs acc).1 rs
        ((calcEncodedSizeList cs acc).2 ||| (calcCLength (nodeSize cs rs c) <<< 48)) s t c,
       (calcEncodedSizeList cs acc).2 + nodeSize cs rs c) := by
  have hne : cs.length ≠ 0 := fun h0 => h (List.eq_nil_of_length_eq_zero h0)
  have h0 : (cs.length + rs.length == 0) = false := by rw [beq_eq_false_iff_ne]; omega
  simp only [WNode.calcEncodedSize, h0, Bool.false_eq_true, ↓reduceIte, nodeSize]
  cases codecIsLong c <;> simp

theorem calc_branch_pre (d : Nat) (cs : List WNode) (rs : List Nat) (col s t c acc : Nat) (h : cs ≠ []) :
    (WNode.mk d cs rs col s t c).calcEncodedSize acc false =
      (.mk d (calcEncodedSizeList cs (acc + nodeSize cs rs c)).1 rs
        (acc ||| (calcCLength (nodeSize cs rs c) <<< 48)) s t c,
       (calcEncodedSizeList cs (acc + nodeSize cs rs c)).2) := by
  have hne : cs.length ≠ 0 := fun h0 => h (List.eq_nil_of_length_eq_zero h0)
  have h0 : (cs.length + rs.length == 0) = false := by rw [beq_eq_false_iff_ne]; omega
  simp only [WNode.calcEncodedSize, h0, Bool.false_eq_true, ↓reduceIte, nodeSize]
  cases codecIsLong c <;> simp

theorem col_fields (acc n : Nat) (h : acc < 2 ^ 48) :
    (acc ||| (calcCLength n <<< 48)) < 2 ^ 56 ∧ (acc ||| (calcCLength n <<< 48)) % 2 ^ 48 = acc := by
  have := calcCLength_le n
  rw [or_shift_eq_add _ _ _ h]
  omega

theorem writeNode_bytes (nw : NodeWriter) (d : Nat) (cs : List WNode) (rs : List Nat) (col s t c : Nat) (io : IOSt)
    (hv : codecValid c = true) (hA : cs.length + rs.length + (codecIsLong c).toNat ≤ 255)
    (h : (writeNode nw (.mk d cs rs col s t c) io).2 = none) :
    (writeNode nw (.mk d cs rs col s t c) io).1.wBytes = io.wBytes ++ nodeBytesOf nw cs rs c := by
  unfold writeNode at h ⊢
  rw [encodeNode_eq' nw (.mk d cs rs col s t c) hv hA] at h ⊢
  simp only [WNode.children, WNode.resources, WNode.codec] at h ⊢
  have := IOSt.write_wBytes io (nodeBytesOf nw cs rs c)
  by_cases hb : (io.write false (nodeBytesOf nw cs rs c)).2 = true
  · simp only [hb, ↓reduceIte] at h ⊢
    exact this hb
  · simp [hb] at h

theorem writeIndexList_cons_leaf (nw : NodeWriter) (o : WNode) (os : List WNode) (io : IOSt) (h : o.children = []) :
    writeIndexList nw (o :: os) io = writeIndexList nw os io := by
  cases o with
  | mk d cs rs col s t c =>
    simp only [WNode.children] at h; subst h
    simp [writeIndexList]

theorem writeIndexList_cons_branch (nw : NodeWriter) (o : WNode) (os : List WNode) (io : IOSt) (h : o.children ≠ []) :
    writeIndexList nw (o :: os) io =
      match writeIndex nw o false io with
      | (io, some e) => (io, some e)
      | (io, none) => writeIndexList nw os io := by
  cases o with
  | mk d cs rs col s t c =>
    simp only [WNode.children] at h
    cases cs with
    | nil => exact absurd rfl h
    | cons c0 cs =>
      cases hx : writeIndex nw (WNode.mk d (c0 :: cs) rs col s t c) false io with
      | mk io1 e1 => cases e1 <;> simp [writeIndexList, hx]

theorem writeIndex_end (nw : NodeWriter) (d : Nat) (cs : List WNode) (rs : List Nat) (col s t c : Nat) (io : IOSt) :
    writeIndex nw (.mk d cs rs col s t c) true io =
      match writeIndexList nw cs io with
      | (io, some e) => (io, some e)
      | (io, none) => writeNode nw (.mk d cs rs col s t c) io := by
  cases hx : writeIndexList nw cs io with
  | mk io1 e1 => cases e1 <;> simp [writeIndex, hx]

theorem writeIndex_pre (nw : NodeWriter) (d : Nat) (cs : List WNode) (rs : List Nat) (col s t c : Nat) (io : IOSt) :
    writeIndex nw (.mk d cs rs col s t c) false io =
      match writeNode nw (.mk d cs rs col s t c) io with
      | (io, some e) => (io, some e)
      | (io, none) => writeIndexList nw cs io := by
  cases hx : writeNode nw (.mk d cs rs col s t c) io with
  | mk io1 e1 => cases e1 <;> simp [writeIndex, hx]

theorem nodeBytesOf_length' (nw : NodeWriter) (cs : List WNode) (rs : List Nat) (c : Nat) :
    (nodeBytesOf nw cs rs c).length = nodeSize cs rs c := nodeBytesOf_length nw cs rs c

theorem nodeSize_congr (cs cs' : List WNode) (rs : List Nat) (c : Nat) (h : cs'.length = cs.length) :
    nodeSize cs' rs c = nodeSize cs rs c := by unfold nodeSize; rw [h]


theorem calc_mono (n : WNode) (acc : Nat) (r : Bool) : acc ≤ (n.calcEncodedSize acc r).2 := by
  refine WNode.calcEncodedSize.induct
    (fun n acc r => acc ≤ (n.calcEncodedSize acc r).2)
    (fun cs acc => acc ≤ (calcEncodedSizeList cs acc).2) ?_ ?_ ?_ ?_ ?_ n acc r
  · intro d cs rs col s t c acc r arity h0
    simp only [arity] at h0
    simp [WNode.calcEncodedSize, h0]
  · intro d cs rs col s t c acc arity h0 cs' acc1 hcalc ih
    simp only [arity] at h0
    have h0' : (cs.length + rs.length == 0) = false := by simpa using h0
    rw [hcalc] at ih
    simp only [WNode.calcEncodedSize, h0', Bool.false_eq_true, ↓reduceIte, hcalc]
    simp only at ih
    omega
  · intro d cs rs col s t c acc r arity h0 arity2 size hr cs' acc1 hcalc ih
    have hr' : r = false := by simpa using hr
    subst hr'
    simp only [arity] at h0
    have h0' : (cs.length + rs.length == 0) = false := by simpa using h0
    simp only [size, arity2, arity] at hcalc ih
    rw [hcalc] at ih
    simp only [WNode.calcEncodedSize, h0', Bool.false_eq_true, ↓reduceIte, hcalc]
    simp only at ih
    omega
  · intro acc; simp [calcEncodedSizeList]
  · intro n ns acc n' acc1 hn cs' acc2 hns ih1 ih2
    simp only [calcEncodedSizeList, hn, hns]
    rw [hn] at ih1; rw [hns] at ih2
    simp only at ih1 ih2
    omega

theorem calc_mono_list (cs : List WNode) : ∀ acc, acc ≤ (calcEncodedSizeList cs acc).2 := by
  induction cs with
  | nil => intro acc; simp [calcEncodedSizeList]
  | cons n ns ih =>
    intro acc
    simp only [calcEncodedSizeList]
    have h1 := calc_mono n acc false
    have h2 := ih (n.calcEncodedSize acc false).2
    omega

/-- **index layout**: `writeIndex` writes the branch nodes of the tree exactly where
`calcEncodedSize` recorded them -/
theorem layout (nw : NodeWriter) (n : WNode) (acc : Nat) (r : Bool) :
    ∀ (io : IOSt) (base H : Nat), n.children ≠ [] → ShapeOK n → io.wBytes.length = base + acc →
      (n.calcEncodedSize acc r).2 ≤ H → H < 2 ^ 48 →
      (writeIndex nw (n.calcEncodedSize acc r).1 r io).2 = none →
      ∃ bytes, (writeIndex nw (n.calcEncodedSize acc r).1 r io).1.wBytes = io.wBytes ++ bytes ∧
        acc + bytes.length = (n.calcEncodedSize acc r).2 ∧
        (∀ post, LaidOut nw (io.wBytes ++ bytes ++ post) base (n.calcEncodedSize acc r).1) ∧
        OffsBelow H (n.calcEncodedSize acc r).1 := by
  refine WNode.calcEncodedSize.induct
    (fun n acc r => ∀ (io : IOSt) (base H : Nat), n.children ≠ [] → ShapeOK n → io.wBytes.length = base + acc →
      (n.calcEncodedSize acc r).2 ≤ H → H < 2 ^ 48 →
      (writeIndex nw (n.calcEncodedSize acc r).1 r io).2 = none →
      ∃ bytes, (writeIndex nw (n.calcEncodedSize acc r).1 r io).1.wBytes = io.wBytes ++ bytes ∧
        acc + bytes.length = (n.calcEncodedSize acc r).2 ∧
        (∀ post, LaidOut nw (io.wBytes ++ bytes ++ post) base (n.calcEncodedSize acc r).1) ∧
        OffsBelow H (n.calcEncodedSize acc r).1)
    (fun cs acc => ∀ (io : IOSt) (base H : Nat), ShapeOKList cs → io.wBytes.length = base + acc →
      (calcEncodedSizeList cs acc).2 ≤ H → H < 2 ^ 48 →
      (writeIndexList nw (calcEncodedSizeList cs acc).1 io).2 = none →
      ∃ bytes, (writeIndexList nw (calcEncodedSizeList cs acc).1 io).1.wBytes = io.wBytes ++ bytes ∧
        acc + bytes.length = (calcEncodedSizeList cs acc).2 ∧
        (∀ post, LaidOutList nw (io.wBytes ++ bytes ++ post) base (calcEncodedSizeList cs acc).1) ∧
        OffsBelowList H (calcEncodedSizeList cs acc).1)
    ?_ ?_ ?_ ?_ ?_ n acc r
  · -- no elements: not a branch
    intro d cs rs col s t c acc r arity h0 io base H hne
    simp only [WNode.children] at hne
    have : cs.length ≠ 0 := fun h => hne (List.eq_nil_of_length_eq_zero h)
    simp only [arity, beq_iff_eq] at h0; omega
  · -- the root of an index at the end: children first
    intro d cs rs col s t c acc arity _ cs' acc1 hcalc ih io base H hne hshape hlen hH hH48 hw
    simp only [WNode.children] at hne
    simp only [ShapeOK] at hshape
    obtain ⟨_, hbr, hsl⟩ := hshape
    obtain ⟨hv, hA⟩ := hbr hne
    rw [calc_branch_end d cs rs col s t c acc hne] at hH hw ⊢
    simp only [hcalc] at hH hw ⊢
    have hlen' : cs'.length = cs.length := by have := calcList_length cs acc; rw [hcalc] at this; exact this
    rw [writeIndex_end] at hw ⊢
    have ih' := ih io base H hsl hlen (by rw [hcalc]; simp only; omega) hH48
    rw [hcalc] at ih'
    simp only at ih'
    cases hwl : writeIndexList nw cs' io with
    | mk io1 e1 =>
      rw [hwl] at hw ih'
      cases e1 with
      | some e => simp at hw
      | none =>
        simp only at hw ih' ⊢
        obtain ⟨b1, hb1, hacc1, hlo1, hob1⟩ := ih' trivial
        have hwn := writeNode_bytes nw d cs' rs (acc1 ||| calcCLength (nodeSize cs rs c) <<< 48) s t c io1 hv
          (by rw [hlen']; exact hA) hw
        have hcf := col_fields acc1 (nodeSize cs rs c) (by omega)
        refine ⟨b1 ++ nodeBytesOf nw cs' rs c, ?_, ?_, ?_, ?_⟩
        · rw [hwn, hb1, List.append_assoc]
        · rw [List.length_append, nodeBytesOf_length', nodeSize_congr cs cs' rs c hlen']; omega
        · intro post
          simp only [LaidOut]
          right
          refine ⟨⟨io.wBytes ++ b1, post, by simp [List.append_assoc], ?_⟩, ?_⟩
          · rw [List.length_append, hcf.2]; omega
          · have := hlo1 (nodeBytesOf nw cs' rs c ++ post)
            simpa [List.append_assoc] using this
        · simp only [OffsBelow]
          right
          refine ⟨hcf.1, ?_, hob1⟩
          rw [hcf.2]
          have : nodeSize cs' rs c = nodeSize cs rs c := nodeSize_congr cs cs' rs c hlen'
          unfold nodeSize at this hH; omega
  · -- any other branch node: the node first, then its children
    intro d cs rs col s t c acc r arity h0 arity2 size hr cs' acc1 hcalc ih io base H hne hshape hlen hH hH48 hw
    have hr' : r = false := by simpa using hr
    subst hr'
    simp only [size, arity2, arity] at hcalc ih
    simp only [WNode.children] at hne
    simp only [ShapeOK] at hshape
    obtain ⟨_, hbr, hsl⟩ := hshape
    obtain ⟨hv, hA⟩ := hbr hne
    have hsz : (if codecIsLong c = true then cs.length + rs.length + 1 else cs.length + rs.length) * 16 + 16 =
        nodeSize cs rs c := by
      unfold nodeSize; cases codecIsLong c <;> simp
    rw [hsz] at hcalc ih
    rw [calc_branch_pre d cs rs col s t c acc hne] at hH hw ⊢
    simp only [hcalc] at hH hw ⊢
    have hlen' : cs'.length = cs.length := by
      have := calcList_length cs (acc + nodeSize cs rs c); rw [hcalc] at this; exact this
    rw [writeIndex_pre] at hw ⊢
    cases hwn : writeNode nw (WNode.mk d cs' rs (acc ||| calcCLength (nodeSize cs rs c) <<< 48) s t c) io with
    | mk io1 e1 =>
      rw [hwn] at hw
      cases e1 with
      | some e => simp at hw
      | none =>
        simp only at hw ⊢
        have hwb := writeNode_bytes nw d cs' rs (acc ||| calcCLength (nodeSize cs rs c) <<< 48) s t c io hv
          (by rw [hlen']; exact hA) (by rw [hwn])
        rw [hwn] at hwb
        simp only at hwb
        have hnl : (nodeBytesOf nw cs' rs c).length = nodeSize cs rs c := by
          rw [nodeBytesOf_length', nodeSize_congr cs cs' rs c hlen']
        have ih' := ih io1 base H hsl (by rw [hwb, List.length_append, hnl]; omega) (by rw [hcalc]; exact hH) hH48
        rw [hcalc] at ih'
        simp only at ih'
        obtain ⟨b2, hb2, hacc2, hlo2, hob2⟩ := ih' hw
        have hcf := col_fields acc (nodeSize cs rs c) (by omega)
        refine ⟨nodeBytesOf nw cs' rs c ++ b2, ?_, ?_, ?_, ?_⟩
        · rw [hb2, hwb, List.append_assoc]
        · rw [List.length_append, hnl]; omega
        · intro post
          simp only [LaidOut]
          right
          refine ⟨⟨io.wBytes, b2 ++ post, by simp [List.append_assoc], ?_⟩, ?_⟩
          · rw [hcf.2]; omega
          · have := hlo2 post
            rw [hwb] at this
            simpa [List.append_assoc] using this
        · simp only [OffsBelow]
          right
          refine ⟨hcf.1, ?_, hob2⟩
          rw [hcf.2]
          have : nodeSize cs' rs c = nodeSize cs rs c := nodeSize_congr cs cs' rs c hlen'
          unfold nodeSize at this hacc2; omega
  · -- no children
    intro acc io base H _ _ _ _ _
    exact ⟨[], by simp [calcEncodedSizeList, writeIndexList], by simp [calcEncodedSizeList],
      fun post => by simp [calcEncodedSizeList, LaidOutList], by simp [calcEncodedSizeList, OffsBelowList]⟩
  · -- a child, then the others
    intro n ns acc n' acc1 hn cs' acc2 hns ih1 ih2 io base H hshape hlen hH hH48 hw
    simp only [ShapeOKList] at hshape
    obtain ⟨hsn, hsns⟩ := hshape
    have hcl : calcEncodedSizeList (n :: ns) acc = (n' :: cs', acc2) := by
      simp [calcEncodedSizeList, hn, hns]
    rw [hcl] at hH hw ⊢
    simp only at hH hw ⊢
    by_cases hleaf : n.children = []
    · -- a leaf: no bytes, same accumulator
      have hn' : n' = n ∧ acc1 = acc := by
        cases n with
        | mk d cs rs col s t c =>
          simp only [WNode.children] at hleaf
          subst hleaf
          simp only [ShapeOK] at hsn
          rw [calc_leaf d rs col s t c acc false (hsn.1 trivial)] at hn
          injection hn with h1 h2
          exact ⟨h1.symm, h2.symm⟩
      obtain ⟨rfl, rfl⟩ := hn'
      rw [writeIndexList_cons_leaf nw n' cs' io hleaf] at hw ⊢
      have ih2' := ih2 io base H hsns hlen (by rw [hns]; exact hH) hH48
      rw [hns] at ih2'
      simp only at ih2'
      obtain ⟨b, hb, hacc, hlo, hob⟩ := ih2' hw
      refine ⟨b, hb, hacc, fun post => ?_, ?_⟩
      · simp only [LaidOutList]
        refine ⟨?_, hlo post⟩
        cases n' with
        | mk d cs rs col s t c => simp only [WNode.children] at hleaf; simp [LaidOut, hleaf]
      · simp only [OffsBelowList]
        refine ⟨?_, hob⟩
        cases n' with
        | mk d cs rs col s t c => simp only [WNode.children] at hleaf; simp [OffsBelow, hleaf]
    · -- a branch: its subtree, then the others
      have hmono2 : acc1 ≤ acc2 := by
        have := calc_mono_list ns acc1; rw [hns] at this; exact this
      have hne' : n'.children ≠ [] := by
        cases n with
        | mk d cs rs col s t c =>
          simp only [WNode.children] at hleaf
          rw [calc_branch_pre d cs rs col s t c acc hleaf] at hn
          injection hn with h1 h2
          rw [← h1]
          simp only [WNode.children]
          intro h
          have := calcList_length cs (acc + nodeSize cs rs c)
          rw [h] at this
          exact hleaf (List.eq_nil_of_length_eq_zero this.symm)
      rw [writeIndexList_cons_branch nw n' cs' io hne'] at hw ⊢
      have ih1' := ih1 io base H hleaf hsn hlen (by rw [hn]; simp only; omega) hH48
      rw [hn] at ih1'
      simp only at ih1'
      cases hwi : writeIndex nw n' false io with
      | mk io1 e1 =>
        rw [hwi] at hw ih1'
        cases e1 with
        | some e => simp at hw
        | none =>
          simp only at hw ih1' ⊢
          obtain ⟨b1, hb1, hacc1, hlo1, hob1⟩ := ih1' trivial
          have ih2' := ih2 io1 base H hsns (by rw [hb1, List.length_append]; omega) (by rw [hns]; exact hH) hH48
          rw [hns] at ih2'
          simp only at ih2'
          obtain ⟨b2, hb2, hacc2, hlo2, hob2⟩ := ih2' hw
          refine ⟨b1 ++ b2, ?_, ?_, fun post => ?_, ?_⟩
          · rw [hb2, hb1, List.append_assoc]
          · rw [List.length_append]; omega
          · simp only [LaidOutList]
            refine ⟨?_, ?_⟩
            · have := hlo1 (b2 ++ post); simpa [List.append_assoc] using this
            · have := hlo2 post; rw [hb1] at this; simpa [List.append_assoc] using this
          · simp only [OffsBelowList]; exact ⟨hob1, hob2⟩
end WuffsVerif.Rac
