/-
C14 helper lemmas: the invariant of the sequential `rac.Reader` model
(Model/Rac/Reader.lean) on a valid chunk list, and the effect of `readLoop`.
-/
import WuffsVerif.Model.Rac.Reader

set_option linter.unusedVariables false

namespace WuffsVerif.Rac

/-! ### windows of the decoded file -/

/-- The bytes `[lo, hi)` of `bytes` are `dec` followed by zeroes. -/
def Window (bytes : List UInt8) (lo hi : Nat) (dec : List UInt8) : Prop :=
  dec.length ≤ hi - lo ∧ (bytes.drop lo).take (hi - lo) = dec ++ zeros (hi - lo - dec.length)

theorem Window.empty (bytes : List UInt8) (p : Nat) : Window bytes p p [] := by
  simp [Window, zeros]

theorem Window.advance {bytes : List UInt8} {lo hi : Nat} {dec : List UInt8}
    (h : Window bytes lo hi dec) {k : Nat} (hk : k ≤ dec.length) :
    Window bytes (lo + k) hi (dec.drop k) := by
  obtain ⟨h1, h2⟩ := h
  refine ⟨by simp only [List.length_drop]; omega, ?_⟩
  have e1 : List.drop (lo + k) bytes = List.drop k (List.drop lo bytes) := by
    rw [List.drop_drop]
  have e2 : hi - (lo + k) = (hi - lo) - k := by omega
  rw [e1, e2, ← List.drop_take, h2, List.drop_append_of_le_length hk]
  simp only [List.length_drop]
  congr 2
  omega

theorem Window.take {bytes : List UInt8} {lo hi : Nat} {dec : List UInt8}
    (h : Window bytes lo hi dec) {k : Nat} (hk : k ≤ dec.length) :
    (bytes.drop lo).take k = dec.take k := by
  obtain ⟨h1, h2⟩ := h
  have : (bytes.drop lo).take k = ((bytes.drop lo).take (hi - lo)).take k := by
    rw [List.take_take]
    congr 1
    omega
  rw [this, h2, List.take_append_of_le_length hk]

/-- skipping `j` bytes of a window without explicit data left -/
theorem Window.skip {bytes : List UInt8} {lo hi : Nat}
    (h : Window bytes lo hi []) {j : Nat} (hj : lo + j ≤ hi) : Window bytes (lo + j) hi [] := by
  obtain ⟨h1, h2⟩ := h
  refine ⟨by simp, ?_⟩
  have e1 : List.drop (lo + j) bytes = List.drop j (List.drop lo bytes) := by
    rw [List.drop_drop]
  have e2 : hi - (lo + j) = (hi - lo) - j := by omega
  rw [e1, e2, ← List.drop_take, h2]
  simp [zeros]

theorem Window.zeros_take {bytes : List UInt8} {lo hi : Nat}
    (h : Window bytes lo hi []) {k : Nat} (hk : lo + k ≤ hi) :
    (bytes.drop lo).take k = zeros k := by
  obtain ⟨h1, h2⟩ := h
  have : (bytes.drop lo).take k = ((bytes.drop lo).take (hi - lo)).take k := by
    rw [List.take_take]
    congr 1
    omega
  rw [this, h2]
  simp only [List.nil_append, List.length_nil, Nat.sub_zero, zeros, List.take_replicate]
  congr 1
  omega

/-! ### valid chunk lists -/

theorem Chunk.block_length (c : Chunk) (h : c.data.length ≤ c.hi - c.lo) :
    c.block.length = c.hi - c.lo := by
  simp only [Chunk.block, zeros, List.length_append, List.length_replicate]
  omega

theorem chain_spec : ∀ (cs : List Chunk) (a b : Nat), chain a cs b = true →
    a ≤ b ∧ (bytesOf cs).length = b - a ∧
    ∀ p, a ≤ p → p < b → ∃ c, findChunk cs p = some c ∧ a ≤ c.lo ∧ c.hi ≤ b ∧ c.trunc = false ∧
      c.data.length ≤ c.hi - c.lo ∧
      ((bytesOf cs).drop (c.lo - a)).take (c.hi - c.lo) = c.block := by
  intro cs
  induction cs with
  | nil =>
    intro a b h
    simp only [chain, beq_iff_eq] at h
    subst h
    refine ⟨Nat.le_refl _, by simp [bytesOf], ?_⟩
    intro p h1 h2
    omega
  | cons d ds ih =>
    intro a b h
    simp only [chain, Bool.and_eq_true, beq_iff_eq, decide_eq_true_eq, Bool.not_eq_true'] at h
    obtain ⟨⟨⟨⟨hlo, hlt⟩, hlen⟩, htr⟩, hrest⟩ := h
    obtain ⟨ih1, ih2, ih3⟩ := ih d.hi b hrest
    have hbl := Chunk.block_length d hlen
    refine ⟨by omega, ?_, ?_⟩
    · simp only [bytesOf, List.length_append, hbl, ih2]
      omega
    · intro p hp1 hp2
      by_cases hin : d.lo ≤ p ∧ p < d.hi
      · refine ⟨d, by simp [findChunk, hin], by omega, by omega, htr, hlen, ?_⟩
        have : d.lo - a = 0 := by omega
        rw [this, List.drop_zero, bytesOf]
        exact List.take_left' hbl
      · have hp3 : d.hi ≤ p := by omega
        obtain ⟨c, hc1, hc2, hc3, hc4, hc5, hc6⟩ := ih3 p hp3 hp2
        refine ⟨c, by simp [findChunk, hin, hc1], by omega, hc3, hc4, hc5, ?_⟩
        have e : c.lo - a = d.block.length + (c.lo - d.hi) := by rw [hbl]; omega
        rw [bytesOf, e, ← List.drop_drop, List.drop_left' rfl]
        exact hc6

/-- the size bound of the RAC format (`rac.MaxSize`) -/
def maxSize : Nat := 281474976710655

/-- well-formed file: the chunk list tiles `[0, size)`, and the size fits the format -/
def File.ok (F : File) : Prop := F.valid = true ∧ F.size ≤ maxSize

theorem File.bytes_length {F : File} (h : F.valid = true) : F.bytes.length = F.size := by
  have := (chain_spec F.chunks 0 F.size h).2.1
  simpa [File.bytes] using this

theorem File.find {F : File} (h : F.valid = true) {p : Nat} (hp : p < F.size) :
    ∃ c, findChunk F.chunks p = some c ∧ c.lo ≤ p ∧ p < c.hi ∧ c.trunc = false ∧
      Window F.bytes c.lo c.hi c.data := by
  obtain ⟨c, h1, h2, h3, h4, h5, h6⟩ := (chain_spec F.chunks 0 F.size h).2.2 p (Nat.zero_le _) hp
  have := findChunk_some h1
  refine ⟨c, h1, this.1, this.2, h4, h5, ?_⟩
  simpa [File.bytes, Chunk.block] using h6

/-! ### the Reader invariant -/

/-- What holds of a Reader without a sticky error, between and inside calls. -/
structure Inv (F : File) (r : R) : Prop where
  le1 : r.dlo ≤ r.pos
  le2 : r.pos ≤ r.dhi
  lim : r.posLimit ≤ F.size
  cr : r.crPos = r.dhi
  tr : r.decTrunc = false
  win : Window F.bytes r.dlo r.dhi r.dec
  phA : r.phase = .A → r.dlo = r.dhi
  phC : r.phase = .C → r.dec = []

/-- fields that the Read machinery never touches -/
def Same (r r' : R) : Prop :=
  r'.posLimit = r.posLimit ∧ r'.err = r.err ∧ r'.closed = r.closed ∧ r'.conc = r.conc

theorem Same.rfl' (r : R) : Same r r := ⟨rfl, rfl, rfl, rfl⟩

theorem Same.trans {a b c : R} (h1 : Same a b) (h2 : Same b c) : Same a c := by
  obtain ⟨a1, a2, a3, a4⟩ := h1
  obtain ⟨b1, b2, b3, b4⟩ := h2
  exact ⟨by rw [b1, a1], by rw [b2, a2], by rw [b3, a3], by rw [b4, a4]⟩

theorem nextChunk_spec {F : File} (hv : F.valid = true) {r : R} (hI : Inv F r) (hA : r.phase = .A)
    (hlt : r.pos < r.posLimit) :
    (nextChunk F r).2 = none ∧ Inv F (nextChunk F r).1 ∧ (nextChunk F r).1.pos = r.pos ∧
    (nextChunk F r).1.phase = .B ∧ Same r (nextChunk F r).1 := by
  have hd := hI.phA hA
  have hpos : r.crPos = r.pos := by have := hI.le1; have := hI.le2; have := hI.cr; omega
  have hsz : r.crPos < F.size := by have := hI.lim; omega
  obtain ⟨c, hc1, hc2, hc3, hc4, hc5⟩ := File.find hv hsz
  unfold nextChunk
  rw [if_neg (by omega), hc1]
  refine ⟨rfl, ?_, rfl, rfl, ⟨rfl, rfl, rfl, rfl⟩⟩
  exact { le1 := (by simp only; omega), le2 := (by simp only; omega), lim := hI.lim, cr := rfl, tr := hc4,
          win := hc5, phA := (by intro h; cases h), phC := (by intro h; cases h) }

theorem discard_spec {F : File} (n : Nat) (hn : 0 < n) (r : R) (hI : Inv F r) (hB : r.phase = .B) :
    match discard r n with
    | .goOn r' => Inv F r' ∧ r'.pos = r.pos ∧ r'.dlo = r'.pos ∧ r'.phase = .B ∧ Same r r'
    | .ret r' e => e = none ∧ Inv F r' ∧ r'.pos = r.pos ∧ Same r r' := by
  fun_induction discard r n with
  | case1 r h want got r1 hemp htr =>
    -- truncated stream: excluded by the invariant
    have := hI.tr
    simp [this] at htr
  | case2 r h want got r1 hemp htr =>
    have hgot : got ≤ r.dec.length := by simp only [got, List.length_take]; omega
    have hgw : got ≤ r.pos - r.dlo := by simp only [got, want, List.length_take]; omega
    have hw := hI.win.advance hgot
    have hnil : r.dec.drop got = [] := by simpa [r1] using hemp
    refine ⟨rfl, ?_, rfl, ⟨rfl, rfl, rfl, rfl⟩⟩
    exact { le1 := (by simp only [R.toC, r1]; omega), le2 := hI.le2, lim := hI.lim, cr := hI.cr, tr := hI.tr,
            win := (by simp only [R.toC, r1]; rw [hnil] at hw; exact hw),
            phA := (by intro h; cases h), phC := (by intro _; rfl) }
  | case3 r h want got r1 hemp hg =>
    -- got = 0 with data left: needs n = 0
    have hne : r.dec.drop got ≠ [] := by simpa [r1] using hemp
    have : 0 < r.dec.length := by
      rcases hd : r.dec with _ | ⟨x, xs⟩
      · simp [hd] at hne
      · simp
    have : got = min want r.dec.length := by simp only [got, List.length_take]
    simp only [want] at this
    omega
  | case4 r h want got r1 hemp hg ih =>
    have hgot : got ≤ r.dec.length := by simp only [got, List.length_take]; omega
    have hgw : got ≤ r.pos - r.dlo := by simp only [got, want, List.length_take]; omega
    have hI1 : Inv F r1 :=
      { le1 := (by simp only [r1]; omega), le2 := hI.le2, lim := hI.lim, cr := hI.cr, tr := hI.tr,
        win := hI.win.advance hgot,
        phA := (by intro h; simp only [r1] at h; rw [hB] at h; cases h),
        phC := (by intro h; simp only [r1] at h; rw [hB] at h; cases h) }
    have := ih hI1 hB
    split at this
    · next r' heq =>
      obtain ⟨a, b, c, d, e⟩ := this
      exact ⟨a, b, c, d, Same.trans ⟨rfl, rfl, rfl, rfl⟩ e⟩
    · next r' e heq =>
      obtain ⟨a, b, c, d⟩ := this
      exact ⟨a, b, c, Same.trans ⟨rfl, rfl, rfl, rfl⟩ d⟩
  | case5 r h =>
    have := hI.le1
    exact ⟨hI, rfl, by omega, hB, Same.rfl' r⟩

theorem readExplicit_spec {F : File} (n : Nat) (hn : 0 < n) (r : R) (hI : Inv F r) (hB : r.phase = .B) :
    (readExplicit r n).2.2 = none ∧
    (readExplicit r n).2.1 = (F.bytes.drop r.pos).take (readExplicit r n).2.1.length ∧
    (readExplicit r n).2.1.length ≤ n ∧
    (readExplicit r n).1.pos = r.pos + (readExplicit r n).2.1.length ∧
    Inv F (readExplicit r n).1 ∧ Same r (readExplicit r n).1 := by
  have hd := discard_spec (F := F) n hn r hI hB
  unfold readExplicit
  split at hd
  · next r' heq =>
    obtain ⟨hI', hpos, hdlo, hB', hS⟩ := hd
    rw [heq]
    simp only
    have hgot : (r'.dec.take n).length ≤ r'.dec.length := by simp only [List.length_take]; omega
    have hgn : (r'.dec.take n).length ≤ n := by simp only [List.length_take]; omega
    have hsz : (r'.dec.take n).length ≤ r'.dhi - r'.dlo := by have := hI'.win.1; omega
    rw [if_neg (by omega)]
    have hw := hI'.win.advance hgot
    have htk := hI'.win.take hgot
    have hlen : (List.take (List.take n r'.dec).length r'.dec).length = (List.take n r'.dec).length := by
      simp only [List.length_take]; omega
    have hbytes : List.take (List.take n r'.dec).length r'.dec
        = List.take (List.take (List.take n r'.dec).length r'.dec).length (List.drop r.pos F.bytes) := by
      rw [hlen, ← hpos, ← hdlo, htk]
    split
    · next hemp =>
      rw [if_neg (by simp [hI'.tr])]
      have hnil : r'.dec.drop (r'.dec.take n).length = [] := by simpa using hemp
      refine ⟨rfl, hbytes, by rw [hlen]; exact hgn, by simp only [R.toC]; rw [hlen, hpos], ?_, ?_⟩
      · exact { le1 := (by simp only [R.toC]; omega), le2 := (by simp only [R.toC]; have := hI'.le2; omega),
                lim := hI'.lim, cr := hI'.cr, tr := hI'.tr,
                win := (by simp only [R.toC]; rw [hnil] at hw; exact hw),
                phA := (by intro h; cases h), phC := (by intro _; rfl) }
      · exact Same.trans hS ⟨rfl, rfl, rfl, rfl⟩
    · next hne =>
      refine ⟨rfl, hbytes, by rw [hlen]; exact hgn, by simp only; rw [hlen, hpos], ?_, ?_⟩
      · exact { le1 := (by simp only; omega), le2 := (by simp only; have := hI'.le2; omega),
                lim := hI'.lim, cr := hI'.cr, tr := hI'.tr, win := hw,
                phA := (by intro h; simp only at h; rw [hB'] at h; cases h),
                phC := (by intro h; simp only at h; rw [hB'] at h; cases h) }
      · exact Same.trans hS ⟨rfl, rfl, rfl, rfl⟩
  · next r' e heq =>
    obtain ⟨he, hI', hpos, hS⟩ := hd
    rw [heq]
    subst he
    simp only [List.length_nil, List.take_zero, Nat.add_zero, Nat.zero_le, true_and]
    exact ⟨hpos, hI', hS⟩

theorem readZeroes_spec {F : File} (n : Nat) (r : R) (hI : Inv F r) (hC : r.phase = .C) :
    zeros (readZeroes r n).2 = (F.bytes.drop r.pos).take (readZeroes r n).2 ∧
    (readZeroes r n).2 ≤ n ∧
    (readZeroes r n).1.pos = r.pos + (readZeroes r n).2 ∧
    Inv F (readZeroes r n).1 ∧ Same r (readZeroes r n).1 := by
  have hnil := hI.phC hC
  have hw : Window F.bytes r.dlo r.dhi [] := by have := hI.win; rwa [hnil] at this
  have h1 := hI.le1
  have h2 := hI.le2
  have hd : (if r.dlo < r.pos then r.pos else r.dlo) = r.pos := by split <;> omega
  have hsk : Window F.bytes r.pos r.dhi [] := by
    have := hw.skip (j := r.pos - r.dlo) (by omega)
    have e : r.dlo + (r.pos - r.dlo) = r.pos := by omega
    rwa [e] at this
  unfold readZeroes
  simp only [hd]
  have hk : r.pos + min n (r.dhi - r.pos) ≤ r.dhi := by omega
  refine ⟨(hsk.zeros_take hk).symm, by omega, by trivial, ?_, ⟨rfl, rfl, rfl, rfl⟩⟩
  exact { le1 := (by simp only; omega), le2 := (by simp only; omega), lim := hI.lim, cr := hI.cr, tr := hI.tr,
          win := (by simp only; rw [hnil]; exact hsk.skip hk),
          phA := (by
            intro h; simp only at h
            split at h
            · next heq => simp only; exact heq
            · cases h),
          phC := (by intro _; exact hnil) }

/-- `readLoop` on a valid file, from a state satisfying the invariant, asked for `n` bytes
    that lie below the limit: it hands out exactly bytes `[pos, pos+n)` of the decoded
    file, reports EOF exactly when that reaches the limit, and re-establishes the invariant. -/
theorem readLoop_spec {F : File} (hv : F.valid = true) (r : R) (n : Nat) (hI : Inv F r)
    (hn : r.pos + n ≤ r.posLimit) :
    (readLoop F r n).2.1 = (F.bytes.drop r.pos).take n ∧
    (readLoop F r n).2.2 = (if r.pos + n ≥ r.posLimit then some .eof else none) ∧
    Inv F (readLoop F r n).1 ∧ (readLoop F r n).1.pos = r.pos + n ∧ Same r (readLoop F r n).1 := by
  fun_induction readLoop F r n with
  | case1 r n hge =>
    have : n = 0 := by omega
    subst this
    rw [if_pos (by omega)]
    exact ⟨rfl, rfl, hI, rfl, Same.rfl' r⟩
  | case2 r hlt =>
    rw [if_neg (by omega)]
    exact ⟨rfl, rfl, hI, rfl, Same.rfl' r⟩
  | case3 r n hlt hn0 hbad =>
    have := hI.le1; have := hI.le2; omega
  | case4 r n hlt hn0 hgood hA r' e hc =>
    have := (nextChunk_spec hv hI hA (by omega)).1
    rw [hc] at this
    cases this
  | case5 r n hlt hn0 hgood hA r' hc ih =>
    obtain ⟨_, hI', hpos, _, hS⟩ := nextChunk_spec hv hI hA (by omega)
    rw [hc] at hI' hpos hS
    simp only at hI' hpos hS
    obtain ⟨a, b, c, d, e⟩ := ih hI' (by rw [hpos, hS.1]; exact hn)
    rw [hpos, hS.1] at b
    rw [hpos] at a d
    exact ⟨a, b, c, d, Same.trans hS e⟩
  | case6 r n hlt hn0 hgood hB r' bs e hx =>
    have := (readExplicit_spec (F := F) n (Nat.pos_of_ne_zero hn0) r hI hB).1
    rw [hx] at this
    cases this
  | case7 r n hlt hn0 hgood hB r' bs hx r'' rest e hrec ih =>
    obtain ⟨_, hbs, hlen, hpos, hI', hS⟩ := readExplicit_spec (F := F) n (Nat.pos_of_ne_zero hn0) r hI hB
    rw [hx] at hbs hlen hpos hI' hS
    simp only at hbs hlen hpos hI' hS
    obtain ⟨a, b, c, d, e'⟩ := ih hI' (by rw [hpos, hS.1]; omega)
    rw [hrec] at a b c d e'
    simp only at a b c d e'
    refine ⟨?_, ?_, c, by rw [d, hpos]; omega, Same.trans hS e'⟩
    · rw [a, hpos]
      have : n = bs.length + (n - bs.length) := by omega
      conv => rhs; rw [this, List.take_add, List.drop_drop]
      rw [← hbs]
    · rw [b, hpos, hS.1]
      have : r.pos + bs.length + (n - bs.length) = r.pos + n := by omega
      rw [this]
  | case8 r n hlt hn0 hgood hC r' k hz r'' rest e hrec ih =>
    obtain ⟨hbs, hlen, hpos, hI', hS⟩ := readZeroes_spec (F := F) n r hI hC
    rw [hz] at hbs hlen hpos hI' hS
    simp only at hbs hlen hpos hI' hS
    obtain ⟨a, b, c, d, e'⟩ := ih hI' (by rw [hpos, hS.1]; omega)
    rw [hrec] at a b c d e'
    simp only at a b c d e'
    refine ⟨?_, ?_, c, by rw [d, hpos]; omega, Same.trans hS e'⟩
    · rw [a, hpos]
      have : n = k + (n - k) := by omega
      conv => rhs; rw [this, List.take_add, List.drop_drop]
      rw [← hbs]
    · rw [b, hpos, hS.1]
      have : r.pos + k + (n - k) = r.pos + n := by omega
      rw [this]

end WuffsVerif.Rac
