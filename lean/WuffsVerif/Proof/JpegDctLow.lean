/-
C18: the negative side of the IDCT∘FDCT error, sharpened from −4 to −3.

The DC coefficient is computed exactly: `c32 0 0 j = 2^32` for every pixel, `alphas16 0 0 = 2^13`,
so `sum16 = 2^16·n` (n = Σ_j s_j, no rounding in the first shift) and
`result0 = (2^29·n + 2^31) >> 32 = round-half-up(n / 8)`.  Its rounding residue is therefore a
multiple of 1/8 in [−3/8, +4/8] — not the symmetric (−1/2, 1/2] of the general analysis — and its
weight in every pixel is +2^29·2^16 > 0.  On the negative side this takes 2^74 + 2^57 (0.0156 pixel
units) off the budget of `Proof/JpegDctBound.lean`: 4.0116 − 0.0156 = 3.996 < 4, hence ≥ −3.
(On the positive side a tie `n ≡ 4 mod 8` rounds up by exactly 1/2: nothing to gain.)
-/
import WuffsVerif.Proof.JpegDctBound

open WuffsVerif.Gen.C18 WuffsVerif.Jpeg WuffsVerif.Jpeg.Dct WuffsVerif.Jpeg.DctP

namespace WuffsVerif.Jpeg.DctB

/-- Σ_k (w k ≥ 0 ? w k · lo k : −w k · hi k): the most a weighted sum can go DOWN when every
    deviation `d k` lies in `[−lo k, hi k]` -/
def mixdot (w lo hi : Nat → Int) : List Nat → Int
  | [] => 0
  | k :: ks => (if 0 ≤ w k then w k * lo k else -(w k) * hi k) + mixdot w lo hi ks

theorem dot_perturb_low (x y w lo hi : Nat → Int) (D : Int) (l : List Nat)
    (h : ∀ k ∈ l, -(lo k) ≤ D * x k - y k ∧ D * x k - y k ≤ hi k) :
    -(mixdot w lo hi l) ≤ D * dot x w l - dot y w l := by
  induction l with
  | nil => simp [dot, mixdot]
  | cons k ks ih =>
    have ih' := ih (fun k' hk' => h k' (List.mem_cons_of_mem _ hk'))
    have hk := h k List.mem_cons_self
    simp only [dot, mixdot]
    have key : -(if 0 ≤ w k then w k * lo k else -(w k) * hi k) ≤ (D * x k - y k) * w k := by
      split
      · nlinarith
      · nlinarith
    have e1 : D * (x k * w k + dot x w ks) - (y k * w k + dot y w ks) =
        (D * x k - y k) * w k + (D * dot x w ks - dot y w ks) := by ring
    rw [e1]
    omega

theorem mixdot_eq_adot (w lo hi : Nat → Int) (l : List Nat) (h : ∀ k ∈ l, lo k = hi k) :
    mixdot w lo hi l = adot w hi l := by
  induction l with
  | nil => rfl
  | cons k ks ih =>
    simp only [mixdot, adot]
    rw [ih (fun k' hk' => h k' (List.mem_cons_of_mem _ hk')), h k List.mem_cons_self]
    unfold absI
    split <;> rfl

/-! ### the DC coefficient -/

theorem cK_zero (j : Nat) : cK 0 j = 4294967296 := by
  have h0 : cosAtL (j % 8) 0 = 65536 := by
    unfold cosAtL
    rw [Nat.mul_zero]
    decide
  have h1 : cosAtL (j / 8) 0 = 65536 := by
    unfold cosAtL
    rw [Nat.mul_zero]
    decide
  show cosAtL (j % 8) (0 % 8) * cosAtL (j / 8) (0 / 8) = 4294967296
  rw [show 0 % 8 = 0 from rfl, show 0 / 8 = 0 from rfl, h0, h1]
  rfl

theorem aK_zero : aK 0 = 8192 := by decide

theorem wL_zero (i : Nat) : wL 0 i = 536870912 := by
  unfold wL c16L
  rw [aK_zero, cK_zero]
  decide

/-- the DC output of `ForwardDCTFrom` is `round-half-up(n/8)`: its residue is one-sided -/
theorem fdctPost_dc (n : Int) :
    -105553116266496 ≤ 281474976710656 * fdctPost 8192 (4294967296 * n) - 8192 * (4294967296 * n) := by
  unfold fdctPost
  simp only
  omega

/-- the lower allowance of coefficient k: 3·2^45 for DC, `rnd k` otherwise -/
def rndLo (k : Nat) : Int := if k = 0 then 105553116266496 else rnd k

theorem rnd_zero : rnd 0 = 140737756790784 := by
  unfold rnd
  rw [aK_zero]
  decide

theorem range64_cons : List.range 64 = 0 :: List.range' 1 63 := by decide

/-- the budget on the negative side: `budget i − 2^29·(rnd 0 − 3·2^45)` -/
theorem mixdot_range (i : Nat) :
    mixdot (fun k => wL k i) rndLo rnd (List.range 64) =
      adot (fun k => wL k i) rnd (List.range 64) - 18889610046666656710656 := by
  rw [range64_cons]
  simp only [mixdot, adot]
  rw [mixdot_eq_adot _ rndLo rnd (List.range' 1 63) (fun k hk => by
    have : 1 ≤ k := (List.mem_range'_1.mp hk).1
    unfold rndLo
    rw [if_neg (by omega)])]
  rw [wL_zero, rnd_zero]
  unfold absI rndLo
  rw [if_pos (by decide : (0 : Int) ≤ 536870912), if_pos (rfl : (0 : Nat) = 0),
    if_pos (by decide : (0 : Int) ≤ 536870912)]
  omega

/-- **negative side of the error identity**: `2^48·T i − 2^80·s i ≥ −(budget i − (2^74 + 2^57))` -/
theorem acc_error_low (src : Array Nat) (hsrc : ∀ j, src.getD j 0 ≤ 255) (i : Nat) (hi : i < 64) :
    let s := fun j => ((src.getD j 0 : Nat) : Int) - 128
    let T := dot (fdctCoef src) (fun k => wL k i) (List.range 64);
    (-(budget i - 18889610046666656710656) ≤ 281474976710656 * T - 1208925819614629174706176 * s i) := by
  intro s T
  have hs : ∀ j, -128 ≤ s j ∧ s j ≤ 127 := by
    intro j
    have := hsrc j
    show -128 ≤ ((src.getD j 0 : Nat) : Int) - 128 ∧ ((src.getD j 0 : Nat) : Int) - 128 ≤ 127
    omega
  let S := fun k => dot s (cK k) (List.range 64)
  have hcoef : ∀ k, fdctCoef src k = fdctPost (aK k) (S k) := by
    intro k
    show fdctPost (alphas16 (k % 8) (k / 8)) (sum32 s (k % 8) (k / 8) (List.range 64)) = _
    rw [sum32_eq_dot]; rfl
  have hS0 : S 0 = 4294967296 * dot s (fun _ => 1) (List.range 64) := by
    show dot s (cK 0) (List.range 64) = _
    rw [← dot_smul_right]
    apply dot_congr
    intro k _
    rw [cK_zero]
    ring
  have hF : ∀ k ∈ List.range 64, -(rndLo k) ≤ 281474976710656 * fdctCoef src k - aK k * S k ∧
      281474976710656 * fdctCoef src k - aK k * S k ≤ rnd k := by
    intro k _
    have g := fdctPost_err (aK k) (S k) (aK_nonneg k)
    rw [hcoef k]
    refine ⟨?_, g.2⟩
    unfold rndLo
    split
    · rename_i hk0
      subst hk0
      rw [aK_zero, hS0]
      exact fdctPost_dc _
    · exact g.1
  have p := dot_perturb_low (fdctCoef src) (fun k => aK k * S k) (fun k => wL k i) rndLo rnd 281474976710656
    (List.range 64) hF
  rw [mixdot_range] at p
  have sw : dot (fun k => aK k * S k) (fun k => wL k i) (List.range 64) = dot s (mL i) (List.range 64) := by
    rw [dot_congr (fun k => aK k * S k) (fun k => wL k i) (gL i) S (List.range 64)
      (fun k _ => by show aK k * S k * wL k i = wL k i * aK k * S k; ring)]
    exact dot_swap (gL i) s cK (List.range 64) (List.range 64)
  have dg : dot s (eL i) (List.range 64) = dot s (mL i) (List.range 64) - 1208925819614629174706176 * s i := by
    show dot s (fun j => mL i j - (if j = i then 1208925819614629174706176 else 0)) (List.range 64) = _
    rw [dot_sub_right, dot_ind, count_range64 i hi]
    push_cast
    ring
  have bx := dot_box s (eL i) hs (List.range 64)
  rw [sw] at p
  unfold budget
  have pT : dot (fdctCoef src) (fun k => wL k i) (List.range 64) = T := rfl
  rw [pT] at p
  show -(128 * asum (eL i) (List.range 64) + adot (fun k => wL k i) rnd (List.range 64) - 18889610046666656710656) ≤
      281474976710656 * T - 1208925819614629174706176 * s i
  omega

/-- with `budget i ≤ 4.25·10^24` the final shift lands at `s i − 3` or above -/
theorem raw_ge_minus_three (T si B : Int)
    (h1 : -(B - 18889610046666656710656) ≤ 281474976710656 * T - 1208925819614629174706176 * si)
    (hB : B ≤ 4250000000000000000000000) :
    -3 ≤ (T + 2147483648) / 4294967296 - si := by
  generalize hR : (T + 2147483648) / 4294967296 = R
  have r2 : T + 2147483648 < 4294967296 * R + 4294967296 := by rw [← hR]; omega
  omega

end WuffsVerif.Jpeg.DctB
