/-
C13: `Spec.parseNode` accepts the bytes `encodeNode` emits for a well-shaped branch node, and the
parsed fields are the node's (closed forms `vT vD vC vLn vS`).  This is the per-node half of
`index_roundtrip`.
-/
import WuffsVerif.Proof.RacNodeBytes
namespace WuffsVerif.Rac
open Spec

/-- the arrays that `Spec.parseNode` extracts from a node's bytes -/
def pDptr (node : Bytes) (arity : Nat) : Array Nat :=
  (0 :: List.map (fun i => low48 (u64At node (8 * i))) (List.range' 1 arity)).toArray
def pTtag (node : Bytes) (arity : Nat) : Array Nat :=
  (List.map (fun i => byte7 (u64At node (8 * i))) (List.range arity)).toArray
def pCptr (node : Bytes) (arity : Nat) : Array Nat :=
  (List.map (fun i => low48 (u64At node (8 * (arity + 1) + 8 * i))) (List.range (arity + 1))).toArray
def pClen (node : Bytes) (arity : Nat) : Array Nat :=
  (List.map (fun i => byte6 (u64At node (8 * (arity + 1) + 8 * i))) (List.range arity)).toArray
def pStag (node : Bytes) (arity : Nat) : Array Nat :=
  (List.map (fun i => byte7 (u64At node (8 * (arity + 1) + 8 * i))) (List.range arity)).toArray

/-- the codec that `Spec.parseNode` derives -/
def pCodec (node : Bytes) (arity : Nat) : Except Bad Nat :=
  let codecByte := byte7 (u64At node (8 * arity))
  if codecByte &&& 0x80 == 0 then pure ((codecByte &&& 0x3F) <<< 56)
  else
    let c64 := codecByte &&& 0x3F
    match [c64, c64 + 64, c64 + 128, c64 + 192].find? (fun i => i < arity && (pTtag node arity).getD i 0 == 0xFD) with
    | none => throw Bad.longCodecMissing
    | some i => pure (2 ^ 63 + u64At node (8 * (arity + 1) + 8 * i) % 2 ^ 56)

theorem parseNode_ok (node : Bytes) (arity off cb db codec : Nat)
    (ha : (node.getD 3 0).toNat = arity) (h32 : ¬ node.length < 32)
    (hm : (node.take 3 != [0x72, 0xC3, 0x63]) = false) (h0 : (arity == 0) = false)
    (hsz : (node.length != arity * 16 + 16) = false)
    (hl : ((node.getD (arity * 16 + 16 - 1) 0).toNat != arity) = false)
    (hck : ((node.getD 4 0).toNat + 256 * (node.getD 5 0).toNat !=
        (Spec.crc32 (node.drop 6) % 65536) ^^^ (Spec.crc32 (node.drop 6) / 65536)) = false)
    (hres : ((List.range (arity + 1)).any fun i => byte6 (u64At node (8 * i)) != 0) = false)
    (hver : (byte6 (u64At node (8 * (arity + 1) + 8 * arity)) != 1) = false)
    (htt : ((pTtag node arity).any fun t => 0xC0 ≤ t && t < 0xFD) = false)
    (hnc : ((pTtag node arity).all fun t => t == 253) = false)
    (hcodec : pCodec node arity = .ok codec)
    (hdo : ((List.range arity).any fun a => (pDptr node arity).getD a 0 > (pDptr node arity).getD (a + 1) 0) = false)
    (hce : ((List.range arity).any fun a => (pTtag node arity).getD a 0 == 253 &&
        (pDptr node arity).getD a 0 != (pDptr node arity).getD (a + 1) 0) = false)
    (hco : ((List.range arity).any fun a => (pTtag node arity).getD a 0 != 253 &&
        (pCptr node arity).getD a 0 > (pCptr node arity).getD arity 0) = false) :
    parseNode node off cb db = .ok
      { cOffset := off, cBias := cb, dBias := db, arity := arity,
        dptr := pDptr node arity, ttag := pTtag node arity, cptr := pCptr node arity,
        clen := pClen node arity, stag := pStag node arity,
        codecByte := byte7 (u64At node (8 * arity)),
        version := byte6 (u64At node (8 * (arity + 1) + 8 * arity)), codec := codec } := by
  subst ha
  have key : parseNode node off cb db = (pCodec node (node.getD 3 0).toNat).bind fun codec => .ok
      { cOffset := off, cBias := cb, dBias := db, arity := (node.getD 3 0).toNat,
        dptr := pDptr node (node.getD 3 0).toNat, ttag := pTtag node (node.getD 3 0).toNat,
        cptr := pCptr node (node.getD 3 0).toNat,
        clen := pClen node (node.getD 3 0).toNat, stag := pStag node (node.getD 3 0).toNat,
        codecByte := byte7 (u64At node (8 * (node.getD 3 0).toNat)),
        version := byte6 (u64At node (8 * ((node.getD 3 0).toNat + 1) + 8 * (node.getD 3 0).toNat)), codec := codec } := by
    unfold parseNode pCodec
    simp only [pDptr, pTtag, pCptr, pClen, pStag] at *
    simp only [gt_iff_lt] at *
    simp only [h32, hm, h0, hsz, hl, hck, hres, hver, htt, hnc, hdo, hce, hco, ↓reduceIte, Bool.false_eq_true]
    rfl
  rw [key, hcodec]; rfl

/-- side conditions under which an encoded node parses (established for the writer's nodes in
`Proof/RacIndex*.lean`) -/
structure NodeOK (nw : NodeWriter) (cs : List WNode) (rs : List Nat) (c : Nat) : Prop where
  valid : codecValid c = true
  arity : cs.length + rs.length + (codecIsLong c).toNat ≤ 255
  nonempty : cs ≠ []
  ratio : rs.length ≤ 2 * cs.length
  dsum : (cs.map WNode.dRangeSize).sum < 2 ^ 48
  cfs : nw.cFileSize < 2 ^ 48
  child : ∀ o ∈ cs, o.cOffsetCLength < 2 ^ 56 ∧
    o.cOffsetCLength % 2 ^ 48 + (if o.isBranch then nw.indexCOffset else nw.dataCOffset) ≤ nw.cFileSize
  res : ∀ r ∈ rs, nw.resourcesCOffCLens.getD r 0 < 2 ^ 56 ∧
    nw.resourcesCOffCLens.getD r 0 % 2 ^ 48 + nw.dataCOffset ≤ nw.cFileSize
  /-- the resources the children name are listed (not needed for parsing; used for the resource CRanges) -/
  tags : ∀ o ∈ cs, (o.secondary ≠ 0 → o.secondary ∈ rs) ∧ (o.tertiary ≠ 0 → o.tertiary ∈ rs)

theorem prefixSize_zero (cs : List WNode) : prefixSize cs 0 = 0 := by simp [prefixSize]

theorem prefixSize_succ (cs : List WNode) (j : Nat) (hj : j < cs.length) :
    prefixSize cs (j + 1) = prefixSize cs j + (cs.getD j default).dRangeSize := by
  induction cs generalizing j with
  | nil => simp at hj
  | cons o os ih =>
    cases j with
    | zero => simp [prefixSize]
    | succ k =>
      have hk : k < os.length := by simpa using hj
      have := ih k hk
      simp only [prefixSize, List.take_succ_cons, List.map_cons, List.sum_cons, List.getD_cons_succ] at this ⊢
      omega

theorem prefixSize_length (cs : List WNode) : prefixSize cs cs.length = (cs.map WNode.dRangeSize).sum := by
  simp [prefixSize]

theorem prefixSize_mono (cs : List WNode) (i j : Nat) (h : i ≤ j) (hj : j ≤ cs.length) :
    prefixSize cs i ≤ prefixSize cs j := by
  induction j with
  | zero => simp [Nat.le_zero.mp h]
  | succ k ih =>
    by_cases hik : i ≤ k
    · have := ih hik (by omega)
      rw [prefixSize_succ cs k (by omega)]; omega
    · have : i = k + 1 := by omega
      rw [this]; exact Nat.le_refl _

theorem elem_cases (L R K e : Nat) (he : e ≤ K + R + L) :
    e < L ∨ (∃ i, i < R ∧ e = L + i) ∨ (∃ j, j < K ∧ e = L + R + j) ∨ e = K + R + L := by
  by_cases h1 : e < L
  · exact Or.inl h1
  · by_cases h2 : e < L + R
    · exact Or.inr (Or.inl ⟨e - L, by omega, by omega⟩)
    · by_cases h3 : e < L + R + K
      · exact Or.inr (Or.inr (Or.inl ⟨e - L - R, by omega, by omega⟩))
      · exact Or.inr (Or.inr (Or.inr (by omega)))

theorem getD_mem {α : Type} (l : List α) (i : Nat) (d : α) (h : i < l.length) : l.getD i d ∈ l := by
  rw [List.getD_eq_getElem?_getD, List.getElem?_eq_getElem h]
  exact List.getElem_mem h

section view
variable (nw : NodeWriter) (cs : List WNode) (rs : List Nat) (c : Nat)

/-- `TTag` of element `e` -/
def vT (e : Nat) : Nat :=
  if e < (codecIsLong c).toNat then 0xFD
  else if e < (codecIsLong c).toNat + rs.length then 0xFF
  else childTTag rs (codecIsLong c).toNat (cs.getD (e - (codecIsLong c).toNat - rs.length) default)

/-- `DPtr` of element `e` (and `DPtrMax` at `e = arity`) -/
def vD (e : Nat) : Nat := prefixSize cs (e - ((codecIsLong c).toNat + rs.length))

/-- the `COffset|CLength` value element `e` was written from, bias included in the low 48 bits -/
def vCO (e : Nat) : Nat × Nat :=
  if e < (codecIsLong c).toNat then (c % 2 ^ 56 % 2 ^ 48, c % 2 ^ 56 / 2 ^ 48)
  else if e < (codecIsLong c).toNat + rs.length then
    let x := nw.resourcesCOffCLens.getD (rs.getD (e - (codecIsLong c).toNat) 0) 0
    (x % 2 ^ 48 + nw.dataCOffset, x / 2 ^ 48)
  else if e < cs.length + rs.length + (codecIsLong c).toNat then
    let o := cs.getD (e - (codecIsLong c).toNat - rs.length) default
    (o.cOffsetCLength % 2 ^ 48 + (if o.isBranch then nw.indexCOffset else nw.dataCOffset), o.cOffsetCLength / 2 ^ 48)
  else (nw.cFileSize, 1)

/-- `STag` of element `e` -/
def vS (e : Nat) : Nat :=
  if e < (codecIsLong c).toNat then 0
  else if e < (codecIsLong c).toNat + rs.length then 0xFF
  else resourceToTagByte rs (cs.getD (e - (codecIsLong c).toNat - rs.length) default).secondary (codecIsLong c).toNat

theorem codec_lt (ok : NodeOK nw cs rs c) : c < 2 ^ 64 := by
  have := ok.valid
  unfold codecValid at this
  simp only [Nat.shiftRight_eq_div_pow, beq_iff_eq] at this
  split at this
  · rename_i h; omega
  · simp at this; omega

variable (ok : NodeOK nw cs rs c)
include ok

/-- fields of the D-word of element `e ≤ arity` -/
theorem dword_flds (e : Nat) (he : e ≤ cs.length + rs.length + (codecIsLong c).toNat) :
    Flds ((nodeWordsOf nw cs rs c).getD e 0) (vD cs rs c e) 0
      (if e < cs.length + rs.length + (codecIsLong c).toNat then vT cs rs c e else c / 2 ^ 56 % 256) := by
  have hA := ok.arity
  rcases elem_cases _ _ _ e he with h | ⟨i, hi, rfl⟩ | ⟨j, hj, rfl⟩ | rfl
  · have hl : codecIsLong c = true := by
      cases hc : codecIsLong c <;> simp [hc] at h ⊢
    have e0 : e = 0 := by simp [hl] at h; exact h
    subst e0
    rw [nodeWordsOf_D1 nw cs rs c hl]
    have : cs.length ≠ 0 := fun h0 => ok.nonempty (List.eq_nil_of_length_eq_zero h0)
    simp only [vD, vT, hl, Bool.toNat_true, Nat.zero_sub, prefixSize_zero]
    rw [if_pos (by omega), if_pos (by omega)]
    exact codecElem_flds
  · rw [nodeWordsOf_D2 nw cs rs c i hi]
    have e1 : vD cs rs c ((codecIsLong c).toNat + i) = 0 := by
      unfold vD; rw [show (codecIsLong c).toNat + i - ((codecIsLong c).toNat + rs.length) = 0 by omega, prefixSize_zero]
    have e2 : vT cs rs c ((codecIsLong c).toNat + i) = 0xFF := by
      unfold vT; rw [if_neg (by omega), if_pos (by omega)]
    rw [e1, if_pos (by omega), e2]
    exact tagFF_flds
  · rw [nodeWordsOf_D3 nw cs rs c j hj]
    have e1 : vD cs rs c ((codecIsLong c).toNat + rs.length + j) = prefixSize cs j := by
      unfold vD; congr 1; omega
    have e2 : vT cs rs c ((codecIsLong c).toNat + rs.length + j) = childTTag rs (codecIsLong c).toNat (cs.getD j default) := by
      unfold vT; rw [if_neg (by omega), if_neg (by omega)]; congr 2; omega
    rw [e1, if_pos (by omega), e2]
    have hp : prefixSize cs j < 2 ^ 48 := by
      have := prefixSize_mono cs j cs.length (by omega) (Nat.le_refl _)
      rw [prefixSize_length] at this
      have := ok.dsum; omega
    exact childDWord_flds rs _ _ _ hp (by omega)
  · rw [nodeWordsOf_D4 nw cs rs c]
    have e1 : vD cs rs c (cs.length + rs.length + (codecIsLong c).toNat) = (cs.map WNode.dRangeSize).sum := by
      unfold vD
      rw [show cs.length + rs.length + (codecIsLong c).toNat - ((codecIsLong c).toNat + rs.length) = cs.length by omega,
        prefixSize_length]
    rw [e1, if_neg (by omega)]
    exact dmaxWord_flds _ _ ok.dsum

omit ok in
theorem vCO_res (i : Nat) (hi : i < rs.length) :
    vCO nw cs rs c ((codecIsLong c).toNat + i) =
      (nw.resourcesCOffCLens.getD (rs.getD i 0) 0 % 2 ^ 48 + nw.dataCOffset,
       nw.resourcesCOffCLens.getD (rs.getD i 0) 0 / 2 ^ 48) := by
  unfold vCO
  rw [if_neg (show ¬ (codecIsLong c).toNat + i < (codecIsLong c).toNat by omega),
    if_pos (show (codecIsLong c).toNat + i < (codecIsLong c).toNat + rs.length by omega)]
  simp only [show (codecIsLong c).toNat + i - (codecIsLong c).toNat = i by omega]

omit ok in
theorem vCO_child (j : Nat) (hj : j < cs.length) :
    vCO nw cs rs c ((codecIsLong c).toNat + rs.length + j) =
      ((cs.getD j default).cOffsetCLength % 2 ^ 48 +
        (if (cs.getD j default).isBranch then nw.indexCOffset else nw.dataCOffset),
       (cs.getD j default).cOffsetCLength / 2 ^ 48) := by
  unfold vCO
  rw [if_neg (show ¬ (codecIsLong c).toNat + rs.length + j < (codecIsLong c).toNat by omega),
    if_neg (show ¬ (codecIsLong c).toNat + rs.length + j < (codecIsLong c).toNat + rs.length by omega),
    if_pos (show (codecIsLong c).toNat + rs.length + j < cs.length + rs.length + (codecIsLong c).toNat by omega)]
  simp only [show (codecIsLong c).toNat + rs.length + j - (codecIsLong c).toNat - rs.length = j by omega]

omit ok in
theorem vCO_max : vCO nw cs rs c (cs.length + rs.length + (codecIsLong c).toNat) = (nw.cFileSize, 1) := by
  unfold vCO
  rw [if_neg (show ¬ cs.length + rs.length + (codecIsLong c).toNat < (codecIsLong c).toNat by omega),
    if_neg (show ¬ cs.length + rs.length + (codecIsLong c).toNat < (codecIsLong c).toNat + rs.length by omega),
    if_neg (show ¬ cs.length + rs.length + (codecIsLong c).toNat < cs.length + rs.length + (codecIsLong c).toNat by omega)]

omit ok in
theorem vS_res (i : Nat) (hi : i < rs.length) : vS cs rs c ((codecIsLong c).toNat + i) = 0xFF := by
  unfold vS
  rw [if_neg (show ¬ (codecIsLong c).toNat + i < (codecIsLong c).toNat by omega),
    if_pos (show (codecIsLong c).toNat + i < (codecIsLong c).toNat + rs.length by omega)]

omit ok in
theorem vS_child (j : Nat) :
    vS cs rs c ((codecIsLong c).toNat + rs.length + j) =
      resourceToTagByte rs (cs.getD j default).secondary (codecIsLong c).toNat := by
  unfold vS
  rw [if_neg (show ¬ (codecIsLong c).toNat + rs.length + j < (codecIsLong c).toNat by omega),
    if_neg (show ¬ (codecIsLong c).toNat + rs.length + j < (codecIsLong c).toNat + rs.length by omega)]
  simp only [show (codecIsLong c).toNat + rs.length + j - (codecIsLong c).toNat - rs.length = j by omega]

/-- fields of the C-word of element `e ≤ arity` -/
theorem cword_flds_at (e : Nat) (he : e ≤ cs.length + rs.length + (codecIsLong c).toNat) :
    Flds ((nodeWordsOf nw cs rs c).getD (cs.length + rs.length + (codecIsLong c).toNat + 1 + e) 0)
      (vCO nw cs rs c e).1 (vCO nw cs rs c e).2
      (if e < cs.length + rs.length + (codecIsLong c).toNat then vS cs rs c e
       else cs.length + rs.length + (codecIsLong c).toNat) := by
  have hA := ok.arity
  have hcfs := ok.cfs
  rcases elem_cases _ _ _ e he with h | ⟨i, hi, rfl⟩ | ⟨j, hj, rfl⟩ | rfl
  · have hl : codecIsLong c = true := by
      cases hc : codecIsLong c <;> simp [hc] at h ⊢
    have e0 : e = 0 := by simp [hl] at h; exact h
    subst e0
    have := nodeWordsOf_C1 nw cs rs c hl
    rw [Nat.add_zero, this, codecLow]
    have hne : cs.length ≠ 0 := fun h0 => ok.nonempty (List.eq_nil_of_length_eq_zero h0)
    simp only [vCO, vS, hl, Bool.toNat_true]
    rw [if_pos (by omega), if_pos (by omega), if_pos (by omega)]
    have := flds_sum (c % 2 ^ 56 % 2 ^ 48) (c % 2 ^ 56 / 2 ^ 48) 0 (by omega) (by omega) (by omega)
    have e : c % 2 ^ 56 % 2 ^ 48 + c % 2 ^ 56 / 2 ^ 48 * 2 ^ 48 + 0 * 2 ^ 56 = c % 2 ^ 56 := by omega
    rwa [e] at this
  · rw [nodeWordsOf_C2 nw cs rs c i hi, vCO_res nw cs rs c i hi,
      if_pos (show (codecIsLong c).toNat + i < cs.length + rs.length + (codecIsLong c).toNat by omega),
      vS_res cs rs c i hi]
    obtain ⟨r1, r2⟩ := ok.res _ (getD_mem rs i 0 hi)
    exact resCWord_flds _ _ r1 (by omega)
  · rw [nodeWordsOf_C3 nw cs rs c j hj, vCO_child nw cs rs c j hj,
      if_pos (show (codecIsLong c).toNat + rs.length + j < cs.length + rs.length + (codecIsLong c).toNat by omega),
      vS_child cs rs c j]
    obtain ⟨r1, r2⟩ := ok.child _ (getD_mem cs j default hj)
    exact childCWord_flds nw rs _ _ r1 (by omega) (by omega)
  · rw [nodeWordsOf_C4 nw cs rs c, vCO_max nw cs rs c, if_neg (by omega)]
    exact cmaxWord_flds _ _ hcfs (by omega)

/-! ### the windows of the encoded node, and the arrays `Spec.parseNode` builds from them -/

theorem win_d (e : Nat) (he : e ≤ cs.length + rs.length + (codecIsLong c).toNat) :
    byte6 (u64At (nodeBytesOf nw cs rs c) (8 * e)) = 0 ∧
    byte7 (u64At (nodeBytesOf nw cs rs c) (8 * e)) =
      (if e < cs.length + rs.length + (codecIsLong c).toNat then vT cs rs c e else c / 2 ^ 56 % 256) ∧
    (1 ≤ e → low48 (u64At (nodeBytesOf nw cs rs c) (8 * e)) = vD cs rs c e) := by
  obtain ⟨f1, f2, f3, _⟩ := dword_flds nw cs rs c ok e he
  obtain ⟨g1, g2⟩ := nb_b67 nw cs rs c e (by omega)
  refine ⟨by rw [g1, f2], by rw [g2, f3], fun h1 => ?_⟩
  rw [nb_word nw cs rs c e h1, (fields_mod _).1, f1]

theorem win_c (e : Nat) (he : e ≤ cs.length + rs.length + (codecIsLong c).toNat) :
    low48 (u64At (nodeBytesOf nw cs rs c) (8 * (cs.length + rs.length + (codecIsLong c).toNat + 1) + 8 * e)) =
      (vCO nw cs rs c e).1 ∧
    byte6 (u64At (nodeBytesOf nw cs rs c) (8 * (cs.length + rs.length + (codecIsLong c).toNat + 1) + 8 * e)) =
      (vCO nw cs rs c e).2 ∧
    byte7 (u64At (nodeBytesOf nw cs rs c) (8 * (cs.length + rs.length + (codecIsLong c).toNat + 1) + 8 * e)) =
      (if e < cs.length + rs.length + (codecIsLong c).toNat then vS cs rs c e
       else cs.length + rs.length + (codecIsLong c).toNat) ∧
    u64At (nodeBytesOf nw cs rs c) (8 * (cs.length + rs.length + (codecIsLong c).toNat + 1) + 8 * e) =
      (nodeWordsOf nw cs rs c).getD (cs.length + rs.length + (codecIsLong c).toNat + 1 + e) 0 := by
  obtain ⟨f1, f2, f3, f4⟩ := cword_flds_at nw cs rs c ok e he
  have e1 : 8 * (cs.length + rs.length + (codecIsLong c).toNat + 1) + 8 * e =
      8 * (cs.length + rs.length + (codecIsLong c).toNat + 1 + e) := by omega
  rw [e1, nb_word nw cs rs c _ (by omega), Nat.mod_eq_of_lt f4]
  exact ⟨f1, f2, f3, rfl⟩

theorem arr_ttag (e : Nat) (he : e < cs.length + rs.length + (codecIsLong c).toNat) :
    (pTtag (nodeBytesOf nw cs rs c) (cs.length + rs.length + (codecIsLong c).toNat)).getD e 0 = vT cs rs c e := by
  rw [pTtag, getD_map_range, if_pos he, (win_d nw cs rs c ok e (by omega)).2.1, if_pos he]

theorem arr_dptr (e : Nat) (he : e ≤ cs.length + rs.length + (codecIsLong c).toNat) :
    (pDptr (nodeBytesOf nw cs rs c) (cs.length + rs.length + (codecIsLong c).toNat)).getD e 0 = vD cs rs c e := by
  rw [pDptr, getD_cons_map_range']
  by_cases h0 : e = 0
  · subst h0; simp [vD, prefixSize_zero]
  · rw [if_neg h0, if_pos he]
    exact (win_d nw cs rs c ok e he).2.2 (by omega)

theorem arr_cptr (e : Nat) (he : e ≤ cs.length + rs.length + (codecIsLong c).toNat) :
    (pCptr (nodeBytesOf nw cs rs c) (cs.length + rs.length + (codecIsLong c).toNat)).getD e 0 =
      (vCO nw cs rs c e).1 := by
  rw [pCptr, getD_map_range, if_pos (by omega)]
  exact (win_c nw cs rs c ok e he).1

theorem arr_clen (e : Nat) (he : e < cs.length + rs.length + (codecIsLong c).toNat) :
    (pClen (nodeBytesOf nw cs rs c) (cs.length + rs.length + (codecIsLong c).toNat)).getD e 0 =
      (vCO nw cs rs c e).2 := by
  rw [pClen, getD_map_range, if_pos he]
  exact (win_c nw cs rs c ok e (by omega)).2.1

theorem arr_stag (e : Nat) (he : e < cs.length + rs.length + (codecIsLong c).toNat) :
    (pStag (nodeBytesOf nw cs rs c) (cs.length + rs.length + (codecIsLong c).toNat)).getD e 0 = vS cs rs c e := by
  rw [pStag, getD_map_range, if_pos he, (win_c nw cs rs c ok e (by omega)).2.2.1, if_pos he]

/-! ### properties of the closed forms that `Spec.parseNode` checks -/

omit ok in
theorem resourceToTagByte_zone (r tb : Nat) (h : rs.length + tb ≤ 0xC0) :
    resourceToTagByte rs r tb < 0xC0 ∨ resourceToTagByte rs r tb = 0xFF := by
  unfold resourceToTagByte
  split
  · split
    · rename_i i hi
      have hlt : i < rs.length := by
        unfold List.idxOf? at hi
        exact (List.findIdx?_eq_some_iff_getElem.mp hi).1
      left; omega
    · right; rfl
  · right; rfl

theorem res_zone : rs.length + (codecIsLong c).toNat ≤ 0xC0 := by
  have := ok.arity; have := ok.ratio
  have : (codecIsLong c).toNat ≤ 1 := by cases codecIsLong c <;> simp
  omega

theorem childTTag_zone (o : WNode) :
    (childTTag rs (codecIsLong c).toNat o < 0xC0 ∨ 0xFE ≤ childTTag rs (codecIsLong c).toNat o) ∧
    childTTag rs (codecIsLong c).toNat o < 256 := by
  unfold childTTag
  split
  · omega
  · rcases resourceToTagByte_zone rs o.tertiary (codecIsLong c).toNat (res_zone nw cs rs c ok) with h | h <;> omega

/-- no TTag in the reserved zone; the only `0xFD` is the Codec Element -/
theorem vT_zone (e : Nat) :
    (vT cs rs c e < 0xC0 ∨ 0xFD ≤ vT cs rs c e) ∧ (vT cs rs c e = 0xFD → e < (codecIsLong c).toNat) := by
  unfold vT
  split
  · rename_i h; exact ⟨by omega, fun _ => h⟩
  · split
    · exact ⟨by omega, fun h => by omega⟩
    · have := childTTag_zone nw cs rs c ok (cs.getD (e - (codecIsLong c).toNat - rs.length) default)
      exact ⟨by omega, fun h => by omega⟩

omit ok in
theorem vD_mono (e : Nat) (he : e < cs.length + rs.length + (codecIsLong c).toNat) :
    vD cs rs c e ≤ vD cs rs c (e + 1) := by
  unfold vD
  exact prefixSize_mono cs _ _ (by omega) (by omega)

omit ok in
theorem vD_pre (e : Nat) (he : e ≤ (codecIsLong c).toNat + rs.length) : vD cs rs c e = 0 := by
  unfold vD
  rw [show e - ((codecIsLong c).toNat + rs.length) = 0 by omega, prefixSize_zero]

/-- every element other than the Codec Element has `CPtr ≤ CPtrMax` -/
theorem vCO_le (e : Nat) (he : e < cs.length + rs.length + (codecIsLong c).toNat)
    (hl : ¬ e < (codecIsLong c).toNat) : (vCO nw cs rs c e).1 ≤ nw.cFileSize := by
  rcases elem_cases _ _ _ e (Nat.le_of_lt he) with h | ⟨i, hi, rfl⟩ | ⟨j, hj, rfl⟩ | rfl
  · exact absurd h hl
  · rw [vCO_res nw cs rs c i hi]; exact (ok.res _ (getD_mem rs i 0 hi)).2
  · rw [vCO_child nw cs rs c j hj]; exact (ok.child _ (getD_mem cs j default hj)).2
  · omega

omit ok in
theorem codecValid_cases (hv : codecValid c = true) :
    (codecIsLong c = false → c % 2 ^ 56 = 0 ∧ c < 2 ^ 62) ∧ (codecIsLong c = true → c / 2 ^ 56 = 128) := by
  unfold codecValid at hv
  unfold codecIsLong
  simp only [Nat.shiftRight_eq_div_pow, Nat.shiftLeft_eq, beq_iff_eq, decide_eq_false_iff_not, decide_eq_true_eq] at hv ⊢
  split at hv
  · simp only [Bool.and_eq_true, beq_iff_eq] at hv
    constructor
    · intro _; omega
    · intro h; omega
  · simp only [beq_iff_eq] at hv
    constructor
    · intro h; omega
    · intro _; omega

omit ok in
theorem byte_and_facts : ∀ h : Fin 64, h.val &&& 128 = 0 ∧ h.val &&& 63 = h.val ∧ h.val &&& 64 = 0 := by decide

theorem pCodec_ok :
    pCodec (nodeBytesOf nw cs rs c) (cs.length + rs.length + (codecIsLong c).toNat) = .ok c := by
  have hv := codecValid_cases c ok.valid
  have hb := (win_d nw cs rs c ok (cs.length + rs.length + (codecIsLong c).toNat) (Nat.le_refl _)).2.1
  rw [if_neg (Nat.lt_irrefl _)] at hb
  unfold pCodec
  simp only [hb]
  cases hl : codecIsLong c with
  | false =>
    obtain ⟨h1, h2⟩ := hv.1 hl
    have hlt : c / 2 ^ 56 < 64 := by omega
    have hm : c / 2 ^ 56 % 256 = c / 2 ^ 56 := by omega
    obtain ⟨a1, a2, _⟩ := byte_and_facts ⟨c / 2 ^ 56, hlt⟩
    simp only at a1 a2
    rw [hm, a1, a2]
    simp only [beq_self_eq_true, ↓reduceIte, pure, Except.pure, Nat.shiftLeft_eq]
    congr 1; omega
  | true =>
    have h1 := hv.2 hl
    have hne : cs.length ≠ 0 := fun h0 => ok.nonempty (List.eq_nil_of_length_eq_zero h0)
    have ht := arr_ttag nw cs rs c ok 0 (by omega)
    have hvt : vT cs rs c 0 = 0xFD := by unfold vT; rw [if_pos (by simp [hl])]
    rw [hl] at ht
    rw [h1]
    have e1 : (128 % 256 &&& 128 == 0) = false := by decide
    have e2 : 128 % 256 &&& 63 = 0 := by decide
    simp only [e1, e2, Bool.false_eq_true, ↓reduceIte]
    have hf : List.find? (fun i => decide (i < cs.length + rs.length + true.toNat) &&
        (pTtag (nodeBytesOf nw cs rs c) (cs.length + rs.length + true.toNat)).getD i 0 == 253)
        [0, 0 + 64, 0 + 128, 0 + 192] = some 0 := by
      rw [List.find?_cons_of_pos]
      rw [ht, hvt]
      simp
    rw [hf]
    simp only [pure, Except.pure]
    have hw := (win_c nw cs rs c ok 0 (by omega)).2.2.2
    rw [hl] at hw
    rw [hw]
    have := nodeWordsOf_C1 nw cs rs c hl
    rw [hl] at this
    rw [Nat.add_zero, this, codecLow]
    congr 1; omega

/-- the branch that `Spec.parseNode` returns for the encoded node -/
def parsedBranch (off cb db : Nat) : Branch :=
  { cOffset := off, cBias := cb, dBias := db, arity := cs.length + rs.length + (codecIsLong c).toNat,
    dptr := pDptr (nodeBytesOf nw cs rs c) (cs.length + rs.length + (codecIsLong c).toNat),
    ttag := pTtag (nodeBytesOf nw cs rs c) (cs.length + rs.length + (codecIsLong c).toNat),
    cptr := pCptr (nodeBytesOf nw cs rs c) (cs.length + rs.length + (codecIsLong c).toNat),
    clen := pClen (nodeBytesOf nw cs rs c) (cs.length + rs.length + (codecIsLong c).toNat),
    stag := pStag (nodeBytesOf nw cs rs c) (cs.length + rs.length + (codecIsLong c).toNat),
    codecByte := byte7 (u64At (nodeBytesOf nw cs rs c) (8 * (cs.length + rs.length + (codecIsLong c).toNat))),
    version := byte6 (u64At (nodeBytesOf nw cs rs c) (8 * (cs.length + rs.length + (codecIsLong c).toNat + 1) +
      8 * (cs.length + rs.length + (codecIsLong c).toNat))),
    codec := c }

/-- **node round trip**: the independent spec reader accepts the bytes of an encoded node -/
theorem parse_nodeBytes (off cb db : Nat) :
    parseNode (nodeBytesOf nw cs rs c) off cb db = .ok (parsedBranch nw cs rs c off cb db) := by
  have hA := ok.arity
  have hne : cs.length ≠ 0 := fun h0 => ok.nonempty (List.eq_nil_of_length_eq_zero h0)
  have hlen := nodeBytesOf_length nw cs rs c
  apply parseNode_ok
  · exact nb_get3 nw cs rs c hA
  · rw [hlen]; omega
  · rw [nb_take3]; decide
  · rw [beq_eq_false_iff_ne]; omega
  · rw [hlen]; simp
  · rw [nb_last nw cs rs c hA]
    have := (cword_flds_at nw cs rs c ok _ (Nat.le_refl _)).2.2.1
    rw [if_neg (Nat.lt_irrefl _)] at this
    have e : 2 * (cs.length + rs.length + (codecIsLong c).toNat) + 1 =
        cs.length + rs.length + (codecIsLong c).toNat + 1 + (cs.length + rs.length + (codecIsLong c).toNat) := by omega
    rw [e, this]; simp
  · rw [nb_checksum]; simp
  · rw [List.any_eq_false]
    intro i hi
    have hi' : i ≤ cs.length + rs.length + (codecIsLong c).toNat := by
      have := List.mem_range.mp hi; omega
    rw [(win_d nw cs rs c ok i hi').1]; simp
  · have := (win_c nw cs rs c ok _ (Nat.le_refl _)).2.1
    rw [this, vCO_max]; simp
  · rw [pTtag, List.any_toArray, List.any_eq_false]
    intro t ht
    obtain ⟨e, he, rfl⟩ := List.mem_map.mp ht
    have he' := List.mem_range.mp he
    rw [(win_d nw cs rs c ok e (by omega)).2.1, if_pos he']
    have := (vT_zone nw cs rs c ok e).1
    simp only [Bool.and_eq_true, decide_eq_true_eq]
    omega
  · rw [pTtag, List.all_toArray]
    rw [Bool.eq_false_iff]
    intro hall
    rw [List.all_eq_true] at hall
    have hmem : byte7 (u64At (nodeBytesOf nw cs rs c) (8 * ((codecIsLong c).toNat + rs.length))) ∈
        List.map (fun i => byte7 (u64At (nodeBytesOf nw cs rs c) (8 * i)))
          (List.range (cs.length + rs.length + (codecIsLong c).toNat)) :=
      List.mem_map.mpr ⟨_, List.mem_range.mpr (by omega), rfl⟩
    have := hall _ hmem
    rw [(win_d nw cs rs c ok _ (by omega)).2.1, if_pos (by omega)] at this
    have h2 := (vT_zone nw cs rs c ok ((codecIsLong c).toNat + rs.length)).2 (by simpa using this)
    omega
  · exact pCodec_ok nw cs rs c ok
  · rw [List.any_eq_false]
    intro a ha
    have ha' := List.mem_range.mp ha
    rw [arr_dptr nw cs rs c ok a (by omega), arr_dptr nw cs rs c ok (a + 1) (by omega)]
    have := vD_mono cs rs c a ha'
    simp only [gt_iff_lt, decide_eq_true_eq]; omega
  · rw [List.any_eq_false]
    intro a ha
    have ha' := List.mem_range.mp ha
    rw [arr_ttag nw cs rs c ok a ha', arr_dptr nw cs rs c ok a (by omega), arr_dptr nw cs rs c ok (a + 1) (by omega)]
    simp only [Bool.and_eq_true, beq_iff_eq, bne_iff_ne, ne_eq, not_and, Decidable.not_not]
    intro h
    have hl := (vT_zone nw cs rs c ok a).2 h
    rw [vD_pre cs rs c a (by omega), vD_pre cs rs c (a + 1) (by omega)]
  · rw [List.any_eq_false]
    intro a ha
    have ha' := List.mem_range.mp ha
    rw [arr_ttag nw cs rs c ok a ha', arr_cptr nw cs rs c ok a (by omega), arr_cptr nw cs rs c ok _ (Nat.le_refl _),
      vCO_max]
    simp only [Bool.and_eq_true, bne_iff_ne, ne_eq, gt_iff_lt, decide_eq_true_eq, not_and, Nat.not_lt]
    intro h
    apply vCO_le nw cs rs c ok a ha'
    intro hl
    apply h
    unfold vT; rw [if_pos hl]
end view
end WuffsVerif.Rac
