/-
C12, the Wuffs formatter: where `Render` writes two tokens with no space between them,
the tokenizer cannot merge them (or split them differently) when it reads the text back —
a finite obligation over the regenerated token tables, plus the general lemma that lifts it
from the table to every continuation.  Core Lean only.
-/
import WuffsVerif.Model.RenderTokens

namespace WuffsVerif.Render
open WuffsVerif.FmtToken WuffsVerif.Gen.C12

/-- the IDs the `squiggles` / `lexers` part of `Tokenize` can produce -/
def lexerIds : List Nat := squiggles.map (·.2) ++ lexers.flatMap (fun e => e.2.map (·.2))

/-- The squiggly built-ins: the tokens (id, text, flags) that part of `Tokenize` produces. -/
def punctToks : List (Nat × Bytes × Nat) := builtins.filter (fun e => lexerIds.contains e.1)

/-- What can follow a token: a whole squiggly built-in, or just the first byte of a
word / number / string (`whole = false`). -/
structure Next where
  text : Bytes
  tightLeft : Bool
  isOpenParen : Bool
  whole : Bool
deriving DecidableEq, Repr

def wordNumStrStarts : List UInt8 :=
  (List.range 256).filterMap (fun n =>
    let c := UInt8.ofNat n
    if alphaNumeric c || c == 34 || c == 39 then some c else none)

def allNext : List Next :=
  punctToks.map (fun e => ⟨e.2.1, hasFlag e.2.2 2, e.1 == idOpenParen, true⟩) ++
  wordNumStrStarts.map (fun c => ⟨[c], false, false, false⟩)

/-- A superset of the situations in which `Render` writes `q` directly after the squiggly
token `p`: `p` is not "=" (always followed by a space) and `p` is tight-right, or is a
"+"/"-" (tight-right when it looks unary), or `q` is tight-left, or `q` is "(" (tight-left
after a close / identifier / string / "?"). -/
def mayNoSpace (p : Nat × Bytes × Nat) (q : Next) : Bool :=
  p.1 != idEq && (hasFlag p.2.2 4 || hasFlag p.2.2 8 || q.tightLeft || q.isOpenParen)

/-- the ways the lexer could read more than `p`: the non-empty `δ` with `σ ++ δ` in `lexers[c]`,
where `p`'s text is `c :: σ` (none if `c` is a one-byte squiggle) -/
def extensions (p : Nat × Bytes × Nat) : List Bytes :=
  match p.2.1 with
  | [] => []
  | c :: σ =>
    match squiggleOf c with
    | some _ => []
    | none => (lexersOf c).filterMap (fun x =>
        if σ.isPrefixOf x.1 && x.1.length > σ.length then some (x.1.drop σ.length) else none)

def compatible (δ : Bytes) (q : Next) : Bool :=
  if q.whole then δ.isPrefixOf q.text || q.text.isPrefixOf δ else δ.head? == q.text.head?

/-- no extension of `p` can start where `q` starts -/
def pairOK (p : Nat × Bytes × Nat) (q : Next) : Bool := (extensions p).all (fun δ => !compatible δ q)

/-- `p`'s own text lexes as `p` -/
def selfOK (p : Nat × Bytes × Nat) : Bool :=
  match p.2.1 with
  | [] => false
  | c :: σ => lexPunct c σ == some (p.1, σ.length + 1)

/-- The pairs that WOULD merge: "." before "." / ".." / "..=" (giving ".." …), and "+" / "-"
before a token starting with "=" (giving "+=" / "-="); none of them occurs in a program the
parser accepts (the harness counts them on every accepted source: always 0). -/
def isBad (p : Nat × Bytes × Nat) (q : Next) : Bool :=
  (p.2.1 == [46] && q.text.head? == some 46) ||
  ((p.2.1 == [43] || p.2.1 == [45]) && q.text.head? == some 61)

theorem punct_lexes_to_itself : punctToks.all selfOK = true := by decide +kernel

/-- every ID in the lexer tables has a text (so `punctToks` misses none of them) -/
theorem lexer_ids_have_text : lexerIds.all (fun id => punctToks.any (·.1 == id)) = true := by decide +kernel

theorem nospace_pairs_table :
    punctToks.all (fun p => allNext.all (fun q => !mayNoSpace p q || isBad p q || pairOK p q)) = true := by
  decide +kernel

/-- the excluded pairs really merge (the exclusion is not wider than needed) -/
theorem bad_pairs_do_merge :
    punctToks.all (fun p => allNext.all (fun q => !(mayNoSpace p q && isBad p q) || !pairOK p q)) = true := by
  decide +kernel

/-- after a word, a number or a string, the tokens that `Render` attaches without a space
(tight-left ones and "(") do not start with a byte that would continue the word / number
(letters, digits, '_') or be taken for a string's `be` / `le` suffix -/
theorem tight_left_starts_no_word :
    punctToks.all (fun e => !(hasFlag e.2.2 2 || e.1 == idOpenParen) ||
      (match e.2.1 with | c :: _ => !alphaNumeric c | [] => false)) = true := by
  decide +kernel

end WuffsVerif.Render

namespace WuffsVerif.Render
open WuffsVerif.FmtToken WuffsVerif.Gen.C12

/-! ### from the table to every continuation -/

theorem prefix_append_cases (a s t : Bytes) (h : a <+: s ++ t) :
    a <+: s ∨ ∃ δ, δ ≠ [] ∧ a = s ++ δ ∧ δ <+: t := by
  have hs : s <+: s ++ t := List.prefix_append s t
  rcases List.prefix_or_prefix_of_prefix h hs with h1 | h1
  · exact Or.inl h1
  · obtain ⟨δ, hδ⟩ := h1
    by_cases hd : δ = []
    · left; subst hd; simp at hδ; rw [← hδ]; exact List.prefix_refl _
    · right
      refine ⟨δ, hd, hδ.symm, ?_⟩
      rw [← hδ] at h
      exact (List.prefix_append_right_inj s).mp h

/-- `find?` of the first suffix that is a prefix of the input does not change when the
input `σ` is continued by `t`, if no longer suffix `σ ++ δ` has `δ` a prefix of `t`. -/
theorem find_stable (L : List (Bytes × Nat)) (σ t : Bytes) (e : Bytes × Nat)
    (h1 : L.find? (fun x => x.1.isPrefixOf σ) = some e) (he : e.1 = σ)
    (h2 : ∀ x ∈ L, ∀ δ, δ ≠ [] → x.1 = σ ++ δ → ¬ δ <+: t) :
    L.find? (fun x => x.1.isPrefixOf (σ ++ t)) = some e := by
  induction L with
  | nil => simp at h1
  | cons x xs ih =>
    rw [List.find?_cons] at h1 ⊢
    by_cases hx : x.1.isPrefixOf σ = true
    · simp only [hx] at h1
      have hxe : x = e := by simpa using h1
      have : x.1.isPrefixOf (σ ++ t) = true := by
        rw [List.isPrefixOf_iff_prefix, hxe, he]
        exact List.prefix_append σ t
      simp only [this]
      exact h1
    · have hx' : x.1.isPrefixOf σ = false := Bool.eq_false_iff.mpr hx
      simp only [hx'] at h1
      have : x.1.isPrefixOf (σ ++ t) = false := by
        cases hp : x.1.isPrefixOf (σ ++ t) with
        | false => rfl
        | true =>
          exfalso
          rcases prefix_append_cases _ _ _ (List.isPrefixOf_iff_prefix.mp hp) with h3 | ⟨δ, hd, hxd, hdt⟩
          · exact hx (List.isPrefixOf_iff_prefix.mpr h3)
          · exact h2 x (by simp) δ hd hxd hdt
      simp only [this]
      exact ih h1 (fun y hy => h2 y (by simp [hy]))

/-- Lexing the squiggly token `c :: σ` is stable under every continuation `t` that does
not start with one of its extensions. -/
theorem lexPunct_stable (c : UInt8) (σ t : Bytes) (id : Nat)
    (hself : lexPunct c σ = some (id, σ.length + 1))
    (hext : ∀ x ∈ lexersOf c, ∀ δ, δ ≠ [] → x.1 = σ ++ δ → ¬ δ <+: t) :
    lexPunct c (σ ++ t) = some (id, σ.length + 1) := by
  unfold lexPunct at hself ⊢
  cases hsq : squiggleOf c with
  | some i => simp only [hsq] at hself ⊢; exact hself
  | none =>
    simp only [hsq] at hself ⊢
    cases hf : (lexersOf c).find? (fun x => x.1.isPrefixOf σ) with
    | none => simp [hf] at hself
    | some e =>
      simp only [hf, Option.map_some, Option.some.injEq, Prod.mk.injEq] at hself
      have hpre : e.1 <+: σ := by
        have := List.find?_some hf
        exact List.isPrefixOf_iff_prefix.mp this
      have he : e.1 = σ := by
        obtain ⟨u, hu⟩ := hpre
        have hl : e.1.length = σ.length := by omega
        have : u = [] := by
          have := congrArg List.length hu
          simp only [List.length_append] at this
          exact List.length_eq_zero_iff.mp (by omega)
        subst this
        simpa using hu
      rw [find_stable _ σ t e hf he hext]
      simp [hself.1, he]

theorem prefixes_comparable (a b t : Bytes) (ha : a <+: t) (hb : b <+: t) : a <+: b ∨ b <+: a :=
  List.prefix_or_prefix_of_prefix ha hb

/-- `render_nospace_pairs_retokenize_partial`.  Let `p` be a squiggly token and `q` what
`Render` may write directly after it (a whole squiggly token, or the first byte of a word /
number / string), the pair not being one of the listed unparseable ones.  Then for EVERY text
`t` that starts with `q`, the tokenizer, reading `p`'s text followed by `t`, produces `p`
(same ID, same length) — it neither merges `p` with the beginning of `q` nor splits differently. -/
theorem nospace_pair_lexes (p : Nat × Bytes × Nat) (hp : p ∈ punctToks) (q : Next) (hq : q ∈ allNext)
    (hns : mayNoSpace p q = true) (hbad : isBad p q = false)
    (c : UInt8) (σ : Bytes) (hp' : p.2.1 = c :: σ) (t : Bytes) (ht : q.text <+: t) (hne : q.text ≠ []) :
    lexPunct c (σ ++ t) = some (p.1, σ.length + 1) := by
  have hself := List.all_eq_true.mp punct_lexes_to_itself p hp
  have htab := List.all_eq_true.mp (List.all_eq_true.mp nospace_pairs_table p hp) q hq
  simp only [hns, hbad, Bool.not_true, Bool.false_or] at htab
  unfold selfOK at hself
  rw [hp'] at hself
  have hself' : lexPunct c σ = some (p.1, σ.length + 1) := by simpa using hself
  unfold pairOK extensions at htab
  rw [hp'] at htab
  simp only [] at htab
  cases hsq : squiggleOf c with
  | some i =>
    unfold lexPunct at hself' ⊢
    simp only [hsq] at hself' ⊢
    exact hself'
  | none =>
    apply lexPunct_stable c σ t p.1 hself'
    intro x hx δ hd hxd hdt
    simp only [hsq, List.all_eq_true, List.mem_filterMap] at htab
    have hδ : ∃ a ∈ lexersOf c, (if σ.isPrefixOf a.1 && a.1.length > σ.length then some (a.1.drop σ.length) else none) = some δ := by
      refine ⟨x, hx, ?_⟩
      have h1 : σ.isPrefixOf x.1 = true := by
        rw [List.isPrefixOf_iff_prefix, hxd]; exact List.prefix_append σ δ
      have h2 : x.1.length > σ.length := by
        rw [hxd, List.length_append]
        have : δ.length ≠ 0 := fun h => hd (List.length_eq_zero_iff.mp h)
        omega
      simp [hxd, hd]
    have hc := htab δ hδ
    unfold compatible at hc
    by_cases hw : q.whole = true
    · simp only [hw, ↓reduceIte, Bool.not_eq_eq_eq_not, Bool.not_true, Bool.or_eq_false_iff] at hc
      rcases prefixes_comparable _ _ _ hdt ht with h | h
      · have := List.isPrefixOf_iff_prefix.mpr h; rw [this] at hc; simp at hc
      · have := List.isPrefixOf_iff_prefix.mpr h; rw [this] at hc; simp at hc
    · simp only [hw, Bool.false_eq_true, ↓reduceIte, Bool.not_eq_eq_eq_not, Bool.not_true,
        beq_eq_false_iff_ne, ne_eq] at hc
      apply hc
      obtain ⟨u, hu⟩ := hdt
      obtain ⟨v, hv⟩ := ht
      cases δ with
      | nil => exact absurd rfl hd
      | cons d ds =>
        cases hqt : q.text with
        | nil => exact absurd hqt hne
        | cons e es =>
          rw [hqt] at hv
          rw [← hu] at hv
          simp only [List.cons_append, List.cons.injEq] at hv
          simp [hv.1]

end WuffsVerif.Render
