/-
C12, the Wuffs formatter, idempotence (`render_idempotent`), part 1: a token read back from
`Render`'s output is in the same class as the source token (same ID, same first byte — hence the
same flags and the same decisions of `Render`), and `Render` writes the same text for it
(`numOut` is idempotent); the indentation bookkeeping of `renderToks` as a function of its own
(`lineIndent`).  Core Lean only.
-/
import WuffsVerif.Proof.RenderClosure
import WuffsVerif.Proof.RenderNumIdem

namespace WuffsVerif.Render
open WuffsVerif.FmtToken WuffsVerif.Gen.C12

/-! ### a number keeps its ID -/

/-- built-in token texts that start with a digit ("0") are one byte long (regenerated table;
kernel-checked) -/
theorem builtin_digit_single :
    builtins.all (fun b => match b.2.1 with | c :: r => !numeric c || r.isEmpty | [] => true) = true := by
  decide +kernel

/-- a one-digit literal is written as it is -/
theorem numOut_single : ∀ c : UInt8, numeric c = true → numOut [c] = [c] := by
  apply byte_forall; decide +kernel

theorem groupDigits_nil (g : Nat) : ∀ (s : Bytes) (d : Nat), groupDigits g d s = [] → ∀ x ∈ s, x = 95 := by
  intro s
  induction s with
  | nil => intro _ _ x hx; simp at hx
  | cons c cs ih =>
    intro d h x hx
    rw [groupDigits_eq] at h
    by_cases hu : (c == USCORE) = true
    · simp only [hu, ↓reduceIte] at h
      rcases List.mem_cons.mp hx with rfl | hx
      · simpa [USCORE] using hu
      · exact ih d h x hx
    · simp only [hu, Bool.false_eq_true, ↓reduceIte] at h
      split at h <;> simp at h

theorem checkNU_go_underscores : ∀ (s : Bytes), s ≠ [] → (∀ x ∈ s, x = 95) → ∀ prev,
    checkNumericUnderscores.go prev s = false := by
  intro s
  induction s with
  | nil => intro h; exact absurd rfl h
  | cons c cs ih =>
    intro _ hall prev
    have hc : c = 95 := hall c (by simp)
    subst hc
    rw [checkNumericUnderscores.go]
    cases prev with
    | true => simp
    | false =>
      simp only [Bool.false_and, Bool.false_eq_true, ↓reduceIte, beq_self_eq_true]
      cases cs with
      | nil => rw [checkNumericUnderscores.go]; rfl
      | cons d ds => exact ih (by simp) (fun x hx => hall x (by simp [hx])) true

/-- a literal that `Render` writes as one byte is that byte -/
theorem numOut_length_one (s : Bytes) (h : wfNumText s = true) (h1 : (numOut s).length = 1) : numOut s = s := by
  cases s with
  | nil => simp [wfNumText] at h
  | cons c σ =>
    obtain ⟨_, hnu, hc, _⟩ := wfNumText_cons h
    cases σ with
    | nil => exact numOut_single c hc
    | cons p rest =>
      exfalso
      obtain ⟨_, _, _, _, h95⟩ := numeric_facts c hc
      rw [checkNU_cons c _ h95] at hnu
      unfold numOut at h1
      simp only at h1
      split at h1
      · simp at h1
      · have hgb : (groupBody 6 (c :: p :: rest)).length = 1 → False := by
          intro hl
          obtain ⟨d, hd⟩ := groupBody_cons_numeric 6 (by decide) c (p :: rest) hc
          rw [hd] at hl
          simp only [List.length_cons, Nat.add_eq_right, List.length_eq_zero_iff] at hl
          have := checkNU_go_underscores (p :: rest) (by simp) (groupDigits_nil 6 _ d hl) false
          rw [this] at hnu
          exact absurd hnu (by simp)
        unfold appendNum at h1
        split at h1
        · split at h1
          · simp at h1
          · split at h1
            · simp at h1
            · rename_i heq _ _
              simp only [List.cons.injEq] at heq
              obtain ⟨rfl, rfl, rfl⟩ := heq
              exact hgb h1
        · exact hgb h1

/-- the text `Render` writes for a numeric literal is interned to the literal's ID -/
theorem intern_numOut (s : Bytes) (c : UInt8) (σ σ' : Bytes) (h : wfNumText s = true) (hs : s = c :: σ)
    (hx : numOut s = c :: σ') (hc : numeric c = true) : (intern (numOut s)).1 = (intern s).1 := by
  have hsingle : ∀ (y : Bytes) (τ : Bytes) (r : Nat × Nat), y = c :: τ → builtinByName y = some r → τ = [] := by
    intro y τ r hy hb
    obtain ⟨b, hbm, hbt, _, _⟩ := builtinByName_sound hb
    have hf := List.all_eq_true.mp builtin_digit_single b hbm
    rw [hbt, hy] at hf
    simpa [hc] using hf
  cases hb : builtinByName s with
  | some r =>
    have : σ = [] := hsingle s σ r hs hb
    subst this
    rw [hs, numOut_single c hc]
  | none =>
    cases hb' : builtinByName (numOut s) with
    | some r' =>
      exfalso
      have : σ' = [] := hsingle _ σ' r' hx hb'
      subst this
      have hl : (numOut s).length = 1 := by rw [hx]; rfl
      rw [numOut_length_one s h hl, hb] at hb'
      exact absurd hb' (by simp)
    | none =>
      unfold intern
      rw [hb, hb', hx, hs]

/-- a well-formed token whose text starts with a digit is a numeric literal -/
theorem wfTok_numeric {t : Tok} (h : wfTok t = true) (c : UInt8) (σ : Bytes) (htxt : t.text = c :: σ)
    (hc : numeric c = true) : wfNumText t.text = true ∧ wfPunct t = false := by
  cases hp : wfPunct t with
  | true =>
    exfalso
    obtain ⟨e, he, _, het⟩ := wfPunct_entry hp
    obtain ⟨_, _, c', σ', hc', _, _, _, hnum, _⟩ := punct_facts he
    rw [het, htxt] at hc'
    simp only [List.cons.injEq] at hc'
    rw [← hc'.1, hc] at hnum
    exact absurd hnum (by simp)
  | false =>
    refine ⟨?_, rfl⟩
    have hpl : wfPlain t = true := by unfold wfTok at h; rw [hp] at h; simpa using h
    unfold wfPlain at hpl
    rw [Bool.and_eq_true, Bool.or_eq_true, Bool.or_eq_true] at hpl
    rcases hpl.1 with (hw | hn) | hs
    · rw [htxt] at hw
      unfold wfWordText at hw
      rw [Bool.and_eq_true, Bool.and_eq_true] at hw
      rw [(alpha_not_numeric c hw.1.1).1] at hc
      exact absurd hc (by simp)
    · exact hn
    · rw [htxt] at hs
      unfold wfStrText at hs
      rw [Bool.and_eq_true] at hs
      have h2 := hs.2
      simp only at h2
      have hq : (c == 34 || c == 39) = true := by
        by_cases h1 : (c == 34) = true
        · simp [h1]
        · by_cases h3 : (c == 39) = true
          · simp [h3]
          · simp [h1, h3] at h2
      rw [quote_not_numeric c hq] at hc
      exact absurd hc (by simp)

/-- the token read back has the ID of the source token -/
theorem retok_id {t : Tok} (h : wfTok t = true) (l : Nat) : (retok l t).id = t.id := by
  unfold retok retokId
  cases hp : wfPunct t with
  | true => simp
  | false =>
    simp only [Bool.false_eq_true, ↓reduceIte]
    have hpl : wfPlain t = true := by unfold wfTok at h; rw [hp] at h; simpa using h
    obtain ⟨c, σ, htxt, _⟩ := wfPlain_head hpl
    have hid : t.id = (intern t.text).1 := by
      unfold wfPlain at hpl
      rw [Bool.and_eq_true] at hpl
      simpa using hpl.2
    cases hc : numeric c with
    | false => rw [tokText_not_numeric t c σ htxt hc, hid]
    | true =>
      obtain ⟨c', σ', htt, hh⟩ := tokText_ne_nil h
      have hcc : c' = c := by rw [htxt] at hh; simpa using hh.symm
      subst hcc
      have hn := (wfTok_numeric h c' σ htxt hc).1
      have hto : tokText t = numOut t.text := tokText_numeric t c' σ htxt hc
      rw [hto] at htt ⊢
      rw [intern_numOut t.text c' σ σ' hn htxt htt hc, hid]

/-- what `Render` writes for the token read back is what it wrote for the source token -/
theorem tokText_retok {t : Tok} (h : wfTok t = true) (l : Nat) : tokText (retok l t) = tokText t := by
  obtain ⟨c', σ', htt, hh⟩ := tokText_ne_nil h
  cases htxt : t.text with
  | nil => rw [htxt] at hh; simp at hh
  | cons c σ =>
    have hcc : c' = c := by rw [htxt] at hh; simpa using hh.symm
    subst hcc
    have hrt : (retok l t).text = c' :: σ' := htt
    cases hc : numeric c' with
    | false => rw [tokText_not_numeric (retok l t) c' σ' hrt hc]; rfl
    | true =>
      rw [tokText_numeric (retok l t) c' σ' hrt hc]
      show numOut (tokText t) = tokText t
      rw [tokText_numeric t c' σ htxt hc]
      exact numOut_idempotent t.text (wfTok_numeric h c' σ htxt hc).1

/-! ### classes of tokens -/

/-- same ID and same first byte: all of `Render`'s decisions about the two tokens agree -/
def SameClass (a b : Tok) : Prop := b.id = a.id ∧ b.text.head? = a.text.head?

theorem retok_sameClass {t : Tok} (h : wfTok t = true) (l : Nat) : SameClass t (retok l t) :=
  ⟨retok_id h l, tokText_head h⟩

theorem rawtok_sameClass (t : Tok) (l : Nat) : SameClass t (rawtok l t) := ⟨rfl, rfl⟩

theorem SameClass.flags {a b : Tok} (h : SameClass a b) : tokFlags b = tokFlags a := by
  obtain ⟨h1, h2⟩ := h
  unfold tokFlags
  rw [h1]
  cases ha : a.text with
  | nil =>
    cases hb : b.text with
    | nil => rfl
    | cons d δ => rw [ha, hb] at h2; simp at h2
  | cons c σ =>
    cases hb : b.text with
    | nil => rw [ha, hb] at h2; simp at h2
    | cons d δ =>
      rw [ha, hb] at h2
      simp only [List.head?_cons, Option.some.injEq] at h2
      subst h2
      rfl

theorem SameClass.isClose {a b : Tok} (h : SameClass a b) : b.isClose = a.isClose := by
  unfold Tok.isClose; rw [h.flags]
theorem SameClass.isTightLeft {a b : Tok} (h : SameClass a b) : b.isTightLeft = a.isTightLeft := by
  unfold Tok.isTightLeft; rw [h.flags]
theorem SameClass.isTightRight {a b : Tok} (h : SameClass a b) : b.isTightRight = a.isTightRight := by
  unfold Tok.isTightRight; rw [h.flags]
theorem SameClass.isUnaryAndBinary {a b : Tok} (h : SameClass a b) : b.isUnaryAndBinary = a.isUnaryAndBinary := by
  unfold Tok.isUnaryAndBinary; rw [h.flags]
theorem SameClass.isIdent {a b : Tok} (h : SameClass a b) : b.isIdent = a.isIdent := by
  unfold Tok.isIdent; rw [h.flags]
theorem SameClass.isLiteral {a b : Tok} (h : SameClass a b) : b.isLiteral = a.isLiteral := by
  unfold Tok.isLiteral; rw [h.flags]
theorem SameClass.isDQStr {a b : Tok} (h : SameClass a b) : b.isDQStr = a.isDQStr := by
  unfold Tok.isDQStr; rw [h.1, h.2]
theorem SameClass.isSQStr {a b : Tok} (h : SameClass a b) : b.isSQStr = a.isSQStr := by
  unfold Tok.isSQStr; rw [h.1, h.2]

theorem SameClass.closeIdentLiteral {a b : Tok} (h : SameClass a b) :
    isCloseIdentLiteral b = isCloseIdentLiteral a := by
  unfold isCloseIdentLiteral; rw [h.isClose, h.isIdent, h.isLiteral]

theorem SameClass.closeIdentStr {a b : Tok} (h : SameClass a b) :
    isCloseIdentStrLiteralQuestion b = isCloseIdentStrLiteralQuestion a := by
  unfold isCloseIdentStrLiteralQuestion; rw [h.isClose, h.isIdent, h.isDQStr, h.isSQStr, h.1]

theorem needSpace_congr {p p' t t' : Tok} (hp : SameClass p p') (ht : SameClass t t') (tr : Bool) :
    needSpace p' tr t' = needSpace p tr t := by
  unfold needSpace; rw [hp.1, ht.1, ht.isTightLeft, hp.closeIdentStr]

/-- the relation between the previous tokens of the two runs -/
def PrevRel (prev prev' : Option Tok) : Prop :=
  match prev, prev' with
  | none, none => True
  | some p, some p' => SameClass p p'
  | _, _ => False

theorem nextTr_congr {prev prev' : Option Tok} {t t' : Tok} (hp : PrevRel prev prev') (ht : SameClass t t') :
    nextTr prev' t' = nextTr prev t := by
  unfold nextTr
  cases prev with
  | none =>
    cases prev' with
    | none => simp only; rw [ht.isTightRight]
    | some p' => exact absurd hp (by simp [PrevRel])
  | some p =>
    cases prev' with
    | none => exact absurd hp (by simp [PrevRel])
    | some p' =>
      have hp' : SameClass p p' := hp
      simp only
      rw [ht.isUnaryAndBinary, hp'.closeIdentLiteral, ht.isTightRight]

theorem sepOf_congr {prev prev' : Option Tok} {t t' : Tok} (hp : PrevRel prev prev') (ht : SameClass t t')
    (tr : Bool) : sepOf prev' tr t' = sepOf prev tr t := by
  unfold sepOf
  cases prev with
  | none =>
    cases prev' with
    | none => rfl
    | some p' => exact absurd hp (by simp [PrevRel])
  | some p =>
    cases prev' with
    | none => exact absurd hp (by simp [PrevRel])
    | some p' =>
      have hp' : SameClass p p' := hp
      simp only
      rw [needSpace_congr hp' ht]

/-- the tokens read back are written as the source tokens were -/
theorem lineBody_retok (l : Nat) : ∀ (ts : List Tok) (prev prev' : Option Tok) (tr : Bool),
    (∀ t ∈ ts, wfTok t = true) → PrevRel prev prev' →
    lineBody prev' tr (ts.map (retok l)) = lineBody prev tr ts := by
  intro ts
  induction ts with
  | nil => intro _ _ _ _ _; rfl
  | cons t ts ih =>
    intro prev prev' tr hwf hp
    have ht : wfTok t = true := hwf t (by simp)
    have hc := retok_sameClass ht l
    rw [List.map_cons, lineBody, lineBody, sepOf_congr hp hc, tokText_retok ht, nextTr_congr hp hc]
    rw [ih (some t) (some (retok l t)) _ (fun x hx => hwf x (by simp [hx])) hc]

theorem namesBytes_raw (l : Nat) (names : List Tok) : namesBytes (names.map (rawtok l)) = namesBytes names := by
  unfold namesBytes
  induction names with
  | nil => rfl
  | cons t ts ih => simp only [List.map_cons, List.flatMap_cons, ih]; rfl

/-! ### the indentation bookkeeping of `renderToks` -/

/-- `indent++` at "{", `indent--` at "}" (`none`: too many) -/
def indentStep (i : Nat) (tok : Tok) : Option Nat :=
  if tok.id == idOpenCurly then (if i == maxIndent then none else some (i + 1))
  else if tok.id == idCloseCurly then (if i == 0 then none else some (i - 1))
  else some i

def lineIndent (i : Nat) : List Tok → Option Nat
  | [] => some i
  | t :: ts => match indentStep i t with
    | none => none
    | some i' => lineIndent i' ts

theorem renderTok_indent (a : LineAcc) (tok : Tok) :
    (renderTok a tok).map (·.indent) = indentStep a.indent tok := by
  unfold renderTok indentStep
  simp only
  generalize (if (tok.id == idOpenCurly) = true then (if (a.indent == maxIndent) = true then none else some (a.indent + 1))
    else if (tok.id == idCloseCurly) = true then (if (a.indent == 0) = true then none else some (a.indent - 1))
    else some a.indent : Option Nat) = o
  cases o <;> rfl

theorem renderToks_indent : ∀ (ts : List Tok) (a : LineAcc),
    (renderToks a ts).map (·.indent) = lineIndent a.indent ts := by
  intro ts
  induction ts with
  | nil => intro a; rfl
  | cons t ts ih =>
    intro a
    rw [renderToks, lineIndent, ← renderTok_indent a t]
    cases h : renderTok a t with
    | none => rfl
    | some a' => simp only [Option.map_some]; exact ih a'

theorem lineIndent_congr : ∀ (ts ts' : List Tok) (i : Nat), ts'.map (·.id) = ts.map (·.id) →
    lineIndent i ts' = lineIndent i ts := by
  intro ts
  induction ts with
  | nil =>
    intro ts' i h
    cases ts' with
    | nil => rfl
    | cons a as => simp at h
  | cons t ts ih =>
    intro ts' i h
    cases ts' with
    | nil => simp at h
    | cons a as =>
      simp only [List.map_cons, List.cons.injEq] at h
      have e : indentStep i a = indentStep i t := by unfold indentStep; rw [h.1]
      rw [lineIndent, lineIndent, e]
      cases indentStep i t with
      | none => rfl
      | some i' => exact ih as i' h.2

theorem map_id_retok (l : Nat) (ts : List Tok) (hwf : ∀ t ∈ ts, wfTok t = true) :
    (ts.map (retok l)).map (·.id) = ts.map (·.id) := by
  induction ts with
  | nil => rfl
  | cons t ts ih =>
    simp only [List.map_cons, List.cons.injEq]
    exact ⟨retok_id (hwf t (by simp)) l, ih (fun x hx => hwf x (by simp [hx]))⟩

theorem map_id_raw (l : Nat) (ts : List Tok) : (ts.map (rawtok l)).map (·.id) = ts.map (·.id) := by
  induction ts with
  | nil => rfl
  | cons t ts ih => simp only [List.map_cons, ih]; rfl

end WuffsVerif.Render
