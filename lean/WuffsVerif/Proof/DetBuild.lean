/-
Helper lemmas for C20's build-tool and release-assembly models
(Model/DetBuild.lean, Model/DetRelease.lean).  Core Lean only.
-/
import WuffsVerif.Model.DetBuild
import WuffsVerif.Model.DetRelease
import WuffsVerif.Proof.Det

namespace WuffsVerif.Det
open List

/-- main.go listDir gives the same lists for every enumeration of the directory -/
theorem listDir_perm (dir suffix : Name) (rs : Bool) {infos₁ infos₂ : List DirEntry}
    (h : infos₁ ~ infos₂) : listDir dir suffix rs infos₁ = listDir dir suffix rs infos₂ := by
  unfold listDir
  simp only [appendDir_eq, nil_append]
  rw [sortNames_perm_invariant ((h.filter _).map _), sortNames_perm_invariant ((h.filter _).map _)]

/-! ### "same up to order, or both failed" -/

/-- two optional lists: both absent, or both present and permutations of each other -/
def ORel {α : Type} : Option (List α) → Option (List α) → Prop
  | none, none => True
  | some x, some y => x ~ y
  | _, _ => False

theorem ORel.refl {α : Type} : ∀ a : Option (List α), ORel a a
  | none => trivial
  | some _ => Perm.refl _

theorem ORel.trans {α : Type} : ∀ {a b c : Option (List α)}, ORel a b → ORel b c → ORel a c
  | none, none, none, _, _ => trivial
  | some _, some _, some _, h1, h2 => Perm.trans h1 h2
  | none, some _, _, h, _ => h.elim
  | some _, none, _, h, _ => h.elim
  | none, none, some _, _, h => h.elim
  | some _, some _, none, _, h => h.elim

/-- two file systems that hold the same entries in every directory, enumerated in
possibly different orders -/
def FSRel (fs₁ fs₂ : FS) : Prop := ∀ p, ORel (fs₁ p) (fs₂ p)

theorem FSRel.refl (fs : FS) : FSRel fs fs := fun p => ORel.refl (fs p)

/-! ### findFiles1 without the accumulator -/

/-- all-or-nothing concatenation of per-item results -/
def gatherO {β : Type} (g : β → Option (List Name)) : List β → Option (List Name)
  | [] => some []
  | d :: ds =>
    match g d, gatherO g ds with
    | some a, some b => some (a ++ b)
    | _, _ => none

/-- what findFiles1 finds below `dir` (in discovery order) -/
def collect (fs : FS) (suffix : Name) : Nat → Name → Option (List Name)
  | 0, _ => none
  | fuel + 1, dir =>
    match fs dir with
    | none => none
    | some infos =>
      let r := appendDir [] dir suffix true infos
      (gatherO (fun d => collect fs suffix fuel (joinPath dir d)) r.2).map (r.1 ++ ·)

theorem foldl_opt_none {σ β : Type} (step : σ → β → Option σ) (l : List β) :
    l.foldl (fun (acc : Option σ) d => acc.bind (fun s => step s d)) none = none := by
  induction l with
  | nil => rfl
  | cons x xs ih => simpa using ih

theorem foldl_gather {β : Type} (step : List Name → β → Option (List Name)) (g : β → Option (List Name))
    (h : ∀ dst x, step dst x = (g x).map (dst ++ ·)) (ds : List β) (init : List Name) :
    ds.foldl (fun (acc : Option (List Name)) d => acc.bind (fun dst => step dst d)) (some init)
      = (gatherO g ds).map (init ++ ·) := by
  induction ds generalizing init with
  | nil => simp [gatherO]
  | cons d ds ih =>
    rw [foldl_cons, Option.bind_some, h init d]
    cases hg : g d with
    | none =>
      rw [Option.map_none, foldl_opt_none step ds]
      simp [gatherO, hg]
    | some a =>
      rw [Option.map_some, ih]
      cases hgs : gatherO g ds <;> simp [gatherO, hg, hgs, append_assoc]

theorem findFiles1_eq (fs : FS) (suffix : Name) : ∀ (fuel : Nat) (dst : List Name) (dir : Name),
    findFiles1 fs suffix fuel dst dir = (collect fs suffix fuel dir).map (dst ++ ·)
  | 0, _, _ => rfl
  | fuel + 1, dst, dir => by
    unfold findFiles1 collect
    cases hfs : fs dir with
    | none => rfl
    | some infos =>
      simp only [appendDir_eq, nil_append]
      rw [foldl_gather _ (fun d => collect fs suffix fuel (joinPath dir d))
        (fun dst x => findFiles1_eq fs suffix fuel dst (joinPath dir x))]
      cases gatherO (fun d => collect fs suffix fuel (joinPath dir d))
        (map (fun x => x.name) (filter (fun o => o.isDir && true) infos)) <;> simp [append_assoc]

/-! ### … does not depend on the enumeration orders -/

theorem gatherO_congr {β : Type} (g₁ g₂ : β → Option (List Name)) (h : ∀ d, ORel (g₁ d) (g₂ d)) :
    ∀ ds : List β, ORel (gatherO g₁ ds) (gatherO g₂ ds)
  | [] => Perm.refl _
  | d :: ds => by
    have ih := gatherO_congr g₁ g₂ h ds
    have hd := h d
    unfold gatherO
    cases h1 : g₁ d <;> cases h2 : g₂ d <;> rw [h1, h2] at hd <;>
      cases h3 : gatherO g₁ ds <;> cases h4 : gatherO g₂ ds <;> rw [h3, h4] at ih <;>
      first
        | exact hd.elim
        | exact ih.elim
        | trivial
        | exact Perm.append hd ih

theorem gatherO_perm {β : Type} (g : β → Option (List Name)) {ds₁ ds₂ : List β} (h : ds₁ ~ ds₂) :
    ORel (gatherO g ds₁) (gatherO g ds₂) := by
  induction h with
  | nil => exact Perm.refl _
  | @cons x l₁ l₂ _ ih =>
    unfold gatherO
    cases g x <;> cases h3 : gatherO g l₁ <;> cases h4 : gatherO g l₂ <;> rw [h3, h4] at ih <;>
      first
        | exact ih.elim
        | trivial
        | exact Perm.append (Perm.refl _) ih
  | swap x y l =>
    simp only [gatherO]
    cases g x <;> cases g y <;> cases gatherO g l <;>
      first
        | trivial
        | (simp only [ORel]
           rw [← append_assoc, ← append_assoc]
           exact Perm.append (perm_append_comm) (Perm.refl _))
  | trans _ _ ih1 ih2 => exact ORel.trans ih1 ih2

theorem ORel.map_append {a b : Option (List Name)} {x y : List Name} (hxy : x ~ y) (h : ORel a b) :
    ORel (a.map (x ++ ·)) (b.map (y ++ ·)) := by
  cases a <;> cases b
  · trivial
  · exact h.elim
  · exact h.elim
  · exact Perm.append hxy h

theorem collect_rel {fs₁ fs₂ : FS} (h : FSRel fs₁ fs₂) (suffix : Name) : ∀ (fuel : Nat) (dir : Name),
    ORel (collect fs₁ suffix fuel dir) (collect fs₂ suffix fuel dir)
  | 0, _ => trivial
  | fuel + 1, dir => by
    have hd := h dir
    unfold collect
    cases h1 : fs₁ dir <;> cases h2 : fs₂ dir <;> rw [h1, h2] at hd
    · trivial
    · exact hd.elim
    · exact hd.elim
    · rename_i i₁ i₂
      have hp : i₁ ~ i₂ := hd
      simp only [appendDir_eq, nil_append]
      apply ORel.map_append ((hp.filter _).map _)
      exact ORel.trans
        (gatherO_perm (fun d => collect fs₁ suffix fuel (joinPath dir d)) ((hp.filter _).map _))
        (gatherO_congr _ _ (fun d => collect_rel h suffix fuel (joinPath dir d)) _)

/-! ### invariants through the option-accumulating folds of gen.go -/

theorem foldl_opt_inv {σ β : Type} (P : σ → Prop) (step : σ → β → Option σ)
    (hstep : ∀ s x s', P s → step s x = some s' → P s') :
    ∀ (l : List β) (s0 s' : σ), P s0 →
      l.foldl (fun (acc : Option σ) d => acc.bind (fun s => step s d)) (some s0) = some s' → P s'
  | [], s0, s', h0, h => by
    simp only [foldl_nil, Option.some.injEq] at h
    exact h ▸ h0
  | x :: xs, s0, s', h0, h => by
    rw [foldl_cons, Option.bind_some] at h
    cases hs : step s0 x with
    | none => rw [hs, foldl_opt_none] at h; cases h
    | some s1 =>
      rw [hs] at h
      exact foldl_opt_inv P step hstep xs s1 s' (hstep s0 x s1 h0 hs) h

/-! ### association lists with byte-string keys, read through lookups only -/

theorem lookup_of_mem' {β : Type} : ∀ (m : List (Name × β)), (m.map (·.1)).Nodup → ∀ k v, (k, v) ∈ m → List.lookup k m = some v
  | [], _, _, _, h => by simp at h
  | (k', v') :: rest, hn, k, v, h => by
    simp only [map_cons, nodup_cons] at hn
    by_cases hk : k = k'
    · subst hk
      simp only [mem_cons, Prod.mk.injEq, true_and] at h
      rcases h with rfl | h
      · simp [List.lookup]
      · exact absurd (mem_map_of_mem (f := (·.1)) h) hn.1
    · have : (k, v) ∈ rest := by
        simp only [mem_cons, Prod.mk.injEq] at h
        rcases h with ⟨h1, _⟩ | h
        · exact absurd h1 hk
        · exact h
      have hb : (k == k') = false := by simpa using hk
      simp only [List.lookup, hb]
      exact lookup_of_mem' rest hn.2 k v this

theorem lookup_none_of_not_mem' {β : Type} : ∀ (m : List (Name × β)) k, k ∉ m.map (·.1) → List.lookup k m = none
  | [], _, _ => rfl
  | (k', v') :: rest, k, h => by
    simp only [map_cons, mem_cons, not_or] at h
    have hb : (k == k') = false := by simpa using h.1
    simp only [List.lookup, hb]
    exact lookup_none_of_not_mem' rest k h.2

theorem lookup_perm_invariant' {β : Type} {m₁ m₂ : List (Name × β)} (hn : (m₁.map (·.1)).Nodup) (h : m₁ ~ m₂) (k : Name) :
    List.lookup k m₁ = List.lookup k m₂ := by
  have hn2 : (m₂.map (·.1)).Nodup := (Perm.nodup_iff (h.map _)).mp hn
  by_cases hk : k ∈ m₁.map (·.1)
  · obtain ⟨⟨k', v⟩, hmem, rfl⟩ := mem_map.mp hk
    rw [lookup_of_mem' m₁ hn k' v hmem, lookup_of_mem' m₂ hn2 k' v (h.mem_iff.mp hmem)]
  · have hk2 : k ∉ m₂.map (·.1) := fun h' => hk ((h.map (·.1)).mem_iff.mpr h')
    rw [lookup_none_of_not_mem' m₁ k hk, lookup_none_of_not_mem' m₂ k hk2]

end WuffsVerif.Det
