/-
C07 helper, part 7, MODULE Y: the counting sort of `init_huff` ("Calculate symbols"): `huffSymbols` places the
coded symbols in (length, symbol) order, i.e. produces `sortedSyms lens`.
Core Lean only.
-/
import WuffsVerif.Proof.StdDeflateDynDefs

namespace WuffsVerif.StdDeflate
open WuffsVerif.Flate.Spec (symsOfLen countLen)

namespace Y

/-- `symsOfLen` on a list -/
def symsL (l : List Nat) (L : Nat) : List Nat := (l.zipIdx.filter (fun p => p.1 = L)).map (·.2)

theorem symsOfLen_eq (lens : Array Nat) (L : Nat) : symsOfLen lens L = symsL lens.toList L := rfl

theorem symsL_concat (l : List Nat) (a L : Nat) :
    symsL (l ++ [a]) L = symsL l L ++ (if a = L then [l.length] else []) := by
  unfold symsL
  rw [List.zipIdx_append, List.filter_append, List.map_append]
  by_cases h : a = L <;> simp [h]

theorem foldl_count_acc (l : List Nat) (L acc : Nat) :
    l.foldl (fun acc x => if x = L then acc + 1 else acc) acc =
      acc + l.foldl (fun acc x => if x = L then acc + 1 else acc) 0 := by
  induction l generalizing acc with
  | nil => simp
  | cons x xs ih =>
    simp only [List.foldl_cons]
    rw [ih, ih (if x = L then 0 + 1 else 0)]
    by_cases h : x = L <;> simp [h] <;> omega

theorem symsL_length_aux (l : List Nat) (L k : Nat) :
    ((l.zipIdx k).filter (fun p => p.1 = L)).length =
      l.foldl (fun acc x => if x = L then acc + 1 else acc) 0 := by
  induction l generalizing k with
  | nil => simp
  | cons x xs ih =>
    simp only [List.zipIdx_cons, List.foldl_cons]
    rw [foldl_count_acc]
    by_cases h : x = L
    · simp [h, ih]; omega
    · simp [h, ih]

theorem symsOfLen_length (lens : Array Nat) (L : Nat) : (symsOfLen lens L).length = countLen lens L := by
  unfold symsOfLen countLen
  rw [List.length_map]
  exact symsL_length_aux _ _ _

theorem symsL_length (lens : Array Nat) (L : Nat) : (symsL lens.toList L).length = countLen lens L :=
  symsOfLen_length lens L

/-- the number of occurrences in a prefix is at most that in the whole list -/
theorem symsL_take_le (l : List Nat) (m L : Nat) : (symsL (l.take m) L).length ≤ (symsL l L).length := by
  have h : symsL l L = symsL (l.take m ++ l.drop m) L := by rw [List.take_append_drop]
  rw [h]
  unfold symsL
  rw [List.zipIdx_append, List.filter_append, List.map_append, List.length_append]
  omega

/-! ### `idxOf` -/

theorem idxOf_one (lens : Array Nat) : idxOf lens 1 = 0 := by simp [idxOf]

theorem idxOf_succ (lens : Array Nat) (L : Nat) (h : 1 ≤ L) :
    idxOf lens (L + 1) = idxOf lens L + countLen lens L := by
  unfold idxOf
  obtain ⟨k, rfl⟩ : ∃ k, L = k + 1 := ⟨L - 1, by omega⟩
  simp only [Nat.add_sub_cancel]
  rw [List.range'_concat, List.map_append, List.sum_append]
  simp [Nat.add_comm]

theorem idxOf_mono (lens : Array Nat) (a b : Nat) (ha : 1 ≤ a) (h : a ≤ b) : idxOf lens a ≤ idxOf lens b := by
  induction b with
  | zero => omega
  | succ n ih =>
    by_cases hn : a = n + 1
    · subst hn; exact Nat.le_refl _
    · have := ih (by omega)
      rw [idxOf_succ lens n (by omega)]; omega

theorem length_flatMap_idx (lens : Array Nat) (n : Nat) :
    ((List.range' 1 n).flatMap (symsOfLen lens)).length = idxOf lens (n + 1) := by
  induction n with
  | zero => simp [idxOf_one]
  | succ n ih =>
    rw [List.range'_concat, List.flatMap_append, List.length_append, ih, idxOf_succ lens (n + 1) (by omega)]
    simp [symsOfLen_length, Nat.add_comm]

theorem nOf_eq (lens : Array Nat) : nOf lens = idxOf lens 16 := by
  unfold nOf sortedSyms
  exact length_flatMap_idx lens 15

theorem flatMap_idx (lens : Array Nat) (n L r : Nat) (h1 : 1 ≤ L) (hL : L ≤ n) (hr : r < countLen lens L) :
    ((List.range' 1 n).flatMap (symsOfLen lens))[idxOf lens L + r]? = (symsOfLen lens L)[r]? := by
  induction n with
  | zero => omega
  | succ n ih =>
    rw [List.range'_concat, List.flatMap_append]
    by_cases hn : L = n + 1
    · subst hn
      rw [List.getElem?_append_right (by rw [length_flatMap_idx]; omega), length_flatMap_idx]
      simp [Nat.add_comm 1 n]
    · have hlt : idxOf lens L + r < idxOf lens (n + 1) := by
        have := idxOf_mono lens (L + 1) (n + 1) (by omega) (by omega)
        rw [idxOf_succ lens L h1] at this; omega
      rw [List.getElem?_append_left (by rw [length_flatMap_idx]; exact hlt)]
      exact ih (by omega)

theorem syOf_idx (lens : Array Nat) (L r : Nat) (h1 : 1 ≤ L) (hL : L ≤ 15) (hr : r < countLen lens L) :
    syOf lens (idxOf lens L + r) = (symsOfLen lens L).getD r 0 := by
  unfold syOf sortedSyms
  rw [List.getD_eq_getElem?_getD, List.getD_eq_getElem?_getD]
  show ((List.range' 1 15).flatMap (symsOfLen lens))[idxOf lens L + r]?.getD 0 = _
  rw [flatMap_idx lens 15 L r h1 hL hr]

/-- every position of the sorted list lies in exactly one length class -/
theorem idx_decomp (lens : Array Nat) (n t : Nat) (ht : t < idxOf lens (n + 1)) :
    ∃ L r, 1 ≤ L ∧ L ≤ n ∧ r < countLen lens L ∧ t = idxOf lens L + r := by
  induction n with
  | zero => rw [idxOf_one] at ht; omega
  | succ n ih =>
    by_cases h : t < idxOf lens (n + 1)
    · obtain ⟨L, r, h1, h2, h3, h4⟩ := ih h
      exact ⟨L, r, h1, by omega, h3, h4⟩
    · rw [idxOf_succ lens (n + 1) (by omega)] at ht
      exact ⟨n + 1, t - idxOf lens (n + 1), by omega, by omega, by omega, by omega⟩

theorem tot_succ (f : Nat → List Nat) (n : Nat) :
    ((List.range' 1 (n + 1)).flatMap f).length = ((List.range' 1 n).flatMap f).length + (f (n + 1)).length := by
  rw [List.range'_concat, List.flatMap_append, List.length_append]
  simp only [List.flatMap_cons, List.flatMap_nil, List.append_nil]
  rw [Nat.one_mul, Nat.add_comm 1 n]

theorem tot_concat (l : List Nat) (a n : Nat) :
    ((List.range' 1 n).flatMap (symsL (l ++ [a]))).length =
      ((List.range' 1 n).flatMap (symsL l)).length + (if 1 ≤ a ∧ a ≤ n then 1 else 0) := by
  induction n with
  | zero => rw [if_neg (by omega)]; rfl
  | succ n ihn =>
    rw [tot_succ, tot_succ, ihn, symsL_concat, List.length_append]
    by_cases h1 : a = n + 1
    · rw [if_pos h1, if_neg (by omega), if_pos (by omega)]; simp; omega
    · by_cases h2 : 1 ≤ a ∧ a ≤ n
      · rw [if_neg h1, if_pos h2, if_pos (by omega)]; simp; omega
      · rw [if_neg h1, if_neg h2, if_neg (by omega)]; simp

theorem tot_le (l0 : List Nat) (n : Nat) : ((List.range' 1 n).flatMap (symsL l0)).length ≤ l0.length := by
  rw [← List.reverse_reverse l0]
  generalize l0.reverse = l1
  induction l1 with
  | nil =>
    induction n with
    | zero => simp
    | succ n ih => rw [tot_succ]; simpa [symsL] using ih
  | cons a l1 ih =>
    rw [List.reverse_cons, tot_concat, List.length_append, List.length_singleton]
    split <;> omega

/-- there are at most as many coded symbols as symbols -/
theorem nOf_le_size (lens : Array Nat) : nOf lens ≤ lens.size := by
  unfold nOf sortedSyms
  exact tot_le lens.toList 15

/-! ### the loop -/

/-- the body of `huffSymbols`' loop -/
def step (cl : Array Nat) (n0 : Nat) (so : Array Nat × Array Nat) (i : Nat) : M (Array Nat × Array Nat) :=
  if i < n0 then .error errInternal
  else if cl.getD i 0 ≠ 0 then
    let k := cl.getD i 0 &&& 15
    if so.2.getD k 0 ≥ 320 then .error errInternal
    else .ok (so.1.setIfInBounds (so.2.getD k 0) (i - n0), so.2.setIfInBounds k (so.2.getD k 0 + 1))
  else .ok so

theorem huffSymbols_eq (cl : Array Nat) (n0 n1 : Nat) (offsets : Array Nat) :
    huffSymbols cl n0 n1 offsets =
      (List.range' n0 (n1 - n0)).foldlM (step cl n0) (Array.replicate 320 0, offsets) := rfl

/-- the invariant after the first `m` symbols -/
structure Inv (lens : Array Nat) (m : Nat) (so : Array Nat × Array Nat) : Prop where
  ssize : so.1.size = 320
  osize : so.2.size = 16
  off : ∀ L, 1 ≤ L → L ≤ 15 → so.2.getD L 0 = idxOf lens L + (symsL (lens.toList.take m) L).length
  sym : ∀ L, 1 ≤ L → L ≤ 15 → ∀ r, r < (symsL (lens.toList.take m) L).length →
    so.1.getD (idxOf lens L + r) 0 = (symsL (lens.toList.take m) L).getD r 0

theorem take_succ_eq (lens : Array Nat) (m : Nat) (hm : m < lens.size) :
    lens.toList.take (m + 1) = lens.toList.take m ++ [lens.getD m 0] := by
  rw [List.take_add_one]
  have : lens.toList[m]? = some (lens.getD m 0) := by
    rw [Array.getElem?_toList, Array.getD_eq_getD_getElem?]
    have : lens[m]? = some lens[m] := Array.getElem?_eq_getElem hm
    rw [this]; rfl
  rw [this]; rfl

theorem step_ok (cl lens : Array Nat) (n0 n1 : Nat) (hl : LensOf cl lens n0 n1) (h15 : ∀ j, lens.getD j 0 ≤ 15)
    (m : Nat) (hm : m < lens.size) (so : Array Nat × Array Nat) (inv : Inv lens m so) :
    ∃ so', step cl n0 so (n0 + m) = .ok so' ∧ Inv lens (m + 1) so' := by
  have hcl : cl.getD (n0 + m) 0 = lens.getD m 0 := hl.eq m (by rw [← hl.size]; exact hm)
  have htk := take_succ_eq lens m hm
  have hlen : (lens.toList.take m).length = m := by
    rw [List.length_take]; simp; omega
  have hn288 : nOf lens ≤ 288 := by
    have := nOf_le_size lens; have := hl.n288; have := hl.size; omega
  unfold step
  rw [if_neg (by omega), hcl]
  by_cases ha : lens.getD m 0 = 0
  · rw [if_neg (by simp [ha])]
    refine ⟨so, rfl, inv.ssize, inv.osize, ?_, ?_⟩
    · intro L h1 h2
      rw [htk, symsL_concat, if_neg (by omega)]; simpa using inv.off L h1 h2
    · intro L h1 h2 r hr
      rw [htk, symsL_concat, if_neg (by omega)] at hr ⊢
      simpa using inv.sym L h1 h2 r (by simpa using hr)
  · rw [if_pos ha]
    generalize haa : lens.getD m 0 = a at ha htk
    have ha15 : a ≤ 15 := haa ▸ h15 m
    have hk : a &&& 15 = a := by
      rw [show (15 : Nat) = 2 ^ 4 - 1 by rfl, Nat.and_two_pow_sub_one_eq_mod]; omega
    simp only [hk]
    have hoff := inv.off a (by omega) ha15
    -- the class of `a` is not yet full
    have hcnt : (symsL (lens.toList.take m) a).length < countLen lens a := by
      have := symsL_take_le lens.toList (m + 1) a
      rw [htk, symsL_concat, if_pos rfl, List.length_append, symsL_length lens a] at this
      simp at this; omega
    have hnext : idxOf lens a + countLen lens a ≤ nOf lens := by
      rw [← idxOf_succ lens a (by omega), nOf_eq]
      exact idxOf_mono lens _ _ (by omega) (by omega)
    rw [if_neg (by omega)]
    refine ⟨_, rfl, ?_, ?_, ?_, ?_⟩
    · simp [inv.ssize]
    · simp [inv.osize]
    · intro L h1 h2
      show (so.2.setIfInBounds a (so.2.getD a 0 + 1)).getD L 0 = _
      rw [Array.getD_eq_getD_getElem?, Array.getElem?_setIfInBounds, htk, symsL_concat]
      by_cases hLa : a = L
      · subst hLa
        rw [if_pos rfl, if_pos (by rw [inv.osize]; omega), if_pos rfl, hoff]
        simp; omega
      · rw [if_neg hLa, if_neg hLa, ← Array.getD_eq_getD_getElem?, inv.off L h1 h2]; simp
    · intro L h1 h2 r hr
      show (so.1.setIfInBounds (so.2.getD a 0) (n0 + m - n0)).getD (idxOf lens L + r) 0 = _
      rw [htk, symsL_concat] at hr ⊢
      rw [Array.getD_eq_getD_getElem?, Array.getElem?_setIfInBounds, hoff]
      by_cases hLa : a = L
      · subst hLa
        rw [if_pos rfl, List.length_append] at hr
        rw [if_pos rfl]
        by_cases hrc : r = (symsL (lens.toList.take m) a).length
        · subst hrc
          rw [if_pos rfl, if_pos (by rw [inv.ssize]; omega), List.getD_eq_getElem?_getD,
            List.getElem?_append_right (Nat.le_refl _)]
          simp [hlen]
        · rw [if_neg (by omega), ← Array.getD_eq_getD_getElem?,
            inv.sym a h1 h2 r (by simp at hr; omega), List.getD_eq_getElem?_getD,
            List.getD_eq_getElem?_getD, List.getElem?_append_left (by simp at hr; omega)]
      · rw [if_neg hLa] at hr ⊢
        simp only [List.append_nil] at hr ⊢
        have hrL : r < countLen lens L := by
          have := symsL_take_le lens.toList m L
          rw [symsL_length lens L] at this; omega
        have hne : ¬ (idxOf lens a + (symsL (lens.toList.take m) a).length = idxOf lens L + r) := by
          by_cases hlt : L < a
          · have := idxOf_mono lens (L + 1) a (by omega) (by omega)
            rw [idxOf_succ lens L h1] at this; omega
          · have := idxOf_mono lens (a + 1) L (by omega) (by omega)
            rw [idxOf_succ lens a (by omega)] at this; omega
        rw [if_neg hne, ← Array.getD_eq_getD_getElem?]
        exact inv.sym L h1 h2 r hr

theorem loop_ok (cl lens : Array Nat) (n0 n1 : Nat) (hl : LensOf cl lens n0 n1) (h15 : ∀ j, lens.getD j 0 ≤ 15)
    (k m : Nat) (hmk : m + k = lens.size) (so : Array Nat × Array Nat) (inv : Inv lens m so) :
    ∃ so', (List.range' (n0 + m) k).foldlM (step cl n0) so = .ok so' ∧ Inv lens lens.size so' := by
  induction k generalizing m so with
  | zero =>
    have : m = lens.size := by omega
    subst this
    exact ⟨so, rfl, inv⟩
  | succ k ih =>
    obtain ⟨so1, h1, inv1⟩ := step_ok cl lens n0 n1 hl h15 m (by omega) so inv
    obtain ⟨so2, h2, inv2⟩ := ih (m + 1) (by omega) so1 inv1
    refine ⟨so2, ?_, inv2⟩
    rw [List.range'_succ, List.foldlM_cons, h1]
    simpa [bind, Except.bind, Nat.add_assoc] using h2

end Y

theorem symbolsSpec_holds : SymbolsSpec := by
  intro cl lens offsets n0 n1 hl h15 hsz hoff
  have inv0 : Y.Inv lens 0 (Array.replicate 320 0, offsets) := by
    refine ⟨by simp, hsz, ?_, ?_⟩
    · intro L h1 h2; simp [Y.symsL, hoff L h1 h2]
    · intro L h1 h2 r hr; simp [Y.symsL] at hr
  obtain ⟨so, hrun, inv⟩ := Y.loop_ok cl lens n0 n1 hl h15 lens.size 0 (by omega) _ inv0
  have htake : lens.toList.take lens.size = lens.toList := by
    rw [List.take_of_length_le]; simp
  refine ⟨so.1, so.2, ?_, ?_, ?_⟩
  · rw [Y.huffSymbols_eq, ← hl.size]
    simpa using hrun
  · intro t ht
    rw [Y.nOf_eq] at ht
    obtain ⟨L, r, h1, h2, hr, rfl⟩ := Y.idx_decomp lens 15 t ht
    rw [Y.syOf_idx lens L r h1 h2 hr, Y.symsOfLen_eq]
    have := inv.sym L h1 h2 r (by rw [htake, Y.symsL_length]; exact hr)
    rw [htake] at this
    exact this
  · intro L h1 h2
    have := inv.off L h1 h2
    rw [htake, Y.symsL_length] at this
    exact this

end WuffsVerif.StdDeflate
