/-
C14 helper: the tiling invariant `TInv` of the data-level model of the concurrent reader
(Model/Rac/ConcData.lean).  While a region of interest is being served and `main` has not
moved away from it (`Active`), the ranges that exist in the system tile what is left of the
region, in order:

  [nextPos, q)   exactly once by: completedWorks, resc, the Workers' unsent results and the
                 Workers' unread ranges                      (`occ s x = ind nextPos q x`)
  [q, rhi)       by the chain: reqc (in order), the Manager's unsent request, the part of the
                 region the Manager has not looked at yet    (`Chain q (mchain s) rhi`)

and every result a Worker has produced lies before what it still has to read (`own`).
This file: definitions and their algebra.
-/
import WuffsVerif.Proof.RacConcDataStep3

set_option linter.unusedVariables false
set_option linter.unusedSimpArgs false

namespace WuffsVerif.Rac.ConcD
open WuffsVerif.Rac WuffsVerif.Rac.Conc

/-- indicator of `x ∈ [lo, hi)` -/
def ind (lo hi x : Nat) : Nat := if lo ≤ x ∧ x < hi then 1 else 0

theorem ind_spec (lo hi x : Nat) :
    (lo ≤ x ∧ x < hi ∧ ind lo hi x = 1) ∨ ((x < lo ∨ hi ≤ x) ∧ ind lo hi x = 0) := by
  unfold ind
  split
  · next h => left; exact ⟨h.1, h.2, rfl⟩
  · next h => right; exact ⟨by omega, rfl⟩

def occItems : List DItem → Nat → Nat
  | [], _ => 0
  | it :: r, x => ind it.lo it.hi x + occItems r x

theorem occItems_append (a b : List DItem) (x : Nat) : occItems (a ++ b) x = occItems a x + occItems b x := by
  induction a with
  | nil => simp [occItems]
  | cons y ys ih => simp only [List.cons_append, occItems, ih]; omega

theorem occItems_eraseIdx (x : Nat) : ∀ (l : List DItem) (j : Nat) (it : DItem), l[j]? = some it →
    occItems (l.eraseIdx j) x + ind it.lo it.hi x = occItems l x := by
  intro l
  induction l with
  | nil => intro j it h; simp at h
  | cons y ys ih =>
    intro j it h
    cases j with
    | zero => simp at h; subst h; simp only [List.eraseIdx_cons_zero, occItems]; omega
    | succ j =>
      simp at h
      have := ih j it h
      simp only [List.eraseIdx_cons_succ, occItems]
      omega

theorem occItems_mem_le (x : Nat) : ∀ (l : List DItem) (it : DItem), it ∈ l → ind it.lo it.hi x ≤ occItems l x := by
  intro l
  induction l with
  | nil => intro it h; cases h
  | cons y ys ih =>
    intro it h
    rcases List.mem_cons.mp h with h | h
    · subst h; simp only [occItems]; omega
    · have := ih it h; simp only [occItems]; omega

theorem occItems_pos (x : Nat) : ∀ (l : List DItem), 0 < occItems l x → ∃ it ∈ l, it.lo ≤ x ∧ x < it.hi := by
  intro l
  induction l with
  | nil => intro h; simp [occItems] at h
  | cons y ys ih =>
    intro h
    simp only [occItems] at h
    rcases ind_spec y.lo y.hi x with h1 | h1
    · exact ⟨y, by simp, h1.1, h1.2.1⟩
    · obtain ⟨it, hm, hr⟩ := ih (by omega)
      exact ⟨it, List.mem_cons_of_mem _ hm, hr⟩

/-- what a Worker holds: its unsent result and the range it still has to read -/
def occW (w : DW) (x : Nat) : Nat :=
  (if w.w.out.isSome then ind w.olo w.ohi x else 0) + (if w.w.dr.isSome then ind w.dlo w.dhi x else 0)

def occWs : List DW → Nat → Nat
  | [], _ => 0
  | w :: r, x => occW w x + occWs r x

theorem occWs_set (x : Nat) : ∀ (ws : List DW) (i : Nat) (w w' : DW), ws[i]? = some w →
    occWs (ws.set i w') x + occW w x = occWs ws x + occW w' x := by
  intro ws
  induction ws with
  | nil => intro i w w' h; simp at h
  | cons y ys ih =>
    intro i w w' h
    cases i with
    | zero => simp at h; subst h; simp only [List.set_cons_zero, occWs]; omega
    | succ i =>
      simp at h
      have := ih i w w' h
      simp only [List.set_cons_succ, occWs]
      omega

theorem occWs_set_eq (x : Nat) {ws : List DW} {i : Nat} {w w' : DW} (h : ws[i]? = some w) :
    occWs (ws.set i w') x = occWs ws x + occW w' x - occW w x := by
  have := occWs_set x ws i w w' h
  omega

theorem occWs_set_same (x : Nat) {ws : List DW} {i : Nat} {w w' : DW} (h : ws[i]? = some w)
    (he : occW w' x = occW w x) : occWs (ws.set i w') x = occWs ws x := by
  have := occWs_set x ws i w w' h
  omega

theorem occWs_get_le (x : Nat) : ∀ (ws : List DW) (i : Nat) (w : DW), ws[i]? = some w → occW w x ≤ occWs ws x := by
  intro ws
  induction ws with
  | nil => intro i w h; simp at h
  | cons y ys ih =>
    intro i w h
    cases i with
    | zero => simp at h; subst h; simp only [occWs]; omega
    | succ i => simp at h; have := ih i w h; simp only [occWs]; omega

theorem occWs_pos (x : Nat) : ∀ (ws : List DW), 0 < occWs ws x → ∃ (i : Nat) (w : DW), ws[i]? = some w ∧ 0 < occW w x := by
  intro ws
  induction ws with
  | nil => intro h; simp [occWs] at h
  | cons y ys ih =>
    intro h
    simp only [occWs] at h
    by_cases hy : 0 < occW y x
    · exact ⟨0, y, rfl, hy⟩
    · obtain ⟨i, w, hi, hw⟩ := ih (by omega)
      exact ⟨i + 1, w, by simpa using hi, hw⟩

theorem occWs_zero (x : Nat) : ∀ (ws : List DW), (∀ (i : Nat) (w : DW), ws[i]? = some w → w.w.out = none ∧ w.w.dr = none) →
    occWs ws x = 0 := by
  intro ws
  induction ws with
  | nil => intro _; rfl
  | cons y ys ih =>
    intro h
    have h0 := h 0 y rfl
    have := ih (fun i w hi => h (i + 1) w (by simpa using hi))
    simp only [occWs, occW, h0.1, h0.2, Option.isSome_none, Bool.false_eq_true, ↓reduceIte, this]

/-- everything that exists between the consumer and the dispatcher -/
def occ (s : DSt) (x : Nat) : Nat := occItems s.completed x + occItems s.resc x + occWs s.ws x

/-- the next offset `main` will ask `nextWork` for -/
def nextPos (s : DSt) : Nat :=
  match s.curr with
  | some c => c.hi
  | none => s.pos

/-- `Chain a l b`: the ranges of `l` are non-empty and tile `[a, b)` in order -/
def Chain : Nat → List (Nat × Nat) → Nat → Prop
  | a, [], b => a = b
  | a, p :: rest, b => p.1 = a ∧ p.1 < p.2 ∧ Chain p.2 rest b

def headLo (l : List (Nat × Nat)) (b : Nat) : Nat :=
  match l with
  | [] => b
  | p :: _ => p.1

theorem chain_head : ∀ {l : List (Nat × Nat)} {a b : Nat}, Chain a l b → headLo l b = a
  | [], a, b, h => by simp only [Chain] at h; simp [headLo, h]
  | p :: r, a, b, h => by simp only [Chain] at h; simp [headLo, h.1]

theorem chain_le : ∀ {l : List (Nat × Nat)} {a b : Nat}, Chain a l b → a ≤ b
  | [], a, b, h => by simp only [Chain] at h; omega
  | p :: r, a, b, h => by
    simp only [Chain] at h
    have := chain_le h.2.2
    omega

/-- append a last range -/
theorem chain_snoc : ∀ {l : List (Nat × Nat)} {a m b : Nat}, Chain a l m → m < b → Chain a (l ++ [(m, b)]) b
  | [], a, m, b, h, hlt => by simp only [Chain] at h; subst h; simp [Chain, hlt]
  | p :: r, a, m, b, h, hlt => by
    simp only [Chain] at h
    simp only [List.cons_append, Chain]
    exact ⟨h.1, h.2.1, chain_snoc h.2.2 hlt⟩

/-- remove the last range -/
theorem chain_unsnoc : ∀ {l : List (Nat × Nat)} {a m b : Nat}, Chain a (l ++ [(m, b)]) b → Chain a l m ∧ m < b
  | [], a, m, b, h => by
    simp only [List.nil_append, Chain] at h
    exact ⟨by simp only [Chain]; omega, h.2.1⟩
  | p :: r, a, m, b, h => by
    simp only [List.cons_append, Chain] at h
    have := chain_unsnoc h.2.2
    exact ⟨by simp only [Chain]; exact ⟨h.1, h.2.1, this.1⟩, this.2⟩

/-- the Manager's side: reqc, the request in its hand, the part of the region not yet looked at -/
def mchain (s : DSt) : List (Nat × Nat) :=
  s.reqc.map (fun it => (it.lo, it.hi)) ++
    ((if s.mgr.m.work.isSome then [(s.mgr.wlo, s.mgr.whi)] else []) ++
     (if s.mgr.m.inputOn = false ∧ s.mgr.cur < s.mgr.rhi then [(s.mgr.cur, s.mgr.rhi)] else []))

/-- the dispatch frontier -/
def qOf (s : DSt) : Nat := headLo (mchain s) s.mgr.rhi

/-- a region of interest is being served and `main` still wants it -/
def Active (s : DSt) : Prop := s.seekResolved = true ∧ (s.main = .idle ∨ s.main = .reading)

structure TInv (F : File) (s : DSt) : Prop where
  occ : ∀ x, occ s x = ind (nextPos s) (qOf s) x
  chain : Chain (qOf s) (mchain s) s.mgr.rhi
  le : nextPos s ≤ qOf s
  own : ∀ (i : Nat) (w : DW), s.ws[i]? = some w → w.w.dr ≠ none →
    (∀ it, (it ∈ s.completed ∨ it ∈ s.resc) → it.it.owner = some i → it.hi ≤ w.dlo) ∧
    (w.w.out ≠ none → w.ohi ≤ w.dlo)
  roi : s.mgr.m.roi ≠ none
  cur : s.mgr.rlo ≤ s.mgr.cur ∧
    (s.mgr.cur = s.mgr.rlo ∨ ∀ c, findChunk F.chunks s.mgr.cur = some c → c.lo = s.mgr.cur)

/-! ### chunk boundaries of a valid file -/

theorem chain_find_bounds : ∀ (cs : List Chunk) (a b : Nat), chain a cs b = true →
    ∀ (p : Nat) (c : Chunk), findChunk cs p = some c → a ≤ c.lo ∧ c.hi ≤ b := by
  intro cs
  induction cs with
  | nil => intro a b _ p c h; simp [findChunk] at h
  | cons d ds ih =>
    intro a b h p c hf
    simp only [chain, Bool.and_eq_true, beq_iff_eq, decide_eq_true_eq, Bool.not_eq_true'] at h
    obtain ⟨⟨⟨⟨hlo, hlt⟩, hlen⟩, htr⟩, hrest⟩ := h
    have hle := (chain_spec ds d.hi b hrest).1
    unfold findChunk at hf
    split at hf
    · cases hf; omega
    · have := ih d.hi b hrest p c hf
      omega

/-- the chunk after `c` starts where `c` ends -/
theorem findChunk_next : ∀ (cs : List Chunk) (a b : Nat), chain a cs b = true →
    ∀ (p : Nat) (c d : Chunk), findChunk cs p = some c → findChunk cs c.hi = some d → d.lo = c.hi := by
  intro cs
  induction cs with
  | nil => intro a b _ p c d h; simp [findChunk] at h
  | cons x xs ih =>
    intro a b h p c d h1 h2
    have h' := h
    simp only [chain, Bool.and_eq_true, beq_iff_eq, decide_eq_true_eq, Bool.not_eq_true'] at h'
    obtain ⟨⟨⟨⟨hlo, hlt⟩, hlen⟩, htr⟩, hrest⟩ := h'
    unfold findChunk at h1
    split at h1
    · -- c = x: the next chunk is the head of xs
      cases h1
      unfold findChunk at h2
      rw [if_neg (by omega)] at h2
      cases xs with
      | nil => simp [findChunk] at h2
      | cons y ys =>
        simp only [chain, Bool.and_eq_true, beq_iff_eq, decide_eq_true_eq, Bool.not_eq_true'] at hrest
        obtain ⟨⟨⟨⟨ylo, ylt⟩, _⟩, _⟩, _⟩ := hrest
        unfold findChunk at h2
        rw [if_pos ⟨by omega, by omega⟩] at h2
        cases h2
        exact ylo
    · -- c is further down
      have hb := chain_find_bounds xs x.hi b hrest p c h1
      have hc := findChunk_some h1
      unfold findChunk at h2
      rw [if_neg (by omega)] at h2
      exact ih x.hi b hrest p c d h1 h2

end WuffsVerif.Rac.ConcD
