/-
C06: specification of `IntRange.And` / `IntRange.Or` themselves: for non-empty operands they
return (no panic), the result is sound, and it is tight when all four bounds are finite.
-/
import WuffsVerif.Proof.IntervalAndOr

namespace WuffsVerif.Interval

/-- all four bounds finite -/
def Fin4 (X Y : IR) : Prop :=
  ∃ xl xh yl yh, X.lo = some xl ∧ X.hi = some xh ∧ Y.lo = some yl ∧ Y.hi = some yh

/-- transfer through the `~` trick: a sound/tight `|`-result on the complemented boxes gives a
sound/tight `&`-result on the boxes -/
theorem partSpec_and_of_or {PX PY w : IR} {fin : Prop}
    (hs : ∀ x y, PX.notSwap.mem x → PY.notSwap.mem y → w.mem (ior x y))
    (ht : fin → TightHull ior PX.notSwap PY.notSwap w) :
    PartSpec iand PX PY fin w.notSwap := by
  constructor
  · intro x y hx hy
    rw [mem_notSwap, iand_demorgan, inot_inot]
    exact hs (inot x) (inot y) (by rw [mem_notSwap, inot_inot]; exact hx)
      (by rw [mem_notSwap, inot_inot]; exact hy)
  · intro hf
    obtain ⟨l, h, rfl, hl, hh⟩ := ht hf
    have transfer : ∀ v, Img ior PX.notSwap PY.notSwap v → Img iand PX PY (inot v) := by
      rintro v ⟨x', y', hx', hy', rfl⟩
      rw [mem_notSwap] at hx' hy'
      exact ⟨inot x', inot y', hx', hy', by rw [iand_demorgan, inot_inot, inot_inot]⟩
    exact ⟨inot h, inot l, by simp [IR.notSwap], transfer h hh, transfer l hl⟩

theorem partSpec_or_of_and {PX PY w : IR} {fin : Prop}
    (hs : ∀ x y, PX.notSwap.mem x → PY.notSwap.mem y → w.mem (iand x y))
    (ht : fin → TightHull iand PX.notSwap PY.notSwap w) :
    PartSpec ior PX PY fin w.notSwap := by
  constructor
  · intro x y hx hy
    rw [mem_notSwap, ior_demorgan, inot_inot]
    exact hs (inot x) (inot y) (by rw [mem_notSwap, inot_inot]; exact hx)
      (by rw [mem_notSwap, inot_inot]; exact hy)
  · intro hf
    obtain ⟨l, h, rfl, hl, hh⟩ := ht hf
    have transfer : ∀ v, Img iand PX.notSwap PY.notSwap v → Img ior PX PY (inot v) := by
      rintro v ⟨x', y', hx', hy', rfl⟩
      rw [mem_notSwap] at hx' hy'
      exact ⟨inot x', inot y', hx', hy', by rw [ior_demorgan, inot_inot, inot_inot]⟩
    exact ⟨inot h, inot l, by simp [IR.notSwap], transfer h hh, transfer l hl⟩

theorem tightHull_of_tinv {f : Int → Int → Int} {X Y Z : IR} {v : Int}
    (h : TInv (Img f X Y) Z) (hv : Z.mem v) : TightHull f X Y Z := by
  rcases h with h | ⟨l, hh, rfl, _, hl, hhi⟩
  · exact absurd hv (not_mem_of_empty h v)
  · exact ⟨l, hh, rfl, hl, hhi⟩

section top
variable (X Y : IR)

/-- the four parts of `And`/`Or` for a commutative bit operation `f`, given the parts' specs -/
theorem andor_core (f : Int → Int → Int) (fcomm : ∀ a b, f a b = f b a)
    (ex : X.empty = false) (ey : Y.empty = false)
    {α : Type} (oNN : Option α) (gNN : IR → α → IR) (oNP oPN oPP : Option IR)
    (hNN : X.split2.2.2.1 = true → Y.split2.2.2.1 = true →
      ∃ a, oNN = some a ∧ ∃ W, (∀ z, gNN z a = inPlaceUnite z W) ∧
        PartSpec f X.split2.1 Y.split2.1 (Fin4 X Y) W)
    (hNP : X.split2.2.2.1 = true → Y.split2.2.2.2 = true →
      ∃ W, oNP = some W ∧ PartSpec f X.split2.1 Y.split2.2.1 (Fin4 X Y) W)
    (hPN : X.split2.2.2.2 = true → Y.split2.2.2.1 = true →
      ∃ W, oPN = some W ∧ PartSpec f Y.split2.1 X.split2.2.1 (Fin4 X Y) W)
    (hPP : X.split2.2.2.2 = true → Y.split2.2.2.2 = true →
      ∃ W, oPP = some W ∧ PartSpec f X.split2.2.1 Y.split2.2.1 (Fin4 X Y) W) :
    ∃ Z, stepF (X.split2.2.2.2 && Y.split2.2.2.2) oPP inPlaceUnite
       (stepF (X.split2.2.2.2 && Y.split2.2.2.1) oPN inPlaceUnite
        (stepF (X.split2.2.2.1 && Y.split2.2.2.2) oNP inPlaceUnite
         (stepF (X.split2.2.2.1 && Y.split2.2.2.1) oNN gNN (some mkEmpty)))) = some Z ∧
      (∀ x y, X.mem x → Y.mem y → Z.mem (f x y)) ∧ (Fin4 X Y → TightHull f X Y Z) := by
  have SX := split2_spec X ex
  have SY := split2_spec Y ey
  -- step 1: neg × neg
  obtain ⟨Z1, e1, m1, w1, t1⟩ := stepF_spec (Z := mkEmpty)
    (c := X.split2.2.2.1 && Y.split2.2.2.1) (o := oNN) (g := gNN)
    (fun W => PartSpec f X.split2.1 Y.split2.1 (Fin4 X Y) W ∧
      X.split2.2.2.1 = true ∧ Y.split2.2.2.1 = true)
    (by
      intro hc
      simp only [Bool.and_eq_true] at hc
      obtain ⟨a, ha, W, hg, hp⟩ := hNN hc.1 hc.2
      exact ⟨a, ha, W, hg, hp, hc.1, hc.2⟩)
  obtain ⟨Z2, e2, m2, w2, t2⟩ := stepF_spec (Z := Z1)
    (c := X.split2.2.2.1 && Y.split2.2.2.2) (o := oNP) (g := inPlaceUnite)
    (fun W => PartSpec f X.split2.1 Y.split2.2.1 (Fin4 X Y) W ∧
      X.split2.2.2.1 = true ∧ Y.split2.2.2.2 = true)
    (by
      intro hc
      simp only [Bool.and_eq_true] at hc
      obtain ⟨W, ha, hp⟩ := hNP hc.1 hc.2
      exact ⟨W, ha, W, fun _ => rfl, hp, hc.1, hc.2⟩)
  obtain ⟨Z3, e3, m3, w3, t3⟩ := stepF_spec (Z := Z2)
    (c := X.split2.2.2.2 && Y.split2.2.2.1) (o := oPN) (g := inPlaceUnite)
    (fun W => PartSpec f Y.split2.1 X.split2.2.1 (Fin4 X Y) W ∧
      X.split2.2.2.2 = true ∧ Y.split2.2.2.1 = true)
    (by
      intro hc
      simp only [Bool.and_eq_true] at hc
      obtain ⟨W, ha, hp⟩ := hPN hc.1 hc.2
      exact ⟨W, ha, W, fun _ => rfl, hp, hc.1, hc.2⟩)
  obtain ⟨Z4, e4, m4, w4, t4⟩ := stepF_spec (Z := Z3)
    (c := X.split2.2.2.2 && Y.split2.2.2.2) (o := oPP) (g := inPlaceUnite)
    (fun W => PartSpec f X.split2.2.1 Y.split2.2.1 (Fin4 X Y) W ∧
      X.split2.2.2.2 = true ∧ Y.split2.2.2.2 = true)
    (by
      intro hc
      simp only [Bool.and_eq_true] at hc
      obtain ⟨W, ha, hp⟩ := hPP hc.1 hc.2
      exact ⟨W, ha, W, fun _ => rfl, hp, hc.1, hc.2⟩)
  rw [e1, e2, e3, e4]
  have sound : ∀ x y, X.mem x → Y.mem y → Z4.mem (f x y) := by
    intro x y hx hy
    rcases Int.lt_or_le x 0 with hx0 | hx0
    · obtain ⟨c1, mx⟩ := SX.neg_of_mem x hx hx0
      rcases Int.lt_or_le y 0 with hy0 | hy0
      · obtain ⟨c2, my⟩ := SY.neg_of_mem y hy hy0
        obtain ⟨W, hR, hW⟩ := w1 (by simp [c1, c2])
        exact m4 _ (m3 _ (m2 _ (hW _ (hR.1.1 x y mx my))))
      · obtain ⟨c2, my⟩ := SY.non_of_mem y hy hy0
        obtain ⟨W, hR, hW⟩ := w2 (by simp [c1, c2])
        exact m4 _ (m3 _ (hW _ (hR.1.1 x y mx my)))
    · obtain ⟨c1, mx⟩ := SX.non_of_mem x hx hx0
      rcases Int.lt_or_le y 0 with hy0 | hy0
      · obtain ⟨c2, my⟩ := SY.neg_of_mem y hy hy0
        obtain ⟨W, hR, hW⟩ := w3 (by simp [c1, c2])
        have := hR.1.1 y x my mx
        rw [fcomm] at this
        exact m4 _ (hW _ this)
      · obtain ⟨c2, my⟩ := SY.non_of_mem y hy hy0
        obtain ⟨W, hR, hW⟩ := w4 (by simp [c1, c2])
        exact hW _ (hR.1.1 x y mx my)
  refine ⟨Z4, rfl, sound, ?_⟩
  intro hfin
  obtain ⟨x, hx⟩ := exists_mem_of_not_empty ex
  obtain ⟨y, hy⟩ := exists_mem_of_not_empty ey
  refine tightHull_of_tinv (v := f x y) ?_ (sound x y hx hy)
  have i1 := t1 (Img f X Y) (Or.inl mkEmpty_empty) (by
    rintro W ⟨hp, c1, c2⟩
    obtain ⟨e1, _, _, _, s1⟩ := SX.neg_shape c1
    obtain ⟨e2, _, _, _, s2⟩ := SY.neg_shape c2
    exact tpart_of_partSpec hp hfin e1 e2
      (fun v ⟨a, b, ha, hb, hv⟩ => ⟨a, b, s1 a ha, s2 b hb, hv⟩))
  have i2 := t2 (Img f X Y) i1 (by
    rintro W ⟨hp, c1, c2⟩
    obtain ⟨e1, _, _, _, s1⟩ := SX.neg_shape c1
    obtain ⟨e2, _, _, s2⟩ := SY.non_shape c2
    exact tpart_of_partSpec hp hfin e1 e2
      (fun v ⟨a, b, ha, hb, hv⟩ => ⟨a, b, s1 a ha, s2 b hb, hv⟩))
  have i3 := t3 (Img f X Y) i2 (by
    rintro W ⟨hp, c1, c2⟩
    obtain ⟨e1, _, _, s1⟩ := SX.non_shape c1
    obtain ⟨e2, _, _, _, s2⟩ := SY.neg_shape c2
    exact tpart_of_partSpec hp hfin e2 e1
      (fun v ⟨a, b, ha, hb, hv⟩ => ⟨b, a, s1 b hb, s2 a ha, by rw [fcomm]; exact hv⟩))
  exact t4 (Img f X Y) i3 (by
    rintro W ⟨hp, c1, c2⟩
    obtain ⟨e1, _, _, s1⟩ := SX.non_shape c1
    obtain ⟨e2, _, _, s2⟩ := SY.non_shape c2
    exact tpart_of_partSpec hp hfin e1 e2
      (fun v ⟨a, b, ha, hb, hv⟩ => ⟨a, b, s1 a ha, s2 b hb, hv⟩))

/-- `And`: total, sound, tight for finite bounds. -/
theorem and_spec (ex : X.empty = false) (ey : Y.empty = false) :
    ∃ Z, Interval.and X Y = some Z ∧ (∀ x y, X.mem x → Y.mem y → Z.mem (iand x y)) ∧
      (Fin4 X Y → TightHull iand X Y Z) := by
  rw [and_eq]
  simp only [ex, ey, Bool.or_self, Bool.false_eq_true, if_false]
  split
  · rename_i hnn
    simp only [Bool.and_eq_true, Bool.not_eq_true'] at hnn
    obtain ⟨xl, hxl, x0⟩ := nonneg_shape ex hnn.1
    obtain ⟨yl, hyl, y0⟩ := nonneg_shape ey hnn.2
    obtain ⟨Z, hZ, hs, ht⟩ := andBothNonNeg_spec ex ey hxl hyl x0 y0
    exact ⟨Z, hZ, hs, fun ⟨_, xh, _, yh, _, h2, _, h4⟩ => ht xh yh h2 h4⟩
  · have SX := split2_spec X ex
    have SY := split2_spec Y ey
    apply andor_core X Y iand iand_comm' ex ey
    · intro c1 c2
      obtain ⟨e1, l1, ⟨h1, hh1, n1⟩, _, _⟩ := SX.neg_shape c1
      obtain ⟨e2, l2, ⟨h2, hh2, n2⟩, _, _⟩ := SY.neg_shape c2
      obtain ⟨w, hw, hs, ht⟩ := orBothNonNeg_spec (X := X.split2.1.notSwap)
        (Y := Y.split2.1.notSwap) (xl := inot h1) (yl := inot h2)
        (by rw [notSwap_empty]; exact e1) (by rw [notSwap_empty]; exact e2)
        (by simp [IR.notSwap, hh1]) (by simp [IR.notSwap, hh2])
        (by unfold inot; omega) (by unfold inot; omega)
      refine ⟨w, hw, w.notSwap, fun _ => rfl, partSpec_and_of_or hs ?_⟩
      rintro ⟨xl, _, yl, _, hxl, _, hyl, _⟩
      exact ht (inot xl) (inot yl) (by simp [IR.notSwap, l1, hxl]) (by simp [IR.notSwap, l2, hyl])
    · intro c1 c2
      obtain ⟨e1, l1, ⟨h1, hh1, n1⟩, _, _⟩ := SX.neg_shape c1
      obtain ⟨e2, u2, ⟨o2, ho2, p2⟩, _⟩ := SY.non_shape c2
      obtain ⟨Z, hZ, hs, ht⟩ := andOneNeg_spec e1 e2 hh1 ho2 n1 p2
      refine ⟨Z, hZ, hs, ?_⟩
      rintro ⟨xl, _, _, yh, hxl, _, _, hyh⟩
      exact ht xl yh (l1.trans hxl) (u2.trans hyh)
    · intro c1 c2
      obtain ⟨e1, u1, ⟨o1, ho1, p1⟩, _⟩ := SX.non_shape c1
      obtain ⟨e2, l2, ⟨h2, hh2, n2⟩, _, _⟩ := SY.neg_shape c2
      obtain ⟨Z, hZ, hs, ht⟩ := andOneNeg_spec e2 e1 hh2 ho1 n2 p1
      refine ⟨Z, hZ, hs, ?_⟩
      rintro ⟨_, xh, yl, _, _, hxh, hyl, _⟩
      exact ht yl xh (l2.trans hyl) (u1.trans hxh)
    · intro c1 c2
      obtain ⟨e1, u1, ⟨o1, ho1, p1⟩, _⟩ := SX.non_shape c1
      obtain ⟨e2, u2, ⟨o2, ho2, p2⟩, _⟩ := SY.non_shape c2
      obtain ⟨Z, hZ, hs, ht⟩ := andBothNonNeg_spec e1 e2 ho1 ho2 p1 p2
      refine ⟨Z, hZ, hs, ?_⟩
      rintro ⟨_, xh, _, yh, _, hxh, _, hyh⟩
      exact ht xh yh (u1.trans hxh) (u2.trans hyh)

/-- `Or`: total, sound, tight for finite bounds. -/
theorem or_spec (ex : X.empty = false) (ey : Y.empty = false) :
    ∃ Z, Interval.or X Y = some Z ∧ (∀ x y, X.mem x → Y.mem y → Z.mem (ior x y)) ∧
      (Fin4 X Y → TightHull ior X Y Z) := by
  rw [or_eq]
  simp only [ex, ey, Bool.or_self, Bool.false_eq_true, if_false]
  split
  · rename_i hnn
    simp only [Bool.and_eq_true, Bool.not_eq_true'] at hnn
    obtain ⟨xl, hxl, x0⟩ := nonneg_shape ex hnn.1
    obtain ⟨yl, hyl, y0⟩ := nonneg_shape ey hnn.2
    obtain ⟨Z, hZ, hs, ht⟩ := orBothNonNeg_spec ex ey hxl hyl x0 y0
    exact ⟨Z, hZ, hs, fun ⟨_, xh, _, yh, _, h2, _, h4⟩ => ht xh yh h2 h4⟩
  · have SX := split2_spec X ex
    have SY := split2_spec Y ey
    apply andor_core X Y ior ior_comm' ex ey
    · intro c1 c2
      obtain ⟨e1, l1, ⟨h1, hh1, n1⟩, _, _⟩ := SX.neg_shape c1
      obtain ⟨e2, l2, ⟨h2, hh2, n2⟩, _, _⟩ := SY.neg_shape c2
      obtain ⟨w, hw, hs, ht⟩ := andBothNonNeg_spec (X := X.split2.1.notSwap)
        (Y := Y.split2.1.notSwap) (xl := inot h1) (yl := inot h2)
        (by rw [notSwap_empty]; exact e1) (by rw [notSwap_empty]; exact e2)
        (by simp [IR.notSwap, hh1]) (by simp [IR.notSwap, hh2])
        (by unfold inot; omega) (by unfold inot; omega)
      refine ⟨w, hw, w.notSwap, fun _ => rfl, partSpec_or_of_and hs ?_⟩
      rintro ⟨xl, _, yl, _, hxl, _, hyl, _⟩
      exact ht (inot xl) (inot yl) (by simp [IR.notSwap, l1, hxl]) (by simp [IR.notSwap, l2, hyl])
    · intro c1 c2
      obtain ⟨e1, l1, ⟨h1, hh1, n1⟩, _, _⟩ := SX.neg_shape c1
      obtain ⟨e2, u2, ⟨o2, ho2, p2⟩, _⟩ := SY.non_shape c2
      obtain ⟨Z, hZ, hs, ht⟩ := orOneNeg_spec e1 e2 hh1 ho2 n1 p2
      refine ⟨Z, hZ, hs, ?_⟩
      rintro ⟨xl, _, _, yh, hxl, _, _, hyh⟩
      exact ht xl yh (l1.trans hxl) (u2.trans hyh)
    · intro c1 c2
      obtain ⟨e1, u1, ⟨o1, ho1, p1⟩, _⟩ := SX.non_shape c1
      obtain ⟨e2, l2, ⟨h2, hh2, n2⟩, _, _⟩ := SY.neg_shape c2
      obtain ⟨Z, hZ, hs, ht⟩ := orOneNeg_spec e2 e1 hh2 ho1 n2 p1
      refine ⟨Z, hZ, hs, ?_⟩
      rintro ⟨_, xh, yl, _, _, hxh, hyl, _⟩
      exact ht yl xh (l2.trans hyl) (u1.trans hxh)
    · intro c1 c2
      obtain ⟨e1, u1, ⟨o1, ho1, p1⟩, _⟩ := SX.non_shape c1
      obtain ⟨e2, u2, ⟨o2, ho2, p2⟩, _⟩ := SY.non_shape c2
      obtain ⟨Z, hZ, hs, ht⟩ := orBothNonNeg_spec e1 e2 ho1 ho2 p1 p2
      refine ⟨Z, hZ, hs, ?_⟩
      rintro ⟨_, xh, _, yh, _, hxh, _, hyh⟩
      exact ht xh yh (u1.trans hxh) (u2.trans hyh)

end top

end WuffsVerif.Interval
