/-
C15 — helper lemmas for the byte-level theorems (Props/C15Bytes.lean) about
Model/Rac/ByteReader.lean: the meaning `byteAt` of a (hostile) file, the invariant of a
loaded chunk, and what C14's `discard` / `readExplicit` / `readZeroes` do to it.
Core Lean only.
-/
import WuffsVerif.Proof.C15Value
import WuffsVerif.Model.Rac.ByteReader

set_option linter.unusedVariables false

namespace WuffsVerif.Rac.ByteReader
open WuffsVerif.Rac
open WuffsVerif.Rac.ChunkReader (chunkAt CRInv NextResult ChunkGood)

/-! ## list facts -/

theorem getD_take (l : List UInt8) (m i : Nat) (h : i < m) : (l.take m).getD i 0 = l.getD i 0 := by
  simp [List.getD_eq_getElem?_getD, h]

theorem getD_drop (l : List UInt8) (a i : Nat) : (l.drop a).getD i 0 = l.getD (a + i) 0 := by
  simp [List.getD_eq_getElem?_getD, List.getElem?_drop]

theorem getD_zeros (k i : Nat) : (zeros k).getD i 0 = 0 := by
  simp only [zeros, List.getD_eq_getElem?_getD, List.getElem?_replicate]
  split <;> rfl

theorem getD_append (a b : List UInt8) (i : Nat) :
    (a ++ b).getD i 0 = if i < a.length then a.getD i 0 else b.getD (i - a.length) 0 := by
  simp only [List.getD_eq_getElem?_getD]
  split
  · rename_i h; rw [List.getElem?_append_left h]
  · rename_i h; rw [List.getElem?_append_right (by omega)]

theorem getD_nil (i : Nat) : ([] : List UInt8).getD i 0 = 0 := rfl

theorem drop_eq_nil_of_drop_eq_nil (l : List UInt8) (a b : Nat) (h : l.drop a = []) (hab : a ≤ b) :
    l.drop b = [] := by
  have h1 : l.length ≤ a := List.drop_eq_nil_iff.mp h
  exact List.drop_eq_nil_iff.mpr (by omega)

/-! ## the meaning of the file -/

/-- DSpace byte `p` of the file `o` was opened on: the byte that the decoder of the chunk
containing `p` produces for it (implicit zeroes beyond the decoder's output).  A function
of the file bytes, the claimed size, the codec and `p` — no reader state. -/
def byteAt (k : Codec) (o : ChunkReader.Reader) (p : Nat) : UInt8 :=
  match chunkAt o p with
  | .chunk c =>
    match decoded k o.file c with
    | .ok (data, _) => data.getD (p - c.dLo) 0
    | .error _ => 0
  | _ => 0

theorem chunkAt_same' {o q : ChunkReader.Reader} (h : CRInv o q) {p x : Nat} {c : CChunk}
    (hc : chunkAt o p = .chunk c) (hx1 : c.dLo ≤ x) (hx2 : x < c.dHi) : chunkAt o x = .chunk c := by
  rw [← ChunkReader.chunkAt_congr h.same] at hc ⊢
  exact ChunkReader.chunkAt_same q h.inv p x c hc hx1 hx2

theorem chunkAt_good' {o q : ChunkReader.Reader} (h : CRInv o q) {p : Nat} {c : CChunk}
    (hc : chunkAt o p = .chunk c) : ChunkGood o.csize o.dsize c ∧ c.dLo ≤ p ∧ p < c.dHi := by
  rw [← ChunkReader.chunkAt_congr h.same] at hc
  have := ChunkReader.chunkAt_good q h.inv p c hc
  rw [h.same.2.1, h.same.2.2.1] at this
  exact this

/-! ## a loaded chunk ("State B" / "State C") -/

/-- the Reader's chunk fields describe a chunk of the stream, decoded by the codec, of which
the bytes before `dlo` have been handed out or discarded -/
def LoadedR (k : Codec) (o : ChunkReader.Reader) (r : R) : Prop :=
  ∃ (c : CChunk) (data : List UInt8) (tr : Bool),
    chunkAt o c.dLo = .chunk c ∧ decoded k o.file c = .ok (data, tr) ∧
    r.dhi = c.dHi ∧ c.dLo ≤ r.dlo ∧ r.dec = data.drop (r.dlo - c.dLo) ∧
    (r.phase = .B → r.decTrunc = tr) ∧ (r.phase = .C → r.dec = [])

/-- the bytes still to come from a loaded chunk are the file's meaning -/
theorem LoadedR.byte {k : Codec} {o q : ChunkReader.Reader} (hq : CRInv o q) {r : R}
    (h : LoadedR k o r) (x : Nat) (h1 : r.dlo ≤ x) (h2 : x < r.dhi) :
    byteAt k o x = r.dec.getD (x - r.dlo) 0 := by
  obtain ⟨c, data, tr, hc, hd, e1, e2, e3, _, _⟩ := h
  have hx := chunkAt_same' hq hc (x := x) (by omega) (by omega)
  unfold byteAt
  rw [hx]
  simp only [hd]
  rw [e3, getD_drop]
  congr 1
  omega

/-- the fields that reading from a chunk never changes -/
structure Frame (r r' : R) : Prop where
  dhi : r'.dhi = r.dhi
  lim : r'.posLimit = r.posLimit
  closed : r'.closed = r.closed
  conc : r'.conc = r.conc
  crPos : r'.crPos = r.crPos

theorem Frame.refl (r : R) : Frame r r := ⟨rfl, rfl, rfl, rfl, rfl⟩

theorem Frame.trans {a b c : R} (h1 : Frame a b) (h2 : Frame b c) : Frame a c :=
  ⟨h2.dhi.trans h1.dhi, h2.lim.trans h1.lim, h2.closed.trans h1.closed, h2.conc.trans h1.conc,
   h2.crPos.trans h1.crPos⟩

/-- the discard loop of `readExplicitData`: it only moves `dlo` forward along the decoder's
output, up to `pos` -/
theorem discard_spec (data : List UInt8) (base : Nat) (r : R) (n : Nat) (hn : 0 < n) :
    r.dec = data.drop (r.dlo - base) → base ≤ r.dlo → r.dlo ≤ r.pos → r.phase = .B →
    r.err = none →
    match discard r n with
    | .goOn r' => Frame r r' ∧ r'.pos = r.pos ∧ r'.dec = data.drop (r'.dlo - base) ∧
        base ≤ r'.dlo ∧ r'.dlo = r'.pos ∧ r'.phase = .B ∧ r'.decTrunc = r.decTrunc ∧ r'.err = none
    | .ret r' none => Frame r r' ∧ r'.pos = r.pos ∧ r'.dec = [] ∧
        r'.dec = data.drop (r'.dlo - base) ∧ base ≤ r'.dlo ∧
        r'.dlo ≤ r'.pos ∧ r'.phase = .C ∧ r'.err = none
    | .ret r' (some e) => r'.err = some e ∧ e = .ueof := by
  fun_induction discard r n with
  | case1 r h want got r1 hemp htr =>
    intro _ _ _ _ _
    exact ⟨rfl, rfl⟩
  | case2 r h want got r1 hemp htr =>
    intro hrel hb hle hB he
    have hgot : got ≤ r.pos - r.dlo := by
      show (r.dec.take (min n (r.pos - r.dlo))).length ≤ _
      rw [List.length_take]; omega
    have hd : r1.dec = data.drop (r1.dlo - base) := by
      show r.dec.drop got = data.drop (r.dlo + got - base)
      rw [hrel, List.drop_drop]; congr 1; omega
    have hnil : r1.dec = [] := List.isEmpty_iff.mp hemp
    refine ⟨⟨rfl, rfl, rfl, rfl, rfl⟩, rfl, ?_, ?_, ?_, ?_, rfl, he⟩
    · rfl
    · show ([] : List UInt8) = data.drop (r.dlo + got - base)
      rw [← hnil]; exact hd
    · show base ≤ r.dlo + got; omega
    · show r.dlo + got ≤ r.pos; omega
  | case3 r h want got r1 hemp hg =>
    intro _ _ _ _ _
    exfalso
    -- `got = 0` with a non-empty decoder output and `n > 0`, `pos > dlo`: impossible
    have hne : r.dec ≠ [] := by
      intro h0
      have : r1.dec = [] := by show r.dec.drop got = []; rw [h0]; simp
      rw [this] at hemp; simp at hemp
    have hpos : 0 < r.dec.length := List.length_pos_iff.mpr hne
    have : got = min (min n (r.pos - r.dlo)) r.dec.length := List.length_take
    omega
  | case4 r h want got r1 hemp hg ih =>
    intro hrel hb hle hB he
    have hgot : got ≤ r.pos - r.dlo := by
      show (r.dec.take (min n (r.pos - r.dlo))).length ≤ _
      rw [List.length_take]; omega
    have hd : r1.dec = data.drop (r1.dlo - base) := by
      show r.dec.drop got = data.drop (r.dlo + got - base)
      rw [hrel, List.drop_drop]; congr 1; omega
    have := ih hd (by show base ≤ r.dlo + got; omega) (by show r.dlo + got ≤ r.pos; omega) hB he
    revert this
    cases discard r1 n with
    | goOn r' =>
      simp only
      intro ⟨f, a1, a2, a3, a4, a5, a6, a7⟩
      exact ⟨Frame.trans (a := r) (b := r1) ⟨rfl, rfl, rfl, rfl, rfl⟩ f, a1, a2, a3, a4, a5, a6, a7⟩
    | ret r' e =>
      cases e with
      | none =>
        simp only
        intro ⟨f, a1, a2, a3, a4, a5, a6, a7⟩
        exact ⟨Frame.trans (a := r) (b := r1) ⟨rfl, rfl, rfl, rfl, rfl⟩ f, a1, a2, a3, a4, a5, a6, a7⟩
      | some e => simp only; intro h; exact h
  | case5 r h =>
    intro hrel hb hle hB he
    exact ⟨Frame.refl r, rfl, hrel, hb, by omega, hB, rfl, he⟩

/-- `LoadedR` only looks at the chunk fields -/
theorem LoadedR.of_eq {k : Codec} {o : ChunkReader.Reader} {r r' : R} (h : LoadedR k o r)
    (h1 : r'.dhi = r.dhi) (h2 : r'.dlo = r.dlo) (h3 : r'.dec = r.dec) (h4 : r'.phase = r.phase)
    (h5 : r'.decTrunc = r.decTrunc) : LoadedR k o r' := by
  obtain ⟨c, data, tr, hc, hd, e1, e2, e3, e4, e5⟩ := h
  exact ⟨c, data, tr, hc, hd, by rw [h1]; exact e1, by rw [h2]; exact e2, by rw [h2, h3]; exact e3,
    by rw [h4, h5]; exact e4, by rw [h4, h3]; exact e5⟩

/-- `readExplicitData` on a loaded chunk: the bytes it hands out are the file's meaning at
`pos …`, and the chunk stays loaded (or an error becomes sticky) -/
theorem explicit_spec {k : Codec} {o q : ChunkReader.Reader} (hq : CRInv o q) (r : R) (n : Nat)
    (hL : LoadedR k o r) (hB : r.phase = .B) (hle : r.dlo ≤ r.pos) (hhi : r.pos ≤ r.dhi)
    (he : r.err = none) (hn : 0 < n) :
    (∀ i, i < (readExplicit r n).2.1.length →
        (readExplicit r n).2.1.getD i 0 = byteAt k o (r.pos + i)) ∧
    (readExplicit r n).2.1.length ≤ n ∧
    ((readExplicit r n).2.2 = none →
        (readExplicit r n).1.err = none ∧ Frame r (readExplicit r n).1 ∧
        (readExplicit r n).1.pos = r.pos + (readExplicit r n).2.1.length ∧
        LoadedR k o (readExplicit r n).1 ∧ (readExplicit r n).1.dlo ≤ (readExplicit r n).1.pos ∧
        (readExplicit r n).1.pos ≤ r.dhi ∧
        ((readExplicit r n).1.phase = .C ∨
          ((readExplicit r n).1.phase = .B ∧ 0 < (readExplicit r n).2.1.length))) ∧
    (∀ e, (readExplicit r n).2.2 = some e → (readExplicit r n).1.err = some e ∧
        (e = .ueof ∨ e = .tooLarge ∨ e = .truncated)) := by
  obtain ⟨c, data, tr, hc, hd, e1, e2, e3, e4, e5⟩ := hL
  have hds := discard_spec data c.dLo r n hn e3 e2 hle hB he
  generalize hout : readExplicit r n = out
  unfold readExplicit at hout
  cases hdisc : discard r n with
  | ret r' e =>
    rw [hdisc] at hout hds
    simp only at hout hds
    subst hout
    cases e with
    | none =>
      simp only at hds
      obtain ⟨f, a1, a2, a3, a4, a5, a6, a7⟩ := hds
      refine ⟨by intro i hi; simp at hi, by simp, ?_, by intro e h; cases h⟩
      intro _
      refine ⟨a7, f, by simp [a1], ⟨c, data, tr, hc, hd, by rw [f.dhi]; exact e1, a4, a3,
        (by intro h; rw [a6] at h; cases h), fun _ => a2⟩, a5, by rw [a1]; exact hhi, Or.inl a6⟩
    | some e =>
      simp only at hds
      refine ⟨by intro i hi; simp at hi, by simp, (by intro h; cases h), ?_⟩
      intro e' h
      cases h
      exact ⟨hds.1, Or.inl hds.2⟩
  | goOn r2 =>
    rw [hdisc] at hout hds
    simp only at hout hds
    obtain ⟨f, a1, a2, a3, a4, a5, a6, a7⟩ := hds
    have hL2 : LoadedR k o r2 := ⟨c, data, tr, hc, hd, by rw [f.dhi]; exact e1, a3, a2,
      by intro _; rw [a6]; exact e4 hB, by intro h; rw [a5] at h; cases h⟩
    have hbyte : ∀ i, r2.dlo + i < r2.dhi → byteAt k o (r.pos + i) = r2.dec.getD i 0 := by
      intro i hi
      have := hL2.byte hq (r2.dlo + i) (by omega) hi
      rw [← a1, ← a4, this]
      congr 1; omega
    have hgot : (r2.dec.take n).length = min n r2.dec.length := List.length_take
    by_cases hbig : (r2.dec.take n).length > r2.dhi - r2.dlo
    · simp only [hbig, ↓reduceIte] at hout
      subst hout
      simp only
      have hlen : (r2.dec.take (r2.dhi - r2.dlo)).length = r2.dhi - r2.dlo := by
        rw [List.length_take]; omega
      refine ⟨?_, by rw [hlen]; omega, (by intro h; cases h),
        by intro e h; cases h; exact ⟨rfl, Or.inr (Or.inl rfl)⟩⟩
      intro i hi
      rw [hlen] at hi
      rw [getD_take _ _ _ hi, hbyte i (by omega)]
    · simp only [hbig, ↓reduceIte] at hout
      have hlen : (r2.dec.take (r2.dec.take n).length).length = (r2.dec.take n).length := by
        rw [List.length_take, List.length_take]; omega
      have hbytes : ∀ i, i < (r2.dec.take (r2.dec.take n).length).length →
          (r2.dec.take (r2.dec.take n).length).getD i 0 = byteAt k o (r.pos + i) := by
        intro i hi
        rw [hlen] at hi
        rw [getD_take _ _ _ hi, hbyte i (by omega)]
      have hrel : r2.dec.drop (r2.dec.take n).length =
          data.drop (r2.dlo + (r2.dec.take n).length - c.dLo) := by
        rw [a2, List.drop_drop]; congr 1; omega
      by_cases hemp : (r2.dec.drop (r2.dec.take n).length).isEmpty = true
      · simp only [hemp, ↓reduceIte] at hout
        by_cases htr : r2.decTrunc = true
        · simp only [htr, ↓reduceIte] at hout
          subst hout
          simp only
          exact ⟨hbytes, by rw [hlen]; omega, (by intro h; cases h),
            by intro e h; cases h; exact ⟨rfl, Or.inr (Or.inr rfl)⟩⟩
        · simp only [htr, Bool.false_eq_true, ↓reduceIte] at hout
          subst hout
          simp only
          refine ⟨hbytes, by rw [hlen]; omega, ?_, by intro e h; cases h⟩
          intro _
          refine ⟨a7, ⟨f.dhi, f.lim, f.closed, f.conc, f.crPos⟩, by rw [hlen, a1]; rfl, ?_, ?_, ?_,
            Or.inl rfl⟩
          · refine ⟨c, data, tr, hc, hd, by show r2.dhi = c.dHi; rw [f.dhi]; exact e1, ?_, ?_,
              (by intro h; cases h), fun _ => rfl⟩
            · show c.dLo ≤ r2.dlo + (r2.dec.take n).length; omega
            · show ([] : List UInt8) = data.drop (r2.dlo + (r2.dec.take n).length - c.dLo)
              rw [← hrel]; exact (List.isEmpty_iff.mp hemp).symm
          · show r2.dlo + (r2.dec.take n).length ≤ r2.pos + (r2.dec.take n).length; omega
          · show r2.pos + (r2.dec.take n).length ≤ r.dhi
            have := f.dhi; omega
      · simp only [hemp, Bool.false_eq_true, ↓reduceIte] at hout
        subst hout
        simp only
        refine ⟨hbytes, by rw [hlen]; omega, ?_, by intro e h; cases h⟩
        intro _
        have hne : r2.dec ≠ [] := by
          intro h0; rw [h0] at hemp; simp at hemp
        have hpos : 0 < r2.dec.length := List.length_pos_iff.mpr hne
        refine ⟨a7, ⟨f.dhi, f.lim, f.closed, f.conc, f.crPos⟩, by rw [hlen, a1], ?_, ?_, ?_,
          Or.inr ⟨a5, by rw [hlen]; omega⟩⟩
        · refine ⟨c, data, tr, hc, hd, by show r2.dhi = c.dHi; rw [f.dhi]; exact e1, ?_, hrel,
            by intro _; show r2.decTrunc = tr; rw [a6]; exact e4 hB,
            by intro h; have : r2.phase = .C := h; rw [a5] at this; cases this⟩
          show c.dLo ≤ r2.dlo + (r2.dec.take n).length; omega
        · show r2.dlo + (r2.dec.take n).length ≤ r2.pos + (r2.dec.take n).length; omega
        · show r2.pos + (r2.dec.take n).length ≤ r.dhi
          have := f.dhi; omega

/-- `readImplicitZeroes` on an exhausted chunk: the NULs it hands out are the file's meaning -/
theorem zeroes_spec {k : Codec} {o q : ChunkReader.Reader} (hq : CRInv o q) (r : R) (n : Nat)
    (hL : LoadedR k o r) (hC : r.phase = .C) (hle : r.dlo ≤ r.pos) (hhi : r.pos ≤ r.dhi) :
    (∀ i, i < (readZeroes r n).2 → byteAt k o (r.pos + i) = 0) ∧
    (readZeroes r n).2 = min n (r.dhi - r.pos) ∧
    (readZeroes r n).1.err = r.err ∧ Frame r (readZeroes r n).1 ∧
    (readZeroes r n).1.pos = r.pos + (readZeroes r n).2 ∧
    (readZeroes r n).1.dlo = (readZeroes r n).1.pos ∧
    ((readZeroes r n).1.phase = .A ∧ (readZeroes r n).1.pos = r.dhi ∨
     (readZeroes r n).1.phase = .C ∧ (readZeroes r n).1.pos < r.dhi ∧ (readZeroes r n).2 = n ∧
       LoadedR k o (readZeroes r n).1) := by
  have hmax : (if r.dlo < r.pos then r.pos else r.dlo) = r.pos := by split <;> omega
  obtain ⟨c, data, tr, hc, hd, e1, e2, e3, e4, e5⟩ := hL
  have hnil := e5 hC
  unfold readZeroes
  simp only [hmax]
  refine ⟨?_, by first | rfl | trivial, by first | rfl | trivial, ⟨rfl, rfl, rfl, rfl, rfl⟩,
    by first | rfl | trivial, by first | rfl | trivial, ?_⟩
  · intro i hi
    have hL : LoadedR k o r := ⟨c, data, tr, hc, hd, e1, e2, e3, e4, e5⟩
    rw [hL.byte hq (r.pos + i) (by omega) (by omega), hnil]
    rfl
  · by_cases hend : r.pos + min n (r.dhi - r.pos) = r.dhi
    · left; simp only [hend, ↓reduceIte, and_self]
    · right
      simp only [hend, ↓reduceIte, true_and]
      refine ⟨by omega, by omega, c, data, tr, hc, hd, e1, by show c.dLo ≤ r.pos + _; omega, ?_,
        (by intro h; cases h), fun _ => hnil⟩
      show r.dec = data.drop (r.pos + min n (r.dhi - r.pos) - c.dLo)
      rw [hnil]
      rw [hnil] at e3
      exact (drop_eq_nil_of_drop_eq_nil data _ _ e3.symm (by omega)).symm

end WuffsVerif.Rac.ByteReader
