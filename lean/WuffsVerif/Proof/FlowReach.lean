/-
C02 facts half: "every time execution reaches that point".  `Reach` describes the
program points an execution can be at — the sub-statement about to run, the store,
and the situation the checker computed for that point (each statement is visited once
by `bcheckBlock`, so a point has one situation) — including points inside loop bodies
after any number of iterations and points that are reached by executions that never
terminate afterwards.  `reach_sound`: at every such point the situation holds.
-/
import WuffsVerif.Proof.FlowMain

namespace WuffsVerif.Proof.Flow
open WuffsVerif.Interval WuffsVerif.WCore WuffsVerif.WFlow
open WuffsVerif.Proof.WCoreBounds WuffsVerif.Proof.WCoreStmt

/-- the stores at the loop head: the one on entry, and the one after each completed
iteration (body fell through or ended in `continue`) -/
inductive Heads (Γ : Ctx) (c : Expr) (body : FStmt) : Env → Env → Prop
  | here {env} : Heads Γ c body env env
  | step {env env1 env2 ob} : evalI env c ≠ 0 → Exec Γ env body ob → ob.next = some env1 →
      Heads Γ c body env1 env2 → Heads Γ c body env env2

/--
`Reach Γ L fs env s L' fs' env' s'`: started on `s` in store `env`, where the checker
(inside the loops `L`) holds the situation `fs`, execution can be about to run the
sub-statement `s'` in store `env'`, where the checker (inside `L'`) holds `fs'`.
The end of a block is the point before its final `skip`.
-/
inductive Reach (Γ : Ctx) :
    List LoopSpec → List Expr → Env → FStmt → List LoopSpec → List Expr → Env → FStmt → Prop
  | here {L fs env s} : Reach Γ L fs env s L fs env s
  | seqL {L fs env a b L' fs' env' s'} : Reach Γ L fs env a L' fs' env' s' →
      Reach Γ L fs env (.seq a b) L' fs' env' s'
  | seqR {L fs fs1 env env1 a b L' fs' env' s'} : checkS L fs a = some fs1 →
      Exec Γ env a (.norm env1) → Reach Γ L fs1 env1 b L' fs' env' s' →
      Reach Γ L fs env (.seq a b) L' fs' env' s'
  | iteT {L fs env c t e L' fs' env' s'} : evalI env c ≠ 0 →
      Reach Γ L (condFacts fs c) env t L' fs' env' s' → Reach Γ L fs env (.ite c t e) L' fs' env' s'
  | iteF {L fs fe env c t e L' fs' env' s'} : evalI env c = 0 → invFacts fs c = some fe →
      Reach Γ L fe env e L' fs' env' s' → Reach Γ L fs env (.ite c t e) L' fs' env' s'
  | body {L fs env envk sp c body L' fs' env' s'} : Heads Γ c body env envk → evalI envk c ≠ 0 →
      Reach Γ (sp :: L) (bodyFacts sp c) envk body L' fs' env' s' →
      Reach Γ L fs env (.while sp c body) L' fs' env' s'

/-- what an accepted `while` was checked for -/
theorem while_accept {L : List LoopSpec} {fs fs1 : List Expr} {sp : LoopSpec} {c : Expr} {body : FStmt}
    (h : checkS L fs (.while sp c body) = some fs1) :
    (∃ f1, checkAsserts fs (nonPost sp) = some f1) ∧ postOK sp c = true ∧
    (constVal c = some 0 ∨ ∃ fe, checkS (sp :: L) (bodyFacts sp c) body = some fe ∧
      (terminates body || (checkAsserts fe (nonPost sp)).isSome) = true) ∧
    fs1 = assumeAll (nonPre sp) := by
  simp only [checkS] at h
  cases h1 : checkAsserts fs (nonPost sp) with
  | none => simp [h1] at h
  | some f1 =>
    simp only [h1] at h
    cases hb : bcheck (assumeAll (nonPost sp)) false c with
    | none => simp [hb] at h
    | some b0 =>
      simp only [hb] at h
      by_cases hP : postOK sp c = true
      · simp only [hP, Bool.not_true, Bool.false_eq_true, if_false] at h
        by_cases h0 : (constVal c == some 0) = true
        · simp only [h0, if_true, Option.some.injEq] at h
          exact ⟨⟨f1, rfl⟩, hP, Or.inl (by simpa using h0), h.symm⟩
        · simp only [h0] at h
          cases hk : checkS (sp :: L) (bodyFacts sp c) body with
          | none => simp [hk] at h
          | some fe =>
            simp only [hk] at h
            by_cases hend : (terminates body || (checkAsserts fe (nonPost sp)).isSome) = true
            · rw [if_pos hend] at h
              cases h
              exact ⟨⟨f1, rfl⟩, hP, Or.inr ⟨fe, rfl, hend⟩, rfl⟩
            · rw [if_neg hend] at h
              cases h
      · simp [hP] at h

/-- pre + inv hold at every loop head -/
theorem heads_inv {Γ : Ctx} {L : List LoopSpec} {sp : LoopSpec} {c : Expr} {body : FStmt}
    (hsp : ∀ a ∈ sp, CondOK Γ a.2) (hcc : CondOK Γ c) (hwb : wtS Γ body) (hl : WfLoops Γ L)
    (hBody : constVal c = some 0 ∨ ∃ fe, checkS (sp :: L) (bodyFacts sp c) body = some fe ∧
      (terminates body || (checkAsserts fe (nonPost sp)).isSome) = true)
    {env envk : Env} (hh : Heads Γ c body env envk) :
    EnvOk Γ env → CondsHold env (nonPost sp) → EnvOk Γ envk ∧ CondsHold envk (nonPost sp) := by
  obtain ⟨wPost, _, _⟩ := conds_wt_of hsp
  induction hh with
  | here => intro he hi; exact ⟨he, hi⟩
  | @step env env1 env2 ob hc1 hb hn _ ih =>
    intro he hinv
    have Shd : Situation Γ env (assumeAll (nonPost sp)) := situation_assume he hinv wPost
    rcases hBody with h0 | ⟨fe, hck, hend⟩
    · rw [constVal_some h0] at hc1; simp [evalI] at hc1
    · have Sb : Situation Γ env (bodyFacts sp c) := situation_cond Shd hcc hc1
      have ob_ok := exec_sound body (sp :: L) _ _ env ob hwb (wf_cons hl hsp) hck Sb hb
      rcases next_cases hn with h | h
      · subst h
        simp only [Bool.or_eq_true] at hend
        rcases hend with ht | ha
        · exact absurd ht (fun ht => terminates_no_norm hb env1 rfl ht)
        · cases hq : checkAsserts fe (nonPost sp) with
          | none => simp [hq] at ha
          | some fq =>
            obtain ⟨tp, S2⟩ := checkAsserts_sound _ _ _ ob_ok wPost hq
            exact ih S2.envOk tp
      · subst h
        obtain ⟨he1, sp0, hk, hc⟩ := ob_ok
        simp only [List.getElem?_cons_zero, Option.some.injEq] at hk
        subst hk
        exact ih he1 hc

/--
**reach_sound**: at every point an execution of an accepted statement can reach —
after any prefix of the execution, inside any nesting of branches and loop iterations,
whatever impure callees and resuming callers did before — the checker's situation for
that point holds in the store, and the rest of the program is accepted from it.
-/
theorem reach_sound {Γ : Ctx} {L L' : List LoopSpec} {fs fs' : List Expr} {env env' : Env}
    {s s' : FStmt} (hr : Reach Γ L fs env s L' fs' env' s') :
    wtS Γ s → WfLoops Γ L → (checkS L fs s).isSome = true → Situation Γ env fs →
      Situation Γ env' fs' ∧ wtS Γ s' ∧ WfLoops Γ L' ∧ (checkS L' fs' s').isSome = true := by
  induction hr with
  | here => intro hw hl hc S; exact ⟨S, hw, hl, hc⟩
  | @seqL L fs env a b L' fs' env' s' _ ih =>
    intro hw hl hc S
    simp only [wtS] at hw
    simp only [checkS] at hc
    cases h1 : checkS L fs a with
    | none => simp [h1] at hc
    | some fa => exact ih hw.1 hl (by simp [h1]) S
  | @seqR L fs fs1 env env1 a b L' fs' env' s' hca hxa _ ih =>
    intro hw hl hc S
    simp only [wtS] at hw
    simp only [checkS, hca] at hc
    split at hc
    · cases hc
    · have Sa := exec_sound a L fs fs1 env _ hw.1 hl hca S hxa
      exact ih hw.2 hl hc Sa
  | @iteT L fs env c t e L' fs' env' s' hct _ ih =>
    intro hw hl hc S
    simp only [wtS] at hw
    obtain ⟨hcc, hwt, _⟩ := hw
    simp only [checkS] at hc
    cases hb : bcheck fs false c with
    | none => simp [hb] at hc
    | some b0 =>
      simp only [hb] at hc
      cases h1 : checkS L (condFacts fs c) t with
      | none => simp [h1] at hc
      | some ft' => exact ih hwt hl (by simp [h1]) (situation_cond S hcc hct)
  | @iteF L fs fe env c t e L' fs' env' s' hcf hinv _ ih =>
    intro hw hl hc S
    simp only [wtS] at hw
    obtain ⟨hcc, _, hwe⟩ := hw
    simp only [checkS] at hc
    cases hb : bcheck fs false c with
    | none => simp [hb] at hc
    | some b0 =>
      simp only [hb] at hc
      cases h1 : checkS L (condFacts fs c) t with
      | none => simp [h1] at hc
      | some ft' =>
        simp only [h1, hinv] at hc
        cases h3 : checkS L fe e with
        | none => simp [h3] at hc
        | some fe' => exact ih hwe hl (by simp [h3]) (situation_invcond S hcc hcf hinv)
  | @body L fs env envk sp c body L' fs' env' s' hh hck _ ih =>
    intro hw hl hc S
    simp only [wtS] at hw
    obtain ⟨hsp, hcc, hwb⟩ := hw
    obtain ⟨wPost, _, _⟩ := conds_wt_of hsp
    cases hq : checkS L fs (.while sp c body) with
    | none => simp [hq] at hc
    | some fs1 =>
      obtain ⟨⟨f1, h1⟩, _, hBody, _⟩ := while_accept hq
      obtain ⟨tin, _⟩ := checkAsserts_sound _ _ _ S wPost h1
      obtain ⟨hek, hik⟩ := heads_inv hsp hcc hwb hl hBody hh S.envOk tin
      have Shd : Situation Γ envk (assumeAll (nonPost sp)) := situation_assume hek hik wPost
      rcases hBody with h0 | ⟨fe, hcb, _⟩
      · rw [constVal_some h0] at hck; simp [evalI] at hck
      · exact ih hwb (wf_cons hl hsp) (by simp [hcb]) (situation_cond Shd hcc hck)

/-! ## the points the driver reports are points of `Reach` -/

/-- `Reach` without the run-time premises: the syntactic program points and the situation
the checker computes for each -/
inductive SynReach : List LoopSpec → List Expr → FStmt → List LoopSpec → List Expr → FStmt → Prop
  | here {L fs s} : SynReach L fs s L fs s
  | seqL {L fs a b L' fs' s'} : SynReach L fs a L' fs' s' → SynReach L fs (.seq a b) L' fs' s'
  | seqR {L fs fs1 a b L' fs' s'} : checkS L fs a = some fs1 → SynReach L fs1 b L' fs' s' →
      SynReach L fs (.seq a b) L' fs' s'
  | iteT {L fs c t e L' fs' s'} : SynReach L (condFacts fs c) t L' fs' s' →
      SynReach L fs (.ite c t e) L' fs' s'
  | iteF {L fs fe c t e L' fs' s'} : invFacts fs c = some fe → SynReach L fe e L' fs' s' →
      SynReach L fs (.ite c t e) L' fs' s'
  | body {L fs sp c body L' fs' s'} : SynReach (sp :: L) (bodyFacts sp c) body L' fs' s' →
      SynReach L fs (.while sp c body) L' fs' s'

/-- every run-time point is a syntactic point with the same situation -/
theorem reach_syn {Γ : Ctx} {L L' : List LoopSpec} {fs fs' : List Expr} {env env' : Env}
    {s s' : FStmt} (h : Reach Γ L fs env s L' fs' env' s') : SynReach L fs s L' fs' s' := by
  induction h with
  | here => exact .here
  | seqL _ ih => exact .seqL ih
  | seqR hc _ _ ih => exact .seqR hc ih
  | iteT _ _ ih => exact .iteT ih
  | iteF _ hi _ ih => exact .iteF hi ih
  | body _ _ _ ih => exact .body ih

theorem points_none :
    ∀ (s : FStmt), (∀ L, ∀ p ∈ points L none s, p = none) ∧ (∀ L, ∀ p ∈ innerPoints L none s, p = none) := by
  intro s
  induction s with
  | seq a b iha ihb =>
    refine ⟨?_, ?_⟩
    · intro L p hp
      simp only [points, List.mem_append, List.mem_singleton, List.append_assoc, List.cons_append,
        List.nil_append, List.mem_cons] at hp
      rcases hp with h | h | h
      · exact h
      · exact iha.2 L p h
      · have : (if a.endsFlow = true then none else (none : Option (List Expr)).bind (checkS L · a)) = none := by
          split <;> rfl
        rw [this] at h
        exact ihb.1 L p h
    · intro L p hp; simp [innerPoints] at hp
  | ite c t e iht ihe =>
    refine ⟨?_, ?_⟩
    · intro L p hp; simpa [points] using hp
    · intro L p hp
      simp only [innerPoints, Option.map_none, Option.bind_none, List.mem_append] at hp
      rcases hp with h | h
      · exact iht.1 L p h
      · split at h
        · cases h
        · exact ihe.1 L p h
  | «while» sp c body ihb =>
    refine ⟨?_, ?_⟩
    · intro L p hp; simpa [points] using hp
    · intro L p hp
      simp only [innerPoints, Option.map_none] at hp
      exact ihb.1 _ p hp
  | skip => exact ⟨fun L p hp => by simpa [points] using hp, fun L p hp => by simp [innerPoints] at hp⟩
  | base st => exact ⟨fun L p hp => by simpa [points] using hp, fun L p hp => by simp [innerPoints] at hp⟩
  | assert c r => exact ⟨fun L p hp => by simpa [points] using hp, fun L p hp => by simp [innerPoints] at hp⟩
  | jump b k => exact ⟨fun L p hp => by simpa [points] using hp, fun L p hp => by simp [innerPoints] at hp⟩
  | call args => exact ⟨fun L p hp => by simpa [points] using hp, fun L p hp => by simp [innerPoints] at hp⟩
  | callAssign lhs retTy args => exact ⟨fun L p hp => by simpa [points] using hp, fun L p hp => by simp [innerPoints] at hp⟩
  | yield => exact ⟨fun L p hp => by simpa [points] using hp, fun L p hp => by simp [innerPoints] at hp⟩
  | cocall args => exact ⟨fun L p hp => by simpa [points] using hp, fun L p hp => by simp [innerPoints] at hp⟩
  | ret e => exact ⟨fun L p hp => by simpa [points] using hp, fun L p hp => by simp [innerPoints] at hp⟩

/--
**points_are_reach_points**: every situation that the model reports for a program point
(`points`, what the driver prints for `pt k` and the harness compares with the real
checker's `assert false` probe) is the situation of a syntactic point of `Reach` — the
points `facts_hold` speaks about.
-/
theorem points_syn :
    ∀ (s : FStmt),
      (∀ L fs p fs', p ∈ points L (some fs) s → p = some fs' → ∃ L' s', SynReach L fs s L' fs' s') ∧
      (∀ L fs p fs', p ∈ innerPoints L (some fs) s → p = some fs' → ∃ L' s', SynReach L fs s L' fs' s') := by
  intro s
  induction s with
  | seq a b iha ihb =>
    refine ⟨?_, ?_⟩
    · intro L fs p fs' hp he
      simp only [points, List.mem_append, List.mem_singleton, List.append_assoc, List.cons_append,
        List.nil_append, List.mem_cons] at hp
      rcases hp with h | h | h
      · subst h; cases he; exact ⟨L, _, .here⟩
      · obtain ⟨L', s', hr⟩ := iha.2 L fs p fs' h he
        exact ⟨L', s', .seqL hr⟩
      · by_cases hef : a.endsFlow = true
        · simp only [hef, if_true] at h
          have := (points_none b).1 L p h
          subst this; cases he
        · simp only [hef, Option.bind_some] at h
          cases hc : checkS L fs a with
          | none =>
            simp only [hc] at h
            have := (points_none b).1 L p h
            subst this; cases he
          | some fs1 =>
            simp only [hc] at h
            obtain ⟨L', s', hr⟩ := ihb.1 L fs1 p fs' h he
            exact ⟨L', s', .seqR hc hr⟩
    · intro L fs p fs' hp; simp [innerPoints] at hp
  | ite c t e iht ihe =>
    refine ⟨?_, ?_⟩
    · intro L fs p fs' hp he
      simp only [points, List.mem_singleton] at hp
      subst hp; cases he; exact ⟨L, _, .here⟩
    · intro L fs p fs' hp he
      simp only [innerPoints, Option.map_some, Option.bind_some, List.mem_append] at hp
      rcases hp with h | h
      · obtain ⟨L', s', hr⟩ := iht.1 L _ p fs' h he
        exact ⟨L', s', .iteT hr⟩
      · split at h
        · cases h
        · cases hi : invFacts fs c with
          | none =>
            simp only [hi] at h
            have := (points_none e).1 L p h
            subst this; cases he
          | some fe =>
            simp only [hi] at h
            obtain ⟨L', s', hr⟩ := ihe.1 L fe p fs' h he
            exact ⟨L', s', .iteF hi hr⟩
  | «while» sp c body ihb =>
    refine ⟨?_, ?_⟩
    · intro L fs p fs' hp he
      simp only [points, List.mem_singleton] at hp
      subst hp; cases he; exact ⟨L, _, .here⟩
    · intro L fs p fs' hp he
      simp only [innerPoints, Option.map_some] at hp
      obtain ⟨L', s', hr⟩ := ihb.1 _ _ p fs' hp he
      exact ⟨L', s', .body hr⟩
  | skip =>
    refine ⟨?_, fun L fs p fs' hp => by simp [innerPoints] at hp⟩
    intro L fs p fs' hp he
    simp only [points, List.mem_singleton] at hp
    subst hp; cases he; exact ⟨L, _, .here⟩
  | base st =>
    refine ⟨?_, fun L fs p fs' hp => by simp [innerPoints] at hp⟩
    intro L fs p fs' hp he
    simp only [points, List.mem_singleton] at hp
    subst hp; cases he; exact ⟨L, _, .here⟩
  | assert c r =>
    refine ⟨?_, fun L fs p fs' hp => by simp [innerPoints] at hp⟩
    intro L fs p fs' hp he
    simp only [points, List.mem_singleton] at hp
    subst hp; cases he; exact ⟨L, _, .here⟩
  | jump b k =>
    refine ⟨?_, fun L fs p fs' hp => by simp [innerPoints] at hp⟩
    intro L fs p fs' hp he
    simp only [points, List.mem_singleton] at hp
    subst hp; cases he; exact ⟨L, _, .here⟩
  | call args =>
    refine ⟨?_, fun L fs p fs' hp => by simp [innerPoints] at hp⟩
    intro L fs p fs' hp he
    simp only [points, List.mem_singleton] at hp
    subst hp; cases he; exact ⟨L, _, .here⟩
  | callAssign lhs retTy args =>
    refine ⟨?_, fun L fs p fs' hp => by simp [innerPoints] at hp⟩
    intro L fs p fs' hp he
    simp only [points, List.mem_singleton] at hp
    subst hp; cases he; exact ⟨L, _, .here⟩
  | yield =>
    refine ⟨?_, fun L fs p fs' hp => by simp [innerPoints] at hp⟩
    intro L fs p fs' hp he
    simp only [points, List.mem_singleton] at hp
    subst hp; cases he; exact ⟨L, _, .here⟩
  | cocall args =>
    refine ⟨?_, fun L fs p fs' hp => by simp [innerPoints] at hp⟩
    intro L fs p fs' hp he
    simp only [points, List.mem_singleton] at hp
    subst hp; cases he; exact ⟨L, _, .here⟩
  | ret e =>
    refine ⟨?_, fun L fs p fs' hp => by simp [innerPoints] at hp⟩
    intro L fs p fs' hp he
    simp only [points, List.mem_singleton] at hp
    subst hp; cases he; exact ⟨L, _, .here⟩

end WuffsVerif.Proof.Flow
