/-
C02 facts half: "every time execution reaches that point".  `Reach` describes the
program points an execution can be at — the sub-statement about to run, the store,
and the situation the checker computed for that point (each statement is visited once
by `bcheckBlock`, so a point has one situation) — including points inside loop bodies
after any number of iterations and points that are reached by executions that never
terminate afterwards.  `reach_sound`: at every such point the situation holds.
-/
import WuffsVerif.Proof.FlowMain

namespace WuffsVerif.Proof.Flow
open WuffsVerif.Interval WuffsVerif.WCore WuffsVerif.WFlow
open WuffsVerif.Proof.WCoreBounds WuffsVerif.Proof.WCoreStmt

/-- the stores at the loop head: the one on entry, and the one after each completed
iteration (body fell through or ended in `continue`) -/
inductive Heads (Γ : Ctx) (c : Expr) (body : FStmt) : Env → Env → Prop
  | here {env} : Heads Γ c body env env
  | step {env env1 env2 ob} : evalI env c ≠ 0 → Exec Γ env body ob → ob.next = some env1 →
      Heads Γ c body env1 env2 → Heads Γ c body env env2

/--
`Reach Γ L fs env s L' fs' env' s'`: started on `s` in store `env`, where the checker
(inside the loops `L`) holds the situation `fs`, execution can be about to run the
sub-statement `s'` in store `env'`, where the checker (inside `L'`) holds `fs'`.
The end of a block is the point before its final `skip`.
-/
inductive Reach (Γ : Ctx) :
    List LoopSpec → List Expr → Env → FStmt → List LoopSpec → List Expr → Env → FStmt → Prop
  | here {L fs env s} : Reach Γ L fs env s L fs env s
  | seqL {L fs env a b L' fs' env' s'} : Reach Γ L fs env a L' fs' env' s' →
      Reach Γ L fs env (.seq a b) L' fs' env' s'
  | seqR {L fs fs1 env env1 a b L' fs' env' s'} : checkS L fs a = some fs1 →
      Exec Γ env a (.norm env1) → Reach Γ L fs1 env1 b L' fs' env' s' →
      Reach Γ L fs env (.seq a b) L' fs' env' s'
  | iteT {L fs env c t e L' fs' env' s'} : evalI env c ≠ 0 →
      Reach Γ L (condFacts fs c) env t L' fs' env' s' → Reach Γ L fs env (.ite c t e) L' fs' env' s'
  | iteF {L fs fe env c t e L' fs' env' s'} : evalI env c = 0 → invFacts fs c = some fe →
      Reach Γ L fe env e L' fs' env' s' → Reach Γ L fs env (.ite c t e) L' fs' env' s'
  | body {L fs env envk sp c body L' fs' env' s'} : Heads Γ c body env envk → evalI envk c ≠ 0 →
      Reach Γ (sp :: L) (bodyFacts sp c) envk body L' fs' env' s' →
      Reach Γ L fs env (.while sp c body) L' fs' env' s'

/-- what an accepted `while` was checked for -/
theorem while_accept {L : List LoopSpec} {fs fs1 : List Expr} {sp : LoopSpec} {c : Expr} {body : FStmt}
    (h : checkS L fs (.while sp c body) = some fs1) :
    (∃ f1, checkAsserts fs (nonPost sp) = some f1) ∧ postOK sp c = true ∧
    (constVal c = some 0 ∨ ∃ fe, checkS (sp :: L) (bodyFacts sp c) body = some fe ∧
      (terminates body || (checkAsserts fe (nonPost sp)).isSome) = true) ∧
    fs1 = assumeAll (nonPre sp) := by
  simp only [checkS] at h
  cases h1 : checkAsserts fs (nonPost sp) with
  | none => simp [h1] at h
  | some f1 =>
    simp only [h1] at h
    cases hb : bcheck (assumeAll (nonPost sp)) false c with
    | none => simp [hb] at h
    | some b0 =>
      simp only [hb] at h
      by_cases hP : postOK sp c = true
      · simp only [hP, Bool.not_true, Bool.false_eq_true, if_false] at h
        by_cases h0 : (constVal c == some 0) = true
        · simp only [h0, if_true, Option.some.injEq] at h
          exact ⟨⟨f1, rfl⟩, hP, Or.inl (by simpa using h0), h.symm⟩
        · simp only [h0] at h
          cases hk : checkS (sp :: L) (bodyFacts sp c) body with
          | none => simp [hk] at h
          | some fe =>
            simp only [hk] at h
            by_cases hend : (terminates body || (checkAsserts fe (nonPost sp)).isSome) = true
            · rw [if_pos hend] at h
              cases h
              exact ⟨⟨f1, rfl⟩, hP, Or.inr ⟨fe, rfl, hend⟩, rfl⟩
            · rw [if_neg hend] at h
              cases h
      · simp [hP] at h

/-- pre + inv hold at every loop head -/
theorem heads_inv {Γ : Ctx} {L : List LoopSpec} {sp : LoopSpec} {c : Expr} {body : FStmt}
    (hsp : ∀ a ∈ sp, CondOK Γ a.2) (hcc : CondOK Γ c) (hwb : wtS Γ body) (hl : WfLoops Γ L)
    (hBody : constVal c = some 0 ∨ ∃ fe, checkS (sp :: L) (bodyFacts sp c) body = some fe ∧
      (terminates body || (checkAsserts fe (nonPost sp)).isSome) = true)
    {env envk : Env} (hh : Heads Γ c body env envk) :
    EnvOk Γ env → CondsHold env (nonPost sp) → EnvOk Γ envk ∧ CondsHold envk (nonPost sp) := by
  obtain ⟨wPost, _, _⟩ := conds_wt_of hsp
  induction hh with
  | here => intro he hi; exact ⟨he, hi⟩
  | @step env env1 env2 ob hc1 hb hn _ ih =>
    intro he hinv
    have Shd : Situation Γ env (assumeAll (nonPost sp)) := situation_assume he hinv wPost
    rcases hBody with h0 | ⟨fe, hck, hend⟩
    · rw [constVal_some h0] at hc1; simp [evalI] at hc1
    · have Sb : Situation Γ env (bodyFacts sp c) := situation_cond Shd hcc hc1
      have ob_ok := exec_sound body (sp :: L) _ _ env ob hwb (wf_cons hl hsp) hck Sb hb
      rcases next_cases hn with h | h
      · subst h
        simp only [Bool.or_eq_true] at hend
        rcases hend with ht | ha
        · exact absurd ht (fun ht => terminates_no_norm hb env1 rfl ht)
        · cases hq : checkAsserts fe (nonPost sp) with
          | none => simp [hq] at ha
          | some fq =>
            obtain ⟨tp, S2⟩ := checkAsserts_sound _ _ _ ob_ok wPost hq
            exact ih S2.envOk tp
      · subst h
        obtain ⟨he1, sp0, hk, hc⟩ := ob_ok
        simp only [List.getElem?_cons_zero, Option.some.injEq] at hk
        subst hk
        exact ih he1 hc

/--
**reach_sound**: at every point an execution of an accepted statement can reach —
after any prefix of the execution, inside any nesting of branches and loop iterations,
whatever impure callees and resuming callers did before — the checker's situation for
that point holds in the store, and the rest of the program is accepted from it.
-/
theorem reach_sound {Γ : Ctx} {L L' : List LoopSpec} {fs fs' : List Expr} {env env' : Env}
    {s s' : FStmt} (hr : Reach Γ L fs env s L' fs' env' s') :
    wtS Γ s → WfLoops Γ L → (checkS L fs s).isSome = true → Situation Γ env fs →
      Situation Γ env' fs' ∧ wtS Γ s' ∧ WfLoops Γ L' ∧ (checkS L' fs' s').isSome = true := by
  induction hr with
  | here => intro hw hl hc S; exact ⟨S, hw, hl, hc⟩
  | @seqL L fs env a b L' fs' env' s' _ ih =>
    intro hw hl hc S
    simp only [wtS] at hw
    simp only [checkS] at hc
    cases h1 : checkS L fs a with
    | none => simp [h1] at hc
    | some fa => exact ih hw.1 hl (by simp [h1]) S
  | @seqR L fs fs1 env env1 a b L' fs' env' s' hca hxa _ ih =>
    intro hw hl hc S
    simp only [wtS] at hw
    simp only [checkS, hca] at hc
    split at hc
    · cases hc
    · have Sa := exec_sound a L fs fs1 env _ hw.1 hl hca S hxa
      exact ih hw.2 hl hc Sa
  | @iteT L fs env c t e L' fs' env' s' hct _ ih =>
    intro hw hl hc S
    simp only [wtS] at hw
    obtain ⟨hcc, hwt, _⟩ := hw
    simp only [checkS] at hc
    cases hb : bcheck fs false c with
    | none => simp [hb] at hc
    | some b0 =>
      simp only [hb] at hc
      cases h1 : checkS L (condFacts fs c) t with
      | none => simp [h1] at hc
      | some ft' => exact ih hwt hl (by simp [h1]) (situation_cond S hcc hct)
  | @iteF L fs fe env c t e L' fs' env' s' hcf hinv _ ih =>
    intro hw hl hc S
    simp only [wtS] at hw
    obtain ⟨hcc, _, hwe⟩ := hw
    simp only [checkS] at hc
    cases hb : bcheck fs false c with
    | none => simp [hb] at hc
    | some b0 =>
      simp only [hb] at hc
      cases h1 : checkS L (condFacts fs c) t with
      | none => simp [h1] at hc
      | some ft' =>
        simp only [h1, hinv] at hc
        cases h3 : checkS L fe e with
        | none => simp [h3] at hc
        | some fe' => exact ih hwe hl (by simp [h3]) (situation_invcond S hcc hcf hinv)
  | @body L fs env envk sp c body L' fs' env' s' hh hck _ ih =>
    intro hw hl hc S
    simp only [wtS] at hw
    obtain ⟨hsp, hcc, hwb⟩ := hw
    obtain ⟨wPost, _, _⟩ := conds_wt_of hsp
    cases hq : checkS L fs (.while sp c body) with
    | none => simp [hq] at hc
    | some fs1 =>
      obtain ⟨⟨f1, h1⟩, _, hBody, _⟩ := while_accept hq
      obtain ⟨tin, _⟩ := checkAsserts_sound _ _ _ S wPost h1
      obtain ⟨hek, hik⟩ := heads_inv hsp hcc hwb hl hBody hh S.envOk tin
      have Shd : Situation Γ envk (assumeAll (nonPost sp)) := situation_assume hek hik wPost
      rcases hBody with h0 | ⟨fe, hcb, _⟩
      · rw [constVal_some h0] at hck; simp [evalI] at hck
      · exact ih hwb (wf_cons hl hsp) (by simp [hcb]) (situation_cond Shd hcc hck)

end WuffsVerif.Proof.Flow
