/-
Proofs about the loops of `Model/Hash.lean`:
* `crcLoop` (table-driven, over a buffer range) is a fold of the byte step over the slice; with the
  specification table it computes `crc32Spec`;
* `adlerInner` never overflows `uint32` within 5552 bytes when started below 65536, and
  `adlerOuter` (the chunked loop of `updateAdler32`) computes the mathematical Adler-32 state.
-/
import WuffsVerif.Model.Hash
import WuffsVerif.Proof.HashBuf
import WuffsVerif.Proof.HashCrc

namespace WuffsVerif.Hash

/-! ## CRC -/

theorem crcLoop_eq_foldl (tbl : Array UInt32) (buf : Array UInt8) (n i : Nat) (h : UInt32)
    (hb : i + n ≤ buf.size) :
    crcLoop tbl buf n i h = (slice buf i (i + n)).foldl (crcTableStep tbl) h := by
  induction n generalizing i h with
  | zero => simp [crcLoop, slice_of_le]
  | succ n ih =>
    rw [crcLoop, ih _ _ (by omega), slice_cons buf i (i + (n + 1)) (by omega) hb]
    simp only [List.foldl_cons]
    congr 2
    omega

theorem crcTableStep_spec_fun : crcTableStep crcTableSpec = crcByteSpec := by
  funext h v
  exact crcTableStep_spec h v

/-- The table-driven loop with the specification table is the bit-serial CRC-32 of the slice. -/
theorem crc32Range_spec (buf : Array UInt8) (s e : Nat) (hse : s ≤ e) (he : e ≤ buf.size) :
    crc32Range crcTableSpec buf s e = crc32Spec (slice buf s e) := by
  unfold crc32Range crc32Spec crcRawSpec
  rw [crcLoop_eq_foldl _ _ _ _ _ (by omega), crcTableStep_spec_fun]
  congr 3
  omega

/-! ## Adler-32 -/

/-- the two sums without any reduction -/
def rawStep (s : Nat × Nat) (x : UInt8) : Nat × Nat := (s.1 + x.toNat, s.2 + (s.1 + x.toNat))

def rawFold (s : Nat × Nat) (l : List UInt8) : Nat × Nat := l.foldl rawStep s

theorem rawFold_cons (s : Nat × Nat) (x : UInt8) (l : List UInt8) :
    rawFold s (x :: l) = rawFold (rawStep s x) l := rfl

theorem rawFold_mono (s : Nat × Nat) (l : List UInt8) :
    s.1 ≤ (rawFold s l).1 ∧ s.2 ≤ (rawFold s l).2 := by
  induction l generalizing s with
  | nil => simp [rawFold]
  | cons x t ih =>
    rw [rawFold_cons]
    have := ih (rawStep s x)
    simp only [rawStep] at this ⊢
    omega

/-- triangular numbers -/
def tri : Nat → Nat
  | 0 => 0
  | n + 1 => tri n + (n + 1)

theorem two_tri (n : Nat) : 2 * tri n = n * (n + 1) := by
  induction n with
  | zero => rfl
  | succ n ih =>
    simp only [tri, Nat.mul_add, Nat.add_mul, Nat.mul_one, Nat.one_mul] at ih ⊢
    omega

theorem rawFold_bound (s : Nat × Nat) (l : List UInt8) :
    (rawFold s l).1 ≤ s.1 + 255 * l.length ∧
    (rawFold s l).2 ≤ s.2 + l.length * s.1 + 255 * tri l.length := by
  induction l generalizing s with
  | nil => simp [rawFold, tri]
  | cons x t ih =>
    rw [rawFold_cons]
    have h := ih (rawStep s x)
    have hx : x.toNat ≤ 255 := by have := x.toNat_lt; omega
    have hm : t.length * x.toNat ≤ t.length * 255 := Nat.mul_le_mul_left _ hx
    simp only [rawStep, List.length_cons, tri, Nat.mul_add, Nat.add_mul, Nat.one_mul, Nat.mul_one] at h ⊢
    omega

/-- 5552 is small enough: started below 65536, the unreduced sums stay below 2^32. -/
theorem rawFold_lt (a b : Nat) (l : List UInt8) (ha : a ≤ 65535) (hb : b ≤ 65535) (hl : l.length ≤ 5552) :
    (rawFold (a, b) l).1 < 2 ^ 32 ∧ (rawFold (a, b) l).2 < 2 ^ 32 := by
  have h := rawFold_bound (a, b) l
  have h1 : l.length * a ≤ 5552 * 65535 := Nat.mul_le_mul hl ha
  have h2 : l.length * (l.length + 1) ≤ 5552 * 5553 := Nat.mul_le_mul hl (by omega)
  have h3 := two_tri l.length
  simp only at h
  omega

theorem toNat_add_of_lt (a b : UInt32) (h : a.toNat + b.toNat < 2 ^ 32) : (a + b).toNat = a.toNat + b.toNat := by
  rw [UInt32.toNat_add]
  exact Nat.mod_eq_of_lt h

/-- the `uint32` inner loop computes the unreduced sums exactly as long as these fit in 32 bits -/
theorem adlerInner_eq_rawFold (buf : Array UInt8) (n i : Nat) (a b : UInt32) (hsz : i + n ≤ buf.size)
    (hfit : (rawFold (a.toNat, b.toNat) (slice buf i (i + n))).2 < 2 ^ 32) :
    ((adlerInner buf n i a b).1.toNat, (adlerInner buf n i a b).2.toNat)
      = rawFold (a.toNat, b.toNat) (slice buf i (i + n)) := by
  induction n generalizing i a b with
  | zero => simp [adlerInner, slice_of_le, rawFold]
  | succ n ih =>
    rw [slice_cons buf i (i + (n + 1)) (by omega) hsz] at hfit ⊢
    rw [rawFold_cons] at hfit ⊢
    have hmono := rawFold_mono (rawStep (a.toNat, b.toNat) (rd buf i)) (slice buf (i + 1) (i + (n + 1)))
    simp only [rawStep] at hmono hfit ⊢
    have hb := b.toNat_lt
    have hx : ((rd buf i).toUInt32).toNat = (rd buf i).toNat := by simp
    have ea : (a + (rd buf i).toUInt32).toNat = a.toNat + (rd buf i).toNat := by
      rw [toNat_add_of_lt _ _ (by omega), hx]
    have eb : (b + (a + (rd buf i).toUInt32)).toNat = b.toNat + (a.toNat + (rd buf i).toNat) := by
      rw [toNat_add_of_lt _ _ (by omega), ea]
    rw [adlerInner]
    have e : i + 1 + n = i + (n + 1) := by omega
    have := ih (i + 1) (a + (rd buf i).toUInt32) (b + (a + (rd buf i).toUInt32)) (by omega)
      (by rw [ea, eb, e]; exact hfit)
    rw [this, ea, eb, e]

theorem Adler.update_cons (s : Adler) (x : UInt8) (l : List UInt8) :
    s.update (x :: l) = (s.step x).update l := rfl

theorem Adler.update_append (s : Adler) (a b : List UInt8) :
    s.update (a ++ b) = (s.update a).update b := by
  simp [Adler.update, List.foldl_append]

/-- reducing only at the end gives the mathematical state -/
theorem update_eq_rawFold_mod (a b : Nat) (l : List UInt8) :
    Adler.update ⟨a % 65521, b % 65521⟩ l
      = ⟨(rawFold (a, b) l).1 % 65521, (rawFold (a, b) l).2 % 65521⟩ := by
  induction l generalizing a b with
  | nil => simp [Adler.update, rawFold]
  | cons x t ih =>
    rw [Adler.update_cons, rawFold_cons]
    have : Adler.step ⟨a % 65521, b % 65521⟩ x
        = ⟨(a + x.toNat) % 65521, (b + (a + x.toNat)) % 65521⟩ := by
      simp only [Adler.step]
      congr 1 <;> omega
    rw [this, ih]
    rfl

/-- `adler_chunked_eq_spec`: the chunked `uint32` loop of `updateAdler32`, started from a reduced
state, ends in the mathematical Adler-32 state of the bytes `buf[ei:ej]`; no overflow on the way
(proved through `rawFold_lt`, not assumed). -/
theorem adlerOuter_spec (buf : Array UInt8) (ei ej : Nat) (a b : UInt32)
    (ha : a.toNat < 65521) (hb : b.toNat < 65521) (hsz : ej ≤ buf.size) :
    let r := adlerOuter buf ei ej a b
    let s := Adler.update ⟨a.toNat, b.toNat⟩ (slice buf ei ej)
    r.1.toNat = s.a ∧ r.2.toNat = s.b ∧ s.a < 65521 ∧ s.b < 65521 := by
  induction h : ej - ei using Nat.strongRecOn generalizing ei a b with
  | _ d ih =>
    rw [adlerOuter]
    by_cases hlt : ei < ej
    · simp only [hlt, ↓reduceDIte]
      generalize hend : (if ei + 5552 > ej then ej else ei + 5552) = end_
      have hend1 : ei < end_ ∧ end_ ≤ ej ∧ end_ - ei ≤ 5552 := by
        subst hend; split <;> omega
      have hslice : slice buf ei ej = slice buf ei end_ ++ slice buf end_ ej :=
        slice_append buf ei end_ ej (by omega) (by omega) hsz
      have hlen : (slice buf ei end_).length ≤ 5552 := by
        rw [length_slice _ _ _ (by omega)]; omega
      have hfit := rawFold_lt a.toNat b.toNat (slice buf ei end_) (by omega) (by omega) hlen
      have e2 : ei + (end_ - ei) = end_ := by omega
      have hin := adlerInner_eq_rawFold buf (end_ - ei) ei a b (by omega) (by rw [e2]; exact hfit.2)
      rw [e2] at hin
      have hM : (65521 : UInt32).toNat = 65521 := by decide
      have hmod := update_eq_rawFold_mod a.toNat b.toNat (slice buf ei end_)
      rw [Nat.mod_eq_of_lt ha, Nat.mod_eq_of_lt hb] at hmod
      have h1 : ((adlerInner buf (end_ - ei) ei a b).1 % 65521).toNat
          = (Adler.update ⟨a.toNat, b.toNat⟩ (slice buf ei end_)).a := by
        rw [UInt32.toNat_mod, hM, hmod]
        have := congrArg Prod.fst hin
        simp only at this
        rw [this]
      have h2 : ((adlerInner buf (end_ - ei) ei a b).2 % 65521).toNat
          = (Adler.update ⟨a.toNat, b.toNat⟩ (slice buf ei end_)).b := by
        rw [UInt32.toNat_mod, hM, hmod]
        have := congrArg Prod.snd hin
        simp only at this
        rw [this]
      have hlt1 : ((adlerInner buf (end_ - ei) ei a b).1 % 65521).toNat < 65521 := by
        rw [UInt32.toNat_mod, hM]; exact Nat.mod_lt _ (by decide)
      have hlt2 : ((adlerInner buf (end_ - ei) ei a b).2 % 65521).toNat < 65521 := by
        rw [UInt32.toNat_mod, hM]; exact Nat.mod_lt _ (by decide)
      have := ih (ej - end_) (by omega) end_ _ _ hlt1 hlt2 rfl
      simp only at this
      rw [h1, h2] at this
      rw [hslice, Adler.update_append]
      exact this
    · simp only [hlt, ↓reduceDIte]
      rw [slice_of_le _ _ _ (by omega)]
      simp [Adler.update, ha, hb]

end WuffsVerif.Hash
