/-
C17: the range coder of Model/Lzma.lean.  `shiftLow` multiplies the number denoted by
(emitted bytes, pending run, low) by 256 — carries propagate through the pending 0xFF run —
and one `encodeBit` narrows the interval `[L, L + width)`; the decoder, reading the final code,
follows the encoder bit by bit.  Core Lean only.
-/
import WuffsVerif.Proof.LzmaBasic

namespace WuffsVerif.Lzma

theorem toUInt8_toNat (n : Nat) : n.toUInt8.toNat = n % 256 := by
  rw [Nat.toUInt8_eq, UInt8.toNat_ofNat']

/-! ## the number denoted by an encoder state -/

/-- all bytes decided so far, including the pending ones as they would be written without a carry -/
def digits (e : RangeEncoder) : List UInt8 :=
  e.dst.toList ++ [e.pendingHead] ++ List.replicate e.pendingExtra 0xFF

/-- the lower end `L` of the encoder's interval, in units of the current scale:
    `digits` followed by the 32 bits of `low` (bit 32 of `low` is a carry into `digits`) -/
def Lval (e : RangeEncoder) : Nat := val (digits e) * 4294967296 + e.low

/-- how many code bytes a decoder in step with this encoder has read: one per digit, plus the four
    that cover `low` -/
def nDig (e : RangeEncoder) : Nat := (digits e).length + 4

theorem digits_length (e : RangeEncoder) : (digits e).length = e.dst.size + 1 + e.pendingExtra := by
  simp [digits]; omega

theorem val_head_plus_one (d : List UInt8) (h : UInt8) (n : Nat) (hh : h.toNat < 255) :
    val (d ++ [h + 1] ++ List.replicate n (0x00 : UInt8)) =
      val (d ++ [h] ++ List.replicate n (0xFF : UInt8)) + 1 := by
  rw [val_append, val_append (d ++ [h]), val_snoc, val_snoc, val_replicate_zero]
  have hff := val_replicate_ff n
  simp only [List.length_replicate]
  have h1 : (h + 1).toNat = h.toNat + 1 := by
    rw [UInt8.toNat_add]; simp; omega
  rw [h1]
  have : (val d * 256 + (h.toNat + 1)) * 256 ^ n = (val d * 256 + h.toNat) * 256 ^ n + 256 ^ n := by
    rw [← Nat.add_assoc, Nat.add_mul _ 1, Nat.one_mul]
  omega

/-- **`shiftLow`** scales the denoted number by 256, whichever branch it takes; in the carry branch
    (`low ≥ 2^32`) the carry is added to `pendingHead` and turns the whole pending `0xFF` run into `0x00`s. -/
theorem shiftLow_spec (e : RangeEncoder) (hlow : e.low < 8589934592)
    (hc : 4294967296 ≤ e.low → e.pendingHead.toNat < 255) :
    Lval e.shiftLow = 256 * Lval e ∧ (digits e.shiftLow).length = (digits e).length + 1 ∧
    e.shiftLow.width = e.width ∧ e.shiftLow.low < 4294967296 := by
  unfold RangeEncoder.shiftLow
  split
  · -- no carry, flush the pending bytes as they are
    rename_i h1
    have hd : digits { dst := pushN (e.dst.push (e.pendingHead + 0x00)) 0xFF e.pendingExtra,
                       low := (e.low * 256) &&& 0xFFFFFFFF, width := e.width,
                       pendingHead := (e.low >>> 24).toUInt8, pendingExtra := 0 }
          = digits e ++ [(e.low >>> 24).toUInt8] := by
      simp [digits, pushN_toList]
    refine ⟨?_, ?_, rfl, ?_⟩
    · unfold Lval
      rw [hd, val_snoc, toUInt8_toNat, Nat.shiftRight_eq_div_pow]
      simp only [land32]
      omega
    · rw [hd]; simp
    · simp only [land32]; omega
  · split
    · -- low in [0xFF000000, 2^32): one more pending 0xFF
      rename_i h1 h2
      have hd : digits { dst := e.dst, low := (e.low * 256) &&& 0xFFFFFFFF, width := e.width,
                         pendingHead := e.pendingHead, pendingExtra := e.pendingExtra + 1 }
            = digits e ++ [0xFF] := by
        simp [digits, List.replicate_succ']
      refine ⟨?_, ?_, rfl, ?_⟩
      · unfold Lval
        rw [hd, val_snoc]
        have : (0xFF : UInt8).toNat = 255 := rfl
        rw [this]
        simp only [land32]
        omega
      · rw [hd]; simp
      · simp only [land32]; omega
    · -- carry
      rename_i h1 h2
      have hge : 4294967296 ≤ e.low := by omega
      have hh := hc hge
      have hd : digits { dst := pushN (e.dst.push (e.pendingHead + 0x01)) 0x00 e.pendingExtra,
                         low := (e.low * 256) &&& 0xFFFFFFFF, width := e.width,
                         pendingHead := (e.low >>> 24).toUInt8, pendingExtra := 0 }
            = (e.dst.toList ++ [e.pendingHead + 1] ++ List.replicate e.pendingExtra (0x00 : UInt8))
                ++ [(e.low >>> 24).toUInt8] := by
        simp [digits, pushN_toList]
      refine ⟨?_, ?_, rfl, ?_⟩
      · unfold Lval
        rw [hd, val_snoc, val_head_plus_one _ _ _ hh, toUInt8_toNat, Nat.shiftRight_eq_div_pow]
        simp only [land32]
        have : digits e = e.dst.toList ++ [e.pendingHead] ++ List.replicate e.pendingExtra 0xFF := rfl
        rw [this]
        omega
      · rw [hd]; simp [digits]; omega
      · simp only [land32]; omega

/-! ## invariants -/

/-- holds after the interval has been narrowed by a bit (width may be below 2^24, but not tiny) -/
structure Inv (e : RangeEncoder) : Prop where
  wmin : 65536 ≤ e.width
  whi : e.width < 4294967296
  /-- `low` plus `width` never needs more than one carry bit -/
  k : e.low + e.width ≤ 8589934592
  /-- the interval does not reach beyond the pending run: a carry can be absorbed by `pendingHead` -/
  j : (e.pendingHead.toNat * 256 ^ e.pendingExtra + 256 ^ e.pendingExtra) * 4294967296 + e.low + e.width
        ≤ 256 * 256 ^ e.pendingExtra * 4294967296 + 4294967296

/-- holds between two `encodeBit`s -/
structure Valid (e : RangeEncoder) : Prop extends Inv e where
  wlo : 16777216 ≤ e.width

/-- `threshold := (width >> probBits) * uint32(*p)` -/
def thr (p w : Nat) : Nat := ((w >>> probBits) * p) &&& 0xFFFFFFFF

theorem thr_bounds {p w : Nat} (hp : ProbOK p) (hw1 : 16777216 ≤ w) (hw2 : w < 4294967296) :
    thr p w = (w / 2048) * p ∧ 65536 ≤ thr p w ∧ thr p w + 65536 ≤ w := by
  unfold thr probBits
  rw [land32, Nat.shiftRight_eq_div_pow]
  obtain ⟨hp1, hp2⟩ := hp
  have h1 : (w / 2 ^ 11) * p ≤ (w / 2 ^ 11) * 2017 := Nat.mul_le_mul_left _ hp2
  have h2 : (w / 2 ^ 11) * 31 ≤ (w / 2 ^ 11) * p := Nat.mul_le_mul_left _ hp1
  have h3 : (w / 2 ^ 11 * p) % 4294967296 = w / 2 ^ 11 * p := Nat.mod_eq_of_lt (by omega)
  rw [h3]
  refine ⟨rfl, ?_, ?_⟩ <;> omega

/-- first half of `encodeBit`: take the lower or the upper part of the interval -/
def narrow (p : Nat) (e : RangeEncoder) (bitValue : Nat) : RangeEncoder :=
  if bitValue = 0 then { e with width := thr p e.width }
  else { e with low := e.low + thr p e.width, width := e.width - thr p e.width }

/-- second half of `encodeBit`: `if rEnc.width < (1 << 24) { rEnc.width <<= 8; rEnc.shiftLow() }` -/
def normalize (e1 : RangeEncoder) : RangeEncoder :=
  if e1.width < 16777216 then
    RangeEncoder.shiftLow { e1 with width := (e1.width * 256) &&& 0xFFFFFFFF }
  else e1

theorem encodeBit_eq (p : Nat) (e : RangeEncoder) (b : Nat) :
    encodeBit p e b = (if b = 0 then probUp p else probDown p, normalize (narrow p e b)) := by
  unfold encodeBit normalize narrow thr
  by_cases hb : b = 0 <;> simp only [hb, if_true, if_false] <;> split <;> rfl

theorem narrow_inv {p : Nat} {e : RangeEncoder} (b : Nat) (hv : Valid e) (hp : ProbOK p) :
    Inv (narrow p e b) := by
  obtain ⟨_, ht0, ht1⟩ := thr_bounds hp hv.wlo hv.whi
  have hk := hv.k
  have hj := hv.j
  have hwhi := hv.whi
  unfold narrow
  split
  · constructor <;> dsimp only <;> omega
  · constructor <;> dsimp only <;> omega

theorem pow_cancel {h X : Nat} (hX : 0 < X) (hh : (h * X + X) * 4294967296 + 4294967296 + 1
    ≤ 256 * X * 4294967296 + 4294967296) : h < 255 := by
  apply Classical.byContradiction
  intro hn
  have h255 : 255 ≤ h := by omega
  have : 255 * X ≤ h * X := Nat.mul_le_mul_right X h255
  omega

/-- the `k` and `j` invariants after a `shiftLow` that follows `width <<= 8` (`w1` is the width before) -/
theorem shiftLow_inv (e : RangeEncoder) (w1 : Nat) (hw : e.width = 256 * w1) (hw1 : w1 < 16777216)
    (k1 : e.low + w1 ≤ 8589934592)
    (j1 : (e.pendingHead.toNat * 256 ^ e.pendingExtra + 256 ^ e.pendingExtra) * 4294967296 + e.low + w1
        ≤ 256 * 256 ^ e.pendingExtra * 4294967296 + 4294967296) :
    e.shiftLow.low + e.shiftLow.width ≤ 8589934592 ∧
    (e.shiftLow.pendingHead.toNat * 256 ^ e.shiftLow.pendingExtra + 256 ^ e.shiftLow.pendingExtra) * 4294967296
        + e.shiftLow.low + e.shiftLow.width
      ≤ 256 * 256 ^ e.shiftLow.pendingExtra * 4294967296 + 4294967296 := by
  unfold RangeEncoder.shiftLow
  split
  · rename_i h1
    simp only [land32, toUInt8_toNat, Nat.shiftRight_eq_div_pow, Nat.pow_zero, hw]
    omega
  · split
    · rename_i h1 h2
      simp only [land32, Nat.pow_succ, hw]
      generalize hX : 256 ^ e.pendingExtra = X at *
      have e1 : e.pendingHead.toNat * (X * 256) = (e.pendingHead.toNat * X) * 256 := by
        rw [Nat.mul_assoc]
      rw [e1]
      generalize e.pendingHead.toNat * X = hX' at *
      omega
    · rename_i h1 h2
      simp only [land32, toUInt8_toNat, Nat.shiftRight_eq_div_pow, Nat.pow_zero, hw]
      omega

/-- `normalize` re-establishes `width ≥ 2^24`; if it shifts, the denoted number and the width are
    both scaled by 256 and one more byte position is decided. -/
theorem normalize_spec {e1 : RangeEncoder} (hi : Inv e1) :
    Valid (normalize e1) ∧
    (16777216 ≤ e1.width → normalize e1 = e1) ∧
    (e1.width < 16777216 → Lval (normalize e1) = 256 * Lval e1 ∧ (normalize e1).width = 256 * e1.width ∧
        (digits (normalize e1)).length = (digits e1).length + 1) := by
  unfold normalize
  split
  · rename_i hw
    have hk := hi.k
    have hj := hi.j
    have hmin := hi.wmin
    have hX : 0 < 256 ^ e1.pendingExtra := Nat.pow_pos (by omega)
    have hw' : (e1.width * 256) &&& 0xFFFFFFFF = 256 * e1.width := by rw [land32]; omega
    have hlow : e1.low < 8589934592 := by omega
    have hc : 4294967296 ≤ e1.low → e1.pendingHead.toNat < 255 := by
      intro hge
      exact pow_cancel hX (by omega)
    have hs := shiftLow_spec { e1 with width := (e1.width * 256) &&& 0xFFFFFFFF } hlow hc
    obtain ⟨hL, hlen, hwid, hlo32⟩ := hs
    have hinv := shiftLow_inv { e1 with width := (e1.width * 256) &&& 0xFFFFFFFF } e1.width hw' hw hk hj
    have hwid' : (RangeEncoder.shiftLow { e1 with width := (e1.width * 256) &&& 0xFFFFFFFF }).width
        = 256 * e1.width := by rw [hwid]; exact hw'
    refine ⟨⟨⟨by rw [hwid']; omega, by rw [hwid']; omega, hinv.1, hinv.2⟩, by rw [hwid']; omega⟩,
      fun h => by omega, fun _ => ⟨hL, hwid', hlen⟩⟩
  · rename_i hw
    exact ⟨⟨hi, by omega⟩, fun _ => rfl, fun h => by omega⟩

end WuffsVerif.Lzma
