/-
C05 — soundness of the liveness analysis (`Model/Liveness.lean`) with respect to the path
semantics (`Model/LivenessSem.lean`), for one fixed variable `v < n`.

`G t a` : if the variable is dirty (`t`), the analysis value is at least weak.
`Seg`   : a straight-line piece of events moves the analysis value correctly.
`Sound` : a statement / block: the loop slices and `final` only grow (`mono`), a strong is never
          forgotten (`sticky`), and every path ends in an abstract value that covers the concrete
          taint, or — if the path contains a stale read — a strong is recorded (`post`).
-/
import WuffsVerif.Proof.LivenessBasic

namespace WuffsVerif.Liveness
variable {n : Nat}

/-! ### events -/

theorem taintAfter_append (v : Nat) (t : Bool) (e1 e2 : List Ev) :
    taintAfter v t (e1 ++ e2) = taintAfter v (taintAfter v t e1) e2 := by
  simp [taintAfter, List.foldl_append]

theorem viol_append (v : Nat) : ∀ (t : Bool) (e1 e2 : List Ev),
    viol v t (e1 ++ e2) = (viol v t e1 || viol v (taintAfter v t e1) e2)
  | t, [], e2 => by simp [viol, taintAfter]
  | t, e :: e1, e2 => by
    simp only [List.cons_append, viol, taintAfter, List.foldl_cons]
    rw [viol_append v _ e1 e2]
    simp [taintAfter, Bool.or_assoc]

@[simp] theorem viol_nil (v : Nat) (t : Bool) : viol v t [] = false := rfl
@[simp] theorem taintAfter_nil (v : Nat) (t : Bool) : taintAfter v t [] = t := rfl

theorem viol_reads (v : Nat) (t : Bool) : ∀ vs : List Nat,
    viol v t (vs.map Ev.rd) = (t && decide (v ∈ vs))
  | [] => by simp [viol]
  | w :: vs => by
    simp only [List.map_cons, viol, Ev.stale, Ev.taint, viol_reads v t vs, List.mem_cons]
    have hc : (v = w) = (w = v) := propext ⟨Eq.symm, Eq.symm⟩
    cases t <;> by_cases h : w = v <;> by_cases h2 : v ∈ vs <;> simp [h, h2, hc]

theorem taint_reads (v : Nat) (t : Bool) : ∀ vs : List Nat, taintAfter v t (vs.map Ev.rd) = t
  | [] => rfl
  | w :: vs => by
    simp only [List.map_cons, taintAfter, List.foldl_cons, Ev.taint]
    exact taint_reads v t vs

theorem viol_susps (v : Nat) (t : Bool) : ∀ k : Nat, viol v t (List.replicate k Ev.susp) = false
  | 0 => rfl
  | k + 1 => by simp [List.replicate_succ, viol, Ev.stale, viol_susps v _ k]

theorem taint_susps (v : Nat) : ∀ (k : Nat) (t : Bool),
    taintAfter v t (List.replicate k Ev.susp) = (t || decide (0 < k))
  | 0, t => by simp
  | k + 1, t => by
    simp only [List.replicate_succ, taintAfter, List.foldl_cons, Ev.taint]
    have := taint_susps v k true
    simp only [taintAfter] at this
    simp [this]

/-! ### `G` and straight-line segments -/

/-- The abstraction relation: a dirty variable is at least weak. -/
def G (t : Bool) (a : Lness) : Prop := t = true → a ≠ Lness.none

theorem G.mono {t : Bool} {a b : Lness} (h : G t a) (hab : a ≤ b) : G t b := by
  intro ht hb
  have := h ht
  subst hb
  cases a <;> simp_all [Lness.le_def, Lness.toNat]

theorem G.of_false (a : Lness) : G false a := by intro h; cases h
theorem G.of_ne {t : Bool} {a : Lness} (h : a ≠ Lness.none) : G t a := fun _ => h

/-- The events `es` take the analysis value `a` to `a'`, correctly. -/
structure Seg (v : Nat) (es : List Ev) (a a' : Lness) : Prop where
  sticky : a = Lness.strong → a' = Lness.strong
  viol : ∀ t, G t a → viol v t es = true → a' = Lness.strong
  ok : ∀ t, G t a → Liveness.viol v t es = false → G (taintAfter v t es) a'

theorem Seg.nil (v : Nat) (a : Lness) : Seg v [] a a :=
  ⟨id, fun _ _ h => by simp at h, fun _ h _ => h⟩

theorem Seg.append {v : Nat} {e1 e2 : List Ev} {a b c : Lness}
    (h1 : Seg v e1 a b) (h2 : Seg v e2 b c) : Seg v (e1 ++ e2) a c := by
  refine ⟨fun h => h2.sticky (h1.sticky h), ?_, ?_⟩
  · intro t ht hv
    rw [viol_append] at hv
    cases h : Liveness.viol v t e1
    · rw [h] at hv
      exact h2.viol _ (h1.ok t ht h) (by simpa using hv)
    · exact h2.sticky (h1.viol t ht h)
  · intro t ht hv
    rw [viol_append] at hv
    have hv1 : Liveness.viol v t e1 = false := by
      cases h : Liveness.viol v t e1 <;> simp_all
    have hv2 : Liveness.viol v (taintAfter v t e1) e2 = false := by
      cases h : Liveness.viol v (taintAfter v t e1) e2 <;> simp_all
    rw [taintAfter_append]
    exact h2.ok _ (h1.ok t ht hv1) hv2

theorem Seg.weaken {v : Nat} {es : List Ev} {a b c : Lness} (h : Seg v es a b) (hbc : b ≤ c) :
    Seg v es a c :=
  ⟨fun ha => Lness.strong_le (h.sticky ha ▸ hbc),
   fun t ht hv => Lness.strong_le (h.viol t ht hv ▸ hbc),
   fun t ht hv => (h.ok t ht hv).mono hbc⟩

theorem Seg.of_strong (v : Nat) (es : List Ev) (a : Lness) : Seg v es a Lness.strong :=
  ⟨fun _ => rfl, fun _ _ _ => rfl, fun _ _ _ => G.of_ne (by decide)⟩

/-- reading the variables of `e` -/
theorem Seg.reads (v : Nat) (e : Ex) (a : Lness) : Seg v (exReads e) a (expr1T e false v a) := by
  unfold exReads expr1T
  refine ⟨?_, ?_, ?_⟩
  · intro h; subst h; by_cases hm : v ∈ e.vars <;> simp [hm, Lness.raiseWeakToStrong]
  · intro t ht hv
    rw [viol_reads] at hv
    simp only [Bool.and_eq_true, decide_eq_true_eq] at hv
    have := ht hv.1
    simp only [hv.2, ↓reduceIte, Bool.false_eq_true]
    cases a <;> simp_all [Lness.raiseWeakToStrong]
  · intro t ht _
    rw [taint_reads]
    exact ht.mono (by
      have := le_expr1T e false v a
      simpa [expr1T] using this)

/-- any number of suspensions -/
theorem Seg.susps (v : Nat) (k : Nat) (a : Lness) :
    Seg v (List.replicate k Ev.susp) a a.raiseNoneToWeak := by
  refine ⟨?_, ?_, ?_⟩
  · intro h; subst h; rfl
  · intro t _ hv; rw [viol_susps] at hv; cases hv
  · intro t _ _; exact G.of_ne (by cases a <;> simp [Lness.raiseNoneToWeak])

theorem Seg.write (v i : Nat) (a : Lness) :
    Seg v [Ev.wr i] a (if i = v then a.lowerWeakToNone else a) := by
  refine ⟨?_, ?_, ?_⟩
  · intro h; subst h; by_cases hi : i = v <;> simp [hi, Lness.lowerWeakToNone]
  · intro t _ hv; simp [Liveness.viol, Ev.stale] at hv
  · intro t ht _
    simp only [taintAfter, List.foldl_cons, List.foldl_nil, Ev.taint]
    by_cases hi : i = v
    · simp only [hi, ↓reduceIte]; exact G.of_false _
    · simp only [hi, ↓reduceIte]; exact ht

theorem Seg.read1 (v i : Nat) (a : Lness) :
    Seg v [Ev.rd i] a (if i = v then a.raiseWeakToStrong else a) := by
  have := Seg.reads v ⟨false, false, [i], 0⟩ a
  simp only [exReads, List.map_cons, List.map_nil, expr1T, List.mem_singleton, Bool.false_eq_true,
    ↓reduceIte] at this
  by_cases hi : i = v
  · simpa [hi] using this
  · have h2 : ¬ v = i := fun h => hi h.symm
    simpa [hi, h2] using this

/-- the repeated part of a re-issued call when `v` is not an argument -/
private theorem seg_recall (v : Nat) (e : Ex) (hv : v ∉ e.vars) (a : Lness) : ∀ k : Nat,
    Seg v ((List.replicate k (Ev.susp :: exReads e)).flatten) a a.raiseNoneToWeak
  | 0 => by
    simp only [List.replicate_zero, List.flatten_nil]
    exact (Seg.nil v a).weaken (by cases a <;> decide)
  | k + 1 => by
    simp only [List.replicate_succ, List.flatten_cons]
    have h1 : Seg v (Ev.susp :: exReads e) a a.raiseNoneToWeak := by
      have s1 := Seg.susps v 1 a
      have s2 := Seg.reads v e a.raiseNoneToWeak
      simp only [expr1T, hv, ↓reduceIte] at s2
      have := s1.append s2
      simpa using this
    have h2 := seg_recall v e hv a.raiseNoneToWeak k
    have : a.raiseNoneToWeak.raiseNoneToWeak = a.raiseNoneToWeak := by cases a <;> rfl
    rw [this] at h2
    exact h1.append h2

/-- `doExpr` is correct for every way the expression can run. -/
theorem Seg.expr (v : Nat) (e : Ex) (a : Lness) {es : List Ev} (h : ExprPath e es) :
    Seg v es a (exprT e v a) := by
  cases h with
  | plain hc =>
    have := Seg.reads v e a
    simpa [exprT, Ex.allToStrong, hc] using this
  | io k hc hio =>
    have := (Seg.reads v e a).append (Seg.susps v k _)
    simpa [exprT, Ex.allToStrong, hc, hio] using this
  | call k hc hio =>
    by_cases hm : v ∈ e.vars
    · have : exprT e v a = Lness.strong := by
        simp [exprT, expr1T, Ex.allToStrong, hc, hio, hm, Lness.raiseNoneToWeak]
      rw [this]
      exact Seg.of_strong v _ a
    · have h1 := Seg.reads v e a
      simp only [expr1T, hm, ↓reduceIte] at h1
      have := h1.append (seg_recall v e hm a k)
      simpa [exprT, expr1T, Ex.allToStrong, hc, hio, hm] using this

theorem Seg.exprOpt (v : Nat) (r : Lv n) (hv : v < n) : ∀ (oe : Option Ex) {es : List Ev},
    OptExprPath oe es → Seg v es (r.get v) ((doExprOpt r oe).get v)
  | none, es, h => by
    simp only [OptExprPath] at h
    subst h
    exact Seg.nil v _
  | some e, es, h => by
    simp only [doExprOpt, doExpr_get _ _ _ hv]
    exact Seg.expr v e _ h

theorem Seg.doExpr (v : Nat) (r : Lv n) (hv : v < n) (e : Ex) {es : List Ev} (h : ExprPath e es) :
    Seg v es (r.get v) ((doExpr r e).get v) := by
  rw [doExpr_get _ _ _ hv]
  exact Seg.expr v e _ h

theorem get_lowerWeakToNone (r : Lv n) (i v : Nat) (hv : v < n) :
    (r.lowerWeakToNone i).get v = if i = v then (r.get v).lowerWeakToNone else r.get v := by
  simp [Lv.lowerWeakToNone, Lv.get_modify, hv]

theorem Seg.assign (v : Nat) (r : Lv n) (hv : v < n) (op : AOp) (lhs : Lhs) (rhs : Ex)
    {es : List Ev} (h : AssignPath op lhs rhs es) :
    Seg v es (r.get v) ((doAssign r op lhs rhs).get v) := by
  obtain ⟨e1, e2, h1, h2, rfl⟩ := h
  unfold doAssign
  -- the RHS
  have s1 : Seg v e1 (r.get v)
      ((if op = AOp.eqQuestion then doExpr1 r rhs false else Liveness.doExpr r rhs).get v) := by
    by_cases hq : op = AOp.eqQuestion
    · simp only [hq, ↓reduceIte] at h1 ⊢
      subst h1
      rw [doExpr1_get _ _ _ _ hv]
      exact Seg.reads v rhs _
    · simp only [hq, ↓reduceIte] at h1 ⊢
      exact Seg.doExpr v r hv rhs h1
  generalize (if op = AOp.eqQuestion then doExpr1 r rhs false else Liveness.doExpr r rhs) = r1 at s1
  cases lhs with
  | none =>
    simp only at h2
    subst h2
    simpa using s1
  | expr e =>
    simp only at h2
    exact s1.append (Seg.doExpr v r1 hv e h2)
  | var i =>
    simp only at h2
    subst h2
    simp only
    by_cases hop : op ≠ AOp.eq ∧ op ≠ AOp.eqQuestion
    · simp only [hop, and_self, ↓reduceIte, ne_eq, not_false_eq_true]
      have sr : Seg v [Ev.rd i] (r1.get v) ((Liveness.doExpr r1 ⟨false, false, [i], 0⟩).get v) :=
        Seg.doExpr v r1 hv ⟨false, false, [i], 0⟩ (by
          have := ExprPath.plain (e := ⟨false, false, [i], 0⟩) rfl
          simpa [exReads] using this)
      have sw := Seg.write v i ((Liveness.doExpr r1 ⟨false, false, [i], 0⟩).get v)
      rw [← get_lowerWeakToNone _ _ _ hv] at sw
      have := s1.append (sr.append sw)
      simpa using this
    · simp only [hop, ↓reduceIte, List.nil_append]
      have sw := Seg.write v i (r1.get v)
      rw [← get_lowerWeakToNone _ _ _ hv] at sw
      exact s1.append sw

end WuffsVerif.Liveness
