/-
Well-formedness of the ASTs built by `Model/Parse.lean`, part 5: top-level declarations and
the file.
-/
import WuffsVerif.Proof.ParseWfStmt

namespace WuffsVerif.Parse
open WuffsVerif.Token WuffsVerif.Gen.C11

attribute [local irreducible] checkAssignLHS terminatesList typeInnermost stripArrays
  asSmallPositiveInt256 isChooseCPUArch validConstName containsDoubleUnderscore isStatusMessageTok

theorem post_parseFieldNode1 (env : Env) (e t b flags : Nat) :
    Post (parseFieldNode1 env e t b flags) WfN := by
  have hT := (core_wf env _ e t b rfl).typeExpr
  unfold parseFieldNode1
  post_auto

macro_rules | `(tactic| post_leaf) => `(tactic| exact post_parseFieldNode1 _ _ _ _ _)

theorem post_parseExtraFieldNode (env : Env) (e t b : Nat) :
    Post (parseExtraFieldNode env e t b) WfN := by
  unfold parseExtraFieldNode
  post_auto

macro_rules | `(tactic| post_leaf) => `(tactic| exact post_parseExtraFieldNode _ _ _ _)

theorem post_parseUseDecl (env : Env) (line : Nat) : Post (parseUseDecl env line) WfN := by
  unfold parseUseDecl
  post_auto

theorem post_parseConstDecl (env : Env) (e t b f l : Nat) :
    Post (parseConstDecl env e t b f l) WfN := by
  have hc := core_wf env _ e t b rfl
  have hT := hc.typeExpr
  have hP := hc.possibleList
  unfold parseConstDecl
  post_auto

theorem post_parseFuncAsserts (env : Env) (pe : P Node) (hpe : Post pe WfN) (f eff id0 : Nat) :
    Post (parseFuncAsserts env pe f eff id0) (fun r => ∀ n ∈ r.2, WfN n) := by
  unfold parseFuncAsserts
  post_auto

macro_rules | `(tactic| post_leaf) => `(tactic| (apply post_parseFuncAsserts; post_leaf))

theorem post_parseFuncDecl (env : Env) (e t b f l : Nat) :
    Post (parseFuncDecl env e t b f l) WfN := by
  have hc := core_wf env _ e t b rfl
  have hT := hc.typeExpr
  have hE := hc.expr
  have hB := (stmt_wf env e t b).block false
  unfold parseFuncDecl
  post_auto

theorem post_parseStatusDecl (env : Env) (f l : Nat) : Post (parseStatusDecl env f l) WfN := by
  unfold parseStatusDecl
  post_auto

theorem post_parseStructDecl (env : Env) (e t b f l : Nat) :
    Post (parseStructDecl env e t b f l) WfN := by
  have hq : Post (do
      let (pkg, nm) ← parseQualifiedIdent env
      pure (newTypeExpr 0 pkg nm .nil .nil .nil)) WfN := by
    post_auto
  have himpl : ∀ d : Nat, Post (if d == IDImplements then do
      skip
      let l ← parseList env IDOpenParen (do
        let (pkg, nm) ← parseQualifiedIdent env
        pure (newTypeExpr 0 pkg nm .nil .nil .nil))
      if l.length > MaxImplements then failHere
      pure l
    else pure [] : P (List Node)) (fun l => ∀ n ∈ l, WfN n) := by
    intro d
    post_auto
  have hextra : ∀ (d : Nat) (fields : List Node), (∀ n ∈ fields, WfN n) →
      Post (if d == IDPlus then do
      skip
      if (← peek1) != IDOpenParen then failHere
      let extra ← parseList env IDCloseParen (parseExtraFieldNode env e t b)
      pure (fields ++ extra)
    else pure fields : P (List Node)) (fun l => ∀ n ∈ l, WfN n) := by
    intro d fields hf
    post_auto
    all_goals grind
  unfold parseStructDecl
  post_auto

theorem post_parseVisibleDecl (env : Env) (e t b f l : Nat) :
    Post (parseVisibleDecl env e t b f l) WfN := by
  have h1 := post_parseConstDecl env e t b f l
  have h2 := post_parseFuncDecl env e t b f l
  have h3 := post_parseStatusDecl env f l
  have h4 := post_parseStructDecl env e t b f l
  unfold parseVisibleDecl
  post_auto

theorem post_parseTopLevelDecl (env : Env) (e t b : Nat) :
    Post (parseTopLevelDecl env e t b) WfN := by
  have h1 := post_parseUseDecl env
  have h2 := post_parseVisibleDecl env e t b
  unfold parseTopLevelDecl
  post_auto

theorem post_parseFileLoop (env : Env) : ∀ fuel acc, (∀ n ∈ acc, WfN n) →
    Post (parseFileLoop env fuel acc) (fun l => ∀ n ∈ l, WfN n) := by
  intro fuel
  induction fuel with
  | zero => intro acc _; unfold parseFileLoop; exact post_throw _
  | succ fuel ih =>
    intro acc hacc
    have := post_parseTopLevelDecl env (MaxExprDepth + 1) (MaxTypeExprDepth + 1) (MaxBodyDepth + 1)
    unfold parseFileLoop
    post_auto
    all_goals grind

/-- Every AST that the model of `parse.Parse` returns is well-formed. -/
theorem parseFile_wf (env : Env) (toks : List Tok) (file : Node)
    (h : parseFile env toks = .ok file) : wf file = true := by
  unfold parseFile at h
  simp only at h
  split at h
  · cases h
  · rename_i decls s' hrun
    have := (post_parseFileLoop env (toks.length + 1) [] (by simp)).post _ _ _ hrun
    simp only [Except.ok.injEq] at h
    subst h
    simp [wf_mk, shallowOK, KFile, KArg, KAssert, KAssign, KChoose, KConst, KExpr, KField,
      wfList, wfList_iff]
    exact this

end WuffsVerif.Parse
