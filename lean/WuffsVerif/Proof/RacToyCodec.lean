/-
C13: a toy self-delimiting codec showing that the hypotheses of `rac_roundtrip` are jointly satisfiable.
-/
import WuffsVerif.Proof.RacRoundtrip
namespace WuffsVerif.Rac

/-- a toy self-delimiting codec: `|x|` ones, a zero, then `x` -/
def uenc (x : Bytes) : Bytes := List.replicate x.length 1 ++ 0 :: x
def udec (bs : Bytes) : Option Bytes :=
  let n := (bs.takeWhile (· == 1)).length
  if n + 1 + n ≤ bs.length then some ((bs.drop (n + 1)).take n) else none

theorem takeWhile_ones (k : Nat) (rest : Bytes) :
    (List.replicate k (1 : UInt8) ++ 0 :: rest).takeWhile (· == 1) = List.replicate k 1 := by
  induction k with
  | zero => simp
  | succ k ih => simp [List.replicate_succ, ih]

theorem udec_uenc (x extra : Bytes) : udec (uenc x ++ extra) = some x := by
  unfold udec uenc
  simp only [List.append_assoc, List.cons_append, takeWhile_ones, List.length_replicate]
  rw [if_pos (by simp; omega)]
  congr 1
  rw [List.drop_append, List.drop_of_length_le (by simp), List.nil_append]
  simp

theorem takeWhile_append_of_lt (p : UInt8 → Bool) (a b : Bytes) (h : (a.takeWhile p).length < a.length) :
    (a ++ b).takeWhile p = a.takeWhile p := by
  induction a with
  | nil => simp at h
  | cons x xs ih =>
    simp only [List.cons_append, List.takeWhile_cons]
    by_cases hx : p x = true
    · simp only [hx, ↓reduceIte, List.cons.injEq, true_and]
      apply ih
      simp only [List.takeWhile_cons, hx, ↓reduceIte, List.length_cons] at h
      omega
    · simp [hx]

theorem udec_prefix (a b d : Bytes) (h : udec a = some d) : udec (a ++ b) = some d := by
  unfold udec at h ⊢
  simp only at h ⊢
  by_cases hc : (a.takeWhile (· == 1)).length + 1 + (a.takeWhile (· == 1)).length ≤ a.length
  · rw [if_pos hc] at h
    have htw := takeWhile_append_of_lt (· == 1) a b (by omega)
    rw [htw, if_pos (by simp; omega)]
    rw [← h]
    congr 1
    rw [List.drop_append_of_le_length (by omega), List.take_append_of_le_length (by simp; omega)]
  · rw [if_neg hc] at h; simp at h

/-- the toy codec as a `CodecWriter` without `Cut`, under short codec 0x3E -/
def toyCodecW : CodecW :=
  { compress := fun p q _ => .ok ⟨0x3E00000000000000, uenc (p ++ q), -1, -1⟩, canCut := false, cut := fun _ _ _ => .error (.codec 1), wrapResource := fun r => .ok r, close := none }

theorem toy_contract : CodecContract toyCodecW udec := by
  constructor
  · intro p q rs out h
    simp only [toyCodecW, Except.ok.injEq] at h
    rw [← h]
    have := udec_uenc (p ++ q) []
    simpa using this
  · intro c enc m enc' eLen dLen d h; simp [toyCodecW] at h

theorem toy_notZeroes : ∀ a b rs out, toyCodecW.compress a b rs = .ok out → out.codec ≠ 0 ∧ out.codec ≠ 2 ^ 63 := by
  intro a b rs out h
  simp only [toyCodecW, Except.ok.injEq] at h
  rw [← h]; constructor <;> simp

/-- the hypotheses of `rac_roundtrip` are jointly satisfiable: a codec without `Cut`, short codec 0x3E -/
theorem roundtrip_hyps_satisfiable :
    ∃ (cw : CodecW) (D : Bytes → Option Bytes), CodecContract cw D ∧
      (∀ a b d, D a = some d → D (a ++ b) = some d) ∧
      (∀ a b rs out, cw.compress a b rs = .ok out → out.codec ≠ 0 ∧ out.codec ≠ 2 ^ 63) :=
  ⟨toyCodecW, udec, toy_contract, udec_prefix, toy_notZeroes⟩
end WuffsVerif.Rac
