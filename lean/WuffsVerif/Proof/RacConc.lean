/-
C14 helper: the inductive invariant of the manager/worker transition system
(Model/Rac/Conc.lean) for the repaired code, for any number of workers.
-/
import WuffsVerif.Model.Rac.Conc

set_option linter.unusedVariables false
set_option linter.unusedSimpArgs false

namespace WuffsVerif.Rac.Conc

def W.quiet (w : W) : Prop := w.out = none ∧ w.dr = none
def M.quiet (m : M) : Prop := m.inputOn = true ∧ m.work = none ∧ m.roi = none

/-- processes blocked on `<-stop.ackc` -/
def stoppedCount (s : St) : Nat :=
  (if s.mgr.pc.isStopped then 1 else 0) + s.ws.countP (fun w => w.pc.isStopped)

def outIs : Option Item → Nat
  | some _ => 1
  | none => 0

def allQuiet (s : St) : Prop :=
  s.mgr.quiet ∧ (∀ (i : Nat) (w : W), s.ws[i]? = some w → w.quiet) ∧
  s.reqc = [] ∧ s.resc = [] ∧ s.completed = [] ∧ s.curr = none

/-- the phase-dependent part of the invariant -/
def PhaseInv (s : St) : Prop :=
  match s.main with
  | .idle | .reading =>
    s.mgr.pc = .run ∧ (∀ (i : Nat) (w : W), s.ws[i]? = some w → w.pc = .run)
  | .sendRoi =>
    s.mgr.pc = .run ∧ (∀ (i : Nat) (w : W), s.ws[i]? = some w → w.pc = .run) ∧ allQuiet s ∧ s.seenRead = true
  | .stopping k keep =>
    k ≤ s.ws.length + 1 ∧ stoppedCount s = k ∧ (keep = true → s.seenRead = true) ∧
    (s.mgr.pc = .run ∨ s.mgr.pc = .stopped keep) ∧
    (∀ (i : Nat) (w : W), s.ws[i]? = some w → w.pc = .run ∨ w.pc = .stopped keep)
  | .acking k keep =>
    k ≤ s.ws.length + 1 ∧ stoppedCount s + k = s.ws.length + 1 ∧ (keep = true → s.seenRead = true) ∧
    (if keep then
      (s.mgr.pc = .stopped true ∨ (s.mgr.pc = .run ∧ s.mgr.quiet)) ∧
      (∀ (i : Nat) (w : W), s.ws[i]? = some w → w.pc = .stopped true ∨ (w.pc = .run ∧ w.quiet)) ∧
      s.reqc = [] ∧ s.resc = [] ∧ s.completed = [] ∧ s.curr = none
    else
      (s.mgr.pc = .stopped false ∨ s.mgr.pc = .done) ∧
      (∀ (i : Nat) (w : W), s.ws[i]? = some w → w.pc = .stopped false ∨ w.pc = .done))
  | .closed => s.mgr.pc = .done ∧ (∀ (i : Nat) (w : W), s.ws[i]? = some w → w.pc = .done)

structure CInv (s : St) : Prop where
  rep : s.repaired = true
  -- epochs: nothing made for an earlier region of interest exists anywhere
  ep_reqc : ∀ it ∈ s.reqc, it.epoch = s.epoch
  ep_resc : ∀ it ∈ s.resc, it.epoch = s.epoch
  ep_comp : ∀ it ∈ s.completed, it.epoch = s.epoch
  ep_curr : ∀ it : Item, s.curr = some it → it.epoch = s.epoch
  ep_mwork : ∀ it : Item, s.mgr.work = some it → it.epoch = s.epoch
  ep_mroi : ∀ e : Nat, s.mgr.roi = some e → e = s.epoch
  ep_w : ∀ (i : Nat) (w : W), s.ws[i]? = some w →
    (∀ it : Item, w.out = some it → it.epoch = s.epoch ∧ it.owner = some i) ∧ (∀ e : Nat, w.dr = some e → e = s.epoch)
  -- buffers: the two buffers of worker i are, each, in exactly one place
  buf : ∀ (i : Nat) (w : W), s.ws[i]? = some w →
    w.held + w.canAlloc + w.recyc + outIs w.out + countOwner i s.resc + countOwner i s.completed + ownerIs i s.curr = 2
  -- before the first Read nothing has been requested
  fresh : s.seenRead = false → allQuiet s
  phase : PhaseInv s

theorem CInv.init (n : Nat) : CInv (St.init n) := by
  constructor <;>
    simp +contextual [St.init, PhaseInv, allQuiet, M.quiet, W.quiet, List.getElem?_replicate, outIs, countOwner, ownerIs,
      List.mem_replicate]

/-! ### list helpers -/

theorem forall_set {ws : List W} {i : Nat} {w' : W} {P : Nat → W → Prop}
    (h : ∀ (j : Nat) (w : W), ws[j]? = some w → P j w) (h' : P i w') :
    ∀ (j : Nat) (w : W), (ws.set i w')[j]? = some w → P j w := by
  intro j w hj
  rw [List.getElem?_set] at hj
  split at hj
  · next hij =>
    split at hj
    · cases hj; subst hij; exact h'
    · cases hj
  · exact h j w hj

theorem lt_of_getElem? {ws : List W} {i : Nat} {w : W} (h : ws[i]? = some w) : i < ws.length := by
  by_cases hlt : i < ws.length
  · exact hlt
  · rw [List.getElem?_eq_none (by omega)] at h; cases h

theorem countP_set' {ws : List W} {i : Nat} {w w' : W} (f : W → Bool) (hi : ws[i]? = some w) :
    (ws.set i w').countP f + (if f w then 1 else 0) = ws.countP f + (if f w' then 1 else 0) := by
  have hlt := lt_of_getElem? hi
  have hw : ws[i] = w := by
    have := List.getElem?_eq_getElem hlt
    rw [this] at hi; cases hi; rfl
  rw [List.countP_set hlt, hw]
  have := List.boole_getElem_le_countP (p := f) hlt
  rw [hw] at this
  omega

theorem countP_stopped_zero {ws : List W} (h : ∀ (i : Nat) (w : W), ws[i]? = some w → w.pc.isStopped = false) :
    ws.countP (fun w => w.pc.isStopped) = 0 := by
  rw [List.countP_eq_zero]
  intro w hw
  obtain ⟨i, hi⟩ := List.getElem?_of_mem hw
  rw [h i w hi]
  simp

theorem all_stopped_of_count {ws : List W} (h : ws.countP (fun w => w.pc.isStopped) = ws.length) :
    ∀ (i : Nat) (w : W), ws[i]? = some w → w.pc.isStopped = true := by
  rw [List.countP_eq_length] at h
  intro i w hi
  exact h w (List.mem_of_getElem? hi)

theorem countP_le_length' (ws : List W) : ws.countP (fun w => w.pc.isStopped) ≤ ws.length :=
  List.countP_le_length

theorem countOwner_append (i : Nat) (l : List Item) (it : Item) :
    countOwner i (l ++ [it]) = countOwner i l + (if it.owner = some i then 1 else 0) := by
  simp [countOwner, List.countP_cons]

theorem countOwner_cons (i : Nat) (l : List Item) (it : Item) :
    countOwner i (it :: l) = countOwner i l + (if it.owner = some i then 1 else 0) := by
  simp [countOwner, List.countP_cons]

theorem countOwner_eraseIdx (i : Nat) : ∀ (l : List Item) (j : Nat) (it : Item), l[j]? = some it →
    countOwner i (l.eraseIdx j) + (if it.owner = some i then 1 else 0) = countOwner i l := by
  intro l
  induction l with
  | nil => intro j it h; simp at h
  | cons x xs ih =>
    intro j it h
    cases j with
    | zero =>
      simp at h
      subst h
      simp [countOwner_cons]
    | succ j =>
      simp at h
      have := ih j it h
      simp only [List.eraseIdx_cons_succ, countOwner_cons]
      omega

theorem recycleAll_get (s : St) (i : Nat) :
    (recycleAll s)[i]? = s.ws[i]?.map (fun w =>
      { w with recyc := w.recyc + countOwner i s.resc + countOwner i s.completed + ownerIs i s.curr }) := by
  simp [recycleAll, List.getElem?_mapIdx]

theorem recycleAll_length (s : St) : (recycleAll s).length = s.ws.length := by
  simp [recycleAll]

end WuffsVerif.Rac.Conc
