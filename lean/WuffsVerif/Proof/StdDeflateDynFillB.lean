/-
C07 helper (dynamic-Huffman blocks, filling loop): arithmetic of canonical codes `codeAt` versus the
scaled Kraft sum `kraftSum` for a sorted complete code.  Core Lean only.
-/
import WuffsVerif.Proof.StdDeflateDynDefs
namespace WuffsVerif.StdDeflate.F

theorem b_pow15 : (2 : Nat) ^ 15 = 32768 := by decide

theorem b_kraftSum_succ (ln : Nat → Nat) (t : Nat) :
    kraftSum ln (t + 1) = kraftSum ln t + 2 ^ (15 - ln t) := rfl

theorem b_codeAt_succ (ln : Nat → Nat) (t : Nat) :
    codeAt ln (t + 1) = (codeAt ln t + 1) * 2 ^ (ln (t + 1) - ln t) := by
  show (codeAt ln t + 1) <<< (ln (t + 1) - ln t) = _
  rw [Nat.shiftLeft_eq]

theorem ln_mono {N : Nat} {ln : Nat → Nat} (hs : Sorted N ln) {a b : Nat} (hab : a ≤ b) (hb : b < N) :
    ln a ≤ ln b := by
  induction b with
  | zero =>
    have : a = 0 := by omega
    subst this; exact Nat.le_refl _
  | succ b ih =>
    rcases Nat.lt_or_ge a (b + 1) with h | h
    · exact Nat.le_trans (ih (by omega) (by omega)) (hs.mono b hb)
    · have : a = b + 1 := by omega
      subst this; exact Nat.le_refl _

theorem kraftSum_mono (ln : Nat → Nat) {a b : Nat} (hab : a ≤ b) : kraftSum ln a ≤ kraftSum ln b := by
  induction b with
  | zero =>
    have : a = 0 := by omega
    subst this; exact Nat.le_refl _
  | succ b ih =>
    rcases Nat.lt_or_ge a (b + 1) with h | h
    · rw [b_kraftSum_succ]
      exact Nat.le_trans (ih (by omega)) (Nat.le_add_right _ _)
    · have : a = b + 1 := by omega
      subst this; exact Nat.le_refl _

theorem kraftSum_lt (ln : Nat → Nat) {a b : Nat} (hab : a < b) :
    kraftSum ln a + 2 ^ (15 - ln a) ≤ kraftSum ln b := by
  rw [← b_kraftSum_succ]
  exact kraftSum_mono ln hab

/-- the canonical code, scaled to 15 bits, is the Kraft sum of the earlier symbols -/
theorem codeAt_kraft {N : Nat} {ln : Nat → Nat} (hs : Sorted N ln) {t : Nat} (ht : t < N) :
    codeAt ln t * 2 ^ (15 - ln t) = kraftSum ln t := by
  induction t with
  | zero => simp [codeAt, kraftSum]
  | succ t ih =>
    have ih := ih (by omega)
    have h1 : ln t ≤ ln (t + 1) := hs.mono t ht
    have h2 : ln (t + 1) ≤ 15 := hs.hi _ ht
    have he : ln (t + 1) - ln t + (15 - ln (t + 1)) = 15 - ln t := by omega
    rw [b_codeAt_succ, b_kraftSum_succ, Nat.mul_assoc, ← Nat.pow_add, he, Nat.add_mul, ih, Nat.one_mul]

/-- `(codeAt t + 1)`, scaled, is the Kraft sum up to and including `t` -/
theorem b_codeAt_succ_kraft {N : Nat} {ln : Nat → Nat} (hs : Sorted N ln) {t : Nat} (ht : t < N) :
    (codeAt ln t + 1) * 2 ^ (15 - ln t) = kraftSum ln (t + 1) := by
  rw [b_kraftSum_succ, Nat.add_mul, codeAt_kraft hs ht, Nat.one_mul]

theorem kraftSum_lt_top {N : Nat} {ln : Nat → Nat} (hs : Sorted N ln) {t : Nat} (ht : t < N) :
    kraftSum ln t + 2 ^ (15 - ln t) ≤ 2 ^ 15 := by
  have h := kraftSum_lt ln ht
  rw [hs.complete] at h
  exact h

theorem b_pow_split {N : Nat} {ln : Nat → Nat} (hs : Sorted N ln) {t : Nat} (ht : t < N) :
    (2 : Nat) ^ 15 = 2 ^ ln t * 2 ^ (15 - ln t) := by
  have := hs.hi t ht
  rw [← Nat.pow_add]
  congr 1; omega

theorem codeAt_succ_le {N : Nat} {ln : Nat → Nat} (hs : Sorted N ln) {t : Nat} (ht : t < N) :
    codeAt ln t + 1 ≤ 2 ^ ln t := by
  have h := kraftSum_lt_top hs ht
  rw [← b_kraftSum_succ, ← b_codeAt_succ_kraft hs ht, b_pow_split hs ht] at h
  exact Nat.le_of_mul_le_mul_right h (Nat.pow_pos (by decide))

theorem codeAt_succ_lt {N : Nat} {ln : Nat → Nat} (hs : Sorted N ln) {t : Nat} (ht : t + 1 < N) :
    codeAt ln t + 1 < 2 ^ ln t := by
  have ht0 : t < N := by omega
  have h := kraftSum_lt_top hs ht
  have hp : 0 < 2 ^ (15 - ln (t + 1)) := Nat.pow_pos (by decide)
  have h' : kraftSum ln (t + 1) < 2 ^ 15 := by omega
  rw [← b_codeAt_succ_kraft hs ht0, b_pow_split hs ht0] at h'
  exact Nat.lt_of_mul_lt_mul_right h'

/-- prefix-freeness, arithmetic form -/
theorem codeAt_prefix {N : Nat} {ln : Nat → Nat} (hs : Sorted N ln) {t t' : Nat} (htt : t < t') (ht' : t' < N) :
    (codeAt ln t + 1) * 2 ^ (ln t' - ln t) ≤ codeAt ln t' := by
  have ht0 : t < N := by omega
  have hm : ln t ≤ ln t' := ln_mono hs (Nat.le_of_lt htt) ht'
  have hh : ln t' ≤ 15 := hs.hi _ ht'
  have he : ln t' - ln t + (15 - ln t') = 15 - ln t := by omega
  have h : kraftSum ln (t + 1) ≤ kraftSum ln t' := kraftSum_mono ln htt
  rw [← b_codeAt_succ_kraft hs ht0, ← codeAt_kraft hs ht', ← he, Nat.pow_add, ← Nat.mul_assoc] at h
  exact Nat.le_of_mul_le_mul_right h (Nat.pow_pos (by decide))

theorem b_64 {N : Nat} {ln : Nat → Nat} (hs : Sorted N ln) {t : Nat} (ht : t < N) (h9 : 9 < ln t) :
    (64 : Nat) = 2 ^ (ln t - 9) * 2 ^ (15 - ln t) := by
  have := hs.hi t ht
  rw [← Nat.pow_add]
  have : ln t - 9 + (15 - ln t) = 6 := by omega
  rw [this]

/-- a code longer than 9 bits: its 9-bit prefix and the rest, in terms of the Kraft sum (64 = 2^(15-9)) -/
theorem codeAt_hi {N : Nat} {ln : Nat → Nat} (hs : Sorted N ln) {t : Nat} (ht : t < N) (h9 : 9 < ln t) :
    codeAt ln t / 2 ^ (ln t - 9) = kraftSum ln t / 64 ∧ kraftSum ln t / 64 < 512 := by
  constructor
  · rw [← codeAt_kraft hs ht, b_64 hs ht h9, Nat.mul_div_mul_right _ _ (Nat.pow_pos (by decide))]
  · have h := kraftSum_lt_top hs ht
    have hp : 0 < 2 ^ (15 - ln t) := Nat.pow_pos (by decide)
    rw [b_pow15] at h
    omega

theorem codeAt_lo {N : Nat} {ln : Nat → Nat} (hs : Sorted N ln) {t : Nat} (ht : t < N) (h9 : 9 < ln t)
    (h0 : kraftSum ln t % 64 = 0) : codeAt ln t % 2 ^ (ln t - 9) = 0 := by
  rw [← codeAt_kraft hs ht, b_64 hs ht h9, Nat.mul_mod_mul_right] at h0
  rcases Nat.mul_eq_zero.mp h0 with h | h
  · exact h
  · have hp : 0 < 2 ^ (15 - ln t) := Nat.pow_pos (by decide)
    omega

theorem codeAt_split9 {N : Nat} {ln : Nat → Nat} (hs : Sorted N ln) {t : Nat} (ht : t < N) (h9 : 9 < ln t) :
    codeAt ln t = kraftSum ln t / 64 * 2 ^ (ln t - 9) + codeAt ln t % 2 ^ (ln t - 9) := by
  rw [← (codeAt_hi hs ht h9).1]
  exact (Nat.div_add_mod' _ _).symm

/-- if consecutive quotients differ then the divisor divides the successor -/
theorem b_div_succ (c e : Nat) (he : 0 < e) (h : c / e ≠ (c + 1) / e) : (c + 1) % e = 0 := by
  apply Classical.byContradiction
  intro hne
  apply h
  have h1 := Nat.div_add_mod (c + 1) e
  have h2 := Nat.mod_lt (c + 1) he
  have h3 : (c + 1) / e * e = e * ((c + 1) / e) := Nat.mul_comm _ _
  have h4 : ((c + 1) / e + 1) * e = (c + 1) / e * e + e := Nat.succ_mul _ _
  apply Nat.div_eq_of_lt_le
  · rw [h3]; omega
  · rw [h4, h3]; omega

/-- the first code under a new 9-bit prefix has low part 0 -/
theorem kraft_new_prefix {N : Nat} {ln : Nat → Nat} (hs : Sorted N ln) {t : Nat} (ht : t + 1 < N)
    (h : ln t ≤ 9 ∨ kraftSum ln t / 64 ≠ kraftSum ln (t + 1) / 64) : kraftSum ln (t + 1) % 64 = 0 := by
  have ht0 : t < N := by omega
  have hhi : ln t ≤ 15 := hs.hi t ht0
  rcases Nat.lt_or_ge 9 (ln t) with h9 | h9
  · have hne : kraftSum ln t / 64 ≠ kraftSum ln (t + 1) / 64 := by
      rcases h with h | h
      · omega
      · exact h
    have hp : 0 < 2 ^ (15 - ln t) := Nat.pow_pos (by decide)
    have he : 0 < 2 ^ (ln t - 9) := Nat.pow_pos (by decide)
    rw [← b_codeAt_succ_kraft hs ht0, ← codeAt_kraft hs ht0, b_64 hs ht0 h9,
      Nat.mul_div_mul_right _ _ hp, Nat.mul_div_mul_right _ _ hp] at hne
    have hd := b_div_succ _ _ he hne
    rw [← b_codeAt_succ_kraft hs ht0, b_64 hs ht0 h9, Nat.mul_mod_mul_right, hd, Nat.zero_mul]
  · have hd : (2 : Nat) ^ (15 - ln t) = 2 ^ (9 - ln t) * 64 := by
      have : (64 : Nat) = 2 ^ 6 := by decide
      rw [this, ← Nat.pow_add]
      congr 1; omega
    rw [← b_codeAt_succ_kraft hs ht0, hd, ← Nat.mul_assoc]
    exact Nat.mul_mod_left _ _

theorem kraftSum_add_le {N : Nat} {ln : Nat → Nat} (hs : Sorted N ln) (a k : Nat) (hak : a + k ≤ N) :
    kraftSum ln (a + k) ≤ kraftSum ln a + k * 2 ^ (15 - ln a) := by
  induction k with
  | zero => simp
  | succ k ih =>
    have ih := ih (by omega)
    have hm : ln a ≤ ln (a + k) := ln_mono hs (Nat.le_add_right _ _) (by omega)
    have hp : 2 ^ (15 - ln (a + k)) ≤ 2 ^ (15 - ln a) :=
      Nat.pow_le_pow_right (by decide) (by omega)
    rw [← Nat.add_assoc, b_kraftSum_succ, Nat.succ_mul]
    omega

/-- a run of `k` symbols of the same length `j` -/
theorem kraftSum_block (ln : Nat → Nat) (a k j : Nat) (h : ∀ t, a ≤ t → t < a + k → ln t = j) :
    kraftSum ln (a + k) = kraftSum ln a + k * 2 ^ (15 - j) := by
  induction k with
  | zero => simp
  | succ k ih =>
    have ih := ih (fun t h1 h2 => h t h1 (by omega))
    have hj : ln (a + k) = j := h _ (Nat.le_add_right _ _) (by omega)
    rw [← Nat.add_assoc, b_kraftSum_succ, Nat.succ_mul, ih, hj, Nat.add_assoc]

end WuffsVerif.StdDeflate.F
