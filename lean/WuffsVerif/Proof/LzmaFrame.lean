/-
C17: `encodeRaw` only appends to `dst`; the LZMA container; uvarints.
-/
import WuffsVerif.Proof.LzmaRaw

namespace WuffsVerif.Lzma

/-! ## `encodeRaw dst src = dst ++ encodeRaw #[] src` -/

/-- the same encoder state with `p` in front of the bytes written so far -/
def pre (p : Array UInt8) (e : RangeEncoder) : RangeEncoder := { e with dst := p ++ e.dst }

theorem pushN_append (p d : Array UInt8) (b : UInt8) (n : Nat) : pushN (p ++ d) b n = p ++ pushN d b n := by
  induction n generalizing d with
  | zero => rfl
  | succ n ih => simp only [pushN]; rw [Array.push_append, ih]

theorem shiftLow_pre (p : Array UInt8) (e : RangeEncoder) : (pre p e).shiftLow = pre p e.shiftLow := by
  unfold RangeEncoder.shiftLow pre
  dsimp only
  split
  · simp only [Array.push_append, pushN_append]
  · split
    · rfl
    · simp only [Array.push_append, pushN_append]

theorem narrow_pre (p : Array UInt8) (q : Nat) (e : RangeEncoder) (b : Nat) :
    narrow q (pre p e) b = pre p (narrow q e b) := by
  unfold narrow pre
  split <;> rfl

theorem normalize_pre (p : Array UInt8) (e : RangeEncoder) : normalize (pre p e) = pre p (normalize e) := by
  unfold normalize
  have hw : (pre p e).width = e.width := rfl
  rw [hw]
  split
  · exact shiftLow_pre p { e with width := (e.width * 256) &&& 0xFFFFFFFF }
  · rfl

theorem encodeBit_pre (p : Array UInt8) (q : Nat) (e : RangeEncoder) (b : Nat) :
    encodeBit q (pre p e) b = ((encodeBit q e b).1, pre p (encodeBit q e b).2) := by
  rw [encodeBit_eq, encodeBit_eq, narrow_pre, normalize_pre]

theorem encodeByteLoop_pre (p : Array UInt8) (base b : Nat) : ∀ (n index : Nat) (probs : Array Nat)
    (e : RangeEncoder),
    encodeByteLoop base b n index probs (pre p e) =
      ((encodeByteLoop base b n index probs e).1, pre p (encodeByteLoop base b n index probs e).2) := by
  intro n
  induction n with
  | zero => intros; rfl
  | succ n ih =>
    intro index probs e
    simp only [encodeByteLoop]
    rw [encodeBit_pre]
    exact ih _ _ _

theorem encodeRawLoop_pre (p : Array UInt8) : ∀ (src : List UInt8) (pos : Nat) (prev : UInt8)
    (pp lp : Array Nat) (e : RangeEncoder),
    encodeRawLoop src pos prev pp lp (pre p e) = pre p (encodeRawLoop src pos prev pp lp e) := by
  intro src
  induction src with
  | nil => intros; rfl
  | cons c rest ih =>
    intro pos prev pp lp e
    rw [encodeRawLoop, encodeRawLoop]
    simp only [encodeByte, encodeBit_pre, encodeByteLoop_pre, ih]

theorem encodeRaw_prefix (dst : Array UInt8) (src : List UInt8) :
    encodeRaw dst src = dst ++ encodeRaw #[] src := by
  have h0 : ({ dst := dst, low := 0, width := 0xFFFFFFFF, pendingHead := 0, pendingExtra := 0 } : RangeEncoder)
      = pre dst encInit := by
    unfold pre encInit; simp
  show (encodeRawLoop src 0 0 initPosProbs initLitProbs
      { dst := dst, low := 0, width := 0xFFFFFFFF, pendingHead := 0, pendingExtra := 0 }).flush.dst
    = dst ++ (encodeRawLoop src 0 0 initPosProbs initLitProbs encInit).flush.dst
  rw [h0, encodeRawLoop_pre]
  unfold RangeEncoder.flush
  rw [shiftLow_pre, shiftLow_pre, shiftLow_pre, shiftLow_pre, shiftLow_pre]
  rfl

theorem encodeRaw_toList (dst : Array UInt8) (src : List UInt8) :
    (encodeRaw dst src).toList = dst.toList ++ (encodeRaw #[] src).toList := by
  rw [encodeRaw_prefix, Array.toList_append]

/-- the raw code is at least 5 bytes long -/
theorem encodeRaw_length (src : List UInt8) : 5 ≤ (encodeRaw #[] src).size := by
  rw [encodeRaw_nil_eq]
  obtain ⟨hvf, hall⟩ := rawLoop_ok src 0 0 initPosProbs initLitProbs encInit encInit_valid
    initPosProbs_ok initLitProbs_ok
  obtain ⟨flen, _⟩ := flush_spec _ hvf
  rw [← Array.length_toList, flen]
  unfold nDig
  have := digits_length (encodeRawLoop src 0 0 initPosProbs initLitProbs encInit)
  omega

/-! ## the LZMA container -/

theorem le64_length (n : Nat) : (le64 n).length = 8 := by simp [le64]

theorem readLe64_le64 (n : Nat) (hn : n < 18446744073709551616) (rest : List UInt8) :
    readLe64 (le64 n ++ rest) = n := by
  unfold readLe64
  rw [List.take_append_of_le_length (by rw [le64_length]; omega), List.take_of_length_le (by rw [le64_length]; omega)]
  simp only [le64, List.range, List.range.loop, List.map, List.foldr, toUInt8_toNat, Nat.shiftRight_eq_div_pow]
  omega

end WuffsVerif.Lzma
