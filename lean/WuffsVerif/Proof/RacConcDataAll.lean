/-
C14 helper: the data-level model of the concurrent reader (Model/Rac/ConcData.lean) —
all invariants together, for every reachable state.
-/
import WuffsVerif.Proof.RacConcDataTile3

set_option linter.unusedVariables false
set_option linter.unusedSimpArgs false

namespace WuffsVerif.Rac.ConcD
open WuffsVerif.Rac WuffsVerif.Rac.Conc

structure AllInv (F : File) (s : DSt) : Prop where
  d : DInv F s
  c : CInv (abs s)
  t : Active s → TInv F s

/-- a result arriving on `resc` never collides with an entry of `completedWorks` -/
theorem no_dup_key {F : File} {s : DSt} (hA : AllInv F s) (it : DItem) (rest : List DItem)
    (hq : s.resc = it :: rest) (hm : s.main = .reading) (hsr : s.seekResolved = true) :
    s.completed.all (fun c => c.lo != it.lo) = true := by
  have hT := hA.t ⟨hsr, Or.inr hm⟩
  rw [List.all_eq_true]
  intro c hc
  simp only [bne_iff_ne, ne_eq]
  intro heq
  have h0 := hT.occ it.lo
  have h1 := occItems_mem_le it.lo s.completed c hc
  have h2 := occItems_mem_le it.lo s.resc it (by rw [hq]; simp)
  have n1 := (hA.d.comp c hc).ne
  have n2 := (hA.d.resc it (by rw [hq]; simp)).ne
  simp only [occ] at h0
  have a1 := ind_spec c.lo c.hi it.lo
  have a2 := ind_spec it.lo it.hi it.lo
  have a3 := ind_spec (nextPos s) (qOf s) it.lo
  omega

/-- the handshake steps leave `main` inside `stopAnyWorkInProgress` (or closed): not active -/
theorem handshake_not_active {F : File} {s s' : DSt} (l : DLabel)
    (hl : l = .stopMgr ∨ (∃ i, l = .stopW i) ∨ l = .recycle ∨ l = .ackMgr ∨ (∃ i, l = .ackW i) ∨ l = .ackDone)
    (h : stepD F s l = some s') : ¬ Active s' := by
  intro ha
  have hmain : s'.main = .idle ∨ s'.main = .reading := ha.2
  unfold stepD at h
  split at h
  · cases h
  · rcases hl with hl | ⟨i, hl⟩ | hl | hl | ⟨i, hl⟩ | hl <;> subst hl <;> simp only at h
    · split at h
      · split at h
        · cases h; rcases hmain with h | h <;> cases h
        · cases h
      · cases h
    · split at h
      · split at h
        · cases h; rcases hmain with h | h <;> cases h
        · cases h
      · cases h
    · split at h
      · split at h
        · split at h
          · cases h; rcases hmain with h | h <;> cases h
          · cases h; rcases hmain with h | h <;> cases h
        · cases h
      · cases h
    · split at h
      · split at h
        · cases h; rcases hmain with h | h <;> cases h
        · cases h
      · cases h
    · split at h
      · split at h
        · split at h
          · cases h; rcases hmain with h | h <;> cases h
          · cases h
        · cases h
      · cases h
    · split at h
      · split at h
        · split at h
          · cases h; rcases hmain with h | h <;> cases h
          · split at h
            · cases h; rcases hmain with h | h <;> cases h
            · cases h; rcases hmain with h | h <;> cases h
        · cases h
      · cases h

theorem all_step {F : File} (hok : F.ok) {s s' : DSt} (l : DLabel) (hA : AllInv F s)
    (h : stepD F s l = some s') : AllInv F s' := by
  have hc : CInv (abs s') := cinv_of_sim (sim_step l h) hA.c
  cases l with
  | call op => exact ⟨dinv_call hok op hA.d h, hc, tinv_call op hA.t h⟩
  | stopMgr => exact ⟨dinv_stopMgr hA.d h, hc, fun ha => absurd ha (handshake_not_active _ (Or.inl rfl) h)⟩
  | stopW i =>
    exact ⟨dinv_stopW i hA.d h, hc, fun ha => absurd ha (handshake_not_active _ (Or.inr (Or.inl ⟨i, rfl⟩)) h)⟩
  | recycle =>
    exact ⟨dinv_recycle hA.d h, hc, fun ha => absurd ha (handshake_not_active _ (Or.inr (Or.inr (Or.inl rfl))) h)⟩
  | ackMgr =>
    exact ⟨dinv_ackMgr hA.d h, hc,
      fun ha => absurd ha (handshake_not_active _ (Or.inr (Or.inr (Or.inr (Or.inl rfl)))) h)⟩
  | ackW i =>
    exact ⟨dinv_ackW i hA.d h, hc,
      fun ha => absurd ha (handshake_not_active _ (Or.inr (Or.inr (Or.inr (Or.inr (Or.inl ⟨i, rfl⟩))))) h)⟩
  | ackDone =>
    exact ⟨dinv_ackDone hA.d h, hc,
      fun ha => absurd ha (handshake_not_active _ (Or.inr (Or.inr (Or.inr (Or.inr (Or.inr rfl))))) h)⟩
  | roi => exact ⟨dinv_roi hA.d hA.c h, hc, fun _ => tinv_roi hA.d hA.c h⟩
  | mgrMake => exact ⟨dinv_mgrMake hok hA.d h, hc, tinv_mgrMake hok hA.d hA.t h⟩
  | mgrSend => exact ⟨dinv_mgrSend hA.d h, hc, tinv_mgrSend hA.d hA.t h⟩
  | wRecv i => exact ⟨dinv_wRecv hok i hA.d h, hc, tinv_wRecv hok i hA.d hA.t h⟩
  | wMake i => exact ⟨dinv_wMake hok i hA.d h, hc, tinv_wMake hok i hA.d hA.t h⟩
  | wSend i => exact ⟨dinv_wSend i hA.d h, hc, tinv_wSend i hA.d hA.c hA.t h⟩
  | wRecycle i => exact ⟨dinv_wRecycle i hA.d h, hc, tinv_wRecycle i hA.d hA.t h⟩
  | recvRes => exact ⟨dinv_recvRes hA.d (no_dup_key hA) h, hc, tinv_recvRes hA.d hA.t h⟩
  | take j => exact ⟨dinv_take j hA.d h, hc, tinv_take j hA.d hA.t h⟩
  | recycleCurr => exact ⟨dinv_recycleCurr hA.d h, hc, tinv_recycleCurr hok hA.d hA.t h⟩
  | copy => exact ⟨dinv_copy hok hA.d h, hc, fun _ => tinv_copy hA.d hA.t h⟩
  | readDone => exact ⟨dinv_readDone hok hA.d h, hc, fun _ => tinv_readDone hA.d hA.t h⟩

theorem dinv_init (F : File) (hok : F.ok) (n : Nat) : DInv F (DSt.init F n) := by
  have hsp : specOf F (DSt.init F n) = Spec.init F.bytes true := rfl
  refine
    { nofault := rfl
      resc := fun it h => by cases h
      comp := fun it h => by cases h
      curr := fun it h => by cases h
      reqc := fun it h => by cases h
      mwork := fun h => by simp [DSt.init] at h
      rhi := Nat.zero_le _
      wk := ?_
      lim := Nat.le_refl _
      seen := fun h => by cases h
      live := fun h => by cases h
      closedIff := fun h => by cases h
      pend := rfl
      rd := fun n h => by cases h
      nord := fun _ => rfl
      log := rfl
      sperr := by rw [hsp]; rfl
      spclosed := by rw [hsp]; rfl
      sp := fun _ => by
        rw [hsp]
        exact ⟨by simp [Spec.init, DSt.init, File.bytes_length hok.1], rfl, rfl⟩ }
  intro i w hi
  simp only [DSt.init, List.getElem?_replicate] at hi
  split at hi
  · cases hi
    exact ⟨rfl, Props.C14.Inv.init F false, fun h => by simp at h, fun h => by simp at h⟩
  · cases hi

theorem all_init (F : File) (hok : F.ok) (n : Nat) : AllInv F (DSt.init F n) :=
  ⟨dinv_init F hok n, by rw [abs_init]; exact CInv.init n, fun ha => by cases ha.1⟩

theorem execD_all {F : File} (hok : F.ok) : ∀ (ls : List DLabel) (s s' : DSt), AllInv F s → execD F s ls = some s' → AllInv F s'
  | [], s, s', hI, h => by simp only [execD] at h; cases h; exact hI
  | l :: ls, s, s', hI, h => by
    simp only [execD] at h
    split at h
    · next s1 h1 => exact execD_all hok ls s1 s' (all_step hok l hI h1) h
    · cases h

/-- every reachable state of the data-level model satisfies all the invariants -/
theorem reachD_all {F : File} (hok : F.ok) {n : Nat} {s : DSt} (h : ReachD F n s) : AllInv F s := by
  obtain ⟨ls, hls⟩ := h
  exact execD_all hok ls _ _ (all_init F hok n) hls

end WuffsVerif.Rac.ConcD
