/-
C13: `Spec.findRoot` finds the root node the writer placed at the start resp. the end of the file.
-/
import WuffsVerif.Proof.RacCloseAux
namespace WuffsVerif.Rac
open Spec

theorem atPos_take {file : Array UInt8} {seg : Bytes} (h : AtPos file 0 seg) : file.toList.take seg.length = seg := by
  have hb := atPos_bound h
  unfold AtPos slice at h
  rw [if_pos hb] at h
  have h' : (file.extract 0 (0 + seg.length)).toList = seg := by simpa using h
  rw [← h']; simp

theorem loadBranch_ok (file : Array UInt8) (nw : NodeWriter) (cs : List WNode) (rs : List Nat) (c : Nat)
    (ok : NodeOK nw cs rs c) (pos cb db : Nat) (hat : AtPos file pos (nodeBytesOf nw cs rs c)) :
    loadBranch file pos cb db = .ok (parsedBranch nw cs rs c pos cb db) := by
  have hne : cs.length ≠ 0 := fun h0 => ok.nonempty (List.eq_nil_of_length_eq_zero h0)
  have hbound := atPos_bound hat
  rw [nodeBytesOf_length] at hbound
  have hg3 := atPos_get hat 3 (by rw [nodeBytesOf_length]; omega)
  have hg3' : (file.getD (pos + 3) 0).toNat = cs.length + rs.length + (codecIsLong c).toNat := by
    rw [hg3]; exact nb_get3 nw cs rs c ok.arity
  have hslice : slice file pos ((cs.length + rs.length + (codecIsLong c).toNat) * 16 + 16) =
      some (nodeBytesOf nw cs rs c) := by
    have := hat; unfold AtPos at this; rwa [nodeBytesOf_length] at this
  unfold loadBranch
  rw [if_neg (by omega)]
  simp only [hg3', hslice]
  exact parse_nodeBytes nw cs rs c ok pos cb db

theorem pb_cptrMax (nw : NodeWriter) (cs : List WNode) (rs : List Nat) (c : Nat) (ok : NodeOK nw cs rs c)
    (off cb db : Nat) :
    (parsedBranch nw cs rs c off cb db).cptr.getD (parsedBranch nw cs rs c off cb db).arity 0 = nw.cFileSize := by
  have := pb_cOff nw cs rs c ok off cb db _ (Nat.le_refl _)
  unfold Branch.cOff at this
  rw [vCO_max] at this
  rw [pb_arity]
  have hcb : (parsedBranch nw cs rs c off cb db).cBias = cb := rfl
  rw [hcb] at this
  omega

/-- root at the start of the file (IndexLocationAtStart) -/
theorem findRoot_start (file : Array UInt8) (nw : NodeWriter) (cs : List WNode) (rs : List Nat) (c : Nat)
    (ok : NodeOK nw cs rs c) (hfs : file.size = nw.cFileSize) (hat : AtPos file 0 (nodeBytesOf nw cs rs c)) :
    findRoot file = .ok (parsedBranch nw cs rs c 0 0 0) := by
  have hne : cs.length ≠ 0 := fun h0 => ok.nonempty (List.eq_nil_of_length_eq_zero h0)
  have hbound := atPos_bound hat
  rw [nodeBytesOf_length] at hbound
  have htake := atPos_take hat
  have hmagic : file.extract 0 3 = #[0x72, 0xC3, 0x63] := by
    apply Array.ext'
    have : (file.extract 0 3).toList = (file.toList.take (nodeBytesOf nw cs rs c).length).take 3 := by
      rw [List.take_take, nodeBytesOf_length]
      simp
    rw [this, htake, nb_take3]
  have hg3 := atPos_get hat 3 (by rw [nodeBytesOf_length]; omega)
  have hg3' : (file.getD 3 0).toNat = cs.length + rs.length + (codecIsLong c).toNat := by
    have : file.getD (0 + 3) 0 = file.getD 3 0 := by simp
    rw [← this, hg3]; exact nb_get3 nw cs rs c ok.arity
  unfold findRoot
  simp only
  rw [if_neg (by omega), hmagic]
  simp only [bne_self_eq_false, Bool.false_eq_true, ↓reduceIte, hg3']
  rw [if_neg (by rw [beq_iff_eq]; omega), loadBranch_ok file nw cs rs c ok 0 0 0 hat]
  simp only [pb_cptrMax nw cs rs c ok, hfs, beq_self_eq_true, ↓reduceIte]

/-- root at the end of the file (IndexLocationAtEnd): the file starts with the 4-byte magic `72 C3 63 00` -/
theorem findRoot_end (file : Array UInt8) (nw : NodeWriter) (cs : List WNode) (rs : List Nat) (c : Nat)
    (ok : NodeOK nw cs rs c) (hfs : file.size = nw.cFileSize) (off : Nat)
    (hmag : AtPos file 0 CW.indexLocationAtEndMagic)
    (hat : AtPos file off (nodeBytesOf nw cs rs c))
    (hend : off + ((cs.length + rs.length + (codecIsLong c).toNat) * 16 + 16) = file.size) :
    findRoot file = .ok (parsedBranch nw cs rs c off 0 0) := by
  have hne : cs.length ≠ 0 := fun h0 => ok.nonempty (List.eq_nil_of_length_eq_zero h0)
  have hA := ok.arity
  have htake := atPos_take hmag
  have hb4 := atPos_bound hmag
  simp only [CW.indexLocationAtEndMagic, List.length_cons, List.length_nil] at hb4
  have hmagic : file.extract 0 3 = #[0x72, 0xC3, 0x63] := by
    apply Array.ext'
    have : (file.extract 0 3).toList = (file.toList.take CW.indexLocationAtEndMagic.length).take 3 := by
      rw [List.take_take]
      simp [CW.indexLocationAtEndMagic]
    rw [this, htake]; rfl
  have hg3 : (file.getD 3 0).toNat = 0 := by
    have := atPos_get hmag 3 (by simp [CW.indexLocationAtEndMagic])
    have e : file.getD (0 + 3) 0 = file.getD 3 0 := by simp
    rw [← e, this]; rfl
  have hlast : (file.getD (file.size - 1) 0).toNat = cs.length + rs.length + (codecIsLong c).toNat := by
    have := atPos_get hat ((cs.length + rs.length + (codecIsLong c).toNat) * 16 + 16 - 1)
      (by rw [nodeBytesOf_length]; omega)
    have e : off + ((cs.length + rs.length + (codecIsLong c).toNat) * 16 + 16 - 1) = file.size - 1 := by omega
    rw [e] at this
    rw [this]; exact nb_last_arity nw cs rs c ok
  unfold findRoot
  simp only
  rw [if_neg (by omega), hmagic]
  simp only [bne_self_eq_false, Bool.false_eq_true, ↓reduceIte, hg3, beq_self_eq_true, hlast]
  rw [if_neg (by rw [beq_iff_eq]; omega), if_neg (by omega)]
  have e : file.size - ((cs.length + rs.length + (codecIsLong c).toNat) * 16 + 16) = off := by omega
  rw [e, loadBranch_ok file nw cs rs c ok off 0 0 hat]
  simp only [pb_cptrMax nw cs rs c ok, hfs, beq_self_eq_true, ↓reduceIte]
end WuffsVerif.Rac
