/-
C12, the C indenter: idempotence, line level and loop level (continues Proof/IndentIdem.lean).
Core Lean only.
-/
import WuffsVerif.Proof.IndentIdem

namespace WuffsVerif.Indent

/-! ### one code line, twice -/

theorem trimT_split (l : Bytes) : ∃ z, AllWs z ∧ l = trimTrailingWs l ++ z := by
  induction l with
  | nil => exact ⟨[], by simp [AllWs], by simp [trimTrailingWs_nil]⟩
  | cons c cs ih =>
    obtain ⟨z, hz, he⟩ := ih
    rw [trimTrailingWs_cons]
    split
    · rename_i h
      simp only [Bool.and_eq_true, List.isEmpty_iff] at h
      refine ⟨c :: cs, ?_, by simp⟩
      intro b hb
      simp only [List.mem_cons] at hb
      rcases hb with rfl | hb
      · exact h.2
      · rw [h.1] at he
        simp only [List.nil_append] at he
        rw [he] at hb
        exact hz b hb
    · exact ⟨z, hz, by simp only [List.cons_append]; rw [← he]⟩

theorem countInitial_append_ne (x : UInt8) (l z : Bytes) (hz : ∀ b ∈ z, b ≠ x) :
    countInitial x (l ++ z) = countInitial x l := by
  induction l with
  | nil =>
    cases z with
    | nil => rfl
    | cons b bs =>
      have : (b == x) = false := by simpa using hz b (by simp)
      simp [countInitial, this]
  | cons c cs ih =>
    simp only [List.cons_append, countInitial]
    split
    · rw [ih]
    · rfl

theorem countInitial_le (x : UInt8) (l : Bytes) : countInitial x l ≤ l.length := by
  induction l with
  | nil => simp [countInitial]
  | cons c cs ih => simp only [countInitial, List.length_cons]; split <;> omega

theorem allWs_ne (z : Bytes) (hz : AllWs z) (x : UInt8) (hx : isWs x = false) : ∀ b ∈ z, b ≠ x := by
  intro b hb e
  have := hz b hb
  rw [e, hx] at this
  exact Bool.noConfusion this

theorem contains_append_ws (l z : Bytes) (hz : AllWs z) : (l ++ z).contains LBRACE = l.contains LBRACE := by
  have : z.contains LBRACE = false := by
    rw [Bool.eq_false_iff]
    intro h
    have hm : LBRACE ∈ z := by simpa using h
    exact absurd (hz _ hm) (by decide)
  simp [List.contains_eq_mem, List.mem_append] at this ⊢
  intro h
  exact absurd h this

theorem hasPrefixAndBrace_append_ws (l z pre : Bytes) (hz : AllWs z) :
    hasPrefixAndBrace (l ++ z) pre = hasPrefixAndBrace l pre := by
  unfold hasPrefixAndBrace
  by_cases hp : pre.isPrefixOf l = true
  · have hp2 : pre.isPrefixOf (l ++ z) = true := by
      rw [List.isPrefixOf_iff_prefix] at hp ⊢
      exact List.IsPrefix.trans hp (List.prefix_append l z)
    have hlen : pre.length ≤ l.length := (List.isPrefixOf_iff_prefix.mp hp).length_le
    rw [hp, hp2, List.drop_append_of_le_length hlen, contains_append_ws _ _ hz]
  · have hp' : pre.isPrefixOf l = false := Bool.eq_false_iff.mpr hp
    rw [hp']
    simp only [Bool.false_and, Bool.and_eq_false_iff]
    by_cases hp2 : pre.isPrefixOf (l ++ z) = true
    · right
      -- pre is longer than l, so what is left of l ++ z after it is blanks only
      have h2 := List.isPrefixOf_iff_prefix.mp hp2
      have hlen : l.length < pre.length := by
        apply Nat.lt_of_not_le
        intro hcon
        have : pre <+: l := List.prefix_of_prefix_length_le h2 (List.prefix_append l z) hcon
        exact hp (List.isPrefixOf_iff_prefix.mpr this)
      rw [Bool.eq_false_iff]
      intro hc
      have hm : LBRACE ∈ (l ++ z).drop pre.length := by simpa using hc
      have : (l ++ z).drop pre.length = z.drop (pre.length - l.length) := by
        rw [List.drop_append]
        have : l.drop pre.length = [] := List.drop_eq_nil_of_le (by omega)
        rw [this]; simp
      rw [this] at hm
      exact absurd (hz _ (List.mem_of_mem_drop hm)) (by decide)
    · left; exact Bool.eq_false_iff.mpr hp2

theorem head?_append_ne (l z : Bytes) (h : l ≠ []) : (l ++ z).head? = l.head? := by
  cases l with
  | nil => exact absurd rfl h
  | cons _ _ => rfl

theorem isExternOrNamespace_append_ws (l z : Bytes) (hl : l ≠ []) (hz : AllWs z) :
    isExternOrNamespace (l ++ z) = isExternOrNamespace l := by
  unfold isExternOrNamespace
  rw [head?_append_ne l z hl, hasPrefixAndBrace_append_ws _ _ _ hz, hasPrefixAndBrace_append_ws _ _ _ hz]

theorem closeBracesOf_append_ws (l z : Bytes) (hl : l ≠ []) (hz : AllWs z) :
    closeBracesOf (l ++ z) = closeBracesOf l := by
  unfold closeBracesOf countCloseBraces
  rw [isExternOrNamespace_append_ws l z hl hz, countInitial_append_ne _ _ _ (allWs_ne z hz RBRACE (by decide))]

theorem nBracesAtLineStart_append_ws (st : St) (l z : Bytes) (hl : l ≠ []) (hz : AllWs z) :
    nBracesAtLineStart st (l ++ z) = nBracesAtLineStart st l := by
  unfold nBracesAtLineStart countCloseBraces
  rw [isExternOrNamespace_append_ws l z hl hz, countInitial_append_ne _ _ _ (allWs_ne z hz RBRACE (by decide))]

theorem closeBracesOf_le (l : Bytes) : closeBracesOf l ≤ l.length := by
  unfold closeBracesOf countCloseBraces
  split
  · omega
  · exact countInitial_le _ _

end WuffsVerif.Indent

namespace WuffsVerif.Indent

theorem trimTrailingWs_cons_nonws (c : UInt8) (l : Bytes) (hc : isWs c = false) :
    trimTrailingWs (c :: l) = c :: trimTrailingWs l := by
  rw [trimTrailingWs_cons]; simp [hc]

/-- Formatting the line that `codeLine` produced (followed by anything) reproduces it: same
text, same new state. -/
theorem codeLine_cong (o : Opts) (ii : Nat) (st : St) (line tail text : Bytes) (st' : St) (tail' : Bytes)
    (h : codeLine o ii st line tail = some (text, st', tail'))
    (hclosed : codeLineClosed st line tail = true)
    (hline : NL ∉ line) (c0 : UInt8) (l0 : Bytes) (hl0 : line = c0 :: l0) (hc0 : isWs c0 = false)
    (htail : NlHead tail) (R : Bytes) :
    ∃ (body : Bytes), text = List.replicate (codeIndent o ii st (nBracesAtLineStart st line)) o.indentByte ++ (body ++ [NL]) ∧
      (∃ b, body = c0 :: b) ∧
      codeLine o ii st (splitLine (body ++ NL :: R)).1 (splitLine (body ++ NL :: R)).2 = some (text, st', NL :: R) := by
  unfold codeLine at h
  unfold codeLineClosed at hclosed
  simp only [] at h hclosed
  cases hs : scan ((line.drop (closeBracesOf line)).length + tail.length + 1) (nBracesAtLineStart st line)
      st.nParens (lastNonWs (line.drop (closeBracesOf line))) true [] [] (line.drop (closeBracesOf line)) tail with
  | none => rw [hs] at h; simp at h
  | some r =>
    rw [hs] at h hclosed
    simp only [Option.some.injEq, Prod.mk.injEq] at h hclosed
    obtain ⟨htext, hst', htail'⟩ := h
    have hspec := scan_spec _ _ _ _ _ _ _ _ _ _ hs
    have hrT : NlHead r.tail := hspec.nlHead htail
    have hb := hspec.bytes
    simp only [List.reverse_nil, List.nil_append] at hb
    obtain ⟨z, hz, hrl⟩ := trimT_split r.line
    have hzn : NL ∉ z := allWs_noNl hz
    have hlne : line ≠ [] := by rw [hl0]; simp
    -- the body of the output line
    refine ⟨line.take (closeBracesOf line) ++ (r.out ++ trimTrailingWs r.line), ?_, ?_, ?_⟩
    · rw [← htext]; simp
    · -- it starts with c0
      by_cases hcb : closeBracesOf line = 0
      · -- nothing taken: the body is r.out ++ trimT r.line, a prefix-modulo-blanks of line ++ tail
        rw [hcb] at hb ⊢
        simp only [List.drop_zero, List.take_zero, List.nil_append] at hb ⊢
        cases hro : r.out with
        | cons x xs =>
          rw [hro, hl0] at hb
          simp only [List.cons_append, List.cons.injEq] at hb
          exact ⟨xs ++ trimTrailingWs r.line, by simp [hb.1]⟩
        | nil =>
          rw [hro] at hb
          simp only [List.nil_append] at hb ⊢
          have hrn : NL ∉ r.line := hspec.noNl (by simp) (by rw [hcb]; simpa using hline)
          have := split_unique r.line line r.tail tail hrn hline hrT htail hb
          rw [this.1, hl0, trimTrailingWs_cons_nonws c0 l0 hc0]
          exact ⟨_, rfl⟩
      · have : ∃ n, closeBracesOf line = n + 1 := ⟨closeBracesOf line - 1, by omega⟩
        obtain ⟨n, hn⟩ := this
        rw [hn, hl0]
        exact ⟨l0.take n ++ (r.out ++ trimTrailingWs r.line), by simp⟩
    · -- the second pass
      generalize hP : line.take (closeBracesOf line) ++ (r.out ++ trimTrailingWs r.line) = P
      have hlt : line ++ tail = P ++ (z ++ r.tail) := by
        have : line = line.take (closeBracesOf line) ++ line.drop (closeBracesOf line) := (List.take_append_drop _ _).symm
        rw [← hP]
        conv => lhs; rw [this]
        rw [List.append_assoc, ← hb]
        conv => lhs; rw [hrl]
        simp
      have e2 := splitLine_eq (P ++ NL :: R)
      have hn2 := splitLine_noNl (P ++ NL :: R)
      have hh2 := splitLine_nlHead (P ++ NL :: R)
      generalize (splitLine (P ++ NL :: R)).1 = line₂ at e2 hn2
      generalize (splitLine (P ++ NL :: R)).2 = tail₂ at e2 hh2
      -- line = line₂ ++ z' for blanks z'
      have hz' : ∃ z', AllWs z' ∧ line = line₂ ++ z' := by
        have eP := splitLine_eq P
        have hnP := splitLine_noNl P
        have hhP := splitLine_nlHead P
        generalize (splitLine P).1 = a at eP hnP
        generalize (splitLine P).2 = B at eP hhP
        rcases hhP with hB | ⟨u, hu⟩
        · rw [hB] at eP
          simp only [List.append_nil] at eP
          rw [← eP] at hlt e2
          have h1 := split_unique line (a ++ z) tail r.tail hline (by simp [hnP, hzn]) htail hrT (by simpa using hlt)
          have h2 := split_unique line₂ a tail₂ (NL :: R) hn2 hnP hh2 (Or.inr ⟨_, rfl⟩) e2
          exact ⟨z, hz, by rw [h1.1, h2.1]⟩
        · rw [hu] at eP
          rw [← eP] at hlt e2
          have h1 := split_unique line a tail (NL :: u ++ (z ++ r.tail)) hline hnP htail (Or.inr ⟨_, rfl⟩) (by simpa using hlt)
          have h2 := split_unique line₂ a tail₂ (NL :: u ++ NL :: R) hn2 hnP hh2 (Or.inr ⟨_, rfl⟩) (by simpa using e2)
          exact ⟨[], by simp [AllWs], by rw [h1.1, h2.1]; simp⟩
      obtain ⟨z', hz'w, hlz⟩ := hz'
      have hl₂ne : line₂ ≠ [] := by
        intro he
        rw [he, hl0] at hlz
        simp only [List.nil_append] at hlz
        have := hz'w c0 (by rw [← hlz]; simp)
        rw [hc0] at this
        exact Bool.noConfusion this
      have hcb : closeBracesOf line = closeBracesOf line₂ := by rw [hlz, closeBracesOf_append_ws _ _ hl₂ne hz'w]
      have hnb : nBracesAtLineStart st line = nBracesAtLineStart st line₂ := by
        rw [hlz, nBracesAtLineStart_append_ws _ _ _ hl₂ne hz'w]
      have hcble := closeBracesOf_le line₂
      have htake : line.take (closeBracesOf line) = line₂.take (closeBracesOf line₂) := by
        rw [hcb, hlz, List.take_append_of_le_length hcble]
      have hdrop : line.drop (closeBracesOf line) = line₂.drop (closeBracesOf line₂) ++ z' := by
        rw [hcb, hlz, List.drop_append_of_le_length hcble]
      have hlast : lastNonWs (line.drop (closeBracesOf line)) = lastNonWs (line₂.drop (closeBracesOf line₂)) := by
        rw [hdrop, lastNonWs_append_ws _ _ hz'w]
      -- the streams of the two scans
      have hS : line.drop (closeBracesOf line) ++ tail = (r.out ++ trimTrailingWs r.line) ++ (z ++ r.tail) := by
        rw [← hb]; conv => lhs; rw [hrl]
        simp
      have hS₂ : line₂.drop (closeBracesOf line₂) ++ tail₂ = (r.out ++ trimTrailingWs r.line) ++ NL :: R := by
        have : line₂ ++ tail₂ = line₂.take (closeBracesOf line₂) ++ (line₂.drop (closeBracesOf line₂) ++ tail₂) := by
          rw [← List.append_assoc, List.take_append_drop]
        rw [this, ← hP, ← htake, List.append_assoc] at e2
        exact List.append_cancel_left e2
      have hdn : NL ∉ line.drop (closeBracesOf line) := fun hm => hline (List.mem_of_mem_drop hm)
      have hdn₂ : NL ∉ line₂.drop (closeBracesOf line₂) := fun hm => hn2 (List.mem_of_mem_drop hm)
      obtain ⟨r₂, hr₂, hsame⟩ := scan_cong _ _ _ _ _ _ _ _ _ r hs hclosed hdn htail
        (r.out ++ trimTrailingWs r.line) z (trimTrailingWs r.line) (NL :: R)
        (line₂.drop (closeBracesOf line₂)) tail₂ hS hz hrl hdn₂ hh2 (Or.inr ⟨_, rfl⟩) hS₂ true
        ((line₂.drop (closeBracesOf line₂)).length + tail₂.length + 1) (Nat.lt_succ_self _)
      obtain ⟨ho, hl, ht, hnB, hnP, hla⟩ := hsame
      unfold codeLine
      simp only []
      rw [← hnb, ← hlast, hr₂]
      simp only [Option.some.injEq, Prod.mk.injEq]
      refine ⟨?_, ?_, ht⟩
      · rw [ho, hl, trimTrailingWs_idem, ← htake]; exact htext
      · rw [← hst', hnB, hnP, hla]

end WuffsVerif.Indent


namespace WuffsVerif.Indent

/-! ### the whole run, twice -/

theorem loop_mono (o : Opts) (ii : Nat) : ∀ (f : Nat) (st : St) (src out : Bytes),
    loop o ii f st src = some out → loop o ii (f + 1) st src = some out := by
  intro f
  induction f with
  | zero => intro st src out h; simp [loop] at h
  | succ f ih =>
    intro st src out h
    simp only [loop] at h ⊢
    by_cases he : src.isEmpty = true
    · simp only [he, ↓reduceIte] at h ⊢; exact h
    · simp only [he, Bool.false_eq_true, ↓reduceIte] at h ⊢
      cases hlt : (splitLine (trimLeadingWs src)).1 with
      | nil =>
        simp only [hlt] at h ⊢
        exact ih _ _ _ h
      | cons c0 l =>
        simp only [hlt] at h ⊢
        by_cases hc : (st.preproc || c0 == HASH) = true
        · simp only [hc, ↓reduceIte, Option.map_eq_some_iff] at h ⊢
          obtain ⟨r, hr, ho⟩ := h
          exact ⟨r, ih _ _ _ hr, ho⟩
        · simp only [hc, Bool.false_eq_true, ↓reduceIte] at h ⊢
          cases hx : codeLine o ii st (c0 :: l) (splitLine (trimLeadingWs src)).2 with
          | none => simp [hx] at h
          | some x =>
            simp only [hx, Option.map_eq_some_iff] at h ⊢
            obtain ⟨r, hr, ho⟩ := h
            exact ⟨r, ih _ _ _ hr, ho⟩

theorem loop_mono_le (o : Opts) (ii : Nat) (f f' : Nat) (hle : f ≤ f') (st : St) (src out : Bytes)
    (h : loop o ii f st src = some out) : loop o ii f' st src = some out := by
  induction hle with
  | refl => exact h
  | step _ ih => exact loop_mono o ii _ st src out ih

theorem trimLeadingWs_nl (Y : Bytes) : trimLeadingWs (NL :: Y) = NL :: Y := by
  unfold trimLeadingWs
  rw [List.dropWhile_cons]
  have : isWs NL = false := by decide
  simp [this]

theorem splitLine_nl (Y : Bytes) : splitLine (NL :: Y) = ([], NL :: Y) := by
  unfold splitLine
  simp [List.takeWhile_cons, List.dropWhile_cons]

/-- `n` blank lines only bump the counter -/
theorem loop_blank_prefix (o : Opts) (ii : Nat) : ∀ (n f : Nat) (st : St) (Y : Bytes),
    loop o ii (f + n) st (List.replicate n NL ++ Y) = loop o ii f { st with nBlank := st.nBlank + n } Y := by
  intro n
  induction n with
  | zero => intro f st Y; simp
  | succ n ih =>
    intro f st Y
    have e : f + (n + 1) = (f + n) + 1 := by omega
    rw [e, List.replicate_succ, List.cons_append]
    conv => lhs; simp only [loop]
    simp only [List.isEmpty_cons, Bool.false_eq_true, ↓reduceIte, trimLeadingWs_nl, splitLine_nl, List.drop_one, List.tail_cons]
    rw [ih]
    congr 1
    cases st
    simp only [St.mk.injEq, and_self, and_true]
    omega

theorem trimLeadingWs_ws_append (w Y : Bytes) (hw : AllWs w) : trimLeadingWs (w ++ Y) = trimLeadingWs Y := by
  induction w with
  | nil => rfl
  | cons c cs ih =>
    unfold trimLeadingWs at ih ⊢
    simp only [List.cons_append]
    rw [List.dropWhile_cons]
    simp only [hw c (by simp), ↓reduceIte]
    exact ih (fun b hb => hw b (by simp [hb]))

theorem trimLeadingWs_nonws (c : UInt8) (Y : Bytes) (hc : isWs c = false) : trimLeadingWs (c :: Y) = c :: Y := by
  unfold trimLeadingWs
  rw [List.dropWhile_cons]
  simp [hc]

theorem trimLeadingWs_head (s : Bytes) (c : UInt8) (l : Bytes) (h : trimLeadingWs s = c :: l) : isWs c = false := by
  induction s with
  | nil => simp [trimLeadingWs] at h
  | cons x xs ih =>
    unfold trimLeadingWs at h ih
    rw [List.dropWhile_cons] at h
    split at h
    · exact ih h
    · rename_i hx
      simp only [List.cons.injEq] at h
      rw [← h.1]
      simpa using hx

theorem splitLine_cons_ne (c : UInt8) (Y : Bytes) (hc : c ≠ NL) :
    splitLine (c :: Y) = (c :: (splitLine Y).1, (splitLine Y).2) := by
  unfold splitLine
  have : (c != NL) = true := by simpa using hc
  simp [List.takeWhile_cons, List.dropWhile_cons, this]

theorem st_nBlank_twice (st : St) (a b : Nat) :
    ({ ({ st with nBlank := a } : St) with nBlank := b } : St) = { st with nBlank := b } := rfl

theorem codeLine_nBlank (o : Opts) (ii : Nat) (st : St) (k : Nat) (line tail : Bytes) :
    codeLine o ii { st with nBlank := k } line tail = codeLine o ii st line tail := rfl

theorem preprocLine_nBlank (o : Opts) (ii : Nat) (st : St) (k : Nat) (line : Bytes) :
    preprocLine o ii { st with nBlank := k } line = preprocLine o ii st line := rfl

end WuffsVerif.Indent

namespace WuffsVerif.Indent

theorem st_nBlank_self (st : St) (h : st.nBlank = 0) : ({ st with nBlank := 0 } : St) = st := by
  cases st; simp only at h; subst h; rfl

theorem replicate_ws_all (o : Opts) (n : Nat) : AllWs (List.replicate n o.indentByte) :=
  allWs_replicate_indent o n

theorem nl_not_ws : isWs NL = false := by decide

/-- Pass 2 on one output line `ind ++ body ++ "\n"` followed by `r`, after the `n` pending blank
lines: shared by the preprocessor-line and the code-line cases. -/
theorem loop_idem (o : Opts) (ii : Nat) : ∀ (f : Nat) (st : St) (src out : Bytes),
    loop o ii f st src = some out → loopClosed o ii f st src = true →
    ∀ m, ∃ f', loop o ii f' { st with nBlank := m } out =
      some (if out.isEmpty then [] else List.replicate m NL ++ out) := by
  intro f
  induction f with
  | zero => intro st src out h; simp [loop] at h
  | succ f ih =>
    intro st src out h hcl m
    simp only [loop] at h
    simp only [loopClosed] at hcl
    by_cases he : src.isEmpty = true
    · simp only [he, ↓reduceIte, Option.some.injEq] at h
      subst h
      exact ⟨1, by simp [loop]⟩
    · simp only [he, Bool.false_eq_true, ↓reduceIte] at h hcl
      have hnoNl := splitLine_noNl (trimLeadingWs src)
      have hnlh := splitLine_nlHead (trimLeadingWs src)
      have hsl := splitLine_eq (trimLeadingWs src)
      cases hlt : (splitLine (trimLeadingWs src)).1 with
      | nil =>
        simp only [hlt] at h hcl
        obtain ⟨f', hf'⟩ := ih _ _ _ h hcl m
        exact ⟨f', by rw [st_nBlank_twice] at hf'; exact hf'⟩
      | cons c0 l =>
        simp only [hlt] at h hcl hnoNl hsl
        -- c0 is neither blank nor a newline
        have hc0w : isWs c0 = false := by
          cases htl : trimLeadingWs src with
          | nil => rw [htl] at hsl; simp at hsl
          | cons x xs =>
            rw [htl] at hsl
            simp only [List.cons_append, List.cons.injEq] at hsl
            rw [hsl.1]
            exact trimLeadingWs_head src x xs htl
        have hc0n : c0 ≠ NL := fun e => hnoNl (by simp [e])
        by_cases hc : (st.preproc || c0 == HASH) = true
        · -- preprocessor line
          simp only [hc, ↓reduceIte, Option.map_eq_some_iff] at h hcl
          obtain ⟨r, hr, ho⟩ := h
          obtain ⟨f', hf'⟩ := ih _ _ _ hr hcl 0
          have hp2 : (preprocLine o ii st (c0 :: l)).2.nBlank = 0 := rfl
          rw [st_nBlank_self _ hp2] at hf'
          have hr' : loop o ii f' (preprocLine o ii st (c0 :: l)).2 r = some r := by
            rw [hf']; split
            · rename_i hre; simp only [List.isEmpty_iff] at hre; rw [hre]
            · simp
          -- pass 2 on this line
          refine ⟨f' + 1 + st.nBlank, ?_⟩
          rw [← ho]
          have hne : (List.replicate st.nBlank NL ++ ((preprocLine o ii st (c0 :: l)).1 ++ r)).isEmpty = false := by
            simp [preprocLine]
          rw [hne]
          simp only [Bool.false_eq_true, ↓reduceIte]
          rw [loop_blank_prefix]
          simp only [loop]
          have hline' : trimTrailingWs (c0 :: l) = c0 :: trimTrailingWs l := trimTrailingWs_cons_nonws c0 l hc0w
          have hsrc0 : (preprocLine o ii st (c0 :: l)).1 ++ r =
              List.replicate (ii + if st.preproc = true then o.indentCount * 2 else 0) o.indentByte ++
                (c0 :: (trimTrailingWs l ++ NL :: r)) := by
            simp [preprocLine, hline']
          rw [hsrc0]
          have htr : trimLeadingWs (List.replicate (ii + if st.preproc = true then o.indentCount * 2 else 0) o.indentByte ++
                (c0 :: (trimTrailingWs l ++ NL :: r))) = c0 :: (trimTrailingWs l ++ NL :: r) := by
            rw [trimLeadingWs_ws_append _ _ (replicate_ws_all o _), trimLeadingWs_nonws _ _ hc0w]
          have hnt : NL ∉ c0 :: trimTrailingWs l := by
            rw [← hline']
            exact fun hm => hnoNl (trimTrailingWs_sub _ _ hm)
          have hspl : splitLine (c0 :: (trimTrailingWs l ++ NL :: r)) = (c0 :: trimTrailingWs l, NL :: r) := by
            have := splitLine_of (c0 :: trimTrailingWs l) (NL :: r) hnt (Or.inr ⟨_, rfl⟩)
            simpa using this
          have hne2 : (List.replicate (ii + if st.preproc = true then o.indentCount * 2 else 0) o.indentByte ++
                (c0 :: (trimTrailingWs l ++ NL :: r))).isEmpty = false := by simp
          simp only [hne2, Bool.false_eq_true, ↓reduceIte, htr, hspl]
          have hc' : (st.preproc || c0 == HASH) = true := hc
          simp only [hc', ↓reduceIte, List.drop_one, List.tail_cons]
          have hpp : preprocLine o ii { st with nBlank := m + st.nBlank } (c0 :: trimTrailingWs l) =
              preprocLine o ii st (c0 :: l) := by
            unfold preprocLine
            simp only [← hline', trimTrailingWs_idem]
          have hstb : ({ ({ st with nBlank := m } : St) with nBlank := m + st.nBlank } : St) = { st with nBlank := m + st.nBlank } := rfl
          simp only [hpp, hr', Option.map_some, Option.some.injEq]
          rw [← hsrc0, ← List.replicate_append_replicate, List.append_assoc]
        · -- code line
          have hcf : (st.preproc || c0 == HASH) = false := Bool.eq_false_iff.mpr hc
          simp only [hcf, Bool.false_eq_true, ↓reduceIte] at h hcl
          cases hx : codeLine o ii st (c0 :: l) (splitLine (trimLeadingWs src)).2 with
          | none => simp [hx] at h
          | some x =>
            obtain ⟨text, st', tail'⟩ := x
            simp only [hx, Option.map_eq_some_iff, Bool.and_eq_true] at h hcl
            obtain ⟨r, hr, ho⟩ := h
            obtain ⟨hclLine, hclRest⟩ := hcl
            obtain ⟨f', hf'⟩ := ih _ _ _ hr hclRest 0
            obtain ⟨_, _, _, _, _, _, _, _, hnb⟩ := codeLine_spec _ _ _ _ _ _ _ _ hx
            rw [st_nBlank_self _ hnb] at hf'
            have hr' : loop o ii f' st' r = some r := by
              rw [hf']; split
              · rename_i hre; simp only [List.isEmpty_iff] at hre; rw [hre]
              · simp
            obtain ⟨body, htext, ⟨b, hb⟩, hcong⟩ :=
              codeLine_cong o ii st (c0 :: l) _ text st' tail' hx hclLine hnoNl c0 l rfl hc0w hnlh r
            generalize codeIndent o ii st (nBracesAtLineStart st (c0 :: l)) = n at htext
            refine ⟨f' + 1 + st.nBlank, ?_⟩
            rw [← ho]
            have hne : (List.replicate st.nBlank NL ++ (text ++ r)).isEmpty = false := by
              rw [htext]; simp
            rw [hne]
            simp only [Bool.false_eq_true, ↓reduceIte]
            rw [loop_blank_prefix]
            simp only [loop]
            have hsrc0 : text ++ r = List.replicate n o.indentByte ++ (c0 :: (b ++ NL :: r)) := by
              rw [htext, hb]; simp
            rw [hsrc0]
            have htr : trimLeadingWs (List.replicate n o.indentByte ++ (c0 :: (b ++ NL :: r))) = c0 :: (b ++ NL :: r) := by
              rw [trimLeadingWs_ws_append _ _ (replicate_ws_all o _), trimLeadingWs_nonws _ _ hc0w]
            have hbody : body ++ NL :: r = c0 :: (b ++ NL :: r) := by rw [hb]; simp
            rw [hbody] at hcong
            have hspl := splitLine_cons_ne c0 (b ++ NL :: r) hc0n
            have hne2 : (List.replicate n o.indentByte ++ (c0 :: (b ++ NL :: r))).isEmpty = false := by simp
            simp only [hne2, Bool.false_eq_true, ↓reduceIte, htr]
            rw [hspl] at hcong ⊢
            simp only [hcf, Bool.false_eq_true, ↓reduceIte]
            rw [codeLine_nBlank, codeLine_nBlank] 
            simp only [hcong, List.drop_one, List.tail_cons, hr', Option.map_some, Option.some.injEq]
            rw [← hsrc0, ← List.replicate_append_replicate, List.append_assoc]

end WuffsVerif.Indent
