/-
C15 — the `Read` loop of the byte-level model (Model/Rac/ByteReader.lean): the invariant of a
Reader without sticky error, `nextChunk`, and the combined induction that gives termination
(fuel sufficiency by a potential function), the work bound (NextChunk calls ≤ bytes asked
for) and the meaning of the bytes handed out.  Core Lean only.
-/
import WuffsVerif.Proof.C15Bytes

set_option linter.unusedVariables false

namespace WuffsVerif.Rac.ByteReader
open WuffsVerif.Rac
open WuffsVerif.Rac.ChunkReader (chunkAt CRInv NextResult ChunkGood)

/-- What holds of a `rac.Reader` without sticky error, between and inside calls; `o` is the
`ChunkReader` right after `initialize`. -/
structure SInv (k : Codec) (o : ChunkReader.Reader) (s : S) : Prop where
  cr : CRInv o s.cr
  le1 : s.r.dlo ≤ s.r.pos
  le2 : s.r.pos ≤ s.r.dhi
  phA : s.r.phase = .A → s.cr.seekPos = s.r.pos
  phBC : s.r.phase ≠ .A → LoadedR k o s.r ∧ s.cr.seekPos = s.r.dhi

/-- the failures that the model can express but that never happen -/
def GoodCause (s : S) : Prop :=
  s.cause ≠ some .crSpin ∧ s.cause ≠ some .invalidChunk ∧ s.cause ≠ some (.cr .panic)

theorem decoded_err {k : Codec} {f : CFile} {c : CChunk} {why : Cause}
    (h : decoded k f c = .error why) : why = .noCodec ∨ why = .makeFail := by
  unfold decoded at h
  split at h
  · cases h
  · split at h
    · cases h; exact Or.inl rfl
    · split at h
      · cases h; exact Or.inr rfl
      · cases h

/-- `Reader.nextChunk` in "State A" -/
theorem nextChunk_spec {k : Codec} {o : ChunkReader.Reader} (s : S) (he : s.r.err = none)
    (hs : SInv k o s) (hg : GoodCause s) (hA : s.r.phase = .A) :
    (nextChunk k s).1.fetches = s.fetches + 1 ∧ GoodCause (nextChunk k s).1 ∧
    ((nextChunk k s).2 = none →
      (nextChunk k s).1.r.err = none ∧ SInv k o (nextChunk k s).1 ∧
      (nextChunk k s).1.r.phase = .B ∧ (nextChunk k s).1.r.pos = s.r.pos ∧
      (nextChunk k s).1.r.dlo ≤ s.r.pos ∧ s.r.pos < (nextChunk k s).1.r.dhi ∧
      (nextChunk k s).1.r.posLimit = s.r.posLimit ∧ (nextChunk k s).1.r.closed = s.r.closed ∧
      (nextChunk k s).1.r.conc = s.r.conc) ∧
    (∀ e, (nextChunk k s).2 = some e →
      (e = .eof ∧ (nextChunk k s).1.r = s.r ∧ SInv k o (nextChunk k s).1 ∧ o.dsize ≤ s.r.pos) ∨
      (e = .badIndex ∧ (nextChunk k s).1.r.err = some .badIndex)) := by
  obtain ⟨hv, hchunk, heof, herr, hspin⟩ := ChunkReader.next_value o s.cr hs.cr
  have hpos := hs.phA hA
  generalize hout : nextChunk k s = out
  unfold nextChunk at hout
  simp only at hout
  cases hres : s.cr.next.2 with
  | eof =>
    rw [hres] at hout
    simp only at hout
    subst hout
    obtain ⟨hcr, hsp⟩ := heof hres
    refine ⟨rfl, hg, (by intro h; cases h), ?_⟩
    intro e h
    cases h
    left
    refine ⟨rfl, rfl, ⟨hcr, hs.le1, hs.le2, ?_, ?_⟩, ?_⟩
    · intro _; show s.cr.next.1.seekPos = s.r.pos; rw [hsp]; exact hpos
    · intro h; exact absurd hA h
    · rw [hres] at hv
      have := (ChunkReader.chunkAt_eof o s.cr.seekPos).mp hv.symm
      omega
  | err e =>
    rw [hres] at hout
    simp only at hout
    subst hout
    obtain ⟨_, hne⟩ := herr e hres
    refine ⟨rfl, ⟨(by intro h; cases h), (by intro h; cases h), ?_⟩, (by intro h; cases h), ?_⟩
    · intro h
      have : e = .panic := by
        simp only [S.fail, Option.some.injEq, Cause.cr.injEq] at h
        exact h
      exact hne this
    · intro e' h
      cases h
      exact Or.inr ⟨rfl, rfl⟩
  | spin => exact absurd hres hspin
  | chunk c =>
    rw [hres] at hout
    simp only at hout
    obtain ⟨hcr, hsp⟩ := hchunk c hres
    rw [hres] at hv
    have hgood := chunkAt_good' hs.cr hv.symm
    have hne : (c.dLo == c.dHi) = false := by
      have := hgood.1.2.2.1
      simp only [beq_eq_false_iff_ne, ne_eq]; omega
    simp only [hne, Bool.false_eq_true, ↓reduceIte] at hout
    have hfile : s.cr.next.1.file = o.file := hcr.same.1
    rw [hfile] at hout
    cases hd : decoded k o.file c with
    | error why =>
      rw [hd] at hout
      simp only at hout
      subst hout
      refine ⟨rfl, ?_, (by intro h; cases h), ?_⟩
      · rcases decoded_err hd with h | h <;> rw [h] <;>
          exact ⟨(by intro h; cases h), (by intro h; cases h), by intro h; cases h⟩
      · intro e' h
        cases h
        exact Or.inr ⟨rfl, rfl⟩
    | ok d =>
      obtain ⟨data, tr⟩ := d
      rw [hd] at hout
      simp only at hout
      subst hout
      refine ⟨rfl, hg, ?_, by intro e h; cases h⟩
      intro _
      have hlo' : c.dLo ≤ s.r.pos := by have := hgood.2.1; omega
      have hhi' : s.r.pos < c.dHi := by have := hgood.2.2; omega
      refine ⟨he, ⟨hcr, hlo', Nat.le_of_lt hhi', (by intro h; cases h), ?_⟩, rfl, rfl, ?_, ?_, rfl, rfl, rfl⟩
      · intro _
        refine ⟨⟨c, data, tr, chunkAt_same' hs.cr hv.symm (Nat.le_refl _) (by have := hgood.1.2.2.1; omega),
          hd, rfl, Nat.le_refl _, ?_, fun _ => rfl, by intro h; cases h⟩, hsp⟩
        show data = data.drop (c.dLo - c.dLo)
        simp
      · show c.dLo ≤ s.r.pos
        have := hgood.2.1; omega
      · show s.r.pos < c.dHi
        have := hgood.2.2; omega

/-! ## the potential that bounds the `Read` loop -/

def potv : Phase → Bool → Nat
  | .A, _ => 2
  | .B, true => 1
  | .B, false => 4
  | .C, true => 0
  | .C, false => 3

def owedv : Phase → Bool → Nat
  | .A, _ => 0
  | _, true => 1
  | _, false => 0

/-- iterations the loop can still make: 4 per byte to hand out, plus what the current phase
costs; a chunk that was fetched and has not produced a byte yet (`pos < dhi`) is cheaper,
because it is bound to produce one -/
def pot (r : R) (n : Nat) : Nat := 4 * n + potv r.phase (decide (r.pos < r.dhi))

/-- 1 when the loaded chunk still owes a byte -/
def owed (r : R) : Nat := owedv r.phase (decide (r.pos < r.dhi))

theorem pot_A (r : R) (n : Nat) (h : r.phase = .A) : pot r n = 4 * n + 2 := by
  simp [pot, potv, h]

theorem pot_B (r : R) (n : Nat) (h : r.phase = .B) :
    pot r n = 4 * n + (if r.pos < r.dhi then 1 else 4) := by
  unfold pot; rw [h]
  by_cases hlt : r.pos < r.dhi <;> simp [potv, hlt]

theorem pot_C (r : R) (n : Nat) (h : r.phase = .C) :
    pot r n = 4 * n + (if r.pos < r.dhi then 0 else 3) := by
  unfold pot; rw [h]
  by_cases hlt : r.pos < r.dhi <;> simp [potv, hlt]

theorem owed_A (r : R) (h : r.phase = .A) : owed r = 0 := by
  simp [owed, owedv, h]

theorem owed_B (r : R) (h : r.phase = .B) : owed r = if r.pos < r.dhi then 1 else 0 := by
  unfold owed; rw [h]
  by_cases hlt : r.pos < r.dhi <;> simp [owedv, hlt]

theorem owed_C (r : R) (h : r.phase = .C) : owed r = if r.pos < r.dhi then 1 else 0 := by
  unfold owed; rw [h]
  by_cases hlt : r.pos < r.dhi <;> simp [owedv, hlt]

theorem owed_le (r : R) : owed r ≤ 1 := by
  unfold owed owedv; split <;> omega

/-- **the Read loop.**  With fuel above the potential the loop returns (never `none`); the
bytes are the file's meaning at `pos, pos+1, …`; at most `n` NextChunk calls are made (one
fewer when a loaded chunk still owes a byte); the invariant is kept or the error is sticky. -/
theorem readLoop_ok {k : Codec} {o : ChunkReader.Reader} :
    ∀ (fuel : Nat) (s : S) (n : Nat), s.r.err = none → SInv k o s → GoodCause s →
      pot s.r n < fuel →
      ∃ s' bs e, readLoop k fuel s n = some (s', bs, e) ∧
        (∀ i, i < bs.length → bs.getD i 0 = byteAt k o (s.r.pos + i)) ∧
        bs.length ≤ n ∧ (e = none → bs.length = n) ∧
        s'.fetches ≤ s.fetches + (n - owed s.r) ∧ GoodCause s' ∧
        (s'.r.err = none → SInv k o s' ∧ s'.r.pos = s.r.pos + bs.length ∧
          s'.r.posLimit = s.r.posLimit ∧ s'.r.closed = s.r.closed ∧ s'.r.conc = s.r.conc) ∧
        (e = none → s'.r.err = none) ∧
        (∀ x, e = some x → (s'.r.err = some x ∨ (x = .eof ∧ s'.r.err = none)) ∧
          x ≠ .inconsistent) := by
  intro fuel
  induction fuel with
  | zero => intro s n _ _ _ h; omega
  | succ fuel ih =>
    intro s n he hs hg hpot
    unfold readLoop
    by_cases hlim : s.r.pos ≥ s.r.posLimit
    · simp only [hlim, ↓reduceIte]
      refine ⟨s, [], some .eof, rfl, by intro i hi; simp at hi, by simp, (by intro h; cases h),
        by omega, hg, fun _ => ⟨hs, by simp, rfl, rfl, rfl⟩, (by intro h; cases h), ?_⟩
      intro x hx; cases hx; exact ⟨Or.inr ⟨rfl, he⟩, by intro h; cases h⟩
    simp only [hlim, ↓reduceIte]
    by_cases hn0 : n = 0
    · simp only [hn0, ↓reduceIte]
      refine ⟨s, [], none, rfl, by intro i hi; simp at hi, by simp, fun _ => rfl,
        by omega, hg, fun _ => ⟨hs, by simp, rfl, rfl, rfl⟩, fun _ => he, by intro x hx; cases hx⟩
    simp only [hn0, ↓reduceIte]
    have hle : s.r.dlo ≤ s.r.pos := hs.le1
    have hhi : s.r.pos ≤ s.r.dhi := hs.le2
    have hinc : ¬ (s.r.pos < s.r.dlo ∨ s.r.dhi < s.r.pos) := by omega
    simp only [hinc, ↓reduceIte]
    have hn : 0 < n := by omega
    cases hph : s.r.phase with
    | A =>
      simp only
      obtain ⟨hf, hg1, hok, herr⟩ := nextChunk_spec s he hs hg hph
      cases hnc : nextChunk k s with
      | mk s1 e1 =>
        rw [hnc] at hf hg1 hok herr
        simp only at hf hg1 hok herr
        cases e1 with
        | some e =>
          simp only
          refine ⟨s1, [], some e, rfl, by intro i hi; simp at hi, by simp, (by intro h; cases h),
            ?_, hg1, ?_, (by intro h; cases h), ?_⟩
          · have : owed s.r = 0 := owed_A _ hph
            omega
          · intro he1
            rcases herr e rfl with ⟨_, hr, hs1, _⟩ | ⟨_, hbad⟩
            · rw [hr]; exact ⟨hs1, by simp, rfl, rfl, rfl⟩
            · rw [hbad] at he1; cases he1
          · intro x hx
            cases hx
            rcases herr e rfl with ⟨h1, hr, _, _⟩ | ⟨h1, hbad⟩
            · exact ⟨Or.inr ⟨h1, by rw [hr]; exact he⟩, by rw [h1]; intro h; cases h⟩
            · exact ⟨Or.inl (by rw [h1]; exact hbad), by rw [h1]; intro h; cases h⟩
        | none =>
          simp only
          obtain ⟨he1, hs1, hB1, hp1, hlo1, hhi1, hl1, hc1, hcc1⟩ := hok rfl
          have hpot1 : pot s1.r n < fuel := by
            have h1 : pot s1.r n = 4 * n + 1 := by
              rw [pot_B _ _ hB1, hp1]; simp [hhi1]
            have h2 : pot s.r n = 4 * n + 2 := pot_A _ _ hph
            omega
          obtain ⟨s', bs, e, hrun, hbytes, hlen, hfull, hfet, hg', hinv', hnone, hsome⟩ :=
            ih s1 n he1 hs1 hg1 hpot1
          refine ⟨s', bs, e, hrun, ?_, hlen, hfull, ?_, hg', ?_, hnone, hsome⟩
          · intro i hi; rw [hbytes i hi, hp1]
          · have h1 : owed s1.r = 1 := by rw [owed_B _ hB1, hp1]; simp [hhi1]
            have h2 : owed s.r = 0 := owed_A _ hph
            omega
          · intro h
            obtain ⟨a1, a2, a3, a4, a5⟩ := hinv' h
            exact ⟨a1, by rw [a2, hp1], by rw [a3, hl1], by rw [a4, hc1], by rw [a5, hcc1]⟩
    | B =>
      simp only
      obtain ⟨hL, hsp⟩ := hs.phBC (by rw [hph]; intro h; cases h)
      obtain ⟨hb, hblen, hbok, hberr⟩ := explicit_spec hs.cr s.r n hL hph hle hhi he hn
      cases hx : readExplicit s.r n with
      | mk r' rest1 =>
        obtain ⟨bs, e1⟩ := rest1
        rw [hx] at hb hblen hbok hberr
        simp only at hb hblen hbok hberr
        cases e1 with
        | some e =>
          simp only
          refine ⟨{ s with r := r' }, bs, some e, rfl, hb, hblen, (by intro h; cases h),
            by show s.fetches ≤ _; omega, hg, ?_, (by intro h; cases h), ?_⟩
          · intro h
            have := (hberr e rfl).1
            rw [this] at h; cases h
          · intro x hx'
            cases hx'
            refine ⟨Or.inl (hberr e rfl).1, ?_⟩
            rcases (hberr e rfl).2 with h | h | h <;> rw [h] <;> intro h' <;> cases h'
        | none =>
          simp only
          obtain ⟨he1, f, hp1, hL1, hlo1, hhi1, hphase⟩ := hbok rfl
          have hs1 : SInv k o { s with r := r' } := by
            refine ⟨hs.cr, hlo1, by show r'.pos ≤ r'.dhi; rw [f.dhi]; exact hhi1, ?_, ?_⟩
            · intro hA
              rcases hphase with h | ⟨h, _⟩ <;> rw [h] at hA <;> cases hA
            · intro _
              exact ⟨hL1, by show s.cr.seekPos = r'.dhi; rw [f.dhi]; exact hsp⟩
          have hpot1 : pot r' (n - bs.length) < fuel := by
            have h0 := pot_B s.r n hph
            rcases hphase with hC | ⟨hB, hpos⟩
            · have h1 := pot_C r' (n - bs.length) hC
              have hd := f.dhi
              rw [h0] at hpot
              rw [h1]
              split <;> split at hpot <;> omega
            · have h1 := pot_B r' (n - bs.length) hB
              have hd := f.dhi
              rw [h0] at hpot
              rw [h1]
              split <;> split at hpot <;> omega
          obtain ⟨s', rest, e, hrun, hbytes, hlen, hfull, hfet, hg', hinv', hnone, hsome⟩ :=
            ih { s with r := r' } (n - bs.length) he1 hs1 hg hpot1
          rw [hrun]
          simp only
          refine ⟨s', bs ++ rest, e, rfl, ?_, ?_, ?_, ?_, hg', ?_, hnone, hsome⟩
          · intro i hi
            rw [getD_append]
            split
            · rename_i h; exact hb i h
            · rename_i h
              simp only [List.length_append] at hi
              have := hbytes (i - bs.length) (by omega)
              rw [this]
              show byteAt k o (r'.pos + (i - bs.length)) = _
              rw [hp1]; congr 1; omega
          · simp only [List.length_append]; omega
          · intro h; simp only [List.length_append]; have := hfull h; omega
          · -- fetches
            have ho : owed r' ≤ 1 := owed_le r'
            have hfet' : s'.fetches ≤ s.fetches + (n - bs.length - owed r') := hfet
            have : owed s.r ≤ bs.length + owed r' := by
              rcases hphase with hC | ⟨hB, hpos⟩
              · by_cases hb0 : bs.length = 0
                · have hpe : r'.pos = s.r.pos := by rw [hp1, hb0]; rfl
                  have : owed r' = owed s.r := by
                    rw [owed_C _ hC, owed_B _ hph, hpe, f.dhi]
                  omega
                · have : owed s.r ≤ 1 := owed_le _
                  omega
              · have : owed s.r ≤ 1 := owed_le _
                omega
            omega
          · intro h
            obtain ⟨a1, a2, a3, a4, a5⟩ := hinv' h
            refine ⟨a1, ?_, by rw [a3]; exact f.lim, by rw [a4]; exact f.closed,
              by rw [a5]; exact f.conc⟩
            rw [a2]
            show r'.pos + rest.length = s.r.pos + (bs ++ rest).length
            rw [hp1, List.length_append]; omega
    | C =>
      simp only
      obtain ⟨hL, hsp⟩ := hs.phBC (by rw [hph]; intro h; cases h)
      obtain ⟨hz, hk, hze, f, hzp, hzd, hzph⟩ := zeroes_spec hs.cr s.r n hL hph hle hhi
      cases hx : readZeroes s.r n with
      | mk r' z =>
        rw [hx] at hz hk hze f hzp hzd hzph
        simp only at hz hk hze f hzp hzd hzph
        have he1 : r'.err = none := by rw [hze]; exact he
        have hs1 : SInv k o { s with r := r' } := by
          refine ⟨hs.cr, by show r'.dlo ≤ r'.pos; omega,
            by show r'.pos ≤ r'.dhi; have := f.dhi; omega, ?_, ?_⟩
          · intro hA
            show s.cr.seekPos = r'.pos
            rcases hzph with ⟨_, h⟩ | ⟨h, _⟩
            · rw [h]; exact hsp
            · have : r'.phase = .A := hA
              rw [h] at this; cases this
          · intro hne
            rcases hzph with ⟨h, _⟩ | ⟨_, _, _, hL1⟩
            · exact absurd h hne
            · exact ⟨hL1, by show s.cr.seekPos = r'.dhi; rw [f.dhi]; exact hsp⟩
        have hpot1 : pot r' (n - z) < fuel := by
          have h0 := pot_C s.r n hph
          rw [h0] at hpot
          rcases hzph with ⟨hA, hpe⟩ | ⟨hC, hlt, hzn, _⟩
          · have h1 := pot_A r' (n - z) hA
            rw [h1]
            split at hpot <;> omega
          · have h1 : pot r' (n - z) ≤ 4 * (n - z) + 3 := by
              rw [pot_C _ _ hC]
              split <;> omega
            split at hpot <;> omega
        obtain ⟨s', rest, e, hrun, hbytes, hlen, hfull, hfet, hg', hinv', hnone, hsome⟩ :=
          ih { s with r := r' } (n - z) he1 hs1 hg hpot1
        rw [hrun]
        simp only
        have hzl : (zeros z).length = z := by simp [zeros]
        refine ⟨s', zeros z ++ rest, e, rfl, ?_, ?_, ?_, ?_, hg', ?_, hnone, hsome⟩
        · intro i hi
          rw [getD_append, hzl]
          split
          · rename_i h; rw [getD_zeros, hz i h]
          · rename_i h
            simp only [List.length_append, hzl] at hi
            have := hbytes (i - z) (by omega)
            rw [this]
            show byteAt k o (r'.pos + (i - z)) = _
            rw [hzp]; congr 1; omega
        · simp only [List.length_append, hzl]; omega
        · intro h; simp only [List.length_append, hzl]; have := hfull h; omega
        · have hfet' : s'.fetches ≤ s.fetches + (n - z - owed r') := hfet
          have : owed s.r ≤ z + owed r' := by
            by_cases hlt : s.r.pos < s.r.dhi
            · have : 0 < z := by omega
              have : owed s.r ≤ 1 := owed_le _
              omega
            · have : owed s.r = 0 := by rw [owed_C _ hph]; simp [hlt]
              omega
          omega
        · intro h
          obtain ⟨a1, a2, a3, a4, a5⟩ := hinv' h
          refine ⟨a1, ?_, by rw [a3]; exact f.lim, by rw [a4]; exact f.closed,
            by rw [a5]; exact f.conc⟩
          rw [a2]
          show r'.pos + rest.length = s.r.pos + (zeros z ++ rest).length
          rw [hzp, List.length_append, hzl]; omega

theorem pot_lt_readFuel (r : R) (n : Nat) : pot r n < readFuel n := by
  have : potv r.phase (decide (r.pos < r.dhi)) ≤ 4 := by
    unfold potv; split <;> omega
  unfold pot readFuel
  omega

end WuffsVerif.Rac.ByteReader
