/-
Height of the ASTs built by `Model/Parse.lean`: bounded by a constant, whatever the input.
Part 1: the definition, the closing tactic and the cycle-free combinators.

The recursion guards bound how often the parser passes through `parseExpr` / `parseTypeExpr` /
`parseBlock` on any path from the root (≤ 256 + 64 + 256 times: the budgets are never reset);
between two such passes it stacks at most `LINK` = 260 nodes on top of each other (the postfix
chain, ≤ 256 links since the round-2 repair, plus a handful of fixed levels).  So every
recursive pass over the tree (ast.Node.Walk, Expr.Str, lang/check, internal/cgen) recurses
to a depth that does not depend on the input.
-/
import WuffsVerif.Proof.ParseWfTop

namespace WuffsVerif.Parse
open WuffsVerif.Token WuffsVerif.Gen.C11

mutual
/-- Number of nodes on the longest root-to-leaf path. -/
def height : Node → Nat
  | .nil => 0
  | .mk _ _ _ _ _ _ x y z p q r =>
    1 + max (max (height x) (max (height y) (height z)))
      (max (heightL p) (max (heightL q) (heightL r)))
def heightL : List Node → Nat
  | [] => 0
  | n :: rest => max (height n) (heightL rest)
end

theorem heightL_le (k : Nat) (l : List Node) : heightL l ≤ k ↔ ∀ n ∈ l, height n ≤ k := by
  induction l with
  | nil => simp [heightL]
  | cons a r ih => simp [heightL, Nat.max_le, ih]

@[simp] theorem height_nil : height .nil = 0 := by simp [height]

theorem height_mk (k f a b c l : Nat) (x y z : Node) (p q r : List Node) :
    height (.mk k f a b c l x y z p q r) =
      1 + max (max (height x) (max (height y) (height z)))
        (max (heightL p) (max (heightL q) (heightL r))) := by
  simp [height]

theorem height_newExpr (f op id : Nat) (l m r : Node) (args : List Node) :
    height (newExpr f op id l m r args) =
      1 + max (max (height l) (max (height m) (height r))) (heightL args) := by
  simp [newExpr, height, heightL]

theorem height_newTypeExpr (d pkg name : Nat) (l m r : Node) :
    height (newTypeExpr d pkg name l m r) = 1 + max (height l) (max (height m) (height r)) := by
  simp [newTypeExpr, height, heightL]

theorem height_newAssign (op : Nat) (l r : Node) :
    height (newAssign op l r) = 1 + max (height l) (height r) := by
  simp [newAssign, height, heightL]

theorem height_setLine (l : Nat) (n : Node) : height (n.setLine l) = height n := by
  cases n <;> simp [Node.setLine, height]

theorem heightL_map_setLine (l : Nat) (p : List Node) :
    heightL (p.map (Node.setLine l)) = heightL p := by
  induction p with
  | nil => rfl
  | cons a r ih => simp [heightL, ih, height_setLine]

theorem height_setL0_map_setLine (l : Nat) (n : Node) :
    height (n.setL0 (n.l0.map (Node.setLine l))) = height n := by
  cases n <;> simp [Node.setL0, Node.l0, height, heightL_map_setLine]

theorem height_setRhs_le (n els : Node) :
    height (n.setRhs els) ≤ max (height n) (height els + 1) := by
  cases n <;> simp [Node.setRhs, height] <;> omega

@[simp] theorem heightL_nil : heightL [] = 0 := rfl
theorem heightL_cons (n : Node) (l : List Node) : heightL (n :: l) = max (height n) (heightL l) := rfl

theorem heightL_append (l r : List Node) : heightL (l ++ r) = max (heightL l) (heightL r) := by
  induction l with
  | nil => simp [heightL]
  | cons a l ih => simp [heightL, ih, Nat.max_assoc]

theorem heightL_reverse (l : List Node) : heightL l.reverse = heightL l := by
  induction l with
  | nil => rfl
  | cons a l ih => simp [heightL, heightL_append, ih, Nat.max_comm]

/-! ## automation -/

/-- Closes `height (.mk …) ≤ K` goals: unfold one level, leave the arithmetic to `omega`. -/
syntax "h_close" : tactic
macro_rules | `(tactic| h_close) => `(tactic|
  ((try dsimp only at *)
   (try simp only [height_mk, height_newExpr, height_newTypeExpr, height_newAssign, height_setLine,
     height_setL0_map_setLine, height_nil, heightL_nil, heightL_cons, heightL_append,
     heightL_reverse, Nat.max_zero, Nat.zero_max, Node.setRhs] at *)
   omega))

syntax "hpost_leaf" : tactic
macro_rules | `(tactic| hpost_leaf) => `(tactic| (apply_assumption <;> first | assumption | (simp; done) | omega))
macro_rules | `(tactic| hpost_leaf) => `(tactic| exact post_throw _)
macro_rules | `(tactic| hpost_leaf) => `(tactic| exact post_failHere)
macro_rules | `(tactic| hpost_leaf) => `(tactic| exact post_throw_bind)
macro_rules | `(tactic| hpost_leaf) => `(tactic| exact post_failHere_bind)
macro_rules | `(tactic| hpost_leaf) => `(tactic| assumption)

syntax "hpost_auto" : tactic
macro_rules
  | `(tactic| hpost_auto) => `(tactic| repeat' (first
      | hpost_leaf
      | (with_reducible apply post_guard; intro _)
      | (with_reducible apply post_guard_throw; intro _)
      | (with_reducible apply post_ite <;> intro _)
      | with_reducible apply post_pure_bind
      | with_reducible apply post_bind
      | exact post_true _
      | (with_reducible apply post_pure; h_close)
      | intro _
      | split
      | (show Post _ _; dsimp only)))

/-! ## the cycle-free combinators -/

theorem hpost_parseList (env : Env) (stop : Nat) (elem : P Node) (k : Nat)
    (hel : Post elem (fun n => height n ≤ k)) :
    Post (parseList env stop elem) (fun l => heightL l ≤ k) :=
  post_mono (post_parseList env stop elem _ hel) (fun l h => (heightL_le k l).2 h)

macro_rules | `(tactic| hpost_leaf) => `(tactic| (apply hpost_parseList; hpost_leaf))

theorem hpost_parseArgNode (env : Env) (pe : P Node) (k : Nat)
    (hpe : Post pe (fun n => height n ≤ k)) :
    Post (parseArgNode env pe) (fun n => height n ≤ k + 1) := by
  unfold parseArgNode
  hpost_auto

macro_rules | `(tactic| hpost_leaf) => `(tactic| (apply hpost_parseArgNode; hpost_leaf))

theorem hpost_optExpr {c : Prop} [Decidable c] {pe : P Node} {k : Nat}
    (hpe : Post pe (fun n => height n ≤ k)) :
    Post (if c then pe else pure .nil) (fun n => height n ≤ k) := by
  apply post_ite <;> intro _
  · exact hpe
  · exact post_pure (by simp)

theorem hpost_optExpr2 {c d : Prop} [Decidable c] [Decidable d] {pe pe' : P Node} {k : Nat}
    (hpe : Post pe (fun n => height n ≤ k)) (hpe' : Post pe' (fun n => height n ≤ k)) :
    Post (if c then pe else if d then pe' else pure .nil) (fun n => height n ≤ k) := by
  apply post_ite <;> intro _
  · exact hpe
  · apply post_ite <;> intro _
    · exact hpe'
    · exact post_pure (by simp)

macro_rules | `(tactic| hpost_leaf) => `(tactic| (apply hpost_optExpr; hpost_leaf))
macro_rules | `(tactic| hpost_leaf) => `(tactic| (apply hpost_optExpr2 <;> hpost_leaf))

theorem hpost_parseBracket (sep : Nat) (pe : P Node) (k : Nat)
    (hpe : Post pe (fun n => height n ≤ k)) :
    Post (parseBracket sep pe) (fun r => height r.2.1 ≤ k ∧ height r.2.2 ≤ k) := by
  unfold parseBracket
  hpost_auto

macro_rules | `(tactic| hpost_leaf) => `(tactic| (apply hpost_parseBracket; hpost_leaf))

theorem hpost_parseAssertNode (env : Env) (pe : P Node) (k : Nat)
    (hpe : Post pe (fun n => height n ≤ k)) :
    Post (parseAssertNode env pe) (fun n => height n ≤ k + 2) := by
  unfold parseAssertNode
  hpost_auto

macro_rules | `(tactic| hpost_leaf) => `(tactic| (apply hpost_parseAssertNode; hpost_leaf))

theorem hpost_parseAsserts (env : Env) (pe : P Node) (k : Nat)
    (hpe : Post pe (fun n => height n ≤ k)) :
    Post (parseAsserts env pe) (fun l => heightL l ≤ k + 2) := by
  unfold parseAsserts
  hpost_auto

macro_rules | `(tactic| hpost_leaf) => `(tactic| (apply hpost_parseAsserts; hpost_leaf))

end WuffsVerif.Parse
