/-
C14 helper: the steps of the data-level model preserve the tiling invariant `TInv`.
Part 2: the steps that create, split or hand over ranges (Workers and Manager), and the
step that starts a new region of interest.
-/
import WuffsVerif.Proof.RacConcDataTile2

set_option linter.unusedVariables false
set_option linter.unusedSimpArgs false

namespace WuffsVerif.Rac.ConcD
open WuffsVerif.Rac WuffsVerif.Rac.Conc

theorem getElem?_set_cases {ws : List DW} {i j : Nat} {w' v : DW} (h : (ws.set i w')[j]? = some v) :
    (j = i ∧ v = w') ∨ (j ≠ i ∧ ws[j]? = some v) := by
  rw [List.getElem?_set] at h
  split at h
  · next hij =>
    split at h
    · cases h; left; exact ⟨hij.symm, rfl⟩
    · cases h
  · next hij => right; exact ⟨fun e => hij e.symm, h⟩

theorem tinv_wSend {F : File} {s s' : DSt} (i : Nat) (hI : DInv F s) (hC : CInv (abs s))
    (hT : Active s → TInv F s) (h : stepD F s (.wSend i) = some s') (ha : Active s') : TInv F s' := by
  simp only [stepD, hI.nofault, Bool.false_eq_true, ↓reduceIte] at h
  split at h
  · next w hi =>
    split at h
    · next it hout =>
      split at h
      · cases h
        have hT := hT ha
        have hown := ((hC.ep_w i w.w (abs_ws_get hi)).1 it hout).2
        refine tinv_mk hT (fun x => ?_) rfl rfl ⟨rfl, rfl, rfl, rfl⟩ ?_
        · simp only [occ]
          have h1 := occWs_set x s.ws i w { w with w := { w.w with out := none } } hi
          rw [occItems_append]
          simp only [occItems, occW, hout, Option.isSome_some, ↓reduceIte, Option.isSome_none,
            Bool.false_eq_true] at h1 ⊢
          omega
        · intro j v hj hdr
          rcases getElem?_set_cases hj with ⟨hji, hv⟩ | ⟨hji, hv⟩
          · subst hji; subst hv
            obtain ⟨o1, o2⟩ := hT.own j w hi hdr
            refine ⟨fun x hx ho => ?_, fun h => by simp at h⟩
            rcases hx with hx | hx
            · exact o1 x (Or.inl hx) ho
            · rcases List.mem_append.mp hx with hx | hx
              · exact o1 x (Or.inr hx) ho
              · simp only [List.mem_singleton] at hx
                subst hx
                exact o2 (by rw [hout]; simp)
          · obtain ⟨o1, o2⟩ := hT.own j v hv hdr
            refine ⟨fun x hx ho => ?_, o2⟩
            rcases hx with hx | hx
            · exact o1 x (Or.inl hx) ho
            · rcases List.mem_append.mp hx with hx | hx
              · exact o1 x (Or.inr hx) ho
              · simp only [List.mem_singleton] at hx
                subst hx
                simp only at ho
                rw [hown] at ho
                simp only [Option.some.injEq] at ho
                exact absurd ho.symm hji
      · cases h
    · cases h
  · cases h

theorem tinv_wMake {F : File} (hok : F.ok) {s s' : DSt} (i : Nat) (hI : DInv F s)
    (hT : Active s → TInv F s) (h : stepD F s (.wMake i) = some s') (ha : Active s') : TInv F s' := by
  simp only [stepD, hI.nofault, Bool.false_eq_true, ↓reduceIte] at h
  split at h
  · next w hi =>
    split at h
    · next e hdr =>
      split at h
      · next hg =>
        have hw := hI.wk i w hi
        obtain ⟨d1, d2, d3, d4⟩ := hw.dr (by rw [hdr]; simp)
        obtain ⟨k1, k2, k3, k4, k5, k6, k7⟩ := worker_read hok.1 w.rd hw.err hw.inv bufSize (by omega)
        rw [d3, d4] at k2
        have hb : bufSize = 65536 := rfl
        generalize hrr : R.read F w.rd bufSize = rr at h k2 k3
        obtain ⟨rd', bs, er⟩ := rr
        simp only at h k2 k3
        rw [if_pos k3] at h
        cases h
        have hT := hT ha
        refine tinv_mk hT (fun x => ?_) rfl rfl ⟨rfl, rfl, rfl, rfl⟩ ?_
        · show occItems s.completed x + occItems s.resc x + occWs (s.ws.set i _) x = occ s x
          rw [occWs_set_eq x hi]
          have h2 := occWs_get_le x s.ws i w hi
          have a1 := ind_spec w.dlo w.dhi x
          have a2 := ind_spec w.dlo (w.dlo + bs.length) x
          have a3 := ind_spec (w.dlo + bs.length) w.dhi x
          simp only [occ]
          revert h2
          by_cases hheld : w.w.held > 0 <;> by_cases hl : w.dlo + bs.length ≥ w.dhi <;>
            simp only [occW, hheld, hl, hg.2.1, hdr, ↓reduceIte, Option.isSome_some, Option.isSome_none,
              Bool.false_eq_true] <;> intro h2 <;> omega
        · intro j v hj hdr'
          rcases getElem?_set_cases hj with ⟨hji, hv⟩ | ⟨hji, hv⟩
          · subst hji; subst hv
            obtain ⟨o1, o2⟩ := hT.own j w hi (by rw [hdr]; simp)
            refine ⟨fun x hx ho => ?_, fun _ => Nat.le_refl _⟩
            have := o1 x hx ho
            simp only
            omega
          · exact hT.own j v hv hdr'
      · cases h
    · cases h
  · cases h

theorem tinv_wRecv {F : File} (hok : F.ok) {s s' : DSt} (i : Nat) (hI : DInv F s)
    (hT : Active s → TInv F s) (h : stepD F s (.wRecv i) = some s') (ha : Active s') : TInv F s' := by
  simp only [stepD, hI.nofault, Bool.false_eq_true, ↓reduceIte] at h
  split at h
  · next w it rest hi hq =>
    split at h
    · next hg =>
      split at h
      · cases h
        exact tinv_congr (s := s) rfl rfl rfl rfl rfl rfl (hT ha)
      · split at h
        · next rd' heq =>
          cases h
          have hT := hT ha
          have hch := hT.chain
          have hmc : mchain s = (it.lo, it.hi) :: mchain { s with reqc := rest } := by
            simp only [mchain, hq, List.map_cons, List.cons_append]
          rw [hmc] at hch
          simp only [Chain] at hch
          obtain ⟨c1, c2, c3⟩ := hch
          have hq' : qOf { s with reqc := rest } = it.hi := chain_head c3
          have hle := hT.le
          refine ⟨fun x => ?_, ?_, ?_, ?_, hT.roi, hT.cur⟩
          · show occItems s.completed x + occItems s.resc x + occWs (s.ws.set i _) x = ind (nextPos s) (qOf { s with reqc := rest }) x
            rw [hq', occWs_set_eq x hi]
            have h0 := hT.occ x
            have h2 := occWs_get_le x s.ws i w hi
            simp only [occ] at h0
            simp only [occW, hg.2.1, hg.2.2, Option.isSome_none, Bool.false_eq_true, ↓reduceIte,
              Option.isSome_some] at h2 ⊢
            have a1 := ind_spec it.lo it.hi x
            have a2 := ind_spec (nextPos s) (qOf s) x
            have a3 := ind_spec (nextPos s) it.hi x
            omega
          · show Chain (qOf { s with reqc := rest }) (mchain { s with reqc := rest }) s.mgr.rhi
            rw [hq']; exact c3
          · show nextPos s ≤ qOf { s with reqc := rest }
            rw [hq']; omega
          · intro j v hj hdr'
            rcases getElem?_set_cases hj with ⟨hji, hv⟩ | ⟨hji, hv⟩
            · subst hji; subst hv
              refine ⟨fun x hx ho => ?_, fun h => absurd hg.2.1 h⟩
              have := (item_below_q hI hT x hx).2
              show x.hi ≤ it.lo
              omega
            · exact hT.own j v hv hdr'
        · cases h
          exact tinv_congr (s := s) rfl rfl rfl rfl rfl rfl (hT ha)
    · cases h
  · cases h

theorem tinv_mgrSend {F : File} {s s' : DSt} (hI : DInv F s)
    (hT : Active s → TInv F s) (h : stepD F s .mgrSend = some s') (ha : Active s') : TInv F s' := by
  simp only [stepD, hI.nofault, Bool.false_eq_true, ↓reduceIte] at h
  split at h
  · next it hw =>
    split at h
    · next hg =>
      cases h
      have hT := hT ha
      refine tinv_mk hT (fun x => rfl) rfl ?_ ⟨rfl, rfl, rfl, rfl⟩ hT.own
      simp only [mchain, hw, List.map_append, List.map_cons, List.map_nil, Option.isSome_some, ↓reduceIte,
        Option.isSome_none, Bool.false_eq_true, List.append_assoc, List.nil_append, List.cons_append]
    · cases h
  · cases h

theorem mchain_fut_nil (s : DSt) (h : ¬ (s.mgr.m.inputOn = false ∧ s.mgr.cur < s.mgr.rhi)) :
    mchain s = s.reqc.map (fun it => (it.lo, it.hi)) ++
      (if s.mgr.m.work.isSome then [(s.mgr.wlo, s.mgr.whi)] else []) := by
  simp only [mchain, h, ↓reduceIte, List.append_nil]

/-- two states whose Manager has nothing left to look at have the same chain if they agree on
    reqc and on the request in the Manager's hand -/
theorem mchain_eq_of_fut_nil {s s' : DSt} (h : ¬ (s.mgr.m.inputOn = false ∧ s.mgr.cur < s.mgr.rhi))
    (h' : ¬ (s'.mgr.m.inputOn = false ∧ s'.mgr.cur < s'.mgr.rhi))
    (e1 : s'.reqc = s.reqc) (e2 : s'.mgr.m.work = s.mgr.m.work) (e3 : s'.mgr.wlo = s.mgr.wlo)
    (e4 : s'.mgr.whi = s.mgr.whi) : mchain s' = mchain s := by
  rw [mchain_fut_nil s h, mchain_fut_nil s' h', e1, e2, e3, e4]

theorem active_of_eq {s s' : DSt} (h1 : s'.seekResolved = s.seekResolved) (h2 : s'.main = s.main)
    (ha : Active s') : Active s := by
  unfold Active at ha ⊢
  rw [h1, h2] at ha
  exact ha

/-- rebuild `TInv` after a step of the Manager: same occupancy, same dispatch frontier, a new chain -/
theorem tinv_mk2 {F : File} {s s' : DSt} (hT : TInv F s)
    (e1 : s'.completed = s.completed) (e2 : s'.resc = s.resc) (e3 : s'.ws = s.ws) (e4 : s'.curr = s.curr)
    (e5 : s'.pos = s.pos) (erhi : s'.mgr.rhi = s.mgr.rhi) (erlo : s'.mgr.rlo = s.mgr.rlo)
    (hch : Chain (qOf s) (mchain s') s.mgr.rhi) (hroi : s'.mgr.m.roi ≠ none)
    (hcur : s.mgr.rlo ≤ s'.mgr.cur ∧
      (s'.mgr.cur = s.mgr.rlo ∨ ∀ c, findChunk F.chunks s'.mgr.cur = some c → c.lo = s'.mgr.cur)) : TInv F s' := by
  have eq : qOf s' = qOf s := by
    simp only [qOf, erhi]
    exact chain_head hch
  have eo : ∀ x, occ s' x = occ s x := by intro x; simp only [occ, e1, e2, e3]
  have en : nextPos s' = nextPos s := nextPos_congr e4 e5
  exact ⟨fun x => by rw [eo, en, eq]; exact hT.occ x, by rw [eq, erhi]; exact hch, by rw [en, eq]; exact hT.le,
    by rw [e3, e1, e2]; exact hT.own, hroi, by rw [erlo]; exact hcur⟩

theorem tinv_mgrMake {F : File} (hok : F.ok) {s s' : DSt} (hI : DInv F s)
    (hT : Active s → TInv F s) (h : stepD F s .mgrMake = some s') (ha : Active s') : TInv F s' := by
  simp only [stepD, hI.nofault, Bool.false_eq_true, ↓reduceIte] at h
  split at h
  · next e hroi =>
    split at h
    · next hg =>
      have hwn : s.mgr.m.work.isSome = false := by rw [hg.2.2]; rfl
      have hrs : s.mgr.m.roi ≠ none := by rw [hroi]; simp
      split at h
      · next hcur =>
        -- NextChunk: io.EOF
        simp only [Option.some.injEq] at h
        have hT := hT (active_of_eq (by rw [← h]) (by rw [← h]) ha)
        have hr := hI.rhi
        refine tinv_mk2 hT (by rw [← h]) (by rw [← h]) (by rw [← h]) (by rw [← h]) (by rw [← h]) (by rw [← h])
          (by rw [← h]) ?_ (by rw [← h]; exact hrs) (by rw [← h]; exact hT.cur)
        have e : mchain s' = mchain s :=
          mchain_eq_of_fut_nil (by omega) (by rw [← h]; simp) (by rw [← h]) (by rw [← h]) (by rw [← h]) (by rw [← h])
        rw [e]; exact hT.chain
      · next hcur =>
        obtain ⟨c, hc1, hc2, hc3, hc4, hc5⟩ := File.find hok.1 (p := s.mgr.cur) (by omega)
        rw [hc1] at h
        simp only at h
        have hbnd : ∀ d, findChunk F.chunks c.hi = some d → d.lo = c.hi :=
          fun d hd => findChunk_next F.chunks 0 F.size hok.1 s.mgr.cur c d hc1 hd
        split at h
        · next hge =>
          -- the chunk starts at or after the end of the region
          simp only [Option.some.injEq] at h
          have hT := hT (active_of_eq (by rw [← h]) (by rw [← h]) ha)
          have hcu : s'.mgr.cur = c.hi := by rw [← h]
          refine tinv_mk2 hT (by rw [← h]) (by rw [← h]) (by rw [← h]) (by rw [← h]) (by rw [← h]) (by rw [← h])
            (by rw [← h]) ?_ (by rw [← h]; exact hrs) ?_
          · have e : mchain s' = mchain s :=
              mchain_eq_of_fut_nil (by omega) (by rw [← h]; simp) (by rw [← h]) (by rw [← h]) (by rw [← h]) (by rw [← h])
            rw [e]; exact hT.chain
          · rw [hcu]
            exact ⟨by have := hT.cur.1; omega, Or.inr hbnd⟩
        · next hlt0 =>
          split at h
          · next hlt =>
            -- a new request: the part of the chunk inside the region
            simp only [Option.some.injEq] at h
            have hT := hT (active_of_eq (by rw [← h]) (by rw [← h]) ha)
            have hlo : max c.lo s.mgr.rlo = s.mgr.cur := by
              have h1 := hT.cur.1
              rcases hT.cur.2 with h2 | h2
              · omega
              · have := h2 c hc1; omega
            rw [hlo] at hlt
            have hcr : s.mgr.cur < s.mgr.rhi := by omega
            have hcu : s'.mgr.cur = c.hi := by rw [← h]
            have hmc : mchain s = s.reqc.map (fun it => (it.lo, it.hi)) ++ [(s.mgr.cur, s.mgr.rhi)] := by
              simp only [mchain, hwn, hg.2.1, Bool.false_eq_true, ↓reduceIte, true_and, hcr, List.nil_append]
            have hch := hT.chain
            rw [hmc] at hch
            obtain ⟨c1, c2⟩ := chain_unsnoc hch
            have hmc' : mchain s' = s.reqc.map (fun it => (it.lo, it.hi)) ++
                  ([(s.mgr.cur, min c.hi s.mgr.rhi)] ++ (if c.hi < s.mgr.rhi then [(c.hi, s.mgr.rhi)] else [])) := by
              rw [← h]
              simp only [mchain, hg.2.1, Option.isSome_some, ↓reduceIte, true_and, hlo]
            refine tinv_mk2 hT (by rw [← h]) (by rw [← h]) (by rw [← h]) (by rw [← h]) (by rw [← h]) (by rw [← h])
              (by rw [← h]) ?_ (by rw [← h]; exact hrs) ?_
            · rw [hmc']
              by_cases hch2 : c.hi < s.mgr.rhi
              · rw [if_pos hch2]
                have e : min c.hi s.mgr.rhi = c.hi := by omega
                rw [e]
                have := chain_snoc (chain_snoc c1 (show s.mgr.cur < c.hi by omega)) hch2
                simpa [List.append_assoc] using this
              · rw [if_neg hch2]
                have e : min c.hi s.mgr.rhi = s.mgr.rhi := by omega
                rw [e]
                simpa using hch
            · rw [hcu]
              exact ⟨by have := hT.cur.1; omega, Or.inr hbnd⟩
          · next hnlt =>
            -- empty intersection (the region is exhausted): only the cursor moves
            simp only [Option.some.injEq] at h
            have hT := hT (active_of_eq (by rw [← h]) (by rw [← h]) ha)
            have hlo : max c.lo s.mgr.rlo = s.mgr.cur := by
              have h1 := hT.cur.1
              rcases hT.cur.2 with h2 | h2
              · omega
              · have := h2 c hc1; omega
            rw [hlo] at hnlt
            have hcu : s'.mgr.cur = c.hi := by rw [← h]
            refine tinv_mk2 hT (by rw [← h]) (by rw [← h]) (by rw [← h]) (by rw [← h]) (by rw [← h]) (by rw [← h])
              (by rw [← h]) ?_ (by rw [← h]; exact hrs) ?_
            · have e : mchain s' = mchain s :=
                mchain_eq_of_fut_nil (by omega)
                  (by
                    have e1 : s'.mgr.cur = c.hi := by rw [← h]
                    have e2 : s'.mgr.rhi = s.mgr.rhi := by rw [← h]
                    rw [e1, e2]; omega)
                  (by rw [← h]) (by rw [← h]) (by rw [← h]) (by rw [← h])
              rw [e]; exact hT.chain
            · rw [hcu]
              exact ⟨by have := hT.cur.1; omega, Or.inr hbnd⟩
    · cases h
  · cases h

theorem tinv_roi {F : File} {s s' : DSt} (hI : DInv F s) (hC : CInv (abs s))
    (h : stepD F s .roi = some s') : TInv F s' := by
  simp only [stepD, hI.nofault, Bool.false_eq_true, ↓reduceIte] at h
  split at h
  · next hg =>
    simp only [Option.some.injEq] at h
    have hm := hg.1
    have hp := hI.pend
    simp only [PendInv, hm] at hp
    obtain ⟨⟨n, hpn⟩, herr, hsr, hcl⟩ := hp
    have hple : s.pos ≤ s.lim := (hI.rd n hpn).2.1
    have hph := hC.phase
    have hmA : (abs s).main = .sendRoi := hm
    simp only [PhaseInv, hmA] at hph
    obtain ⟨q1, q2, q3, q4, q5, q6⟩ := quiet_of_abs hph.2.2.1
    have e1 : s'.completed = [] := by rw [← h]; exact q5
    have e2 : s'.resc = [] := by rw [← h]; exact q4
    have e3 : s'.ws = s.ws := by rw [← h]
    have e4 : s'.curr = none := by rw [← h]; exact q6
    have e5 : s'.pos = s.pos := by rw [← h]
    have e6 : s'.reqc = [] := by rw [← h]; exact q3
    have e7 : s'.mgr.rhi = s.lim := by rw [← h]
    have e8 : s'.mgr.rlo = s.pos := by rw [← h]
    have e9 : s'.mgr.cur = s.pos := by rw [← h]
    have e10 : s'.mgr.m.work = none := by rw [← h]
    have e11 : s'.mgr.m.inputOn = false := by rw [← h]
    have e12 : s'.mgr.m.roi = some s.epoch := by rw [← h]
    have hocc : ∀ x, occ s' x = 0 := by
      intro x
      simp only [occ, e1, e2, e3, occItems, occWs_zero x s.ws q2]
    have hnp : nextPos s' = s.pos := by simp only [nextPos, e4, e5]
    have hown : ∀ (i : Nat) (w : DW), s'.ws[i]? = some w → w.w.dr ≠ none →
        (∀ it, (it ∈ s'.completed ∨ it ∈ s'.resc) → it.it.owner = some i → it.hi ≤ w.dlo) ∧
        (w.w.out ≠ none → w.ohi ≤ w.dlo) := by
      intro j v hj hdr
      rw [e3] at hj
      exact absurd (q2 j v hj).2 hdr
    by_cases hlt : s.pos < s.lim
    · have hmc : mchain s' = [(s.pos, s.lim)] := by
        simp only [mchain, e6, e10, e11, e9, e7, List.map_nil, Option.isSome_none, Bool.false_eq_true, ↓reduceIte,
          true_and, hlt, List.nil_append]
      have hq : qOf s' = s.pos := by simp only [qOf, hmc, headLo]
      refine ⟨fun x => ?_, ?_, ?_, hown, by rw [e12]; simp, by rw [e8, e9]; exact ⟨Nat.le_refl _, Or.inl rfl⟩⟩
      · rw [hocc, hnp, hq]
        have := ind_spec s.pos s.pos x
        omega
      · rw [hq, hmc, e7]
        simp only [Chain]
        exact ⟨trivial, hlt, trivial⟩
      · rw [hnp, hq]
        exact Nat.le_refl _
    · have hmc : mchain s' = [] := by
        simp only [mchain, e6, e10, e11, e9, e7, List.map_nil, Option.isSome_none, Bool.false_eq_true, ↓reduceIte,
          true_and, hlt, List.nil_append]
      have hq : qOf s' = s.lim := by simp only [qOf, hmc, headLo, e7]
      refine ⟨fun x => ?_, ?_, ?_, hown, by rw [e12]; simp, by rw [e8, e9]; exact ⟨Nat.le_refl _, Or.inl rfl⟩⟩
      · rw [hocc, hnp, hq]
        have := ind_spec s.pos s.lim x
        omega
      · rw [hq, hmc, e7]
        simp only [Chain]
      · rw [hnp, hq]
        exact hple
  · cases h

end WuffsVerif.Rac.ConcD
