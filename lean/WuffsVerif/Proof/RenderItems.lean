/-
C12, the Wuffs formatter: the interleaved sequence of tokens and comments (`items`) of a
token stream with its comments-by-line array, and the OUTPUT side of the comment half of
`render_retokenizes`: the items of what `Tokenize` reads from a list of pieces are the items
of the pieces, in the order of the pieces.  Core Lean only.
-/
import WuffsVerif.Proof.RenderPieces

namespace WuffsVerif.Render
open WuffsVerif.FmtToken WuffsVerif.Gen.C12

/-- a token (its text) or a comment (trailing spaces removed), in source order -/
inductive Item where
  | tok (text : Bytes)
  | com (text : Bytes)
deriving DecidableEq, Repr

/-- `comments[i]`, empty when there is none -/
def getC (comments : Array Bytes) (i : Nat) : Bytes := (comments[i]?).getD []

/-- the non-empty comments of lines `a, a+1, …, a+n-1` -/
def cmtRange (c : Nat → Bytes) : Nat → Nat → List Item
  | _, 0 => []
  | a, n + 1 => (if (c a).isEmpty then [] else [Item.com (stripTrailingSpaces (c a))]) ++ cmtRange c (a + 1) n

/-- The interleaved sequence of tokens and comments: before a token, the comments of the lines
from the cursor `ci` up to (not including) the token's line; a comment on a token's own line
follows the tokens of that line; at the end, the comments up to line `hi`. -/
def itemsF (c : Nat → Bytes) (hi : Nat) : Nat → List Tok → List Item
  | ci, [] => cmtRange c ci (hi - ci)
  | ci, t :: ts => cmtRange c ci (t.line - ci) ++ Item.tok t.text :: itemsF c hi (max ci t.line) ts

/-- `items toks comments` -/
def items (toks : List Tok) (comments : Array Bytes) : List Item :=
  itemsF (getC comments) comments.size 0 toks

theorem cmtRange_add (c : Nat → Bytes) (a m n : Nat) :
    cmtRange c a (m + n) = cmtRange c a m ++ cmtRange c (a + m) n := by
  induction m generalizing a with
  | zero => simp [cmtRange]
  | succ m ih =>
    have : m + 1 + n = (m + n) + 1 := by omega
    rw [this, cmtRange, cmtRange, ih (a + 1), List.append_assoc]
    have : a + 1 + m = a + (m + 1) := by omega
    rw [this]

theorem cmtRange_empty (c : Nat → Bytes) (a n : Nat) (h : ∀ i, a ≤ i → i < a + n → c i = []) :
    cmtRange c a n = [] := by
  induction n generalizing a with
  | zero => rfl
  | succ n ih =>
    rw [cmtRange, h a (Nat.le_refl _) (by omega)]
    simp only [List.isEmpty_nil, ↓reduceIte, List.nil_append]
    exact ih (a + 1) (fun i h1 h2 => h i (by omega) (by omega))

theorem cmtRange_congr (c c' : Nat → Bytes) (a n : Nat) (h : ∀ i, a ≤ i → i < a + n → c i = c' i) :
    cmtRange c a n = cmtRange c' a n := by
  induction n generalizing a with
  | zero => rfl
  | succ n ih =>
    rw [cmtRange, cmtRange, h a (Nat.le_refl _) (by omega),
      ih (a + 1) (fun i h1 h2 => h i (by omega) (by omega))]

/-- the range can be extended over lines without comments -/
theorem cmtRange_extend (c : Nat → Bytes) (a n n' : Nat) (hn : n ≤ n')
    (h : ∀ i, a + n ≤ i → c i = []) : cmtRange c a n' = cmtRange c a n := by
  obtain ⟨k, rfl⟩ : ∃ k, n' = n + k := ⟨n' - n, by omega⟩
  rw [cmtRange_add, cmtRange_empty c (a + n) k (fun i h1 _ => h i h1), List.append_nil]

/-! ### the comments array of pieces -/

theorem getC_setComment (C : Array Bytes) (l : Nat) (text : Bytes) (hC : C.size ≤ l) (i : Nat) :
    getC (setComment C l text) i = if i = l then text else getC C i := by
  unfold getC setComment
  have hsz : (C ++ Array.replicate (l - C.size) ([] : Bytes)).size = l := by simp; omega
  by_cases hi : i = l
  · subst hi
    simp only [↓reduceIte]
    rw [Array.getElem?_push]
    simp [hsz]
  · simp only [hi, ↓reduceIte]
    rw [Array.getElem?_push]
    simp only [hsz, hi, ↓reduceIte]
    by_cases h1 : i < C.size
    · rw [Array.getElem?_append_left h1]
    · rw [Array.getElem?_append_right (by omega)]
      have h2 : C[i]? = none := by simp; omega
      rw [h2]
      by_cases h3 : i - C.size < l - C.size
      · simp [h3]
      · simp [h3]

theorem size_setComment (C : Array Bytes) (l : Nat) (text : Bytes) (hC : C.size ≤ l) :
    (setComment C l text).size = l + 1 := by
  unfold setComment
  simp; omega

theorem size_setC (C : Array Bytes) (l : Nat) (p : Piece) (hC : C.size ≤ l) : (p.setC C l).size ≤ l + 1 := by
  unfold Piece.setC
  split
  · omega
  · rw [size_setComment C l _ hC]; exact Nat.le_refl _

theorem getC_setC (C : Array Bytes) (l : Nat) (p : Piece) (hC : C.size ≤ l) (i : Nat) :
    getC (p.setC C l) i = if i = l then p.outComment else getC C i := by
  unfold Piece.setC
  split
  · rename_i he
    by_cases hi : i = l
    · subst hi
      simp only [↓reduceIte]
      have : getC C i = [] := by
        unfold getC
        have : C[i]? = none := by simp; omega
        rw [this]; rfl
      rw [this]
      exact (List.isEmpty_iff.mp he).symm
    · simp [hi]
  · exact getC_setComment C l _ hC i

/-- the comments array after the pieces: below `l` unchanged, then the pieces' comments -/
theorem getC_piecesC : ∀ (ps : List Piece) (C : Array Bytes) (l : Nat), C.size ≤ l → ∀ i,
    getC (piecesC C l ps) i =
      if i < l then getC C i else ((ps[i - l]?).map Piece.outComment).getD [] := by
  intro ps
  induction ps with
  | nil =>
    intro C l hC i
    simp only [piecesC, List.getElem?_nil, Option.map_none, Option.getD_none]
    split
    · rfl
    · unfold getC
      have : C[i]? = none := by simp; omega
      rw [this]; rfl
  | cons p ps ih =>
    intro C l hC i
    rw [piecesC, ih (p.setC C l) (l + 1) (size_setC C l p hC) i, getC_setC C l p hC]
    by_cases h1 : i < l
    · have : i < l + 1 := by omega
      have h2 : i ≠ l := by omega
      simp [h1, this, h2]
    · by_cases h2 : i = l
      · subst h2
        simp
      · have h3 : ¬ i < l + 1 := by omega
        have h4 : i - l = (i - (l + 1)) + 1 := by omega
        simp only [h1, h3, ↓reduceIte, h4, List.getElem?_cons_succ]

theorem size_piecesC : ∀ (ps : List Piece) (C : Array Bytes) (l : Nat), C.size ≤ l →
    (piecesC C l ps).size ≤ l + ps.length := by
  intro ps
  induction ps with
  | nil => intro C l h; simpa [piecesC] using h
  | cons p ps ih =>
    intro C l h
    rw [piecesC]
    have := ih (p.setC C l) (l + 1) (size_setC C l p h)
    simp only [List.length_cons]
    omega

/-! ### the items of the pieces, as read back -/

/-- the items a piece contributes to the output: its tokens as read back, then its comment -/
def Piece.outItems (p : Piece) : List Item :=
  (p.out 0).map (fun t => Item.tok t.text) ++
    (if p.outComment.isEmpty then [] else [Item.com p.outComment])

theorem out_texts (p : Piece) (l : Nat) : (p.out l).map (fun t => Item.tok t.text) =
    (p.out 0).map (fun t => Item.tok t.text) := by
  cases p with
  | blank => rfl
  | comment k com => rfl
  | toks k names m lts com semis =>
    simp only [Piece.out, List.map_append, List.map_map]
    congr 1
    split <;> rfl

theorem out_lines (p : Piece) (l : Nat) : ∀ t ∈ p.out l, t.line = l := by
  cases p with
  | blank => intro t ht; simp [Piece.out] at ht
  | comment k com => intro t ht; simp [Piece.out] at ht
  | toks k names m lts com semis =>
    intro t ht
    simp only [Piece.out, List.mem_append, List.mem_map] at ht
    rcases ht with (⟨a, _, rfl⟩ | ⟨a, _, rfl⟩) | ht
    · rfl
    · rfl
    · split at ht
      · simp only [List.mem_singleton] at ht; subst ht; rfl
      · simp at ht

/-- tokens all on line `l`, read with the cursor at `ci ≤ l`: the pending comments, the tokens;
the cursor is then `l` -/
theorem itemsF_same_line (c : Nat → Bytes) (hi : Nat) : ∀ (ts : List Tok) (l ci : Nat) (R : List Tok),
    (∀ t ∈ ts, t.line = l) → ci ≤ l → ts ≠ [] →
    itemsF c hi ci (ts ++ R) =
      cmtRange c ci (l - ci) ++ ts.map (fun t => Item.tok t.text) ++ itemsF c hi l R := by
  intro ts
  induction ts with
  | nil => intro l ci R _ _ h; exact absurd rfl h
  | cons t ts ih =>
    intro l ci R hl hci _
    have htl : t.line = l := hl t (by simp)
    rw [List.cons_append, itemsF, htl, Nat.max_eq_right hci]
    cases ts with
    | nil => simp
    | cons t2 ts2 =>
      have := ih l l R (fun x hx => hl x (by simp [hx])) (Nat.le_refl _) (by simp)
      rw [this]
      simp [cmtRange]

/-- the items a piece stands for in the source: its source tokens, then its comment -/
def Piece.srcItems (p : Piece) : List Item :=
  p.src.map (fun t => Item.tok t.text) ++
    (if p.outComment.isEmpty then [] else [Item.com p.outComment])

theorem strip_isEmpty {c : Bytes} (h : wfComment c = true) : (stripTrailingSpaces c).isEmpty = c.isEmpty := by
  by_cases hc : c = []
  · subst hc; rfl
  · obtain ⟨y, hy, _⟩ := strip_wfComment h hc
    rw [hy]
    simp [hc]

/-- the comment of line `a` as an item list -/
theorem cmtRange_one (c : Nat → Bytes) (a : Nat) :
    cmtRange c a 1 = (if (c a).isEmpty then [] else [Item.com (stripTrailingSpaces (c a))]) := by
  simp [cmtRange]

theorem outComment_strip (p : Piece) : stripTrailingSpaces p.outComment = p.outComment := by
  cases p with
  | blank => rfl
  | comment k com => exact strip_idem com
  | toks k names m lts com semis => exact strip_idem com

/-- Reading the tokens of the pieces with the final comments array: the pending comments
(cursor `ci` up to the first piece's line), then the items of the pieces in order. -/
theorem itemsF_pieces (c : Nat → Bytes) (hi : Nat) (hEmpty : ∀ i, hi ≤ i → c i = []) :
    ∀ (ps : List Piece) (l ci : Nat), ci ≤ l →
    (∀ i, l ≤ i → c i = ((ps[i - l]?).map Piece.outComment).getD []) → hi ≤ l + ps.length →
    (∀ p ∈ ps, ∀ k names m lts com semis, p = Piece.toks k names m lts com semis → lts ≠ []) →
    itemsF c hi ci (piecesOut l ps) = cmtRange c ci (l - ci) ++ ps.flatMap Piece.outItems := by
  intro ps
  induction ps with
  | nil =>
    intro l ci hci hc hhi _
    simp only [piecesOut, itemsF, List.flatMap_nil, List.append_nil]
    simp only [List.length_nil, Nat.add_zero] at hhi
    exact (cmtRange_extend c ci (hi - ci) (l - ci) (by omega) (fun i h => hEmpty i (by omega))).symm
  | cons p ps ih =>
    intro l ci hci hc hhi hne
    have hcl : c l = p.outComment := by
      have := hc l (Nat.le_refl _)
      simpa using this
    have hc' : ∀ i, l + 1 ≤ i → c i = ((ps[i - (l + 1)]?).map Piece.outComment).getD [] := by
      intro i hi'
      have := hc i (by omega)
      have h4 : i - l = (i - (l + 1)) + 1 := by omega
      rw [h4, List.getElem?_cons_succ] at this
      exact this
    have hhi' : hi ≤ l + 1 + ps.length := by simp only [List.length_cons] at hhi; omega
    have hne' : ∀ q ∈ ps, ∀ k names m lts com semis, q = Piece.toks k names m lts com semis → lts ≠ [] :=
      fun q hq => hne q (by simp [hq])
    -- the piece's own comment
    have hown : cmtRange c l 1 = (if p.outComment.isEmpty then [] else [Item.com p.outComment]) := by
      simp only [cmtRange, hcl, outComment_strip, List.append_nil]
    have hsplit : ∀ ci', ci' ≤ l → cmtRange c ci' (l + 1 - ci') = cmtRange c ci' (l - ci') ++ cmtRange c l 1 := by
      intro ci' h
      have e : l + 1 - ci' = (l - ci') + 1 := by omega
      rw [e, cmtRange_add]
      have e2 : ci' + (l - ci') = l := by omega
      rw [e2]
    rw [piecesOut, List.flatMap_cons]
    by_cases hout : p.out l = []
    · have hout0 : (p.out 0).map (fun t => Item.tok t.text) = [] := by
        rw [← out_texts p l, hout]; rfl
      rw [hout, List.nil_append, ih (l + 1) ci (by omega) hc' hhi' hne', hsplit ci hci, hown]
      unfold Piece.outItems
      rw [hout0]
      simp only [List.nil_append, List.append_assoc]
    · rw [itemsF_same_line c hi (p.out l) l ci _ (out_lines p l) hci hout,
        ih (l + 1) l (by omega) hc' hhi' hne', hsplit l (Nat.le_refl _), hown, out_texts p l]
      unfold Piece.outItems
      simp only [Nat.sub_self, cmtRange, List.nil_append, List.append_assoc]

/-- the items of what `Tokenize` reads from the pieces (starting on line 1, empty comments array) -/
theorem items_pieces (ps : List Piece)
    (hne : ∀ p ∈ ps, ∀ k names m lts com semis, p = Piece.toks k names m lts com semis → lts ≠ []) :
    items (piecesOut 1 ps) (piecesC #[] 1 ps) = ps.flatMap Piece.outItems := by
  unfold items
  have hsz := size_piecesC ps #[] 1 (by simp)
  have hget := getC_piecesC ps #[] 1 (by simp)
  have h := itemsF_pieces (getC (piecesC #[] 1 ps)) (piecesC #[] 1 ps).size
    (fun i hi => by
      unfold getC
      have : (piecesC #[] 1 ps)[i]? = none := by simp; omega
      rw [this]; rfl)
    ps 1 0 (by omega)
    (fun i hi => by
      rw [hget i]
      have : ¬ i < 1 := by omega
      simp only [this, ↓reduceIte])
    hsz hne
  rw [h]
  have : cmtRange (getC (piecesC #[] 1 ps)) 0 (1 - 0) = [] := by
    apply cmtRange_empty
    intro i _ h2
    have hi0 : i = 0 := by omega
    subst hi0
    rw [hget 0]
    simp [getC]
  rw [this, List.nil_append]

end WuffsVerif.Render
