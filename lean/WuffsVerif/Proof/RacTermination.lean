/-
Helper lemmas for C13: the loops of rac.Writer terminate — the fuel of the model is never exhausted
(more fuel never changes the result).
-/
import WuffsVerif.Proof.RacWriter
set_option linter.unusedSimpArgs false
set_option linter.unusedVariables false
namespace WuffsVerif.Rac

theorem WBuf.length_advance (b : WBuf) (n : Nat) (hn : n ≤ b.length) :
    (b.advance n).length = b.length - n := by
  rw [WBuf.length_eq, WBuf.advance_refines b n hn, List.length_drop, WBuf.length_eq]

/-- more fuel does not change `writeDChunks` once it exceeds the pending length:
the fuel cut-off of the model is never reached (the Go loop terminates) -/
theorem writeDChunks_fuel_stable (cw : CodecW) (eof : Bool) (fuel : Nat) :
    ∀ w : Writer, w.uncompressed.length < fuel → w.dChunkSize > 0 →
      Writer.writeDChunks cw eof (fuel + 1) w = Writer.writeDChunks cw eof fuel w := by
  induction fuel with
  | zero => intro w h; omega
  | succ f ih =>
    intro w hlen hd
    rw [Writer.writeDChunks.eq_2 cw eof w (f + 1), Writer.writeDChunks.eq_2 cw eof w f]
    simp only
    have hpl := WBuf.peek_length w.uncompressed w.dChunkSize
    generalize hp : w.uncompressed.peek w.dChunkSize = pk at *
    obtain ⟨peek0, peek1⟩ := pk
    simp only at hpl ⊢
    split
    · rfl
    · rename_i hd0
      split
      · rfl
      · have hfr := Writer.compressAndUse_frame cw w
          (if (stripTrailingZeroes peek1).length == 0 then stripTrailingZeroes peek0 else peek0)
          (stripTrailingZeroes peek1)
        simp only at hfr
        generalize Writer.compressAndUse cw w
          (if (stripTrailingZeroes peek1).length == 0 then stripTrailingZeroes peek0 else peek0)
          (stripTrailingZeroes peek1) = cu at *
        obtain ⟨w1, r⟩ := cu
        obtain ⟨f1, f2, f3, f4, f5, f6, f7⟩ := hfr
        simp only at f2 f3
        cases r with
        | error e => rfl
        | ok v =>
          obtain ⟨out, res2, res3⟩ := v
          simp only
          generalize w1.chunkWriter.addChunk (peek0.length + peek1.length) out.codec out.compressed res2 res3 = ac
          obtain ⟨c, e⟩ := ac
          cases e with
          | some e => rfl
          | none =>
            simp only
            apply ih
            · simp only
              rw [f2, WBuf.length_advance _ _ (by omega)]
              have : peek0.length + peek1.length ≠ 0 := by intro h; simp [h] at hd0
              omega
            · simp only; omega

end WuffsVerif.Rac

namespace WuffsVerif.Rac

theorem tryCChunk_force_not_short (cw : CodecW) (w : Writer) (t : Nat) :
    (Writer.tryCChunk cw w t true).2 ≠ .short := by
  unfold Writer.tryCChunk
  simp only
  generalize w.uncompressed.peek t = pk
  obtain ⟨peek0, peek1⟩ := pk
  simp only
  generalize Writer.compressAndUse cw w peek0 peek1 = cu
  obtain ⟨w1, r⟩ := cu
  cases r with
  | error e => simp
  | ok v =>
    obtain ⟨out, res2, res3⟩ := v
    simp only
    repeat (any_goals split)
    all_goals simp_all

/-- a chunk written in CChunkSize mode consumes at least one pending byte -/
theorem tryCChunk_progress (cw : CodecW) (D : Bytes → Option Bytes) (hc : CodecContract cw D)
    (w : Writer) (t : Nat) (force : Bool) (ht : t > 0) (hl : w.uncompressed.length > 0)
    (hwf : w.uncompressed.WF) :
    ((Writer.tryCChunk cw w t force).2 = .ok →
      (Writer.tryCChunk cw w t force).1.uncompressed.length < w.uncompressed.length) ∧
    ((Writer.tryCChunk cw w t force).2 = .short →
      (Writer.tryCChunk cw w t force).1.uncompressed = w.uncompressed) ∧
    (Writer.tryCChunk cw w t force).1.uncompressed.WF ∧
    (Writer.tryCChunk cw w t force).1.cChunkSize = w.cChunkSize := by
  unfold Writer.tryCChunk
  simp only
  have hpk := WBuf.peek_refines w.uncompressed t
  have hpl := WBuf.peek_length w.uncompressed t
  generalize hp : w.uncompressed.peek t = pk at *
  obtain ⟨peek0, peek1⟩ := pk
  simp only at hpk hpl ⊢
  have hfr := Writer.compressAndUse_frame cw w peek0 peek1
  simp only at hfr
  generalize hcu : Writer.compressAndUse cw w peek0 peek1 = cu at *
  obtain ⟨w1, r⟩ := cu
  obtain ⟨f1, f2, f3, f4, f5, f6, f7⟩ := hfr
  simp only at f2 f4 f7
  have hwf1 : w1.uncompressed.WF := by rw [f2]; exact hwf
  have hlen12 : peek0.length + peek1.length = (peek0 ++ peek1).length := by simp
  cases r with
  | error e => simp only; exact ⟨by simp, by simp, hwf1, f4⟩
  | ok v =>
    obtain ⟨out, res2, res3⟩ := v
    simp only
    have hD := hc.compress_ok _ _ _ _ (f7 out res2 res3 rfl)
    split
    · exact ⟨by simp, fun _ => f2, hwf1, f4⟩
    · split
      · have hn : peek0.length + peek1.length ≤ w1.uncompressed.length := by rw [f2]; omega
        have ha := WBuf.length_advance w1.uncompressed _ hn
        have hwa := WBuf.advance_WF w1.uncompressed (peek0.length + peek1.length) hwf1
        obtain ⟨z1, z2, z3⟩ := WBuf.apz_refines _ hwa
        generalize (w1.uncompressed.advance (peek0.length + peek1.length)).advancePastLeadingZeroes = az at *
        obtain ⟨u, z⟩ := az
        simp only at z1 z2 z3 ⊢
        have hul : u.length ≤ (w1.uncompressed.advance (peek0.length + peek1.length)).length := by
          rw [WBuf.length_eq, z2, List.length_drop, ← WBuf.length_eq]; omega
        generalize w1.chunkWriter.addChunk (peek0.length + peek1.length + z) out.codec out.compressed res2 res3 = ac
        obtain ⟨c, e⟩ := ac
        cases e with
        | some e => simp only; exact ⟨by simp, by simp, z3, f4⟩
        | none =>
          simp only
          refine ⟨fun _ => ?_, by simp, z3, f4⟩
          rw [f2] at ha hul
          omega
      · split
        · simp only; exact ⟨by simp, by simp, hwf1, f4⟩
        · rename_i cB eLen dLen hcut
          obtain ⟨hdl, _⟩ := hc.cut_ok _ _ _ _ _ _ _ hcut hD
          split
          · simp only; exact ⟨by simp, by simp, hwf1, f4⟩
          · rename_i hd0
            have hdpos : dLen ≠ 0 := by intro h; simp [h] at hd0
            have hn : dLen ≤ w1.uncompressed.length := by rw [f2]; rw [← hlen12] at hdl; omega
            have ha := WBuf.length_advance w1.uncompressed _ hn
            have hwa := WBuf.advance_WF w1.uncompressed dLen hwf1
            obtain ⟨z1, z2, z3⟩ := WBuf.apz_refines _ hwa
            generalize (w1.uncompressed.advance dLen).advancePastLeadingZeroes = az at *
            obtain ⟨u, z⟩ := az
            simp only at z1 z2 z3 ⊢
            have hul : u.length ≤ (w1.uncompressed.advance dLen).length := by
              rw [WBuf.length_eq, z2, List.length_drop, ← WBuf.length_eq]; omega
            generalize w1.chunkWriter.addChunk (dLen + z) out.codec (cB.take eLen) res2 res3 = ac
            obtain ⟨c, e⟩ := ac
            cases e with
            | some e => simp only; exact ⟨by simp, by simp, z3, f4⟩
            | none =>
              simp only
              refine ⟨fun _ => ?_, by simp, z3, f4⟩
              rw [f2] at ha hul
              omega

end WuffsVerif.Rac

namespace WuffsVerif.Rac

theorem cChunkInner_progress (cw : CodecW) (D : Bytes → Option Bytes) (hc : CodecContract cw D) (fuel : Nat) :
    ∀ (w : Writer) (t : Nat), t > 0 → w.uncompressed.length > 0 → w.uncompressed.WF →
      ((Writer.cChunkInner cw fuel w t).2 = .continueOuter →
        (Writer.cChunkInner cw fuel w t).1.uncompressed.length < w.uncompressed.length) ∧
      (Writer.cChunkInner cw fuel w t).1.uncompressed.WF ∧
      (Writer.cChunkInner cw fuel w t).1.cChunkSize = w.cChunkSize := by
  induction fuel with
  | zero => intro w t _ _ hwf; exact ⟨by simp [Writer.cChunkInner], hwf, rfl⟩
  | succ f ih =>
    intro w t ht hl hwf
    rw [Writer.cChunkInner.eq_2]
    try simp only
    have hp := tryCChunk_progress cw D hc w t
      (decide ((if t * 2 > maxTargetDChunkSize then maxTargetDChunkSize else t * 2) ≤ t)) ht hl hwf
    generalize Writer.tryCChunk cw w t
      (decide ((if t * 2 > maxTargetDChunkSize then maxTargetDChunkSize else t * 2) ≤ t)) = tr at *
    obtain ⟨w1, r⟩ := tr
    obtain ⟨p1, p2, p3, p4⟩ := hp
    simp only at p1 p2 p3 p4
    cases r with
    | ok => simp only; exact ⟨fun _ => p1 rfl, p3, p4⟩
    | err e => simp only; exact ⟨by simp, p3, p4⟩
    | short =>
      simp only
      have hu := p2 rfl
      split
      · exact ⟨by simp, p3, p4⟩
      · have hnext : (if t * 2 > maxTargetDChunkSize then maxTargetDChunkSize else t * 2) > 0 := by
          split <;> simp [maxTargetDChunkSize] <;> omega
        have := ih w1 _ hnext (by rw [hu]; exact hl) p3
        rw [hu] at this
        exact ⟨this.1, this.2.1, by rw [this.2.2, p4]⟩

theorem next_cases (t : Nat) :
    (t * 2 > 2 ^ 31 ∧ (if t * 2 > maxTargetDChunkSize then maxTargetDChunkSize else t * 2) = 2 ^ 31) ∨
    (t * 2 ≤ 2 ^ 31 ∧ (if t * 2 > maxTargetDChunkSize then maxTargetDChunkSize else t * 2) = t * 2) := by
  by_cases h : t * 2 > maxTargetDChunkSize
  · left; rw [if_pos h]; exact ⟨h, rfl⟩
  · right; rw [if_neg h]; exact ⟨by unfold maxTargetDChunkSize at h; omega, rfl⟩

/-- the inner (doubling) loop of `writeCChunks` needs at most 32 iterations: more fuel than
`fuel + 1` changes nothing as soon as `t * 2^fuel ≥ 2^31` -/
theorem cChunkInner_fuel_stable (cw : CodecW) (fuel : Nat) :
    ∀ (w : Writer) (t : Nat), t * 2 ^ fuel ≥ 2 ^ 31 →
      Writer.cChunkInner cw (fuel + 2) w t = Writer.cChunkInner cw (fuel + 1) w t := by
  induction fuel with
  | zero =>
    intro w t ht
    rw [Writer.cChunkInner.eq_2 cw w t 1, Writer.cChunkInner.eq_2 cw w t 0]
    try simp only
    have hforce : decide ((if t * 2 > maxTargetDChunkSize then maxTargetDChunkSize else t * 2) ≤ t) = true := by
      simp only [Nat.pow_zero, Nat.mul_one] at ht
      rcases next_cases t with ⟨h1, h2⟩ | ⟨h1, h2⟩
      · rw [h2]; simp; omega
      · rw [h2]; simp; omega
    rw [hforce]
    have hns := tryCChunk_force_not_short cw w t
    generalize Writer.tryCChunk cw w t true = tr at *
    obtain ⟨w1, r⟩ := tr
    cases r with
    | ok => rfl
    | err e => rfl
    | short => exact absurd rfl hns
  | succ f ih =>
    intro w t ht
    rw [Writer.cChunkInner.eq_2 cw w t (f + 2), Writer.cChunkInner.eq_2 cw w t (f + 1)]
    try simp only
    generalize Writer.tryCChunk cw w t
      (decide ((if t * 2 > maxTargetDChunkSize then maxTargetDChunkSize else t * 2) ≤ t)) = tr
    obtain ⟨w1, r⟩ := tr
    cases r with
    | ok => rfl
    | err e => rfl
    | short =>
      simp only
      split
      · rfl
      · apply ih
        rcases next_cases t with ⟨h1, h2⟩ | ⟨h1, h2⟩
        · rw [h2]
          have : 2 ^ f ≥ 1 := Nat.one_le_two_pow
          calc 2 ^ 31 * 2 ^ f ≥ 2 ^ 31 * 1 := Nat.mul_le_mul_left _ this
            _ = 2 ^ 31 := by simp
        · rw [h2]
          rw [Nat.pow_succ] at ht
          calc t * 2 * 2 ^ f = t * (2 ^ f * 2) := by rw [Nat.mul_assoc, Nat.mul_comm 2]
            _ ≥ 2 ^ 31 := ht

/-- more fuel does not change `writeCChunks` once it exceeds the pending length -/
theorem writeCChunks_fuel_stable (cw : CodecW) (D : Bytes → Option Bytes) (hc : CodecContract cw D)
    (eof : Bool) (fuel : Nat) :
    ∀ w : Writer, w.uncompressed.length < fuel → w.cChunkSize > 0 → w.uncompressed.WF →
      Writer.writeCChunks cw eof (fuel + 1) w = Writer.writeCChunks cw eof fuel w := by
  induction fuel with
  | zero => intro w h; omega
  | succ f ih =>
    intro w hlen hcs hwf
    rw [Writer.writeCChunks.eq_2 cw eof w (f + 1), Writer.writeCChunks.eq_2 cw eof w f]
    try simp only
    by_cases hn : (w.uncompressed.length == 0) = true
    · rw [if_pos hn, if_pos hn]
    · rw [if_neg hn, if_neg hn]
      generalize htg : (if (!eof) = true then startingTargetDChunkSize w.cChunkSize else maxTargetDChunkSize) = tg
      by_cases h2 : (!eof && decide (w.uncompressed.length < tg)) = true
      · rw [if_pos h2, if_pos h2]
      · rw [if_neg h2, if_neg h2]
        have htpos : tg > 0 := by
          rw [← htg]; split <;> simp [startingTargetDChunkSize, maxTargetDChunkSize] <;> omega
        have hlpos : w.uncompressed.length > 0 := by
          have : w.uncompressed.length ≠ 0 := by simpa using hn
          omega
        have hp := cChunkInner_progress cw D hc 64 w tg htpos hlpos hwf
        generalize Writer.cChunkInner cw 64 w tg = ci at *
        obtain ⟨w1, r⟩ := ci
        obtain ⟨p1, p2, p3⟩ := hp
        simp only at p1 p2 p3
        cases r with
        | ret e => rfl
        | continueOuter =>
          simp only
          exact ih w1 (by have := p1 rfl; omega) (by rw [p3]; exact hcs) p2

end WuffsVerif.Rac
