/-
C05 — `skip?`, `write_u8?`, `read_u8?` machines, and straight-line programs over the suspending
built-ins: what they compute depends on the concatenation of the source chunks only, not on
where it is cut, and not at all on the destination capacity pieces.
-/
import WuffsVerif.Proof.ScratchRead

namespace WuffsVerif.Scratch

/-! ### skip -/

theorem skipGo_spec : ∀ (future : List (List UInt8)) (scratch : Nat) (pending : List UInt8) (c s : Nat),
    (scratch ≤ (pending ++ future.flatten).length →
      ∃ src, skipGo scratch pending c s future = (true, src) ∧ src.consumed = c + scratch ∧
        src.pending ++ src.future.flatten = (pending ++ future.flatten).drop scratch) ∧
    (¬ scratch ≤ (pending ++ future.flatten).length →
      ∃ s', skipGo scratch pending c s future = (false, ⟨[], [], c + (pending ++ future.flatten).length, s'⟩))
  | [], scratch, pending, c, s => by
    simp only [List.flatten_nil, List.append_nil, skipGo, skipCall]
    by_cases h : scratch > pending.length
    · simp only [h, ↓reduceIte]
      exact ⟨fun h2 => by omega, fun _ => ⟨_, rfl⟩⟩
    · simp only [h, ↓reduceIte]
      exact ⟨fun _ => ⟨_, rfl, rfl, by simp⟩, fun h2 => by omega⟩
  | ch :: fut, scratch, pending, c, s => by
    simp only [skipGo, skipCall, List.flatten_cons]
    by_cases h : scratch > pending.length
    · simp only [h, ↓reduceIte]
      have ih := skipGo_spec fut (scratch - pending.length) ch (c + pending.length) (s + 1)
      constructor
      · intro hc
        have hc' : scratch - pending.length ≤ (ch ++ fut.flatten).length := by
          simp only [List.length_append] at hc ⊢; omega
        obtain ⟨src, h1, h2, h3⟩ := ih.1 hc'
        have hd : List.drop scratch (pending ++ (ch ++ fut.flatten)) =
            List.drop (scratch - pending.length) (ch ++ fut.flatten) := by
          rw [List.drop_append, List.drop_of_length_le (Nat.le_of_lt h), List.nil_append]
        refine ⟨src, h1, by rw [h2]; omega, ?_⟩
        rw [h3, hd]
      · intro hc
        have hc' : ¬ scratch - pending.length ≤ (ch ++ fut.flatten).length := by
          simp only [List.length_append] at hc ⊢; omega
        obtain ⟨s', h1⟩ := ih.2 hc'
        refine ⟨s', ?_⟩
        rw [h1]
        simp only [List.length_append, Nat.add_assoc]
    · simp only [h, ↓reduceIte]
      have hle : scratch ≤ pending.length := by omega
      constructor
      · intro _
        refine ⟨⟨pending.drop scratch, ch :: fut, c + scratch, s⟩, rfl, rfl, ?_⟩
        simp only [List.flatten_cons]
        rw [List.drop_append_of_le_length hle]
      · intro hc
        exfalso; apply hc
        simp only [List.length_append]; omega

theorem skip1Go_spec : ∀ (future : List (List UInt8)) (pending : List UInt8) (c s : Nat),
    (1 ≤ (pending ++ future.flatten).length →
      ∃ src, skip1Go pending c s future = (true, src) ∧ src.consumed = c + 1 ∧
        src.pending ++ src.future.flatten = (pending ++ future.flatten).drop 1) ∧
    (¬ 1 ≤ (pending ++ future.flatten).length →
      ∃ s', skip1Go pending c s future = (false, ⟨[], [], c + (pending ++ future.flatten).length, s'⟩))
  | [], pending, c, s => by
    simp only [List.flatten_nil, List.append_nil, skip1Go, skip1Call]
    cases pending with
    | nil => simp
    | cons b p => simp
  | ch :: fut, pending, c, s => by
    simp only [skip1Go, skip1Call, List.flatten_cons]
    cases pending with
    | nil =>
      simp only [List.length_nil, beq_self_eq_true, ↓reduceIte, List.nil_append]
      have ih := skip1Go_spec fut ch c (s + 1)
      exact ih
    | cons b p =>
      simp only [List.length_cons, Nat.add_eq_zero_iff, Nat.succ_ne_self, and_false, beq_iff_eq,
        ↓reduceIte, List.drop_succ_cons, List.drop_zero]
      constructor
      · intro _
        exact ⟨_, rfl, rfl, by simp⟩
      · intro hc
        exfalso; apply hc; simp

/-! ### write_u8 -/

theorem writeGo_out (scratch : Nat) : ∀ (future : List Nat) (room : Nat) (out : List UInt8) (ns : Nat),
    (writeGo scratch room out ns future).1.out = out ++ [UInt8.ofNat (scratch % 256)]
  | [], room, out, ns => by
    simp only [writeGo, write8Call]
    by_cases h : (room == 0) = true <;> simp [h]
  | p :: fut, room, out, ns => by
    simp only [writeGo, write8Call]
    by_cases h : (room == 0) = true
    · simp only [h, ↓reduceIte]
      exact writeGo_out scratch fut p out (ns + 1)
    · simp [h]

/-! ### read_u8 -/

theorem peek_single (be : Bool) (b : UInt8) : peek be [b] = b.toNat := by
  cases be <;> simp [peek, peekBE, peekLE]

theorem read8Go_spec (m : RdMethod) (h8 : m.n = 8) : ∀ (future : List (List UInt8)) (pending : List UInt8) (c s : Nat),
    (1 ≤ (pending ++ future.flatten).length →
      ∃ src, readGo m RdSt.start pending c s future =
          (some (peek m.be ((pending ++ future.flatten).take 1)), src) ∧ src.consumed = c + 1 ∧
        src.pending ++ src.future.flatten = (pending ++ future.flatten).drop 1) ∧
    (¬ 1 ≤ (pending ++ future.flatten).length →
      ∃ s', readGo m RdSt.start pending c s future = (none, ⟨[], [], c + (pending ++ future.flatten).length, s'⟩))
  | [], pending, c, s => by
    have e : (m.n == 8) = true := by simp [h8]
    simp only [List.flatten_nil, List.append_nil, readGo, readCall, e, ↓reduceIte, rd8Call]
    cases pending with
    | nil => simp
    | cons b p => simp [peek_single]
  | ch :: fut, pending, c, s => by
    have e : (m.n == 8) = true := by simp [h8]
    simp only [readGo, readCall, e, ↓reduceIte, rd8Call, List.flatten_cons]
    cases pending with
    | nil =>
      simp only [List.nil_append, Nat.add_zero]
      exact read8Go_spec m h8 fut ch c (s + 1)
    | cons b p =>
      simp only [List.cons_append, List.length_cons, List.take_succ_cons, List.take_zero, peek_single,
        List.drop_succ_cons, List.drop_zero]
      constructor
      · intro _
        exact ⟨_, rfl, rfl, by simp⟩
      · intro hc
        exfalso; apply hc; simp

/-! ### straight-line programs -/

/-- What a run is observed by: final status, registers (the observable state), output bytes,
consumed-byte count. -/
structure Obs where
  status : PStatus
  regs : List Nat
  out : List UInt8
  consumed : Nat
  deriving DecidableEq, Repr

def obs (r : PStatus × PState) : Obs := ⟨r.1, r.2.regs, r.2.dst.out, r.2.src.consumed⟩

/-- The same program on the undivided source `bs`, with unbounded destination: the one-shot
meaning. -/
def runSeq : List POp → List Nat → List UInt8 → Nat → List UInt8 → Obs
  | [], regs, out, c, _ => ⟨PStatus.ok, regs, out, c⟩
  | POp.rd m d :: rest, regs, out, c, bs =>
    if m.n / 8 ≤ bs.length then
      runSeq rest (setReg regs d (peek m.be (bs.take (m.n / 8)))) out (c + m.n / 8) (bs.drop (m.n / 8))
    else ⟨PStatus.shortRead, regs, out, c + bs.length⟩
  | POp.skip r :: rest, regs, out, c, bs =>
    if getReg regs r ≤ bs.length then runSeq rest regs out (c + getReg regs r) (bs.drop (getReg regs r))
    else ⟨PStatus.shortRead, regs, out, c + bs.length⟩
  | POp.skip1 :: rest, regs, out, c, bs =>
    if 1 ≤ bs.length then runSeq rest regs out (c + 1) (bs.drop 1)
    else ⟨PStatus.shortRead, regs, out, c + bs.length⟩
  | POp.wr f a b :: rest, regs, out, c, bs =>
    runSeq rest regs (out ++ [UInt8.ofNat (f.eval (getReg regs a) (getReg regs b) % 256)]) c bs

/-- Reads use a row of `readMethods`: one byte, or a well-formed multi-byte row. -/
def POp.OK : POp → Prop
  | POp.rd m _ => m.n = 8 ∨ m.Valid
  | _ => True

theorem runOps_spec : ∀ (prog : List POp) (s : PState), (∀ op ∈ prog, op.OK) →
    obs (runOps prog s) =
      runSeq prog s.regs s.dst.out s.src.consumed (s.src.pending ++ s.src.future.flatten)
  | [], s, _ => by simp [runOps, runSeq, obs]
  | op :: rest, s, hok => by
    have hrest : ∀ o ∈ rest, o.OK := fun o ho => hok o (List.mem_cons_of_mem _ ho)
    have hop := hok op List.mem_cons_self
    cases op with
    | rd m d =>
      have hspec : (m.n / 8 ≤ (s.src.pending ++ s.src.future.flatten).length →
            ∃ src, readGo m RdSt.start s.src.pending s.src.consumed s.src.susp s.src.future =
              (some (peek m.be ((s.src.pending ++ s.src.future.flatten).take (m.n / 8))), src) ∧
              src.consumed = s.src.consumed + m.n / 8 ∧
              src.pending ++ src.future.flatten = (s.src.pending ++ s.src.future.flatten).drop (m.n / 8)) ∧
          (¬ m.n / 8 ≤ (s.src.pending ++ s.src.future.flatten).length →
            ∃ s', readGo m RdSt.start s.src.pending s.src.consumed s.src.susp s.src.future =
              (none, ⟨[], [], s.src.consumed + (s.src.pending ++ s.src.future.flatten).length, s'⟩)) := by
        rcases hop with h8 | hv
        · have := read8Go_spec m h8 s.src.future s.src.pending s.src.consumed s.src.susp
          simpa [h8] using this
        · have := readGo_spec m hv s.src.future RdSt.start [] s.src.pending s.src.consumed s.src.susp
            (Or.inl ⟨rfl, rfl⟩) (by have := hv.lo; simp; omega)
          simpa using this
      by_cases hc : m.n / 8 ≤ (s.src.pending ++ s.src.future.flatten).length
      · obtain ⟨src, h1, h2, h3⟩ := hspec.1 hc
        simp only [runOps, h1, runSeq, hc, ↓reduceIte]
        rw [runOps_spec rest _ hrest]
        simp only [h2, h3]
      · obtain ⟨s', h1⟩ := hspec.2 hc
        simp only [runOps, h1, runSeq, hc, ↓reduceIte, obs]
    | skip r =>
      have hspec := skipGo_spec s.src.future (getReg s.regs r) s.src.pending s.src.consumed s.src.susp
      by_cases hc : getReg s.regs r ≤ (s.src.pending ++ s.src.future.flatten).length
      · obtain ⟨src, h1, h2, h3⟩ := hspec.1 hc
        simp only [runOps, h1, runSeq, hc, ↓reduceIte]
        rw [runOps_spec rest _ hrest]
        simp only [h2, h3]
      · obtain ⟨s', h1⟩ := hspec.2 hc
        simp only [runOps, h1, runSeq, hc, ↓reduceIte, obs]
    | skip1 =>
      have hspec := skip1Go_spec s.src.future s.src.pending s.src.consumed s.src.susp
      by_cases hc : 1 ≤ (s.src.pending ++ s.src.future.flatten).length
      · obtain ⟨src, h1, h2, h3⟩ := hspec.1 hc
        simp only [runOps, h1, runSeq, hc, ↓reduceIte]
        rw [runOps_spec rest _ hrest]
        simp only [h2, h3]
      · obtain ⟨s', h1⟩ := hspec.2 hc
        simp only [runOps, h1, runSeq, hc, ↓reduceIte, obs]
    | wr f a b =>
      simp only [runOps, runSeq]
      rw [runOps_spec rest _ hrest]
      simp only [writeGo_out]

theorem chunksOf_flatten : ∀ (sizes : List Nat) (bs : List UInt8), (chunksOf sizes bs).flatten = bs
  | [], bs => by simp [chunksOf]
  | k :: ks, bs => by
    unfold chunksOf
    by_cases h : bs.length ≤ k
    · simp [h]
    · simp only [h, ↓reduceIte, List.flatten_cons, chunksOf_flatten ks (bs.drop k), List.take_append_drop]

theorem chunksOf_ne_nil (sizes : List Nat) (bs : List UInt8) : chunksOf sizes bs ≠ [] := by
  cases sizes with
  | nil => simp [chunksOf]
  | cons k ks => unfold chunksOf; by_cases h : bs.length ≤ k <;> simp [h]

/-- Whatever the partition of the source bytes into chunks and of the destination capacity into
pieces, a straight-line program observes exactly the one-shot meaning. -/
theorem runProgram_eq_runSeq (prog : List POp) (hok : ∀ op ∈ prog, op.OK) (srcSizes dstSizes : List Nat)
    (bs : List UInt8) : obs (runProgram prog srcSizes dstSizes bs) = runSeq prog [] [] 0 bs := by
  unfold runProgram initState
  rw [runOps_spec prog _ hok]
  have hflat := chunksOf_flatten srcSizes bs
  cases hch : chunksOf srcSizes bs with
  | nil => exact absurd hch (chunksOf_ne_nil srcSizes bs)
  | cons c0 rest =>
    rw [hch] at hflat
    cases dstSizes <;> simp_all

end WuffsVerif.Scratch
