/-
Helper lemma for C13: the CRC-32 of the writer model (UInt32, `Model/Rac/ChunkWriter.lean`) and the
CRC-32 written independently for the spec reader (Nat, `Model/Rac/Spec.lean`) are the same function.
-/
import WuffsVerif.Model.Rac.ChunkWriter
import WuffsVerif.Model.Rac.Spec
namespace WuffsVerif.Rac

theorem crc32Bit_toNat (c : UInt32) :
    (crc32Bit c).toNat = (if c.toNat % 2 == 1 then (c.toNat / 2) ^^^ 0xEDB88320 else c.toNat / 2) := by
  unfold crc32Bit
  have h1 : (c &&& 1).toNat = c.toNat % 2 := by
    rw [UInt32.toNat_and]; simp [Nat.and_one_is_mod]
  by_cases h : c.toNat % 2 = 1
  · have hne : (c &&& 1 != 0) = true := by
      simp only [bne_iff_ne, ne_eq]
      intro h0
      have := congrArg UInt32.toNat h0
      rw [h1, h] at this; simp at this
    rw [if_pos hne]
    simp only [h, beq_self_eq_true, ↓reduceIte, UInt32.toNat_xor, UInt32.toNat_shiftRight]
    simp [Nat.shiftRight_eq_div_pow]
  · have h0 : c.toNat % 2 = 0 := by omega
    have hne : (c &&& 1 != 0) = false := by
      simp only [bne_eq_false_iff_eq]
      apply UInt32.toNat_inj.mp
      rw [h1, h0]; rfl
    rw [if_neg (by simp [hne])]
    simp [h0, UInt32.toNat_shiftRight, Nat.shiftRight_eq_div_pow]


theorem crc32Step_toNat (crc : UInt32) (b : UInt8) :
    (crc32Step crc b).toNat = Spec.crcByte crc.toNat b := by
  unfold crc32Step Spec.crcByte
  simp only [crc32Bit_toNat, UInt32.toNat_xor, UInt8.toNat_toUInt32]

theorem crc32_fold_toNat (bs : Bytes) : ∀ crc : UInt32,
    (bs.foldl crc32Step crc).toNat = bs.foldl Spec.crcByte crc.toNat := by
  induction bs with
  | nil => intro crc; rfl
  | cons b bs ih => intro crc; simp only [List.foldl_cons, ih, crc32Step_toNat]

/-- the CRC-32 of the writer model and the one written independently for the spec reader agree -/
theorem crc32_eq_spec (bs : Bytes) : (crc32 bs).toNat = Spec.crc32 bs := by
  unfold crc32 Spec.crc32
  rw [UInt32.toNat_xor, crc32_fold_toNat]
  rfl

end WuffsVerif.Rac
