/-
C13: `AddResource` and `AddChunk` keep the ChunkWriter data invariant (as long as no error is recorded).
-/
import WuffsVerif.Proof.RacDataInv
namespace WuffsVerif.Rac
open Spec

/-! ### every error of the data part is recorded in `err` -/

theorem CW.padLoop_err (toTemp : Bool) (padLen : Nat) (fuel : Nat) :
    ∀ (remaining : Nat) (w : CW) (e : Err), (CW.padLoop toTemp padLen fuel remaining w).2 = some e →
      (CW.padLoop toTemp padLen fuel remaining w).1.err = some e := by
  induction fuel with
  | zero => intro remaining w e h; simp [CW.padLoop] at h
  | succ f ih =>
    intro remaining w e h
    unfold CW.padLoop at h ⊢
    by_cases h0 : (remaining == 0) = true
    · simp [h0] at h
    · simp only [h0, Bool.false_eq_true, ↓reduceIte] at h ⊢
      generalize (if remaining < padLen then remaining else padLen) = n at h ⊢
      cases hw : w.io.write toTemp (List.replicate n 0) with
      | mk io1 b =>
        rw [hw] at h
        cases b with
        | false => simp at h ⊢; exact h
        | true =>
          simp only [Bool.not_true, Bool.false_eq_true, ↓reduceIte] at h ⊢
          by_cases hms : w.dataSize + n > maxSize
          · rw [if_pos hms] at h ⊢; simp [CW.fail] at h ⊢; exact h
          · rw [if_neg hms] at h ⊢; exact ih _ _ e h

theorem CW.padToPageSize_err (w : CW) (toTemp : Bool) (offset : Nat) (e : Err)
    (h : (w.padToPageSize toTemp offset).2 = some e) : (w.padToPageSize toTemp offset).1.err = some e := by
  unfold CW.padToPageSize at h ⊢
  by_cases h0 : (w.cPageSize == 0) = true
  · simp [h0] at h
  · simp only [h0, Bool.false_eq_true, ↓reduceIte] at h ⊢
    by_cases h1 : (offset &&& (w.cPageSize - 1) == 0) = true
    · simp [h1] at h
    · simp only [h1, Bool.false_eq_true, ↓reduceIte] at h ⊢
      exact CW.padLoop_err _ _ _ _ _ e h

theorem CW.writePadding_err (w : CW) (toTemp : Bool) (lenData : Nat) (e : Err)
    (h : (w.writePadding toTemp lenData).2 = some e) : (w.writePadding toTemp lenData).1.err = some e := by
  unfold CW.writePadding at h ⊢
  by_cases hl : (lenData == 0) = true
  · simp [hl] at h
  · simp only [hl, Bool.false_eq_true, ↓reduceIte] at h ⊢
    split at h
    · simp at h
    · rename_i hp; rw [if_neg hp]; exact CW.padToPageSize_err _ _ _ e h

theorem CW.write_err (w : CW) (data : Bytes) (e : Err) (h : (w.write data).2 = some e) :
    (w.write data).1.err = some e := by
  unfold CW.write at h ⊢
  simp only at h ⊢
  by_cases hd : data.length > maxSize
  · simp only [hd, ↓reduceIte, CW.fail] at h ⊢; simpa using h
  · simp only [hd, ↓reduceIte] at h ⊢
    have hwp := CW.writePadding_err w (w.tempKind != 0) data.length
    generalize hpad : (if w.cPageSize > 0 then w.writePadding (w.tempKind != 0) data.length else (w, none)) = pr at h ⊢
    have hpr : ∀ e, pr.2 = some e → pr.1.err = some e := by
      intro e he
      rw [← hpad] at he ⊢
      split at he
      · rename_i hc; rw [if_pos hc]; exact hwp e he
      · simp at he
    obtain ⟨w1, e1⟩ := pr
    cases e1 with
    | some e' => simp at h ⊢; rw [← h]; exact hpr e' rfl
    | none =>
      simp only [Option.isSome_none, Bool.false_eq_true, ↓reduceIte] at h ⊢
      cases hw : w1.io.write (w.tempKind != 0) data with
      | mk io2 b =>
        rw [hw] at h
        cases b with
        | false => simp at h ⊢; exact h
        | true =>
          simp only [Bool.not_true, Bool.false_eq_true, ↓reduceIte] at h ⊢
          by_cases hms : w1.dataSize + data.length > maxSize
          · rw [if_pos hms] at h ⊢; simp [CW.fail] at h ⊢; exact h
          · rw [if_neg hms] at h; simp at h

theorem CW.checkParameters_err (w : CW) (e : Err) (h : (w.checkParameters).2 = some e) :
    (w.checkParameters).1.err = some e := by
  unfold CW.checkParameters at h ⊢
  repeat (any_goals split)
  all_goals simp_all [CW.fail]

theorem CW.seekTemp_err (w : CW) (e : Err) (h : (w.seekTemp).2 = some e) : (w.seekTemp).1.err = some e := by
  unfold CW.seekTemp at h ⊢
  by_cases hk2 : (w.tempKind == 2) = true
  · rw [if_pos hk2] at h ⊢
    generalize w.io.tick = tk at h ⊢
    obtain ⟨io1, b⟩ := tk
    cases b with
    | false => simp at h ⊢; exact h
    | true => simp at h
  · rw [if_neg hk2] at h; simp at h

theorem CW.initBody_err (w : CW) (e : Err) (h : (w.initBody).2 = some e) : (w.initBody).1.err = some e := by
  unfold CW.initBody at h ⊢
  have hc := CW.checkParameters_err w
  generalize w.checkParameters = r1 at h hc ⊢
  obtain ⟨w1, e1⟩ := r1
  cases e1 with
  | some e' => simp at h ⊢; rw [← h]; exact hc e' rfl
  | none =>
    simp only [Option.isSome_none, Bool.false_eq_true, ↓reduceIte] at h ⊢
    have hs := CW.seekTemp_err w1
    generalize w1.seekTemp = r2 at h hs ⊢
    obtain ⟨w2, e2⟩ := r2
    cases e2 with
    | some e' => simp at h ⊢; rw [← h]; exact hs e' rfl
    | none =>
      simp only [Option.isSome_none, Bool.false_eq_true, ↓reduceIte] at h ⊢
      by_cases hat : (!w2.indexAtStart) = true
      · rw [if_pos hat] at h ⊢
        by_cases hk : (w2.tempKind != 0) = true
        · rw [if_pos hk] at h ⊢; simp [CW.fail] at h ⊢; exact h
        · rw [if_neg hk] at h ⊢; exact CW.write_err _ _ e h
      · rw [if_neg hat] at h ⊢
        by_cases hk : (w2.tempKind == 0) = true
        · rw [if_pos hk] at h ⊢; simp [CW.fail] at h ⊢; exact h
        · rw [if_neg hk] at h; simp at h

theorem CW.init_err (w : CW) (he : w.err = none) (e : Err) (h : (w.init).2 = some e) : (w.init).1.err = some e := by
  rw [CW.init_eq w he] at h ⊢
  by_cases hin : w.initialized = true
  · rw [if_pos hin] at h; simp at h
  · rw [if_neg hin] at h ⊢; exact CW.initBody_err _ e h

/-- the invariant, as long as no error has been recorded -/
def CW.J (c : CW) : Prop := c.err = none → DataInv c

theorem CW.init_of_err (w : CW) (e : Err) (h : w.err = some e) : w.init = (w, some e) := by
  unfold CW.init; simp [h]

theorem DataInv.congr_res {w : CW} (hi : DataInv w) (hin : w.initialized = true) (rcl : Array Nat) (rl : List Bytes)
    (hr : ∀ x ∈ rcl.toList, x < 2 ^ 56 ∧ x % 2 ^ 48 ≤ w.dataSize)
    (hre : ResEntries w.stream (rcl.toList.drop 1) rl.reverse) :
    DataInv { w with resourcesCOffCLens := rcl, resLog := rl } := by
  constructor
  · intro h; simp only at h; rw [hin] at h; simp at h
  · exact hi.size
  · exact hi.mode
  · exact hi.leaves
  · exact hi.codec
  · exact hi.dsize
  · exact hr
  · exact hi.live
  · exact hre

theorem CW.addResource_J (w : CW) (r : Bytes) (hJ : w.J) : (w.addResource r).1.J := by
  intro herr
  unfold CW.addResource at herr ⊢
  by_cases hsz : w.resourcesCOffCLens.size ≥ 2 ^ 30
  · rw [if_pos hsz] at herr; simp at herr
  · rw [if_neg hsz] at herr ⊢
    cases hwe : w.err with
    | some e0 =>
      rw [CW.init_of_err w e0 hwe] at herr
      simp [hwe] at herr
    | none =>
      have hi := hJ hwe
      have hie := CW.init_err w hwe
      have hii := CW.init_inv w hi hwe
      generalize w.init = r1 at herr hie hii ⊢
      obtain ⟨w1, e1⟩ := r1
      cases e1 with
      | some e => simp at herr; rw [hie e rfl] at herr; simp at herr
      | none =>
        simp only [Option.isSome_none, Bool.false_eq_true, ↓reduceIte] at herr ⊢
        obtain ⟨i1, i2, i3, _⟩ := hii rfl
        simp only at i1 i2 i3
        have hwe2 := CW.write_err w1 r
        have hwi := CW.write_inv (data := r) w1 i1 i3
        generalize w1.write r = r2 at herr hwe2 hwi ⊢
        obtain ⟨w2, e2⟩ := r2
        cases e2 with
        | some e => simp at herr; rw [hwe2 e rfl] at herr; simp at herr
        | none =>
          simp only [Option.isSome_none, Bool.false_eq_true, ↓reduceIte] at herr ⊢
          obtain ⟨j1, j2, j3, k, j4, j5, j6⟩ := hwi rfl
          simp only at j1 j2 j3 j4 j5 j6
          have hin2 : w2.initialized = true := by rw [j2]; exact i3
          apply DataInv.congr_res j1 hin2
          rotate_left
          · -- the new resource sits at the end of the stream
            have hold := j1.resOK
            have hdrop : ((if (w2.resourcesCOffCLens.size == 0) = true then #[0] else w2.resourcesCOffCLens).push
                (w2.dataSize - r.length ||| calcCLength r.length <<< 48)).toList.drop 1 =
                w2.resourcesCOffCLens.toList.drop 1 ++ [w2.dataSize - r.length ||| calcCLength r.length <<< 48] := by
              by_cases h0 : (w2.resourcesCOffCLens.size == 0) = true
              · rw [if_pos h0]
                have : w2.resourcesCOffCLens.toList = [] := by
                  have : w2.resourcesCOffCLens.toList.length = 0 := by simpa using h0
                  exact List.eq_nil_of_length_eq_zero this
                simp [this]
              · rw [if_neg h0]
                have hne : w2.resourcesCOffCLens.toList ≠ [] := by
                  intro h; apply h0; simp [← Array.length_toList, h]
                rw [Array.toList_push]
                cases hl : w2.resourcesCOffCLens.toList with
                | nil => exact absurd hl hne
                | cons a as => simp
            rw [hdrop, List.reverse_cons]
            apply ResEntries.snoc _ _ hold
            simp only [ResEntries, and_true]
            refine ⟨w2.dataSize - r.length, ?_, ?_, rfl⟩
            · have := j1.size.1; omega
            · have e : w2.dataSize - r.length = (w1.stream ++ List.replicate k 0).length := by
                rw [j5, i1.size.1]; simp [List.length_append]
              rw [j4, e, List.drop_left, List.take_length]
          intro x hx
          rw [Array.toList_push, List.mem_append, List.mem_singleton] at hx
          rcases hx with hx | rfl
          · by_cases h0 : (w2.resourcesCOffCLens.size == 0) = true
            · rw [if_pos h0] at hx
              simp at hx; subst hx; omega
            · rw [if_neg h0] at hx
              exact j1.res x hx
          · have hlt : w2.dataSize - r.length < 2 ^ 48 := by unfold maxSize at j6; omega
            have := col_fields (w2.dataSize - r.length) r.length hlt
            exact ⟨this.1, by rw [this.2]; omega⟩

theorem DataInv.congr_codec {w : CW} (hi : DataInv w) (hin : w.initialized = true) (c : Nat)
    (h0 : w.leafNodes.size = 0) : DataInv { w with codec := c } := by
  have hl : w.leafNodes.toList = [] := by
    have : w.leafNodes.toList.length = 0 := by simpa using h0
    exact List.eq_nil_of_length_eq_zero this
  constructor
  · intro h; simp only at h; rw [hin] at h; simp at h
  · exact hi.size
  · exact hi.mode
  · exact hi.leaves
  · exact ⟨by simp [hl], by simp [h0]⟩
  · exact hi.dsize
  · exact hi.res
  · exact hi.live
  · exact hi.resOK

/-- the last step of `AddChunk`: a new leaf for the bytes just written -/
theorem DataInv.push_leaf {w0 w : CW} (hi : DataInv w) (hin : w.initialized = true)
    (d codec : Nat) (primary : Bytes) (s t k : Nat) (hd : d ≠ 0)
    (hstream : w.stream = w0.stream ++ List.replicate k 0 ++ primary)
    (hds : w.dataSize = w0.stream.length + k + primary.length)
    (hcodec : w.codec = codec) (hvalid : codecValid codec = true)
    (hsum : w.dFileSize + d ≤ maxSize) :
    DataInv ({ w with
      dFileSize := w.dFileSize + d
      leafNodes := w.leafNodes.push (WNode.leaf d ((w.dataSize - primary.length) ||| (calcCLength primary.length <<< 48)) s t codec)
      log := (⟨d, codec, primary, s, t⟩ : ChunkRec) :: w.log } : CW) := by
  constructor
  · intro h; simp only at h; rw [hin] at h; simp at h
  · exact hi.size
  · exact hi.mode
  · simp only [Array.toList_push, List.reverse_cons]
    apply LeafLog.snoc _ _ hi.leaves
    simp only [LeafLog, WNode.leaf, WNode.dRangeSize, WNode.children, WNode.resources, WNode.codec,
      WNode.cOffsetCLength, and_true]
    refine ⟨trivial, trivial, trivial, trivial, by omega, w.dataSize - primary.length, ?_, ?_, rfl⟩
    · have := hi.size.1; omega
    · have e : w.dataSize - primary.length = (w0.stream ++ List.replicate k 0).length := by
        simp [List.length_append]; omega
      rw [hstream, e, List.drop_left, List.take_length]
  · constructor
    · intro o ho
      simp only [Array.toList_push, List.mem_append, List.mem_singleton] at ho
      rcases ho with ho | rfl
      · exact hi.codec.1 o ho
      · simp [WNode.leaf, WNode.codec, hcodec]
    · intro _; simp only; rw [hcodec]; exact hvalid
  · simp only [Array.toList_push, List.map_append, List.sum_append, List.map_cons, List.map_nil, List.sum_cons,
      List.sum_nil, WNode.leaf, WNode.dRangeSize, Nat.add_zero]
    exact ⟨by rw [hi.dsize.1], hsum⟩
  · exact hi.res
  · intro _; exact hin
  · exact hi.resOK

theorem CW.addChunk_J (w : CW) (d codec : Nat) (primary : Bytes) (s t : Nat) (hJ : w.J) :
    (w.addChunk d codec primary s t).1.J := by
  unfold CW.addChunk
  cases hwe : w.err with
  | some e0 => simpa using hJ
  | none =>
    simp only
    have hi := hJ hwe
    by_cases hd0 : (d == 0) = true
    · rw [if_pos hd0]; exact hJ
    · rw [if_neg hd0]
      have hd : d ≠ 0 := by simpa using hd0
      by_cases hbig : (decide (d > maxSize) || decide (w.dFileSize + d > maxSize)) = true
      · rw [if_pos hbig]; intro h; simp [CW.fail] at h
      · rw [if_neg hbig]
        have hsum : w.dFileSize + d ≤ maxSize := by
          simp only [Bool.or_eq_true, decide_eq_true_eq, not_or, Nat.not_lt] at hbig; exact hbig.2
        by_cases hmany : w.leafNodes.size ≥ 2 ^ 30
        · rw [if_pos hmany]; intro h; simp [CW.fail] at h
        · rw [if_neg hmany]
          have hie := CW.init_err w hwe
          have hii := CW.init_inv w hi hwe
          generalize w.init = r1 at hie hii ⊢
          obtain ⟨w1, e1⟩ := r1
          cases e1 with
          | some e => simp only [Option.isSome_some, ↓reduceIte]; intro h; rw [hie e rfl] at h; simp at h
          | none =>
            simp only [Option.isSome_none, Bool.false_eq_true, ↓reduceIte]
            obtain ⟨i1, i2, i3, i4, i5, i6, i7, i8⟩ := hii rfl
            simp only at i1 i2 i3 i4 i5 i6 i7 i8
            -- the codec step
            have hstep : ∀ (w2 : CW) (e2 : Option Err),
                (if (w1.leafNodes.size == 0) = true then
                  if (!codecValid codec) = true then (w1, some Err.invalidCodec) else ({ w1 with codec := codec }, none)
                else if (w1.codec != codec) = true then w1.fail Err.multipleCodecs else (w1, none)) = (w2, e2) →
                (e2 ≠ none → w2.J) ∧ (e2 = none → DataInv w2 ∧ w2.err = none ∧ w2.initialized = true ∧
                  w2.codec = codec ∧ codecValid codec = true ∧ w2.dFileSize = w.dFileSize) := by
              intro w2 e2 hst
              by_cases hz : (w1.leafNodes.size == 0) = true
              · rw [if_pos hz] at hst
                by_cases hv : (!codecValid codec) = true
                · rw [if_pos hv] at hst
                  injection hst with h1 h2
                  subst h1; subst h2
                  exact ⟨fun _ _ => i1, fun h => by simp at h⟩
                · rw [if_neg hv] at hst
                  injection hst with h1 h2
                  subst h1; subst h2
                  have hv' : codecValid codec = true := by simpa using hv
                  exact ⟨fun h => absurd rfl h, fun _ => ⟨DataInv.congr_codec i1 i3 codec (by simpa using hz), i2, i3, rfl, hv', i8⟩⟩
              · rw [if_neg hz] at hst
                by_cases hc : (w1.codec != codec) = true
                · rw [if_pos hc] at hst
                  injection hst with h1 h2
                  subst h1; subst h2
                  exact ⟨fun _ h => by simp [CW.fail] at h, fun h => by simp at h⟩
                · rw [if_neg hc] at hst
                  injection hst with h1 h2
                  subst h1; subst h2
                  have hc' : w1.codec = codec := by simpa using hc
                  have hz' : w1.leafNodes.size ≠ 0 := by simpa using hz
                  exact ⟨fun h => absurd rfl h, fun _ => ⟨i1, i2, i3, hc', by rw [← hc']; exact i1.codec.2 hz', i8⟩⟩
            generalize hg : (if (w1.leafNodes.size == 0) = true then
                  if (!codecValid codec) = true then (w1, some Err.invalidCodec) else ({ w1 with codec := codec }, none)
                else if (w1.codec != codec) = true then w1.fail Err.multipleCodecs else (w1, none)) = r2
            obtain ⟨w2, e2⟩ := r2
            obtain ⟨s1, s2⟩ := hstep w2 e2 hg
            cases e2 with
            | some e => simp only [Option.isSome_some, ↓reduceIte]; exact s1 (by simp)
            | none =>
              simp only [Option.isSome_none, Bool.false_eq_true, ↓reduceIte]
              obtain ⟨t1, t2, t3, t4, t5, t6⟩ := s2 rfl
              have hwe2 := CW.write_err w2 primary
              have hwi := CW.write_inv (data := primary) w2 t1 t3
              generalize w2.write primary = r3 at hwe2 hwi ⊢
              obtain ⟨w3, e3⟩ := r3
              cases e3 with
              | some e => simp only [Option.isSome_some, ↓reduceIte]; intro h; rw [hwe2 e rfl] at h; simp at h
              | none =>
                simp only [Option.isSome_none, Bool.false_eq_true, ↓reduceIte]
                obtain ⟨j1, j2, j3, k, j4, j5, j6⟩ := hwi rfl
                simp only at j1 j2 j3 j4 j5 j6
                intro _
                have hin3 : w3.initialized = true := by rw [j2]; exact t3
                have hc3 : w3.codec = codec := by rw [j2]; exact t4
                have hf3 : w3.dFileSize = w.dFileSize := by rw [j2]; exact t6
                exact DataInv.push_leaf (w0 := w2) j1 hin3 d codec primary s t k hd j4
                  (by rw [j5, t1.size.1]) hc3 t5 (by rw [hf3]; exact hsum)
end WuffsVerif.Rac
