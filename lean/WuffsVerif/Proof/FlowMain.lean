/-
C02 facts half, the main induction: an accepted statement, started in a store in which
the checker's situation holds, ends (if it ends) in a store in which the situation the
checker continues with holds — for every kind of outcome (normal, break, continue,
return) and every resolution of the non-determinism (what impure callees and the
caller across suspensions do).
-/
import WuffsVerif.Proof.FlowSem

namespace WuffsVerif.Proof.Flow
open WuffsVerif.Interval WuffsVerif.WCore WuffsVerif.WFlow
open WuffsVerif.Proof.WCoreBounds WuffsVerif.Proof.WCoreStmt

/-- a condition of the program: well-typed, of boolean shape and type -/
def CondOK (Γ : Ctx) (c : Expr) : Prop := wt Γ c ∧ goodCond c = true ∧ boolTyped c = true

/-- well-formedness of a flow statement w.r.t. the declared types: what the type
checker (lang/check/type.go) guarantees before the bounds checker runs -/
def wtS (Γ : Ctx) : FStmt → Prop
  | .skip => True
  | .seq a b => wtS Γ a ∧ wtS Γ b
  | .base s => wtStmtA Γ s
  | .assert c r => CondOK Γ c ∧ ReasonOK Γ r
  | .ite c t e => CondOK Γ c ∧ wtS Γ t ∧ wtS Γ e
  | .while sp c body => (∀ a ∈ sp, CondOK Γ a.2) ∧ CondOK Γ c ∧ wtS Γ body
  | .callAssign lhs _ _ => ∃ n, lhs = .var n (Γ n)
  | _ => True

def WfLoops (Γ : Ctx) (loops : List LoopSpec) : Prop := ∀ sp ∈ loops, ∀ a ∈ sp, CondOK Γ a.2

def CondsHold (env : Env) (cs : List Expr) : Prop := ∀ c ∈ cs, evalI env c ≠ 0

/-- what must be true when a statement ends: normally — the situation the checker goes
on with; at a `break` / `continue` of the `k`-th enclosing loop — that loop's inv+post /
pre+inv conditions (what the checker assumes after the loop / at the loop head) -/
def OutOK (Γ : Ctx) (loops : List LoopSpec) (fs1 : List Expr) : Out → Prop
  | .norm env1 => Situation Γ env1 fs1
  | .brk k env1 => EnvOk Γ env1 ∧ ∃ sp, loops[k]? = some sp ∧ CondsHold env1 (nonPre sp)
  | .cont k env1 => EnvOk Γ env1 ∧ ∃ sp, loops[k]? = some sp ∧ CondsHold env1 (nonPost sp)
  | .ret env1 => EnvOk Γ env1

theorem outOK_facts_irrelevant {Γ : Ctx} {loops : List LoopSpec} {f f' : List Expr} {o : Out}
    (hn : o.isNorm = false) (h : OutOK Γ loops f o) : OutOK Γ loops f' o := by
  cases o with
  | norm e => simp [Out.isNorm] at hn
  | brk k e => exact h
  | cont k e => exact h
  | ret e => exact h

theorem mem_nonPost {sp : LoopSpec} {c : Expr} (h : c ∈ nonPost sp) : ∃ a ∈ sp, a.2 = c := by
  simp only [nonPost, List.mem_map, List.mem_filter] at h
  obtain ⟨a, ⟨ha, _⟩, hc⟩ := h
  exact ⟨a, ha, hc⟩

theorem mem_nonPre {sp : LoopSpec} {c : Expr} (h : c ∈ nonPre sp) : ∃ a ∈ sp, a.2 = c := by
  simp only [nonPre, List.mem_map, List.mem_filter] at h
  obtain ⟨a, ⟨ha, _⟩, hc⟩ := h
  exact ⟨a, ha, hc⟩

theorem mem_onlyPost {sp : LoopSpec} {c : Expr} (h : c ∈ onlyPost sp) : ∃ a ∈ sp, a.2 = c := by
  simp only [onlyPost, List.mem_map, List.mem_filter] at h
  obtain ⟨a, ⟨ha, _⟩, hc⟩ := h
  exact ⟨a, ha, hc⟩

/-- inv + post = (pre + inv minus pre) + post -/
theorem nonPre_split {sp : LoopSpec} {c : Expr} (h : c ∈ nonPre sp) :
    c ∈ nonPost sp ∨ c ∈ onlyPost sp := by
  simp only [nonPre, nonPost, onlyPost, List.mem_map, List.mem_filter] at h ⊢
  obtain ⟨a, ⟨ha, hk⟩, hc⟩ := h
  by_cases hp : a.1 = AKind.post
  · right; exact ⟨a, ⟨ha, by simp [hp]⟩, hc⟩
  · left; exact ⟨a, ⟨ha, by simpa using hp⟩, hc⟩

theorem situation_filter {Γ : Ctx} {env : Env} {fs : List Expr} (p : Expr → Bool)
    (S : Situation Γ env fs) : Situation Γ env (fs.filter p) :=
  ⟨S.envOk, fun f hf => S.holds f (List.mem_filter.1 hf).1, fun f hf => S.wtF f (List.mem_filter.1 hf).1,
    fun f hf => S.cmpF f (List.mem_filter.1 hf).1⟩

/-- the situation `assumeAll cs` holds where the conditions `cs` are true -/
theorem situation_assume {Γ : Ctx} {env : Env} {cs : List Expr} (he : EnvOk Γ env)
    (ht : CondsHold env cs) (hw : ∀ c ∈ cs, wt Γ c ∧ goodCond c = true) :
    Situation Γ env (assumeAll cs) :=
  situation_assumeAll cs [] (situation_nil he) (fun c hc => ⟨ht c hc, (hw c hc).1, (hw c hc).2⟩)

/-- the facts at the top of a branch / of a loop body: the condition unless constant -/
theorem situation_cond {Γ : Ctx} {env : Env} {fs : List Expr} {c : Expr} (S : Situation Γ env fs)
    (hc : CondOK Γ c) (ht : evalI env c ≠ 0) :
    Situation Γ env (condFacts fs c) := by
  unfold condFacts
  split
  · exact situation_appendFactA false S ht hc.1 hc.2.1
  · exact S

theorem situation_invcond {Γ : Ctx} {env : Env} {fs fe : List Expr} {c : Expr} (S : Situation Γ env fs)
    (hc : CondOK Γ c) (ht : evalI env c = 0)
    (h : invFacts fs c = some fe) :
    Situation Γ env fe := by
  unfold invFacts at h
  split at h
  · cases hi : invert c with
    | none => simp [hi] at h
    | some ic =>
      simp only [hi, Option.map_some, Option.some.injEq] at h
      subst h
      obtain ⟨iv, wv, gv, _⟩ := invert_spec (Γ := Γ) (env := env) c ic hi hc.1 hc.2.1 hc.2.2
      exact situation_appendFactA false S (iv.2 ht) wv gv
  · cases h; exact S

theorem wf_cons {Γ : Ctx} {loops : List LoopSpec} {sp : LoopSpec} (h : WfLoops Γ loops)
    (hs : ∀ a ∈ sp, CondOK Γ a.2) : WfLoops Γ (sp :: loops) := by
  intro sp' hm
  rcases List.mem_cons.1 hm with h1 | h1
  · subst h1; exact hs
  · exact h sp' h1

theorem wf_get {Γ : Ctx} {loops : List LoopSpec} {k : Nat} {sp : LoopSpec} (h : WfLoops Γ loops)
    (hk : loops[k]? = some sp) : ∀ a ∈ sp, CondOK Γ a.2 :=
  h sp (List.mem_of_getElem? hk)

theorem conds_wt_of {Γ : Ctx} {sp : LoopSpec} (hs : ∀ a ∈ sp, CondOK Γ a.2) :
    (∀ c ∈ nonPost sp, wt Γ c ∧ goodCond c = true) ∧ (∀ c ∈ nonPre sp, wt Γ c ∧ goodCond c = true) ∧
    (∀ c ∈ onlyPost sp, wt Γ c ∧ goodCond c = true) := by
  refine ⟨?_, ?_, ?_⟩
  · intro c hc; obtain ⟨a, ha, rfl⟩ := mem_nonPost hc; exact ⟨(hs a ha).1, (hs a ha).2.1⟩
  · intro c hc; obtain ⟨a, ha, rfl⟩ := mem_nonPre hc; exact ⟨(hs a ha).1, (hs a ha).2.1⟩
  · intro c hc; obtain ⟨a, ha, rfl⟩ := mem_onlyPost hc; exact ⟨(hs a ha).1, (hs a ha).2.1⟩

/-- how a `while` statement may end: normally (condition false, or `break`) with its
inv + post conditions true; or with the contract of an enclosing loop -/
def LoopOut (Γ : Ctx) (loops : List LoopSpec) (sp : LoopSpec) : Out → Prop
  | .norm env1 => EnvOk Γ env1 ∧ CondsHold env1 (nonPre sp)
  | .brk k env1 => EnvOk Γ env1 ∧ ∃ sp', loops[k]? = some sp' ∧ CondsHold env1 (nonPre sp')
  | .cont k env1 => EnvOk Γ env1 ∧ ∃ sp', loops[k]? = some sp' ∧ CondsHold env1 (nonPost sp')
  | .ret env1 => EnvOk Γ env1

theorem loopOut_outOK {Γ : Ctx} {loops : List LoopSpec} {sp : LoopSpec} {o : Out}
    (hsp : ∀ a ∈ sp, CondOK Γ a.2) (h : LoopOut Γ loops sp o) :
    OutOK Γ loops (assumeAll (nonPre sp)) o := by
  cases o with
  | norm e => exact situation_assume h.1 h.2 (conds_wt_of hsp).2.1
  | brk k e => exact h
  | cont k e => exact h
  | ret e => exact h

/-- the part of the `while` case that is an induction over the iterations: from a loop
head where pre+inv hold, the loop ends with inv+post (normal / break) or with the
contract of an outer loop -/
theorem loop_sound {Γ : Ctx} {loops : List LoopSpec} {sp : LoopSpec} {c : Expr} {body : FStmt}
    (hsp : ∀ a ∈ sp, CondOK Γ a.2) (hcc : CondOK Γ c)
    (bodyIH : ∀ (fs fs1 : List Expr) (env : Env) (o : Out), checkS (sp :: loops) fs body = some fs1 →
      Situation Γ env fs → Exec Γ env body o → OutOK Γ (sp :: loops) fs1 o)
    (hPost : postOK sp c = true)
    (hBody : constVal c = some 0 ∨ ∃ fe, checkS (sp :: loops) (bodyFacts sp c) body = some fe ∧
      (terminates body || (checkAsserts fe (nonPost sp)).isSome) = true)
    {env : Env} {w : FStmt} {o : Out} (hx : Exec Γ env w o) :
    w = .while sp c body → EnvOk Γ env → CondsHold env (nonPost sp) → LoopOut Γ loops sp o := by
  obtain ⟨wPost, wPre, wOnly⟩ := conds_wt_of hsp
  induction hx with
  | skip => intro hw; cases hw
  | seqN _ _ _ _ => intro hw; cases hw
  | seqX _ _ _ => intro hw; cases hw
  | base => intro hw; cases hw
  | assert => intro hw; cases hw
  | iteT _ _ _ => intro hw; cases hw
  | iteF _ _ _ => intro hw; cases hw
  | jumpB => intro hw; cases hw
  | jumpC => intro hw; cases hw
  | call _ => intro hw; cases hw
  | callAssign _ _ => intro hw; cases hw
  | yield _ => intro hw; cases hw
  | cocall _ => intro hw; cases hw
  | ret => intro hw; cases hw
  | @whileExit env sp' c' body' hc0 =>
    intro hw he hinv
    cases hw
    -- the loop condition is false: the post conditions were proved from pre+inv and its inverse
    have Shd : Situation Γ env (assumeAll (nonPost sp)) := situation_assume he hinv wPost
    have hPost' : constVal c = some 1 ∨ ∃ ic, invert c = some ic ∧
        (checkAsserts (appendFactA (assumeAll (nonPost sp)) false ic) (onlyPost sp)).isSome = true := by
      unfold postOK at hPost
      by_cases hcv : (constVal c == some 1) = true
      · left; simpa using hcv
      · right
        simp only [hcv] at hPost
        cases hi : invert c with
        | none => simp [hi] at hPost
        | some ic => exact ⟨ic, rfl, by simpa [hi] using hPost⟩
    rcases hPost' with h1 | ⟨ic, hi, hp⟩
    · rw [constVal_some h1] at hc0; simp [evalI] at hc0
    · obtain ⟨iv, wv, gv, _⟩ := invert_spec (Γ := Γ) (env := env) c ic hi hcc.1 hcc.2.1 hcc.2.2
      have S1 := situation_appendFactA false Shd (iv.2 hc0) wv gv
      cases hq : checkAsserts (appendFactA (assumeAll (nonPost sp)) false ic) (onlyPost sp) with
      | none => simp [hq] at hp
      | some fq =>
        obtain ⟨tp, _⟩ := checkAsserts_sound _ _ _ S1 wOnly hq
        refine ⟨he, ?_⟩
        intro d hd
        rcases nonPre_split hd with h | h
        · exact hinv d h
        · exact tp d h
  | @whileIter env env1 sp' c' body' ob o hc1 hb hn _ _ ihw =>
    intro hw he hinv
    cases hw
    have Shd : Situation Γ env (assumeAll (nonPost sp)) := situation_assume he hinv wPost
    rcases hBody with h0 | ⟨fe, hck, hend⟩
    · rw [constVal_some h0] at hc1; simp [evalI] at hc1
    · have Sb : Situation Γ env (bodyFacts sp c) := situation_cond Shd hcc hc1
      have ob_ok := bodyIH _ _ _ _ hck Sb hb
      rcases next_cases hn with h | h
      · subst h
        -- the body fell through: pre+inv were proved at the implicit continue
        simp only [Bool.or_eq_true] at hend
        rcases hend with ht | ha
        · exact absurd ht (fun ht => terminates_no_norm hb env1 rfl ht)
        · cases hq : checkAsserts fe (nonPost sp) with
          | none => simp [hq] at ha
          | some fq =>
            obtain ⟨tp, S2⟩ := checkAsserts_sound _ _ _ ob_ok wPost hq
            exact ihw rfl S2.envOk tp
      · subst h
        obtain ⟨he1, sp0, hk, hc⟩ := ob_ok
        simp only [List.getElem?_cons_zero, Option.some.injEq] at hk
        subst hk
        exact ihw rfl he1 hc
  | @whileLeave env sp' c' body' ob o hc1 hb hl _ =>
    intro hw he hinv
    cases hw
    have Shd : Situation Γ env (assumeAll (nonPost sp)) := situation_assume he hinv wPost
    rcases hBody with h0 | ⟨fe, hck, _⟩
    · rw [constVal_some h0] at hc1; simp [evalI] at hc1
    · have Sb : Situation Γ env (bodyFacts sp c) := situation_cond Shd hcc hc1
      have ob_ok := bodyIH _ _ _ _ hck Sb hb
      rcases leave_cases hl with ⟨e, h1, h2⟩ | ⟨k', e, h1, h2⟩ | ⟨k', e, h1, h2⟩ | ⟨e, h1, h2⟩
      · subst h1; subst h2
        obtain ⟨he1, sp0, hk, hc⟩ := ob_ok
        simp only [List.getElem?_cons_zero, Option.some.injEq] at hk
        subst hk
        exact ⟨he1, hc⟩
      · subst h1; subst h2
        obtain ⟨he1, sp0, hk, hc⟩ := ob_ok
        exact ⟨he1, sp0, by simpa using hk, hc⟩
      · subst h1; subst h2
        obtain ⟨he1, sp0, hk, hc⟩ := ob_ok
        exact ⟨he1, sp0, by simpa using hk, hc⟩
      · subst h1; subst h2
        exact ob_ok

/--
**exec_sound** — the central invariant of the facts half of C02, for ALL statements of
the fragment, all stores, all outcomes and all behaviours of callees / callers: every
transfer function of the checker (`appendFact` on conditions and their inverses,
`dropAnyFactsMentioning` / the `x += c` rewriting via C01's `stmt_sound`, the
impure-call kill set, `updateFactsForSuspension`, `unify`, the loop entry / continue /
break obligations) maps a situation that holds before to one that holds after.
-/
theorem exec_sound {Γ : Ctx} :
    ∀ (s : FStmt) (loops : List LoopSpec) (fs fs1 : List Expr) (env : Env) (o : Out),
      wtS Γ s → WfLoops Γ loops → checkS loops fs s = some fs1 → Situation Γ env fs →
      Exec Γ env s o → OutOK Γ loops fs1 o := by
  intro s
  induction s with
  | skip =>
    intro loops fs fs1 env o _ _ hc S hx
    cases hx
    simp only [checkS, Option.some.injEq] at hc
    subst hc
    exact S
  | seq a b iha ihb =>
    intro loops fs fs1 env o hw hl hc S hx
    simp only [wtS] at hw
    simp only [checkS] at hc
    cases h1 : checkS loops fs a with
    | none => simp [h1] at hc
    | some fa =>
      simp only [h1] at hc
      split at hc
      · cases hc
      · cases hx with
        | seqN hxa hxb =>
          have Sa := iha loops fs fa env _ hw.1 hl h1 S hxa
          exact ihb loops fa fs1 _ o hw.2 hl hc Sa hxb
        | seqX hxa hn =>
          exact outOK_facts_irrelevant hn (iha loops fs fa env o hw.1 hl h1 S hxa)
  | base st =>
    intro loops fs fs1 env o hw _ hc S hx
    cases hx
    simp only [checkS] at hc
    exact (stmtA_sound S hw hc).2
  | assert c r =>
    intro loops fs fs1 env o hw _ hc S hx
    cases hx
    simp only [checkS] at hc
    simp only [wtS] at hw
    exact (checkAssert_sound S hw.1.1 hw.1.2.1 hw.2 hc).2
  | ite c t e iht ihe =>
    intro loops fs fs1 env o hw hl hc S hx
    simp only [wtS] at hw
    obtain ⟨hcc, hwt, hwe⟩ := hw
    simp only [checkS] at hc
    cases hb : bcheck fs false c with
    | none => simp [hb] at hc
    | some b0 =>
      simp only [hb] at hc
      cases h1 : checkS loops (condFacts fs c) t with
      | none => simp [h1] at hc
      | some ft' =>
        simp only [h1] at hc
        cases h2 : invFacts fs c with
        | none => simp [h2] at hc
        | some fe =>
          simp only [h2] at hc
          cases h3 : checkS loops fe e with
          | none => simp [h3] at hc
          | some fe' =>
            simp only [h3, Option.some.injEq] at hc
            subst hc
            cases hx with
            | iteT hct hxt =>
              have St := situation_cond S hcc hct
              have ot := iht loops _ ft' env o hwt hl h1 St hxt
              cases o with
              | norm env1 =>
                have hnt : terminates t = false := by
                  cases htt : terminates t with
                  | false => rfl
                  | true => exact absurd htt (fun h => terminates_no_norm hxt env1 rfl h)
                refine situation_unify (b := ft') ?_ ot
                simp [ifBranches, hnt]
              | brk k e1 => exact ot
              | cont k e1 => exact ot
              | ret e1 => exact ot
            | iteF hcf hxe =>
              have Se := situation_invcond S hcc hcf h2
              have oe := ihe loops fe fe' env o hwe hl h3 Se hxe
              cases o with
              | norm env1 =>
                have hne : (!e.isSkip && terminates e) = false := by
                  cases hte : terminates e with
                  | false => simp
                  | true => exact absurd hte (fun h => terminates_no_norm hxe env1 rfl h)
                refine situation_unify (b := fe') ?_ oe
                simp [ifBranches, hne]
              | brk k e1 => exact oe
              | cont k e1 => exact oe
              | ret e1 => exact oe
  | «while» sp c body ihb =>
    intro loops fs fs1 env o hw hl hc S hx
    simp only [wtS] at hw
    obtain ⟨hsp, hcc, hwb⟩ := hw
    obtain ⟨wPost, _, _⟩ := conds_wt_of hsp
    simp only [checkS] at hc
    cases h1 : checkAsserts fs (nonPost sp) with
    | none => simp [h1] at hc
    | some f1 =>
      simp only [h1] at hc
      cases hb : bcheck (assumeAll (nonPost sp)) false c with
      | none => simp [hb] at hc
      | some b0 =>
        simp only [hb] at hc
        obtain ⟨tin, _⟩ := checkAsserts_sound _ _ _ S wPost h1
        by_cases hP : postOK sp c = true
        · simp only [hP, Bool.not_true, Bool.false_eq_true, if_false] at hc
          have run : ∀ (hBody : constVal c = some 0 ∨ ∃ fe, checkS (sp :: loops) (bodyFacts sp c) body = some fe ∧
              (terminates body || (checkAsserts fe (nonPost sp)).isSome) = true),
              OutOK Γ loops (assumeAll (nonPre sp)) o := fun hBody =>
            loopOut_outOK hsp <| loop_sound hsp hcc
              (fun fs' fs1' env' o' hck' S' hx' => ihb (sp :: loops) fs' fs1' env' o' hwb (wf_cons hl hsp) hck' S' hx')
              hP hBody hx rfl S.envOk tin
          by_cases h0 : (constVal c == some 0) = true
          · simp only [h0, if_true, Option.some.injEq] at hc
            subst hc
            exact run (Or.inl (by simpa using h0))
          · simp only [h0] at hc
            cases hk : checkS (sp :: loops) (bodyFacts sp c) body with
            | none => simp [hk] at hc
            | some fe =>
              simp only [hk] at hc
              by_cases hend : (terminates body || (checkAsserts fe (nonPost sp)).isSome) = true
              · rw [if_pos hend] at hc
                cases hc
                exact run (Or.inr ⟨fe, hk, hend⟩)
              · rw [if_neg hend] at hc
                cases hc
        · simp [hP] at hc
  | jump isBreak k =>
    intro loops fs fs1 env o _ hl hc S hx
    simp only [checkS] at hc
    cases hk : loops[k]? with
    | none => simp [hk] at hc
    | some sp =>
      simp only [hk] at hc
      obtain ⟨wPost, wPre, _⟩ := conds_wt_of (wf_get hl hk)
      cases hq : checkAsserts fs (if isBreak = true then nonPre sp else nonPost sp) with
      | none => simp [hq] at hc
      | some fq =>
        cases hx with
        | jumpB =>
          simp only [if_true] at hq
          obtain ⟨tp, _⟩ := checkAsserts_sound _ _ _ S wPre hq
          exact ⟨S.envOk, sp, hk, tp⟩
        | jumpC =>
          simp only [Bool.false_eq_true, if_false] at hq
          obtain ⟨tp, _⟩ := checkAsserts_sound _ _ _ S wPost hq
          exact ⟨S.envOk, sp, hk, tp⟩
  | call args =>
    intro loops fs fs1 env o _ _ hc S hx
    simp only [checkS] at hc
    split at hc
    · cases hc
      cases hx with
      | call hh => exact havoc_keeps S hh
    · cases hc
  | callAssign lhs retTy args =>
    intro loops fs fs1 env o hw _ hc S hx
    simp only [wtS] at hw
    obtain ⟨n, rfl⟩ := hw
    cases hx with
    | @callAssign _ env' _ _ _ _ v hh hv =>
      simp only [checkS, isVar, Bool.not_true, Bool.false_eq_true, if_false] at hc
      cases hb : bcheck fs false (.var n (Γ n)) with
      | none => simp [hb] at hc
      | some b0 =>
        cases ht : typeBounds retTy with
        | none => simp [hb, ht] at hc
        | some nb =>
          simp only [hb, ht] at hc
          split at hc
          · cases hc
          · rename_i hok
            simp only [Bool.or_eq_true, Bool.not_eq_true', not_or, Bool.not_eq_false] at hok
            have hfit : fitsType (Γ n) nb = true := by simpa [typeOf] using hok.2
            -- after the callee: the facts not mentioning `this` still hold
            have S1 : Situation Γ env' (dropReceiver fs) := havoc_keeps S hh
            have hmem : nb.mem v := (typeBounds_mem_iff ht v).2 hv
            have hty : inType (Γ n) v := fitsType_spec hfit hmem
            have hen : EnvOk Γ (upd env' n v) := envOk_upd S1.envOk hty
            -- after the store: the facts not mentioning the target still hold
            have S2 : Situation Γ (upd env' n v) (dropLHS (dropReceiver fs) (.var n (Γ n))) := by
              refine ⟨hen, ?_, ?_, ?_⟩
              · intro f hf
                simp only [dropLHS, mentionsLHS, Bool.or_false, List.mem_filter, Bool.not_eq_true'] at hf
                rw [evalI_upd _ f (S1.wtF f hf.1) hf.2]
                exact S1.holds f hf.1
              · intro f hf
                exact S1.wtF f (List.mem_filter.1 hf).1
              · intro f hf
                exact S1.cmpF f (List.mem_filter.1 hf).1
            split at hc
            · cases hc; exact S2
            · have hval : nb.mem (evalI (upd env' n v) (.var n (Γ n))) := by
                simpa [evalI, upd] using hmem
              obtain ⟨r1, r2, r3⟩ := boundFacts_sound (Γ := Γ) (lhs := .var n (Γ n)) rfl hc hval
                S2.holds S2.wtF S2.cmpF
              exact ⟨hen, r1, r2, r3⟩
  | yield =>
    intro loops fs fs1 env o _ _ hc S hx
    simp only [checkS, Option.some.injEq] at hc
    subst hc
    cases hx with
    | yield hh => exact havoc_keeps S hh
  | cocall args =>
    intro loops fs fs1 env o _ _ hc S hx
    simp only [checkS] at hc
    split at hc
    · cases hc
      cases hx with
      | cocall hh => exact situation_filter _ (havoc_keeps S hh)
    · cases hc
  | ret e =>
    intro loops fs fs1 env o _ _ _ S hx
    cases hx
    exact S.envOk

end WuffsVerif.Proof.Flow
