/-
C12, the Wuffs formatter: the stream `Tokenize` reads back from `Render`'s output satisfies the
line-structure hypothesis `linesOK` again (so the hypotheses of `render_retokenizes` are closed
under formatting).  Core Lean only.
-/
import WuffsVerif.Proof.RenderRetok

namespace WuffsVerif.Render
open WuffsVerif.FmtToken WuffsVerif.Gen.C12

theorem piecesOut_lines : ∀ (ps : List Piece) (l : Nat), ∀ t ∈ piecesOut l ps, l ≤ t.line := by
  intro ps
  induction ps with
  | nil => intro l t ht; simp [piecesOut] at ht
  | cons p ps ih =>
    intro l t ht
    rw [piecesOut, List.mem_append] at ht
    rcases ht with ht | ht
    · rw [out_lines p l t ht]; exact Nat.le_refl _
    · have := ih (l + 1) t ht; omega

/-- a word / number / string token is not ";" -/
theorem plain_text_not_semicolon (s : Bytes) (c : UInt8) (σ : Bytes) (hs : s = c :: σ) (hc : plainStart c = true) :
    (intern s).1 ≠ idSemicolon := by
  unfold intern
  cases hb : builtinByName s with
  | some r =>
    simp only
    obtain ⟨b, hbm, hbt, hbi, _⟩ := builtinByName_sound hb
    have hf := List.all_eq_true.mp builtin_word_facts b hbm
    rw [hbt, hs] at hf
    unfold plainStart at hc
    simp only [hc, Bool.not_true, Bool.false_or, Bool.and_eq_true, decide_eq_true_eq,
      Bool.not_eq_true', beq_iff_eq] at hf
    obtain ⟨⟨⟨⟨⟨⟨⟨_, f2⟩, f3⟩, _⟩, _⟩, _⟩, _⟩, _⟩ := hf
    intro heq
    rw [← hbi] at heq
    rw [heq] at f2
    rw [← f2] at f3
    revert f3
    decide
  | none =>
    rw [hs]
    simp only
    decide

theorem retok_id_semicolon {t : Tok} (h : wfTok t = true) (l : Nat) (hid : (retok l t).id = idSemicolon) :
    t.id = idSemicolon := by
  unfold retok retokId at hid
  cases hp : wfPunct t with
  | true => simpa [hp] using hid
  | false =>
    exfalso
    simp only [hp, Bool.false_eq_true, ↓reduceIte] at hid
    have hpl : wfPlain t = true := by unfold wfTok at h; rw [hp] at h; simpa using h
    obtain ⟨c, σ, htxt, hstart⟩ := wfPlain_head hpl
    obtain ⟨c', σ', htt, hh⟩ := tokText_ne_nil h
    have hcc : c' = c := by rw [htxt] at hh; simpa using hh.symm
    subst hcc
    exact plain_text_not_semicolon _ c' σ' htt hstart hid

theorem plainStart_not_bad : ∀ c : UInt8, plainStart c = true →
    (c == 46) = false ∧ (c == 43) = false ∧ (c == 45) = false := by
  apply byte_forall; decide +kernel

/-- the three texts `badPair` looks for are squiggly tokens: a word / number / string is none of them -/
theorem tokText_eq_bad {t : Tok} (h : wfTok t = true) (s : Bytes) (hs : s = [46] ∨ s = [43] ∨ s = [45]) :
    (tokText t == s) = (t.text == s) := by
  cases hp : wfPunct t with
  | true =>
    obtain ⟨e, he, _, het⟩ := wfPunct_entry hp
    obtain ⟨_, _, c, σ, hc, _, _, _, hnum, _⟩ := punct_facts he
    rw [tokText_not_numeric t c σ (by rw [← het, hc]) hnum]
  | false =>
    have hpl : wfPlain t = true := by unfold wfTok at h; rw [hp] at h; simpa using h
    obtain ⟨c, σ, htxt, hstart⟩ := wfPlain_head hpl
    obtain ⟨c', σ', htt, hh⟩ := tokText_ne_nil h
    have hcc : c' = c := by rw [htxt] at hh; simpa using hh.symm
    subst hcc
    obtain ⟨n1, n2, n3⟩ := plainStart_not_bad c' hstart
    rw [htt, htxt]
    rcases hs with rfl | rfl | rfl <;> simp [n1, n2, n3]

theorem badPair_retok {t t2 : Tok} (h1 : wfTok t = true) (h2 : wfTok t2 = true) (l : Nat) :
    badPair (retok l t) (retok l t2) = badPair t t2 := by
  unfold badPair retok
  simp only [tokText_head h2, tokText_eq_bad h1 [46] (Or.inl rfl), tokText_eq_bad h1 [43] (Or.inr (Or.inl rfl)),
    tokText_eq_bad h1 [45] (Or.inr (Or.inr rfl))]

theorem badPair_raw_retok {t t2 : Tok} (h2 : wfTok t2 = true) (l : Nat) :
    badPair (rawtok l t) (retok l t2) = badPair t t2 := by
  unfold badPair retok rawtok
  simp only [tokText_head h2]

theorem badPair_raw (t t2 : Tok) (l : Nat) : badPair (rawtok l t) (rawtok l t2) = badPair t t2 := rfl

/-- the output tokens of a line: the names as they are, then the others as `Render` writes them -/
def outLine (l : Nat) (names lts : List Tok) : List Tok := names.map (rawtok l) ++ lts.map (retok l)

/-- `noBadPairs` is kept by reading the line back -/
theorem noBadPairs_out (l : Nat) : ∀ (names lts : List Tok) (prev : Option Tok) (prev' : Option Tok),
    (∀ t ∈ names, wfTok t = true) → (∀ t ∈ lts, wfTok t = true) →
    (∀ p, prev = some p → ∃ p', prev' = some p' ∧ ∀ t2, wfTok t2 = true →
      badPair p' (rawtok l t2) = badPair p t2 ∧ badPair p' (retok l t2) = badPair p t2) →
    (prev = none → prev' = none) →
    noBadPairs prev (names ++ lts) = true → noBadPairs prev' (outLine l names lts) = true := by
  intro names
  induction names with
  | nil =>
    intro lts
    induction lts with
    | nil => intro _ _ _ _ _ _ _; simp [outLine, noBadPairs]
    | cons t ts ih =>
      intro prev prev' hn hl hp hnone h
      have ht : wfTok t = true := hl t (by simp)
      simp only [outLine, List.map_nil, List.nil_append, List.map_cons] at ih ⊢
      simp only [List.nil_append] at h
      have hnext : noBadPairs (some (retok l t)) (List.map (retok l) ts) = true := by
        apply ih (some t) (some (retok l t)) hn (fun x hx => hl x (by simp [hx]))
        · intro p hp'
          have := Option.some.inj hp'
          subst this
          exact ⟨_, rfl, fun t2 h2 => ⟨by
            unfold badPair retok rawtok
            simp only [tokText_eq_bad ht [46] (Or.inl rfl), tokText_eq_bad ht [43] (Or.inr (Or.inl rfl)),
              tokText_eq_bad ht [45] (Or.inr (Or.inr rfl))], badPair_retok ht h2 l⟩⟩
        · intro h0; exact absurd h0 (by simp)
        · cases prev with
          | none => simpa [noBadPairs] using h
          | some p =>
            unfold noBadPairs at h
            rw [Bool.and_eq_true] at h
            exact h.2
      cases prev with
      | none =>
        rw [hnone rfl]
        simpa [noBadPairs] using hnext
      | some p =>
        obtain ⟨p', hp', hpb⟩ := hp p rfl
        rw [hp']
        unfold noBadPairs at h ⊢
        rw [Bool.and_eq_true] at h ⊢
        refine ⟨?_, hnext⟩
        rw [(hpb t ht).2]
        exact h.1
  | cons n ns ih =>
    intro lts prev prev' hn hl hp hnone h
    have hnw : wfTok n = true := hn n (by simp)
    simp only [outLine, List.map_cons, List.cons_append] at ih ⊢
    simp only [List.cons_append] at h
    have hnext : noBadPairs (some (rawtok l n)) (List.map (rawtok l) ns ++ List.map (retok l) lts) = true := by
      apply ih lts (some n) (some (rawtok l n)) (fun x hx => hn x (by simp [hx])) hl
      · intro p hp'
        have := Option.some.inj hp'
        subst this
        exact ⟨_, rfl, fun t2 h2 => ⟨badPair_raw _ t2 l, badPair_raw_retok h2 l⟩⟩
      · intro h0; exact absurd h0 (by simp)
      · cases prev with
        | none => simpa [noBadPairs] using h
        | some p =>
          unfold noBadPairs at h
          rw [Bool.and_eq_true] at h
          exact h.2
    cases prev with
    | none =>
      rw [hnone rfl]
      simpa [noBadPairs] using hnext
    | some p =>
      obtain ⟨p', hp', hpb⟩ := hp p rfl
      rw [hp']
      unfold noBadPairs at h ⊢
      rw [Bool.and_eq_true] at h ⊢
      refine ⟨?_, hnext⟩
      rw [(hpb n hnw).1]
      exact h.1

/-! ### `linesOK` of the stream read back -/

theorem stripSemicolons_snoc_not (l : List Tok) (t : Tok) (h : (t.id == idSemicolon) = false) :
    (stripSemicolons (l ++ [t])).1 = l ++ [t] := by
  unfold stripSemicolons
  simp only [List.reverse_append, List.reverse_cons, List.reverse_nil, List.nil_append, List.cons_append,
    List.dropWhile_cons, h, Bool.false_eq_true, ↓reduceIte, List.reverse_reverse]

theorem stripSemicolons_snoc_semi (l : List Tok) (t : Tok) (ln : Nat) (h : (t.id == idSemicolon) = false) :
    (stripSemicolons (l ++ [t] ++ [⟨idSemicolon, [59], ln⟩])).1 = l ++ [t] := by
  unfold stripSemicolons
  simp only [List.reverse_append, List.reverse_cons, List.reverse_nil, List.nil_append, List.cons_append,
    List.dropWhile_cons, beq_self_eq_true, ↓reduceIte, h, Bool.false_eq_true, List.reverse_reverse]

/-- a line of tokens read back satisfies `lineOK` -/
theorem lineOK_out (l k m : Nat) (names lts : List Tok) (com : Bytes) (semis : List Tok)
    (hok : (Piece.toks k names m lts com semis).ok) (hok2 : (Piece.toks k names m lts com semis).ok2) :
    lineOK ((Piece.toks k names m lts com semis).out l) = true := by
  obtain ⟨hn, hl, hne, _, _, _, _⟩ := hok
  obtain ⟨hbad, hlast⟩ := hok2
  -- the last token written
  obtain ⟨init, tl, rfl⟩ : ∃ init tl, lts = init ++ [tl] := by
    cases hr : lts.reverse with
    | nil => exact absurd (List.reverse_eq_nil_iff.mp hr) hne
    | cons a as => exact ⟨as.reverse, a, by rw [← List.reverse_reverse lts, hr]; simp⟩
  have htlw : wfTok tl = true := hl tl (by simp)
  have htlid : tl.id ≠ idSemicolon := hlast tl (by simp)
  have hrid : ((retok l tl).id == idSemicolon) = false := by
    cases hx : ((retok l tl).id == idSemicolon) with
    | false => rfl
    | true => exact absurd (retok_id_semicolon htlw l (by simpa using hx)) htlid
  have hends : endsStatement (init ++ [tl]) = tl.implicitSemicolon := by
    unfold endsStatement; simp
  have hnb := noBadPairs_out l names (init ++ [tl]) none none hn hl (fun p hp => absurd hp (by simp))
    (fun _ => rfl) hbad
  have hline : outLine l names (init ++ [tl]) = (names.map (rawtok l) ++ init.map (retok l)) ++ [retok l tl] := by
    simp [outLine, List.append_assoc]
  simp only [Piece.out, hends]
  unfold lineOK
  by_cases hi : tl.implicitSemicolon = true
  · simp only [hi, ↓reduceIte]
    have e : names.map (rawtok l) ++ (init ++ [tl]).map (retok l) ++ [⟨idSemicolon, [59], l⟩] =
        (names.map (rawtok l) ++ init.map (retok l)) ++ [retok l tl] ++ [⟨idSemicolon, [59], l⟩] := by
      simp [List.append_assoc]
    rw [e, stripSemicolons_snoc_semi _ _ l hrid]
    simp only [List.getLast?_append, List.getLast?_singleton, Option.some_or]
    rw [retok_implicit htlw, hi, ← hline, hnb]
    simp
  · simp only [hi, Bool.false_eq_true, ↓reduceIte, List.append_nil]
    have e : names.map (rawtok l) ++ (init ++ [tl]).map (retok l) =
        (names.map (rawtok l) ++ init.map (retok l)) ++ [retok l tl] := by
      simp [List.append_assoc]
    rw [e, stripSemicolons_snoc_not _ _ hrid]
    simp only [List.getLast?_append, List.getLast?_singleton, Option.some_or]
    have hi' : tl.implicitSemicolon = false := by simpa using hi
    rw [retok_implicit htlw, hi', ← hline, hnb]
    simp

/-- the stream read back from well-formed pieces satisfies `linesOK` -/
theorem linesOK_piecesOut : ∀ (ps : List Piece), (∀ p ∈ ps, p.ok) → (∀ p ∈ ps, p.ok2) →
    ∀ (l f : Nat), (piecesOut l ps).length < f → linesOK f (piecesOut l ps) = true := by
  intro ps
  induction ps with
  | nil =>
    intro _ _ l f hf
    cases f with
    | zero => omega
    | succ f => rfl
  | cons p ps ih =>
    intro hok hok2 l f hf
    rw [piecesOut] at hf ⊢
    have hrest := ih (fun q hq => hok q (by simp [hq])) (fun q hq => hok2 q (by simp [hq])) (l + 1)
    cases hout : p.out l with
    | nil =>
      rw [hout] at hf
      simpa using hrest f (by simpa using hf)
    | cons t0 tl =>
      rw [hout] at hf
      cases f with
      | zero => omega
      | succ f =>
        have hlines : ∀ t ∈ t0 :: tl, t.line = l := by rw [← hout]; exact out_lines p l
        have ht0 : t0.line = l := hlines t0 (by simp)
        have htd := takeWhile_dropWhile_append_stop (fun x : Tok => x.line == t0.line) tl (piecesOut (l + 1) ps)
          (fun x hx => by simp [hlines x (by simp [hx]), ht0])
          (fun x hx => by
            have hm : x ∈ piecesOut (l + 1) ps := by
              cases hq : piecesOut (l + 1) ps with
              | nil => rw [hq] at hx; simp at hx
              | cons a as => rw [hq] at hx; simp at hx; subst hx; simp
            have := piecesOut_lines ps (l + 1) x hm
            simp only [beq_eq_false_iff_ne, ne_eq]
            omega)
        rw [List.cons_append, linesOK, htd.1, htd.2, Bool.and_eq_true]
        constructor
        · rw [← hout]
          cases p with
          | blank => simp [Piece.out] at hout
          | comment k com => simp [Piece.out] at hout
          | toks k names m lts com semis =>
            exact lineOK_out l k m names lts com semis (hok _ (by simp)) (hok2 _ (by simp))
        · apply hrest
          simp only [List.length_cons, List.length_append] at hf
          omega

/-- The hypotheses are closed under formatting: what `Tokenize` reads back from `Render`'s output
satisfies `linesOK` again (and hence, by `tokenize_wf`, all of `streamOK`). -/
theorem render_output_linesOK (toks : List Tok) (comments : Array Bytes) (out : Bytes)
    (hwf : ∀ t ∈ toks, wfTok t = true) (hcm : wfComments comments)
    (hlines : linesOK (toks.length + 1) toks = true) (hr : render toks comments = some out)
    (hnl : out.count 10 < maxLine) :
    ∃ toks' comments', tokenize out = some (toks', comments') ∧ linesOK (toks'.length + 1) toks' = true := by
  obtain ⟨ps, hout, hok, _, _, hok2⟩ := render_pieces toks comments out hwf hcm hlines hr
  have hlen : ps.length < maxLine := by
    have := pieces_length_le_newlines ps
    rw [← hout] at this
    omega
  have htok := pieces_tokenize ps hok hlen
  exact ⟨_, _, by rw [hout]; exact htok, linesOK_piecesOut ps hok hok2 1 _ (Nat.lt_succ_self _)⟩

end WuffsVerif.Render
