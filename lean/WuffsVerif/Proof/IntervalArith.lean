/-
C06 helper lemmas: monotonicity of `*`, `<<`, `tdiv`, `>>` on sign-definite
regions, and the per-block lemmas (monotone / hit / attained) for the
sign-definite blocks of `mulLsh`, `TryQuo`, `TryRsh`.
-/
import WuffsVerif.Proof.IntervalBasic
import Mathlib.Tactic.Linarith

namespace WuffsVerif.Interval

/-! ### arithmetic -/

theorem two_pow_pos (n : Nat) : 0 < (2 : Int) ^ n := Int.pow_pos (by decide)

theorem two_pow_toNat_mono {a b : Int} (h : a ≤ b) : (2 : Int) ^ a.toNat ≤ (2 : Int) ^ b.toNat :=
  pow_le_pow_right₀ (by decide) (Int.toNat_le_toNat h)

/-- a binary operation with the monotonicity of `*` on (neg × neg) -/
def MonoNN (f : Int → Int → Int) : Prop :=
  ∀ x x' y y', x ≤ x' → x' < 0 → y ≤ y' → y' < 0 → f x' y' ≤ f x y
def MonoNP (f : Int → Int → Int) : Prop :=
  ∀ x x' y y', x ≤ x' → x' < 0 → 0 < y → y ≤ y' → f x y' ≤ f x' y
def MonoPN (f : Int → Int → Int) : Prop :=
  ∀ x x' y y', 0 < x → x ≤ x' → y ≤ y' → y' < 0 → f x' y ≤ f x y'
def MonoPP (f : Int → Int → Int) : Prop :=
  ∀ x x' y y', 0 < x → x ≤ x' → 0 < y → y ≤ y' → f x y ≤ f x' y'

theorem mul_monoNN : MonoNN (· * ·) := by
  intro x x' y y' h1 h2 h3 h4; show x' * y' ≤ x * y; nlinarith
theorem mul_monoNP : MonoNP (· * ·) := by
  intro x x' y y' h1 h2 h3 h4; show x * y' ≤ x' * y; nlinarith
theorem mul_monoPN : MonoPN (· * ·) := by
  intro x x' y y' h1 h2 h3 h4; show x' * y ≤ x * y'; nlinarith
theorem mul_monoPP : MonoPP (· * ·) := by
  intro x x' y y' h1 h2 h3 h4; show x * y ≤ x' * y'; nlinarith

theorem lsh_monoNP : MonoNP bigLsh := by
  intro x x' y y' h1 h2 h3 h4
  unfold bigLsh
  have p1 := two_pow_pos y.toNat
  have p2 := two_pow_toNat_mono h4
  nlinarith

theorem lsh_monoPP : MonoPP bigLsh := by
  intro x x' y y' h1 h2 h3 h4
  unfold bigLsh
  have p1 := two_pow_pos y.toNat
  have p2 := two_pow_toNat_mono h4
  nlinarith

/-- floor division: larger numerator, smaller (positive) denominator ⇒ larger quotient
(non-negative numerators) -/
theorem ediv_mono_PP {x x' d d' : Int} (hx : 0 ≤ x) (hxx : x ≤ x') (hd : 0 < d) (hdd : d ≤ d') :
    x / d' ≤ x' / d := by
  have hd' : 0 < d' := by omega
  have h1 : x / d' ≤ x' / d' := Int.ediv_le_ediv hd' hxx
  have hq : 0 ≤ x' / d' := Int.ediv_nonneg (by omega) (by omega)
  have h2 : x' / d' ≤ x' / d := by
    rw [Int.le_ediv_iff_mul_le hd]
    have := Int.ediv_mul_le x' (b := d') (by omega)
    nlinarith
  omega

/-- floor division of negative numerators: larger numerator, larger denominator ⇒ larger quotient -/
theorem ediv_mono_N {x x' d d' : Int} (hxx : x ≤ x') (hx' : x' < 0) (hd : 0 < d) (hdd : d ≤ d') :
    x / d ≤ x' / d' := by
  have hd' : 0 < d' := by omega
  have h1 : x / d ≤ x' / d := Int.ediv_le_ediv hd hxx
  have hq : x' / d < 0 := Int.ediv_neg_of_neg_of_pos hx' hd
  have h2 : x' / d ≤ x' / d' := by
    rw [Int.le_ediv_iff_mul_le hd']
    have := Int.ediv_mul_le x' (b := d) (by omega)
    nlinarith
  omega

theorem tdiv_monoPP {x x' y y' : Int} (h1 : 0 < x) (h2 : x ≤ x') (h3 : 0 < y) (h4 : y ≤ y') :
    Int.tdiv x y' ≤ Int.tdiv x' y := by
  rw [Int.tdiv_eq_ediv_of_nonneg (by omega), Int.tdiv_eq_ediv_of_nonneg (by omega)]
  exact ediv_mono_PP (by omega) h2 h3 h4

theorem tdiv_nonneg_PP {x y : Int} (h1 : 0 ≤ x) (h3 : 0 ≤ y) : 0 ≤ Int.tdiv x y := by
  rw [Int.tdiv_eq_ediv_of_nonneg h1]; exact Int.ediv_nonneg h1 h3

theorem tdiv_monoNN {x x' y y' : Int} (h1 : x ≤ x') (h2 : x' < 0) (h3 : y ≤ y') (h4 : y' < 0) :
    Int.tdiv x' y ≤ Int.tdiv x y' := by
  have := @tdiv_monoPP (-x') (-x) (-y') (-y) (by omega) (by omega) (by omega) (by omega)
  simpa [Int.neg_tdiv, Int.tdiv_neg] using this

theorem tdiv_nonneg_NN {x y : Int} (h1 : x ≤ 0) (h3 : y ≤ 0) : 0 ≤ Int.tdiv x y := by
  have := @tdiv_nonneg_PP (-x) (-y) (by omega) (by omega)
  simpa [Int.neg_tdiv, Int.tdiv_neg] using this

theorem tdiv_monoNP {x x' y y' : Int} (h1 : x ≤ x') (h2 : x' < 0) (h3 : 0 < y) (h4 : y ≤ y') :
    Int.tdiv x y ≤ Int.tdiv x' y' := by
  have := @tdiv_monoPP (-x') (-x) y y' (by omega) (by omega) h3 h4
  simp only [Int.neg_tdiv] at this
  omega

theorem tdiv_nonpos_NP {x y : Int} (h1 : x ≤ 0) (h3 : 0 ≤ y) : Int.tdiv x y ≤ 0 := by
  have := @tdiv_nonneg_PP (-x) y (by omega) h3
  simp only [Int.neg_tdiv] at this
  omega

theorem tdiv_monoPN {x x' y y' : Int} (h1 : 0 < x) (h2 : x ≤ x') (h3 : y ≤ y') (h4 : y' < 0) :
    Int.tdiv x' y' ≤ Int.tdiv x y := by
  have := @tdiv_monoPP x x' (-y') (-y) h1 h2 (by omega) (by omega)
  simp only [Int.tdiv_neg] at this
  omega

theorem tdiv_nonpos_PN {x y : Int} (h1 : 0 ≤ x) (h3 : y ≤ 0) : Int.tdiv x y ≤ 0 := by
  have := @tdiv_nonneg_PP x (-y) h1 (by omega)
  simp only [Int.tdiv_neg] at this
  omega

theorem rsh_monoN {x x' y y' : Int} (h1 : x ≤ x') (h2 : x' < 0) (h4 : y ≤ y') :
    bigRsh x y ≤ bigRsh x' y' :=
  ediv_mono_N h1 h2 (two_pow_pos _) (two_pow_toNat_mono h4)

theorem rsh_neg {x : Int} (h : x < 0) (y : Int) : bigRsh x y ≤ -1 := by
  have := Int.ediv_neg_of_neg_of_pos h (two_pow_pos y.toNat)
  unfold bigRsh; omega

theorem rsh_monoP {x x' y y' : Int} (h1 : 0 ≤ x) (h2 : x ≤ x') (h4 : y ≤ y') :
    bigRsh x y' ≤ bigRsh x' y :=
  ediv_mono_PP h1 h2 (two_pow_pos _) (two_pow_toNat_mono h4)

theorem rsh_nonneg {x : Int} (h : 0 ≤ x) (y : Int) : 0 ≤ bigRsh x y :=
  Int.ediv_nonneg h (Int.le_of_lt (two_pow_pos _))

/-! ### the `if hasA { if hasC {B1}; if hasD {B2} }` shape -/

/-- `if c { if c1 { B1 }; if c2 { B2 } }` applied to the running pair `p` -/
@[reducible] def twoBlocks (c c1 c2 : Bool) (B1 B2 : BIP → BIP) (p : BIP) : BIP :=
  if c then
    let p := if c1 then B1 p else p
    if c2 then B2 p else p
  else p

theorem twoBlocks_mono {c c1 c2 : Bool} {B1 B2 : BIP → BIP} {p : BIP} {v : Int}
    (m1 : ∀ r, r.covers v → (B1 r).covers v) (m2 : ∀ r, r.covers v → (B2 r).covers v)
    (h : p.covers v) : (twoBlocks c c1 c2 B1 B2 p).covers v := by
  cases c <;> cases c1 <;> cases c2 <;> simp [twoBlocks, h, m1, m2]

theorem twoBlocks_hit1 {c c1 c2 : Bool} {B1 B2 : BIP → BIP} {p : BIP} {v : Int}
    (hc : c = true) (hc1 : c1 = true)
    (m1 : ∀ r, (B1 r).covers v) (m2 : ∀ r, r.covers v → (B2 r).covers v) :
    (twoBlocks c c1 c2 B1 B2 p).covers v := by
  subst hc; subst hc1
  cases c2 <;> simp [twoBlocks, m1, m2]

theorem twoBlocks_hit2 {c c1 c2 : Bool} {B1 B2 : BIP → BIP} {p : BIP} {v : Int}
    (hc : c = true) (hc2 : c2 = true) (m2 : ∀ r, (B2 r).covers v) :
    (twoBlocks c c1 c2 B1 B2 p).covers v := by
  subst hc; subst hc2
  cases c1 <;> simp [twoBlocks, m2]

theorem twoBlocks_att {S : Int → Prop} {c c1 c2 : Bool} {B1 B2 : BIP → BIP} {p : BIP}
    (a1 : c = true → c1 = true → ∀ r, r.att S → (B1 r).att S)
    (a2 : c = true → c2 = true → ∀ r, r.att S → (B2 r).att S)
    (h : p.att S) : (twoBlocks c c1 c2 B1 B2 p).att S := by
  cases c <;> cases c1 <;> cases c2 <;> simp_all [twoBlocks]

/-! ### blocks of `mulLsh` -/

section mulBlocks
variable {f : Int → Int → Int}

theorem mulNN_mono (negX negY : IR) {v : Int} (r : BIP) (h : r.covers v) :
    (mulNN f negX negY r).covers v := by
  simp only [mulNN]; split <;> exact covers_raiseMax _ (covers_lowerMin _ h)

theorem mulNP_mono (negX posY : IR) {v : Int} (r : BIP) (h : r.covers v) :
    (mulNP f negX posY r).covers v := by
  simp only [mulNP]; split <;> exact covers_raiseMax _ (covers_lowerMin _ h)

theorem mulPN_mono (posX negY : IR) {v : Int} (r : BIP) (h : r.covers v) :
    (mulPN f posX negY r).covers v := by
  simp only [mulPN]; split <;> exact covers_raiseMax _ (covers_lowerMin _ h)

theorem mulPP_mono (posX posY : IR) {v : Int} (r : BIP) (h : r.covers v) :
    (mulPP f posX posY r).covers v := by
  simp only [mulPP]; split <;> exact covers_raiseMax _ (covers_lowerMin _ h)

theorem mulNN_hit (hf : MonoNN f) {negX negY : IR} {h k x y : Int}
    (hh : negX.hi = some h) (hk : negY.hi = some k) (h0 : h < 0) (k0 : k < 0)
    (hx : negX.mem x) (hy : negY.mem y) (r : BIP) :
    (mulNN f negX negY r).covers (f x y) := by
  obtain ⟨x1, x2⟩ := hx
  obtain ⟨y1, y2⟩ := hy
  rw [hh] at x2; rw [hk] at y2
  simp only [leHi_some] at x2 y2
  simp only [mulNN, hh, hk, Option.getD_some]
  split
  · rename_i a b ha hb
    rw [ha] at x1; rw [hb] at y1
    simp only [loLe_some] at x1 y1
    apply covers_lowerMin_raiseMax
    · exact hf x h y k x2 h0 y2 k0
    · exact hf a x b y x1 (by omega) y1 (by omega)
  · apply covers_lowerMin_raiseMax
    · exact hf x h y k x2 h0 y2 k0
    · trivial

theorem mulNP_hit (hf : MonoNP f) {negX posY : IR} {h l x y : Int}
    (hh : negX.hi = some h) (hl : posY.lo = some l) (h0 : h < 0) (l0 : 0 < l)
    (hx : negX.mem x) (hy : posY.mem y) (r : BIP) :
    (mulNP f negX posY r).covers (f x y) := by
  obtain ⟨x1, x2⟩ := hx
  obtain ⟨y1, y2⟩ := hy
  rw [hh] at x2; rw [hl] at y1
  simp only [leHi_some, loLe_some] at x2 y1
  simp only [mulNP, hh, hl, Option.getD_some]
  split
  · rename_i a b ha hb
    rw [ha] at x1; rw [hb] at y2
    simp only [loLe_some, leHi_some] at x1 y2
    apply covers_lowerMin_raiseMax
    · exact hf a x y b x1 (by omega) (by omega) y2
    · exact hf x h l y x2 h0 l0 y1
  · apply covers_lowerMin_raiseMax
    · trivial
    · exact hf x h l y x2 h0 l0 y1

theorem mulPN_hit (hf : MonoPN f) {posX negY : IR} {l k x y : Int}
    (hl : posX.lo = some l) (hk : negY.hi = some k) (l0 : 0 < l) (k0 : k < 0)
    (hx : posX.mem x) (hy : negY.mem y) (r : BIP) :
    (mulPN f posX negY r).covers (f x y) := by
  obtain ⟨x1, x2⟩ := hx
  obtain ⟨y1, y2⟩ := hy
  rw [hl] at x1; rw [hk] at y2
  simp only [leHi_some, loLe_some] at x1 y2
  simp only [mulPN, hl, hk, Option.getD_some]
  split
  · rename_i a b ha hb
    rw [ha] at x2; rw [hb] at y1
    simp only [loLe_some, leHi_some] at x2 y1
    apply covers_lowerMin_raiseMax
    · exact hf x a b y (by omega) x2 y1 (by omega)
    · exact hf l x y k l0 x1 y2 k0
  · apply covers_lowerMin_raiseMax
    · trivial
    · exact hf l x y k l0 x1 y2 k0

theorem mulPP_hit (hf : MonoPP f) {posX posY : IR} {l m x y : Int}
    (hl : posX.lo = some l) (hm : posY.lo = some m) (l0 : 0 < l) (m0 : 0 < m)
    (hx : posX.mem x) (hy : posY.mem y) (r : BIP) :
    (mulPP f posX posY r).covers (f x y) := by
  obtain ⟨x1, x2⟩ := hx
  obtain ⟨y1, y2⟩ := hy
  rw [hl] at x1; rw [hm] at y1
  simp only [loLe_some] at x1 y1
  simp only [mulPP, hl, hm, Option.getD_some]
  split
  · rename_i a b ha hb
    rw [ha] at x2; rw [hb] at y2
    simp only [leHi_some] at x2 y2
    apply covers_lowerMin_raiseMax
    · exact hf l x m y l0 x1 m0 y1
    · exact hf x a y b (by omega) x2 (by omega) y2
  · apply covers_lowerMin_raiseMax
    · exact hf l x m y l0 x1 m0 y1
    · trivial

/-- attained-ness of a block whose four corner bounds are finite -/
theorem mulNN_att {S : Int → Prop} {negX negY : IR} {a h b k : Int}
    (ha : negX.lo = some a) (hh : negX.hi = some h) (hb : negY.lo = some b) (hk : negY.hi = some k)
    (s1 : S (f h k)) (s2 : S (f a b)) (r : BIP) (hr : r.att S) : (mulNN f negX negY r).att S := by
  simp only [mulNN, ha, hh, hb, hk, Option.getD_some]
  exact att_raiseMax (att_lowerMin hr s1) s2

theorem mulNP_att {S : Int → Prop} {negX posY : IR} {a h l b : Int}
    (ha : negX.lo = some a) (hh : negX.hi = some h) (hl : posY.lo = some l) (hb : posY.hi = some b)
    (s1 : S (f a b)) (s2 : S (f h l)) (r : BIP) (hr : r.att S) : (mulNP f negX posY r).att S := by
  simp only [mulNP, ha, hh, hl, hb, Option.getD_some]
  exact att_raiseMax (att_lowerMin hr s1) s2

theorem mulPN_att {S : Int → Prop} {posX negY : IR} {l a b k : Int}
    (hl : posX.lo = some l) (ha : posX.hi = some a) (hb : negY.lo = some b) (hk : negY.hi = some k)
    (s1 : S (f a b)) (s2 : S (f l k)) (r : BIP) (hr : r.att S) : (mulPN f posX negY r).att S := by
  simp only [mulPN, ha, hl, hb, hk, Option.getD_some]
  exact att_raiseMax (att_lowerMin hr s1) s2

theorem mulPP_att {S : Int → Prop} {posX posY : IR} {l a m b : Int}
    (hl : posX.lo = some l) (ha : posX.hi = some a) (hm : posY.lo = some m) (hb : posY.hi = some b)
    (s1 : S (f l m)) (s2 : S (f a b)) (r : BIP) (hr : r.att S) : (mulPP f posX posY r).att S := by
  simp only [mulPP, ha, hl, hm, hb, Option.getD_some]
  exact att_raiseMax (att_lowerMin hr s1) s2

end mulBlocks

/-! ### blocks of `TryQuo` -/

theorem quoNN_mono (negX negY : IR) {v : Int} (r : BIP) (h : r.covers v) :
    (quoNN negX negY r).covers v := by
  simp only [quoNN]; split <;> split <;> exact covers_lowerMin _ (covers_raiseMax _ h)

theorem quoNP_mono (negX posY : IR) {v : Int} (r : BIP) (h : r.covers v) :
    (quoNP negX posY r).covers v := by
  simp only [quoNP]; split <;> split <;> exact covers_raiseMax _ (covers_lowerMin _ h)

theorem quoPN_mono (posX negY : IR) {v : Int} (r : BIP) (h : r.covers v) :
    (quoPN posX negY r).covers v := by
  simp only [quoPN]; split <;> split <;> exact covers_raiseMax _ (covers_lowerMin _ h)

theorem quoPP_mono (posX posY : IR) {v : Int} (r : BIP) (h : r.covers v) :
    (quoPP posX posY r).covers v := by
  simp only [quoPP]; split <;> split <;> exact covers_lowerMin _ (covers_raiseMax _ h)

theorem quoNN_hit {negX negY : IR} {h k x y : Int}
    (hh : negX.hi = some h) (hk : negY.hi = some k) (h0 : h < 0) (k0 : k < 0)
    (hx : negX.mem x) (hy : negY.mem y) (r : BIP) :
    (quoNN negX negY r).covers (Int.tdiv x y) := by
  obtain ⟨x1, x2⟩ := hx
  obtain ⟨y1, y2⟩ := hy
  rw [hh] at x2; rw [hk] at y2
  simp only [leHi_some] at x2 y2
  simp only [quoNN, hh, hk, Option.getD_some, bigQuo]
  cases ha : negX.lo <;> cases hb : negY.lo <;> rw [ha] at x1 <;> rw [hb] at y1 <;>
    simp only [loLe_some, loLe_none] at x1 y1 <;> apply covers_raiseMax_lowerMin <;>
    simp only [BI.le, BI.ge] <;>
    first | trivial | (apply tdiv_nonneg_NN <;> omega) | (apply tdiv_monoNN <;> omega)

theorem quoNP_hit {negX posY : IR} {h l x y : Int}
    (hh : negX.hi = some h) (hl : posY.lo = some l) (h0 : h < 0) (l0 : 0 < l)
    (hx : negX.mem x) (hy : posY.mem y) (r : BIP) :
    (quoNP negX posY r).covers (Int.tdiv x y) := by
  obtain ⟨x1, x2⟩ := hx
  obtain ⟨y1, y2⟩ := hy
  rw [hh] at x2; rw [hl] at y1
  simp only [leHi_some, loLe_some] at x2 y1
  simp only [quoNP, hh, hl, Option.getD_some, bigQuo]
  cases ha : negX.lo <;> cases hb : posY.hi <;> rw [ha] at x1 <;> rw [hb] at y2 <;>
    simp only [loLe_some, loLe_none, leHi_some, leHi_none] at x1 y2 <;>
    apply covers_lowerMin_raiseMax <;> simp only [BI.le, BI.ge] <;>
    first | trivial | (apply tdiv_nonpos_NP <;> omega) | (apply tdiv_monoNP <;> omega)

theorem quoPN_hit {posX negY : IR} {l k x y : Int}
    (hl : posX.lo = some l) (hk : negY.hi = some k) (l0 : 0 < l) (k0 : k < 0)
    (hx : posX.mem x) (hy : negY.mem y) (r : BIP) :
    (quoPN posX negY r).covers (Int.tdiv x y) := by
  obtain ⟨x1, x2⟩ := hx
  obtain ⟨y1, y2⟩ := hy
  rw [hl] at x1; rw [hk] at y2
  simp only [leHi_some, loLe_some] at x1 y2
  simp only [quoPN, hl, hk, Option.getD_some, bigQuo]
  cases ha : posX.hi <;> cases hb : negY.lo <;> rw [ha] at x2 <;> rw [hb] at y1 <;>
    simp only [loLe_some, loLe_none, leHi_some, leHi_none] at x2 y1 <;>
    apply covers_lowerMin_raiseMax <;> simp only [BI.le, BI.ge] <;>
    first | trivial | (apply tdiv_nonpos_PN <;> omega) | (apply tdiv_monoPN <;> omega)

theorem quoPP_hit {posX posY : IR} {l m x y : Int}
    (hl : posX.lo = some l) (hm : posY.lo = some m) (l0 : 0 < l) (m0 : 0 < m)
    (hx : posX.mem x) (hy : posY.mem y) (r : BIP) :
    (quoPP posX posY r).covers (Int.tdiv x y) := by
  obtain ⟨x1, x2⟩ := hx
  obtain ⟨y1, y2⟩ := hy
  rw [hl] at x1; rw [hm] at y1
  simp only [loLe_some] at x1 y1
  simp only [quoPP, hl, hm, Option.getD_some, bigQuo]
  cases ha : posX.hi <;> cases hb : posY.hi <;> rw [ha] at x2 <;> rw [hb] at y2 <;>
    simp only [leHi_some, leHi_none] at x2 y2 <;>
    apply covers_raiseMax_lowerMin <;> simp only [BI.le, BI.ge] <;>
    first | trivial | (apply tdiv_nonneg_PP <;> omega) | (apply tdiv_monoPP <;> omega)

theorem quoNN_att {S : Int → Prop} {negX negY : IR} {a h b k : Int}
    (ha : negX.lo = some a) (hh : negX.hi = some h) (hb : negY.lo = some b) (hk : negY.hi = some k)
    (s1 : S (Int.tdiv a k)) (s2 : S (Int.tdiv h b)) (r : BIP) (hr : r.att S) :
    (quoNN negX negY r).att S := by
  simp only [quoNN, ha, hh, hb, hk, Option.getD_some, bigQuo]
  exact att_lowerMin (att_raiseMax hr s1) s2

theorem quoNP_att {S : Int → Prop} {negX posY : IR} {a h l b : Int}
    (ha : negX.lo = some a) (hh : negX.hi = some h) (hl : posY.lo = some l) (hb : posY.hi = some b)
    (s1 : S (Int.tdiv a l)) (s2 : S (Int.tdiv h b)) (r : BIP) (hr : r.att S) :
    (quoNP negX posY r).att S := by
  simp only [quoNP, ha, hh, hl, hb, Option.getD_some, bigQuo]
  exact att_raiseMax (att_lowerMin hr s1) s2

theorem quoPN_att {S : Int → Prop} {posX negY : IR} {l a b k : Int}
    (hl : posX.lo = some l) (ha : posX.hi = some a) (hb : negY.lo = some b) (hk : negY.hi = some k)
    (s1 : S (Int.tdiv a k)) (s2 : S (Int.tdiv l b)) (r : BIP) (hr : r.att S) :
    (quoPN posX negY r).att S := by
  simp only [quoPN, ha, hl, hb, hk, Option.getD_some, bigQuo]
  exact att_raiseMax (att_lowerMin hr s1) s2

theorem quoPP_att {S : Int → Prop} {posX posY : IR} {l a m b : Int}
    (hl : posX.lo = some l) (ha : posX.hi = some a) (hm : posY.lo = some m) (hb : posY.hi = some b)
    (s1 : S (Int.tdiv a m)) (s2 : S (Int.tdiv l b)) (r : BIP) (hr : r.att S) :
    (quoPP posX posY r).att S := by
  simp only [quoPP, ha, hl, hm, hb, Option.getD_some, bigQuo]
  exact att_lowerMin (att_raiseMax hr s1) s2

/-! ### blocks of `TryRsh` -/

theorem rshN_mono (negX y : IR) {v : Int} (r : BIP) (h : r.covers v) :
    (rshN negX y r).covers v := by
  simp only [rshN]; split <;> split <;> exact covers_raiseMax _ (covers_lowerMin _ h)

theorem rshP_mono (posX y : IR) {v : Int} (r : BIP) (h : r.covers v) :
    (rshP posX y r).covers v := by
  simp only [rshP]; split <;> split <;> exact covers_raiseMax _ (covers_lowerMin _ h)

theorem rshN_hit {negX Y : IR} {h yl x y : Int}
    (hh : negX.hi = some h) (hyl : Y.lo = some yl) (h0 : h < 0)
    (hx : negX.mem x) (hy : Y.mem y) (r : BIP) :
    (rshN negX Y r).covers (bigRsh x y) := by
  obtain ⟨x1, x2⟩ := hx
  obtain ⟨y1, y2⟩ := hy
  rw [hh] at x2; rw [hyl] at y1
  simp only [leHi_some, loLe_some] at x2 y1
  simp only [rshN, hh, hyl, Option.getD_some]
  cases ha : negX.lo <;> cases hb : Y.hi <;> rw [ha] at x1 <;> rw [hb] at y2 <;>
    simp only [loLe_some, loLe_none, leHi_some, leHi_none] at x1 y2 <;>
    apply covers_lowerMin_raiseMax <;> simp only [BI.le, BI.ge] <;>
    first | trivial | (apply rsh_neg; omega) | (apply rsh_monoN <;> omega)

theorem rshP_hit {posX Y : IR} {l yl x y : Int}
    (hl : posX.lo = some l) (hyl : Y.lo = some yl) (l0 : 0 < l)
    (hx : posX.mem x) (hy : Y.mem y) (r : BIP) :
    (rshP posX Y r).covers (bigRsh x y) := by
  obtain ⟨x1, x2⟩ := hx
  obtain ⟨y1, y2⟩ := hy
  rw [hl] at x1; rw [hyl] at y1
  simp only [leHi_some, loLe_some] at x1 y1
  simp only [rshP, hl, hyl, Option.getD_some]
  cases ha : posX.hi <;> cases hb : Y.hi <;> rw [ha] at x2 <;> rw [hb] at y2 <;>
    simp only [leHi_some, leHi_none] at x2 y2 <;>
    apply covers_lowerMin_raiseMax <;> simp only [BI.le, BI.ge] <;>
    first | trivial | (apply rsh_nonneg; omega) | (apply rsh_monoP <;> omega)

theorem rshN_att {S : Int → Prop} {negX Y : IR} {a h yl yh : Int}
    (ha : negX.lo = some a) (hh : negX.hi = some h) (hyl : Y.lo = some yl) (hyh : Y.hi = some yh)
    (s1 : S (bigRsh a yl)) (s2 : S (bigRsh h yh)) (r : BIP) (hr : r.att S) :
    (rshN negX Y r).att S := by
  simp only [rshN, ha, hh, hyl, hyh, Option.getD_some]
  exact att_raiseMax (att_lowerMin hr s1) s2

theorem rshP_att {S : Int → Prop} {posX Y : IR} {l a yl yh : Int}
    (hl : posX.lo = some l) (ha : posX.hi = some a) (hyl : Y.lo = some yl) (hyh : Y.hi = some yh)
    (s1 : S (bigRsh l yh)) (s2 : S (bigRsh a yl)) (r : BIP) (hr : r.att S) :
    (rshP posX Y r).att S := by
  simp only [rshP, ha, hl, hyl, hyh, Option.getD_some]
  exact att_raiseMax (att_lowerMin hr s1) s2

end WuffsVerif.Interval
