/-
Well-formedness of the ASTs built by `Model/Parse.lean`, part 2: the operator tables, the
fuel-bounded loops and the expression / type-expression cycle.
-/
import WuffsVerif.Proof.ParseWfDefs

namespace WuffsVerif.Parse
open WuffsVerif.Token WuffsVerif.Gen.C11

/-! ## facts about the regenerated operator tables (checked by kernel evaluation) -/

theorem forms_size : unaryFormsArr.size = 176 ∧ binaryFormsArr.size = 176 ∧
    associativeFormsArr.size = 176 := by
  decide +kernel

/-- 0 = structural operator (`0 ( [ .. . ,`), 1 / 2 / 3 = unary / binary / associative X-form,
4 = anything else. -/
def opClass (op : Nat) : Nat :=
  if op == 0 || op == IDOpenParen || op == IDDot || op == IDDotDot || op == IDOpenBracket ||
      op == IDComma then 0
  else if isXUnaryOp op then 1 else if isXBinaryOp op then 2
  else if isXAssociativeOp op then 3 else 4

/-- Every unary / binary / associative form in the tables is an X-operator of its own class
(and none of the structural operators). -/
theorem forms_table : ∀ x, x < 176 →
    (unaryForm x ≠ 0 → opClass (unaryForm x) = 1) ∧
    (binaryForm x ≠ 0 → opClass (binaryForm x) = 2) ∧
    (associativeForm x ≠ 0 → opClass (associativeForm x) = 3) := by
  decide +kernel

theorem form_zero_of_ge (x : Nat) (h : 176 ≤ x) :
    unaryForm x = 0 ∧ binaryForm x = 0 ∧ associativeForm x = 0 := by
  obtain ⟨h1, h2, h3⟩ := forms_size
  refine ⟨?_, ?_, ?_⟩
  · unfold unaryForm Array.getD; rw [dif_neg (by omega)]
  · unfold binaryForm Array.getD; rw [dif_neg (by omega)]
  · unfold associativeForm Array.getD; rw [dif_neg (by omega)]

theorem exprOK_of_class (op : Nat) (l r : Node) (p : List Node) :
    (opClass op = 1 → exprOK op l r p = !r.isNil) ∧
    (opClass op = 2 → exprOK op l r p = (!l.isNil && !r.isNil)) ∧
    (opClass op = 3 → exprOK op l r p = decide (2 ≤ p.length)) := by
  unfold opClass exprOK
  refine ⟨?_, ?_, ?_⟩ <;> intro h <;> split at h <;> simp_all <;> (repeat' split at h) <;> simp_all

theorem exprOK_unary (x : Nat) (l r : Node) (p : List Node) (h : unaryForm x ≠ 0)
    (hr : r.isNil = false) : exprOK (unaryForm x) l r p = true := by
  have hx : x < 176 := Nat.lt_of_not_le (fun hc => h (form_zero_of_ge x hc).1)
  rw [(exprOK_of_class _ l r p).1 ((forms_table x hx).1 h), hr]; rfl

theorem exprOK_binary (x : Nat) (l r : Node) (p : List Node) (h : binaryForm x ≠ 0)
    (hl : l.isNil = false) (hr : r.isNil = false) : exprOK (binaryForm x) l r p = true := by
  have hx : x < 176 := Nat.lt_of_not_le (fun hc => h (form_zero_of_ge x hc).2.1)
  rw [(exprOK_of_class _ l r p).2.1 ((forms_table x hx).2.1 h), hl, hr]; rfl

theorem exprOK_assoc (x : Nat) (l r : Node) (p : List Node) (h : associativeForm x ≠ 0)
    (hp : 2 ≤ p.length) : exprOK (associativeForm x) l r p = true := by
  have hx : x < 176 := Nat.lt_of_not_le (fun hc => h (form_zero_of_ge x hc).2.2)
  rw [(exprOK_of_class _ l r p).2.2 ((forms_table x hx).2.2 h)]; simpa using hp

/-! ## the structural operators and the type decorators -/

theorem exprOK_leaf (l r : Node) (p : List Node) : exprOK 0 l r p = true := by simp [exprOK]
theorem exprOK_call (l r : Node) (p : List Node) : exprOK IDOpenParen l r p = !l.isNil := by
  simp [exprOK, IDOpenParen]
theorem exprOK_dot (l r : Node) (p : List Node) : exprOK IDDot l r p = !l.isNil := by
  simp [exprOK, IDOpenParen, IDDot]
theorem exprOK_dotdot (l r : Node) (p : List Node) : exprOK IDDotDot l r p = !l.isNil := by
  simp [exprOK, IDOpenParen, IDDot, IDDotDot]
theorem exprOK_index (l r : Node) (p : List Node) :
    exprOK IDOpenBracket l r p = (!l.isNil && !r.isNil) := by
  simp [exprOK, IDOpenParen, IDDot, IDDotDot, IDOpenBracket]
theorem exprOK_list (l r : Node) (p : List Node) : exprOK IDComma l r p = true := by
  simp [exprOK, IDOpenParen, IDDot, IDDotDot, IDOpenBracket, IDComma]

theorem typeOK_plain (l r : Node) : typeOK 0 l r = r.isNil := by simp [typeOK]
theorem typeOK_array (d : Nat) (l r : Node) (h : d = IDArray ∨ d = IDRoarray) :
    typeOK d l r = (!l.isNil && !r.isNil) := by
  rcases h with rfl | rfl <;> simp [typeOK, IDArray, IDRoarray]
theorem typeOK_inner (d : Nat) (l r : Node)
    (h : d = IDNptr ∨ d = IDPtr ∨ d = IDRoslice ∨ d = IDRotable ∨ d = IDSlice ∨ d = IDTable) :
    typeOK d l r = !r.isNil := by
  rcases h with rfl | rfl | rfl | rfl | rfl | rfl <;>
    simp [typeOK, IDArray, IDRoarray, IDNptr, IDPtr, IDRoslice, IDRotable, IDSlice, IDTable]

end WuffsVerif.Parse
