/-
Helper lemmas for C13: the harness codec (Model/Rac/HCodec.lean) round-trips, i.e. it meets the
`Compress` half of the codec contract under which the Writer theorems are stated.
-/
import WuffsVerif.Model.Rac.HCodec
import WuffsVerif.Proof.RacWriter
set_option linter.unusedSimpArgs false
set_option linter.unusedVariables false
namespace WuffsVerif.Rac.HCodec

/-- forward token list for a run of `z` zeroes -/
def zeroRun : Nat → Nat → Bytes
  | 0, _ => []
  | fuel + 1, z =>
    if z == 0 then [] else
    let k := if z > 256 then 256 else z
    0 :: UInt8.ofNat (k - 1) :: zeroRun fuel (z - k)

theorem zeroRunRev_eq (fuel : Nat) : ∀ (z : Nat) (acc : Bytes),
    zeroRunRev fuel z acc = (zeroRun fuel z).reverse ++ acc := by
  induction fuel with
  | zero => intro z acc; simp [zeroRunRev, zeroRun]
  | succ f ih =>
    intro z acc
    unfold zeroRunRev zeroRun
    split
    · simp
    · simp only [ih, List.reverse_cons, List.append_assoc, List.cons_append, List.nil_append]

/-- forward (non tail recursive) specification of the token encoder -/
def encSpec : Bytes → Nat → Bytes
  | [], z => zeroRun z z
  | x :: xs, z => if x == 0 then encSpec xs (z + 1) else zeroRun z z ++ x :: encSpec xs 0

theorem encodeAux_eq (data : Bytes) : ∀ (z : Nat) (acc : Bytes),
    encodeAux data z acc = acc.reverse ++ encSpec data z := by
  induction data with
  | nil => intro z acc; simp [encodeAux, encSpec, zeroRunRev_eq]
  | cons x xs ih =>
    intro z acc
    unfold encodeAux encSpec
    split
    · exact ih _ _
    · rw [ih, zeroRunRev_eq]; simp

/-- forward specification of the token decoder -/
def decSpec : Bytes → Option Bytes
  | [] => some []
  | x :: xs =>
    if x != 0 then (decSpec xs).map (x :: ·)
    else match xs with
      | [] => none
      | k :: rest => (decSpec rest).map (List.replicate (k.toNat + 1) 0 ++ ·)

theorem decodeAux_eq (n : Nat) : ∀ (toks acc : Bytes), toks.length ≤ n →
    decodeAux toks acc = (decSpec toks).map (acc.reverse ++ ·) := by
  induction n with
  | zero =>
    intro toks acc h
    have : toks = [] := List.eq_nil_of_length_eq_zero (by omega)
    subst this
    simp [decodeAux, decSpec]
  | succ m ih =>
    intro toks acc h
    cases toks with
    | nil => simp [decodeAux, decSpec]
    | cons x xs =>
      by_cases hx : (x != 0) = true
      · have e1 : decodeAux (x :: xs) acc = decodeAux xs (x :: acc) := by
          rw [decodeAux.eq_def]; simp only [hx, ↓reduceIte]
        have e2 : decSpec (x :: xs) = (decSpec xs).map (x :: ·) := by
          rw [decSpec.eq_def]; simp only [hx, ↓reduceIte]
        rw [e1, e2, ih xs _ (by simp at h; omega)]
        cases decSpec xs <;> simp
      · cases xs with
        | nil =>
          rw [decodeAux.eq_def, decSpec.eq_def]; simp only [hx]; rfl
        | cons k rest =>
          have e1 : decodeAux (x :: k :: rest) acc = decodeAux rest (List.replicate (k.toNat + 1) 0 ++ acc) := by
            rw [decodeAux.eq_def]; simp only [hx]; rfl
          have e2 : decSpec (x :: k :: rest) = (decSpec rest).map (List.replicate (k.toNat + 1) 0 ++ ·) := by
            rw [decSpec.eq_def]; simp only [hx]; rfl
          rw [e1, e2, ih rest _ (by simp at h; omega)]
          cases decSpec rest <;> simp

theorem decSpec_zero_cons (k : UInt8) (rest : Bytes) :
    decSpec (0 :: k :: rest) = (decSpec rest).map (List.replicate (k.toNat + 1) 0 ++ ·) := by
  rw [decSpec.eq_def]; rfl

theorem decSpec_nonzero_cons (x : UInt8) (xs : Bytes) (hx : x ≠ 0) :
    decSpec (x :: xs) = (decSpec xs).map (x :: ·) := by
  have : (x != 0) = true := by simpa using hx
  rw [decSpec.eq_def]; simp only [this, ↓reduceIte]

theorem map_id_replicate_zero (o : Option Bytes) : o.map (List.replicate 0 (0 : UInt8) ++ ·) = o := by
  cases o <;> simp

theorem decSpec_zeroRun (fuel : Nat) : ∀ (z : Nat) (rest : Bytes), z ≤ fuel →
    decSpec (zeroRun fuel z ++ rest) = (decSpec rest).map (List.replicate z 0 ++ ·) := by
  induction fuel with
  | zero =>
    intro z rest hz
    have : z = 0 := by omega
    subst this
    simp only [zeroRun, List.nil_append]
    exact (map_id_replicate_zero _).symm
  | succ f ih =>
    intro z rest hz
    unfold zeroRun
    by_cases h0 : (z == 0) = true
    · rw [if_pos h0]
      have : z = 0 := by simpa using h0
      subst this
      simp only [List.nil_append]
      exact (map_id_replicate_zero _).symm
    · rw [if_neg h0]
      have hz0 : z ≠ 0 := by simpa using h0
      have hk : (if z > 256 then 256 else z) ≥ 1 ∧ (if z > 256 then 256 else z) ≤ 256 ∧ (if z > 256 then 256 else z) ≤ z := by
        split <;> omega
      generalize (if z > 256 then 256 else z) = k at *
      obtain ⟨k1, k2, k3⟩ := hk
      simp only [List.cons_append]
      rw [decSpec_zero_cons, ih (z - k) rest (by omega)]
      have hto : (UInt8.ofNat (k - 1)).toNat + 1 = k := by
        rw [UInt8.toNat_ofNat']; omega
      rw [hto]
      cases decSpec rest with
      | none => simp
      | some d =>
        simp only [Option.map_some]
        rw [← List.append_assoc, List.replicate_append_replicate]
        congr 3; omega

theorem decSpec_encSpec (data : Bytes) : ∀ z : Nat,
    decSpec (encSpec data z) = some (List.replicate z 0 ++ data) := by
  induction data with
  | nil =>
    intro z
    have := decSpec_zeroRun z z [] (Nat.le_refl _)
    simpa [encSpec, decSpec] using this
  | cons x xs ih =>
    intro z
    unfold encSpec
    by_cases hx : (x == 0) = true
    · rw [if_pos hx]
      have hx0 : x = 0 := by simpa using hx
      rw [ih, hx0]
      congr 1
      rw [List.replicate_succ']
      simp
    · rw [if_neg hx]
      have hx0 : x ≠ 0 := by simpa using hx
      rw [decSpec_zeroRun z z _ (Nat.le_refl _), decSpec_nonzero_cons x _ hx0, ih]
      simp

/-- the token coder round-trips -/
theorem decodeTokens_encodeTokens (data : Bytes) : decodeTokens (encodeTokens data) = some data := by
  unfold decodeTokens encodeTokens
  rw [encodeAux_eq, decodeAux_eq _ _ _ (Nat.le_refl _)]
  simp [decSpec_encSpec]

end WuffsVerif.Rac.HCodec

namespace WuffsVerif.Rac.HCodec

theorem getU32le_u32le (n : Nat) (rest : Bytes) (h : n < 2 ^ 32) : getU32le (u32le n ++ rest) = n := by
  simp only [getU32le, u32le, List.cons_append, List.nil_append, List.getD_cons_zero, List.getD_cons_succ,
    UInt8.toNat_ofNat', Nat.shiftRight_eq_div_pow]
  omega

/-- the harness codec meets the `Compress` half of the codec contract (for chunks whose token
string is shorter than 2^32 bytes — the width of its length header) -/
theorem hcodec_compress_roundtrip (v : Variant) (p q : Bytes) (rs : List Bytes) (out : CompressOut)
    (h : compress v p q rs = .ok out) (hlen : (encodeTokens (p ++ q)).length < 2 ^ 32) :
    decompress out.compressed = some (p ++ q) := by
  unfold compress at h
  simp only [Except.ok.injEq] at h
  subst h
  simp only
  unfold decompress
  have h4 : (u32le (encodeTokens (p ++ q)).length).length = 4 := rfl
  rw [if_neg (by simp [List.length_append, h4])]
  simp only
  rw [getU32le_u32le _ _ hlen]
  have hdrop : (u32le (encodeTokens (p ++ q)).length ++ encodeTokens (p ++ q)).drop 4 = encodeTokens (p ++ q) := by
    rw [List.drop_append_of_le_length (by rw [h4]; omega)]
    simp [u32le]
  rw [hdrop, if_neg (by omega), List.take_of_length_le (Nat.le_refl _)]
  exact decodeTokens_encodeTokens _

end WuffsVerif.Rac.HCodec
