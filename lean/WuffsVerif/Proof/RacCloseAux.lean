/-
C13: auxiliary facts for the analysis of `ChunkWriter.Close`: page rounding, the tree `gather` builds,
`calcEncodedSize` vs `iszNode`, `io.Copy`.
-/
import WuffsVerif.Proof.RacWStep
namespace WuffsVerif.Rac
open Spec

/-- `isZeroOrAPowerOf2` really means that -/
theorem pow2_of_isPow2 (c : Nat) (h : isZeroOrAPowerOf2 c = true) (hc : c > 0) : c = 2 ^ Nat.log2 c := by
  unfold isZeroOrAPowerOf2 at h
  have hand : c &&& (c - 1) = 0 := by
    rcases Bool.or_eq_true_iff.mp h with h | h
    · have : c = 0 := by simpa using h
      omega
    · simpa using h
  have hlo : 2 ^ Nat.log2 c ≤ c := Nat.log2_self_le (by omega)
  have hhi : c < 2 ^ (Nat.log2 c + 1) := Nat.lt_log2_self
  by_cases heq : c = 2 ^ Nat.log2 c
  · exact heq
  · exfalso
    have h1 : Nat.testBit c (Nat.log2 c) = true :=
      Nat.testBit_of_two_pow_le_and_two_pow_add_one_gt hlo hhi
    have h2 : Nat.testBit (c - 1) (Nat.log2 c) = true :=
      Nat.testBit_of_two_pow_le_and_two_pow_add_one_gt (by omega) (by omega)
    have h3 : Nat.testBit (c &&& (c - 1)) (Nat.log2 c) = true := by
      rw [Nat.testBit_and, h1, h2]; rfl
    rw [hand] at h3
    simp at h3

/-- padding to the next page boundary: `x + padAmount = roundUp x` -/
theorem padAmount_roundUp (cps x : Nat) (h : isZeroOrAPowerOf2 cps = true) (hc : cps > 0) :
    x + padAmount cps x = (x + cps - 1) / cps * cps := by
  have hp := pow2_of_isPow2 cps h hc
  have hmod : x &&& (cps - 1) = x % cps := by
    rw [hp]; exact Nat.and_two_pow_sub_one_eq_mod x _
  unfold padAmount
  have hc0 : (cps == 0) = false := by rw [beq_eq_false_iff_ne]; omega
  rw [hc0, hmod]
  simp only [Bool.false_eq_true, ↓reduceIte]
  obtain ⟨q, r, hx, hr⟩ : ∃ q r, x = cps * q + r ∧ r < cps :=
    ⟨x / cps, x % cps, (Nat.div_add_mod x cps).symm, Nat.mod_lt x hc⟩
  subst hx
  have hm : (cps * q + r) % cps = r := by rw [Nat.mul_add_mod, Nat.mod_eq_of_lt hr]
  rw [hm]
  by_cases hz : r = 0
  · subst hz
    simp only [beq_self_eq_true, ↓reduceIte, Nat.add_zero]
    have e : cps * q + cps - 1 = cps * q + (cps - 1) := by omega
    rw [e, Nat.mul_add_div hc, Nat.div_eq_of_lt (by omega), Nat.add_zero, Nat.mul_comm]
  · have : (r == 0) = false := by simpa using hz
    rw [this]; simp only [Bool.false_eq_true, ↓reduceIte]
    have e : cps * q + r + cps - 1 = cps * (q + 1) + (r - 1) := by
      rw [Nat.mul_add, Nat.mul_one]; omega
    rw [e, Nat.mul_add_div hc, Nat.div_eq_of_lt (by omega), Nat.add_zero, Nat.add_mul, Nat.one_mul, Nat.mul_comm]
    omega

/-! ### more facts about the tree `gather` builds -/

theorem gatherFuel_branch (budget : Nat) (hb : 254 ≤ budget) (fuel : Nat) :
    ∀ nodes : List WNode, nodes ≠ [] → nodes.length ≤ fuel → (∀ o ∈ nodes, LevelNode budget o) →
      (nodes.length ≥ 2 ∨ ∀ o ∈ nodes, o.isBranch = false) →
      (gatherFuel budget fuel nodes).children ≠ [] := by
  induction fuel with
  | zero =>
    intro nodes hne hlen
    cases nodes with
    | nil => exact absurd rfl hne
    | cons a as => simp at hlen
  | succ f ih =>
    intro nodes hne hlen hl h2
    unfold gatherFuel
    have hg := gatherLevel_good budget hb nodes hne hl h2
    have hs := gatherLevel_grouped budget hb nodes hne hl
    split
    · rename_i root hr
      rw [hr] at hs
      obtain ⟨res, rfl⟩ := hs
      simpa [makeBranch, WNode.children] using hne
    · rename_i next hr
      rw [hr] at hg hs
      obtain ⟨g1, g2, g3⟩ := hg
      exact ih next (by intro h; rw [h] at g2; simp at g2) (by omega) g1 (Or.inl g2)

theorem gather_branch (nodes : List WNode) (long : Bool) (hne : nodes ≠ [])
    (hleaf : ∀ o ∈ nodes, o.children = []) : (gather nodes long).children ≠ [] := by
  unfold gather
  refine gatherFuel_branch _ (by split <;> omega) _ nodes hne (by omega) ?_ (Or.inr ?_)
  · intro o ho
    exact ⟨good_of_leaf _ o (hleaf o ho), by intro h; simp [WNode.isBranch, hleaf o ho] at h⟩
  · intro o ho; simp [WNode.isBranch, hleaf o ho]

theorem shapeOKList_iff (cs : List WNode) : ShapeOKList cs ↔ ∀ o ∈ cs, ShapeOK o := by
  induction cs with
  | nil => simp [ShapeOKList]
  | cons o os ih => simp [ShapeOKList, ih]

theorem shape_of_stat (c : Nat) (hv : codecValid c = true) : ∀ n : WNode, Stat c n → ShapeOK n := by
  apply WNode.tree_ind
  intro d cs rs col s t c' ih hs
  simp only [Stat] at hs
  obtain ⟨s1, s2, s3⟩ := hs
  simp only [ShapeOK]
  refine ⟨s2, fun hne => ?_, ?_⟩
  · obtain ⟨e1, e2, _⟩ := s3 hne
    subst e1; exact ⟨hv, e2⟩
  · rw [shapeOKList_iff]
    intro o ho
    by_cases hne : cs = []
    · rw [hne] at ho; simp at ho
    · obtain ⟨_, _, _, _, e5, _⟩ := s3 hne
      exact ih o ho ((statList_iff _ _ _).mp e5 o ho).1

theorem leaves_sum_list (cs : List WNode)
    (h : ∀ o ∈ cs, ((leavesOf o).map WNode.dRangeSize).sum = o.dRangeSize) :
    ((leavesOfList cs).map WNode.dRangeSize).sum = (cs.map WNode.dRangeSize).sum := by
  induction cs with
  | nil => simp [leavesOfList]
  | cons o os iho =>
    simp only [leavesOfList, List.map_append, List.sum_append, List.map_cons, List.sum_cons]
    rw [h o (by simp), iho (fun x hx => h x (by simp [hx]))]

theorem stat_leaves_sum (c : Nat) : ∀ n : WNode, Stat c n →
    ((leavesOf n).map WNode.dRangeSize).sum = n.dRangeSize := by
  apply WNode.tree_ind
  intro d cs rs col s t c' ih hs
  simp only [Stat] at hs
  obtain ⟨s1, s2, s3⟩ := hs
  by_cases hne : cs = []
  · subst hne; simp [leavesOf, WNode.dRangeSize]
  · obtain ⟨_, _, _, e4, e5, _⟩ := s3 hne
    rw [leavesOf_branch _ _ _ _ _ _ _ hne]
    simp only [WNode.dRangeSize]
    rw [e4]
    have hall := (statList_iff _ _ _).mp e5
    exact leaves_sum_list cs (fun o ho => ih o ho (hall o ho).1)

theorem isz_branch (d : Nat) (cs : List WNode) (rs : List Nat) (col s t c : Nat) (h : cs ≠ []) :
    iszNode (.mk d cs rs col s t c) = nodeSize cs rs c + iszList cs := by
  cases cs with
  | nil => exact absurd rfl h
  | cons _ _ => simp [iszNode, nodeSize]

/-- `calcEncodedSize` accumulates exactly the encoded size of the subtree's branch nodes -/
theorem calc_isz (n : WNode) (acc : Nat) (r : Bool) :
    ShapeOK n → (n.calcEncodedSize acc r).2 = acc + iszNode (n.calcEncodedSize acc r).1 := by
  refine WNode.calcEncodedSize.induct
    (fun n acc r => ShapeOK n → (n.calcEncodedSize acc r).2 = acc + iszNode (n.calcEncodedSize acc r).1)
    (fun cs acc => ShapeOKList cs → (calcEncodedSizeList cs acc).2 = acc + iszList (calcEncodedSizeList cs acc).1)
    ?_ ?_ ?_ ?_ ?_ n acc r
  · intro d cs rs col s t c acc r arity h0 hs
    simp only [arity] at h0
    have : cs = [] := by
      cases cs with
      | nil => rfl
      | cons _ _ => simp at h0
    subst this
    have hrs : rs = [] := by
      cases rs with
      | nil => rfl
      | cons _ _ => simp at h0
    subst hrs
    simp [WNode.calcEncodedSize, iszNode]
  · intro d cs rs col s t c acc arity h0 cs' acc1 hcalc ih hs
    simp only [arity] at h0
    simp only [ShapeOK] at hs
    have hne : cs ≠ [] := by
      intro h; have := hs.1 h; subst h; subst this; simp at h0
    have hlen : cs'.length = cs.length := by have := calcList_length cs acc; rw [hcalc] at this; exact this
    have hne' : cs' ≠ [] := by
      intro h; rw [h] at hlen; exact hne (List.eq_nil_of_length_eq_zero hlen.symm)
    rw [calc_branch_end d cs rs col s t c acc hne]
    simp only [hcalc]
    rw [isz_branch _ _ _ _ _ _ _ hne', nodeSize_congr cs cs' rs c hlen]
    have := ih hs.2.2
    rw [hcalc] at this
    simp only at this
    omega
  · intro d cs rs col s t c acc r arity h0 arity2 size hr cs' acc1 hcalc ih hs
    have hr' : r = false := by simpa using hr
    subst hr'
    simp only [arity] at h0
    simp only [ShapeOK] at hs
    have hne : cs ≠ [] := by
      intro h; have := hs.1 h; subst h; subst this; simp at h0
    have hsz : (if codecIsLong c = true then cs.length + rs.length + 1 else cs.length + rs.length) * 16 + 16 =
        nodeSize cs rs c := by
      unfold nodeSize; cases codecIsLong c <;> simp
    simp only [size, arity2, arity] at hcalc ih
    rw [hsz] at hcalc ih
    have hlen : cs'.length = cs.length := by
      have := calcList_length cs (acc + nodeSize cs rs c); rw [hcalc] at this; exact this
    have hne' : cs' ≠ [] := by
      intro h; rw [h] at hlen; exact hne (List.eq_nil_of_length_eq_zero hlen.symm)
    rw [calc_branch_pre d cs rs col s t c acc hne]
    simp only [hcalc]
    rw [isz_branch _ _ _ _ _ _ _ hne', nodeSize_congr cs cs' rs c hlen]
    have := ih hs.2.2
    rw [hcalc] at this
    simp only at this
    omega
  · intro acc _; simp [calcEncodedSizeList, iszList]
  · intro n ns acc n' acc1 hn cs' acc2 hns ih1 ih2 hs
    simp only [ShapeOKList] at hs
    have h1 := ih1 hs.1
    have h2 := ih2 hs.2
    rw [hn] at h1; rw [hns] at h2
    simp only at h1 h2
    simp only [calcEncodedSizeList, hn, hns, iszList]
    omega

theorem nb_last_arity (nw : NodeWriter) (cs : List WNode) (rs : List Nat) (c : Nat) (ok : NodeOK nw cs rs c) :
    ((nodeBytesOf nw cs rs c).getD ((cs.length + rs.length + (codecIsLong c).toNat) * 16 + 16 - 1) 0).toNat =
      cs.length + rs.length + (codecIsLong c).toNat := by
  rw [nb_last nw cs rs c ok.arity]
  have := (cword_flds_at nw cs rs c ok _ (Nat.le_refl _)).2.2.1
  rw [if_neg (Nat.lt_irrefl _)] at this
  have e : 2 * (cs.length + rs.length + (codecIsLong c).toNat) + 1 =
      cs.length + rs.length + (codecIsLong c).toNat + 1 + (cs.length + rs.length + (codecIsLong c).toNat) := by omega
  rw [e, this]

/-- `io.Copy(Writer, TempFile)`: on success all of `rest` was appended to the Writer -/
theorem CW.copyLoop_spec (fuel : Nat) : ∀ (rest : Bytes) (n : Nat) (io : IOSt),
    (CW.copyLoop fuel rest n io).2.2 = none →
      (CW.copyLoop fuel rest n io).1.wBytes = io.wBytes ++ rest ∧ (CW.copyLoop fuel rest n io).2.1 = n + rest.length := by
  induction fuel with
  | zero => intro rest n io h; simp [CW.copyLoop] at h
  | succ f ih =>
    intro rest n io h
    unfold CW.copyLoop at h ⊢
    have ht := IOSt.tick_bytes io
    generalize io.tick = tk at h ht ⊢
    obtain ⟨io1, b⟩ := tk
    cases b with
    | false => simp at h
    | true =>
      simp only [Bool.not_true, Bool.false_eq_true, ↓reduceIte] at h ⊢
      by_cases he : rest.isEmpty = true
      · rw [if_pos he] at h ⊢
        have : rest = [] := by simpa using he
        subst this
        simp only [List.append_nil, List.length_nil, Nat.add_zero]
        exact ⟨ht.1, trivial⟩
      · rw [if_neg he] at h ⊢
        have hwb := IOSt.write_bytes io1 false (rest.take CW.copyBlock)
        generalize io1.write false (rest.take CW.copyBlock) = wr at h hwb ⊢
        obtain ⟨io2, b2⟩ := wr
        cases b2 with
        | false => simp at h
        | true =>
          simp only [Bool.not_true, Bool.false_eq_true, ↓reduceIte] at h ⊢
          obtain ⟨i1, i2⟩ := ih _ _ _ h
          obtain ⟨w1, _⟩ := hwb rfl
          simp only [Bool.false_eq_true, ↓reduceIte] at w1
          refine ⟨?_, ?_⟩
          · rw [i1, w1, ht.1, List.append_assoc, List.take_append_drop]
          · rw [i2, Nat.add_assoc, ← List.length_append, List.take_append_drop]
end WuffsVerif.Rac
