/-
C07 helper, part 7, MODULE D: from what the filling loop of `init_huff` wrote (`FillOK`) and what the
specification's decoder does on the sorted complete code (`CodeFacts`) to what the block loop needs:
`TblOK` (prefix replication of both table levels), `Agree` (the idealised two-level lookup returns the entry of
the symbol the specification decodes) and "no redirect entries when no code is longer than 9 bits".
Core Lean only.
-/
import WuffsVerif.Proof.StdDeflateDynDefs
namespace WuffsVerif.StdDeflate
open WuffsVerif.Flate.Spec (Huff)

namespace D

/-! ### bit fields of the entries -/

theorem redir_eq (top j : Nat) (ht : top < 1024) (hj : j < 8) :
    redirEntry top j = 0x10000009 + top * 256 + j * 16 := by
  unfold redirEntry
  have h0 : 0x10000009 ||| (top <<< 8) ||| (j <<< 4) = 1 <<< 28 ||| (top <<< 8 ||| (j <<< 4 ||| 9)) := by
    rw [show (0x10000009 : Nat) = 1 <<< 28 ||| 9 from by decide]
    ac_rfl
  have h1 : j <<< 4 ||| 9 = j <<< 4 + 9 := (Nat.shiftLeft_add_eq_or_of_lt (by omega : 9 < 2 ^ 4) j).symm
  have h2 : top <<< 8 ||| (j <<< 4 + 9) = top <<< 8 + (j <<< 4 + 9) :=
    (Nat.shiftLeft_add_eq_or_of_lt (by rw [Nat.shiftLeft_eq]; omega) top).symm
  have h3 : 1 <<< 28 ||| (top <<< 8 + (j <<< 4 + 9)) = 1 <<< 28 + (top <<< 8 + (j <<< 4 + 9)) :=
    (Nat.shiftLeft_add_eq_or_of_lt (by rw [Nat.shiftLeft_eq, Nat.shiftLeft_eq]; omega) 1).symm
  rw [h0, h1, h2, h3]
  simp only [Nat.shiftLeft_eq]
  omega

theorem redir_facts (top j : Nat) (ht : top < 1024) (hj : j < 8) :
    redirEntry top j >>> 28 = 1 ∧ redirEntry top j &&& 15 = 9 ∧ (redirEntry top j >>> 4) &&& 0x0F = j ∧
      (redirEntry top j >>> 8) &&& 0xFFFF = top := by
  rw [redir_eq top j ht hj]
  rw [show (15 : Nat) = 2 ^ 4 - 1 from rfl,
    show (0xFFFF : Nat) = 2 ^ 16 - 1 from rfl]
  simp only [Nat.and_two_pow_sub_one_eq_mod, Nat.shiftRight_eq_div_pow]
  omega

theorem or_low (e n : Nat) (he : e &&& 15 = 0) (hn : n ≤ 15) : e ||| n = e + n ∧ e % 16 = 0 := by
  have h16 : e % 16 = 0 := by
    rw [show (15 : Nat) = 2 ^ 4 - 1 from rfl, Nat.and_two_pow_sub_one_eq_mod] at he; exact he
  refine ⟨?_, h16⟩
  obtain ⟨q, rfl⟩ : ∃ q, e = q <<< 4 := ⟨e / 16, by rw [Nat.shiftLeft_eq]; omega⟩
  exact (Nat.shiftLeft_add_eq_or_of_lt (show n < 2 ^ 4 by omega) q).symm

theorem entry_facts (e n : Nat) (he : e &&& 15 = 0) (hn : n ≤ 15) :
    (e ||| n) &&& 15 = n ∧ (e ||| n) >>> 4 = e >>> 4 ∧ (e ||| n) >>> 28 = e >>> 28 := by
  obtain ⟨h1, h2⟩ := or_low e n he hn
  rw [h1, show (15 : Nat) = 2 ^ 4 - 1 from rfl]
  simp only [Nat.and_two_pow_sub_one_eq_mod, Nat.shiftRight_eq_div_pow]
  omega

theorem redir_inj (top j top' j' : Nat) (ht : top < 1024) (hj : j < 8) (ht' : top' < 1024) (hj' : j' < 8)
    (heq : redirEntry top j = redirEntry top' j') : top = top' ∧ j = j' := by
  have a := redir_facts top j ht hj
  have b := redir_facts top' j' ht' hj'
  rw [heq] at a
  exact ⟨a.2.2.2.symm.trans b.2.2.2, a.2.2.1.symm.trans b.2.2.1⟩

/-! ### the specification decoder only looks at the bits of the code it finds -/

theorem decodeBits_prefix (h : Huff) (bit bit' : Nat → Nat) : ∀ (rem len code first index v L : Nat),
    decodeBits h bit rem len code first index = some (v, L) →
    (∀ i, len ≤ i → i < L → bit i = bit' i) →
    decodeBits h bit' rem len code first index = some (v, L) := by
  intro rem
  induction rem with
  | zero => intro len code first index v L hd; simp [decodeBits] at hd
  | succ rem ih =>
    intro len code first index v L hd hb
    have hl := decodeBits_len _ _ _ _ _ _ _ _ _ hd
    simp only [decodeBits] at hd ⊢
    rw [← hb len (Nat.le_refl _) hl.1]
    split at hd
    · rename_i hc; rw [if_pos hc]; exact hd
    · rename_i hc; rw [if_neg hc]
      exact ih _ _ _ _ _ _ hd (fun i h1 h2 => hb i (by omega) h2)

theorem specWin_prefix {h : Huff} {x x' v L : Nat} (hs : specWin h x = some (v, L))
    (hx : x' % 2 ^ L = x % 2 ^ L) : specWin h x' = some (v, L) := by
  unfold specWin at hs ⊢
  apply decodeBits_prefix _ _ _ _ _ _ _ _ _ _ hs
  intro i _ hi
  show x / 2 ^ i % 2 = x' / 2 ^ i % 2
  rw [← mod_pow_bit x L i hi, ← mod_pow_bit x' L i hi, hx]

theorem specWin_len {h : Huff} {x v L : Nat} (hs : specWin h x = some (v, L)) : 1 ≤ L ∧ L ≤ h.maxLen := by
  unfold specWin at hs
  have := decodeBits_len _ _ _ _ _ _ _ _ _ hs
  omega

/-! ### sorted lengths -/

theorem sorted_mono {N : Nat} {ln : Nat → Nat} (hs : Sorted N ln) :
    ∀ t' t, t ≤ t' → t' < N → ln t ≤ ln t' := by
  intro t'
  induction t' with
  | zero => intro t h _; have : t = 0 := by omega
            subst this; exact Nat.le_refl _
  | succ k ih =>
    intro t h1 h2
    by_cases h : t = k + 1
    · subst h; exact Nat.le_refl _
    · exact Nat.le_trans (ih t (by omega) (by omega)) (hs.mono k h2)

/-- windows `i + 2^9 * a` modulo `2^(9+k)` -/
theorem win_mod (i a k : Nat) (hi : i < 2 ^ 9) : (i + 2 ^ 9 * a) % 2 ^ (9 + k) = i + 2 ^ 9 * (a % 2 ^ k) := by
  rw [Nat.pow_add, Nat.mod_mul, Nat.add_mul_mod_self_left, Nat.mod_eq_of_lt hi,
    Nat.add_mul_div_left _ _ (Nat.two_pow_pos 9), Nat.div_eq_of_lt hi, Nat.zero_add]

theorem win_lo (i a : Nat) (hi : i < 2 ^ 9) : (i + 2 ^ 9 * a) % 2 ^ 9 = i := by
  rw [Nat.add_mul_mod_self_left, Nat.mod_eq_of_lt hi]

theorem win_hi (i a j : Nat) (hi : i < 2 ^ 9) (ha : a < 2 ^ j) : (i + 2 ^ 9 * a) / 2 ^ 9 % 2 ^ j = a := by
  rw [Nat.add_mul_div_left _ _ (Nat.two_pow_pos 9), Nat.div_eq_of_lt hi, Nat.zero_add, Nat.mod_eq_of_lt ha]

/-! ### what the table holds at the slots a window selects -/

section
variable {T : Array Nat} {which base N : Nat} {sy ln : Nat → Nat} {h : Huff} {val : Nat → Nat}

theorem slot (hf : FillOK T which base N sy ln) (hc : CodeFacts h N sy ln)
    (hv : ∀ t, t < N → ValOK which base val (sy t)) (x v L : Nat) (hs : specWin h x = some (v, L)) :
    ∃ e, fillVal which base v = some e ∧ e &&& 15 = 0 ∧ e >>> 28 ≠ 1 ∧ e >>> 4 = val v >>> 4 ∧ 1 ≤ L ∧ L ≤ 15 ∧
      L ≤ h.maxLen ∧
      ((L ≤ 9 ∧ L ≤ nbOf (ln (N - 1)) ∧ tget T (x % 2 ^ nbOf (ln (N - 1))) = e ||| L) ∨
       (9 < L ∧ nbOf (ln (N - 1)) = 9 ∧ ∃ top j, tget T (x % 2 ^ 9) = redirEntry top j ∧ 1 ≤ j ∧ L ≤ 9 + j ∧
          j ≤ 6 ∧ top < 1024 ∧ tget T (top + x / 2 ^ 9 % 2 ^ j) = e ||| (L - 9))) := by
  have hlen := specWin_len hs
  obtain ⟨t, ht, rfl, rfl, hcode⟩ := hc.dec x v L hs
  obtain ⟨e, he1, he2, he3, he4⟩ := hv t ht
  have hN := hc.sorted.pos
  have hM : ln t ≤ ln (N - 1) := sorted_mono hc.sorted (N - 1) t (by omega) (by omega)
  have h15 : ln (N - 1) ≤ 15 := hc.sorted.hi (N - 1) (by omega)
  refine ⟨e, he1, he2, he3, he4, hc.sorted.lo t ht, by omega, hlen.2, ?_⟩
  by_cases h9 : ln t ≤ 9
  · left
    refine ⟨h9, ?_, ?_⟩
    · unfold nbOf; split <;> omega
    · rw [hf.direct t ht h9 x hcode]; unfold entryOf; rw [he1]; rfl
  · right
    have h9' : 9 < ln t := by omega
    refine ⟨h9', by unfold nbOf; rw [if_neg (by omega)], ?_⟩
    obtain ⟨top, j, r1, r2, r3, r4, r5, r6, r7⟩ := hf.redirect t ht h9' x hcode
    refine ⟨top, j, r1, r2, r3, by omega, ?_, ?_⟩
    · have := Nat.two_pow_pos j; omega
    · rw [r7]; unfold entryOf; rw [he1]; rfl

theorem slot_redir (hf : FillOK T which base N sy ln) (hc : CodeFacts h N sy ln)
    (hv : ∀ t, t < N → ValOK which base val (sy t)) (x v L : Nat) (hs : specWin h x = some (v, L))
    (hr : isRedirect (tget T (x % 2 ^ nbOf (ln (N - 1))))) :
    ∃ e, fillVal which base v = some e ∧ e &&& 15 = 0 ∧ 9 < L ∧ L ≤ 15 ∧ L ≤ h.maxLen ∧ nbOf (ln (N - 1)) = 9 ∧
      ∃ top j, tget T (x % 2 ^ 9) = redirEntry top j ∧ 1 ≤ j ∧ L ≤ 9 + j ∧
          j ≤ 6 ∧ top < 1024 ∧ tget T (top + x / 2 ^ 9 % 2 ^ j) = e ||| (L - 9) := by
  obtain ⟨e, e1, e2, e3, e4, l1, l15, lm, hcase⟩ := slot hf hc hv x v L hs
  rcases hcase with ⟨h9, hnb, ht⟩ | ⟨h9, hnb, hrest⟩
  · rw [ht] at hr
    unfold isRedirect at hr
    rw [(entry_facts e L e2 l15).2.2] at hr
    exact absurd hr e3
  · exact ⟨e, e1, e2, h9, l15, lm, hnb, hrest⟩

theorem rep1 (hf : FillOK T which base N sy ln) (hc : CodeFacts h N sy ln)
    (hv : ∀ t, t < N → ValOK which base val (sy t)) : Rep T 0 (nbOf (ln (N - 1))) := by
  unfold Rep
  intro i hi
  simp only [Nat.zero_add]
  obtain ⟨v, L, hs⟩ := hc.total i
  obtain ⟨e, e1, e2, e3, e4, l1, l15, lm, hcase⟩ := slot hf hc hv i v L hs
  rcases hcase with ⟨h9, hnb, ht⟩ | ⟨h9, hnb, top, j, ht, j1, jL, j6, t1024, ht2⟩
  · rw [Nat.mod_eq_of_lt hi] at ht
    rw [ht, (entry_facts e L e2 l15).1]
    refine ⟨hnb, ?_⟩
    intro i' hi' hmod
    have hs' := specWin_prefix hs hmod
    obtain ⟨e', e1', _, _, _, _, _, _, hcase'⟩ := slot hf hc hv i' v L hs'
    have : e' = e := by rw [e1] at e1'; exact (Option.some.inj e1').symm
    subst this
    rcases hcase' with ⟨_, _, ht'⟩ | ⟨h9', _⟩
    · rw [Nat.mod_eq_of_lt hi'] at ht'; exact ht'
    · omega
  · rw [hnb] at hi ⊢
    rw [Nat.mod_eq_of_lt hi] at ht
    rw [ht, (redir_facts top j t1024 (by omega)).2.1]
    refine ⟨Nat.le_refl _, ?_⟩
    intro i' hi' hmod
    rw [Nat.mod_eq_of_lt hi', Nat.mod_eq_of_lt hi] at hmod
    rw [hmod, ht]

theorem redir_rep (hf : FillOK T which base N sy ln) (hc : CodeFacts h N sy ln)
    (hv : ∀ t, t < N → ValOK which base val (sy t)) (i : Nat) (hi : i < 2 ^ nbOf (ln (N - 1)))
    (hr : isRedirect (tget T i)) :
    (tget T i &&& 15) + ((tget T i >>> 4) &&& 0x0F) ≤ 15 ∧
      Rep T ((tget T i >>> 8) &&& 0xFFFF) ((tget T i >>> 4) &&& 0x0F) := by
  obtain ⟨v, L, hs⟩ := hc.total i
  have hr' : isRedirect (tget T (i % 2 ^ nbOf (ln (N - 1)))) := by rw [Nat.mod_eq_of_lt hi]; exact hr
  obtain ⟨e, e1, e2, h9, l15, lm, hnb, top, j, ht, j1, jL, j6, t1024, ht2⟩ := slot_redir hf hc hv i v L hs hr'
  rw [hnb] at hi
  rw [Nat.mod_eq_of_lt hi] at ht
  obtain ⟨f1, f2, f3, f4⟩ := redir_facts top j t1024 (by omega)
  rw [ht, f2, f3, f4]
  refine ⟨by omega, ?_⟩
  -- every window whose low 9 bits are `i` goes through this second-level table
  have second : ∀ x v' L', x % 2 ^ 9 = i → specWin h x = some (v', L') →
      ∃ e', fillVal which base v' = some e' ∧ e' &&& 15 = 0 ∧ 9 < L' ∧ L' ≤ 9 + j ∧
        tget T (top + x / 2 ^ 9 % 2 ^ j) = e' ||| (L' - 9) := by
    intro x v' L' hx hs'
    have hrx : isRedirect (tget T (x % 2 ^ nbOf (ln (N - 1)))) := by rw [hnb, hx]; exact hr
    obtain ⟨e', g1, g2, g9, _, _, _, top', j', gt, _, gL, gj6, gt1024, gt2⟩ := slot_redir hf hc hv x v' L' hs' hrx
    rw [hx, ht] at gt
    obtain ⟨rfl, rfl⟩ := redir_inj top j top' j' t1024 (by omega) gt1024 (by omega) gt
    exact ⟨e', g1, g2, g9, gL, gt2⟩
  unfold Rep
  intro i2 hi2
  obtain ⟨v', L', hs'⟩ := hc.total (i + 2 ^ 9 * i2)
  obtain ⟨e', g1, g2, g9, gL, gt⟩ := second _ v' L' (win_lo i i2 hi) hs'
  rw [win_hi i i2 j hi hi2] at gt
  rw [gt, (entry_facts e' (L' - 9) g2 (by omega)).1]
  refine ⟨by omega, ?_⟩
  intro i2' hi2' hmod
  have hmodx : (i + 2 ^ 9 * i2') % 2 ^ L' = (i + 2 ^ 9 * i2) % 2 ^ L' := by
    have e : L' = 9 + (L' - 9) := by omega
    rw [e, win_mod i i2' _ hi, win_mod i i2 _ hi, hmod]
  have hs'' := specWin_prefix hs' hmodx
  obtain ⟨e'', k1, k2, k9, kL, kt⟩ := second _ v' L' (win_lo i i2' hi) hs''
  have : e'' = e' := by rw [g1] at k1; exact (Option.some.inj k1).symm
  subst this
  rw [win_hi i i2' j hi hi2'] at kt
  exact kt

theorem agree (hf : FillOK T which base N sy ln) (hc : CodeFacts h N sy ln)
    (hv : ∀ t, t < N → ValOK which base val (sy t)) : Agree T (nbOf (ln (N - 1))) h val := by
  intro x _ v L hs
  obtain ⟨e, e1, e2, e3, e4, l1, l15, lm, hcase⟩ := slot hf hc hv x v L hs
  rcases hcase with ⟨h9, hnb, ht⟩ | ⟨h9, hnb, top, j, ht, j1, jL, j6, t1024, ht2⟩
  · obtain ⟨f1, f2, f3⟩ := entry_facts e L e2 l15
    have hnr : ¬ isRedirect (e ||| L) := by unfold isRedirect; rw [f3]; exact e3
    have hlk : lookup2 T (nbOf (ln (N - 1))) x = (e ||| L, (e ||| L) &&& 15) := by
      simp only [lookup2, ht, if_neg hnr]
    rw [hlk]
    exact ⟨f1, f2.trans e4⟩
  · obtain ⟨f1, f2, f3, f4⟩ := redir_facts top j t1024 (by omega)
    have hr : isRedirect (redirEntry top j) := f1
    have hlk : lookup2 T (nbOf (ln (N - 1))) x = (e ||| (L - 9), 9 + ((e ||| (L - 9)) &&& 15)) := by
      simp only [lookup2, hnb, ht, if_pos hr, f2, f3, f4, ht2]
    obtain ⟨g1, g2, _⟩ := entry_facts e (L - 9) e2 (by omega)
    rw [hlk]
    exact ⟨by simp only [g1]; omega, g2.trans e4⟩

theorem nored (hf : FillOK T which base N sy ln) (hc : CodeFacts h N sy ln)
    (hv : ∀ t, t < N → ValOK which base val (sy t)) (hm : h.maxLen ≤ 9) (i : Nat)
    (hi : i < 2 ^ nbOf (ln (N - 1))) : ¬ isRedirect (tget T i) := by
  intro hr
  obtain ⟨v, L, hs⟩ := hc.total i
  have hr' : isRedirect (tget T (i % 2 ^ nbOf (ln (N - 1)))) := by rw [Nat.mod_eq_of_lt hi]; exact hr
  obtain ⟨e, e1, e2, h9, l15, lm, _⟩ := slot_redir hf hc hv i v L hs hr'
  omega

end

end D

/-- MODULE D: `FillOK` + `CodeFacts` + well-formed values ⇒ `TblOK` ∧ `Agree` ∧ no redirects for short codes -/
theorem deriveSpec_holds : DeriveSpec := by
  intro T which base N sy ln h val hf hc hv
  exact ⟨⟨D.rep1 hf hc hv, fun i hi hr => D.redir_rep hf hc hv i hi hr⟩, D.agree hf hc hv,
    fun hm i hi => D.nored hf hc hv hm i hi⟩

end WuffsVerif.StdDeflate
