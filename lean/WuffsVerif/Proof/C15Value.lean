/-
C15 — the chunk stream as a function of the file.

`chunkAt o p` is what `NextChunk` returns when it has to find DSpace position `p` from the
root: a function of the file, the claimed size and `p` only.  `next_value` shows that EVERY
`NextChunk` call of a healthy reader — whether it continues inside the current node, walks
into a sibling branch, or re-resolves from the root — returns `chunkAt` of its cursor
(`seekPosition`).  So towards its caller (`rac.Reader`) the `ChunkReader` is a cursor over the
function `chunkAt`: this is what the byte-level theorems (Proof/C15Bytes*.lean) build on.
Core Lean only.
-/
import WuffsVerif.Proof.C15Walk

namespace WuffsVerif.Rac.ChunkReader

/-- what `NextChunk` returns when it resolves DSpace position `p` from the root -/
def chunkAt (o : Reader) (p : Nat) : NextResult :=
  resolvedValue { o with needResolve := true, seekPos := p }

theorem chunkAt_congr {q q' : Reader} (h : SameFile q q') (p : Nat) :
    chunkAt q' p = chunkAt q p :=
  resolvedValue_congr (q := { q with needResolve := true, seekPos := p })
    (q' := { q' with needResolve := true, seekPos := p }) h rfl

theorem ReaderInv.at (r : Reader) (inv : ReaderInv r) (p : Nat) :
    ReaderInv { r with needResolve := true, seekPos := p } :=
  ⟨inv.csize_ge, inv.root, by intro h; cases h⟩

/-- a chunk in the stream comes from a descent that ends on a leaf element containing `p` -/
theorem chunkAt_chunk (r : Reader) (inv : ReaderInv r) (p : Nat) (c : Chunk)
    (h : chunkAt r p = .chunk c) :
    ∃ l, resolveAt r p = .ok l ∧ p < r.dsize ∧ l.Good r.file r.csize r.dsize p ∧
      c = l.node.chunk l.nextChunk l.cBias l.dBias := by
  unfold chunkAt resolvedValue at h
  by_cases hge : p ≥ r.dsize
  · simp only [hge, ↓reduceIte] at h; cases h
  · simp only [hge, ↓reduceIte] at h
    have hr' : Reader.resolve { r with needResolve := true, seekPos := p } = resolveAt r p := rfl
    rw [hr'] at h
    obtain ⟨⟨hok, _, _⟩, _⟩ := resolve_spec _ (inv.at r p) (by show p < r.dsize; omega)
    cases hres : resolveAt r p with
    | fuel => rw [hres] at h; cases h
    | err e => rw [hres] at h; cases h
    | ok l =>
      rw [hres] at h
      simp only at h
      have hg := (hok l (by rw [← hres]; rfl)).1
      exact ⟨l, rfl, by omega, hg, by cases h; rfl⟩

/-- every chunk of the stream is well-formed and contains the position asked for -/
theorem chunkAt_good (r : Reader) (inv : ReaderInv r) (p : Nat) (c : Chunk)
    (h : chunkAt r p = .chunk c) :
    ChunkGood r.csize r.dsize c ∧ c.dLo ≤ p ∧ p < c.dHi := by
  obtain ⟨l, _, _, ⟨linv, li, lleaf, llo, lhi⟩, hc⟩ := chunkAt_chunk r inv p c h
  have hne : l.node.dPtr l.nextChunk < l.node.dPtr (l.nextChunk + 1) := by omega
  have hel : IsElem (landed r l) l.nextChunk c := ⟨li, hne, lleaf, hc⟩
  have hg := isElem_good (r := landed r l) linv hel
  refine ⟨hg.1, ?_, ?_⟩
  · rw [hg.2.1]; exact llo
  · rw [hg.2.2]; exact lhi

/-- the stream is constant on every chunk it contains: asking for any position of a chunk
returns that chunk -/
theorem chunkAt_same (r : Reader) (inv : ReaderInv r) (p x : Nat) (c : Chunk)
    (h : chunkAt r p = .chunk c) (hx1 : c.dLo ≤ x) (hx2 : x < c.dHi) :
    chunkAt r x = .chunk c := by
  obtain ⟨l, hl, hp, ⟨linv, li, lleaf, llo, lhi⟩, hc⟩ := chunkAt_chunk r inv p c h
  have hg := (chunkAt_good r inv p c h).1
  have hlo : c.dLo = l.dBias + l.node.dPtr l.nextChunk := by rw [hc]; rfl
  have hhi : c.dHi = l.dBias + l.node.dPtr (l.nextChunk + 1) := by rw [hc]; rfl
  have s := resolveAt_same r inv p x hp l hl l.nextChunk li lleaf (by omega) (by omega)
  have hl' : ({ l with nextChunk := l.nextChunk } : Landing) = l := rfl
  rw [hl'] at s
  unfold chunkAt resolvedValue
  have hlt : ¬ (x ≥ r.dsize) := by have := hg.2.2.2; omega
  simp only [hlt, ↓reduceIte]
  have hr' : Reader.resolve { r with needResolve := true, seekPos := x } = resolveAt r x := rfl
  rw [hr', s]
  simp only
  rw [hc]

/-- two chunks of the stream are equal or disjoint -/
theorem chunkAt_disjoint (r : Reader) (inv : ReaderInv r) (p q : Nat) (c d : Chunk)
    (hc : chunkAt r p = .chunk c) (hd : chunkAt r q = .chunk d) :
    c = d ∨ c.dHi ≤ d.dLo ∨ d.dHi ≤ c.dLo := by
  have gc := chunkAt_good r inv p c hc
  have gd := chunkAt_good r inv q d hd
  rcases Nat.lt_or_ge c.dLo d.dHi with h1 | h1
  · rcases Nat.lt_or_ge d.dLo c.dHi with h2 | h2
    · -- the ranges overlap in `x = max c.dLo d.dLo`
      left
      have hx1 := chunkAt_same r inv p (max c.dLo d.dLo) c hc (by omega) (by omega)
      have hx2 := chunkAt_same r inv q (max c.dLo d.dLo) d hd (by omega) (by omega)
      rw [hx1] at hx2
      exact NextResult.chunk.inj hx2
    · right; left; exact h2
  · right; right; exact h1

/-- the stream ends exactly at the decompressed size -/
theorem chunkAt_eof (r : Reader) (p : Nat) : chunkAt r p = .eof ↔ r.dsize ≤ p := by
  unfold chunkAt resolvedValue
  constructor
  · intro h
    by_cases hge : p ≥ r.dsize
    · exact hge
    · simp only [hge, ↓reduceIte] at h
      split at h <;> cases h
  · intro h
    have : p ≥ r.dsize := h
    simp only [this, ↓reduceIte]

/-! ## every `NextChunk` call returns `chunkAt` of the cursor -/

/-- the facts about a `ChunkReader` state that its user may rely on between calls; `o` is the
state right after `initialize` -/
structure CRInv (o r : Reader) : Prop where
  inv : ReaderInv r
  landed : LandedInv r
  same : SameFile o r
  ok : r.err = none

theorem next_value_aux (r : Reader) (inv : ReaderInv r) (he : r.err = none) (hl : LandedInv r) :
    r.next.2 = chunkAt r r.seekPos := by
  rw [next_eq_nextLoop r he]
  cases hn : r.needResolve
  · -- walking on inside the current node
    obtain ⟨ninv, hnc, hsp⟩ := inv.cur hn
    have hscan := scan_spec (r.node.arity + 1) r ninv.facts hnc hsp (by omega)
    unfold nextLoop nextPre
    simp only [hn, Bool.false_eq_true, ↓reduceIte]
    revert hscan
    cases hsc : scan (r.node.arity + 1) r with
    | found r' c =>
      simp only
      intro ⟨_, ⟨i, _, hel, _⟩, hlo, _⟩
      obtain ⟨p0, l, hp0, hl1, e1, e2, e3⟩ := hl he hn
      have hg := isElem_good ninv hel
      obtain ⟨hi, hne, hleaf, hc⟩ := hel
      have s1 := resolveAt_same r inv p0 r.seekPos hp0 l hl1 i (by rw [e1]; exact hi)
        (by rw [e1]; exact hleaf) (by rw [e1, e3]; have := hg.2.1; omega)
        (by rw [e1, e3]; have := hg.2.2; have := hg.2.1; omega)
      unfold chunkAt resolvedValue
      have hlt : ¬ (r.seekPos ≥ r.dsize) := by
        have := hg.1.2.2.2; have := hg.1.2.2.1; omega
      simp only [hlt, ↓reduceIte]
      have hr' : Reader.resolve { r with needResolve := true, seekPos := r.seekPos } =
          resolveAt r r.seekPos := rfl
      rw [hr', s1]
      simp only
      rw [hc, e1, e2, e3]
    | done r' =>
      simp only
      intro ⟨hsn, hsp', _⟩
      obtain ⟨s1, s2, s3, s4, s5, s6, s7, s8, s9, s10⟩ := hsn
      have inv'' : ReaderInv { r' with needResolve := true } :=
        ⟨by show 32 ≤ r'.csize; rw [s2]; exact inv.csize_ge,
         root_transfer (r' := { r' with needResolve := true }) ⟨s1, s2, s3, s4, s5⟩ inv.root,
         by intro h; cases h⟩
      have hv := (nextLoop_resolving 1 { r' with needResolve := true } inv''
        (by show r'.err = none; rw [s9]; exact he) rfl).2.1
      rw [hv]
      exact resolvedValue_congr (q := { r with needResolve := true, seekPos := r.seekPos })
        (q' := { r' with needResolve := true }) ⟨s1, s2, s3, s4, s5⟩ hsp'
  · have hv := (nextLoop_resolving 2 r inv he hn).2.1
    rw [hv]
    exact (resolvedValue_congr (q := r)
      (q' := { r with needResolve := true, seekPos := r.seekPos })
      ⟨rfl, rfl, rfl, rfl, rfl⟩ rfl).symm

/-- **next_value.**  What `NextChunk` returns and where it leaves the cursor, for every
reader state that some call sequence reaches: the result is `chunkAt` of the cursor; after a
chunk the cursor is at the chunk's end; at `io.EOF` it does not move; an error is sticky and
is never the model's panic; the Go loop never spins. -/
theorem next_value (o r : Reader) (h : CRInv o r) :
    r.next.2 = chunkAt o r.seekPos ∧
    (∀ c, r.next.2 = .chunk c → CRInv o r.next.1 ∧ r.next.1.seekPos = c.dHi) ∧
    (r.next.2 = .eof → CRInv o r.next.1 ∧ r.next.1.seekPos = r.seekPos) ∧
    (∀ e, r.next.2 = .err e → r.next.1.err = some e ∧ e ≠ .panic) ∧
    r.next.2 ≠ .spin := by
  have g := next_good r h.inv h.ok
  have hl := next_landed r h.inv h.ok h.landed
  refine ⟨?_, ?_, ?_, ?_, g.no_spin⟩
  · rw [next_value_aux r h.inv h.ok h.landed, chunkAt_congr h.same]
  · intro c hc
    obtain ⟨a1, a2, a3, _, _, _, _, a8, _⟩ := g.chunk c hc
    exact ⟨⟨a1, hl, ⟨a3.1.trans h.same.1, a3.2.1.trans h.same.2.1, a3.2.2.1.trans h.same.2.2.1,
      a3.2.2.2.1.trans h.same.2.2.2.1, a3.2.2.2.2.trans h.same.2.2.2.2⟩, a2⟩, a8⟩
  · intro hc
    obtain ⟨a1, a2, a3, _, a5, _⟩ := g.eof hc
    exact ⟨⟨a1, hl, ⟨a3.1.trans h.same.1, a3.2.1.trans h.same.2.1, a3.2.2.1.trans h.same.2.2.1,
      a3.2.2.2.1.trans h.same.2.2.2.1, a3.2.2.2.2.trans h.same.2.2.2.2⟩, a2⟩, a5⟩
  · intro e hc
    refine ⟨g.err e hc, ?_⟩
    intro hp
    rw [hp] at hc
    exact g.no_panic hc

/-- `SeekToChunkContaining(d)`, `d ≥ 0`, moves the cursor and nothing else -/
theorem seek_value (o r : Reader) (h : CRInv o r) (d : Int) (hd : 0 ≤ d) :
    (r.seek d).2 = none ∧ CRInv o (r.seek d).1 ∧ (r.seek d).1.seekPos = d.toNat := by
  have hs : r.seek d = ({ r with needResolve := true, seekPos := d.toNat }, none) := by
    unfold Reader.seek; rw [h.ok]
    have : ¬ d < 0 := by omega
    simp only [this, ↓reduceIte]
  rw [hs]
  refine ⟨rfl, ⟨⟨h.inv.csize_ge, h.inv.root, by intro h; cases h⟩, ?_, h.same, h.ok⟩, rfl⟩
  intro _ hn; cases hn

/-- the state after a successful `initialize` -/
theorem open_crinv (f : File) (claimed : Int) (h : (openReader f claimed).err = none) :
    CRInv (openReader f claimed) (openReader f claimed) := by
  refine ⟨openReader_inv f claimed h, ?_, ⟨rfl, rfl, rfl, rfl, rfl⟩, h⟩
  intro he hn
  exfalso
  by_cases hc : claimed < 32
  · simp [openReader, hc, Reader.failed_err] at he
  cases hfr : findRootNode f claimed.toNat with
  | error e => simp [openReader, hc, hfr, Reader.failed_err] at he
  | ok p =>
    obtain ⟨off, n⟩ := p
    by_cases hver : (n.version != 1) = true
    · simp [openReader, hc, hfr, hver, Reader.failed_err] at he
    · simp [openReader, hc, hfr, hver] at hn

end WuffsVerif.Rac.ChunkReader
