/-
C13: the bytes of an encoded RAC branch node (`encodeNode`), window by window, and the bit fields of each word.
-/
import WuffsVerif.Proof.RacNodeWords
import WuffsVerif.Proof.RacCrc
namespace WuffsVerif.Rac
open Spec

/-- bytes 6 and 7 of the 8-byte window at `off` -/
theorem byte67_u64At (l : Bytes) (off : Nat) (h : off + 8 ≤ l.length) :
    byte6 (u64At l off) = (l.getD (off + 6) 0).toNat ∧ byte7 (u64At l off) = (l.getD (off + 7) 0).toNat := by
  have hm : (l.drop off).length ≥ 8 := by simp; omega
  have g6 : l.getD (off + 6) 0 = (l.drop off).getD 6 0 := by
    simp [List.getD_eq_getElem?_getD, List.getElem?_drop]
  have g7 : l.getD (off + 7) 0 = (l.drop off).getD 7 0 := by
    simp [List.getD_eq_getElem?_getD, List.getElem?_drop]
  rw [u64At_eq, g6, g7]
  generalize l.drop off = m at hm
  match m, hm with
  | a0 :: a1 :: a2 :: a3 :: a4 :: a5 :: a6 :: a7 :: rest, _ =>
    have := a0.toNat_lt; have := a1.toNat_lt; have := a2.toNat_lt; have := a3.toNat_lt
    have := a4.toNat_lt; have := a5.toNat_lt; have := a6.toNat_lt; have := a7.toNat_lt
    simp [leVal, byte6, byte7, Nat.shiftRight_eq_div_pow]
    omega

/-- overwriting the first 6 bytes does not change the later 8-byte windows -/
theorem u64At_hdr (hdr buf : Bytes) (hh : hdr.length = 6) (i : Nat) (hi : 1 ≤ i) :
    u64At (hdr ++ buf.drop 6) (8 * i) = u64At buf (8 * i) := by
  rw [u64At_eq, u64At_eq, List.drop_append, List.drop_of_length_le (by omega), List.nil_append, List.drop_drop, hh]
  congr 3; omega

theorem getD_hdr (hdr buf : Bytes) (hh : hdr.length = 6) (i : Nat) (hi : 6 ≤ i) :
    (hdr ++ buf.drop 6).getD i 0 = buf.getD i 0 := by
  simp only [List.getD_eq_getElem?_getD]
  rw [List.getElem?_append_right (by omega), List.getElem?_drop, hh]
  congr 2; omega

/-- the 16-bit checksum bytes, as the spec recomputes them -/
theorem checksum_bytes (x : UInt32) :
    ((x ^^^ (x >>> 16)).toUInt8).toNat + 256 * (((x ^^^ (x >>> 16)) >>> 8).toUInt8).toNat =
      (x.toNat % 65536) ^^^ (x.toNat / 65536) := by
  have hx := x.toNat_lt
  simp only [UInt32.toNat_toUInt8, UInt32.toNat_shiftRight, UInt32.toNat_xor]
  have e1 : (16 : UInt32).toNat % 32 = 16 := by decide
  have e2 : (8 : UInt32).toNat % 32 = 8 := by decide
  rw [e1, e2]
  have h16 : x.toNat >>> 16 = x.toNat / 65536 := by rw [Nat.shiftRight_eq_div_pow]
  rw [h16]
  have hlt : x.toNat / 65536 < 65536 := by omega
  have key : (x.toNat ^^^ x.toNat / 65536) % 65536 = x.toNat % 65536 ^^^ x.toNat / 65536 := by
    have := @Nat.xor_mod_two_pow x.toNat (x.toNat / 65536) 16
    rw [show (2:Nat)^16 = 65536 from rfl] at this
    rw [this, Nat.mod_eq_of_lt hlt]
  rw [← key]
  generalize x.toNat ^^^ x.toNat / 65536 = y
  rw [Nat.shiftRight_eq_div_pow]; omega

/-! ### the bytes of an encoded node -/

def nodeBuf (nw : NodeWriter) (cs : List WNode) (rs : List Nat) (c : Nat) : Bytes :=
  ((nodeWordsOf nw cs rs c).map putU64LE).flatten

/-- what `encodeNode` emits for a node with children `cs`, resources `rs`, codec `c` -/
def nodeBytesOf (nw : NodeWriter) (cs : List WNode) (rs : List Nat) (c : Nat) : Bytes :=
  let body := (nodeBuf nw cs rs c).drop 6
  let checksum := crc32 body
  let checksum := checksum ^^^ (checksum >>> 16)
  [0x72, 0xC3, 0x63, UInt8.ofNat (cs.length + rs.length + (codecIsLong c).toNat),
    checksum.toUInt8, (checksum >>> 8).toUInt8] ++ body

theorem encodeNode_eq' (nw : NodeWriter) (n : WNode) (hv : codecValid n.codec = true)
    (ha : n.children.length + n.resources.length + (codecIsLong n.codec).toNat ≤ 0xFF) :
    encodeNode nw n = .ok (nodeBytesOf nw n.children n.resources n.codec) :=
  encodeNode_eq nw n hv ha

section nb
variable (nw : NodeWriter) (cs : List WNode) (rs : List Nat) (c : Nat)

theorem nodeBuf_length : (nodeBuf nw cs rs c).length = (cs.length + rs.length + (codecIsLong c).toNat) * 16 + 16 := by
  rw [nodeBuf, flatten_words_length, nodeWordsOf_length]; omega

theorem nodeBytesOf_length : (nodeBytesOf nw cs rs c).length = (cs.length + rs.length + (codecIsLong c).toNat) * 16 + 16 := by
  simp only [nodeBytesOf, List.length_append, List.length_drop, nodeBuf_length, List.length_cons, List.length_nil]
  omega

theorem nodeBytesOf_eq : ∃ hdr : Bytes, hdr.length = 6 ∧ nodeBytesOf nw cs rs c = hdr ++ (nodeBuf nw cs rs c).drop 6 :=
  ⟨_, rfl, rfl⟩

/-- 8-byte window `e ≥ 1` of the node = word `e` -/
theorem nb_word (e : Nat) (he : 1 ≤ e) :
    u64At (nodeBytesOf nw cs rs c) (8 * e) = (nodeWordsOf nw cs rs c).getD e 0 % 2 ^ 64 := by
  obtain ⟨hdr, hh, heq⟩ := nodeBytesOf_eq nw cs rs c
  rw [heq, u64At_hdr hdr _ hh e he, nodeBuf, u64At_words]

/-- bytes 6 and 7 of window `e` (any `e` inside the node) -/
theorem nb_b67 (e : Nat) (he : e < 2 * (cs.length + rs.length + (codecIsLong c).toNat) + 2) :
    byte6 (u64At (nodeBytesOf nw cs rs c) (8 * e)) = byte6 ((nodeWordsOf nw cs rs c).getD e 0) ∧
    byte7 (u64At (nodeBytesOf nw cs rs c) (8 * e)) = byte7 ((nodeWordsOf nw cs rs c).getD e 0) := by
  obtain ⟨hdr, hh, heq⟩ := nodeBytesOf_eq nw cs rs c
  have hl := nodeBytesOf_length nw cs rs c
  have hb := nodeBuf_length nw cs rs c
  have h1 := byte67_u64At (nodeBytesOf nw cs rs c) (8 * e) (by omega)
  have h2 := byte67_u64At (nodeBuf nw cs rs c) (8 * e) (by omega)
  rw [heq] at h1
  rw [getD_hdr hdr _ hh _ (by omega), getD_hdr hdr _ hh _ (by omega), ← heq] at h1
  rw [h1.1, h1.2, ← h2.1, ← h2.2, nodeBuf, u64At_words]
  exact ⟨(fields_mod _).2.1, (fields_mod _).2.2⟩

theorem nb_take3 : (nodeBytesOf nw cs rs c).take 3 = [0x72, 0xC3, 0x63] := rfl
theorem nb_get3 (h : cs.length + rs.length + (codecIsLong c).toNat ≤ 255) :
    ((nodeBytesOf nw cs rs c).getD 3 0).toNat = cs.length + rs.length + (codecIsLong c).toNat := by
  simp only [nodeBytesOf, List.cons_append, List.getD_cons_succ, List.getD_cons_zero, UInt8.toNat_ofNat']
  omega

theorem nb_checksum :
    ((nodeBytesOf nw cs rs c).getD 4 0).toNat + 256 * ((nodeBytesOf nw cs rs c).getD 5 0).toNat =
      (Spec.crc32 ((nodeBytesOf nw cs rs c).drop 6) % 65536) ^^^ (Spec.crc32 ((nodeBytesOf nw cs rs c).drop 6) / 65536) := by
  have hd : (nodeBytesOf nw cs rs c).drop 6 = (nodeBuf nw cs rs c).drop 6 := rfl
  rw [hd, ← crc32_eq_spec]
  simp only [nodeBytesOf, List.cons_append, List.getD_cons_succ, List.getD_cons_zero]
  exact checksum_bytes _

theorem nb_last (h : cs.length + rs.length + (codecIsLong c).toNat ≤ 255) :
    ((nodeBytesOf nw cs rs c).getD ((cs.length + rs.length + (codecIsLong c).toNat) * 16 + 16 - 1) 0).toNat =
      byte7 ((nodeWordsOf nw cs rs c).getD (2 * (cs.length + rs.length + (codecIsLong c).toNat) + 1) 0) := by
  have hl := nodeBytesOf_length nw cs rs c
  have h1 := byte67_u64At (nodeBytesOf nw cs rs c) (8 * (2 * (cs.length + rs.length + (codecIsLong c).toNat) + 1)) (by omega)
  have e : (cs.length + rs.length + (codecIsLong c).toNat) * 16 + 16 - 1 =
      8 * (2 * (cs.length + rs.length + (codecIsLong c).toNat) + 1) + 7 := by omega
  rw [e, ← h1.2]
  exact (nb_b67 nw cs rs c _ (by omega)).2
end nb

/-! ### the fields of each word -/

/-- `low48`, `byte6`, `byte7` of a word -/
def Flds (v x l t : Nat) : Prop := low48 v = x ∧ byte6 v = l ∧ byte7 v = t ∧ v < 2 ^ 64

theorem flds_sum (x l t : Nat) (hx : x < 2 ^ 48) (hl : l < 256) (ht : t < 256) :
    Flds (x + l * 2 ^ 48 + t * 2 ^ 56) x l t := fields_of_sum x l t hx hl ht

theorem tagFF_eq : tagFF = 255 * 2 ^ 56 := by decide

theorem resourceToTagByte_lt (rs : List Nat) (r tb : Nat) (h : rs.length + tb ≤ 255) :
    resourceToTagByte rs r tb < 256 := by
  unfold resourceToTagByte
  split
  · split
    · rename_i i hi
      have hlt : i < rs.length := by
        unfold List.idxOf? at hi
        exact (List.findIdx?_eq_some_iff_getElem.mp hi).1
      omega
    · omega
  · omega

/-- the tag byte of a child's D-word -/
def childTTag (rs : List Nat) (tb : Nat) (o : WNode) : Nat :=
  if o.isBranch then 0xFE else resourceToTagByte rs o.tertiary tb

theorem childDWord_flds (rs : List Nat) (tb : Nat) (o : WNode) (dPtr : Nat) (hd : dPtr < 2 ^ 48)
    (h : rs.length + tb ≤ 255) : Flds (childDWord rs tb o dPtr) dPtr 0 (childTTag rs tb o) := by
  have ht : childTTag rs tb o < 256 := by
    unfold childTTag; split
    · omega
    · exact resourceToTagByte_lt rs _ tb h
  have e : childDWord rs tb o dPtr = dPtr + 0 * 2 ^ 48 + childTTag rs tb o * 2 ^ 56 := by
    unfold childDWord childTTag
    have hd' : dPtr < 2 ^ 56 := by omega
    split
    · rw [or_shift_eq_add _ _ _ hd'] <;> omega
    · unfold resourceToTag; rw [or_shift_eq_add _ _ _ hd'] <;> omega
  rw [e]; exact flds_sum _ _ _ hd (by omega) ht

/-- a `COffset|CLength` value plus a bias, tagged -/
theorem cword_flds (col bias t : Nat) (hc : col < 2 ^ 56) (hb : col % 2 ^ 48 + bias < 2 ^ 48) (ht : t < 256) :
    Flds ((col + bias) ||| (t <<< 56)) (col % 2 ^ 48 + bias) (col / 2 ^ 48) t := by
  have e : (col + bias) ||| (t <<< 56) = (col % 2 ^ 48 + bias) + (col / 2 ^ 48) * 2 ^ 48 + t * 2 ^ 56 := by
    rw [or_shift_eq_add _ _ _ (by omega)]; omega
  rw [e]; exact flds_sum _ _ _ hb (by omega) ht

theorem childCWord_flds (nw : NodeWriter) (rs : List Nat) (tb : Nat) (o : WNode)
    (hc : o.cOffsetCLength < 2 ^ 56)
    (hb : o.cOffsetCLength % 2 ^ 48 + (if o.isBranch then nw.indexCOffset else nw.dataCOffset) < 2 ^ 48)
    (h : rs.length + tb ≤ 255) :
    Flds (childCWord nw rs tb o)
      (o.cOffsetCLength % 2 ^ 48 + (if o.isBranch then nw.indexCOffset else nw.dataCOffset))
      (o.cOffsetCLength / 2 ^ 48) (resourceToTagByte rs o.secondary tb) := by
  unfold childCWord resourceToTag
  split
  · rename_i hbr; simp only [hbr, ↓reduceIte] at hb
    exact cword_flds _ _ _ hc hb (resourceToTagByte_lt rs _ tb h)
  · rename_i hbr; simp only [hbr, Bool.false_eq_true, ↓reduceIte] at hb
    exact cword_flds _ _ _ hc hb (resourceToTagByte_lt rs _ tb h)

theorem resCWord_flds (x dco : Nat) (hc : x < 2 ^ 56) (hb : x % 2 ^ 48 + dco < 2 ^ 48) :
    Flds ((x + dco) ||| tagFF) (x % 2 ^ 48 + dco) (x / 2 ^ 48) 255 := by
  have := cword_flds x dco 255 hc hb (by omega)
  rwa [show (255 <<< 56) = tagFF from by decide] at this

theorem tagFF_flds : Flds tagFF 0 0 255 := by
  have := flds_sum 0 0 255 (by omega) (by omega) (by omega)
  rw [tagFF_eq]; simpa using this

theorem codecElem_flds : Flds 0xFD00000000000000 0 0 0xFD := by
  have := flds_sum 0 0 0xFD (by omega) (by omega) (by omega)
  simpa using this

/-- the Codec Byte: the top byte of the codec value -/
theorem codecHigh (c : Nat) : c &&& 0xFF00000000000000 = (c / 2 ^ 56 % 256) * 2 ^ 56 := by
  have h1 : (c &&& 0xFF00000000000000) % 2 ^ 56 = 0 := by
    rw [Nat.and_mod_two_pow]; simp
  have h2 : (c &&& 0xFF00000000000000) / 2 ^ 56 = c / 2 ^ 56 % 256 := by
    rw [Nat.and_div_two_pow]
    have : (0xFF00000000000000 : Nat) / 2 ^ 56 = 2 ^ 8 - 1 := by decide
    rw [this, Nat.and_two_pow_sub_one_eq_mod]
  omega

theorem dmaxWord_flds (dsum c : Nat) (hd : dsum < 2 ^ 48) :
    Flds (dsum ||| (c &&& 0xFF00000000000000)) dsum 0 (c / 2 ^ 56 % 256) := by
  rw [codecHigh, ← Nat.shiftLeft_eq, or_shift_eq_add _ _ _ (by omega)]
  have := flds_sum dsum 0 (c / 2 ^ 56 % 256) hd (by omega) (by omega)
  simpa using this

theorem cmaxWord_flds (cfs a : Nat) (hc : cfs < 2 ^ 48) (ha : a < 256) :
    Flds (cfs ||| (0x01 <<< 48) ||| (a <<< 56)) cfs 1 a := by
  rw [or_shift_eq_add _ _ _ hc, or_shift_eq_add _ _ _ (by omega)]
  exact flds_sum cfs 1 a hc (by omega) ha

theorem codecLow (c : Nat) : c &&& 0x00FFFFFFFFFFFFFF = c % 2 ^ 56 := by
  have : (0x00FFFFFFFFFFFFFF : Nat) = 2 ^ 56 - 1 := by decide
  rw [this, Nat.and_two_pow_sub_one_eq_mod]
end WuffsVerif.Rac
