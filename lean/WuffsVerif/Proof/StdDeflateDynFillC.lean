/-
C07 helper (dynamic-Huffman blocks), module FillC: `cnt` arithmetic and the specification of the loop that sizes a
second-level table (`huffSecondBits`).  Core Lean only.
-/
import WuffsVerif.Proof.StdDeflateDynDefs
namespace WuffsVerif.StdDeflate.F

theorem cnt_succ (ln : Nat → Nat) (t k : Nat) :
    cnt (t + 1) ln k = cnt t ln k + (if ln t = k then 1 else 0) := by
  unfold cnt
  rw [List.range_succ, List.filter_append, List.length_append]
  by_cases h : ln t = k <;> simp [List.filter, h]

theorem cnt_mono (ln : Nat → Nat) (k : Nat) {a b : Nat} (hab : a ≤ b) : cnt a ln k ≤ cnt b ln k := by
  induction hab with
  | refl => exact Nat.le_refl _
  | step _ ih => rw [cnt_succ]; omega

theorem c_ks_mono (ln : Nat → Nat) {a b : Nat} (hab : a ≤ b) : kraftSum ln a ≤ kraftSum ln b := by
  induction hab with
  | refl => exact Nat.le_refl _
  | step _ ih => simp only [kraftSum]; exact Nat.le_trans ih (Nat.le_add_right _ _)

theorem c_ks_strict (ln : Nat → Nat) {a b : Nat} (hab : a < b) :
    kraftSum ln a + 2 ^ (15 - ln a) ≤ kraftSum ln b := by
  have := c_ks_mono ln (Nat.succ_le_of_lt hab)
  simpa only [kraftSum] using this

theorem c_ks_run (ln : Nat → Nat) (n j : Nat) : ∀ k, (∀ i, i < k → ln (n + i) = j) →
    kraftSum ln (n + k) = kraftSum ln n + k * 2 ^ (15 - j)
  | 0, _ => by simp
  | k + 1, h => by
    have ih := c_ks_run ln n j k (fun i hi => h i (by omega))
    have hk := h k (by omega)
    rw [← Nat.add_assoc]; simp only [kraftSum]; rw [ih, hk, Nat.add_mul, Nat.one_mul, Nat.add_assoc]

theorem c_ln_mono {N : Nat} {ln : Nat → Nat} (hs : Sorted N ln) {a b : Nat} (hab : a ≤ b) (hb : b < N) :
    ln a ≤ ln b := by
  induction hab with
  | refl => exact Nat.le_refl _
  | step h ih =>
    simp only [Nat.succ_eq_add_one] at *
    have := hs.mono _ hb; have := ih (by omega); omega

theorem c_cnt_none (ln : Nat → Nat) (j t : Nat) {n : Nat} (htn : t ≤ n)
    (h : ∀ t', t ≤ t' → t' < n → ln t' ≠ j) : cnt n ln j = cnt t ln j := by
  induction htn with
  | refl => rfl
  | step hm ih => rw [cnt_succ, ih (fun t' a b => h t' a (by omega)), if_neg (h _ hm (by omega))]; rfl

/-- BLOCK LEMMA: in a sorted sequence, the symbols of length `j` directly follow the symbols of smaller length. -/
theorem c_block {N : Nat} {ln : Nat → Nat} (hs : Sorted N ln) (j : Nat) : ∀ d n, N - n = d → n ≤ N →
    (∀ t', n ≤ t' → t' < N → j ≤ ln t') →
    n + (cnt N ln j - cnt n ln j) ≤ N ∧
    (∀ t', n ≤ t' → t' < n + (cnt N ln j - cnt n ln j) → ln t' = j) ∧
    (∀ t', n + (cnt N ln j - cnt n ln j) ≤ t' → t' < N → j + 1 ≤ ln t')
  | 0, n, hd, hn, h => by
    have : n = N := by omega
    subst this
    simp; constructor <;> (intro t' a b; omega)
  | d+1, n, hd, hn, h => by
    have hnN : n < N := by omega
    have ih := c_block hs j d (n+1) (by omega) (by omega) (fun t' a b => h t' (by omega) b)
    have hm := cnt_mono ln j (show n + 1 ≤ N by omega)
    rw [cnt_succ] at ih hm
    by_cases hj : ln n = j
    · rw [if_pos hj] at ih hm
      have hD : cnt N ln j - cnt n ln j = (cnt N ln j - (cnt n ln j + 1)) + 1 := by omega
      rw [hD]
      obtain ⟨i1, i2, i3⟩ := ih
      refine ⟨by omega, ?_, ?_⟩
      · intro t' a b
        by_cases e : t' = n
        · subst e; exact hj
        · exact i2 t' (by omega) (by omega)
      · intro t' a b; exact i3 t' (by omega) b
    · rw [if_neg hj] at ih hm
      simp only [Nat.add_zero] at ih hm
      obtain ⟨i1, i2, i3⟩ := ih
      have hD : cnt N ln j - cnt n ln j = 0 := by
        apply Classical.byContradiction; intro hne
        have := i2 (n+1) (by omega) (by omega)
        have := hs.mono n (by omega)
        have := h n (by omega) hnN
        omega
      rw [hD]
      refine ⟨by omega, ?_, ?_⟩
      · intro t' a b; omega
      · intro t' a b
        by_cases e : t' = n
        · subst e; have := h t' (by omega) hnN; omega
        · exact i3 t' (by omega) b

/-- the generalised loop statement of `huffSecondBits` -/
theorem c_loop {N : Nat} {ln : Nat → Nat} (hs : Sorted N ln) (c : Array Nat) (t p : Nat) (ht : t < N)
    (hc : ∀ k, 1 ≤ k → k ≤ 15 → c.getD k 0 + cnt t ln k = cnt N ln k)
    (hp : kraftSum ln t = p * 64) :
    ∀ f r j n, t ≤ n → n ≤ N → 1 ≤ j → j ≤ 15 → 16 ≤ f + j → 0 < r →
      r * 2 ^ (15 - j) + kraftSum ln n = (p + 1) * 64 →
      (∀ t', t ≤ t' → t' < n → ln t' < j) → (∀ t', n ≤ t' → t' < N → j ≤ ln t') →
      ∃ J, huffSecondBits c f r j = .ok J ∧ j ≤ J ∧ J ≤ 15 ∧
        (∀ t', t ≤ t' → t' < N → kraftSum ln t' / 64 = p → ln t' ≤ J) ∧
        (∃ tl, tl < N ∧ ln tl = J ∧ kraftSum ln tl / 64 = p)
  | 0, r, j, n, _, _, _, hj, hf, _, _, _, _ => by omega
  | f + 1, r, j, n, htn, hnN, h1, hj, hf, hr, hk, hlt, hge => by
    have hcj : c.getD j 0 = cnt N ln j - cnt n ln j := by
      have := hc j h1 hj
      have := c_cnt_none ln j t htn (fun t' a b => by have := hlt t' a b; omega)
      omega
    obtain ⟨b1, b2, b3⟩ := c_block hs j (N - n) n rfl hnN hge
    generalize hD : cnt N ln j - cnt n ln j = D at hcj b1 b2 b3
    have hrun : ∀ k, k ≤ D → kraftSum ln (n + k) = kraftSum ln n + k * 2 ^ (15 - j) :=
      fun k hk => c_ks_run ln n j k (fun i hi => b2 (n + i) (by omega) (by omega))
    have hPpos : 0 < 2 ^ (15 - j) := Nat.pow_pos (by decide)
    have htN : kraftSum ln t < 32768 := by
      have := c_ks_strict ln ht; rw [hs.complete] at this
      have := Nat.pow_pos (a := 2) (n := 15 - ln t) (by decide); omega
    have hp512 : (p + 1) * 64 ≤ 32768 := by omega
    have hkn : kraftSum ln t ≤ kraftSum ln n := c_ks_mono ln htn
    unfold huffSecondBits
    rw [if_pos hj, hcj]
    by_cases hrD : r ≤ D
    · rw [if_pos hrD]
      refine ⟨j, rfl, Nat.le_refl _, hj, ?_, ?_⟩
      · intro t' a b e
        have hr' := hrun r hrD
        by_cases hlt' : t' < n + r
        · by_cases h' : t' < n
          · exact Nat.le_of_lt (hlt t' a h')
          · exact Nat.le_of_eq (b2 t' (by omega) (by omega))
        · have := c_ks_mono ln (show n + r ≤ t' by omega)
          omega
      · refine ⟨n, by omega, b2 n (Nat.le_refl _) (by omega), ?_⟩
        generalize 2 ^ (15 - j) = P at *
        have : 0 < r * P := Nat.mul_pos hr hPpos
        omega
    · rw [if_neg hrD]
      have hj15 : j < 15 := by
        apply Classical.byContradiction; intro hne
        have : j = 15 := by omega
        subst this
        have hND : n + D = N := by
          apply Classical.byContradiction; intro hne2
          have := b3 (n + D) (Nat.le_refl _) (by omega)
          have := hs.hi (n + D) (by omega)
          omega
        have := hrun D (Nat.le_refl _)
        rw [hND, hs.complete] at this
        have e0 : 2 ^ (15 - 15) = 1 := rfl
        rw [e0] at this hk
        omega
      have hrle : r ≤ 32768 := by
        have : r ≤ r * 2 ^ (15 - j) := Nat.le_mul_of_pos_right _ hPpos
        omega
      have hg : ¬ (r - D > 1 <<< 30) := by
        have : (1 <<< 30 : Nat) = 1073741824 := by decide
        omega
      simp only []
      rw [if_neg hg]
      have hP2 : 2 ^ (15 - j) = 2 * 2 ^ (15 - (j + 1)) := by
        have : 15 - j = (15 - (j+1)) + 1 := by omega
        rw [this, Nat.pow_succ, Nat.mul_comm]
      have hk' : (r - D) <<< 1 * 2 ^ (15 - (j + 1)) + kraftSum ln (n + D) = (p + 1) * 64 := by
        rw [Nat.shiftLeft_eq, hrun D (Nat.le_refl _), Nat.pow_one, Nat.mul_assoc, ← hP2, Nat.sub_mul]
        have : D * 2 ^ (15 - j) ≤ r * 2 ^ (15 - j) := Nat.mul_le_mul_right _ (by omega)
        generalize 2 ^ (15 - j) = P at *
        omega
      have hlt2 : ∀ t', t ≤ t' → t' < n + D → ln t' < j + 1 := by
        intro t' a b
        by_cases h' : t' < n
        · have := hlt t' a h'; omega
        · have := b2 t' (by omega) b; omega
      obtain ⟨J, e1, e2, e3, e4, e5⟩ := c_loop hs c t p ht hc hp f ((r - D) <<< 1) (j + 1) (n + D)
        (by omega) b1 (by omega) (by omega) (by omega) (by rw [Nat.shiftLeft_eq]; omega) hk' hlt2 b3
      exact ⟨J, e1, by omega, e3, e4, e5⟩

theorem secondBits_spec {N : Nat} {ln : Nat → Nat} (hs : Sorted N ln) (c : Array Nat) (t p : Nat) (ht : t < N)
    (h9 : 9 < ln t) (hc : ∀ k, 1 ≤ k → k ≤ 15 → c.getD k 0 + cnt t ln k = cnt N ln k)
    (hp : kraftSum ln t = p * 64) :
    ∃ J, huffSecondBits c 16 (1 <<< (ln t - 9)) (ln t) = .ok J ∧ ln t ≤ J ∧ J ≤ 15 ∧
      (∀ t', t' < N → kraftSum ln t' / 64 = p → ln t' ≤ J) ∧
      (∃ tl, tl < N ∧ ln tl = J ∧ kraftSum ln tl / 64 = p) := by
  have h15 := hs.hi t ht
  have hk : 1 <<< (ln t - 9) * 2 ^ (15 - ln t) + kraftSum ln t = (p + 1) * 64 := by
    rw [Nat.shiftLeft_eq, Nat.one_mul, ← Nat.pow_add, show ln t - 9 + (15 - ln t) = 6 by omega]
    omega
  obtain ⟨J, e1, e2, e3, e4, e5⟩ := c_loop hs c t p ht hc hp 16 (1 <<< (ln t - 9)) (ln t) t
    (Nat.le_refl _) (Nat.le_of_lt ht) (by omega) h15 (by omega)
    (by rw [Nat.shiftLeft_eq, Nat.one_mul]; exact Nat.pow_pos (by decide)) hk
    (fun t' a b => by omega) (fun t' a b => c_ln_mono hs a b)
  refine ⟨J, e1, e2, e3, ?_, e5⟩
  intro t' a b
  by_cases h' : t ≤ t'
  · exact e4 t' h' a b
  · have := c_ln_mono hs (show t' ≤ t by omega) ht; omega

end WuffsVerif.StdDeflate.F
