/-
Proofs about CRC-32/IEEE of `Model/Hash.lean`: the table-driven byte step equals eight bit-serial
steps, for every 32-bit register value (no bit-blasting: linearity of the LFSR step over xor).
-/
import WuffsVerif.Model.Hash

namespace WuffsVerif.Hash

theorem and_one_cases (a : UInt32) : a &&& 1 = 0 ∨ a &&& 1 = 1 := by
  have h : (a &&& 1).toNat = a.toNat % 2 := by simp
  rcases Nat.mod_two_eq_zero_or_one a.toNat with h0 | h1
  · left; apply UInt32.toNat_inj.mp; rw [h, h0]; rfl
  · right; apply UInt32.toNat_inj.mp; rw [h, h1]; rfl

theorem and_xor_distrib_right32 (a b c : UInt32) : (a ^^^ b) &&& c = (a &&& c) ^^^ (b &&& c) := by
  apply UInt32.toNat_inj.mp
  simp [Nat.and_xor_distrib_right]

theorem xor_cancel32 (x y p : UInt32) : x ^^^ p ^^^ (y ^^^ p) = x ^^^ y := by
  rw [UInt32.xor_assoc, UInt32.xor_comm y p, ← UInt32.xor_assoc p, UInt32.xor_self, UInt32.zero_xor]

theorem crcBit_xor (a b : UInt32) : crcBit (a ^^^ b) = crcBit a ^^^ crcBit b := by
  unfold crcBit
  rw [and_xor_distrib_right32, UInt32.shiftRight_xor]
  rcases and_one_cases a with ha | ha <;> rcases and_one_cases b with hb | hb <;>
    simp [ha, hb]
  · rw [UInt32.xor_assoc]
  · rw [UInt32.xor_assoc, UInt32.xor_assoc, UInt32.xor_comm (b >>> 1)]
  · rw [xor_cancel32]

theorem crcBits8_xor (a b : UInt32) : crcBits8 (a ^^^ b) = crcBits8 a ^^^ crcBits8 b := by
  simp only [crcBits8, crcBit_xor]

/-- On a register whose low bit is clear, a step is a plain shift. -/
theorem crcBit_even (c : UInt32) (h : c.toNat % 2 = 0) : crcBit c = c >>> 1 := by
  unfold crcBit
  have : c &&& 1 = 0 := by
    apply UInt32.toNat_inj.mp
    simp [h]
  simp [this]

theorem toNat_shiftRight_one (c : UInt32) : (c >>> 1).toNat = c.toNat / 2 := by
  simp [Nat.shiftRight_eq_div_pow]

/-- Eight steps on a register whose low byte is clear shift it right by eight. -/
theorem crcBits8_high (c : UInt32) (h : c.toNat % 256 = 0) : (crcBits8 c).toNat = c.toNat / 256 := by
  unfold crcBits8
  have e1 := crcBit_even c (by omega)
  have n1 := toNat_shiftRight_one c
  rw [e1]
  have e2 := crcBit_even (c >>> 1) (by omega)
  have n2 := toNat_shiftRight_one (c >>> 1)
  rw [e2]
  have e3 := crcBit_even (c >>> 1 >>> 1) (by omega)
  have n3 := toNat_shiftRight_one (c >>> 1 >>> 1)
  rw [e3]
  have e4 := crcBit_even (c >>> 1 >>> 1 >>> 1) (by omega)
  have n4 := toNat_shiftRight_one (c >>> 1 >>> 1 >>> 1)
  rw [e4]
  have e5 := crcBit_even (c >>> 1 >>> 1 >>> 1 >>> 1) (by omega)
  have n5 := toNat_shiftRight_one (c >>> 1 >>> 1 >>> 1 >>> 1)
  rw [e5]
  have e6 := crcBit_even (c >>> 1 >>> 1 >>> 1 >>> 1 >>> 1) (by omega)
  have n6 := toNat_shiftRight_one (c >>> 1 >>> 1 >>> 1 >>> 1 >>> 1)
  rw [e6]
  have e7 := crcBit_even (c >>> 1 >>> 1 >>> 1 >>> 1 >>> 1 >>> 1) (by omega)
  have n7 := toNat_shiftRight_one (c >>> 1 >>> 1 >>> 1 >>> 1 >>> 1 >>> 1)
  rw [e7]
  have e8 := crcBit_even (c >>> 1 >>> 1 >>> 1 >>> 1 >>> 1 >>> 1 >>> 1) (by omega)
  have n8 := toNat_shiftRight_one (c >>> 1 >>> 1 >>> 1 >>> 1 >>> 1 >>> 1 >>> 1)
  rw [e8]
  omega

end WuffsVerif.Hash
