/-
Proofs about CRC-32/IEEE of `Model/Hash.lean`: the table-driven byte step equals eight bit-serial
steps, for every 32-bit register value (no bit-blasting: linearity of the LFSR step over xor).
-/
import WuffsVerif.Model.Hash

namespace WuffsVerif.Hash

theorem and_one_cases (a : UInt32) : a &&& 1 = 0 ∨ a &&& 1 = 1 := by
  have h : (a &&& 1).toNat = a.toNat % 2 := by simp
  rcases Nat.mod_two_eq_zero_or_one a.toNat with h0 | h1
  · left; apply UInt32.toNat_inj.mp; rw [h, h0]; rfl
  · right; apply UInt32.toNat_inj.mp; rw [h, h1]; rfl

theorem and_xor_distrib_right32 (a b c : UInt32) : (a ^^^ b) &&& c = (a &&& c) ^^^ (b &&& c) := by
  apply UInt32.toNat_inj.mp
  simp [Nat.and_xor_distrib_right]

theorem xor_cancel32 (x y p : UInt32) : x ^^^ p ^^^ (y ^^^ p) = x ^^^ y := by
  rw [UInt32.xor_assoc, UInt32.xor_comm y p, ← UInt32.xor_assoc p, UInt32.xor_self, UInt32.zero_xor]

/-- The LFSR step is linear over xor. -/
theorem crcBit_xor (a b : UInt32) : crcBit (a ^^^ b) = crcBit a ^^^ crcBit b := by
  unfold crcBit
  rw [and_xor_distrib_right32, UInt32.shiftRight_xor]
  rcases and_one_cases a with ha | ha <;> rcases and_one_cases b with hb | hb <;>
    simp [ha, hb]
  · rw [UInt32.xor_assoc]
  · rw [UInt32.xor_assoc, UInt32.xor_assoc, UInt32.xor_comm (b >>> 1)]
  · rw [xor_cancel32]

theorem crcBits8_xor (a b : UInt32) : crcBits8 (a ^^^ b) = crcBits8 a ^^^ crcBits8 b := by
  simp only [crcBits8, crcBit_xor]

/-- On a register whose low bit is clear, a step is a plain shift. -/
theorem crcBit_even (c : UInt32) (h : c.toNat % 2 = 0) : crcBit c = c >>> 1 := by
  unfold crcBit
  have : c &&& 1 = 0 := by
    apply UInt32.toNat_inj.mp
    simp [h]
  simp [this]

theorem toNat_shiftRight_one (c : UInt32) : (c >>> 1).toNat = c.toNat / 2 := by
  simp [Nat.shiftRight_eq_div_pow]

/-- Eight steps on a register whose low byte is clear shift it right by eight. -/
theorem crcBits8_high (c : UInt32) (h : c.toNat % 256 = 0) : (crcBits8 c).toNat = c.toNat / 256 := by
  unfold crcBits8
  have e1 := crcBit_even c (by omega)
  have n1 := toNat_shiftRight_one c
  rw [e1]
  have e2 := crcBit_even (c >>> 1) (by omega)
  have n2 := toNat_shiftRight_one (c >>> 1)
  rw [e2]
  have e3 := crcBit_even (c >>> 1 >>> 1) (by omega)
  have n3 := toNat_shiftRight_one (c >>> 1 >>> 1)
  rw [e3]
  have e4 := crcBit_even (c >>> 1 >>> 1 >>> 1) (by omega)
  have n4 := toNat_shiftRight_one (c >>> 1 >>> 1 >>> 1)
  rw [e4]
  have e5 := crcBit_even (c >>> 1 >>> 1 >>> 1 >>> 1) (by omega)
  have n5 := toNat_shiftRight_one (c >>> 1 >>> 1 >>> 1 >>> 1)
  rw [e5]
  have e6 := crcBit_even (c >>> 1 >>> 1 >>> 1 >>> 1 >>> 1) (by omega)
  have n6 := toNat_shiftRight_one (c >>> 1 >>> 1 >>> 1 >>> 1 >>> 1)
  rw [e6]
  have e7 := crcBit_even (c >>> 1 >>> 1 >>> 1 >>> 1 >>> 1 >>> 1) (by omega)
  have n7 := toNat_shiftRight_one (c >>> 1 >>> 1 >>> 1 >>> 1 >>> 1 >>> 1)
  rw [e7]
  have e8 := crcBit_even (c >>> 1 >>> 1 >>> 1 >>> 1 >>> 1 >>> 1 >>> 1) (by omega)
  have n8 := toNat_shiftRight_one (c >>> 1 >>> 1 >>> 1 >>> 1 >>> 1 >>> 1 >>> 1)
  rw [e8]
  omega

theorem split_low_byte (d : Nat) : (d >>> 8 <<< 8) ^^^ (d &&& 255) = d := by
  apply Nat.eq_of_testBit_eq; intro i
  have h255 : (255 : Nat) = 2 ^ 8 - 1 := by decide
  rw [h255]
  simp only [Nat.testBit_xor, Nat.testBit_shiftLeft, Nat.testBit_shiftRight, Nat.testBit_and,
    Nat.testBit_two_pow_sub_one]
  by_cases h : i < 8
  · have h' : ¬ 8 ≤ i := by omega
    simp [h, h']
  · have : 8 ≤ i := by omega
    simp [h, this]

theorem split_low_byte32 (d : UInt32) : ((d >>> 8) <<< 8) ^^^ (d &&& 255) = d := by
  apply UInt32.toNat_inj.mp
  simp only [UInt32.toNat_xor, UInt32.toNat_and, UInt32.toNat_shiftLeft, UInt32.toNat_shiftRight]
  have h8 : (8 : UInt32).toNat % 32 = 8 := by decide
  have h255 : (255 : UInt32).toNat = 255 := by decide
  rw [h8, h255]
  have hlt : d.toNat >>> 8 <<< 8 < 2 ^ 32 := by
    have := d.toNat_lt
    rw [Nat.shiftRight_eq_div_pow, Nat.shiftLeft_eq]
    omega
  rw [Nat.mod_eq_of_lt hlt]
  exact split_low_byte d.toNat

/-- The heart of the table method: eight bit-serial steps on `d` are eight steps on its low byte,
xor the rest shifted down. -/
theorem crcBits8_split (d : UInt32) : crcBits8 d = crcBits8 (d &&& 255) ^^^ (d >>> 8) := by
  conv => lhs; rw [← split_low_byte32 d]
  rw [crcBits8_xor, UInt32.xor_comm]
  congr 1
  apply UInt32.toNat_inj.mp
  have h8 : (8 : UInt32).toNat % 32 = 8 := by decide
  have hs : ((d >>> 8) <<< 8).toNat = d.toNat / 256 * 256 := by
    simp only [UInt32.toNat_shiftLeft, UInt32.toNat_shiftRight, h8]
    have := d.toNat_lt
    rw [Nat.shiftRight_eq_div_pow, Nat.shiftLeft_eq]
    omega
  rw [crcBits8_high _ (by omega), hs]
  simp only [UInt32.toNat_shiftRight, h8, Nat.shiftRight_eq_div_pow]
  omega

theorem crcTableSpec_getD (i : Nat) (h : i < 256) :
    crcTableSpec.getD i 0 = crcBits8 (UInt32.ofNat i) := by
  unfold crcTableSpec
  simp [Array.getD, h]

/-- `crc_bytewise_eq_spec`: with the table computed from the definition, the table-driven step of
`crc32IEEE` is the bit-serial byte step, for every register value and byte. -/
theorem crcTableStep_spec (h : UInt32) (v : UInt8) :
    crcTableStep crcTableSpec h v = crcByteSpec h v := by
  unfold crcTableStep crcByteSpec
  have hv := v.toNat_lt
  have hh := h.toNat_lt
  have hidx : (h.toUInt8 ^^^ v).toNat < 256 := (h.toUInt8 ^^^ v).toNat_lt
  rw [crcTableSpec_getD _ hidx, crcBits8_split (h ^^^ v.toUInt32)]
  have h8 : (8 : UInt32).toNat % 32 = 8 := by decide
  have h255 : (255 : UInt32).toNat = 255 := by decide
  have e1 : UInt32.ofNat (h.toUInt8 ^^^ v).toNat = (h ^^^ v.toUInt32) &&& 255 := by
    apply UInt32.toNat_inj.mp
    simp only [UInt32.toNat_ofNat', UInt8.toNat_xor, UInt32.toNat_toUInt8, UInt32.toNat_and,
      UInt32.toNat_xor, UInt8.toNat_toUInt32, h255]
    have e255 : (255 : Nat) = 2 ^ 8 - 1 := by decide
    have ev : v.toNat % 2 ^ 8 = v.toNat := Nat.mod_eq_of_lt hv
    have hx : (h.toNat % 2 ^ 8 ^^^ v.toNat % 2 ^ 8) < 2 ^ 8 :=
      Nat.xor_lt_two_pow (Nat.mod_lt _ (by decide)) (Nat.mod_lt _ (by decide))
    have rhs : (h.toNat ^^^ v.toNat) &&& 255 = h.toNat % 2 ^ 8 ^^^ v.toNat := by
      rw [e255, Nat.and_two_pow_sub_one_eq_mod, Nat.xor_mod_two_pow, ev]
    rw [rhs]
    rw [ev] at hx
    exact Nat.mod_eq_of_lt (by omega)
  have e2 : (h ^^^ v.toUInt32) >>> 8 = h >>> 8 := by
    rw [UInt32.shiftRight_xor]
    have : v.toUInt32 >>> 8 = 0 := by
      apply UInt32.toNat_inj.mp
      simp only [UInt32.toNat_shiftRight, UInt8.toNat_toUInt32, h8, Nat.shiftRight_eq_div_pow]
      show v.toNat / 256 = 0
      omega
    rw [this, UInt32.xor_zero]
  rw [e1, e2]

end WuffsVerif.Hash
