/-
Obligations tying the literals of the hand-written model `Model/Png/Uncomp.lean` (and of
`Model/Hash.lean`'s chunked Adler loop) to `Gen/C19_Tables.lean`, which `wvh_c19 -mode gen` extracts
from the working tree's lib/uncompng/uncompng.go with go/parser on every run.  A source edit of any of
these constants changes the Gen file and breaks the corresponding theorem here.

* `init` is tied statement by statement: the extracted store list, run by the small interpreter
  `runInit`, IS the model's `init` (`init_eq_source`, by `rfl`).
* the pixel-loop table, `pngFileFormatEncoding`, the buffer size and the IEND chunk are compared with
  the model's own definitions by `decide`.
* the remaining literals (offsets inside `flush`, the Adler chunk size and modulus, the size limit)
  appear in the model as literals inside function bodies; they are compared with the literal the
  model was written with (a change detector for the source constant).
-/
import WuffsVerif.Model.Png.Uncomp

namespace WuffsVerif.Png.Uncomp
open WuffsVerif.Hash WuffsVerif.Gen.C19

/-- value of a right-hand side of `init` (Go `byte(x >> s)` of a non-negative `int` = low 8 bits) -/
def initSrcVal (width height : Nat) (depth colorType : UInt8) (crc : UInt32) : InitSrc → UInt8
  | .lit v => UInt8.ofNat v
  | .width s => UInt8.ofNat (width >>> s)
  | .height s => UInt8.ofNat (height >>> s)
  | .depth => depth
  | .colorEnc => pngFileFormatEncoding colorType
  | .crc s => UInt8.ofNat (crc.toNat >>> s)

/-- run the extracted statements of `init` in order -/
def runInit (width height : Nat) (depth colorType : UInt8) : List InitStmt → Enc → UInt32 → Enc
  | [], e, _ => e
  | .store i src :: p, e, crc => runInit width height depth colorType p (e.set i (initSrcVal width height depth colorType crc src)) crc
  | .crc lo hi :: p, e, _ => runInit width height depth colorType p e (crc32IEEE e.buf lo hi)

/-- The model's `init` is the source's `init`, store by store, in the source's order, with the
source's indexes and values (signature, IHDR, IDAT and zlib headers, Adler state). -/
theorem init_eq_source (e : Enc) (width height : Nat) (depth colorType : UInt8) :
    init e width height depth colorType = runInit width height depth colorType initProg e 0 := by
  rfl

/-- `Encoder.buf` has the size the model allocates (and all `65536` bounds of the proofs mean). -/
theorem bufSize_eq : Enc.new.buf.size = bufSize := by simp [Enc.new]

/-- `pngFileFormatEncoding` of the model is the source's switch, for every byte value. -/
theorem encoding_eq_source (c : UInt8) :
    (pngFileFormatEncoding c).toNat = ((ctEncoding.lookup c.toNat).getD ctEncodingDefault) := by
  have h : ∀ n, n < 256 → (pngFileFormatEncoding (UInt8.ofNat n)).toNat
      = ((ctEncoding.lookup n).getD ctEncodingDefault) := by decide +kernel
  have := h c.toNat c.toNat_lt
  rwa [UInt8.ofNat_toNat] at this

/-- the exported constants have the values the model's validation and `loopParams` assume -/
theorem colorTypes_eq : colorTypes = [("ColorTypeGray", 1), ("ColorTypeRGBX", 2), ("ColorTypeNRGBA", 3)] := by decide
theorem depths_eq : depths = [("Depth8", 8), ("Depth16", 16)] := by decide

/-- The format switch of `Encode` has exactly the six cases `depth | colorType` of the accepted
arguments, and in each the reserve test, the number of stores, `ej += n` agree (= n), the row slice
and the row advance agree (= k), and (n, k) is what the model's `loopParams` says. -/
theorem loopTable_eq_source :
    loopTable.map (·.1) = [0x09, 0x0A, 0x0B, 0x11, 0x12, 0x13] ∧
    ∀ d ∈ [(8 : UInt8), 16], ∀ c ∈ [(1 : UInt8), 2, 3],
      loopTable.lookup (d ||| c).toNat =
        some ((loopParams d c).2, (loopParams d c).1, (loopParams d c).1, (loopParams d c).1, (loopParams d c).2) := by
  decide

/-- the filter byte is reserved and counted as one byte -/
theorem rowReserve_eq : rowReserve = 1 := by decide

/-- `const iendChunk` of the source is the model's (and is a well-formed empty IEND chunk by
`iendChunk_eq` in Proof/PngSpec.lean) -/
theorem iendChunk_eq_source : iendChunk.map (·.toNat) = iendChunkSrc := by decide

/-- the re-armed chunk type after a non-final flush is the model's `tagIDAT` at 4..7 -/
theorem flushRearm_eq_source : flushRearm = (List.range 4).map (fun i => (4 + i, (tagIDAT.getD i 0).toNat)) := by decide

/-- change detectors for literals that occur inside function bodies of the model -/
theorem maxDim_eq : maxDim = 0xFFFFFF := by decide
theorem adler_consts_eq : adlerChunk = 5552 ∧ adlerMod = 65521 ∧
    adlerReads = [0xFFFC, 0xFFFD, 0xFFFE, 0xFFFF] ∧ adlerWrites = [0xFFFC, 0xFFFD, 0xFFFE, 0xFFFF] ∧
    flushAdlerCopy = [0xFFFC, 0xFFFD, 0xFFFE, 0xFFFF] := by decide
theorem flush_consts_eq : flushTest = (0x0004, 0x0D) ∧
    flushFirst = (0x0029, 0x0021, 0x0025) ∧ flushFirstEi = "eiFirst" ∧
    flushLater = (0x0008, 0x0000, 0x0004) ∧ flushLaterEi = "eiLater" ∧
    flushHeader = [5, 4, 3, 2, 1] := by decide
theorem layout_consts_eq : eiFirst = 0x30 ∧ eiLater = 0x0D ∧ ejMax = 0xFFF8 ∧ bufSize = 0x10000 := by decide

/-- The text (comment-free, as printed by go/printer) of every top-level declaration of uncompng.go is
the text this model was written from and reviewed against.  `init`, the pixel-loop table and the
constants above are tied semantically; for `Encode`'s control flow, `flush`, `updateAdler32` and
`crc32IEEE` the hand translation is tied to THIS source text (and to the code's behaviour by the
differential harness).  Any edit of the file — a harmless refactoring included — breaks this theorem:
the model must then be re-reviewed and the digests updated. -/
theorem source_text_reviewed : srcDigests = [
  ("const ColorTypeGray", "3f6745f7172e7abf6b406c20ed6e1f31352084c2c0214bc314ea01d824b7432b"),
  ("const Depth8", "c1a78d1bcf3152669cb6463f25b7c7648c15b9fda1c6c02cdee4edf576389479"),
  ("const eiFirst", "8d03c2b7ca990fc99669f78d0b25811c336580b27d1d6467026632a347232b7c"),
  ("func Encode", "f5a55cf1cafcd95e276fe36b22f7f594b31e73bad09ab8f136de8fdb0fb46bdb"),
  ("func btou8", "fe5a51d1e805a1d9784773cf3e26010d909d97d1c568d1007754376070c7bdbd"),
  ("func crc32IEEE", "a0ff509fa3b0faf3b89ff786fa6362df8ca9f9c8517fc569ddee6d2be9545dae"),
  ("func flush", "d03bf5abcb88e74c0c4dc159c98f3fd7f3c6af5735b5b41f92dfaa984e98930b"),
  ("func init", "10c213c40236424b31e9a964066e693dcaafa45b74427f803d8f25efe20987df"),
  ("func pngFileFormatEncoding", "5737b4bbf6a35d4b0e70040d29be7c6b0c28b8eee92bc2f548fc6039e3d51ee6"),
  ("func updateAdler32", "de2ee5012d258582ae2e57e170be8c885490343decbbc2c88b09c44f343873a1"),
  ("type ColorType", "7316a1c717ab8acd853c581adcc3ff2c9ad93f2bb31cd83ca20510984153aefb"),
  ("type Depth", "c7448255f6535a9f1c66e253a0b841d4d684b39caa714fd78a3e3216ae565bcf"),
  ("type Encoder", "0daa83ffd6d7208dcac1a2ae57fab207ef0f6b4a8648677b0d24191095f43b97"),
  ("var crc32IEEETable", "303ad26ef392df58814fc6afd33f4c4768b307ed75a2f078be07bc913b0942ae")] := by decide

end WuffsVerif.Png.Uncomp
