/-
Obligations tying the literals of the hand-written model `Model/Png/Uncomp.lean` (and of
`Model/Hash.lean`'s chunked Adler loop) to `Gen/C19_Tables.lean`, which `wvh_c19 -mode gen` extracts
from the working tree's lib/uncompng/uncompng.go with go/parser on every run.  A source edit of any of
these constants changes the Gen file and breaks the corresponding theorem here.

* `init` is tied statement by statement: the extracted store list, run by the small interpreter
  `runInit`, IS the model's `init` (`init_eq_source`, by `rfl`).
* the pixel-loop table, `pngFileFormatEncoding`, the buffer size and the IEND chunk are compared with
  the model's own definitions by `decide`.
* the remaining literals (offsets inside `flush`, the Adler chunk size and modulus, the size limit)
  appear in the model as literals inside function bodies; they are compared with the literal the
  model was written with (a change detector for the source constant).
-/
import WuffsVerif.Model.Png.Uncomp

namespace WuffsVerif.Png.Uncomp
open WuffsVerif.Hash WuffsVerif.Gen.C19

/-- value of a right-hand side of `init` (Go `byte(x >> s)` of a non-negative `int` = low 8 bits) -/
def initSrcVal (width height : Nat) (depth colorType : UInt8) (crc : UInt32) : InitSrc → UInt8
  | .lit v => UInt8.ofNat v
  | .width s => UInt8.ofNat (width >>> s)
  | .height s => UInt8.ofNat (height >>> s)
  | .depth => depth
  | .colorEnc => pngFileFormatEncoding colorType
  | .crc s => UInt8.ofNat (crc.toNat >>> s)

/-- run the extracted statements of `init` in order -/
def runInit (width height : Nat) (depth colorType : UInt8) : List InitStmt → Enc → UInt32 → Enc
  | [], e, _ => e
  | .store i src :: p, e, crc => runInit width height depth colorType p (e.set i (initSrcVal width height depth colorType crc src)) crc
  | .crc lo hi :: p, e, _ => runInit width height depth colorType p e (crc32IEEE e.buf lo hi)

/-- The model's `init` is the source's `init`, store by store, in the source's order, with the
source's indexes and values (signature, IHDR, IDAT and zlib headers, Adler state). -/
theorem init_eq_source (e : Enc) (width height : Nat) (depth colorType : UInt8) :
    init e width height depth colorType = runInit width height depth colorType initProg e 0 := by
  rfl

/-- `Encoder.buf` has the size the model allocates (and all `65536` bounds of the proofs mean). -/
theorem bufSize_eq : Enc.new.buf.size = bufSize := by simp [Enc.new]

/-- `pngFileFormatEncoding` of the model is the source's switch, for every byte value. -/
theorem encoding_eq_source (c : UInt8) :
    (pngFileFormatEncoding c).toNat = ((ctEncoding.lookup c.toNat).getD ctEncodingDefault) := by
  have h : ∀ n, n < 256 → (pngFileFormatEncoding (UInt8.ofNat n)).toNat
      = ((ctEncoding.lookup n).getD ctEncodingDefault) := by decide +kernel
  have := h c.toNat c.toNat_lt
  rwa [UInt8.ofNat_toNat] at this

/-- the exported constants have the values the model's validation and `loopParams` assume -/
theorem colorTypes_eq : colorTypes = [("ColorTypeGray", 1), ("ColorTypeRGBX", 2), ("ColorTypeNRGBA", 3)] := by decide
theorem depths_eq : depths = [("Depth8", 8), ("Depth16", 16)] := by decide

/-- The format switch of `Encode` has exactly the six cases `depth | colorType` of the accepted
arguments, and in each the reserve test, the number of stores, `ej += n` agree (= n), the row slice
and the row advance agree (= k), and (n, k) is what the model's `loopParams` says. -/
theorem loopTable_eq_source :
    loopTable.map (·.1) = [0x09, 0x0A, 0x0B, 0x11, 0x12, 0x13] ∧
    ∀ d ∈ [(8 : UInt8), 16], ∀ c ∈ [(1 : UInt8), 2, 3],
      loopTable.lookup (d ||| c).toNat =
        some ((loopParams d c).2, (loopParams d c).1, (loopParams d c).1, (loopParams d c).1, (loopParams d c).2) := by
  decide

/-- the filter byte is reserved and counted as one byte -/
theorem rowReserve_eq : rowReserve = 1 := by decide

/-- `const iendChunk` of the source is the model's (and is a well-formed empty IEND chunk by
`iendChunk_eq` in Proof/PngSpec.lean) -/
theorem iendChunk_eq_source : iendChunk.map (·.toNat) = iendChunkSrc := by decide

/-- the re-armed chunk type after a non-final flush is the model's `tagIDAT` at 4..7 -/
theorem flushRearm_eq_source : flushRearm = (List.range 4).map (fun i => (4 + i, (tagIDAT.getD i 0).toNat)) := by decide

/-- change detectors for literals that occur inside function bodies of the model -/
theorem maxDim_eq : maxDim = 0xFFFFFF := by decide
theorem adler_consts_eq : adlerChunk = 5552 ∧ adlerMod = 65521 ∧
    adlerReads = [0xFFFC, 0xFFFD, 0xFFFE, 0xFFFF] ∧ adlerWrites = [0xFFFC, 0xFFFD, 0xFFFE, 0xFFFF] ∧
    flushAdlerCopy = [0xFFFC, 0xFFFD, 0xFFFE, 0xFFFF] := by decide
theorem flush_consts_eq : flushTest = (0x0004, 0x0D) ∧
    flushFirst = (0x0029, 0x0021, 0x0025) ∧ flushFirstEi = "eiFirst" ∧
    flushLater = (0x0008, 0x0000, 0x0004) ∧ flushLaterEi = "eiLater" ∧
    flushHeader = [5, 4, 3, 2, 1] := by decide
theorem layout_consts_eq : eiFirst = 0x30 ∧ eiLater = 0x0D ∧ ejMax = 0xFFF8 ∧ bufSize = 0x10000 := by decide

end WuffsVerif.Png.Uncomp
