/-
Helper lemmas for C13: a failure of the underlying io.Writer / TempFile is never swallowed.

Chain A (ChunkWriter level): an operation that returns nil has not seen a failing underlying call.
Chain B (Writer level): if an underlying call fails during an operation, the operation returns an
error and that same error is recorded in `Writer.err`.
-/
import WuffsVerif.Model.Rac.Writer
import WuffsVerif.Proof.RacWriter
set_option linter.unusedSimpArgs false
set_option linter.unusedVariables false

namespace WuffsVerif.Rac

/-! ### Chain A -/

theorem IOSt.tick_ok (io : IOSt) : io.tick.2 = true → io.tick.1.faulted = io.faulted := by
  unfold IOSt.tick
  simp only
  split <;> simp

theorem IOSt.write_ok (io : IOSt) (t : Bool) (d : Bytes) :
    (io.write t d).2 = true → (io.write t d).1.faulted = io.faulted := by
  unfold IOSt.write
  have h := IOSt.tick_ok io
  generalize io.tick = tk at *
  obtain ⟨io1, ok⟩ := tk
  simp only at h ⊢
  cases ok with
  | false => simp
  | true =>
    simp only [Bool.not_true, Bool.false_eq_true, ↓reduceIte]
    split <;> (intro _; simpa using h rfl)

theorem CW.padLoop_ok (toTemp : Bool) (padLen : Nat) (fuel remaining : Nat) (w : CW) :
    (CW.padLoop toTemp padLen fuel remaining w).2 = none →
      (CW.padLoop toTemp padLen fuel remaining w).1.io.faulted = w.io.faulted := by
  induction fuel generalizing remaining w with
  | zero => intro _; rfl
  | succ f ih =>
    unfold CW.padLoop
    simp only
    split
    · intro _; rfl
    · generalize hn : (if remaining < padLen then remaining else padLen) = n
      have hw := IOSt.write_ok w.io toTemp (List.replicate n 0)
      generalize w.io.write toTemp (List.replicate n 0) = wr at *
      obtain ⟨io1, ok⟩ := wr
      simp only at hw ⊢
      cases ok with
      | false => simp
      | true =>
        simp only [Bool.not_true, Bool.false_eq_true, ↓reduceIte]
        split
        · simp [CW.fail]
        · intro h
          rw [ih _ _ h]
          exact hw rfl

theorem CW.padToPageSize_ok (w : CW) (t : Bool) (o : Nat) :
    (w.padToPageSize t o).2 = none → (w.padToPageSize t o).1.io.faulted = w.io.faulted := by
  unfold CW.padToPageSize
  simp only
  split
  · intro _; rfl
  · split
    · intro _; rfl
    · exact CW.padLoop_ok _ _ _ _ _

theorem CW.writePadding_ok (w : CW) (t : Bool) (o : Nat) :
    (w.writePadding t o).2 = none → (w.writePadding t o).1.io.faulted = w.io.faulted := by
  unfold CW.writePadding
  simp only
  split
  · intro _; rfl
  · split
    · intro _; rfl
    · exact CW.padToPageSize_ok _ _ _

theorem CW.write_ok (w : CW) (d : Bytes) :
    (w.write d).2 = none → (w.write d).1.io.faulted = w.io.faulted := by
  unfold CW.write
  simp only
  split
  · simp [CW.fail]
  · have hp : (if w.cPageSize > 0 then w.writePadding (w.tempKind != 0) d.length else (w, none)).2 = none →
        (if w.cPageSize > 0 then w.writePadding (w.tempKind != 0) d.length else (w, none)).1.io.faulted = w.io.faulted := by
      split
      · exact CW.writePadding_ok _ _ _
      · intro _; rfl
    generalize (if w.cPageSize > 0 then w.writePadding (w.tempKind != 0) d.length else (w, none)) = r at *
    obtain ⟨w1, e1⟩ := r
    simp only at hp ⊢
    cases e1 with
    | some e => simp
    | none =>
      simp only [Option.isSome_none, Bool.false_eq_true, ↓reduceIte]
      have hw := IOSt.write_ok w1.io (w.tempKind != 0) d
      generalize w1.io.write (w.tempKind != 0) d = wr at *
      obtain ⟨io1, ok⟩ := wr
      simp only at hw ⊢
      cases ok with
      | false => simp
      | true =>
        simp only [Bool.not_true, Bool.false_eq_true, ↓reduceIte]
        split
        · simp [CW.fail]
        · intro _; simp only; rw [hw rfl, hp rfl]

theorem CW.seekTemp_ok (w : CW) : (w.seekTemp).2 = none → (w.seekTemp).1.io.faulted = w.io.faulted := by
  unfold CW.seekTemp
  split
  · have h := IOSt.tick_ok w.io
    generalize w.io.tick = tk at *
    obtain ⟨io1, ok⟩ := tk
    simp only at h ⊢
    cases ok with
    | false => simp
    | true => intro _; simpa using h rfl
  · intro _; rfl

theorem CW.checkParameters_io (w : CW) : (w.checkParameters).1.io = w.io := by
  unfold CW.checkParameters
  repeat (any_goals split)
  all_goals (first | rfl | simp [CW.fail])

theorem CW.init_ok (w : CW) : (w.init).2 = none → (w.init).1.io.faulted = w.io.faulted := by
  unfold CW.init
  split
  · simp
  · split
    · intro _; rfl
    · simp only
      have hcp := CW.checkParameters_io { w with initialized := true }
      generalize CW.checkParameters { w with initialized := true } = r at *
      obtain ⟨w1, e1⟩ := r
      simp only at hcp ⊢
      cases e1 with
      | some e => simp
      | none =>
        simp only [Option.isSome_none, Bool.false_eq_true, ↓reduceIte]
        have hs := CW.seekTemp_ok w1
        generalize w1.seekTemp = r2 at *
        obtain ⟨w2, e2⟩ := r2
        simp only at hs ⊢
        cases e2 with
        | some e => simp
        | none =>
          simp only [Option.isSome_none, Bool.false_eq_true, ↓reduceIte]
          have h2 : w2.io.faulted = w.io.faulted := by rw [hs rfl, hcp]
          split
          · split
            · simp [CW.fail]
            · intro h; rw [CW.write_ok _ _ h, h2]
          · split
            · simp [CW.fail]
            · intro _; exact h2

theorem CW.addResource_ok (w : CW) (r : Bytes) :
    (w.addResource r).2.2 = none → (w.addResource r).1.io.faulted = w.io.faulted := by
  unfold CW.addResource
  simp only
  split
  · simp
  · have hi := CW.init_ok w
    generalize w.init = r1 at *
    obtain ⟨w1, e1⟩ := r1
    simp only at hi ⊢
    cases e1 with
    | some e => simp
    | none =>
      simp only [Option.isSome_none, Bool.false_eq_true, ↓reduceIte]
      have hw := CW.write_ok w1 r
      generalize w1.write r = r2 at *
      obtain ⟨w2, e2⟩ := r2
      simp only at hw ⊢
      cases e2 with
      | some e => simp
      | none => intro _; simp only [Option.isSome_none, Bool.false_eq_true, ↓reduceIte]; rw [hw rfl, hi rfl]

theorem CW.addChunk_ok (w : CW) (d c : Nat) (p : Bytes) (s t : Nat) :
    (w.addChunk d c p s t).2 = none → (w.addChunk d c p s t).1.io.faulted = w.io.faulted := by
  unfold CW.addChunk
  split
  · simp
  · split
    · intro _; rfl
    · split
      · simp [CW.fail]
      · split
        · simp [CW.fail]
        · simp only
          have hi := CW.init_ok w
          generalize w.init = r1 at *
          obtain ⟨w1, e1⟩ := r1
          simp only at hi ⊢
          cases e1 with
          | some e => simp
          | none =>
            simp only [Option.isSome_none, Bool.false_eq_true, ↓reduceIte]
            generalize hcc : (if (w1.leafNodes.size == 0) = true then
                if (!codecValid c) = true then (w1, some Err.invalidCodec) else ({ w1 with codec := c }, (none : Option Err))
              else if (w1.codec != c) = true then w1.fail Err.multipleCodecs else (w1, none)) = r2
            have h2 : r2.2 = none → r2.1.io = w1.io := by
              rw [← hcc]; repeat (any_goals split)
              all_goals simp [CW.fail]
            obtain ⟨w2, e2⟩ := r2
            simp only at h2 ⊢
            cases e2 with
            | some e => simp
            | none =>
              simp only [Option.isSome_none, Bool.false_eq_true, ↓reduceIte]
              have hw := CW.write_ok w2 p
              generalize w2.write p = r3 at *
              obtain ⟨w3, e3⟩ := r3
              simp only at hw ⊢
              cases e3 with
              | some e => simp
              | none => intro _; simp only [Option.isSome_none, Bool.false_eq_true, ↓reduceIte]; rw [hw rfl, h2 rfl, hi rfl]

theorem writeNode_ok (nw : NodeWriter) (n : WNode) (io : IOSt) :
    (writeNode nw n io).2 = none → (writeNode nw n io).1.faulted = io.faulted := by
  unfold writeNode
  split
  · simp
  · rename_i bytes hb
    have hw := IOSt.write_ok io false bytes
    generalize io.write false bytes = wr at *
    obtain ⟨io1, ok⟩ := wr
    simp only at hw ⊢
    cases ok with
    | false => simp
    | true => intro _; simpa using hw rfl

theorem writeIndex_ok (nw : NodeWriter) (n : WNode) (r : Bool) (io : IOSt) :
    (writeIndex nw n r io).2 = none → (writeIndex nw n r io).1.faulted = io.faulted := by
  refine writeIndex.induct nw
    (fun n r io => (writeIndex nw n r io).2 = none → (writeIndex nw n r io).1.faulted = io.faulted)
    (fun cs io => (writeIndexList nw cs io).2 = none → (writeIndexList nw cs io).1.faulted = io.faulted)
    ?_ ?_ ?_ ?_ ?_ ?_ ?_ ?_ n r io
  · intro d cs rs col s t c io io1 e h ih
    unfold writeIndex; simp [h]
  · intro d cs rs col s t c io io1 h ih
    unfold writeIndex; simp only [h, ↓reduceIte]
    intro hn
    rw [writeNode_ok _ _ _ hn]
    have := ih (by rw [h]); rw [h] at this; exact this
  · intro d cs rs col s t c r io hr io1 e h
    unfold writeIndex; simp [hr, h]
  · intro d cs rs col s t c r io hr io1 h ih
    unfold writeIndex; simp only [hr, Bool.false_eq_true, ↓reduceIte, h]
    intro hn
    rw [ih hn]
    have := writeNode_ok nw (WNode.mk d cs rs col s t c) io (by rw [h]); rw [h] at this; exact this
  · intro io; unfold writeIndexList; intro _; rfl
  · intro os io d rs col s t c ih
    unfold writeIndexList; exact ih
  · intro os io d c0 cs rs col s t c io1 e h ih
    unfold writeIndexList; simp [h]
  · intro os io d c0 cs rs col s t c io1 h ih1 ih2
    unfold writeIndexList; simp only [h]
    intro hn
    rw [ih2 hn]
    have := ih1 (by rw [h]); rw [h] at this; exact this

theorem copyLoop_ok (fuel : Nat) : ∀ (rest : Bytes) (n : Nat) (io : IOSt),
    (CW.copyLoop fuel rest n io).2.2 = none → (CW.copyLoop fuel rest n io).1.faulted = io.faulted := by
  induction fuel with
  | zero => intro rest n io h; simp [CW.copyLoop] at h
  | succ f ih =>
    intro rest n io
    unfold CW.copyLoop
    have ht := IOSt.tick_ok io
    generalize io.tick = tk at *
    obtain ⟨io1, ok⟩ := tk
    simp only at ht ⊢
    cases ok with
    | false => simp
    | true =>
      simp only [Bool.not_true, Bool.false_eq_true, ↓reduceIte]
      split
      · intro _; exact ht rfl
      · have hw := IOSt.write_ok io1 false (rest.take CW.copyBlock)
        generalize io1.write false (rest.take CW.copyBlock) = wr at *
        obtain ⟨io2, ok2⟩ := wr
        simp only at hw ⊢
        cases ok2 with
        | false => simp
        | true =>
          simp only [Bool.not_true, Bool.false_eq_true, ↓reduceIte]
          intro h
          rw [ih _ _ _ h, hw rfl, ht rfl]

theorem CW.closeAtEnd_ok (w : CW) (nw : NodeWriter) (r : WNode) :
    (w.closeAtEnd nw r).2 = none → (w.closeAtEnd nw r).1.io.faulted = w.io.faulted := by
  unfold CW.closeAtEnd
  have hp : (if w.cPageSize > 0 then w.padToPageSize false w.dataSize else (w, none)).2 = none →
      (if w.cPageSize > 0 then w.padToPageSize false w.dataSize else (w, none)).1.io.faulted = w.io.faulted := by
    split
    · exact CW.padToPageSize_ok _ _ _
    · intro _; rfl
  generalize (if w.cPageSize > 0 then w.padToPageSize false w.dataSize else (w, none)) = r2 at *
  obtain ⟨w2, e2⟩ := r2
  simp only at hp ⊢
  cases e2 with
  | some e => simp
  | none =>
    simp only [Option.isSome_none, Bool.false_eq_true, ↓reduceIte]
    have hi := writeIndex_ok nw r true w2.io
    generalize writeIndex nw r true w2.io = wi at *
    obtain ⟨io1, e1⟩ := wi
    cases e1 with
    | some e => simp
    | none => intro _; simp only at hi ⊢; rw [hi trivial, hp rfl]

theorem CW.closeAtStart_ok (w : CW) (nw : NodeWriter) (r : WNode) (n : Nat) :
    (w.closeAtStart nw r n).2 = none → (w.closeAtStart nw r n).1.io.faulted = w.io.faulted := by
  unfold CW.closeAtStart
  simp only
  have hi := writeIndex_ok nw r false w.io
  generalize writeIndex nw r false w.io = wi at *
  obtain ⟨io1, e1⟩ := wi
  cases e1 with
  | some e => simp
  | none =>
    simp only at hi ⊢
    have hp : (if w.cPageSize > 0 then CW.padToPageSize { w with io := io1 } false n
        else ({ w with io := io1 }, none)).2 = none →
        (if w.cPageSize > 0 then CW.padToPageSize { w with io := io1 } false n
        else ({ w with io := io1 }, none)).1.io.faulted = io1.faulted := by
      split
      · exact CW.padToPageSize_ok _ _ _
      · intro _; rfl
    generalize (if w.cPageSize > 0 then CW.padToPageSize { w with io := io1 } false n
        else ({ w with io := io1 }, none)) = r2 at *
    obtain ⟨w2, e2⟩ := r2
    simp only at hp ⊢
    cases e2 with
    | some e => simp
    | none =>
      simp only [Option.isSome_none, Bool.false_eq_true, ↓reduceIte]
      have hs := CW.seekTemp_ok w2
      generalize w2.seekTemp = r3 at *
      obtain ⟨w3, e3⟩ := r3
      simp only at hs ⊢
      cases e3 with
      | some e => simp
      | none =>
        simp only [Option.isSome_none, Bool.false_eq_true, ↓reduceIte]
        have hc := copyLoop_ok (w3.io.tBytes.length + 2) w3.io.tBytes 0 w3.io
        generalize CW.copyLoop (w3.io.tBytes.length + 2) w3.io.tBytes 0 w3.io = cl at *
        obtain ⟨io4, n4, e4⟩ := cl
        cases e4 with
        | some e => simp
        | none =>
          simp only at hc ⊢
          split
          · simp [CW.fail]
          · intro _; simp only; rw [hc trivial, hs rfl, hp rfl, hi trivial]

theorem CW.close_ok (w : CW) : (w.close).2 = none → (w.close).1.io.faulted = w.io.faulted := by
  unfold CW.close
  split
  · simp
  · simp only
    have hcp : (if (!w.initialized) = true then w.checkParameters else (w, none)).1.io = w.io := by
      split
      · exact CW.checkParameters_io w
      · rfl
    generalize (if (!w.initialized) = true then w.checkParameters else (w, none)) = r at *
    obtain ⟨w1, e1⟩ := r
    simp only at hcp ⊢
    cases e1 with
    | some e => simp
    | none =>
      simp only [Option.isSome_none, Bool.false_eq_true, ↓reduceIte]
      split
      · have hw := IOSt.write_ok w1.io false CW.emptyRACFile
        generalize w1.io.write false CW.emptyRACFile = wr at *
        obtain ⟨io1, ok⟩ := wr
        simp only at hw ⊢
        cases ok with
        | false => simp
        | true => intro _; rw [hw rfl, hcp]
      · split
        · simp [CW.fail]
        · split
          · intro h; rw [CW.closeAtEnd_ok _ _ _ h, hcp]
          · intro h; rw [CW.closeAtStart_ok _ _ _ _ h, hcp]

end WuffsVerif.Rac

namespace WuffsVerif.Rac

/-! ### Chain B -/

/-- no underlying call failed between `w` and `w'` -/
def SameFault (w w' : Writer) : Prop := w'.chunkWriter.io.faulted = w.chunkWriter.io.faulted

/-- the outcome `e` of an operation from `w` to `w'` reports every failure of an underlying
call: nil means none failed; an error `x` means none failed or `x` is recorded in `w'.err` -/
def Reports (w w' : Writer) (e : Option Err) : Prop :=
  match e with
  | none => SameFault w w'
  | some x => SameFault w w' ∨ w'.err = some x

theorem SameFault.refl (w : Writer) : SameFault w w := rfl
theorem SameFault.trans {a b c : Writer} (h1 : SameFault a b) (h2 : SameFault b c) : SameFault a c := by
  unfold SameFault at *; rw [h2, h1]
theorem Reports.of_same {w w' : Writer} (e : Option Err) (h : SameFault w w') : Reports w w' e := by
  cases e with
  | none => exact h
  | some x => exact Or.inl h
theorem Reports.trans {a b c : Writer} {e : Option Err} (h1 : SameFault a b) (h2 : Reports b c e) :
    Reports a c e := by
  cases e with
  | none => exact h1.trans h2
  | some x =>
    rcases h2 with h | h
    · exact Or.inl (h1.trans h)
    · exact Or.inr h

/-- `Reports` for the three result types used inside `write` -/
def ExceptReports {α : Type} (w w' : Writer) (r : Except Err α) : Prop :=
  match r with
  | .ok _ => SameFault w w'
  | .error e => Reports w w' (some e)
def TryReports (w w' : Writer) (r : Writer.TryResult) : Prop :=
  match r with
  | .ok => SameFault w w'
  | .short => SameFault w w'
  | .err e => Reports w w' (some e)
def InnerReports (w w' : Writer) (r : Writer.InnerResult) : Prop :=
  match r with
  | .continueOuter => SameFault w w'
  | .ret e => Reports w w' e

theorem Writer.useResource_reports (cw : CodecW) (w : Writer) (i : Int) :
    Reports w (Writer.useResource cw w i).1 (Writer.useResource cw w i).2.2 := by
  unfold Writer.useResource
  simp only
  split
  · exact SameFault.refl w
  · split
    · exact SameFault.refl w
    · split
      · exact Or.inr rfl
      · rename_i wrapped hw
        have ha := CW.addResource_ok w.chunkWriter wrapped
        generalize w.chunkWriter.addResource wrapped = ar at *
        obtain ⟨c, id, e⟩ := ar
        simp only at ha ⊢
        cases e with
        | some e => exact Or.inr rfl
        | none => exact ha rfl

theorem Writer.compressAndUse_reports (cw : CodecW) (w : Writer) (p0 p1 : Bytes) :
    ExceptReports w (Writer.compressAndUse cw w p0 p1).1 (Writer.compressAndUse cw w p0 p1).2 := by
  unfold Writer.compressAndUse
  simp only
  split
  · exact Or.inl (SameFault.refl w)
  · rename_i out hc
    have h1 := Writer.useResource_reports cw w out.secondaryResource
    generalize Writer.useResource cw w out.secondaryResource = u1 at *
    obtain ⟨w1, res2, e1⟩ := u1
    simp only at h1 ⊢
    cases e1 with
    | some e => exact h1
    | none =>
      simp only
      have h2 := Writer.useResource_reports cw w1 out.tertiaryResource
      generalize Writer.useResource cw w1 out.tertiaryResource = u2 at *
      obtain ⟨w2, res3, e2⟩ := u2
      simp only at h2 ⊢
      cases e2 with
      | some e => exact Reports.trans h1 h2
      | none => exact SameFault.trans h1 h2

theorem Writer.writeDChunks_reports (cw : CodecW) (eof : Bool) (fuel : Nat) :
    ∀ w : Writer, Reports w (Writer.writeDChunks cw eof fuel w).1 (Writer.writeDChunks cw eof fuel w).2 := by
  induction fuel with
  | zero => intro w; exact Or.inl (SameFault.refl w)
  | succ f ih =>
    intro w
    unfold Writer.writeDChunks
    simp only
    generalize w.uncompressed.peek w.dChunkSize = pk
    obtain ⟨peek0, peek1⟩ := pk
    simp only
    split
    · exact SameFault.refl w
    · split
      · exact SameFault.refl w
      · have hc := Writer.compressAndUse_reports cw w
          (if (stripTrailingZeroes peek1).length == 0 then stripTrailingZeroes peek0 else peek0)
          (stripTrailingZeroes peek1)
        generalize Writer.compressAndUse cw w
          (if (stripTrailingZeroes peek1).length == 0 then stripTrailingZeroes peek0 else peek0)
          (stripTrailingZeroes peek1) = cu at *
        obtain ⟨w1, r⟩ := cu
        cases r with
        | error e => exact hc
        | ok v =>
          obtain ⟨out, res2, res3⟩ := v
          simp only at hc ⊢
          have ha := CW.addChunk_ok w1.chunkWriter (peek0.length + peek1.length) out.codec out.compressed res2 res3
          generalize w1.chunkWriter.addChunk (peek0.length + peek1.length) out.codec out.compressed res2 res3 = ac at *
          obtain ⟨c, e⟩ := ac
          cases e with
          | some e => exact Or.inr rfl
          | none =>
            simp only at ha ⊢
            refine Reports.trans (SameFault.trans hc ?_) (ih _)
            exact ha trivial

theorem Writer.tryCChunk_reports (cw : CodecW) (w : Writer) (target : Nat) (force : Bool) :
    TryReports w (Writer.tryCChunk cw w target force).1 (Writer.tryCChunk cw w target force).2 := by
  unfold Writer.tryCChunk
  simp only
  generalize w.uncompressed.peek target = pk
  obtain ⟨peek0, peek1⟩ := pk
  simp only
  have hc := Writer.compressAndUse_reports cw w peek0 peek1
  generalize Writer.compressAndUse cw w peek0 peek1 = cu at *
  obtain ⟨w1, r⟩ := cu
  cases r with
  | error e => exact hc
  | ok v =>
    obtain ⟨out, res2, res3⟩ := v
    simp only at hc ⊢
    split
    · exact hc
    · split
      · generalize (w1.uncompressed.advance (peek0.length + peek1.length)).advancePastLeadingZeroes = az
        obtain ⟨u, z⟩ := az
        simp only
        have ha := CW.addChunk_ok w1.chunkWriter (peek0.length + peek1.length + z) out.codec out.compressed res2 res3
        generalize w1.chunkWriter.addChunk (peek0.length + peek1.length + z) out.codec out.compressed res2 res3 = ac at *
        obtain ⟨c, e⟩ := ac
        cases e with
        | some e => exact Or.inr rfl
        | none => simp only at ha ⊢; exact SameFault.trans hc (ha trivial)
      · split
        · exact Or.inr rfl
        · rename_i cB eLen dLen hcut
          split
          · exact Or.inr rfl
          · generalize (w1.uncompressed.advance dLen).advancePastLeadingZeroes = az
            obtain ⟨u, z⟩ := az
            simp only
            have ha := CW.addChunk_ok w1.chunkWriter (dLen + z) out.codec (cB.take eLen) res2 res3
            generalize w1.chunkWriter.addChunk (dLen + z) out.codec (cB.take eLen) res2 res3 = ac at *
            obtain ⟨c, e⟩ := ac
            cases e with
            | some e => exact Or.inr rfl
            | none => simp only at ha ⊢; exact SameFault.trans hc (ha trivial)

theorem Writer.cChunkInner_reports (cw : CodecW) (fuel : Nat) :
    ∀ (w : Writer) (t : Nat),
      InnerReports w (Writer.cChunkInner cw fuel w t).1 (Writer.cChunkInner cw fuel w t).2 := by
  induction fuel with
  | zero => intro w t; exact Or.inl (SameFault.refl w)
  | succ f ih =>
    intro w t
    unfold Writer.cChunkInner
    simp only
    have ht := Writer.tryCChunk_reports cw w t
      (decide ((if t * 2 > maxTargetDChunkSize then maxTargetDChunkSize else t * 2) ≤ t))
    generalize Writer.tryCChunk cw w t
      (decide ((if t * 2 > maxTargetDChunkSize then maxTargetDChunkSize else t * 2) ≤ t)) = tr at *
    obtain ⟨w1, r⟩ := tr
    cases r with
    | ok => exact ht
    | err e => exact ht
    | short =>
      simp only at ht ⊢
      split
      · exact ht
      · have := ih w1 (if t * 2 > maxTargetDChunkSize then maxTargetDChunkSize else t * 2)
        generalize Writer.cChunkInner cw f w1 (if t * 2 > maxTargetDChunkSize then maxTargetDChunkSize else t * 2) = ci at *
        obtain ⟨w2, r2⟩ := ci
        cases r2 with
        | continueOuter => exact SameFault.trans ht this
        | ret e => exact Reports.trans ht this

theorem Writer.writeCChunks_reports (cw : CodecW) (eof : Bool) (fuel : Nat) :
    ∀ w : Writer, Reports w (Writer.writeCChunks cw eof fuel w).1 (Writer.writeCChunks cw eof fuel w).2 := by
  induction fuel with
  | zero => intro w; exact Or.inl (SameFault.refl w)
  | succ f ih =>
    intro w
    unfold Writer.writeCChunks
    simp only
    by_cases hn : (w.uncompressed.length == 0) = true
    · rw [if_pos hn]; exact SameFault.refl w
    · rw [if_neg hn]
      generalize (if (!eof) = true then startingTargetDChunkSize w.cChunkSize else maxTargetDChunkSize) = tg
      by_cases h2 : (!eof && decide (w.uncompressed.length < tg)) = true
      · rw [if_pos h2]; exact SameFault.refl w
      · rw [if_neg h2]
        have hi := Writer.cChunkInner_reports cw 64 w tg
        generalize Writer.cChunkInner cw 64 w tg = ci at *
        obtain ⟨w1, r⟩ := ci
        cases r with
        | continueOuter => exact Reports.trans hi (ih w1)
        | ret e => exact hi

theorem Writer.write_reports (cw : CodecW) (w : Writer) (eof : Bool) :
    Reports w (Writer.write cw w eof).1 (Writer.write cw w eof).2 := by
  unfold Writer.write
  split
  · exact Writer.writeDChunks_reports cw eof _ w
  · exact Writer.writeCChunks_reports cw eof _ w

theorem Writer.init_same (cw : CodecW) (w : Writer) : SameFault w (w.init cw).1 := by
  unfold Writer.init SameFault
  simp only
  repeat (any_goals split)
  all_goals simp_all

/-- `Write`: an underlying failure during the call is reported by the call and recorded -/
theorem Writer.Write_reports (cw : CodecW) (w : Writer) (p : Bytes) :
    Reports w (Writer.Write cw w p).1 (Writer.Write cw w p).2.2 := by
  unfold Writer.Write
  simp only
  have hi := Writer.init_same cw w
  generalize w.init cw = wi at *
  obtain ⟨w1, e1⟩ := wi
  simp only at hi ⊢
  split
  · exact Reports.of_same _ hi
  · split
    · exact Or.inr rfl
    · split
      · exact Or.inl hi
      · rename_i u hu
        have hw := Writer.write_reports cw { w1 with uncompressed := u } false
        generalize Writer.write cw { w1 with uncompressed := u } false = wr at *
        obtain ⟨w2, e2⟩ := wr
        simp only at hw ⊢
        have h01 : SameFault w { w1 with uncompressed := u } := hi
        cases e2 with
        | none => exact SameFault.trans h01 hw
        | some e =>
          rcases hw with h | h
          · exact Or.inl (SameFault.trans h01 h)
          · exact Or.inr h

/-- `Close` returns what it records -/
theorem Writer.Close_records (cw : CodecW) (w : Writer) (x : Err) (h : (w.Close cw).2 = some x) :
    (w.Close cw).1.err = some x := by
  unfold Writer.Close at h ⊢
  split
  · rename_i hc; rw [if_pos hc] at h; exact h
  · rename_i hc
    rw [if_neg hc] at h
    simp only at h ⊢
    split
    · rename_i hn; rw [if_pos hn] at h; simp at h
    · rename_i hn; rw [if_neg hn] at h; exact h

/-- a `Close` that returns nil has seen no failing underlying call -/
theorem Writer.Close_reports (cw : CodecW) (w : Writer) (hcl : w.closed = false)
    (hok : (w.Close cw).2 = none) : SameFault w (w.Close cw).1 := by
  unfold Writer.Close at hok ⊢
  rw [if_neg (by simp [hcl])] at hok ⊢
  generalize h1 : Writer.closeStep1 cw { w with closed := true } = w1 at *
  generalize h2 : Writer.closeStep2 cw w1 = w2 at *
  generalize h3 : Writer.closeStep3 w2 = w3 at *
  generalize h4 : Writer.closeStep4 cw w3 = w4 at *
  simp only at hok ⊢
  by_cases e4 : w4.err.isNone = true
  · rw [if_pos e4]
    have e4' : w4.err = none := by simpa using e4
    obtain ⟨e3, c4⟩ := closeStep4_none cw w3 (by rw [h4]; exact e4')
    obtain ⟨e2, _⟩ := closeStep3_none w2 (by rw [h3]; exact e3)
    obtain ⟨e1, wnone, c2⟩ := closeStep2_none cw w1 (by rw [h2]; exact e2)
    obtain ⟨inone, ierr, c1, u1, weq⟩ := closeStep1_none cw { w with closed := true } (by rw [h1]; exact e1)
    rw [h4] at c4; rw [h2] at c2; rw [h1] at weq
    -- step 1
    have s1 : SameFault w w1 := by
      have := Writer.init_same cw { w with closed := true }
      rw [← weq] at this; exact this
    -- step 2
    have s2 : SameFault w1 w2 := by
      have := Writer.write_reports cw w1 true
      rw [wnone] at this
      have this' : SameFault w1 (Writer.write cw w1 true).1 := this
      unfold SameFault at this' ⊢
      rw [c2]; exact this'
    -- step 3
    have s3 : SameFault w2 w3 := by
      rw [← h3]
      unfold Writer.closeStep3 SameFault
      rw [if_pos (by simp [e2])]
      simp only
      have hnone : (w2.chunkWriter.close).2 = none := by
        have := e3
        rw [← h3] at this
        unfold Writer.closeStep3 at this
        rw [if_pos (by simp [e2])] at this
        exact this
      exact CW.close_ok _ hnone
    have s4 : SameFault w3 w4 := by
      unfold SameFault; rw [c4]
    exact s1.trans (s2.trans (s3.trans s4))
  · rw [if_neg e4] at hok
    simp only at hok
    simp [hok] at e4

end WuffsVerif.Rac
