/-
C17: the `fuel` of `decodeXzChunks` is a modelling device only: every round consumes at least one byte,
so any amount of fuel above the input length gives the same result (the Go loop `for { … }` has none).
-/
import WuffsVerif.Proof.LzmaBasic

namespace WuffsVerif.Lzma

theorem decodeBit_src_le (p : Nat) (d : RangeDecoder) (b p' : Nat) (d' : RangeDecoder)
    (hd : decodeBit p d = some (b, p', d')) : d'.src.length ≤ d.src.length := by
  unfold decodeBit at hd
  dsimp only at hd
  split at hd
  · split at hd
    · split at hd
      · cases hd
      · rename_i s rest hsrc
        cases hd
        simp [hsrc]
    · cases hd; exact Nat.le_refl _
  · split at hd
    · split at hd
      · cases hd
      · rename_i s rest hsrc
        cases hd
        simp [hsrc]
    · cases hd; exact Nat.le_refl _

theorem decodeByteLoop_src_le (base : Nat) : ∀ (n index : Nat) (probs : Array Nat) (d : RangeDecoder)
    (r : Nat × Array Nat × RangeDecoder),
    decodeByteLoop base n index probs d = some r → r.2.2.src.length ≤ d.src.length := by
  intro n
  induction n with
  | zero =>
    intro index probs d r h
    simp only [decodeByteLoop] at h
    cases h; exact Nat.le_refl _
  | succ n ih =>
    intro index probs d r h
    simp only [decodeByteLoop] at h
    split at h
    · cases h
    · rename_i bitValue p' d' hd
      have h1 := decodeBit_src_le _ _ _ _ _ hd
      have h2 := ih _ _ _ r h
      omega

theorem decodeRawLoop_src_le : ∀ (size pos : Nat) (prev : UInt8) (pp lp : Array Nat) (d : RangeDecoder)
    (dst : Array UInt8) (eu : Err),
    (decodeRawLoop size pos prev pp lp d dst eu).2.1.length ≤ d.src.length := by
  intro size
  induction size with
  | zero => intros; simp [decodeRawLoop]
  | succ size ih =>
    intro pos prev pp lp d dst eu
    simp only [decodeRawLoop]
    split
    · simp
    · rename_i bitValue p' d1 hd1
      have h1 := decodeBit_src_le _ _ _ _ _ hd1
      split
      · exact h1
      · unfold decodeByte
        split
        · simp
        · rename_i curr lp' d2 hsome
          split at hsome
          · cases hsome
          · rename_i index probs' d'' hloop
            cases hsome
            have h2 := decodeByteLoop_src_le _ _ _ _ _ _ hloop
            have h3 := ih ((pos + 1) &&& 0xFFFFFFFF) index.toUInt8
              (pp.setIfInBounds (pos &&& pbMask) p') lp' d2 (dst.push index.toUInt8) eu
            dsimp only at h2
            omega

theorem decodeRaw_src_le (dst : Array UInt8) (src : List UInt8) (size : Nat) (eu : Err) :
    (decodeRaw dst src size eu).2.1.length ≤ src.length := by
  unfold decodeRaw
  split
  · split
    · exact Nat.le_refl _
    · rename_i s0 s1 s2 s3 s4 rest _
      have := decodeRawLoop_src_le size 0 0 initPosProbs initLitProbs
        ⟨rest, (s1.toNat <<< 24) ||| (s2.toNat <<< 16) ||| (s3.toNat <<< 8) ||| s4.toNat, 0xFFFFFFFF⟩ dst eu
      simp only [List.length_cons]
      dsimp only at this
      omega
  · exact Nat.le_refl _

/-- **fuel is irrelevant** once it exceeds the input length -/
theorem decodeXzChunks_fuel : ∀ (f1 f2 : Nat) (dst : Array UInt8) (src : List UInt8),
    src.length < f1 → src.length < f2 → decodeXzChunks f1 dst src = decodeXzChunks f2 dst src := by
  intro f1
  induction f1 with
  | zero => intro f2 dst src h1; omega
  | succ f1 ih =>
    intro f2 dst src h1 h2
    obtain ⟨g2, rfl⟩ : ∃ g, f2 = g + 1 := ⟨f2 - 1, by omega⟩
    unfold decodeXzChunks
    split
    · rfl
    · rename_i c src1
      simp only [List.length_cons] at h1 h2
      split
      · rfl
      · split
        · split
          · rename_i u1 u0 src3
            dsimp only
            split
            · rfl
            · simp only [List.length_cons] at h1 h2
              exact ih _ _ _ (by simp only [List.length_drop]; omega) (by simp only [List.length_drop]; omega)
          · rfl
        · split
          · split
            · rename_i u1 u0 c1 c0 prop src6
              simp only [List.length_cons] at h1 h2
              split
              · rfl
              · dsimp only
                split
                · rfl
                · have hr := decodeRaw_src_le dst src6 ((u1.toNat <<< 8) + u0.toNat + 1) Err.unsupportedXz
                  generalize decodeRaw dst src6 ((u1.toNat <<< 8) + u0.toNat + 1) Err.unsupportedXz = res at *
                  obtain ⟨dst', src', err⟩ := res
                  dsimp only at hr ⊢
                  split
                  · rfl
                  · split
                    · rfl
                    · exact ih _ _ _ (by omega) (by omega)
            · rfl
          · rfl

end WuffsVerif.Lzma
