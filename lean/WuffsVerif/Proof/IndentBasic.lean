/-
Helper lemmas for C12 (the C indenter model, `Model/Indent.lean`):
byte conservation and length bounds of the pieces, and termination (fuel
`length + 1` is always enough).  Core Lean only.
-/
import WuffsVerif.Model.Indent

namespace WuffsVerif.Indent

theorem splitRaw_eq (q s : Bytes) : (splitRaw q s).1 ++ (splitRaw q s).2 = s := by
  induction s with
  | nil => simp [splitRaw]
  | cons x xs ih =>
    unfold splitRaw
    split
    · rename_i h
      have h' := List.isPrefixOf_iff_prefix.mp h
      obtain ⟨t, ht⟩ := h'
      simp only
      rw [← ht]
      simp
    · simp [ih]

theorem splitRaw_len (q s : Bytes) : (splitRaw q s).2.length ≤ s.length := by
  have h := congrArg List.length (splitRaw_eq q s)
  simp only [List.length_append] at h
  omega

theorem splitLine_eq (s : Bytes) : (splitLine s).1 ++ (splitLine s).2 = s := by
  simp [splitLine, List.takeWhile_append_dropWhile]

theorem splitLine_len (s : Bytes) : (splitLine s).1.length + (splitLine s).2.length = s.length := by
  have h := congrArg List.length (splitLine_eq s)
  simpa [List.length_append] using h

theorem skipCooked_suffix (q : UInt8) (s : Bytes) : ∃ p, p ++ skipCooked q s = s := by
  suffices h : ∀ n (s : Bytes), s.length ≤ n → ∃ p, p ++ skipCooked q s = s from h _ s (Nat.le_refl _)
  intro n
  induction n with
  | zero =>
    intro s hs
    cases s with
    | nil => exact ⟨[], by simp [skipCooked]⟩
    | cons _ _ => simp at hs
  | succ n ih =>
    intro s hs
    match s with
    | [] => exact ⟨[], by simp [skipCooked]⟩
    | [x] => exact ⟨[x], by simp [skipCooked]⟩
    | x :: y :: ys =>
      unfold skipCooked
      split
      · exact ⟨[x], by simp⟩
      · split
        · obtain ⟨p, hp⟩ := ih (y :: ys) (by simp at hs ⊢; omega)
          exact ⟨x :: p, by simp [hp]⟩
        · obtain ⟨p, hp⟩ := ih ys (by simp at hs ⊢; omega)
          exact ⟨x :: y :: p, by simp [hp]⟩

theorem skipCooked_len (q : UInt8) (s : Bytes) : (skipCooked q s).length ≤ s.length := by
  obtain ⟨p, hp⟩ := skipCooked_suffix q s
  have h := congrArg List.length hp
  simp only [List.length_append] at h
  omega

theorem skipCooked_take (q : UInt8) (s : Bytes) :
    s.take (s.length - (skipCooked q s).length) ++ skipCooked q s = s := by
  obtain ⟨p, hp⟩ := skipCooked_suffix q s
  have hl : s.length - (skipCooked q s).length = p.length := by
    have h := congrArg List.length hp
    simp only [List.length_append] at h
    omega
  rw [hl]
  have : s.take p.length = p := by
    conv => lhs; rw [← hp]
    simp
  rw [this, hp]

theorem trimLeadingWs_len (s : Bytes) : (trimLeadingWs s).length ≤ s.length := by
  unfold trimLeadingWs
  induction s with
  | nil => simp
  | cons x xs ih => rw [List.dropWhile_cons]; split <;> simp <;> omega

end WuffsVerif.Indent

namespace WuffsVerif.Indent

/-- `[]` or starts with a newline -/
def NlHead (t : Bytes) : Prop := t = [] ∨ ∃ u, t = NL :: u

theorem splitLine_nlHead (s : Bytes) : NlHead (splitLine s).2 := by
  unfold splitLine NlHead
  simp only
  induction s with
  | nil => simp
  | cons x xs ih =>
    rw [List.dropWhile_cons]
    split
    · exact ih
    · rename_i h
      right
      refine ⟨xs, ?_⟩
      have : x = NL := by simpa using h
      rw [this]

theorem splitLine_noNl (s : Bytes) : NL ∉ (splitLine s).1 := by
  unfold splitLine
  simp only
  induction s with
  | nil => simp
  | cons x xs ih =>
    rw [List.takeWhile_cons]
    split
    · rename_i h
      have : x ≠ NL := by simpa using h
      simp only [List.mem_cons, not_or]
      exact ⟨fun e => this e.symm, ih⟩
    · simp

/-- What `scan` guarantees about its result, relative to its arguments. -/
structure ScanSpec (out pend rest tail : Bytes) (r : ScanOut) : Prop where
  bytes : r.out ++ (r.line ++ r.tail) = out ++ (pend.reverse ++ (rest ++ tail))
  len : r.tail.length ≤ rest.length + tail.length
  noNl : NL ∉ pend → NL ∉ rest → NL ∉ r.line
  nlHead : NlHead tail → NlHead r.tail

theorem ScanSpec.step {out pend cs tail : Bytes} {c : UInt8} {r : ScanOut}
    (h : ScanSpec out (c :: pend) cs tail r) : ScanSpec out pend (c :: cs) tail r where
  bytes := by rw [h.bytes]; simp
  len := by have := h.len; simp only [List.length_cons]; omega
  noNl := fun h1 h2 => h.noNl (by simp only [List.mem_cons, not_or] at h2 ⊢; exact ⟨h2.1, h1⟩)
    (by simp only [List.mem_cons, not_or] at h2; exact h2.2)
  nlHead := h.nlHead

theorem ScanSpec.raw {out pend pre mid tail : Bytes} {q : Bytes} {r : ScanOut}
    (h : ScanSpec (out ++ (pend.reverse ++ (pre ++ (splitRaw q (mid ++ tail)).1))) []
      (splitLine (splitRaw q (mid ++ tail)).2).1 (splitLine (splitRaw q (mid ++ tail)).2).2 r) :
    ScanSpec out pend (pre ++ mid) tail r where
  bytes := by
    rw [h.bytes]
    have e1 := splitLine_eq (splitRaw q (mid ++ tail)).2
    have e2 := splitRaw_eq q (mid ++ tail)
    simp only [List.reverse_nil, List.nil_append, List.append_assoc]
    rw [e1, e2]
  len := by
    have h1 := h.len
    have e1 := splitLine_len (splitRaw q (mid ++ tail)).2
    have e2 := splitRaw_len q (mid ++ tail)
    simp only [List.length_append] at e2 ⊢
    omega
  noNl := fun _ _ => h.noNl (by simp) (splitLine_noNl _)
  nlHead := fun _ => h.nlHead (splitLine_nlHead _)

theorem ScanSpec.cooked {out pend cs tail : Bytes} {c : UInt8} {r : ScanOut}
    (h : ScanSpec (out ++ (pend.reverse ++ c :: cs.take (cs.length - (skipCooked c cs).length))) []
      (skipCooked c cs) tail r) :
    ScanSpec out pend (c :: cs) tail r where
  bytes := by
    rw [h.bytes]
    have e := skipCooked_take c cs
    simp only [List.reverse_nil, List.nil_append, List.append_assoc, List.cons_append]
    conv => rhs; rw [← e]
    simp
  len := by
    have h1 := h.len
    have e := skipCooked_len c cs
    simp only [List.length_cons]
    omega
  noNl := fun _ h2 => h.noNl (by simp) (by
    obtain ⟨p, hp⟩ := skipCooked_suffix c cs
    intro hm
    apply h2
    rw [← hp]
    simp [hm])
  nlHead := h.nlHead

theorem scan_spec : ∀ (fuel : Nat) (nB nP : Int) (last : UInt8) (clo : Bool) (out pend rest tail : Bytes) (r : ScanOut),
    scan fuel nB nP last clo out pend rest tail = some r → ScanSpec out pend rest tail r := by
  intro fuel
  induction fuel with
  | zero => intro nB nP last clo out pend rest tail r h; simp [scan] at h
  | succ f ih =>
    intro nB nP last clo out pend rest tail r h
    cases rest with
    | nil =>
      simp only [scan, Option.some.injEq] at h
      subst h
      exact ⟨by simp, by simp, fun h1 _ => by simpa using h1, fun h => h⟩
    | cons c cs =>
      unfold scan at h
      split at h
      · exact (ih _ _ _ _ _ _ _ _ _ h).step
      split at h
      · exact (ih _ _ _ _ _ _ _ _ _ h).step
      split at h
      · exact (ih _ _ _ _ _ _ _ _ _ h).step
      split at h
      · exact (ih _ _ _ _ _ _ _ _ _ h).step
      split at h
      · -- '/'
        split at h
        · exact (ih _ _ _ _ _ _ _ _ _ h).step
        · rename_i d ds
          split at h
          · simp only [Option.some.injEq] at h
            subst h
            exact ⟨by simp, by simp, fun h1 h2 => by
              simp only [List.mem_append, List.mem_reverse, not_or]; exact ⟨h1, h2⟩, fun h => h⟩
          split at h
          · have := (ih _ _ _ _ _ _ _ _ _ h)
            exact ScanSpec.raw (pre := [c, d]) (mid := ds) (q := starSlash) (by simpa using this)
          · exact (ih _ _ _ _ _ _ _ _ _ h).step
      split at h
      · exact (ih _ _ _ _ _ _ _ _ _ h).cooked
      split at h
      · have := (ih _ _ _ _ _ _ _ _ _ h)
        exact ScanSpec.raw (pre := [c]) (mid := cs) (q := backTick) (by simpa using this)
      · exact (ih _ _ _ _ _ _ _ _ _ h).step

theorem scan_isSome : ∀ (fuel : Nat) (nB nP : Int) (last : UInt8) (clo : Bool) (out pend rest tail : Bytes),
    rest.length + tail.length < fuel → (scan fuel nB nP last clo out pend rest tail).isSome := by
  intro fuel
  induction fuel with
  | zero => intro nB nP last clo out pend rest tail h; omega
  | succ f ih =>
    intro nB nP last clo out pend rest tail h
    cases rest with
    | nil => simp [scan]
    | cons c cs =>
      have hstep : cs.length + tail.length < f := by simp only [List.length_cons] at h; omega
      have hraw : ∀ (q mid : Bytes), mid.length ≤ cs.length →
          (splitLine (splitRaw q (mid ++ tail)).2).1.length +
          (splitLine (splitRaw q (mid ++ tail)).2).2.length < f := by
        intro q mid hm
        have e1 := splitLine_len (splitRaw q (mid ++ tail)).2
        have e2 := splitRaw_len q (mid ++ tail)
        simp only [List.length_append] at e2
        omega
      unfold scan
      split
      · exact ih _ _ _ _ _ _ _ _ hstep
      split
      · exact ih _ _ _ _ _ _ _ _ hstep
      split
      · exact ih _ _ _ _ _ _ _ _ hstep
      split
      · exact ih _ _ _ _ _ _ _ _ hstep
      split
      · split
        · exact ih _ _ _ _ _ _ _ _ hstep
        · rename_i d ds
          split
          · simp
          split
          · exact ih _ _ _ _ _ _ _ _ (hraw _ ds (by simp))
          · exact ih _ _ _ _ _ _ _ _ hstep
      split
      · refine ih _ _ _ _ _ _ _ _ ?_
        have := skipCooked_len c cs
        omega
      split
      · exact ih _ _ _ _ _ _ _ _ (hraw _ cs (Nat.le_refl _))
      · exact ih _ _ _ _ _ _ _ _ hstep

end WuffsVerif.Indent

namespace WuffsVerif.Indent

theorem codeLine_isSome (o : Opts) (ii : Nat) (st : St) (line tail : Bytes) :
    (codeLine o ii st line tail).isSome := by
  unfold codeLine
  simp only []
  have h := scan_isSome ((line.drop (closeBracesOf line)).length + tail.length + 1)
    (nBracesAtLineStart st line) st.nParens (lastNonWs (line.drop (closeBracesOf line))) true [] []
    (line.drop (closeBracesOf line)) tail (Nat.lt_succ_self _)
  split
  · rename_i hs; rw [hs] at h; simp at h
  · simp

/-- What `codeLine` guarantees: the text is indentation, then the consumed bytes `X ++ l`
with the trailing blanks of the last line `l` removed, then a newline. -/
theorem codeLine_spec (o : Opts) (ii : Nat) (st : St) (line tail : Bytes) (text : Bytes) (st' : St)
    (tail' : Bytes) (h : codeLine o ii st line tail = some (text, st', tail')) :
    ∃ (n : Nat) (X l : Bytes),
      text = List.replicate n o.indentByte ++ (X ++ (trimTrailingWs l ++ [NL])) ∧
      X ++ (l ++ tail') = line ++ tail ∧
      (NL ∉ line → NL ∉ l) ∧
      tail'.length ≤ line.length + tail.length ∧
      (NlHead tail → NlHead tail') ∧
      st'.nBlank = 0 := by
  unfold codeLine at h
  simp only [] at h
  split at h
  · simp at h
  · rename_i r hs
    simp only [Option.some.injEq, Prod.mk.injEq] at h
    obtain ⟨h1, h2, h3⟩ := h
    have sp := scan_spec _ _ _ _ _ _ _ _ _ _ hs
    refine ⟨codeIndent o ii st (nBracesAtLineStart st line), line.take (closeBracesOf line) ++ r.out, r.line, ?_, ?_, ?_, ?_, ?_, ?_⟩
    · rw [← h1]; simp
    · have := sp.bytes
      simp only [List.reverse_nil, List.nil_append] at this
      rw [← h3, List.append_assoc, this, ← List.append_assoc, List.take_append_drop]
    · intro hn
      exact sp.noNl (by simp) (fun hm => hn (List.mem_of_mem_drop hm))
    · have := sp.len
      rw [← h3]
      simp only [List.length_drop] at this
      omega
    · rw [← h3]; exact sp.nlHead
    · rw [← h2]

theorem drop1_len_lt (t : Bytes) (n : Nat) (h : t.length ≤ n) (hn : 0 < n) : (t.drop 1).length < n := by
  simp only [List.length_drop]; omega

theorem loop_isSome (o : Opts) (ii : Nat) : ∀ (fuel : Nat) (st : St) (src : Bytes),
    src.length < fuel → (loop o ii fuel st src).isSome := by
  intro fuel
  induction fuel with
  | zero => intro st src h; omega
  | succ f ih =>
    intro st src h
    unfold loop
    split
    · simp
    · rename_i hne
      have hpos : 0 < src.length := by
        cases src with
        | nil => simp at hne
        | cons _ _ => simp
      have h1 := trimLeadingWs_len src
      have h2 := splitLine_len (trimLeadingWs src)
      simp only []
      split
      · exact ih _ _ (drop1_len_lt _ _ (by omega) (by omega))
      · rename_i c0 l' hl
        split
        · rw [Option.isSome_map]
          exact ih _ _ (drop1_len_lt _ _ (by omega) (by omega))
        · have hc := codeLine_isSome o ii st (c0 :: l') (splitLine (trimLeadingWs src)).2
          split
          · rename_i hs; rw [hs] at hc; simp at hc
          · rename_i x hx
            rw [Option.isSome_map]
            obtain ⟨text, st', tail'⟩ := x
            obtain ⟨_, _, _, _, _, _, hlen, _, _⟩ := codeLine_spec _ _ _ _ _ _ _ _ hx
            rw [← hl] at hlen
            exact ih _ _ (drop1_len_lt _ _ (by simp only []; omega) (by omega))

theorem formatFuel_isSome (o : Opts) (s : Bytes) : (formatFuel (s.length + 1) o s).isSome := by
  unfold formatFuel
  simp only []
  split
  · simp
  · apply loop_isSome
    have : ∀ (t : Bytes), (trimLeadingWsNl t).length ≤ t.length := by
      intro t
      unfold trimLeadingWsNl
      induction t with
      | nil => simp
      | cons x xs ih => rw [List.dropWhile_cons]; split <;> simp <;> omega
    have := this s
    omega

end WuffsVerif.Indent
