/-
C07 helper, part 11: the dynamic-Huffman proof closed — the table-filling loop (`fillSpec_holds`,
Proof/StdDeflateDynFill.lean: canonical code assignment, bit reversal, first-level replication, second-level table
sizing and the HUFFS_TABLE_SIZE bound) plugged into the assembly of Proof/StdDeflateDynAll.lean.  Core Lean only.
-/
import WuffsVerif.Proof.StdDeflateDynFill
import WuffsVerif.Proof.StdDeflateDynAll

namespace WuffsVerif.StdDeflate

/-- **`init_huff` is correct** for the three calls `init_dynamic_huffman` makes, on every complete code and on the
    degenerate one-code distance code: it returns `ok`, and the table it leaves in `huffs[which]` (whatever was there
    before) is prefix-replicated and agrees with the specification's canonical code on all 2^15 windows. -/
theorem initHuffSpec_holds : InitHuffSpec := initHuffSpec_of_fill fillSpec_holds

/-- **The former open obligation `DynRefines`.**  At every dynamic block the specification reaches and whose header
    std/deflate accepts (`DynOK`: complete code-length and literal/length codes, an end-of-block code, a complete or
    one-code distance code), the mirror of `init_dynamic_huffman` + `init_huff` accepts the header, stops at the same
    bit and builds tables that implement the specification's two codes. -/
theorem dynRefines_holds (s : Bytes) (hok : DynOK s) : DynRefines s := dynRefines_of_fill fillSpec_holds s hok

end WuffsVerif.StdDeflate
