/-
C13: from static facts + layout + bounds to `Placed` (`placed_of`), and the chunks of a placed tree leaf by
leaf (`chunks_match`).
-/
import WuffsVerif.Proof.RacStatic
namespace WuffsVerif.Rac
open Spec

theorem atPos_of_split (file : Array UInt8) (pre seg post : Bytes) (pos : Nat)
    (h : file.toList = pre ++ seg ++ post) (hp : pre.length = pos) : AtPos file pos seg := by
  unfold AtPos slice
  have hsz : file.size = pre.length + seg.length + post.length := by
    have := congrArg List.length h
    simp [List.length_append] at this; omega
  rw [if_pos (by omega)]
  congr 1
  have : (file.extract pos (pos + seg.length)).toList = (file.toList.drop pos).take seg.length := by
    simp
  rw [this, h, ← hp]
  simp [List.append_assoc]

theorem laidOutList_iff (nw : NodeWriter) (S : Bytes) (base : Nat) (cs : List WNode) :
    LaidOutList nw S base cs ↔ ∀ o ∈ cs, LaidOut nw S base o := by
  induction cs with
  | nil => simp [LaidOutList]
  | cons o os ih => simp [LaidOutList, ih]

theorem offsBelowList_iff (H : Nat) (cs : List WNode) : OffsBelowList H cs ↔ ∀ o ∈ cs, OffsBelow H o := by
  induction cs with
  | nil => simp [OffsBelowList]
  | cons o os ih => simp [OffsBelowList, ih]

theorem mem_leavesOfList {x : WNode} {cs : List WNode} : x ∈ leavesOfList cs ↔ ∃ o ∈ cs, x ∈ leavesOf o := by
  induction cs with
  | nil => simp [leavesOfList]
  | cons a as ih => simp [leavesOfList, ih]

theorem dRangeSize_le_sum (cs : List WNode) (o : WNode) (h : o ∈ cs) :
    o.dRangeSize ≤ (cs.map WNode.dRangeSize).sum := by
  induction cs with
  | nil => simp at h
  | cons a as ih =>
    rcases List.mem_cons.mp h with rfl | h
    · simp
    · have := ih h; simp; omega

/-- from the static facts, the layout and the bounds: the tree is `Placed` in the file -/
theorem placed_of (file : Array UInt8) (nw : NodeWriter) (c H : Nat) (hv : codecValid c = true)
    (hcfs : nw.cFileSize < 2 ^ 48) (hH : nw.indexCOffset + H ≤ nw.cFileSize)
    (hres : ∀ r, nw.resourcesCOffCLens.getD r 0 < 2 ^ 56 ∧
      nw.resourcesCOffCLens.getD r 0 % 2 ^ 48 + nw.dataCOffset ≤ nw.cFileSize) :
    ∀ n : WNode, Stat c n → LaidOut nw file.toList nw.indexCOffset n → OffsBelow H n →
      (∀ o ∈ leavesOf n, o.cOffsetCLength < 2 ^ 56 ∧ o.cOffsetCLength % 2 ^ 48 + nw.dataCOffset ≤ nw.cFileSize) →
      n.dRangeSize < 2 ^ 48 → Placed file nw n := by
  apply WNode.tree_ind
  intro d cs rs col s t c' ih hs hlo hob hleaf hd
  simp only [Stat] at hs
  obtain ⟨s1, s2, s3⟩ := hs
  simp only [Placed]
  refine ⟨s1, ?_⟩
  by_cases hne : cs = []
  · exact Or.inl hne
  · right
    obtain ⟨e1, e2, e3, e4, e5, e6, e7⟩ := s3 hne
    subst e1
    simp only [LaidOut] at hlo
    simp only [OffsBelow] at hob
    rcases hlo with h | ⟨⟨pre, post, hsplit, hpre⟩, hlol⟩
    · exact absurd h hne
    rcases hob with h | ⟨o1, o2, obl⟩
    · exact absurd h hne
    simp only [WNode.dRangeSize] at hd
    rw [leavesOf_branch _ _ _ _ _ _ _ hne] at hleaf
    have hchild : ∀ o ∈ cs, o.cOffsetCLength < 2 ^ 56 ∧
        o.cOffsetCLength % 2 ^ 48 + (if o.isBranch then nw.indexCOffset else nw.dataCOffset) ≤ nw.cFileSize := by
      intro o ho
      by_cases hb : o.isBranch = true
      · rw [if_pos hb]
        have := (offsBelowList_iff H cs).mp obl o ho
        cases o with
        | mk d' cs' rs' col' s' t' c'' =>
          simp only [OffsBelow] at this
          rcases this with h | ⟨p1, p2, _⟩
          · rw [h] at hb; simp [WNode.isBranch, WNode.children] at hb
          · simp only [WNode.cOffsetCLength]
            exact ⟨p1, by omega⟩
      · rw [if_neg hb]
        apply hleaf o
        rw [mem_leavesOfList]
        refine ⟨o, ho, ?_⟩
        cases o with
        | mk d' cs' rs' col' s' t' c'' =>
          have : cs' = [] := by
            cases cs' with
            | nil => rfl
            | cons _ _ => simp [WNode.isBranch, WNode.children] at hb
          subst this
          simp [leavesOf]
    refine ⟨⟨hv, e2, hne, e3, by omega, hcfs, hchild, fun r _ => hres r,
        fun o ho => ⟨e6 _ (List.mem_map.mpr ⟨o, ho, rfl⟩), e7 _ (List.mem_map.mpr ⟨o, ho, rfl⟩)⟩⟩,
      atPos_of_split file pre _ post _ hsplit (by omega), e4, ?_⟩
    rw [placedList_iff]
    intro o ho
    have hso := (statList_iff c' d cs).mp e5 o ho
    have hlt : o.dRangeSize ≤ d := by rw [e4]; exact dRangeSize_le_sum cs o ho
    refine ⟨ih o ho hso.1 ((laidOutList_iff _ _ _ _).mp hlol o ho) ((offsBelowList_iff H cs).mp obl o ho) ?_ (by omega), ?_⟩
    · intro x hx
      exact hleaf x (mem_leavesOfList.mpr ⟨o, ho, hx⟩)
    · intro hb
      refine ⟨?_, hso.2 hb⟩
      cases o with
      | mk d' cs' rs' col' s' t' c'' =>
        have hs' := hso.1
        simp only [Stat] at hs'
        have hne' : cs' ≠ [] := by
          intro h; rw [h] at hb; simp [WNode.isBranch, WNode.children] at hb
        exact (hs'.2.2 hne').1

/-! ### the chunks of a placed tree, leaf by leaf -/

/-- the CRange the reader computes for resource id `r` (0 = none): empty, or the recorded
`COffset|CLength` of that resource, shifted by `dataCOffset` -/
def ResRange (nw : NodeWriter) (r : Nat) (rg : Rng) : Prop :=
  if r = 0 then rg.lo = rg.hi
  else rg.lo = nw.resourcesCOffCLens.getD r 0 % 2 ^ 48 + nw.dataCOffset ∧
    rg.hi = (if nw.resourcesCOffCLens.getD r 0 / 2 ^ 48 = 0 then nw.cFileSize
      else min nw.cFileSize (nw.resourcesCOffCLens.getD r 0 % 2 ^ 48 + nw.dataCOffset +
        nw.resourcesCOffCLens.getD r 0 / 2 ^ 48 * 1024))

/-- what the reader's chunk for leaf `o`, whose DRange starts at `dlo`, looks like -/
def ChunkFor (nw : NodeWriter) (c : Nat) (o : WNode) (dlo : Nat) (ch : Chunk) : Prop :=
  ch.dRange = ⟨dlo, dlo + o.dRangeSize⟩ ∧ ch.codec = c ∧
  ch.cPrimary.lo = o.cOffsetCLength % 2 ^ 48 + nw.dataCOffset ∧
  ch.cPrimary.hi = (if o.cOffsetCLength / 2 ^ 48 = 0 then nw.cFileSize
    else min nw.cFileSize (o.cOffsetCLength % 2 ^ 48 + nw.dataCOffset + o.cOffsetCLength / 2 ^ 48 * 1024)) ∧
  ResRange nw o.secondary ch.cSecondary ∧ ResRange nw o.tertiary ch.cTertiary

theorem idxOf_of_mem (rs : List Nat) (r : Nat) (h : r ∈ rs) :
    ∃ i, rs.idxOf? r = some i ∧ i < rs.length ∧ rs.getD i 0 = r := by
  unfold List.idxOf?
  cases hf : List.findIdx? (fun x => x == r) rs with
  | none =>
    rw [List.findIdx?_eq_none_iff] at hf
    have := hf r h
    simp at this
  | some i =>
    obtain ⟨hi, hp, _⟩ := List.findIdx?_eq_some_iff_getElem.mp hf
    refine ⟨i, rfl, hi, ?_⟩
    rw [List.getD_eq_getElem?_getD, List.getElem?_eq_getElem hi]
    simpa using hp

/-- the CRange of the resource a leaf names through its STag/TTag -/
theorem res_range (nw : NodeWriter) (cs : List WNode) (rs : List Nat) (c : Nat) (ok : NodeOK nw cs rs c)
    (off db r : Nat) (hr : r ≠ 0 → r ∈ rs) :
    ∃ rg, makeCRange (parsedBranch nw cs rs c off 0 db) (resourceToTagByte rs r (codecIsLong c).toNat) = .ok rg ∧
      ResRange nw r rg := by
  have hL := long_le_one c
  have hA := ok.arity
  have hne : cs.length ≠ 0 := fun h0 => ok.nonempty (List.eq_nil_of_length_eq_zero h0)
  by_cases h0 : r = 0
  · subst h0
    rw [resourceToTagByte_zero]
    unfold makeCRange
    rw [if_pos (by rw [pb_arity]; omega)]
    exact ⟨_, rfl, by simp [ResRange]⟩
  · obtain ⟨i, hi1, hi2, hi3⟩ := idxOf_of_mem rs r (hr h0)
    have htag : resourceToTagByte rs r (codecIsLong c).toNat = (codecIsLong c).toNat + i := by
      unfold resourceToTagByte
      have : (r != 0) = true := by simpa using h0
      rw [if_pos this, hi1]; simp only; omega
    rw [htag]
    obtain ⟨rg, g1, g2⟩ := pb_makeCRange nw cs rs c ok off 0 db ((codecIsLong c).toNat + i) (by omega)
    obtain ⟨lo1, hi1'⟩ := g2 (by omega)
    rw [vCO_res nw cs rs c i hi2, hi3] at lo1 hi1'
    simp only [Nat.zero_add] at lo1 hi1'
    refine ⟨rg, g1, ?_⟩
    unfold ResRange
    rw [if_neg h0]
    exact ⟨lo1, hi1'⟩

/-- chunk list vs. leaf list, with the running DSpace offset -/
def Matches (nw : NodeWriter) (c : Nat) : List Chunk → List WNode → Nat → Prop
  | [], [], _ => True
  | ch :: chs, o :: os, d => ChunkFor nw c o d ch ∧ Matches nw c chs os (d + o.dRangeSize)
  | _, _, _ => False

theorem Matches.append {nw : NodeWriter} {c : Nat} {a : List Chunk} {x : List WNode} {b : List Chunk} {y : List WNode}
    {d : Nat} (h1 : Matches nw c a x d) (h2 : Matches nw c b y (d + (x.map WNode.dRangeSize).sum)) :
    Matches nw c (a ++ b) (x ++ y) d := by
  induction a generalizing x d with
  | nil =>
    cases x with
    | nil => simpa using h2
    | cons _ _ => simp [Matches] at h1
  | cons ch chs ih =>
    cases x with
    | nil => simp [Matches] at h1
    | cons o os =>
      simp only [Matches] at h1
      simp only [List.cons_append, Matches]
      refine ⟨h1.1, ih h1.2 ?_⟩
      simp only [List.map_cons, List.sum_cons] at h2
      rwa [Nat.add_assoc]

theorem chunks_match (file : Array UInt8) (nw : NodeWriter) (n : WNode) (db : Nat) :
    ∀ (d : Nat) (cs : List WNode) (rs : List Nat) (col s t c : Nat), n = .mk d cs rs col s t c → cs ≠ [] →
      Placed file nw n →
      Matches nw c (chunksOfNode nw n db) (leavesOf n) db ∧ ((leavesOf n).map WNode.dRangeSize).sum = d := by
  refine chunksOfNode.induct nw
    (fun n db => ∀ (d : Nat) (cs : List WNode) (rs : List Nat) (col s t c : Nat), n = .mk d cs rs col s t c → cs ≠ [] →
      Placed file nw n →
      Matches nw c (chunksOfNode nw n db) (leavesOf n) db ∧ ((leavesOf n).map WNode.dRangeSize).sum = d)
    (fun b a os => ∀ (cs : List WNode) (rs : List Nat) (c d db : Nat) (pre : List WNode), cs = pre ++ os →
      a = (codecIsLong c).toNat + rs.length + pre.length → b = parsedBranch nw cs rs c 0 0 db →
      NodeOK nw cs rs c → PlacedList file nw c d os →
      Matches nw c (chunksOfList nw b a os) (leavesOfList os) (db + prefixSize cs pre.length) ∧
        ((leavesOfList os).map WNode.dRangeSize).sum = (os.map WNode.dRangeSize).sum)
    ?_ ?_ ?_ n db
  · intro d cs rs col s t c db ih d' cs' rs' col' s' t' c' heq hne hpl
    injection heq with e1 e2 e3 e4 e5 e6 e7
    subst e1 e2 e3 e4 e5 e6 e7
    simp only [Placed] at hpl
    obtain ⟨hpos, hpl⟩ := hpl
    rcases hpl with h | ⟨ok, hat, hd, hlist⟩
    · exact absurd h hne
    · have := ih cs rs c d db [] rfl (by simp) rfl ok hlist
      simp only [List.length_nil, prefixSize_zero, Nat.add_zero] at this
      rw [leavesOf_branch _ _ _ _ _ _ _ hne]
      simp only [chunksOfNode]
      exact ⟨this.1, by rw [this.2, hd]⟩
  · intro b a cs rs c d db pre _ _ _ _ _
    simp [chunksOfList, leavesOfList, Matches]
  · intro b a o os ih1 ih2 cs rs c d db pre hcs ha hb ok hl
    have hj : pre.length < cs.length := by rw [hcs]; simp
    have hget : cs.getD pre.length default = o := by
      rw [hcs]; simp [List.getD_eq_getElem?_getD]
    simp only [PlacedList] at hl
    obtain ⟨hpo, hbro, hrest⟩ := hl
    have hcs' : cs = (pre ++ [o]) ++ os := by rw [hcs]; simp
    have ha' : a + 1 = (codecIsLong c).toNat + rs.length + (pre ++ [o]).length := by simp; omega
    have h2 := ih2 cs rs c d db (pre ++ [o]) hcs' ha' hb ok hrest
    have hlen : (pre ++ [o]).length = pre.length + 1 := by simp
    rw [hlen, prefixSize_succ cs pre.length hj, hget] at h2
    have hA : a < cs.length + rs.length + (codecIsLong c).toNat := by omega
    have hdoff : b.dOff a = db + prefixSize cs pre.length := by
      rw [hb, pb_dOff nw cs rs c ok 0 0 db a (by omega)]
      unfold vD; congr 2; omega
    simp only [chunksOfList, leavesOfList, List.map_append, List.sum_append, List.map_cons, List.sum_cons]
    by_cases hbr : o.isBranch = true
    · obtain ⟨hc', hs', hlt⟩ := hbro hbr
      cases o with
      | mk d' cs' rs' col' s' t' c' =>
        have hne' : cs' ≠ [] := by
          intro h; rw [h] at hbr; simp [WNode.isBranch, WNode.children] at hbr
        have h1 := ih1 d' cs' rs' col' s' t' c' rfl hne' hpo
        simp only [WNode.codec] at hc'
        subst hc'
        rw [hdoff] at h1
        simp only [WNode.dRangeSize] at h2
        simp only [hbr, ↓reduceIte, hdoff]
        refine ⟨Matches.append h1.1 ?_, by rw [h1.2, h2.2]; rfl⟩
        rw [h1.2]
        simpa [Nat.add_assoc] using h2.1
    · have hbr' : o.isBranch = false := by simpa using hbr
      have hleaf : leavesOf o = [o] := by
        cases o with
        | mk d' cs' rs' col' s' t' c' =>
          have : cs' = [] := by
            cases cs' with
            | nil => rfl
            | cons _ _ => simp [WNode.isBranch, WNode.children] at hbr
          subst this; simp [leavesOf]
      simp only [hbr', Bool.false_eq_true, ↓reduceIte, hleaf, List.cons_append, List.nil_append, Matches,
        List.map_cons, List.map_nil, List.sum_cons, List.sum_nil, Nat.add_zero]
      refine ⟨⟨?_, by simpa [Nat.add_assoc] using h2.1⟩, by rw [h2.2]⟩
      -- the chunk of this leaf
      subst ha
      have hL := long_le_one c
      obtain ⟨r1, g1, g1'⟩ := pb_makeCRange nw cs rs c ok 0 0 db ((codecIsLong c).toNat + rs.length + pre.length) (by omega)
      obtain ⟨lo1, hi1⟩ := g1' hA
      rw [vCO_child nw cs rs c pre.length hj, hget] at lo1 hi1
      simp only [hbr', Bool.false_eq_true, ↓reduceIte, Nat.zero_add] at lo1 hi1
      have hd2 : b.dOff ((codecIsLong c).toNat + rs.length + pre.length + 1) =
          db + prefixSize cs pre.length + o.dRangeSize := by
        rw [hb, pb_dOff nw cs rs c ok 0 0 db _ (by omega)]
        unfold vD
        rw [show (codecIsLong c).toNat + rs.length + pre.length + 1 - ((codecIsLong c).toNat + rs.length) = pre.length + 1 by omega,
          prefixSize_succ cs pre.length hj, hget]
        omega
      have htags := ok.tags o (by rw [← hget]; exact getD_mem cs pre.length default hj)
      obtain ⟨rg2, q2, q2'⟩ := res_range nw cs rs c ok 0 db o.secondary htags.1
      obtain ⟨rg3, q3, q3'⟩ := res_range nw cs rs c ok 0 db o.tertiary htags.2
      have hst := pb_stag nw cs rs c ok 0 0 db _ hA
      rw [vS_child, hget] at hst
      have htt := pb_ttag nw cs rs c ok 0 0 db _ hA
      have hvt : vT cs rs c ((codecIsLong c).toNat + rs.length + pre.length) =
          resourceToTagByte rs o.tertiary (codecIsLong c).toNat := by
        unfold vT
        rw [if_neg (by omega), if_neg (by omega)]
        simp only [show (codecIsLong c).toNat + rs.length + pre.length - (codecIsLong c).toNat - rs.length = pre.length by omega]
        unfold childTTag; rw [hget, hbr']; simp
      rw [hvt] at htt
      unfold ChunkFor leafChunk
      simp only [hdoff, hd2]
      rw [hb, g1, hst, htt, q2, q3]
      refine ⟨?_, ?_, lo1, hi1, q2', q3'⟩ <;> first | rfl | trivial
end WuffsVerif.Rac
