/-
C17: from one bit to `encodeByte`/`decodeByte`, to the loops of `encodeRaw`/`decodeRaw`, to the flush,
to the round trip of the raw range-coded payload.
-/
import WuffsVerif.Proof.LzmaSync

namespace WuffsVerif.Lzma

/-! ## one byte -/

theorem index_step (index b n : Nat) :
    (index * 2 + (b / 2 ^ n) % 2) * 2 ^ n + b % 2 ^ n = index * 2 ^ (n + 1) + b % 2 ^ (n + 1) := by
  rw [Nat.mod_pow_succ, Nat.pow_succ, Nat.add_mul, Nat.mul_assoc, Nat.mul_comm 2 (2 ^ n),
    Nat.mul_comm ((b / 2 ^ n) % 2) (2 ^ n)]
  omega

theorem byteLoop_ok (base b : Nat) : ∀ (n index : Nat) (probs : Array Nat) (e : RangeEncoder),
    Valid e → ProbsOK probs →
    Valid (encodeByteLoop base b n index probs e).2 ∧ ProbsOK (encodeByteLoop base b n index probs e).1 ∧
    ∀ out, Inside (encodeByteLoop base b n index probs e).2 out →
      Inside e out ∧
      ∀ d tail, Sync e d out tail →
        ∃ d', decodeByteLoop base n index probs d
              = some (index * 2 ^ n + b % 2 ^ n, (encodeByteLoop base b n index probs e).1, d') ∧
          Sync (encodeByteLoop base b n index probs e).2 d' out tail := by
  intro n
  induction n with
  | zero =>
    intro index probs e hv hp
    refine ⟨hv, hp, fun out hin => ⟨hin, fun d tail hs => ⟨d, ?_, hs⟩⟩⟩
    simp [decodeByteLoop, encodeByteLoop, Nat.mod_one]
  | succ n ih =>
    intro index probs e hv hp
    have hpi : ProbOK (probs.getD (base + index) probHalf) := hp _
    have hbit : (b >>> n) &&& 1 = (b / 2 ^ n) % 2 := shr_and_one b n
    have hb01 : (b / 2 ^ n) % 2 = 0 ∨ (b / 2 ^ n) % 2 = 1 := by omega
    have hp'ok : ProbOK (encodeBit (probs.getD (base + index) probHalf) e ((b / 2 ^ n) % 2)).1 := by
      rw [encodeBit_eq]
      split
      · exact probUp_ok hpi
      · exact probDown_ok hpi
    have hv' : Valid (encodeBit (probs.getD (base + index) probHalf) e ((b / 2 ^ n) % 2)).2 := by
      rw [encodeBit_eq]; exact encodeBit_valid _ hv hpi
    have hps := probsOK_set hp (base + index) _ hp'ok
    have hunf : encodeByteLoop base b (n + 1) index probs e =
        encodeByteLoop base b n ((index * 2) ||| ((b / 2 ^ n) % 2))
          (probs.setIfInBounds (base + index)
            (encodeBit (probs.getD (base + index) probHalf) e ((b / 2 ^ n) % 2)).1)
          (encodeBit (probs.getD (base + index) probHalf) e ((b / 2 ^ n) % 2)).2 := by
      simp only [encodeByteLoop, hbit]
    rw [hunf]
    obtain ⟨i1, i2, i3⟩ := ih ((index * 2) ||| ((b / 2 ^ n) % 2)) _ _ hv' hps
    refine ⟨i1, i2, fun out hin => ?_⟩
    obtain ⟨j1, j2⟩ := i3 out hin
    have hin_e : Inside e out := by
      rw [encodeBit_eq] at j1
      exact encodeBit_inside _ hv hpi j1
    refine ⟨hin_e, fun d tail hs => ?_⟩
    have j1' := j1
    rw [encodeBit_eq] at j1'
    obtain ⟨d1, hd1, hs1⟩ := decodeBit_sync _ hv hpi hb01 hs j1'
    obtain ⟨d', hd', hs'⟩ := j2 d1 tail hs1
    refine ⟨d', ?_, hs'⟩
    simp only [decodeByteLoop, hd1]
    rw [hd']
    have : (index * 2) ||| ((b / 2 ^ n) % 2) = index * 2 + (b / 2 ^ n) % 2 := mul2_or _ _ (by omega)
    rw [this, index_step]

/-- `encodeByte` keeps the invariants; the final code inside the interval after the byte was inside
    before; a decoder in step before decodes the byte and is in step after. -/
theorem byte_ok (base : Nat) (bv : UInt8) (probs : Array Nat) (e : RangeEncoder)
    (hv : Valid e) (hp : ProbsOK probs) :
    Valid (encodeByte probs base e bv).2 ∧ ProbsOK (encodeByte probs base e bv).1 ∧
    ∀ out, Inside (encodeByte probs base e bv).2 out →
      Inside e out ∧
      ∀ d tail, Sync e d out tail →
        ∃ d', decodeByte probs base d = some (bv, (encodeByte probs base e bv).1, d') ∧
          Sync (encodeByte probs base e bv).2 d' out tail := by
  unfold encodeByte
  obtain ⟨h1, h2, h3⟩ := byteLoop_ok base bv.toNat 8 1 probs e hv hp
  refine ⟨h1, h2, fun out hin => ?_⟩
  obtain ⟨k1, k2⟩ := h3 out hin
  refine ⟨k1, fun d tail hs => ?_⟩
  obtain ⟨d', hd', hs'⟩ := k2 d tail hs
  refine ⟨d', ?_, hs'⟩
  unfold decodeByte
  rw [hd']
  have hlt := bv.toNat_lt
  have : (1 * 2 ^ 8 + bv.toNat % 2 ^ 8).toUInt8 = bv := by
    apply UInt8.toNat_inj.mp
    rw [toUInt8_toNat]
    omega
  simp only [this]

/-! ## the loops of encodeRaw / decodeRaw -/

theorem rawLoop_ok : ∀ (src : List UInt8) (pos : Nat) (prev : UInt8) (pp lp : Array Nat) (e : RangeEncoder),
    Valid e → ProbsOK pp → ProbsOK lp →
    Valid (encodeRawLoop src pos prev pp lp e) ∧
    ∀ out, Inside (encodeRawLoop src pos prev pp lp e) out →
      Inside e out ∧
      ∀ d tail dst eu, Sync e d out tail →
        ∃ d', decodeRawLoop src.length pos prev pp lp d dst eu = (pushList dst src, d'.src, Err.ok) ∧
          Sync (encodeRawLoop src pos prev pp lp e) d' out tail := by
  intro src
  induction src with
  | nil =>
    intro pos prev pp lp e hv _ _
    refine ⟨hv, fun out hin => ⟨hin, fun d tail dst eu hs => ⟨d, ?_, hs⟩⟩⟩
    simp [decodeRawLoop, pushList]
  | cons curr rest ih =>
    intro pos prev pp lp e hv hpp hlp
    have hpi : ProbOK (pp.getD (pos &&& pbMask) probHalf) := hpp _
    have hv1 : Valid (encodeBit (pp.getD (pos &&& pbMask) probHalf) e 0).2 := by
      rw [encodeBit_eq]; exact encodeBit_valid _ hv hpi
    have hp1 : ProbOK (encodeBit (pp.getD (pos &&& pbMask) probHalf) e 0).1 := by
      rw [encodeBit_eq]; exact probUp_ok hpi
    have hpp' := probsOK_set hpp (pos &&& pbMask) _ hp1
    obtain ⟨b1, b2, b3⟩ := byte_ok (litBase pos prev) curr lp _ hv1 hlp
    have hunf : encodeRawLoop (curr :: rest) pos prev pp lp e =
        encodeRawLoop rest ((pos + 1) &&& 0xFFFFFFFF) curr
          (pp.setIfInBounds (pos &&& pbMask) (encodeBit (pp.getD (pos &&& pbMask) probHalf) e 0).1)
          (encodeByte lp (litBase pos prev) (encodeBit (pp.getD (pos &&& pbMask) probHalf) e 0).2 curr).1
          (encodeByte lp (litBase pos prev) (encodeBit (pp.getD (pos &&& pbMask) probHalf) e 0).2 curr).2 := by
      simp only [encodeRawLoop]
    rw [hunf]
    obtain ⟨i1, i2⟩ := ih ((pos + 1) &&& 0xFFFFFFFF) curr _ _ _ b1 hpp' b2
    refine ⟨i1, fun out hin => ?_⟩
    obtain ⟨j1, j2⟩ := i2 out hin
    obtain ⟨k1, k2⟩ := b3 out j1
    have hin_e : Inside e out := by
      rw [encodeBit_eq] at k1
      exact encodeBit_inside 0 hv hpi k1
    refine ⟨hin_e, fun d tail dst eu hs => ?_⟩
    have k1' := k1
    rw [encodeBit_eq] at k1'
    obtain ⟨d1, hd1, hs1⟩ := decodeBit_sync 0 hv hpi (Or.inl rfl) hs k1'
    obtain ⟨d2, hd2, hs2⟩ := k2 d1 tail hs1
    obtain ⟨d', hd', hs'⟩ := j2 d2 tail (dst.push curr) eu hs2
    refine ⟨d', ?_, hs'⟩
    simp only [List.length_cons, decodeRawLoop, hd1, hd2]
    simp only [ne_eq, not_true_eq_false, if_false]
    rw [hd']
    rfl

/-! ## the flush -/

theorem shiftLow_low (e : RangeEncoder) : e.shiftLow.low = (e.low * 256) % 4294967296 := by
  unfold RangeEncoder.shiftLow
  split
  · simp [land32]
  · split <;> simp [land32]

theorem shiftLow_zero (e : RangeEncoder) (h : e.low = 0) :
    e.shiftLow.low = 0 ∧ e.shiftLow.pendingHead = 0 ∧ e.shiftLow.pendingExtra = 0 := by
  unfold RangeEncoder.shiftLow
  simp [h]

/-- **the flush** writes exactly the digits of `L`: the output has `nDig e` bytes and denotes `Lval e`. -/
theorem flush_spec (e : RangeEncoder) (hv : Valid e) :
    e.flush.dst.toList.length = nDig e ∧ val e.flush.dst.toList = Lval e := by
  have hk := hv.k
  have hj := hv.j
  have hwlo := hv.wlo
  have hX : 0 < 256 ^ e.pendingExtra := Nat.pow_pos (by omega)
  have hc : 4294967296 ≤ e.low → e.pendingHead.toNat < 255 := fun hge => pow_cancel hX (by omega)
  obtain ⟨L1, n1, _, l1⟩ := shiftLow_spec e (by omega) hc
  obtain ⟨L2, n2, _, l2⟩ := shiftLow_spec e.shiftLow (by omega) (fun h => by omega)
  obtain ⟨L3, n3, _, l3⟩ := shiftLow_spec e.shiftLow.shiftLow (by omega) (fun h => by omega)
  obtain ⟨L4, n4, _, l4⟩ := shiftLow_spec e.shiftLow.shiftLow.shiftLow (by omega) (fun h => by omega)
  obtain ⟨L5, n5, _, l5⟩ := shiftLow_spec e.shiftLow.shiftLow.shiftLow.shiftLow (by omega) (fun h => by omega)
  have q1 := shiftLow_low e
  have q2 := shiftLow_low e.shiftLow
  have q3 := shiftLow_low e.shiftLow.shiftLow
  have q4 := shiftLow_low e.shiftLow.shiftLow.shiftLow
  have z4 : e.shiftLow.shiftLow.shiftLow.shiftLow.low = 0 := by omega
  obtain ⟨z5, h5, x5⟩ := shiftLow_zero _ z4
  unfold RangeEncoder.flush
  have hdig : digits e.shiftLow.shiftLow.shiftLow.shiftLow.shiftLow
      = e.shiftLow.shiftLow.shiftLow.shiftLow.shiftLow.dst.toList ++ [0] := by
    simp [digits, h5, x5]
  have hL : Lval e.shiftLow.shiftLow.shiftLow.shiftLow.shiftLow
      = val e.shiftLow.shiftLow.shiftLow.shiftLow.shiftLow.dst.toList * 256 * 4294967296 := by
    unfold Lval
    rw [hdig, val_snoc, z5]
    have h0 : (0 : UInt8).toNat = 0 := rfl
    rw [h0]
    omega
  rw [hdig] at n5
  simp only [List.length_append, List.length_singleton] at n5
  unfold nDig
  constructor
  · omega
  · omega

/-! ## the raw round trip -/

/-- the initial encoder state of `encodeRaw` (with an empty `dst`) -/
def encInit : RangeEncoder :=
  { dst := #[], low := 0, width := 0xFFFFFFFF, pendingHead := 0, pendingExtra := 0 }

theorem encInit_valid : Valid encInit := by
  refine ⟨⟨?_, ?_, ?_, ?_⟩, ?_⟩ <;> decide

theorem encodeRaw_nil_eq (src : List UInt8) :
    encodeRaw #[] src = (encodeRawLoop src 0 0 initPosProbs initLitProbs encInit).flush.dst := rfl

theorem bytes4 (s1 s2 s3 s4 : UInt8) :
    (s1.toNat <<< 24) ||| (s2.toNat <<< 16) ||| (s3.toNat <<< 8) ||| s4.toNat
      = val [s1, s2, s3, s4] := by
  have h1 := s1.toNat_lt; have h2 := s2.toNat_lt; have h3 := s3.toNat_lt; have h4 := s4.toNat_lt
  have e3 : (s3.toNat <<< 8) ||| s4.toNat = s3.toNat <<< 8 + s4.toNat :=
    (Nat.shiftLeft_add_eq_or_of_lt h4 _).symm
  have a3 : s3.toNat <<< 8 + s4.toNat < 2 ^ 16 := by rw [Nat.shiftLeft_eq]; omega
  have e2 : (s2.toNat <<< 16) ||| (s3.toNat <<< 8 + s4.toNat) = s2.toNat <<< 16 + (s3.toNat <<< 8 + s4.toNat) :=
    (Nat.shiftLeft_add_eq_or_of_lt a3 _).symm
  have a2 : s2.toNat <<< 16 + (s3.toNat <<< 8 + s4.toNat) < 2 ^ 24 := by
    rw [Nat.shiftLeft_eq, Nat.shiftLeft_eq]; omega
  have e1 : (s1.toNat <<< 24) ||| (s2.toNat <<< 16 + (s3.toNat <<< 8 + s4.toNat))
      = s1.toNat <<< 24 + (s2.toNat <<< 16 + (s3.toNat <<< 8 + s4.toNat)) :=
    (Nat.shiftLeft_add_eq_or_of_lt a2 _).symm
  rw [Nat.or_assoc, Nat.or_assoc, e3, e2, e1]
  simp only [val, List.foldl, Nat.shiftLeft_eq]
  omega

/-- **raw round trip**: `decodeRaw` applied to the output of `encodeRaw` followed by any `tail`, with the
    right `size`, returns the source appended to `dst`, exactly `tail` left over, and no error. -/
theorem raw_roundtrip_tail (dst : Array UInt8) (src tail : List UInt8) (eu : Err) :
    decodeRaw dst ((encodeRaw #[] src).toList ++ tail) src.length eu = (pushList dst src, tail, Err.ok) := by
  rw [encodeRaw_nil_eq]
  obtain ⟨hvf, hall⟩ := rawLoop_ok src 0 0 initPosProbs initLitProbs encInit encInit_valid
    initPosProbs_ok initLitProbs_ok
  generalize hef : encodeRawLoop src 0 0 initPosProbs initLitProbs encInit = ef at *
  obtain ⟨flen, fval⟩ := flush_spec ef hvf
  generalize hout : ef.flush.dst.toList = out at *
  have hwf := hvf.wlo
  have hinf : Inside ef out := by
    refine ⟨by omega, ?_, ?_⟩
    · rw [← flen, List.take_length, fval]; omega
    · rw [← flen, List.take_length, fval]; omega
  obtain ⟨hin0, hsync⟩ := hall out hinf
  obtain ⟨n0, v0, v1⟩ := hin0
  have hnd : nDig encInit = 5 := rfl
  have hL0 : Lval encInit = 0 := rfl
  have hw0 : encInit.width = 4294967295 := rfl
  rw [hnd] at n0 v0 v1
  rw [hL0, hw0] at v1
  rcases out with _ | ⟨s0, _ | ⟨s1, _ | ⟨s2, _ | ⟨s3, _ | ⟨s4, rest⟩⟩⟩⟩⟩
  · exact absurd n0 (by decide)
  · exact absurd n0 (by simp)
  · exact absurd n0 (by simp)
  · exact absurd n0 (by simp)
  · exact absurd n0 (by simp)
  · have hv5 : val (List.take 5 (s0 :: s1 :: s2 :: s3 :: s4 :: rest)) = val [s0, s1, s2, s3, s4] := rfl
    rw [hv5] at v1
    have hval5 : val [s0, s1, s2, s3, s4] = s0.toNat * 4294967296 + val [s1, s2, s3, s4] := by
      have := val_cons s0 [s1, s2, s3, s4]
      simpa using this
    have h40 : val [s1, s2, s3, s4] < 4294967296 := by
      have := val_lt [s1, s2, s3, s4]; simpa using this
    have hs0 : s0 = 0 := by
      apply UInt8.toNat_inj.mp
      show s0.toNat = 0
      omega
    subst hs0
    have hsync0 : Sync encInit
        { src := rest ++ tail,
          bits := (s1.toNat <<< 24) ||| (s2.toNat <<< 16) ||| (s3.toNat <<< 8) ||| s4.toNat,
          width := 0xFFFFFFFF } (0 :: s1 :: s2 :: s3 :: s4 :: rest) tail := by
      refine ⟨rfl, by rw [hnd]; simp, by rw [hnd]; rfl, ?_⟩
      rw [hnd, hL0, hv5, hval5, bytes4]
      simp
    obtain ⟨d', hd', hs'⟩ := hsync _ tail dst eu hsync0
    simp only [List.cons_append, decodeRaw, ne_eq, not_true_eq_false, if_false]
    rw [hd']
    obtain ⟨_, _, hsrc, _⟩ := hs'
    rw [hsrc, ← flen]
    simp

end WuffsVerif.Lzma
